(* Flow facts for two credential-bearing flows.
   C14: the OAuth2 callback does nothing at all unless the request carries the state value the
        session holds; when it does, the state (and the stored parameters) are deleted from the
        session before anything else happens; a provider error never touches the identity.
   C07: a remember cookie that logs somebody in is used up and replaced (storage and cookie),
        a cookie that is malformed or unknown is deleted and logs nobody in. *)
From AB Require Import World.Handlers Proofs.EvLogic Proofs.Neutral Proofs.HandlerEvents Proofs.MonadInv Proofs.StoreLogic.
Open Scope Z_scope.

Ltac flow_hooks :=
  match goal with
  | |- evs_all sess_neutral any_ev (fire _ _ _) => apply neutral_fire
  | |- evs_all sess_nodrop any_ev (fire _ _ _) =>
      eapply evs_weaken; [apply neutral_nodrop_ev | intros ? Hx; exact Hx | apply neutral_fire]
  end.
Ltac flow_go := repeat (unfold_derived; cbn beta iota; first [flow_hooks | evs_step]); try side.

(* ---- primitives, on abstract keys and values ------------------------------------------------ *)
Lemma log_spec a h r h' : log a h = (r, h') ->
  r = Ok tt /\ h_sev h' = h_sev h /\ h_cev h' = h_cev h /\ h_st h' = h_st h /\ h_ncalls h' = h_ncalls h.
Proof. intros Eq. inversion Eq; subst. repeat split. Qed.
Lemma set_cpid_spec p h r h' : set_cpid p h = (r, h') ->
  r = Ok tt /\ h_sev h' = h_sev h /\ h_cev h' = h_cev h /\ h_st h' = h_st h.
Proof. intros Eq. inversion Eq; subst. repeat split. Qed.
Lemma put_session_spec k v h r h' : put_session k v h = (r, h') ->
  r = Ok tt /\ h_sev h' = h_sev h ++ [Put k v] /\ h_cev h' = h_cev h /\ h_st h' = h_st h.
Proof. intros Eq. inversion Eq; subst. repeat split. Qed.
Lemma del_session_spec k h r h' : del_session k h = (r, h') ->
  r = Ok tt /\ h_sev h' = h_sev h ++ [Del k] /\ h_cev h' = h_cev h /\ h_st h' = h_st h.
Proof. intros Eq. inversion Eq; subst. repeat split. Qed.
Lemma put_cookie_spec k v h r h' : put_cookie k v h = (r, h') ->
  r = Ok tt /\ h_sev h' = h_sev h /\ h_cev h' = h_cev h ++ [Put k v] /\ h_st h' = h_st h.
Proof. intros Eq. inversion Eq; subst. repeat split. Qed.
Lemma del_cookie_spec k h r h' : del_cookie k h = (r, h') ->
  r = Ok tt /\ h_sev h' = h_sev h /\ h_cev h' = h_cev h ++ [Del k] /\ h_st h' = h_st h.
Proof. intros Eq. inversion Eq; subst. repeat split. Qed.

Lemma take_chunk_length n l c t : take_chunk n l = Some (c, t) -> length c = n.
Proof.
  revert c t. induction l as [|x l IH]; simpl; intros c t Eq; [discriminate|].
  destruct (Nat.eqb (length x) n) eqn:Ln.
  - inversion Eq; subst. apply Nat.eqb_eq. exact Ln.
  - destruct (take_chunk n l) as [[y t']|]; [|discriminate]. inversion Eq; subst. eapply IH; reflexivity.
Qed.

Lemma fresh_spec n h r h' : fresh n h = (r, h') ->
  exists c, r = Ok c /\ length c = n /\ h_sev h' = h_sev h /\ h_cev h' = h_cev h /\ h_st h' = h_st h.
Proof.
  unfold fresh. intros Eq. destruct (take_chunk n (h_fresh h)) as [[c t]|] eqn:Tk; inversion Eq; subst.
  - exists c. repeat split. eapply take_chunk_length; eauto.
  - exists (repeat x00 n). repeat split. apply repeat_length.
Qed.

Lemma app_same_nil {A} (l ls : list A) : l = l ++ ls -> ls = [].
Proof. intros H. rewrite <- (app_nil_r l) in H at 1. apply app_inv_head in H. auto. Qed.

Section FP.
Variable E : env.
Notation C := (e_C E).
Notation cfg := (e_cfg E).

(* ================================ C14: oauth2_end ============================================== *)

(* no session state, or a submitted state that is not the session's: an error, and nothing
   happened: no backend call, no storage change, no client-state event *)
Theorem oauth2_end_mismatch_no_calls prov h r h' :
  alookup k_oauth_state (e_sess E) <> Some (form_value E f_state) ->
  oauth2_end E prov h = (r, h') ->
  r = Err ErrOther /\ h_ncalls h' = h_ncalls h /\ h_st h' = h_st h /\ h_sev h' = h_sev h /\ h_cev h' = h_cev h.
Proof.
  intros Hne Eq. unfold oauth2_end in Eq.
  apply bind_inv in Eq as [(a1 & k1 & F1 & Eq)|[(e & F1 & _)|(F1 & _)]]; try (inversion F1; fail).
  apply log_spec in F1 as (_ & S1 & C1 & T1 & N1).
  destruct (bmem prov (c_providers cfg)); cbn [negb] in Eq.
  2:{ inversion Eq; subst. auto. }
  destruct (alookup k_oauth_state (e_sess E)) as [want|] eqn:Al.
  2:{ inversion Eq; subst. auto. }
  destruct (beqb (form_value E f_state) want) eqn:B; cbn [negb] in Eq.
  - exfalso. apply beqb_eq in B. apply Hne. rewrite B. reflexivity.
  - inversion Eq; subst. auto.
Qed.

(* a matching state is spent first: whatever the rest of the callback does (provider error,
   exchange failure, storage failure, success), the session events it appended begin with the
   deletion of the state and of the stored parameters *)
Theorem oauth2_end_spends_state prov h r h' :
  bmem prov (c_providers cfg) = true ->
  alookup k_oauth_state (e_sess E) = Some (form_value E f_state) ->
  oauth2_end E prov h = (r, h') ->
  exists tail, h_sev h' = h_sev h ++ Del k_oauth_state :: Del k_oauth_params :: tail.
Proof.
  intros Pv Al Eq. unfold oauth2_end in Eq.
  apply bind_inv in Eq as [(a1 & k1 & F1 & Eq)|[(e & F1 & _)|(F1 & _)]]; try (inversion F1; fail).
  apply log_spec in F1 as (_ & S1 & _).
  rewrite Pv, Al, beqb_refl in Eq. cbn [negb] in Eq. cbv zeta in Eq.
  apply bind_inv in Eq as [(a2 & k2 & F2 & Eq)|[(e & F2 & _)|(F2 & _)]]; try (inversion F2; fail).
  apply del_session_spec in F2 as (_ & S2 & _).
  apply bind_inv in Eq as [(a3 & k3 & F3 & Eq)|[(e & F3 & _)|(F3 & _)]]; try (inversion F3; fail).
  apply del_session_spec in F3 as (_ & S3 & _).
  match type of Eq with ?m k3 = _ => assert (Hm : evs_all sess_nodrop any_ev m) by flow_go end.
  destruct (Hm _ _ _ Eq) as [(ls & lc & S4 & _) _].
  exists ls. rewrite S4, S3, S2, S1, <- !app_assoc. reflexivity.
Qed.

(* a callback carrying a provider error never touches the session's identity, and storage
   stays as it was *)
Theorem oauth2_end_provider_error_neutral prov h r h' :
  bempty (form_value E f_error) = false ->
  oauth2_end E prov h = (r, h') ->
  (exists ls lc, h_sev h' = h_sev h ++ ls /\ h_cev h' = h_cev h ++ lc /\ Forall sess_neutral ls) /\
  h_st h' = h_st h.
Proof.
  intros Hne Eq. split.
  - assert (Hm : evs_all sess_neutral any_ev (oauth2_end E prov)).
    { unfold oauth2_end. cbv zeta. rewrite Hne. cbn [negb]. flow_go. }
    destruct (Hm _ _ _ Eq) as [(ls & lc & S & Cc & F & _) _]. eauto.
  - assert (Hp : pres h_st (oauth2_end E prov)).
    { unfold oauth2_end. cbv zeta. rewrite Hne. cbn [negb]. pres_go. }
    exact (Hp _ _ _ Eq).
Qed.

(* ================================ C07: remember_authenticate ================================== *)
Notation O := (e_O E).

Lemma st_use_rm_exact pid tok h r h' :
  st_use_rm O pid tok h = (r, h') ->
  h_sev h' = h_sev h /\ h_cev h' = h_cev h /\
  ((r = Ok tt /\ bmem tok (rmlookup pid (s_rm (h_st h))) = true /\
    h_st h' = h_st h <| s_rm := rmput pid (remove_first tok (rmlookup pid (s_rm (h_st h)))) (s_rm (h_st h)) |>) \/
   (r = Err ErrTokenNotFound /\ h_st h' = h_st h /\
    (bmem tok (rmlookup pid (s_rm (h_st h))) = false \/ o_faults O <> [])) \/
   (r = Err ErrOther /\ h_st h' = h_st h /\ o_faults O <> [])).
Proof.
  unfold st_use_rm, backend. intros Eq.
  destruct (fault_at (h_ncalls h) (o_faults O)) as [[|]|] eqn:Ft.
  - inversion Eq; subst. repeat split. right. right. repeat split. intros Hn. rewrite Hn in Ft. discriminate Ft.
  - inversion Eq; subst. repeat split. right. left. repeat split. right. intros Hn. rewrite Hn in Ft. discriminate Ft.
  - cbv zeta in Eq.
    match type of Eq with context [bmem tok ?ts] => change ts with (rmlookup pid (s_rm (h_st h))) in Eq end.
    destruct (bmem tok (rmlookup pid (s_rm (h_st h)))) eqn:L; inversion Eq; subst.
    + repeat split. left. repeat split.
    + repeat split. right. left. repeat split. left. reflexivity.
Qed.

Lemma st_add_rm_exact pid tok h r h' :
  st_add_rm O pid tok h = (r, h') ->
  h_sev h' = h_sev h /\ h_cev h' = h_cev h /\
  ((r = Ok tt /\ h_st h' = h_st h <| s_rm := rmput pid (rmlookup pid (s_rm (h_st h)) ++ [tok]) (s_rm (h_st h)) |>) \/
   (exists e, r = Err e)).
Proof.
  unfold st_add_rm, backend. intros Eq.
  destruct (fault_at (h_ncalls h) (o_faults O)) as [[|]|] eqn:Ft; inversion Eq; subst; repeat split; eauto.
Qed.

Lemma rm_generate_spec pid h r h' :
  rm_generate E pid h = (r, h') ->
  exists nonce, length nonce = 32%nat /\
    r = Ok (b64std_enc (sha C (pid ++ ";"%byte :: nonce)), b64url_enc (pid ++ ";"%byte :: nonce)) /\
    h_sev h' = h_sev h /\ h_cev h' = h_cev h /\ h_st h' = h_st h.
Proof.
  unfold rm_generate. intros Eq.
  apply bind_inv in Eq as [(c & k1 & F1 & Eq)|[(e & F1 & _)|(F1 & _)]];
    apply fresh_spec in F1 as (c' & Hr & Ln & S & Cc & St); try discriminate Hr.
  inversion Hr; subst c'. inversion Eq; subst. exists c. repeat split; auto.
Qed.

Definition appends_uid (h h' : hst) (U : bytes) : Prop :=
  exists ls, h_sev h' = h_sev h ++ ls /\ In (Put k_uid U) ls.

Lemma same_sev_no_uid h h' U : h_sev h' = h_sev h -> ~ appends_uid h h' U.
Proof. intros S (ls & A & I). rewrite S in A. apply app_same_nil in A. subst ls. exact I. Qed.

(* a cookie that logs U in: it named U, its hash was among U's stored tokens and is taken out,
   a fresh token for U is stored and sent, and nothing else is written to session or cookies *)
Theorem remember_use_rotates_lemma h r h' U :
  remember_authenticate E h = (r, h') -> appends_uid h h' U ->
  exists cookie raw nonce,
    alookup k_rm (e_cook E) = Some cookie /\ b64url_dec cookie = Some raw /\ rm_parse_pid raw = Some U /\
    length nonce = 32%nat /\
    let hash := b64std_enc (sha C raw) in
    let raw' := U ++ ";"%byte :: nonce in
    r = Ok tt /\
    bmem hash (rmlookup U (s_rm (h_st h))) = true /\
    h_sev h' = h_sev h ++ [Put k_uid U; Put k_halfauth v_true] /\
    h_cev h' = h_cev h ++ [Del k_rm; Put k_rm (b64url_enc raw')] /\
    rmlookup U (s_rm (h_st h')) = remove_first hash (rmlookup U (s_rm (h_st h))) ++ [b64std_enc (sha C raw')].
Proof.
  intros Eq Ap. unfold remember_authenticate in Eq.
  destruct (alookup k_rm (e_cook E)) as [cookie|] eqn:Ck.
  2:{ exfalso. inversion Eq; subst. revert Ap. apply same_sev_no_uid. reflexivity. }
  destruct (b64url_dec cookie) as [raw|] eqn:Dc.
  2:{ exfalso. revert Ap. apply same_sev_no_uid.
      apply bind_inv in Eq as [(a1 & k1 & F1 & Eq)|[(e & F1 & _)|(F1 & _)]]; try (inversion F1; fail).
      apply del_cookie_spec in F1 as (_ & S1 & _). apply log_spec in Eq as (_ & S2 & _). congruence. }
  destruct (rm_parse_pid raw) as [pid|] eqn:Pp.
  2:{ exfalso. revert Ap. apply same_sev_no_uid.
      apply bind_inv in Eq as [(a1 & k1 & F1 & Eq)|[(e & F1 & _)|(F1 & _)]]; try (inversion F1; fail).
      apply del_cookie_spec in F1 as (_ & S1 & _). apply log_spec in Eq as (_ & S2 & _). congruence. }
  cbv zeta in Eq.
  apply try_inv in Eq as [(x & k1 & L & NP & Eq)|(L & ->)].
  2:{ exfalso. apply st_use_rm_exact in L as (_ & _ & [(Hx & _)|[(Hx & _)|(Hx & _)]]); discriminate Hx. }
  apply st_use_rm_exact in L as (S1 & C1 & [(-> & Bm & T1)|[(-> & T1 & _)|(-> & T1 & _)]]).
  - (* the token was there and has been taken out *)
    apply bind_inv in Eq as [(gt & k2 & F2 & Eq)|[(e & F2 & ->)|(F2 & ->)]];
      apply rm_generate_spec in F2 as (nonce & Ln & Hr & S2 & C2 & T2); try discriminate Hr.
    inversion Hr; subst gt; clear Hr. cbn beta iota in Eq.
    apply bind_inv in Eq as [(a3 & k3 & F3 & Eq)|[(e & F3 & ->)|(F3 & ->)]].
    2,3: exfalso; revert Ap; apply same_sev_no_uid;
         apply try_inv in F3 as [(y & k4 & L4 & _ & F3)|(L4 & _)];
         apply st_add_rm_exact in L4 as (S4 & _);
         try (destruct y as [[]|e'|]; inversion F3; subst); congruence.
    apply try_inv in F3 as [(y & k4 & L4 & NP4 & F3)|(L4 & Hp)]; [|discriminate Hp].
    apply st_add_rm_exact in L4 as (S4 & C4 & [(-> & T4)|(e' & ->)]); [|inversion F3].
    inversion F3; subst a3 k4; clear F3.
    apply bind_inv in Eq as [(a5 & k5 & F5 & Eq)|[(e & F5 & _)|(F5 & _)]]; try (inversion F5; fail).
    apply set_cpid_spec in F5 as (_ & S5 & C5 & T5).
    apply bind_inv in Eq as [(a6 & k6 & F6 & Eq)|[(e & F6 & _)|(F6 & _)]]; try (inversion F6; fail).
    apply put_session_spec in F6 as (_ & S6 & C6 & T6).
    apply bind_inv in Eq as [(a7 & k7 & F7 & Eq)|[(e & F7 & _)|(F7 & _)]]; try (inversion F7; fail).
    apply put_session_spec in F7 as (_ & S7 & C7 & T7).
    apply bind_inv in Eq as [(a8 & k8 & F8 & Eq)|[(e & F8 & _)|(F8 & _)]]; try (inversion F8; fail).
    apply del_cookie_spec in F8 as (_ & S8 & C8 & T8).
    apply put_cookie_spec in Eq as (-> & S9 & C9 & T9).
    assert (Sf : h_sev h' = h_sev h ++ [Put k_uid pid; Put k_halfauth v_true]).
    { rewrite S9, S8, S7, S6, S5, S4, S2, S1, <- app_assoc. reflexivity. }
    assert (U = pid).
    { destruct Ap as (ls & A & I). rewrite Sf in A. apply app_inv_head in A. subst ls.
      destruct I as [I|[I|[]]].
      - inversion I; reflexivity.
      - exfalso. inversion I. }
    subst pid. exists cookie, raw, nonce. repeat split; auto.
    + rewrite C9, C8, C7, C6, C5, C4, C2, C1, <- app_assoc. reflexivity.
    + rewrite T9, T8, T7, T6, T5, T4, T2, T1. simpl. rewrite !rmlookup_rmput_eq. reflexivity.
  - exfalso. revert Ap. apply same_sev_no_uid.
    apply bind_inv in Eq as [(a1 & k2 & F1 & Eq)|[(e & F1 & _)|(F1 & _)]]; try (inversion F1; fail).
    apply log_spec in F1 as (_ & S2 & _). apply del_cookie_spec in Eq as (_ & S3 & _). congruence.
  - exfalso. revert Ap. apply same_sev_no_uid. inversion Eq; subst. exact S1.
Qed.

(* a cookie that does not decode, does not name an account, or (no backend fault) whose hash
   is not among the named account's tokens: deleted, nobody logged in, storage untouched *)
Theorem remember_bad_cookie_lemma h r h' cookie :
  alookup k_rm (e_cook E) = Some cookie ->
  (b64url_dec cookie = None \/
   (exists raw, b64url_dec cookie = Some raw /\ rm_parse_pid raw = None) \/
   (exists raw pid, b64url_dec cookie = Some raw /\ rm_parse_pid raw = Some pid /\
      bmem (b64std_enc (sha C raw)) (rmlookup pid (s_rm (h_st h))) = false /\ o_faults O = [])) ->
  remember_authenticate E h = (r, h') ->
  r = Ok tt /\ h_cev h' = h_cev h ++ [Del k_rm] /\ h_sev h' = h_sev h /\ h_st h' = h_st h.
Proof.
  intros Ck Bad Eq. unfold remember_authenticate in Eq. rewrite Ck in Eq.
  destruct Bad as [Dc|[(raw & Dc & Pp)|(raw & pid & Dc & Pp & Bm & NF)]]; rewrite Dc in Eq; try rewrite Pp in Eq.
  - apply bind_inv in Eq as [(a1 & k1 & F1 & Eq)|[(e & F1 & _)|(F1 & _)]]; try (inversion F1; fail).
    apply del_cookie_spec in F1 as (_ & S1 & C1 & T1). apply log_spec in Eq as (-> & S2 & C2 & T2 & _).
    repeat split; congruence.
  - apply bind_inv in Eq as [(a1 & k1 & F1 & Eq)|[(e & F1 & _)|(F1 & _)]]; try (inversion F1; fail).
    apply del_cookie_spec in F1 as (_ & S1 & C1 & T1). apply log_spec in Eq as (-> & S2 & C2 & T2 & _).
    repeat split; congruence.
  - cbv zeta in Eq.
    apply try_inv in Eq as [(x & k1 & L & NP & Eq)|(L & ->)].
    2:{ exfalso. apply st_use_rm_exact in L as (_ & _ & [(Hx & _)|[(Hx & _)|(Hx & _)]]); discriminate Hx. }
    apply st_use_rm_exact in L as (S1 & C1 & [(_ & Bm' & _)|[(-> & T1 & _)|(_ & _ & Hf)]]); [congruence| |congruence].
    apply bind_inv in Eq as [(a1 & k2 & F1 & Eq)|[(e & F1 & _)|(F1 & _)]]; try (inversion F1; fail).
    apply log_spec in F1 as (_ & S2 & C2 & T2 & _). apply del_cookie_spec in Eq as (-> & S3 & C3 & T3).
    repeat split; congruence.
Qed.
End FP.
