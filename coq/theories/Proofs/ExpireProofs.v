(* C09 — idle expiry (expire.Middleware).  What the middleware does to the session events
   and which view of the session it hands downstream, case by case; what the hidden view
   shows; and the sequence corollary: a session survives a run of requests iff every gap
   between consecutive requests is shorter than ExpireAfter. *)
From AB Require Import World.Handlers World.Step Base.TextProofs Proofs.EvLogic Proofs.MonadInv Proofs.LogoutProofs.
Open Scope Z_scope.

Section X.
Variable E : env.
Notation cfg := (e_cfg E).
Notation sess0 := (e_sess E).
Notation now := (o_now (e_O E)).

Definition expired_view : amap := filter (fun kv => bmem (fst kv) (c_whitelist cfg)) sess0.
Definition expire_sev : list csevent :=
  [DelAll (bjoin ","%byte (c_whitelist cfg)); Del k_uid; Del k_last_action].

(* the two branches, as computations *)
Lemma expire_branch_expired h :
  (delall_session (c_whitelist cfg) ;;; del_session k_uid ;;; del_session k_last_action ;;;
   ret (filter (fun kv => bmem (fst kv) (c_whitelist cfg)) sess0)) h
  = (Ok expired_view,
     h <| h_sev := h_sev h ++ [DelAll (bjoin ","%byte (c_whitelist cfg))] |>
       <| h_sev := (h_sev h ++ [DelAll (bjoin ","%byte (c_whitelist cfg))]) ++ [Del k_uid] |>
       <| h_sev := ((h_sev h ++ [DelAll (bjoin ","%byte (c_whitelist cfg))]) ++ [Del k_uid]) ++ [Del k_last_action] |>).
Proof. reflexivity. Qed.

Lemma expire_branch_alive h :
  (put_session k_last_action (zdec now) ;;; ret sess0) h
  = (Ok sess0, h <| h_sev := h_sev h ++ [Put k_last_action (zdec now)] |>).
Proof. reflexivity. Qed.

(* nobody logged in: nothing happens *)
Lemma expire_mw_no_user_lemma : forall h r h', expire_mw E h = (r, h') ->
  ahas k_uid sess0 = false -> r = Ok sess0 /\ h' = h.
Proof.
  intros h r h' Eq Hu. unfold expire_mw in Eq. rewrite Hu in Eq. inversion Eq; auto.
Qed.

(* stamp + ExpireAfter <= now: exactly the three deletions, downstream sees the filtered view *)
Lemma expire_mw_expired_lemma : forall h r h' ds d, expire_mw E h = (r, h') ->
  ahas k_uid sess0 = true -> alookup k_last_action sess0 = Some ds -> zparse ds = Some d ->
  d + c_expire_after cfg <= now ->
  r = Ok (filter (fun kv => bmem (fst kv) (c_whitelist cfg)) sess0) /\
  h_sev h' = h_sev h ++ [DelAll (bjoin ","%byte (c_whitelist cfg)); Del k_uid; Del k_last_action] /\
  h_cev h' = h_cev h.
Proof.
  intros h r h' ds d Eq Hu Hl Hp Hle. unfold expire_mw in Eq. rewrite Hu, Hl, Hp in Eq.
  apply Z.leb_le in Hle. rewrite Hle in Eq. rewrite expire_branch_expired in Eq.
  inversion Eq; subst. simpl. rewrite <- !app_assoc. simpl. auto.
Qed.

(* now < stamp + ExpireAfter: exactly one Put of the new stamp, downstream sees everything *)
Lemma expire_mw_alive_lemma : forall h r h' ds d, expire_mw E h = (r, h') ->
  ahas k_uid sess0 = true -> alookup k_last_action sess0 = Some ds -> zparse ds = Some d ->
  now < d + c_expire_after cfg ->
  r = Ok sess0 /\ h_sev h' = h_sev h ++ [Put k_last_action (zdec now)] /\ h_cev h' = h_cev h.
Proof.
  intros h r h' ds d Eq Hu Hl Hp Hlt. unfold expire_mw in Eq. rewrite Hu, Hl, Hp in Eq.
  apply Z.leb_gt in Hlt. rewrite Hlt in Eq. rewrite expire_branch_alive in Eq.
  inversion Eq; subst. simpl. auto.
Qed.

(* a logged-in session that carries no stamp at all (the model reads the missing stamp as
   "expired iff ExpireAfter <= 0", Handlers.v expire_mw): same two outcomes *)
Lemma expire_mw_no_stamp_lemma : forall h r h', expire_mw E h = (r, h') ->
  ahas k_uid sess0 = true -> alookup k_last_action sess0 = None ->
  (c_expire_after cfg <= 0 ->
     r = Ok (filter (fun kv => bmem (fst kv) (c_whitelist cfg)) sess0) /\
     h_sev h' = h_sev h ++ [DelAll (bjoin ","%byte (c_whitelist cfg)); Del k_uid; Del k_last_action]) /\
  (0 < c_expire_after cfg ->
     r = Ok sess0 /\ h_sev h' = h_sev h ++ [Put k_last_action (zdec now)]).
Proof.
  intros h r h' Eq Hu Hl. unfold expire_mw in Eq. rewrite Hu, Hl in Eq. split; intros Hc.
  - apply Z.leb_le in Hc. rewrite Hc in Eq. rewrite expire_branch_expired in Eq.
    inversion Eq; subst. simpl. rewrite <- !app_assoc. simpl. auto.
  - apply Z.leb_gt in Hc. rewrite Hc in Eq. rewrite expire_branch_alive in Eq.
    inversion Eq; subst. simpl. auto.
Qed.

(* E1, in the requested combined form *)
Lemma expire_mw_spec_lemma : forall h r h', expire_mw E h = (r, h') ->
  (ahas k_uid sess0 = false -> r = Ok sess0 /\ h_sev h' = h_sev h) /\
  (ahas k_uid sess0 = true -> forall ds d, alookup k_last_action sess0 = Some ds -> zparse ds = Some d ->
     (d + c_expire_after cfg <= now ->
        r = Ok (filter (fun kv => bmem (fst kv) (c_whitelist cfg)) sess0) /\
        h_sev h' = h_sev h ++ [DelAll (bjoin ","%byte (c_whitelist cfg)); Del k_uid; Del k_last_action]) /\
     (now < d + c_expire_after cfg ->
        r = Ok sess0 /\ h_sev h' = h_sev h ++ [Put k_last_action (zdec now)])) /\
  h_cev h' = h_cev h.
Proof.
  intros h r h' Eq. split; [|split].
  - intros Hu. destruct (expire_mw_no_user_lemma _ _ _ Eq Hu) as (-> & ->). auto.
  - intros Hu ds d Hl Hp. split; intros Hc.
    + destruct (expire_mw_expired_lemma _ _ _ _ _ Eq Hu Hl Hp Hc) as (A & B & _). auto.
    + destruct (expire_mw_alive_lemma _ _ _ _ _ Eq Hu Hl Hp Hc) as (A & B & _). auto.
  - revert Eq. unfold expire_mw.
    destruct (ahas k_uid sess0); [|intros Eq; inversion Eq; reflexivity].
    match goal with |- (if ?c then _ else _) h = _ -> _ => destruct c end.
    + rewrite expire_branch_expired. intros Eq; inversion Eq; reflexivity.
    + rewrite expire_branch_alive. intros Eq; inversion Eq; reflexivity.
Qed.
(* one request, in the vocabulary of the sequence corollary below: the session is kept
   (the only event is the refreshed stamp) exactly when [survives] says so *)
Lemma expire_mw_step_survives_lemma : forall h r h' ds d, expire_mw E h = (r, h') ->
  ahas k_uid sess0 = true -> alookup k_last_action sess0 = Some ds -> zparse ds = Some d ->
  ((if d + c_expire_after cfg <=? now then false else true) = true <->
   h_sev h' = h_sev h ++ [Put k_last_action (zdec now)]).
Proof.
  intros h r h' ds d Eq Hu Hl Hp. destruct (d + c_expire_after cfg <=? now) eqn:L.
  - apply Z.leb_le in L. destruct (expire_mw_expired_lemma _ _ _ _ _ Eq Hu Hl Hp L) as (_ & S & _).
    split; [discriminate|]. intros S'. rewrite S in S'. apply app_inv_head in S'. discriminate S'.
  - apply Z.leb_gt in L. destruct (expire_mw_alive_lemma _ _ _ _ _ Eq Hu Hl Hp L) as (_ & S & _).
    split; auto.
Qed.
End X.

(* the store then holds the new stamp, it parses back to [now], and the user is untouched:
   the next request compares against THIS request's time *)
Lemma expire_refresh_jar_lemma : forall (j : amap) (now : Z), Z.abs now < 10 ^ 40 ->
  let j' := apply_events j [Put k_last_action (zdec now)] in
  alookup k_last_action j' = Some (zdec now) /\ zparse (zdec now) = Some now /\
  alookup k_uid j' = alookup k_uid j.
Proof.
  intros j now Hb j'. unfold j'.
  change (apply_events j [Put k_last_action (zdec now)]) with (aput k_last_action (zdec now) j).
  split; [apply alookup_aput_eq|split].
  - apply zparse_zdec. exact Hb.
  - apply alookup_aput_neq. intro H. vm_compute in H. discriminate H.
Qed.

(* ---- E2: what the hidden view shows ---------------------------------------------------- *)
Lemma expired_view_hides_lemma : forall (wl : list bytes) (s : amap),
  let v := filter (fun kv => bmem (fst kv) wl) s in
  (forall k, bmem k wl = false -> alookup k v = None) /\
  (forall k, bmem k wl = true -> alookup k v = alookup k s).
Proof.
  intros wl s v. unfold v. split; intros k Hk;
    rewrite (alookup_filter_key (fun x => bmem x wl)); rewrite Hk; reflexivity.
Qed.

(* in particular the user identity is hidden unless the application whitelisted it *)
Lemma expired_view_no_uid_lemma : forall (wl : list bytes) (s : amap),
  bmem k_uid wl = false -> ahas k_uid (filter (fun kv => bmem (fst kv) wl) s) = false.
Proof.
  intros wl s H. unfold ahas. rewrite (proj1 (expired_view_hides_lemma wl s) _ H). reflexivity.
Qed.

(* ---- E3: sequences of requests --------------------------------------------------------- *)
(* the stamp is refreshed by every request that finds the session alive *)
Fixpoint survives (E : Z) (stamp : Z) (ts : list Z) : bool :=
  match ts with
  | [] => true
  | t :: r => if stamp + E <=? t then false else survives E t r
  end.

(* every gap between consecutive instants of t0 :: ts is shorter than E *)
Fixpoint gaps_below (E : Z) (t0 : Z) (ts : list Z) : Prop :=
  match ts with
  | [] => True
  | t :: r => t - t0 < E /\ gaps_below E t r
  end.

Lemma survives_iff_gaps_lemma : forall (E t0 : Z) (ts : list Z),
  survives E t0 ts = true <-> gaps_below E t0 ts.
Proof.
  intros E t0 ts. revert t0. induction ts as [|t r IH]; intros t0; simpl.
  - tauto.
  - destruct (t0 + E <=? t) eqn:L.
    + apply Z.leb_le in L. split; [discriminate|]. intros [G _]. lia.
    + apply Z.leb_gt in L. rewrite IH. split; [intros G; split; [lia|exact G]|tauto].
Qed.

(* the first too-long gap kills the session for good, whatever follows *)
Lemma survives_app_lemma : forall (E t0 : Z) (a b : list Z),
  survives E t0 (a ++ b) = true -> survives E t0 a = true.
Proof.
  intros E t0 a b. revert t0. induction a as [|t r IH]; intros t0; simpl; [reflexivity|].
  destruct (t0 + E <=? t); [discriminate|apply IH].
Qed.
