(* C03 / C02 at handler level for the remaining login paths: the login part of recover-end,
   the two second-factor validate handlers, the OAuth2 callback (lock only) and the one-time
   password login.  Same style as NoLogin.v / Hijack.v: the short head of each handler is
   inverted by hand, the refusing hook decides, the long tail is never run; everything that
   is appended on the way is uid-neutral. *)
From AB Require Import World.Handlers Proofs.EvLogic Proofs.Neutral Proofs.HandlerEvents Proofs.MonadInv
  Proofs.Guards Proofs.StoreLogic Proofs.Veto Proofs.NoLogin Proofs.Hijack.
Open Scope Z_scope.

#[local] Instance dep_cuser3 : StDep h_cuser.
Proof. intros h h' _ B. exact B. Qed.

(* result postcondition: whatever value a computation returns satisfies Q *)
Definition rpost {A} (Q : A -> Prop) (m : M A) : Prop := forall h a h', m h = (Ok a, h') -> Q a.

Lemma rpost_ret {A} (Q : A -> Prop) a : Q a -> rpost Q (ret a).
Proof. intros H h x h' Eq. inversion Eq; subst. exact H. Qed.
Lemma rpost_fail {A} (Q : A -> Prop) e : rpost Q (fail e).
Proof. intros h x h' Eq. inversion Eq. Qed.
Lemma rpost_bind {A B} (Q : B -> Prop) (m : M A) (f : A -> M B) : (forall a, rpost Q (f a)) -> rpost Q (bind m f).
Proof.
  intros Hf h b h' Eq. apply bind_inv in Eq as [(a & h1 & E1 & E2)|[(e & _ & Hr)|(_ & Hr)]]; try discriminate Hr.
  eapply Hf; eauto.
Qed.

Ltac rpost_step :=
  match goal with
  | |- rpost _ (bind _ _) => apply rpost_bind; intros
  | |- rpost _ (ret _) => apply rpost_ret
  | |- rpost _ (fail _) => apply rpost_fail
  | |- rpost _ (if ?c then _ else _) => destruct c
  | |- rpost _ (match ?x with _ => _ end) => destruct x
  end.

Section NL2.
Variable E : env.
Notation now := (o_now (e_O E)).
Notation vals := (values E).
Notation neutral := (evs_all sess_neutral any_ev).

Ltac ngo := repeat (unfold_derived; cbn beta iota; first [apply neutral_fire | evs_step]); try side.
Ltac ntail := apply neutral_from_evs; ngo.

(* ---- composing [neutral_from] along the head of a handler -------------------------------- *)
Lemma nf_bind {A B} (m : M A) (f : A -> M B) h :
  neutral m -> (forall a h1, m h = (Ok a, h1) -> neutral_from (f a) h1) -> neutral_from (bind m f) h.
Proof.
  intros Hm Hf r h' Eq.
  apply bind_inv in Eq as [(a & h1 & E1 & E2)|[(e & E1 & ->)|(E1 & ->)]].
  - destruct (Hm _ _ _ E1) as [(l1 & c1 & S1 & C1 & F1 & _) _].
    destruct (Hf _ _ E1 _ _ E2) as (l2 & c2 & S2 & C2 & F2).
    exists (l1 ++ l2), (c1 ++ c2). rewrite S2, S1, C2, C1, !app_assoc. repeat split; auto. apply Forall_app; auto.
  - destruct (Hm _ _ _ E1) as [(l1 & c1 & S1 & C1 & F1 & _) _]. eauto.
  - destruct (Hm _ _ _ E1) as [(l1 & c1 & S1 & C1 & F1 & _) _]. eauto.
Qed.

Lemma nf_try {A B} (m : M A) (f : res A -> M B) h :
  neutral m -> (forall x h1, m h = (x, h1) -> x <> Panic -> neutral_from (f x) h1) -> neutral_from (try m f) h.
Proof.
  intros Hm Hf r h' Eq.
  apply try_inv in Eq as [(x & h1 & E1 & NP & E2)|(E1 & ->)].
  - destruct (Hm _ _ _ E1) as [(l1 & c1 & S1 & C1 & F1 & _) _].
    destruct (Hf _ _ E1 NP _ _ E2) as (l2 & c2 & S2 & C2 & F2).
    exists (l1 ++ l2), (c1 ++ c2). rewrite S2, S1, C2, C1, !app_assoc. repeat split; auto. apply Forall_app; auto.
  - destruct (Hm _ _ _ E1) as [(l1 & c1 & S1 & C1 & F1 & _) _]. eauto.
Qed.

(* ---- the two questions every login path asks, and when they are refused ---------------------- *)
Definition gate_shape (rm : bool) (K : M unit) : M unit :=
  handled <- fire E EvBeforeAuth rm ;;
  if handled then ret tt else
  handled <- fire E EvBeforeHijack rm ;;
  if handled then ret tt else K.

(* locked / unconfirmed: the first question is refused *)
Lemma gate_refused u rm K h :
  must_refuse E u -> h_cuser h = Some u -> neutral_from (gate_shape rm K) h.
Proof.
  intros MR Hc r h' Eq. unfold gate_shape in Eq.
  eapply refused_continuation in Eq; [exact Eq|].
  intros r1 h1 Ef. eapply fire_before_auth_refuses; eauto.
Qed.

(* second factor enabled: the first question keeps the factor, the second is refused *)
Lemma gate_parks rm K h : ctx_2fa E h -> neutral_from (gate_shape rm K) h.
Proof.
  intros P0. unfold gate_shape.
  apply nf_bind; [apply neutral_fire|]. intros hd1 k1 F1.
  destruct hd1; [ntail|].
  assert (P1 : ctx_2fa E k1).
  { unfold fire in F1. eapply before_auth_keeps_2fa; [apply hooks_before_auth|exact P0|exact F1]. }
  intros r h' K2. eapply refused_continuation in K2; [exact K2|].
  intros r1 h1 Ef. eapply fire_hijack_refuses; [exact P1|exact Ef].
Qed.

(* the fields the two vetoes look at *)
Definition same_gate (u u' : user) : Prop := u_locked u' = u_locked u /\ u_confirmed u' = u_confirmed u.
Lemma same_gate_refl u : same_gate u u. Proof. split; reflexivity. Qed.
Lemma must_refuse_same_gate u u' : same_gate u u' -> must_refuse E u -> must_refuse E u'.
Proof. intros [A B] [[M L]|[M U]]; [left|right]; split; auto; congruence. Qed.

(* the fields the hijack question looks at *)
Definition same_2fa (u u' : user) : Prop := u_totp u' = u_totp u /\ u_sms u' = u_sms u.
Lemma has_2fa_same u u' : same_2fa u u' -> (has_totp E u \/ has_sms E u) -> (has_totp E u' \/ has_sms E u').
Proof. intros [A B] [[C T]|[C S]]; [left|right]; split; auto; congruence. Qed.

(* ---- AfterRecoverEnd: only the remember reset, which leaves the context user alone ---------- *)
Lemma hooks_after_recover hk : In hk (hooks E EvAfterRecoverEnd) -> hk = HRememberReset.
Proof.
  unfold hooks. rewrite app_nil_r. induction (c_mods (e_cfg E)) as [|m l IH]; simpl; [tauto|].
  rewrite in_app_iff. intros [H|H]; [|auto].
  destruct m; simpl in H; intuition.
Qed.

Lemma pres_cuser_st_del_rm p : pres h_cuser (st_del_rm (e_O E) p).
Proof. unfold st_del_rm. apply pres_backend; [exact _|]. intros h r h' Eq. inversion Eq; subst. reflexivity. Qed.

Lemma remember_reset_keeps_cuser rm hd : pres h_cuser (run_hook E HRememberReset rm hd).
Proof.
  unfold run_hook.
  repeat (unfold_derived; cbn beta iota; first [apply pres_cuser_st_del_rm | pres_step]); try exact _.
Qed.

Lemma call_keeps_cuser hs : (forall hk, In hk hs -> hk = HRememberReset) -> forall rm hd, pres h_cuser (call E hs rm hd).
Proof.
  induction hs as [|hk t IH]; intros Hh rm hd; simpl.
  - apply pres_ret.
  - apply pres_bind.
    + rewrite (Hh hk (or_introl eq_refl)). apply remember_reset_keeps_cuser.
    + intros i. apply IH. intros g Hg. apply Hh. right. exact Hg.
Qed.

Lemma fire_after_recover_keeps_cuser rm : pres h_cuser (fire E EvAfterRecoverEnd rm).
Proof. unfold fire. apply call_keeps_cuser. apply hooks_after_recover. Qed.

(* ---- recover end --------------------------------------------------------------------------- *)
Definition recovered_as (u : user) (pass : bytes) : user :=
  u <| u_password := pass |> <| u_rsel := [] |> <| u_rver := [] |> <| u_rexp := now |>.

(* generic form: if whatever [Gate] says of the recovered record makes the two questions end
   the request, the whole handler appends only uid-neutral events *)
Lemma recover_end_post_gate (Gate : user -> Prop) h raw u :
  b64url_dec (aget f_token vals) = Some raw ->
  ufind (fun u => beqb (u_rsel u) (selector_of E raw)) (s_users (h_st h)) = Some u ->
  (forall pass, Gate (recovered_as u pass)) ->
  (forall cu K h1, Gate cu -> h_cuser h1 = Some cu -> neutral_from (gate_shape false K) h1) ->
  neutral_from (recover_end_post E) h.
Proof.
  intros Dec Hu HG HS. unfold recover_end_post.
  apply nf_bind; [ngo|]. intros v h1 E1.
  apply read_values_spec in E1 as [-> [Hv|Hv]]; [|discriminate Hv].
  inversion Hv; subst v; clear Hv. cbn beta zeta.
  destruct (negb (valid [password_rule] pw_pairs vals)); [ntail|].
  rewrite Dec.
  destruct (negb (Nat.eqb (length raw) 64)); [unfold invalid_recover_token; ntail|].
  apply nf_try; [ngo|]. intros x h2 L NP.
  apply st_load_by_rsel_spec in L as (S2 & _ & _ & Hl).
  destruct x as [u0|e|]; [|destruct e; unfold invalid_recover_token; ntail|congruence].
  specialize (Hl u0 eq_refl). rewrite Hu in Hl. inversion Hl; subst u0; clear Hl.
  destruct (u_rexp u <? now); [unfold invalid_recover_token; ntail|].
  destruct (b64std_dec (u_rver u)) as [dbv|]; [|unfold invalid_recover_token; ntail].
  destruct (negb (beqb (sha (e_C E) (half2 raw)) dbv)); [unfold invalid_recover_token; ntail|].
  apply nf_bind; [ngo|]. intros a1 h3 _.
  apply nf_bind; [ngo|]. intros a2 h4 _.
  apply nf_bind; [ngo|]. intros pass h5 _.
  cbn beta zeta.
  change (u <| u_password := pass |> <| u_rsel := [] |> <| u_rver := [] |> <| u_rexp := now |>) with (recovered_as u pass).
  set (u' := recovered_as u pass).
  apply nf_bind; [ngo|]. intros a3 h6 K1. inversion K1; subst a3 h6; clear K1.
  apply nf_bind; [ngo|]. intros a4 h7 K1.
  apply st_save_spec in K1 as (_ & _ & _ & Cu & _). simpl in Cu.
  apply nf_bind; [apply neutral_fire|]. intros a5 h8 K1.
  apply fire_after_recover_keeps_cuser in K1. rewrite Cu in K1.
  destruct (c_recover_login (e_cfg E)); [|ntail].
  eapply (HS u'); [apply HG|exact K1].
Qed.

Lemma same_gate_recovered u pass : same_gate u (recovered_as u pass).
Proof. split; reflexivity. Qed.
Lemma same_2fa_recovered u pass : same_2fa u (recovered_as u pass).
Proof. split; reflexivity. Qed.

Theorem recover_end_post_refused_lemma h raw u :
  b64url_dec (aget f_token vals) = Some raw ->
  ufind (fun u => beqb (u_rsel u) (selector_of E raw)) (s_users (h_st h)) = Some u ->
  must_refuse E u ->
  neutral_from (recover_end_post E) h.
Proof.
  intros Dec Hu MR.
  apply (recover_end_post_gate (must_refuse E) h raw u Dec Hu).
  - intros pass. eapply must_refuse_same_gate; [apply same_gate_recovered|exact MR].
  - intros cu K h1 G Hc. eapply gate_refused; eauto.
Qed.
(* ---- /otp/login with a second factor (C02) ---------------------------------------------------- *)
Lemma same_2fa_otps u x : same_2fa u (u <| u_otps := x |>).
Proof. split; reflexivity. Qed.

Theorem otp_login_post_2fa_parks_lemma h u :
  ulookup (aget (pid_field E) vals) (s_users (h_st h)) = Some u -> (has_totp E u \/ has_sms E u) ->
  neutral_from (otp_login_post E) h.
Proof.
  intros Hu F. unfold otp_login_post.
  apply nf_bind; [ngo|]. intros v h1 E1.
  apply read_values_spec in E1 as [-> [Hv|Hv]]; [|discriminate Hv].
  inversion Hv; subst v; clear Hv. cbn beta zeta.
  apply nf_try; [ngo|]. intros x h2 L NP.
  pose proof (st_load_spec _ _ _ _ _ L) as (_ & _ & _ & _ & _ & _ & Hl & _).
  destruct x as [u0|e|]; [|destruct e; ntail|congruence].
  specialize (Hl u0 eq_refl). rewrite Hu in Hl. inversion Hl; subst u0; clear Hl.
  apply nf_bind; [ngo|]. intros a1 h3 _.
  destruct (otp_match (sha (e_C E) (aget f_password vals)) (split_otps (u_otps u)) 0%nat) as [[i|]|]; try (ntail; fail).
  apply nf_bind; [ngo|]. intros a2 h4 _.
  set (u' := u <| u_otps := join_otps (otp_remove (split_otps (u_otps u)) i) |>).
  apply nf_bind; [ngo|]. intros a3 h5 K1. inversion K1; subst a3 h5; clear K1.
  apply nf_bind; [ngo|]. intros a4 h6 K1.
  apply st_save_spec in K1 as (_ & _ & _ & Cu & _). simpl in Cu.
  apply gate_parks. exists u'. split; [exact Cu|].
  eapply has_2fa_same; [apply same_2fa_otps|exact F].
Qed.
(* ---- second-factor validate (C03) -------------------------------------------------------------- *)
Lemma set_cuser_refused u rm K h :
  must_refuse E u ->
  neutral_from (set_cuser u ;;; (handled <- fire E EvBeforeAuth rm ;; if handled then ret tt else K)) h.
Proof. intros MR. exact (after_set_cuser_refused E u rm K (ret tt) false h MR (evs_ret _ _ tt)). Qed.

(* how both validate handlers find their user: the context / session user if there is one,
   else the account parked under the pending key *)
Definition pending_head (key : bytes) : M (user * bool) :=
  try (current_user E) (fun r =>
    match r with
    | Err ErrUserNotFound =>
        let pid := aget key (e_sess E) in
        if bempty pid then fail ErrUserNotFound
        else u <- st_load (e_O E) pid ;; ret (u, false)
    | Err e => fail e
    | Panic => panic
    | Ok x => ret x
    end).

(* the request comes from a browser that is not logged in and whose pending marker names u *)
Definition pending_is (key : bytes) (h : hst) (u : user) : Prop :=
  h_cuser h = None /\ h_cpid h = None /\ bempty (aget k_uid (e_sess E)) = true /\
  ulookup (aget key (e_sess E)) (s_users (h_st h)) = Some u.

Lemma pending_head_spec key h u u0 sh h1 :
  pending_is key h u -> pending_head key h = (Ok (u0, sh), h1) -> u0 = u.
Proof.
  intros (Hc & Hp & Hs & Hu) Eq. unfold pending_head in Eq.
  assert (CU : current_user E h = (Err ErrUserNotFound, h)).
  { unfold current_user, current_user_id, bind, get_h. rewrite Hc, Hp. unfold ret. rewrite Hs. reflexivity. }
  unfold try in Eq. rewrite CU in Eq. cbv zeta in Eq.
  destruct (bempty (aget key (e_sess E))); [inversion Eq|].
  apply bind_inv in Eq as [(a & h2 & E1 & E2)|[(e & _ & Hr)|(_ & Hr)]]; try discriminate Hr.
  pose proof (st_load_spec _ _ _ _ _ E1) as (_ & _ & _ & _ & _ & _ & Hl & _).
  specialize (Hl a eq_refl). rewrite Hu in Hl. inversion Hl; subst a. inversion E2; subst. reflexivity.
Qed.

Lemma neutral_pending_head key : neutral (pending_head key).
Proof. unfold pending_head. ngo. Qed.

Ltac rpost_go := repeat (unfold store_back; cbn beta iota zeta; rpost_step).

(* the user TOTP validation returns differs from the one it started with in the recovery codes
   and the last-code field only *)
Lemma totp_validate_settles h u u' sh st h1 :
  pending_is k_totp_pending h u -> totp_validate E h = (Ok (u', sh, st), h1) -> same_gate u u'.
Proof.
  intros PI Eq. unfold totp_validate in Eq.
  apply bind_inv in Eq as [([u0 sh0] & h2 & E1 & E2)|[(e & _ & Hr)|(_ & Hr)]]; try discriminate Hr.
  apply (pending_head_spec k_totp_pending _ _ _ _ _ PI) in E1. subst u0.
  cbn beta iota in E2.
  match type of E2 with ?m _ = _ => assert (RP : rpost (fun x => same_gate u (fst (fst x))) m) end.
  { rpost_go; simpl; split; reflexivity. }
  exact (RP _ _ _ E2).
Qed.

Theorem totp_validate_post_refused_lemma h u :
  h_cuser h = None -> h_cpid h = None -> bempty (aget k_uid (e_sess E)) = true ->
  ulookup (aget k_totp_pending (e_sess E)) (s_users (h_st h)) = Some u ->
  must_refuse E u ->
  neutral_from (totp_validate_post E) h.
Proof.
  intros P1 P2 P3 P4 MR. assert (PI : pending_is k_totp_pending h u) by (repeat split; assumption).
  unfold totp_validate_post.
  apply nf_bind; [apply neutral_totp_validate|]. intros [[u' sh] st] h1 E1.
  apply (totp_validate_settles _ _ _ _ _ _ PI) in E1.
  pose proof (must_refuse_same_gate _ _ E1 MR) as MR'.
  cbn beta iota.
  destruct st as [[| |]|]; try (ntail; fail).
  apply nf_bind; [ngo|]. intros a2 h2 _.
  apply set_cuser_refused. exact MR'.
Qed.

Lemma sms_validate_code_refused u sh input rc h :
  must_refuse E u -> neutral_from (sms_validate_code E SPValidate u sh input rc) h.
Proof.
  intros MR. unfold sms_validate_code.
  apply nf_bind; [ngo|]. intros [verified u'] h1 E1.
  assert (SG : same_gate u u').
  { revert E1.
    match goal with |- ?m h = _ -> _ => assert (RP : rpost (fun x => same_gate u (snd x)) m) end.
    { rpost_go; simpl; split; reflexivity. }
    intros E1. exact (RP _ _ _ E1). }
  pose proof (must_refuse_same_gate _ _ SG MR) as MR'.
  cbn beta iota.
  destruct verified; cbn [negb]; [|ntail].
  apply set_cuser_refused. exact MR'.
Qed.

Theorem sms_validate_refused_lemma h u :
  h_cuser h = None -> h_cpid h = None -> bempty (aget k_uid (e_sess E)) = true ->
  ulookup (aget k_sms_pending (e_sess E)) (s_users (h_st h)) = Some u ->
  must_refuse E u ->
  neutral_from (sms_validator_post E SPValidate) h.
Proof.
  intros P1 P2 P3 P4 MR. assert (PI : pending_is k_sms_pending h u) by (repeat split; assumption).
  unfold sms_validator_post.
  apply nf_bind; [apply (neutral_pending_head k_sms_pending)|]. intros [u0 sh] h1 E1.
  apply (pending_head_spec k_sms_pending _ _ _ _ _ PI) in E1. subst u0.
  cbn beta iota.
  apply nf_bind; [ngo|]. intros v h2 _. cbn beta zeta.
  destruct (bempty (aget f_recovery_code v) && bempty (aget f_code v)).
  { apply neutral_from_evs, neutral_sms_send_code. }
  destruct (negb (bempty (aget f_recovery_code v))); apply sms_validate_code_refused; exact MR.
Qed.

(* ---- OAuth2 callback for a locked account (C03, lock only) ------------------------------------- *)
Lemma hooks_before_oauth2 hk : In hk (hooks E EvBeforeOAuth2) -> hk = HLockBefore.
Proof.
  unfold hooks. rewrite app_nil_r. induction (c_mods (e_cfg E)) as [|m l IH]; simpl; [tauto|].
  rewrite in_app_iff. intros [H|H]; [|auto].
  destruct m; simpl in H; intuition.
Qed.
Lemma hooks_before_oauth2_lock : has_mod (e_cfg E) MLock = true -> In HLockBefore (hooks E EvBeforeOAuth2).
Proof.
  unfold has_mod, hooks. rewrite app_nil_r. induction (c_mods (e_cfg E)) as [|m l IH]; simpl; [discriminate|].
  intros H. apply in_or_app. destruct m; simpl in *; auto.
Qed.

Lemma fire_before_oauth2_locked rm h r h' :
  has_mod (e_cfg E) MLock = true -> ctx_locked E h -> fire E EvBeforeOAuth2 rm h = (r, h') -> refused r.
Proof.
  intros HM HL Eq. unfold fire in Eq.
  eapply (call_veto E (ctx_locked E) HLockBefore); [apply hooks_before_oauth2_lock; exact HM| | |exact HL|exact Eq].
  - intros rm0 h0 r0 h0' (cu & Hc & L) Eh. eapply lock_before_spec; eauto.
  - intros g Hg rm0 hd h0 r0 h0' (cu & Hc & L) Eh.
    rewrite (hooks_before_oauth2 _ Hg) in Eh.
    destruct (lock_before_spec _ _ _ _ _ _ _ Hc Eh) as [[Cu|Cu] _].
    + exists (lock_apply E cu (LOkBefore now)). split; [exact Cu|]. unfold lock_apply, set_ltriple, ltriple. simpl. exact L.
    + exists cu. auto.
Qed.

Lemma new_oauth2_spec pid (mk : user) h u0 h1 su :
  try (backend (e_O E) KNewOAuth2 (fun h => match ulookup pid (s_users (h_st h)) with
                                             | Some u => (Ok u, h) | None => (Ok mk, h) end))
      (fun r => match r with Ok u => ret u | Err _ => fail ErrOther | Panic => panic end) h = (Ok u0, h1) ->
  ulookup pid (s_users (h_st h)) = Some su -> u0 = su.
Proof.
  intros Eq Hu. apply try_inv in Eq as [(x & h2 & B & _ & K)|(_ & Hr)]; [|discriminate Hr].
  destruct (backend_inv _ _ _ _ _ _ B) as [(e & -> & _)|(k1 & _ & _ & _ & A4 & _ & _ & _ & Eb)]; [inversion K|].
  rewrite A4, Hu in Eb. inversion Eb; subst x h2. inversion K; subst. reflexivity.
Qed.

Theorem oauth2_end_locked_refused_lemma prov h su :
  has_mod (e_cfg E) MLock = true ->
  ulookup (make_oauth2_pid prov (pa_uid (o_provider (e_O E)))) (s_users (h_st h)) = Some su ->
  now < u_locked su ->
  neutral_from (oauth2_end E prov) h.
Proof.
  intros HM Hu L. unfold oauth2_end.
  apply nf_bind; [ngo|]. intros a1 h1 K1. inversion K1; subst a1 h1; clear K1.
  destruct (negb (bmem prov (c_providers (e_cfg E)))); [ntail|].
  destruct (alookup k_oauth_state (e_sess E)) as [want|]; [|ntail].
  destruct (negb (beqb (form_value E f_state) want)); [ntail|].
  cbv zeta.
  apply nf_bind; [ngo|]. intros a2 h2 K1. inversion K1; subst a2 h2; clear K1.
  apply nf_bind; [ngo|]. intros a3 h3 K1. inversion K1; subst a3 h3; clear K1.
  destruct (negb (bempty (form_value E f_error))); [ntail|].
  destruct (negb (pa_exchange_ok (o_provider (e_O E)))); [ntail|].
  destruct (negb (pa_details_ok (o_provider (e_O E)))); [ntail|].
  apply nf_bind; [ngo|]. intros u0 h4 K1.
  eapply new_oauth2_spec in K1; [|exact Hu]. subst u0.
  apply nf_bind; [ngo|]. intros a5 h5 _.
  apply nf_bind; [ngo|]. intros a6 h6 K1. inversion K1; subst a6 h6; clear K1.
  intros r h' K2. eapply refused_continuation in K2; [exact K2|].
  intros r1 k1 Ef. eapply fire_before_oauth2_locked; [exact HM| |exact Ef].
  eexists. split; [reflexivity|]. exact L.
Qed.

(* ---- recover end with a second factor (C02) ----------------------------------------------------- *)
Theorem recover_end_post_2fa_parks_lemma h raw u :
  b64url_dec (aget f_token vals) = Some raw ->
  ufind (fun u => beqb (u_rsel u) (selector_of E raw)) (s_users (h_st h)) = Some u ->
  (has_totp E u \/ has_sms E u) ->
  neutral_from (recover_end_post E) h.
Proof.
  intros Dec Hu F.
  apply (recover_end_post_gate (fun x => has_totp E x \/ has_sms E x) h raw u Dec Hu).
  - intros pass. eapply has_2fa_same; [apply same_2fa_recovered|exact F].
  - intros cu K h1 G Hc. apply gate_parks. exists cu. auto.
Qed.
End NL2.
