(* Veto lemmas: when a module's "before" hook must refuse (account locked, not confirmed,
   second factor enabled), Events.call over ANY hook list containing it — any module subset,
   any load order — never reports "not handled", so the login handler never reaches the
   code that writes the session. *)
From AB Require Import World.Handlers Proofs.EvLogic Proofs.Neutral Proofs.HandlerEvents Proofs.MonadInv
  Proofs.Guards Proofs.StoreLogic.
Open Scope Z_scope.

Definition refused (r : res bool) : Prop := r <> Ok false.

#[local] Instance dep_cuser : StDep h_cuser.
Proof. intros h h' _ B. exact B. Qed.

Section V.
Variable E : env.
Notation now := (o_now (e_O E)).

(* once a hook has handled the request the chain can only end handled (or in an error) *)
Lemma call_handled hs : forall rm h r h', call E hs rm true h = (r, h') -> refused r.
Proof.
  induction hs as [|hk hs IH]; intros rm h r h' Eq; simpl in Eq.
  - inversion Eq. discriminate.
  - apply bind_inv in Eq as [(i & h1 & E1 & E2)|[(e & E1 & ->)|(E1 & ->)]]; try discriminate.
    simpl in E2. eapply IH; eauto.
Qed.

(* the general veto lemma, for a state condition P *)
Lemma call_veto (P : hst -> Prop) (f : hook) hs :
  In f hs ->
  (forall rm h r h', P h -> run_hook E f rm false h = (r, h') -> refused r) ->
  (forall g, In g hs -> forall rm hd h r h', P h -> run_hook E g rm hd h = (r, h') -> P h') ->
  forall rm hd h r h', P h -> call E hs rm hd h = (r, h') -> refused r.
Proof.
  induction hs as [|g t IH]; intros Hin Hv Hp rm hd h r h' HP Eq; [destruct Hin|].
  simpl in Eq.
  destruct hd.
  { change (call E (g :: t) rm true h = (r, h')) in Eq. eapply call_handled; eauto. }
  apply bind_inv in Eq as [(i & h1 & E1 & E2)|[(e & E1 & ->)|(E1 & ->)]]; try discriminate.
  destruct Hin as [->|Hin].
  - pose proof (Hv _ _ _ _ HP E1) as R. destruct i; [|exfalso; apply R; reflexivity].
    simpl in E2. eapply call_handled; eauto.
  - eapply (IH Hin Hv); [intros g' Hg; apply Hp; right; exact Hg | | exact E2].
    eapply Hp; [left; reflexivity | exact HP | exact E1].
Qed.

(* ---- which hooks can be registered for which event ------------------------------------ *)
Lemma hooks_before_auth hk : In hk (hooks E EvBeforeAuth) -> hk = HLockBefore \/ hk = HConfirmPrevent.
Proof.
  unfold hooks. rewrite app_nil_r. induction (c_mods (e_cfg E)) as [|m l IH]; simpl; [tauto|].
  rewrite in_app_iff. intros [H|H]; [|auto].
  destruct m; simpl in H; intuition.
Qed.
Lemma hooks_before_auth_lock : has_mod (e_cfg E) MLock = true -> In HLockBefore (hooks E EvBeforeAuth).
Proof.
  unfold has_mod, hooks. rewrite app_nil_r. induction (c_mods (e_cfg E)) as [|m l IH]; simpl; [discriminate|].
  intros H. apply in_or_app. destruct m; simpl in *; auto.
Qed.
Lemma hooks_before_auth_confirm : has_mod (e_cfg E) MConfirm = true -> In HConfirmPrevent (hooks E EvBeforeAuth).
Proof.
  unfold has_mod, hooks. rewrite app_nil_r. induction (c_mods (e_cfg E)) as [|m l IH]; simpl; [discriminate|].
  intros H. apply in_or_app. destruct m; simpl in *; auto.
Qed.
Lemma hooks_before_hijack hk : In hk (hooks E EvBeforeHijack) -> hk = HTotpHijack \/ hk = HSmsHijack.
Proof.
  unfold hooks. rewrite in_app_iff. intros [H|H].
  - exfalso. induction (c_mods (e_cfg E)) as [|m l IH]; simpl in H; [exact H|].
    rewrite in_app_iff in H. destruct H as [H|H]; [destruct m; simpl in H; tauto|auto].
  - destruct (c_sms_first (e_cfg E)), (c_totp (e_cfg E)), (c_sms (e_cfg E)); simpl in H; intuition.
Qed.

(* ---- state conditions ---------------------------------------------------------------------- *)
Definition ctx_locked (h : hst) : Prop := exists cu, h_cuser h = Some cu /\ now < u_locked cu.
Definition ctx_unconfirmed (h : hst) : Prop := exists cu, h_cuser h = Some cu /\ u_confirmed cu = false.

(* the two BeforeAuth hooks, run on a state whose context user is set *)
Lemma lock_before_spec rm hd h r h' cu :
  h_cuser h = Some cu -> run_hook E HLockBefore rm hd h = (r, h') ->
  (h_cuser h' = Some (lock_apply E cu (LOkBefore now)) \/ h_cuser h' = Some cu) /\
  (now < u_locked cu -> refused r).
Proof.
  intros Hc Eq. unfold run_hook, update_locked_state, current_user in Eq.
  unfold bind at 1 in Eq. unfold bind at 1 in Eq. unfold get_h in Eq. rewrite Hc in Eq.
  unfold ret at 1 in Eq. cbn beta iota in Eq. unfold store_back in Eq.
  remember (lock_apply E cu (LOkBefore now)) as u2 eqn:Hu2.
  apply bind_inv in Eq as [(a & h1 & E1 & E2)|[(e & E1 & ->)|(E1 & ->)]]; try (inversion E1; fail).
  inversion E1; subst a h1; clear E1.
  assert (Lk : now < u_locked cu -> is_locked E u2 = true).
  { intros L. subst u2. unfold is_locked, lock_apply, set_ltriple, ltriple, locked_at. simpl. apply Z.ltb_lt. exact L. }
  apply bind_inv in E2 as [(a & h2 & E1 & E2)|[(e & E1 & ->)|(E1 & ->)]].
  - apply st_save_spec in E1 as (_ & _ & _ & Cu & _). simpl in Cu.
    destruct (is_locked E u2) eqn:IL; cbn [negb] in E2.
    + apply bind_inv in E2 as [(a2 & h3 & E3 & E4)|[(e & E3 & ->)|(E3 & ->)]].
      * inversion E4; subst. apply (pres_redirect E h_cuser (ro_fail (p_lock_notok_of (e_cfg E)))) in E3.
        split; [left; rewrite E3; exact Cu|intros _; discriminate].
      * apply (pres_redirect E h_cuser (ro_fail (p_lock_notok_of (e_cfg E)))) in E3.
        split; [left; rewrite E3; exact Cu|intros _; discriminate].
      * apply (pres_redirect E h_cuser (ro_fail (p_lock_notok_of (e_cfg E)))) in E3.
        split; [left; rewrite E3; exact Cu|intros _; discriminate].
    + inversion E2; subst. split; [left; exact Cu|]. intros L. specialize (Lk L). congruence.
  - apply st_save_spec in E1 as (_ & _ & _ & Cu & _). simpl in Cu. split; [left; exact Cu|intros _; discriminate].
  - apply st_save_spec in E1 as (_ & _ & _ & Cu & _). simpl in Cu. split; [left; exact Cu|intros _; discriminate].
Qed.

Lemma confirm_prevent_spec rm hd h r h' cu :
  h_cuser h = Some cu -> run_hook E HConfirmPrevent rm hd h = (r, h') ->
  h_cuser h' = Some cu /\ (u_confirmed cu = false -> refused r).
Proof.
  intros Hc Eq. unfold run_hook, current_user in Eq.
  unfold bind at 1 in Eq. unfold bind at 1 in Eq. unfold get_h in Eq. rewrite Hc in Eq.
  unfold ret at 1 in Eq. cbn beta iota in Eq.
  destruct (u_confirmed cu) eqn:Cf.
  - apply bind_inv in Eq as [(a & h1 & E1 & E2)|[(e & E1 & ->)|(E1 & ->)]]; inversion E1; subst.
    inversion E2; subst. simpl. split; [exact Hc|discriminate].
  - assert (PR : pres (fun h => h_cuser h) (log [u_pid cu] ;;; redirect E (ro_fail (p_confirm_notok_of (e_cfg E))) ;;; ret true)).
    { apply (pres_bind h_cuser); [apply (pres_log h_cuser)|intros].
      apply (pres_bind h_cuser); [apply (pres_redirect E h_cuser)|intros; apply (pres_ret h_cuser)]. }
    pose proof (PR _ _ _ Eq) as Cu. split; [rewrite Cu; exact Hc|]. intros _.
    apply bind_inv in Eq as [(a & h1 & E1 & E2)|[(e & E1 & ->)|(E1 & ->)]]; try discriminate.
    apply bind_inv in E2 as [(a2 & h2 & E3 & E4)|[(e & E3 & ->)|(E3 & ->)]]; try discriminate.
    inversion E4; subst. discriminate.
Qed.

(* locked: the lock hook refuses, both BeforeAuth hooks keep the account locked *)
Lemma fire_before_auth_locked rm h r h' :
  has_mod (e_cfg E) MLock = true -> ctx_locked h -> fire E EvBeforeAuth rm h = (r, h') -> refused r.
Proof.
  intros HM HL Eq. unfold fire in Eq.
  eapply (call_veto ctx_locked HLockBefore); [apply hooks_before_auth_lock; exact HM| | |exact HL|exact Eq].
  - intros rm0 h0 r0 h0' (cu & Hc & L) Eh. eapply lock_before_spec; eauto.
  - intros g Hg rm0 hd h0 r0 h0' (cu & Hc & L) Eh.
    destruct (hooks_before_auth _ Hg) as [->| ->].
    + destruct (lock_before_spec _ _ _ _ _ _ Hc Eh) as [[Cu|Cu] _].
      * exists (lock_apply E cu (LOkBefore now)). split; [exact Cu|]. unfold lock_apply, set_ltriple, ltriple. simpl. exact L.
      * exists cu. auto.
    + destruct (confirm_prevent_spec _ _ _ _ _ _ Hc Eh) as [Cu _]. exists cu. auto.
Qed.

Lemma fire_before_auth_unconfirmed rm h r h' :
  has_mod (e_cfg E) MConfirm = true -> ctx_unconfirmed h -> fire E EvBeforeAuth rm h = (r, h') -> refused r.
Proof.
  intros HM HU Eq. unfold fire in Eq.
  eapply (call_veto ctx_unconfirmed HConfirmPrevent); [apply hooks_before_auth_confirm; exact HM| | |exact HU|exact Eq].
  - intros rm0 h0 r0 h0' (cu & Hc & U) Eh. eapply confirm_prevent_spec; eauto.
  - intros g Hg rm0 hd h0 r0 h0' (cu & Hc & U) Eh.
    destruct (hooks_before_auth _ Hg) as [->| ->].
    + destruct (lock_before_spec _ _ _ _ _ _ Hc Eh) as [[Cu|Cu] _].
      * exists (lock_apply E cu (LOkBefore now)). split; [exact Cu|]. unfold lock_apply, set_ltriple. simpl. exact U.
      * exists cu. auto.
    + destruct (confirm_prevent_spec _ _ _ _ _ _ Hc Eh) as [Cu _]. exists cu. auto.
Qed.

(* the shape every login handler has after its credential check: ask the BeforeAuth hooks,
   stop if handled.  When the hooks refuse, whatever follows is never run, and what was
   appended is uid-neutral. *)
Lemma refused_continuation (ev : event) rm (K : M unit) h r h' :
  (forall r1 h1, fire E ev rm h = (r1, h1) -> refused r1) ->
  (handled <- fire E ev rm ;; if handled then ret tt else K) h = (r, h') ->
  exists ls lc, h_sev h' = h_sev h ++ ls /\ h_cev h' = h_cev h ++ lc /\ Forall sess_neutral ls.
Proof.
  intros HR Eq.
  apply bind_inv in Eq as [(a & h1 & E1 & E2)|[(e & E1 & ->)|(E1 & ->)]].
  - pose proof (HR _ _ E1) as R. destruct a; [|exfalso; apply R; reflexivity].
    inversion E2; subst. destruct (neutral_fire E ev rm _ _ _ E1) as [(ls & lc & S & Cc & F & _) _]. eauto.
  - destruct (neutral_fire E ev rm _ _ _ E1) as [(ls & lc & S & Cc & F & _) _]. eauto.
  - destruct (neutral_fire E ev rm _ _ _ E1) as [(ls & lc & S & Cc & F & _) _]. eauto.
Qed.
End V.
