(* Smaller handler-level facts used by Props/C08, C13, C16, C18. *)
From AB Require Import World.Handlers Proofs.EvLogic Proofs.Neutral Proofs.MonadInv Proofs.StoreLogic.
Open Scope Z_scope.

(* ---- a "never panics" logic, closed under the monad combinators ---------------------- *)
Definition np {A} (m : M A) : Prop := forall h r h', m h = (r, h') -> r <> Panic.

Lemma np_ret {A} (a : A) : np (ret a). Proof. intros h r h' E; inversion E; discriminate. Qed.
Lemma np_fail {A} e : np (@fail A e). Proof. intros h r h' E; inversion E; discriminate. Qed.
Lemma np_get_h : np get_h. Proof. intros h r h' E; inversion E; discriminate. Qed.
Lemma np_modify f : np (modify f). Proof. intros h r h' E; inversion E; discriminate. Qed.
Lemma np_fresh n : np (fresh n).
Proof. intros h r h' E. unfold fresh in E. destruct (take_chunk n (h_fresh h)) as [[c t]|]; inversion E; discriminate. Qed.
Lemma np_bind {A B} (m : M A) (f : A -> M B) : np m -> (forall a, np (f a)) -> np (bind m f).
Proof.
  intros Hm Hf h r h' E. destruct (bind_inv _ _ _ _ _ E) as [(a & h1 & E1 & E2)|[(e & E1 & ->)|(E1 & ->)]].
  - eapply Hf; eauto.
  - discriminate.
  - exfalso. eapply Hm; eauto.
Qed.
Lemma np_try {A B} (m : M A) (f : res A -> M B) : np m -> (forall r, r <> Panic -> np (f r)) -> np (try m f).
Proof.
  intros Hm Hf h r h' E. destruct (try_inv _ _ _ _ _ E) as [(x & h1 & E1 & NP & K)|(E1 & ->)].
  - eapply Hf; eauto.
  - exfalso. eapply Hm; eauto.
Qed.
Lemma np_backend O {A} k (body : M A) : np body -> np (backend O k body).
Proof.
  intros Hb h r h' E. unfold backend in E.
  destruct (fault_at (h_ncalls h) (o_faults O)) as [[|]|]; try (inversion E; discriminate).
  eapply Hb; eauto.
Qed.
Lemma np_state {A} (m : M A) : (forall h, fst (m h) <> Panic) -> np m.
Proof. intros H h r h' E. specialize (H h). rewrite E in H. exact H. Qed.

Ltac np_step :=
  match goal with
  | |- np (bind _ _) => apply np_bind; [|intros]
  | |- np (try _ _) => apply np_try; [|intros]
  | H : ?x <> Panic, H2 : ?x = Panic |- _ => exfalso; apply H; exact H2
  | H : Panic <> Panic |- _ => exfalso; apply H; reflexivity
  | |- np (ret _) => apply np_ret
  | |- np (fail _) => apply np_fail
  | |- np get_h => apply np_get_h
  | |- np (backend _ _ _) => apply np_backend
  | |- np (modify _) => apply np_modify
  | |- np (put_session _ _) => apply np_modify
  | |- np (del_session _) => apply np_modify
  | |- np (delall_session _) => apply np_modify
  | |- np (put_cookie _ _) => apply np_modify
  | |- np (del_cookie _) => apply np_modify
  | |- np (write_resp _) => apply np_modify
  | |- np (log _) => apply np_modify
  | |- np (set_cuser _) => apply np_modify
  | |- np (set_cpid _) => apply np_modify
  | |- np (fresh _) => apply np_fresh
  | |- np (st_load _ _) => unfold st_load
  | |- np (st_save _ _) => unfold st_save
  | |- np (st_create _ _) => unfold st_create
  | |- np (st_load_by_csel _ _) => unfold st_load_by_csel
  | |- np (st_load_by_rsel _ _) => unfold st_load_by_rsel
  | |- np (st_del_rm _ _) => unfold st_del_rm
  | |- np (st_add_rm _ _ _) => unfold st_add_rm
  | |- np (st_use_rm _ _ _) => unfold st_use_rm
  | |- np (if ?c then _ else _) => destruct c eqn:?
  | |- np (match ?x with _ => _ end) => destruct x eqn:?
  | |- np (let '(_, _) := ?x in _) => destruct x eqn:?
  | |- np (fun h => _) =>
      apply np_state; intros; simpl;
      repeat match goal with |- context [match ?x with _ => _ end] => destruct x end; simpl; discriminate
  end.
Ltac np_go := repeat (unfold_derived; cbn beta iota; np_step).

Section MS.
Variable E : env.

(* handlers that fire no hooks never panic, whatever the backend does *)
Lemma np_recover_start_post : np (recover_start_post E). Proof. unfold recover_start_post. np_go. Qed.
Lemma np_confirm_get : np (confirm_get E). Proof. unfold confirm_get, invalid_confirm_token. np_go. Qed.
Lemma np_logout : np (logout E). Proof. unfold logout. np_go. Qed.
Lemma np_recover_end_get : np (recover_end_get E). Proof. unfold recover_end_get. np_go. Qed.
Lemma np_otp_add_post : np (otp_add_post E). Proof. unfold otp_add_post. np_go. Qed.
Lemma np_otp_clear_post : np (otp_clear_post E). Proof. unfold otp_clear_post. np_go. Qed.
Lemma np_email_verify_end k : np (email_verify_end E k). Proof. unfold email_verify_end. np_go. Qed.
Lemma np_email_verify_post k : np (email_verify_post E k). Proof. unfold email_verify_post. np_go. Qed.
Lemma np_recovery_regen_post : np (recovery_regen_post E). Proof. unfold recovery_regen_post. np_go. Qed.
Lemma np_oauth2_start p : np (oauth2_start E p). Proof. unfold oauth2_start. np_go. Qed.
Lemma np_auth_middleware mp full tf fr : np (auth_middleware E mp full tf fr).
Proof. unfold auth_middleware, mw_fail. np_go. Qed.
Lemma np_remember_authenticate : np (remember_authenticate E). Proof. unfold remember_authenticate. np_go. Qed.

(* a failed backend call is an error outcome and changes nothing but the call counters *)
Lemma backend_fault_is_error {A} k (body : M A) h r h' ek :
  fault_at (h_ncalls h) (o_faults (e_O E)) = Some ek ->
  backend (e_O E) k body h = (r, h') ->
  (exists e, r = Err e) /\ h_st h' = h_st h /\ h_sev h' = h_sev h /\ h_cev h' = h_cev h /\ h_out h' = h_out h /\
  h_mails h' = h_mails h /\ h_smss h' = h_smss h.
Proof.
  intros Hf Eq. unfold backend in Eq. rewrite Hf in Eq. destruct ek; inversion Eq; subst; simpl; repeat split; eauto.
Qed.

(* ---- e-mail authorisation of 2FA set-up (twofactor_verify.go End) -------------------------- *)
Definition not_authed_ev (e : csevent) : Prop := forall v, e <> Put k_2fa_authed v.

Lemma redirect_not_authed ro : evs_all not_authed_ev any_ev (redirect E ro).
Proof.
  repeat (unfold_derived; cbn beta iota; evs_step); try exact I;
    intros v Hv; inversion Hv as [[Hk Hvv]]; vm_compute in Hk; discriminate Hk.
Qed.

Lemma app_self_nil {A} (l x : list A) : l = l ++ x -> x = [].
Proof. intros H. rewrite <- (app_nil_r l) in H at 1. apply app_inv_head in H. auto. Qed.

Lemma email_verify_end_needs_token k h r h' ls :
  email_verify_end E k h = (r, h') -> h_sev h' = h_sev h ++ ls ->
  (exists v, In (Put k_2fa_authed v) ls) ->
  bempty (aget k_2fa_token (e_sess E)) = false /\
  aget f_token (values E) = aget k_2fa_token (e_sess E).
Proof.
  intros Eq Hs (v & Hin). unfold email_verify_end in Eq.
  apply bind_inv in Eq as [(vv & h1 & E1 & E2)|[(e & E1 & ->)|(E1 & ->)]];
    apply read_values_spec in E1 as [-> [Hv|Hv]]; try discriminate Hv;
    try (apply app_self_nil in Hs; subst ls; destruct Hin; fail).
  inversion Hv; subst vv; clear Hv.
  destruct (bempty (aget k_2fa_token (e_sess E)) || negb (beqb (aget f_token (values E)) (aget k_2fa_token (e_sess E)))) eqn:G.
  - exfalso. destruct (redirect_not_authed _ _ _ _ E2) as [(l2 & c2 & S2 & _ & F2 & _) _].
    rewrite S2 in Hs. apply app_inv_head in Hs. subst l2.
    rewrite Forall_forall in F2. exact (F2 _ Hin v eq_refl).
  - apply orb_false_iff in G as [G1 G2]. apply negb_false_iff in G2. apply beqb_eq in G2. auto.
Qed.
End MS.
