(* C18: the handlers that fire event hooks never panic either.  In the model a hook can only
   panic when it needs the context user and there is none (CurrentUserP / LoadCurrentUserP);
   every handler puts the user into the context before it fires its first event, and the
   lock / confirm middlewares run only after the access middleware has loaded him.
   [npc m]: started with a context user, m does not panic and leaves a context user. *)
From AB Require Import World.Handlers Proofs.EvLogic Proofs.Neutral Proofs.MonadInv Proofs.StoreLogic
  Proofs.Misc Proofs.Gate.
Open Scope Z_scope.

Definition HU (h : hst) : Prop := h_cuser h <> None.

Definition npc {A} (m : M A) : Prop :=
  forall h r h', HU h -> m h = (r, h') -> r <> Panic /\ HU h'.

Lemma npc_ret {A} (a : A) : npc (ret a).
Proof. intros h r h' H Eq; inversion Eq; subst; split; [discriminate|exact H]. Qed.
Lemma npc_fail {A} e : npc (@fail A e).
Proof. intros h r h' H Eq; inversion Eq; subst; split; [discriminate|exact H]. Qed.
Lemma npc_get_h : npc get_h.
Proof. intros h r h' H Eq; inversion Eq; subst; split; [discriminate|exact H]. Qed.
Lemma npc_modify f : (forall h, HU h -> HU (f h)) -> npc (modify f).
Proof. intros Hf h r h' H Eq; inversion Eq; subst; split; [discriminate|apply Hf; exact H]. Qed.
Lemma npc_write_resp x : npc (write_resp x).
Proof. apply npc_modify. intros h H. destruct (h_out h); exact H. Qed.
Lemma npc_set_cuser u : npc (set_cuser u).
Proof. apply npc_modify. intros h _. unfold HU. simpl. discriminate. Qed.
Lemma npc_fresh n : npc (fresh n).
Proof.
  intros h r h' H Eq. unfold fresh in Eq.
  destruct (take_chunk n (h_fresh h)) as [[c t]|]; inversion Eq; subst; split; try discriminate; exact H.
Qed.
Lemma npc_bind {A B} (m : M A) (f : A -> M B) : npc m -> (forall a, npc (f a)) -> npc (bind m f).
Proof.
  intros Hm Hf h r h' H Eq. destruct (bind_inv _ _ _ _ _ Eq) as [(a & h1 & E1 & E2)|[(e & E1 & ->)|(E1 & ->)]].
  - destruct (Hm _ _ _ H E1) as [_ H1]. eapply Hf; eauto.
  - destruct (Hm _ _ _ H E1) as [_ H1]. split; [discriminate|exact H1].
  - exfalso. destruct (Hm _ _ _ H E1) as [N _]. apply N; reflexivity.
Qed.
Lemma npc_try {A B} (m : M A) (f : res A -> M B) : npc m -> (forall r, r <> Panic -> npc (f r)) -> npc (try m f).
Proof.
  intros Hm Hf h r h' H Eq. destruct (try_inv _ _ _ _ _ Eq) as [(x & h1 & E1 & NP & K)|(E1 & ->)].
  - destruct (Hm _ _ _ H E1) as [_ H1]. eapply Hf; eauto.
  - exfalso. destruct (Hm _ _ _ H E1) as [N _]. apply N; reflexivity.
Qed.
(* reading the state under the invariant: the continuation may use that a user is there *)
Lemma npc_get_h_bind {B} (f : hst -> M B) : (forall h0, HU h0 -> npc (f h0)) -> npc (bind get_h f).
Proof. intros Hf h r h' H Eq. unfold bind, get_h in Eq. eapply Hf; eauto. Qed.
Lemma npc_backend O {A} k (body : M A) : npc body -> npc (backend O k body).
Proof.
  intros Hb h r h' H Eq. unfold backend in Eq.
  destruct (fault_at (h_ncalls h) (o_faults O)) as [[|]|]; try (inversion Eq; subst; split; [discriminate|exact H]).
  eapply Hb; [|exact Eq]. exact H.
Qed.
Lemma npc_state {A} (m : M A) : (forall h, HU h -> fst (m h) <> Panic /\ HU (snd (m h))) -> npc m.
Proof. intros Hm h r h' H Eq. specialize (Hm h H). rewrite Eq in Hm. exact Hm. Qed.
Lemma npc_absurd {A} (m : M A) h0 : HU h0 -> h_cuser h0 = None -> npc m.
Proof. intros H Hn. exfalso. apply H. exact Hn. Qed.

Ltac npc_step :=
  match goal with
  | |- npc (bind get_h _) => apply npc_get_h_bind; intros
  | |- npc (bind _ _) => apply npc_bind; [|intros]
  | |- npc (try _ _) => apply npc_try; [|intros]
  | H : ?x <> Panic, H2 : ?x = Panic |- _ => exfalso; apply H; exact H2
  | H : Panic <> Panic |- _ => exfalso; apply H; reflexivity
  | H : HU ?h0, H2 : h_cuser ?h0 = None |- npc _ => exact (npc_absurd _ h0 H H2)
  | |- npc (ret _) => apply npc_ret
  | |- npc (fail _) => apply npc_fail
  | |- npc get_h => apply npc_get_h
  | |- npc (backend _ _ _) => apply npc_backend
  | |- npc (write_resp _) => apply npc_write_resp
  | |- npc (set_cuser _) => apply npc_set_cuser
  | |- npc (modify _) => apply npc_modify; intros ? Hh; exact Hh
  | |- npc (put_session _ _) => apply npc_modify; intros ? Hh; exact Hh
  | |- npc (del_session _) => apply npc_modify; intros ? Hh; exact Hh
  | |- npc (delall_session _) => apply npc_modify; intros ? Hh; exact Hh
  | |- npc (put_cookie _ _) => apply npc_modify; intros ? Hh; exact Hh
  | |- npc (del_cookie _) => apply npc_modify; intros ? Hh; exact Hh
  | |- npc (log _) => apply npc_modify; intros ? Hh; exact Hh
  | |- npc (set_cpid _) => apply npc_modify; intros ? Hh; exact Hh
  | |- npc (fresh _) => apply npc_fresh
  | |- npc (st_load _ _) => unfold st_load
  | |- npc (st_save _ _) => unfold st_save
  | |- npc (st_create _ _) => unfold st_create
  | |- npc (st_load_by_csel _ _) => unfold st_load_by_csel
  | |- npc (st_load_by_rsel _ _) => unfold st_load_by_rsel
  | |- npc (st_del_rm _ _) => unfold st_del_rm
  | |- npc (st_add_rm _ _ _) => unfold st_add_rm
  | |- npc (st_use_rm _ _ _) => unfold st_use_rm
  | |- npc (if ?c then _ else _) => destruct c eqn:?
  | |- npc (match ?x with _ => _ end) => destruct x eqn:?
  | |- npc (let '(_, _) := ?x in _) => destruct x eqn:?
  | |- npc (fun h => _) =>
      apply npc_state; intros ? Hh; cbv beta zeta;
      repeat match goal with |- context [match ?x with _ => _ end] => destruct x end;
      cbn [fst snd]; split; [discriminate|exact Hh]
  end.
Ltac npc_go := repeat (unfold_derived; cbn beta iota; npc_step).

Section NP.
Variable E : env.

(* with a context user, CurrentUser / LoadCurrentUser succeed without touching anything *)
Lemma current_user_HU h r h' :
  HU h -> current_user E h = (r, h') -> h' = h /\ exists u, r = Ok (u, true).
Proof.
  intros H Eq. unfold current_user, bind, get_h in Eq.
  destruct (h_cuser h) as [u|] eqn:Hc; [|exfalso; apply H; exact Hc].
  inversion Eq; subst. eauto.
Qed.
Lemma load_current_user_HU h r h' :
  HU h -> load_current_user E h = (r, h') -> h' = h /\ exists u, r = Ok u.
Proof.
  intros H Eq. unfold load_current_user, bind, get_h in Eq.
  destruct (h_cuser h) as [u|] eqn:Hc; [|exfalso; apply H; exact Hc].
  inversion Eq; subst. eauto.
Qed.

Lemma npc_redirect ro : npc (redirect E ro). Proof. npc_go. Qed.
Lemma npc_respond p d : npc (respond E p d). Proof. npc_go. Qed.
Lemma npc_send_code p n : npc (send_code_to_user E p n). Proof. npc_go. Qed.

(* ---- every hook, hence Events.call over ANY list of hooks ------------------------------- *)
Lemma npc_hook hk rm hd : npc (run_hook E hk rm hd).
Proof.
  destruct hk; unfold run_hook; try (npc_go; fail).
  (* HRememberAfter: CurrentUserP *)
  destruct (negb rm); [apply npc_ret|].
  intros h r h' H Eq. apply try_inv in Eq as [(x & h1 & E1 & NP & K)|(E1 & ->)].
  - destruct (current_user_HU _ _ _ H E1) as [-> [u ->]]. clear E1 NP. cbn beta iota in K.
    assert (G : npc ('(hash, tok) <- rm_generate E (u_pid u) ;; st_add_rm (e_O E) (u_pid u) hash ;;; put_cookie k_rm tok ;;; ret false))
      by npc_go.
    exact (G _ _ _ H K).
  - destruct (current_user_HU _ _ _ H E1) as [_ [u Hr]]. discriminate Hr.
Qed.

Lemma npc_call hs : forall rm hd, npc (call E hs rm hd).
Proof.
  induction hs as [|hk hs IH]; intros rm hd; simpl.
  - apply npc_ret.
  - apply npc_bind; [apply npc_hook|intros; apply IH].
Qed.
Lemma npc_fire e rm : npc (fire E e rm).
Proof. unfold fire. apply npc_call. Qed.

(* entering the invariant: after SetUser-in-context the rest cannot panic *)
Lemma np_set_cuser_bind {B} u (k : unit -> M B) : (forall a, npc (k a)) -> np (bind (set_cuser u) k).
Proof.
  intros Hk h r h' Eq. unfold bind, set_cuser, modify in Eq.
  eapply (Hk tt); [|exact Eq]. unfold HU. simpl. discriminate.
Qed.
Lemma np_of_npc_from {A} (m : M A) : npc m -> forall h r h', HU h -> m h = (r, h') -> r <> Panic.
Proof. intros Hm h r h' H Eq. eapply Hm; eauto. Qed.
End NP.

(* the two provers combined: [np] until the context user is set, [npc] from there on *)
Ltac nph_step :=
  first [ match goal with
          | |- np (bind (set_cuser _) _) => apply np_set_cuser_bind; intros
          | |- npc (fire _ _ _) => apply npc_fire
          end
        | npc_step | np_step ].
Ltac nph_go := repeat (unfold_derived; cbn beta iota; nph_step).

Section NH.
Variable E : env.

Lemma np_login_post : np (login_post E). Proof. unfold login_post. nph_go. Qed.
Lemma np_otp_login_post : np (otp_login_post E). Proof. unfold otp_login_post. nph_go. Qed.
Lemma np_register_post : np (register_post E). Proof. unfold register_post. nph_go. Qed.
Lemma np_recover_end_post : np (recover_end_post E).
Proof. unfold recover_end_post, invalid_recover_token. nph_go. Qed.
Lemma np_oauth2_end p : np (oauth2_end E p). Proof. unfold oauth2_end. nph_go. Qed.
Lemma np_totp_validate : np (totp_validate E). Proof. unfold totp_validate. nph_go. Qed.
Lemma np_totp_validate_post : np (totp_validate_post E).
Proof. unfold totp_validate_post. apply np_bind; [apply np_totp_validate|intros]. nph_go. Qed.
Lemma np_totp_remove_post : np (totp_remove_post E).
Proof. unfold totp_remove_post. apply np_bind; [apply np_totp_validate|intros]. nph_go. Qed.
Lemma np_totp_confirm_post : np (totp_confirm_post E). Proof. unfold totp_confirm_post. nph_go. Qed.
Lemma np_sms_send_code pg u : np (sms_send_code E pg u). Proof. unfold sms_send_code. nph_go. Qed.
Lemma np_sms_validate_code pg u sh inp rc : np (sms_validate_code E pg u sh inp rc).
Proof. unfold sms_validate_code. nph_go. Qed.
Lemma np_sms_validator_post pg : np (sms_validator_post E pg).
Proof.
  unfold sms_validator_post.
  repeat (unfold_derived; cbn beta iota;
          first [ apply np_sms_send_code | apply np_sms_validate_code | nph_step ]).
Qed.
End NH.

(* ---- request level: every route, every middleware stack ------------------------------------ *)
Lemma np_bind_post {A B} (m : M A) (f : A -> M B) :
  np m -> (forall a h h1, m h = (Ok a, h1) -> forall r h', f a h1 = (r, h') -> r <> Panic) -> np (bind m f).
Proof.
  intros Hm Hf h r h' Eq. destruct (bind_inv _ _ _ _ _ Eq) as [(a & h1 & E1 & E2)|[(e & E1 & ->)|(E1 & ->)]].
  - eapply Hf; eauto.
  - discriminate.
  - exfalso. eapply Hm; eauto.
Qed.

Section NS.
Variable E : env.

Lemma np_login_get : np (login_get E). Proof. unfold login_get. np_go. Qed.
Lemma np_otp_login_get : np (otp_login_get E). Proof. unfold otp_login_get. np_go. Qed.
Lemma np_otp_show p : np (otp_show E p). Proof. unfold otp_show. np_go. Qed.
Lemma np_resp0 p : np (resp0 E p). Proof. unfold resp0. np_go. Qed.
Lemma np_totp_setup_get : np (totp_setup_get E). Proof. unfold totp_setup_get. np_go. Qed.
Lemma np_totp_setup_post : np (totp_setup_post E). Proof. unfold totp_setup_post. np_go. Qed.
Lemma np_totp_confirm_get : np (totp_confirm_get E). Proof. unfold totp_confirm_get. np_go. Qed.
Lemma np_totp_qr : np (totp_qr E). Proof. unfold totp_qr. np_go. Qed.
Lemma np_sms_setup_get : np (sms_setup_get E). Proof. unfold sms_setup_get. np_go. Qed.
Lemma np_sms_setup_post : np (sms_setup_post E). Proof. unfold sms_setup_post. np_go. Qed.
Lemma np_email_verify_get k : np (email_verify_get E k). Proof. unfold email_verify_get. np_go. Qed.
Lemma np_email_verify_wrap k : np (email_verify_wrap E k). Proof. unfold email_verify_wrap. np_go. Qed.
Lemma np_recovery_regen_get : np (recovery_regen_get E). Proof. unfold recovery_regen_get. np_go. Qed.
Lemma np_app_handler : np (app_handler E). Proof. unfold app_handler. np_go. Qed.
Lemma np_remember_mw : np (remember_mw E).
Proof.
  unfold remember_mw.
  repeat (unfold_derived; cbn beta iota; first [apply np_remember_authenticate | np_step]).
Qed.
Lemma np_expire_mw : np (expire_mw E). Proof. unfold expire_mw. np_go. Qed.

Lemma np_behind full m : np m -> np (behind E full m).
Proof. intros Hm. unfold behind. apply np_bind; [apply np_auth_middleware|intros [|]; [exact Hm|apply np_ret]]. Qed.
Lemma np_verified k m : np m -> np (verified E k m).
Proof.
  intros Hm. unfold verified. apply np_behind.
  apply np_bind; [apply np_email_verify_wrap|intros [|]; [exact Hm|apply np_ret]].
Qed.

(* lock.Middleware / confirm.Middleware use LoadCurrentUserP; with a context user they cannot panic *)
Lemma npc_lock_mw : npc (lock_mw E).
Proof.
  intros h r h' H Eq. unfold lock_mw in Eq. apply try_inv in Eq as [(x & h1 & E1 & NP & K)|(E1 & ->)].
  - destruct (load_current_user_HU _ _ _ _ H E1) as [-> [u ->]]. clear E1 NP. cbn beta iota in K.
    assert (G : npc (if negb (is_locked E u) then ret true
                     else log [u_pid u; q_path (e_req E)] ;;;
                          try (redirect E (ro_fail (p_lock_notok_of (e_cfg E)))) (fun r => match r with Ok _ => ret tt | _ => log [] end) ;;; ret false)) by npc_go.
    exact (G _ _ _ H K).
  - destruct (load_current_user_HU _ _ _ _ H E1) as [_ [u Hr]]. discriminate Hr.
Qed.
Lemma npc_confirm_mw : npc (confirm_mw E).
Proof.
  intros h r h' H Eq. unfold confirm_mw in Eq. apply try_inv in Eq as [(x & h1 & E1 & NP & K)|(E1 & ->)].
  - destruct (load_current_user_HU _ _ _ _ H E1) as [-> [u ->]]. clear E1 NP. cbn beta iota in K.
    assert (G : npc (if u_confirmed u then ret true
                     else log [u_pid u; q_path (e_req E)] ;;;
                          try (redirect E (ro_fail (p_confirm_notok_of (e_cfg E)))) (fun r => match r with Ok _ => ret tt | _ => log [] end) ;;; ret false)) by npc_go.
    exact (G _ _ _ H K).
  - destruct (load_current_user_HU _ _ _ _ H E1) as [_ [u Hr]]. discriminate Hr.
Qed.
Lemma npc_app_handler : npc (app_handler E). Proof. unfold app_handler. npc_go. Qed.
End NS.

Section NS2.
Variable E : env.

(* the documented stack: the access middleware admits the request only with a user in the
   context, so the P-variants behind it are safe *)
Lemma np_app_stack full tf fr l c r e : np (app_stack E full tf fr l c r e).
Proof.
  unfold app_stack.
  apply np_bind; [destruct e; [apply np_expire_mw|apply np_ret]|intros sess].
  cbv zeta. set (E' := with_sess E sess).
  apply np_bind; [destruct r; [|apply np_ret]|intros sess2].
  { apply np_bind; [apply np_remember_mw|intros _]. unfold remembered_view.
    apply np_bind; [apply np_get_h|intros h0]. destruct (h_cpid h0); apply np_ret. }
  clear E'. set (E' := with_sess E sess2).
  apply np_bind_post; [apply np_auth_middleware|].
  intros ok h h1 Ha rr h' Eq. destruct ok; cbn [negb] in Eq; [|inversion Eq; discriminate].
  apply auth_middleware_admits in Ha as (_ & (u & Hu) & _).
  assert (H1 : HU h1) by (unfold HU; rewrite Hu; discriminate).
  assert (G : npc (ok <- (if l then lock_mw E' else ret true) ;;
                   if negb ok then ret tt else
                   ok <- (if c then confirm_mw E' else ret true) ;;
                   if negb ok then ret tt else app_handler E')).
  { apply npc_bind; [destruct l; [apply npc_lock_mw|apply npc_ret]|intros [|]; cbn [negb]; [|apply npc_ret]].
    apply npc_bind; [destruct c; [apply npc_confirm_mw|apply npc_ret]|intros [|]; cbn [negb]; [|apply npc_ret]].
    apply npc_app_handler. }
  exact (proj1 (G _ _ _ H1 Eq)).
Qed.

Lemma np_with_error_handler m : np m -> np (with_error_handler E m).
Proof. intros Hm. unfold with_error_handler. apply np_try; [exact Hm|intros]. np_go. Qed.

Lemma np_routed_when b rt : (forall m, rt = Handler m -> np m) -> forall m, when b rt = Handler m -> np m.
Proof. intros H m. destruct b; simpl; [apply H|discriminate]. Qed.
Lemma np_routed_get_post g p :
  np g -> np p -> forall m, get_post E g p = Handler m -> np m.
Proof.
  intros Hg Hp m. unfold get_post. destruct (q_meth (e_req E)); intros Eq; inversion Eq; subst; assumption.
Qed.
Lemma np_routed_on_method mt g : np g -> forall m, on_method E mt g = Handler m -> np m.
Proof.
  intros Hg m. unfold on_method. destruct (meth_eqb _ _); intros Eq; inversion Eq; subst; assumption.
Qed.

Lemma np_route_table m : route_table E = Handler m -> np m.
Proof.
  unfold route_table.
  destruct (q_route (e_req E)) eqn:Rt.
  all: try (intros Eq; inversion Eq; subst; apply np_app_stack; fail).
  all: destruct (q_meth (e_req E)) eqn:Mt; try (intros Eq; discriminate Eq).
  all: revert m; apply np_routed_when.
  all: first [ apply np_routed_get_post | apply np_routed_on_method ].
  all: repeat first [ apply np_verified | apply np_behind ].
  all: first [ apply np_login_get | apply np_login_post | apply np_otp_login_get | apply np_otp_login_post
          | apply np_otp_show | apply np_otp_add_post | apply np_otp_clear_post | apply np_resp0
          | apply np_register_post | apply np_confirm_get | apply np_recover_start_post
          | apply np_recover_end_get | apply np_recover_end_post | apply np_oauth2_start | apply np_oauth2_end
          | apply np_logout | apply np_totp_setup_get | apply np_totp_setup_post | apply np_totp_qr
          | apply np_totp_confirm_get | apply np_totp_confirm_post | apply np_totp_remove_post
          | apply np_totp_validate_post | apply np_sms_setup_get | apply np_sms_setup_post
          | apply np_sms_validator_post | apply np_email_verify_get | apply np_email_verify_post
          | apply np_email_verify_end | apply np_recovery_regen_get | apply np_recovery_regen_post ].
Qed.

Theorem np_serve : np (serve E).
Proof.
  unfold serve. destruct (route_table E) as [m| |] eqn:Rt.
  - apply np_with_error_handler. apply np_route_table. exact Rt.
  - apply np_modify.
  - apply np_modify.
Qed.
End NS2.
