(* From the handler-level guards to the stored sessions: if a request makes a browser's session
   carry the user identity U and it did not carry U before, then the credential condition of the
   route held for U — on the request, the jars and the storage the request started from.
   Ingredients: a pure fact about the reference jar (a new uid value can only come from a
   [Put uid U] event), the flush rule (what reaches the jar is a prefix of what the handler
   recorded), and the guard lemmas of Guards.v / Guards2.v / Guards3.v. *)
From AB Require Import World.Step Proofs.EvLogic Proofs.Neutral Proofs.HandlerEvents Proofs.ServeEvents Proofs.StepUid
  Proofs.MonadInv Proofs.Guards Proofs.StoreLogic Proofs.Guards2 Proofs.Guards3 Proofs.LogoutProofs.
Open Scope Z_scope.

(* ---- the jar --------------------------------------------------------------------------- *)
Lemma apply_events_app j l1 l2 : apply_events j (l1 ++ l2) = apply_events (apply_events j l1) l2.
Proof. unfold apply_events. apply fold_left_app. Qed.

(* whatever else the event list does (deletions and wipes included): if the jar ends up with
   uid = U and did not start with uid = U, the list contains the event [Put uid U] *)
Lemma apply_events_uid_change : forall l j U,
  alookup k_uid (apply_events j l) = Some U -> alookup k_uid j <> Some U -> In (Put k_uid U) l.
Proof.
  induction l as [|e l IH] using rev_ind; intros j U H N.
  - contradiction.
  - rewrite apply_events_app in H. unfold apply_events at 1 in H. cbn [fold_left] in H.
    apply in_or_app.
    destruct e as [k v|k|wl]; unfold apply_event in H.
    + destruct (bytes_dec k_uid k) as [<-|Nk].
      * rewrite alookup_aput_eq in H. inversion H; subst. right. left. reflexivity.
      * rewrite alookup_aput_neq in H by assumption. left. eapply IH; eauto.
    + destruct (bytes_dec k_uid k) as [<-|Nk].
      * rewrite alookup_aremove_eq in H. discriminate.
      * rewrite alookup_aremove_neq in H by assumption. left. eapply IH; eauto.
    + rewrite (alookup_filter_key (fun x => bmem x (bsplit ","%byte wl))) in H.
      destruct (bmem k_uid (bsplit ","%byte wl)); [left; eapply IH; eauto|discriminate].
Qed.

(* ---- guards with an arbitrary event class ------------------------------------------------ *)
(* [guarded G] of Guards.v is [gen_guarded (uid_guard G)] *)
Definition gen_guarded (P : csevent -> Prop) {A} (m : M A) (h : hst) : Prop :=
  forall r h', m h = (r, h') ->
    exists ls lc, h_sev h' = h_sev h ++ ls /\ h_cev h' = h_cev h ++ lc /\ Forall P ls.

(* the class the step-level statement needs: every [Put uid U] satisfies G; anything else goes *)
Definition put_guard (G : bytes -> Prop) (e : csevent) : Prop := forall U, e = Put k_uid U -> G U.

Lemma uid_guard_put G e : uid_guard G e -> put_guard G e.
Proof.
  intros [N|(U' & -> & HG)] U HU.
  - subst e. unfold sess_neutral in N. congruence.
  - inversion HU; subst. exact HG.
Qed.
Lemma neutral_put G e : sess_neutral e -> put_guard G e.
Proof. intros N. apply uid_guard_put. left. exact N. Qed.

Lemma gen_guarded_weaken (P Q : csevent -> Prop) {A} (m : M A) h :
  (forall e, P e -> Q e) -> gen_guarded P m h -> gen_guarded Q m h.
Proof.
  intros PQ Hg r h' Eq. destruct (Hg _ _ Eq) as (ls & lc & S1 & S2 & F). exists ls, lc. repeat split; auto.
  eapply Forall_impl; eauto.
Qed.

Lemma put_of_guarded G {A} (m : M A) h : guarded G m h -> gen_guarded (put_guard G) m h.
Proof. apply gen_guarded_weaken. apply uid_guard_put. Qed.

Lemma gen_guarded_of_evs P psi {A} (m : M A) h : evs_all P psi m -> gen_guarded P m h.
Proof. intros H r h' Eq. destruct (H _ _ _ Eq) as [(ls & lc & S & Cc & F & _) _]. eauto. Qed.

Lemma gen_guarded_of_neutral G {A} (m : M A) h : evs_all sess_neutral any_ev m -> gen_guarded (put_guard G) m h.
Proof.
  intros H. apply (gen_guarded_of_evs _ any_ev).
  eapply evs_weaken; [apply neutral_put | intros ? Hx; exact Hx | exact H].
Qed.

Lemma gen_guarded_bind P {A B} (m : M A) (f : A -> M B) h :
  gen_guarded P m h -> (forall a h1, m h = (Ok a, h1) -> gen_guarded P (f a) h1) -> gen_guarded P (bind m f) h.
Proof.
  intros Hm Hf r h' Eq. apply bind_inv in Eq as [(a & h1 & E1 & E2)|[(e & E1 & ->)|(E1 & ->)]].
  - destruct (Hm _ _ E1) as (l1 & c1 & S1 & C1 & F1). destruct (Hf a h1 E1 _ _ E2) as (l2 & c2 & S2 & C2 & F2).
    exists (l1 ++ l2), (c1 ++ c2). rewrite S2, S1, C2, C1, !app_assoc. repeat split; auto. apply Forall_app; auto.
  - eapply Hm; eauto.
  - eapply Hm; eauto.
Qed.

Lemma gen_guarded_try P {A B} (m : M A) (f : res A -> M B) h :
  gen_guarded P m h -> (forall x h1, m h = (x, h1) -> gen_guarded P (f x) h1) -> gen_guarded P (try m f) h.
Proof.
  intros Hm Hf r h' Eq. apply try_inv in Eq as [(x & h1 & E1 & _ & E2)|(E1 & ->)].
  - destruct (Hm _ _ E1) as (l1 & c1 & S1 & C1 & F1). destruct (Hf x h1 E1 _ _ E2) as (l2 & c2 & S2 & C2 & F2).
    exists (l1 ++ l2), (c1 ++ c2). rewrite S2, S1, C2, C1, !app_assoc. repeat split; auto. apply Forall_app; auto.
  - eapply Hm; eauto.
Qed.

(* the error handler adds no client-state event *)
Lemma gen_guarded_error_handler P E (hd : M unit) h :
  gen_guarded P hd h -> gen_guarded P (with_error_handler E hd) h.
Proof.
  intros Hh. unfold with_error_handler. apply gen_guarded_try; [exact Hh|].
  intros x h1 _. apply (gen_guarded_of_evs _ any_ev). repeat evs_step.
Qed.

Lemma serve_handler E hd : route_table E = Handler hd -> serve E = with_error_handler E hd.
Proof. unfold serve. intros ->. reflexivity. Qed.

(* ---- the flush rule for per-state guards ---------------------------------------------------- *)
Lemma flushed_guarded P phi psi E st0 r h :
  evs_all phi psi (serve E) -> gen_guarded P (serve E) (init_hst st0 (e_O E)) ->
  serve E (init_hst st0 (e_O E)) = (r, h) ->
  match h_out h with
  | Some wr => Forall P (w_sev wr)
  | None => True
  end.
Proof.
  intros Hs Hg Eq. destruct (Hs _ _ _ Eq) as [_ Pf]. destruct (Hg _ _ Eq) as (ls & lc & S & _ & F).
  destruct (h_out h) as [wr|] eqn:Ho; [|exact I].
  assert (P0 : pref (init_hst st0 (e_O E))) by (intros wr0 Hw; discriminate Hw).
  destruct (Pf P0 wr Ho) as (l & c & E1 & _).
  simpl in S. rewrite E1 in S. subst ls. apply Forall_app in F. tauto.
Qed.

Section SG.
Variable C : crypto.
Variable cfg : config.

(* the step-level rule: a session that newly carries U was written under G U *)
Lemma step_put_guard (G : bytes -> Prop) phi psi w req O U :
  evs_all phi psi (serve (mkEnv C cfg O req (jar_get (q_browser req) (w_cook w)) (jar_get (q_browser req) (w_sess w)))) ->
  gen_guarded (put_guard G)
    (serve (mkEnv C cfg O req (jar_get (q_browser req) (w_cook w)) (jar_get (q_browser req) (w_sess w))))
    (init_hst (w_st w) O) ->
  alookup k_uid (jar_get (q_browser req) (w_sess (fst (step C cfg w (AReq req) O)))) = Some U ->
  alookup k_uid (jar_get (q_browser req) (w_sess w)) <> Some U ->
  G U.
Proof.
  intros Hev Hg H1 H0. revert H1. unfold step. cbv zeta.
  destruct (serve _ _) as [r h] eqn:Es.
  pose proof (flushed_guarded _ _ _ _ _ _ _ Hev Hg Es) as Hf.
  destruct (h_out h) as [wr|]; simpl; intros H1.
  - rewrite jar_get_set_eq in H1. apply apply_events_uid_change in H1; [|exact H0].
    rewrite Forall_forall in Hf. exact (Hf _ H1 U eq_refl).
  - contradiction.
Qed.

(* the same, for a route whose handler is [hd] and never drops the identity *)
Lemma step_route_guard (G : bytes -> Prop) (hd : M unit) w req O U :
  let E := mkEnv C cfg O req (jar_get (q_browser req) (w_cook w)) (jar_get (q_browser req) (w_sess w)) in
  route_table E = Handler hd -> may_drop req = false ->
  guarded G hd (init_hst (w_st w) O) ->
  alookup k_uid (jar_get (q_browser req) (w_sess (fst (step C cfg w (AReq req) O)))) = Some U ->
  alookup k_uid (jar_get (q_browser req) (w_sess w)) <> Some U ->
  G U.
Proof.
  intros E RT MD Hg H1 H0.
  apply (step_put_guard G sess_nodrop any_ev w req O U); fold E; auto.
  - apply serve_evs. apply nodrop_routes. exact MD.
  - rewrite (serve_handler _ _ RT). apply gen_guarded_error_handler. apply put_of_guarded. exact Hg.
Qed.

Ltac route_is R M :=
  unfold route_table; cbn [e_req e_cfg]; rewrite R, M; unfold when, get_post, on_method; cbn [e_req e_cfg];
  rewrite ?M; cbn [meth_eqb].
Ltac no_drop R := unfold may_drop; rewrite R; reflexivity.

(* ---- POST /login ---- *)
Lemma c01_step_login_lemma : forall w req O U,
  q_route req = RLogin -> q_meth req = POST -> has_mod cfg MAuth = true ->
  let b := q_browser req in
  let w' := fst (step C cfg w (AReq req) O) in
  alookup k_uid (jar_get b (w_sess w')) = Some U -> alookup k_uid (jar_get b (w_sess w)) <> Some U ->
  g_login (mkEnv C cfg O req (jar_get b (w_cook w)) (jar_get b (w_sess w))) (w_st w) U.
Proof.
  intros w req O U R M HM b w' H1 H0. subst b w'.
  eapply (step_route_guard _ _ w req O U); [|no_drop R| |exact H1|exact H0].
  - route_is R M. rewrite HM. reflexivity.
  - apply (login_post_guard _ (init_hst (w_st w) O)).
Qed.

(* ---- POST /otp/login ---- *)
Lemma c01_step_otp_lemma : forall w req O U,
  q_route req = ROtpLogin -> q_meth req = POST -> has_mod cfg MOtp = true ->
  let b := q_browser req in
  let w' := fst (step C cfg w (AReq req) O) in
  alookup k_uid (jar_get b (w_sess w')) = Some U -> alookup k_uid (jar_get b (w_sess w)) <> Some U ->
  g_otp (mkEnv C cfg O req (jar_get b (w_cook w)) (jar_get b (w_sess w))) (w_st w) U.
Proof.
  intros w req O U R M HM b w' H1 H0. subst b w'.
  eapply (step_route_guard _ _ w req O U); [|no_drop R| |exact H1|exact H0].
  - route_is R M. rewrite HM. reflexivity.
  - apply (otp_login_post_guard _ (init_hst (w_st w) O)).
Qed.

(* ---- POST /register ---- *)
Lemma c01_step_register_lemma : forall w req O U,
  q_route req = RRegister -> q_meth req = POST -> has_mod cfg MRegister = true ->
  let b := q_browser req in
  let w' := fst (step C cfg w (AReq req) O) in
  alookup k_uid (jar_get b (w_sess w')) = Some U -> alookup k_uid (jar_get b (w_sess w)) <> Some U ->
  Guards2.g_register (mkEnv C cfg O req (jar_get b (w_cook w)) (jar_get b (w_sess w))) (w_st w) U.
Proof.
  intros w req O U R M HM b w' H1 H0. subst b w'.
  eapply (step_route_guard _ _ w req O U); [|no_drop R| |exact H1|exact H0].
  - route_is R M. rewrite HM. reflexivity.
  - apply (register_post_guard _ (init_hst (w_st w) O)).
Qed.

(* ---- POST /recover/end ---- *)
Lemma c01_step_recover_lemma : forall w req O U,
  q_route req = RRecoverEnd -> q_meth req = POST -> has_mod cfg MRecover = true ->
  let b := q_browser req in
  let w' := fst (step C cfg w (AReq req) O) in
  alookup k_uid (jar_get b (w_sess w')) = Some U -> alookup k_uid (jar_get b (w_sess w)) <> Some U ->
  g_recover (mkEnv C cfg O req (jar_get b (w_cook w)) (jar_get b (w_sess w))) (w_st w) U.
Proof.
  intros w req O U R M HM b w' H1 H0. subst b w'.
  eapply (step_route_guard _ _ w req O U); [|no_drop R| |exact H1|exact H0].
  - route_is R M. rewrite HM. reflexivity.
  - apply (recover_end_post_guard _ (init_hst (w_st w) O)).
Qed.

(* ---- GET /oauth2/callback/<prov> ---- *)
Lemma c01_step_oauth2_lemma : forall w req O U prov,
  q_route req = ROAuthCallback prov -> q_meth req = GET ->
  has_mod cfg MOAuth2 = true -> bmem prov (c_providers cfg) = true ->
  let b := q_browser req in
  let w' := fst (step C cfg w (AReq req) O) in
  alookup k_uid (jar_get b (w_sess w')) = Some U -> alookup k_uid (jar_get b (w_sess w)) <> Some U ->
  g_oauth2 (mkEnv C cfg O req (jar_get b (w_cook w)) (jar_get b (w_sess w))) prov (w_st w) U.
Proof.
  intros w req O U prov R M HM HP b w' H1 H0. subst b w'.
  eapply (step_route_guard _ _ w req O U); [|no_drop R| |exact H1|exact H0].
  - route_is R M. rewrite HM, HP. reflexivity.
  - apply (oauth2_end_guard _ prov (init_hst (w_st w) O)).
Qed.

(* ---- POST /2fa/totp/validate, POST /2fa/sms/validate: the request starts with an empty context,
   so CurrentUser can only find the user named by the session's uid ---- *)
Lemma c01_step_totp_lemma : forall w req O U,
  q_route req = RTotpValidate -> q_meth req = POST -> c_totp cfg = true ->
  let b := q_browser req in
  let w' := fst (step C cfg w (AReq req) O) in
  alookup k_uid (jar_get b (w_sess w')) = Some U -> alookup k_uid (jar_get b (w_sess w)) <> Some U ->
  g_totp (mkEnv C cfg O req (jar_get b (w_cook w)) (jar_get b (w_sess w))) (init_hst (w_st w) O) U.
Proof.
  intros w req O U R M HM b w' H1 H0. subst b w'.
  eapply (step_route_guard _ _ w req O U); [|no_drop R| |exact H1|exact H0].
  - route_is R M. rewrite HM. reflexivity.
  - apply (totp_validate_post_guard _ (init_hst (w_st w) O)).
Qed.

Lemma c01_step_sms_lemma : forall w req O U,
  q_route req = RSmsValidate -> q_meth req = POST -> c_sms cfg = true ->
  let b := q_browser req in
  let w' := fst (step C cfg w (AReq req) O) in
  alookup k_uid (jar_get b (w_sess w')) = Some U -> alookup k_uid (jar_get b (w_sess w)) <> Some U ->
  g_sms (mkEnv C cfg O req (jar_get b (w_cook w)) (jar_get b (w_sess w))) (init_hst (w_st w) O) U.
Proof.
  intros w req O U R M HM b w' H1 H0. subst b w'.
  eapply (step_route_guard _ _ w req O U); [|no_drop R| |exact H1|exact H0].
  - route_is R M. rewrite HM. reflexivity.
  - apply (sms_validator_post_guard _ (init_hst (w_st w) O)).
Qed.
End SG.

(* ---- the application stack with the remember middleware (with or without expire in front) ---- *)
Lemma pres_st_expire_mw E : pres h_st (expire_mw E).
Proof. unfold expire_mw. pres_go. Qed.

Lemma put_guard_other G e : (forall U, e <> Put k_uid U) -> put_guard G e.
Proof. intros N U HU. destruct (N U HU). Qed.

(* expire only deletes, or stamps last_action *)
Lemma evs_put_expire_mw G E : evs_all (put_guard G) any_ev (expire_mw E).
Proof.
  unfold expire_mw. repeat evs_step; try (apply put_guard_other; intros U HU; try discriminate HU;
    injection HU as HK _; vm_compute in HK; discriminate HK).
Qed.

Lemma current_user_id_same E h id h1 : current_user_id E h = (Ok id, h1) -> h1 = h.
Proof.
  unfold current_user_id, bind, get_h. cbn beta iota. destruct (h_cpid h); intros Eq; inversion Eq; reflexivity.
Qed.

Lemma app_stack_remember_guard E full tf fr l c e h :
  gen_guarded (put_guard (g_remember E (h_st h))) (app_stack E full tf fr l c true e) h.
Proof.
  unfold app_stack.
  apply gen_guarded_bind.
  { apply (gen_guarded_of_evs _ any_ev). destruct e; [apply evs_put_expire_mw|apply evs_ret]. }
  intros sess h1 H1.
  assert (St1 : h_st h1 = h_st h).
  { destruct e; [exact (pres_st_expire_mw E _ _ _ H1)|inversion H1; reflexivity]. }
  clear H1. cbv zeta. cbn beta iota.
  apply gen_guarded_bind.
  { apply gen_guarded_bind.
    { unfold remember_mw. apply gen_guarded_bind; [apply gen_guarded_of_neutral; evs_go|intros id h2 H2].
      apply current_user_id_same in H2. subst h2.
      destruct (bempty id); [|apply (gen_guarded_of_evs _ any_ev); apply evs_ret].
      apply gen_guarded_try.
      - rewrite <- St1. apply put_of_guarded. exact (remember_authenticate_guard (with_sess E sess) h1).
      - intros x h3 _. apply gen_guarded_of_neutral. destruct x; evs_go. }
    intros [] h3 _. apply gen_guarded_of_neutral. apply evs_remembered_view. }
  intros sess2 h4 _. apply gen_guarded_of_neutral.
  apply evs_bind; [apply neutral_auth_middleware|intros ok]. destruct (negb ok); [apply evs_ret|].
  apply evs_bind; [destruct l; [apply neutral_lock_mw|apply evs_ret]|intros ok2]. destruct (negb ok2); [apply evs_ret|].
  apply evs_bind; [destruct c; [apply neutral_confirm_mw|apply evs_ret]|intros ok3]. destruct (negb ok3); [apply evs_ret|].
  apply neutral_app_handler.
Qed.

Lemma evs_any phi psi {A} (m : M A) : evs_all phi psi m -> evs_all any_ev any_ev m.
Proof. apply evs_weaken; intros; exact I. Qed.

Lemma evs_any_app_stack E full tf fr l c r e : evs_all any_ev any_ev (app_stack E full tf fr l c r e).
Proof.
  unfold app_stack.
  apply evs_bind; [destruct e; [unfold expire_mw; repeat evs_step; exact I|apply evs_ret]|intros sess]. cbv zeta.
  apply evs_bind; [destruct r; [apply evs_bind; [eapply evs_any, nodrop_remember_mw|intros _; apply evs_remembered_view]|apply evs_ret]|intros sess2].
  apply evs_bind; [eapply evs_any, neutral_auth_middleware|intros ok]. destruct (negb ok); [apply evs_ret|].
  apply evs_bind; [destruct l; [eapply evs_any, neutral_lock_mw|apply evs_ret]|intros ok2]. destruct (negb ok2); [apply evs_ret|].
  apply evs_bind; [destruct c; [eapply evs_any, neutral_confirm_mw|apply evs_ret]|intros ok3]. destruct (negb ok3); [apply evs_ret|].
  eapply evs_any, neutral_app_handler.
Qed.

(* any request to an application route behind the remember middleware, any method *)
Lemma c01_step_remember_lemma : forall C cfg w req O U full tf fr l c e,
  q_route req = RApp full tf fr l c true e ->
  let b := q_browser req in
  let w' := fst (step C cfg w (AReq req) O) in
  alookup k_uid (jar_get b (w_sess w')) = Some U -> alookup k_uid (jar_get b (w_sess w)) <> Some U ->
  g_remember (mkEnv C cfg O req (jar_get b (w_cook w)) (jar_get b (w_sess w))) (w_st w) U.
Proof.
  intros C cfg w req O U full tf fr l c e R b w' H1 H0. subst b w'.
  set (E := mkEnv C cfg O req (jar_get (q_browser req) (w_cook w)) (jar_get (q_browser req) (w_sess w))).
  assert (RT : route_table E = Handler (app_stack E full tf fr l c true e)).
  { unfold route_table. cbn [e_req E]. rewrite R. reflexivity. }
  apply (step_put_guard C cfg (g_remember E (w_st w)) any_ev any_ev w req O U); fold E; auto.
  - apply serve_evs. rewrite RT. unfold routed_evs. apply evs_any_app_stack.
  - rewrite (serve_handler _ _ RT). apply gen_guarded_error_handler.
    exact (app_stack_remember_guard E full tf fr l c e (init_hst (w_st w) O)).
Qed.

(* what [user_source] says at the start of a request: no context user, no cached pid *)
Lemma user_source_init E pk st O u :
  user_source E pk (init_hst st O) u ->
  ulookup (aget k_uid (e_sess E)) (s_users st) = Some u \/ ulookup (aget pk (e_sess E)) (s_users st) = Some u.
Proof. intros [H|[H|H]]; [discriminate H|left; exact H|right; exact H]. Qed.
