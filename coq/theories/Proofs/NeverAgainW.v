(* The three "never again over whole histories" developments (Proofs/TokenHistory.v: remember cookie,
   confirmation / recovery token; Proofs/OneTimeHistory.v: one-time passwords, 2FA recovery codes)
   carried over to the router as mounted behind a global remember.Middleware: [serve_top] / [wstep] /
   [wrun].

   Part 0  the two Hoare logics [tk] and [ow] for [serve_top] (the wrapper prefix is remember_mw,
           which both logics already cover as part of the application stack, followed by
           remembered_view, which only reads), hence every step-level invariant for [wstep] and its
           history version for [wrun].
   Part A  the remember cookie under the wrapper.
   Part B  one-time passwords and recovery codes under the wrapper.
   Part C  confirmation and recovery tokens under the wrapper. *)
From AB Require Import World.Step World.Exec Base.Base64Proofs Proofs.EvLogic Proofs.Neutral Proofs.HandlerEvents
  Proofs.ServeEvents Proofs.StepUid Proofs.MonadInv Proofs.Guards Proofs.Guards2 Proofs.Guards3 Proofs.StoreLogic
  Proofs.StepGuard Proofs.StepAll Proofs.TwoFactorProofs Proofs.OneTimeProofs Proofs.TokenProofs Proofs.FlowProofs
  Proofs.OnceProofs Proofs.StoreShape Proofs.Footprint Proofs.Wrapped Proofs.Wrapped2 Proofs.HistoryProofs
  Proofs.StepLift2 Proofs.MwProofs Proofs.LockWorldW Proofs.OneTimeHistory Proofs.TokenHistory.
Open Scope Z_scope.

(* ================================================================================================ *)
(* Part 0: the logics for [serve_top], the invariants for [wstep] / [wrun]                          *)
(* ================================================================================================ *)
Lemma wrun_cons_fst C cfg w a O l :
  fst (wrun C cfg w ((a, O) :: l)) = fst (wrun C cfg (fst (wstep C cfg w a O)) l).
Proof. rewrite !wrun_grun. reflexivity. Qed.
Lemma wrun_snoc_fst C cfg w l a O :
  fst (wrun C cfg w (l ++ [(a, O)])) = fst (wstep C cfg (fst (wrun C cfg w l)) a O).
Proof. rewrite !wrun_grun. apply grun_snoc. Qed.

(* one request step of the router as mounted, unfolded *)
Lemma wstep_req_unfold C cfg w req O r h :
  serve_top (mkEnv C cfg O req (jar_get (q_browser req) (w_cook w)) (jar_get (q_browser req) (w_sess w)))
            (init_hst (w_st w) O) = (r, h) ->
  w_st (fst (wstep C cfg w (AReq req) O)) = h_st h /\
  w_sess (fst (wstep C cfg w (AReq req) O)) =
    match h_out h with
    | Some wr => jar_set (q_browser req) (apply_events (jar_get (q_browser req) (w_sess w)) (w_sev wr)) (w_sess w)
    | None => w_sess w
    end /\
  w_cook (fst (wstep C cfg w (AReq req) O)) =
    match h_out h with
    | Some wr => jar_set (q_browser req) (apply_events (jar_get (q_browser req) (w_cook w)) (w_cev wr)) (w_cook w)
    | None => w_cook w
    end /\
  snd (wstep C cfg w (AReq req) O) = obs_of r h.
Proof. intros Sv. unfold wstep. cbv zeta. rewrite Sv. destruct (h_out h); repeat split; reflexivity. Qed.

(* ---- [tk] ------------------------------------------------------------------------------------------ *)
Lemma tk_serve_top E S : tk_ok (e_C E) S -> tk S anyq (serve_top E).
Proof.
  intros OK. destruct (wrapped_route E) eqn:W.
  - rewrite (serve_top_wrapped _ W).
    eapply (tk_bind _ anyq); [apply (tk_remember_mw E _ OK)|intros _ _].
    eapply (tk_bind _ anyq); [apply (tk_remembered_view E _ OK)|intros s2 _].
    apply (tk_serve (with_sess E s2) S). exact OK.
  - rewrite (serve_top_plain _ W). apply tk_serve. exact OK.
Qed.

Lemma wstep_st_cases C cfg w a O :
  (exists req r h, a = AReq req /\
     serve_top (mkEnv C cfg O req (jar_get (q_browser req) (w_cook w)) (jar_get (q_browser req) (w_sess w)))
               (init_hst (w_st w) O) = (r, h) /\
     w_st (fst (wstep C cfg w a O)) = h_st h) \/
  ((forall req, a <> AReq req) /\ wstep C cfg w a O = step C cfg w a O).
Proof.
  destruct a as [req| | | | | | |]; try (right; split; [intros rq Hx; discriminate Hx|reflexivity]).
  left.
  destruct (serve_top (mkEnv C cfg O req (jar_get (q_browser req) (w_cook w)) (jar_get (q_browser req) (w_sess w)))
                      (init_hst (w_st w) O)) as [r h] eqn:Sv.
  exists req, r, h. split; [reflexivity|]. split; [exact Sv|].
  exact (proj1 (wstep_req_unfold C cfg w req O r h Sv)).
Qed.

Lemma wstep_winv C cfg S w a O :
  tk_ok C S -> ~ is_seed a -> (forall c, In c (o_fresh O) -> t_gc S c) ->
  winv S (w_st w) -> winv S (w_st (fst (wstep C cfg w a O))).
Proof.
  intros OK NS F W.
  destruct (wstep_st_cases C cfg w a O) as [(req & r & h & -> & Sv & ->)|(_ & ->)].
  - apply tinv_winv.
    assert (OK' : tk_ok (e_C (mkEnv C cfg O req (jar_get (q_browser req) (w_cook w)) (jar_get (q_browser req) (w_sess w)))) S)
      by exact OK.
    exact (proj1 (tk_serve_top _ _ OK' _ _ _ (tinv_init _ _ _ W F) Sv)).
  - apply step_winv; assumption.
Qed.

(* not a request: [wstep] is [step] *)
Lemma wstep_admin C cfg w a O : (forall req, a <> AReq req) -> wstep C cfg w a O = step C cfg w a O.
Proof. apply wstep_not_req. Qed.

Section TKW.
Variable C : crypto.
Hypothesis laws : crypto_laws C.
Variable cfg : config.

Lemma rm_count_wstep U N w a O n :
  ~ is_seed a -> ~ hands_out O N ->
  (count_occ bytes_dec (rmlookup U (s_rm (w_st w))) (rm_tok C U N) <= n)%nat ->
  (count_occ bytes_dec (rmlookup U (s_rm (w_st (fst (wstep C cfg w a O))))) (rm_tok C U N) <= n)%nat.
Proof using laws.
  intros NS NH H. apply (proj1 (winv_specA C U N n _)). apply wstep_winv.
  - apply specA_ok; [exact laws|]. exact (not_zero_of N O NH).
  - exact NS.
  - exact (fresh_not_N N O NH).
  - apply (proj2 (winv_specA C U N n _)). exact H.
Qed.

Lemma rm_count_wstep_raw w a O raw U n :
  rm_parse_pid raw = Some U -> ~ rm_reissue C raw U a O ->
  (count_occ bytes_dec (rmlookup U (s_rm (w_st w))) (b64std_enc (sha C raw)) <= n)%nat ->
  (count_occ bytes_dec (rmlookup U (s_rm (w_st (fst (wstep C cfg w a O))))) (b64std_enc (sha C raw)) <= n)%nat.
Proof using laws.
  intros Pp NR H. destruct a as [req| | | | | | |].
  1:{ rewrite <- (rm_tok_of_raw C raw U Pp) in *. apply rm_count_wstep; [intros []|exact NR|exact H]. }
  all: exact (rm_count_step_raw C laws cfg w _ O raw U n Pp NR H).
Qed.

(* A3 for [wstep] / [wrun] *)
Lemma rm_at_most_wstep w a O cookie raw U n :
  b64url_dec cookie = Some raw -> rm_parse_pid raw = Some U ->
  ~ rm_exception C cookie U (a, O) ->
  rm_at_most C cookie U (w_st w) n -> rm_at_most C cookie U (w_st (fst (wstep C cfg w a O))) n.
Proof using laws.
  intros Dc Pp NE H raw' Dc'. rewrite Dc in Dc'. inversion Dc'; subst raw'.
  apply rm_count_wstep_raw; [exact Pp| |exact (H raw Dc)].
  intros Hr. apply NE. exists raw. split; [exact Dc|exact Hr].
Qed.

Lemma rm_absent_wstep w a O cookie raw U :
  b64url_dec cookie = Some raw -> rm_parse_pid raw = Some U ->
  ~ rm_exception C cookie U (a, O) ->
  rm_absent C cookie U (w_st w) -> rm_absent C cookie U (w_st (fst (wstep C cfg w a O))).
Proof using laws.
  intros Dc Pp NE H. apply rm_absent_iff. apply (rm_at_most_wstep w a O cookie raw U 0 Dc Pp NE).
  apply rm_absent_iff. exact H.
Qed.

Lemma rm_at_most_wgrun cookie raw U n :
  b64url_dec cookie = Some raw -> rm_parse_pid raw = Some U ->
  forall l w, Forall (fun ao => ~ rm_exception C cookie U ao) l ->
    rm_at_most C cookie U (w_st w) n -> rm_at_most C cookie U (w_st (grun (wstep C cfg) w l)) n.
Proof using laws.
  intros Dc Pp. induction l as [|[a O] l IH]; intros w F H; cbn [grun]; [exact H|].
  inversion F as [|? ? F1 F2]; subst. apply IH; [exact F2|].
  exact (rm_at_most_wstep w a O cookie raw U n Dc Pp F1 H).
Qed.

Lemma rm_at_most_wrun cookie raw U n l w :
  b64url_dec cookie = Some raw -> rm_parse_pid raw = Some U ->
  Forall (fun ao => ~ rm_exception C cookie U ao) l ->
  rm_at_most C cookie U (w_st w) n -> rm_at_most C cookie U (w_st (fst (wrun C cfg w l))) n.
Proof using laws. intros Dc Pp F H. rewrite wrun_grun. exact (rm_at_most_wgrun cookie raw U n Dc Pp l w F H). Qed.

(* B3 for [wstep] / [wrun] *)
Lemma specB_wstep H cf w a O :
  sha C H <> [] -> ~ is_seed a -> ~ tok_hands_out O H ->
  winv (specB C H cf) (w_st w) -> winv (specB C H cf) (w_st (fst (wstep C cfg w a O))).
Proof using laws.
  intros Hne NS NH W. apply wstep_winv; [apply specB_ok; [exact laws|exact Hne|]|exact NS| |exact W].
  - intros Hz. apply NH. right. exact Hz.
  - cbn [specB t_gc]. intros c Hc Ln Hx. apply NH. left. exists c. auto.
Qed.

Lemma ctok_absent_wstep w a O tok raw :
  b64url_dec tok = Some raw -> sha C (firstn 32 raw) <> [] ->
  ~ ctok_exception C tok (a, O) ->
  ctok_absent C tok (w_st w) -> ctok_absent C tok (w_st (fst (wstep C cfg w a O))).
Proof using laws.
  intros Dc Hne NE Ab. destruct a as [req| | | | | | |].
  2-8: exact (ctok_absent_step C laws cfg w _ O tok raw Dc Hne NE Ab).
  intros raw' Dc'. rewrite Dc in Dc'. inversion Dc'; subst raw'. unfold tok_sel.
  apply (proj1 (winv_specB_c C (firstn 32 raw) _)).
  apply specB_wstep; [exact Hne|intros []| |].
  - intros Hh. apply NE. exists raw. split; [exact Dc|exact Hh].
  - apply (proj2 (winv_specB_c C (firstn 32 raw) _)). exact (Ab raw Dc).
Qed.

Lemma rtok_absent_wstep w a O tok raw :
  b64url_dec tok = Some raw -> sha C (firstn 32 raw) <> [] ->
  ~ rtok_exception C tok (a, O) ->
  rtok_absent C tok (w_st w) -> rtok_absent C tok (w_st (fst (wstep C cfg w a O))).
Proof using laws.
  intros Dc Hne NE Ab. destruct a as [req| | | | | | |].
  2-8: exact (rtok_absent_step C laws cfg w _ O tok raw Dc Hne NE Ab).
  intros raw' Dc'. rewrite Dc in Dc'. inversion Dc'; subst raw'. unfold tok_sel.
  apply (proj1 (winv_specB_r C (firstn 32 raw) _)).
  apply specB_wstep; [exact Hne|intros []| |].
  - intros Hh. apply NE. exists raw. split; [exact Dc|exact Hh].
  - apply (proj2 (winv_specB_r C (firstn 32 raw) _)). exact (Ab raw Dc).
Qed.

Lemma ctok_absent_wgrun tok raw :
  b64url_dec tok = Some raw -> sha C (firstn 32 raw) <> [] ->
  forall l w, Forall (fun ao => ~ ctok_exception C tok ao) l ->
    ctok_absent C tok (w_st w) -> ctok_absent C tok (w_st (grun (wstep C cfg) w l)).
Proof using laws.
  intros Dc Hne. induction l as [|[a O] l IH]; intros w F Hab; cbn [grun]; [exact Hab|].
  inversion F as [|? ? F1 F2]; subst. apply IH; [exact F2|]. exact (ctok_absent_wstep w a O tok raw Dc Hne F1 Hab).
Qed.
Lemma rtok_absent_wgrun tok raw :
  b64url_dec tok = Some raw -> sha C (firstn 32 raw) <> [] ->
  forall l w, Forall (fun ao => ~ rtok_exception C tok ao) l ->
    rtok_absent C tok (w_st w) -> rtok_absent C tok (w_st (grun (wstep C cfg) w l)).
Proof using laws.
  intros Dc Hne. induction l as [|[a O] l IH]; intros w F Hab; cbn [grun]; [exact Hab|].
  inversion F as [|? ? F1 F2]; subst. apply IH; [exact F2|]. exact (rtok_absent_wstep w a O tok raw Dc Hne F1 Hab).
Qed.
Lemma ctok_absent_wrun tok raw l w :
  b64url_dec tok = Some raw -> sha C (firstn 32 raw) <> [] ->
  Forall (fun ao => ~ ctok_exception C tok ao) l ->
  ctok_absent C tok (w_st w) -> ctok_absent C tok (w_st (fst (wrun C cfg w l))).
Proof using laws. intros Dc Hne F Hab. rewrite wrun_grun. exact (ctok_absent_wgrun tok raw Dc Hne l w F Hab). Qed.
Lemma rtok_absent_wrun tok raw l w :
  b64url_dec tok = Some raw -> sha C (firstn 32 raw) <> [] ->
  Forall (fun ao => ~ rtok_exception C tok ao) l ->
  rtok_absent C tok (w_st w) -> rtok_absent C tok (w_st (fst (wrun C cfg w l))).
Proof using laws. intros Dc Hne F Hab. rewrite wrun_grun. exact (rtok_absent_wgrun tok raw Dc Hne l w F Hab). Qed.
End TKW.

(* [filed] along [wstep] / [wrun] (LockWorldW.v) *)
Lemma wstep_filed C cfg w a O : filed (w_st w) -> filed (w_st (fst (wstep C cfg w a O))).
Proof. apply wstep_filed_lemma. Qed.
Lemma wrun_filed C cfg l w : filed (w_st w) -> filed (w_st (fst (wrun C cfg w l))).
Proof. apply wrun_filed_lemma. Qed.
Lemma wgrun_filed C cfg l w : filed (w_st w) -> filed (w_st (grun (wstep C cfg) w l)).
Proof. rewrite <- wrun_grun. apply wrun_filed. Qed.

(* ---- [ow] ------------------------------------------------------------------------------------------ *)
Lemma ow_remembered_view C NH NR U0 F0 s : ow C NH NR U0 F0 anyq (remembered_view s).
Proof.
  unfold remembered_view. apply ow_get_h_bind. intros h0 _. destruct (h_cpid h0); apply ow_ret; exact I.
Qed.

Lemma ow_serve_top E NH NR U0 F0 :
  (otp_add_route (e_req E) -> Hok E NH F0) -> (regen_route (e_req E) -> Rok E NR F0) ->
  ow (e_C E) NH NR U0 F0 anyq (serve_top E).
Proof.
  intros HA HR. destruct (wrapped_route E) eqn:W.
  - rewrite (serve_top_wrapped _ W).
    eapply (ow_bind _ _ _ _ _ anyq); [apply ow_remember_mw|intros _ _].
    eapply (ow_bind _ _ _ _ _ anyq); [apply ow_remembered_view|intros s2 _].
    apply (ow_serve (with_sess E s2) NH NR U0 F0); [exact HA|exact HR].
  - rewrite (serve_top_plain _ W). apply ow_serve; assumption.
Qed.

Lemma serve_top_lists E NH NR h r h' :
  filed (h_st h) -> ctx_stored h ->
  (otp_add_route (e_req E) -> Hok E NH (h_fresh h)) ->
  (regen_route (e_req E) -> Rok E NR (h_fresh h)) ->
  serve_top E h = (r, h') ->
  filed (h_st h') /\ users_shape (Wr (e_C E) NH NR) (s_users (h_st h)) (s_users (h_st h')).
Proof.
  intros F Cx HA HR Eq.
  destruct (ow_serve_top E NH NR (s_users (h_st h)) (h_fresh h) HA HR h r h' (oinv_start _ _ _ h F Cx) Eq) as [I' _].
  exact (oinv_end _ _ _ _ _ _ I').
Qed.

Lemma wstep_lists C cfg w a O :
  ~ is_seed a -> filed (w_st w) ->
  filed (w_st (fst (wstep C cfg w a O))) /\
  users_shape (Wr C (step_NH C a O) (step_NR C a O)) (s_users (w_st w)) (s_users (w_st (fst (wstep C cfg w a O)))).
Proof.
  intros NS F. destruct a as [req| | | | | | |].
  2-8: exact (step_lists C cfg w _ O NS F).
  destruct (serve_top (mkEnv C cfg O req (jar_get (q_browser req) (w_cook w)) (jar_get (q_browser req) (w_sess w)))
                      (init_hst (w_st w) O)) as [r0 h] eqn:Sv.
  rewrite (proj1 (wstep_req_unfold C cfg w req O r0 h Sv)).
  refine (serve_top_lists _ _ _ (init_hst (w_st w) O) _ _ F (ctx_stored_none (init_hst (w_st w) O) eq_refl) _ _ Sv).
  - intros Rt c Hc. cbn [step_NH]. split; [exact Rt|]. exists c. split; [exact Hc|reflexivity].
  - intros Rt c Hc e He. cbn [step_NR]. split; [exact Rt|]. exists c. split; [exact Hc|exact He].
Qed.

Lemma wstep_hits_le C cfg w a O U x :
  filed (w_st w) -> ~ seeds U a -> ~ otp_add_may_hit C x a O ->
  (otp_hits C x U (w_st (fst (wstep C cfg w a O))) <= otp_hits C x U (w_st w))%nat.
Proof.
  intros F NS NA. destruct a as [req| | | | | | |].
  2-8: exact (step_hits_le C cfg w _ O U x F NS NA).
  assert (N : ~ step_NH C (AReq req) O (sha C x)).
  { cbn [step_NH]. intros (Rt & c & Hc & Hs). apply NA. destruct Rt as [R M].
    cbn [otp_add_may_hit]. repeat split; auto. exists c. auto. }
  unfold otp_hits.
  destruct (wstep_lists C cfg w (AReq req) O (fun H => H) F) as [_ S]. specialize (S U).
  destruct (ulookup U (s_users (w_st w))) as [u0|];
    destruct (ulookup U (s_users (w_st (fst (wstep C cfg w (AReq req) O))))) as [u1|];
    try lia; try contradiction; destruct S as [S _]; specialize (S (sha C x) N);
    try exact S; unfold split_otps at 2 in S; cbn in S; unfold hits at 2 in S; cbn in S; lia.
Qed.

Lemma wstep_absent_preserved C cfg w a O U x :
  filed (w_st w) -> otp_absent C x U (w_st w) -> ~ seeds U a -> ~ otp_add_may_hit C x a O ->
  otp_absent C x U (w_st (fst (wstep C cfg w a O))).
Proof.
  intros F Ab NS NA. apply otp_absent_hits. apply otp_absent_hits in Ab.
  pose proof (wstep_hits_le C cfg w a O U x F NS NA). lia.
Qed.
Lemma wstep_unique_preserved C cfg w a O U x :
  filed (w_st w) -> otp_unique C x U (w_st w) -> ~ seeds U a -> ~ otp_add_may_hit C x a O ->
  otp_unique C x U (w_st (fst (wstep C cfg w a O))).
Proof.
  intros F Ab NS NA. apply otp_unique_hits. apply otp_unique_hits in Ab.
  pose proof (wstep_hits_le C cfg w a O U x F NS NA). lia.
Qed.

Lemma wrun_hits_le C cfg U x : forall l w,
  filed (w_st w) -> otp_quiet C U x l ->
  (otp_hits C x U (w_st (fst (wrun C cfg w l))) <= otp_hits C x U (w_st w))%nat.
Proof.
  induction l as [|[a O] l IH]; intros w F Q; [cbn; lia|]. rewrite wrun_cons_fst.
  inversion Q as [|? ? [N1 N2] Q']; subst. cbn [fst snd] in N1, N2.
  pose proof (wstep_hits_le C cfg w a O U x F N1 N2).
  pose proof (IH _ (wstep_filed C cfg w a O F) Q'). lia.
Qed.
Lemma wrun_absent_preserved C cfg U x l w :
  filed (w_st w) -> otp_absent C x U (w_st w) -> otp_quiet C U x l -> otp_absent C x U (w_st (fst (wrun C cfg w l))).
Proof.
  intros F Ab Q. apply otp_absent_hits. apply otp_absent_hits in Ab. pose proof (wrun_hits_le C cfg U x l w F Q). lia.
Qed.
Lemma wrun_unique_preserved C cfg U x l w :
  filed (w_st w) -> otp_unique C x U (w_st w) -> otp_quiet C U x l -> otp_unique C x U (w_st (fst (wrun C cfg w l))).
Proof.
  intros F Ab Q. apply otp_unique_hits. apply otp_unique_hits in Ab. pose proof (wrun_hits_le C cfg U x l w F Q). lia.
Qed.

Lemma wstep_rc_absent_preserved C cfg w a O U c :
  nocomma C -> pwcheck C [] c = false ->
  filed (w_st w) -> rc_absent C c U (w_st w) -> ~ seeds U a -> ~ regen_may_hit C c a O ->
  rc_absent C c U (w_st (fst (wstep C cfg w a O))).
Proof.
  intros NC Em F Ab NS NA. destruct a as [req| | | | | | |].
  2-8: exact (step_rc_absent_preserved C cfg w _ O U c NC Em F Ab NS NA).
  assert (N : forall e, step_NR C (AReq req) O e -> pwcheck C e c = false).
  { intros e He. destruct (pwcheck C e c) eqn:Pc; [|reflexivity]. exfalso. apply NA.
    cbn [step_NR] in He. destruct He as (Rt & c0 & H0 & H1).
    apply in_map_iff in H1 as (code & <- & H1). cbn [regen_may_hit]. split; [exact Rt|]. exists c0, code. auto. }
  destruct (wstep_lists C cfg w (AReq req) O (fun H => H) F) as [_ S]. specialize (S U).
  intros u1 Hu1 e He. rewrite Hu1 in S.
  destruct (ulookup U (s_users (w_st w))) as [u0|] eqn:L0;
    destruct S as [_ S]; destruct (S NC e He) as [->|[Ho|Hn]];
    [exact Em|exact (Ab u0 L0 e Ho)|exact (N e Hn)|exact Em|destruct Ho as [<-|[]]; exact Em|exact (N e Hn)].
Qed.

Lemma wrun_rc_absent_preserved C cfg U c : forall l w,
  nocomma C -> pwcheck C [] c = false ->
  filed (w_st w) -> rc_absent C c U (w_st w) -> rc_quiet C U c l -> rc_absent C c U (w_st (fst (wrun C cfg w l))).
Proof.
  induction l as [|[a O] l IH]; intros w NC Em F Ab Q; [exact Ab|]. rewrite wrun_cons_fst.
  inversion Q as [|? ? [N1 N2] Q']; subst. cbn [fst snd] in N1, N2.
  apply IH; auto; [apply wstep_filed; exact F|apply wstep_rc_absent_preserved; auto].
Qed.

(* ================================================================================================ *)
(* Part A: the remember cookie under the wrapper                                                    *)
(* ================================================================================================ *)
(* a route's own credential can only be shown on one of the login routes *)
Lemma module_credential_can_login E h U : module_credential E h U -> can_login (e_req E) = true.
Proof.
  unfold module_credential, can_login. cbv zeta.
  intros [(R & M & _)|[(R & M & _)|[(R & M & _)|[(R & M & _)|[(pv & R & M & _)|[(R & M & _)|(R & M & _)]]]]]];
    rewrite R, M; reflexivity.
Qed.

Lemma g_remember_cookie E st V cookie raw U :
  alookup k_rm (e_cook E) = Some cookie -> b64url_dec cookie = Some raw -> rm_parse_pid raw = Some U ->
  g_remember E st V -> V = U /\ bmem (b64std_enc (sha (e_C E) raw)) (rmlookup U (s_rm st)) = true.
Proof.
  intros Ck Dc Pp (ck & rw & G1 & G2 & G3 & G4).
  rewrite Ck in G1. inversion G1; subst ck. rewrite Dc in G2. inversion G2; subst rw.
  rewrite Pp in G3. inversion G3; subst V. split; [reflexivity|exact G4].
Qed.

Section AW.
Variable C : crypto.
Variable cfg : config.
Notation ENV w O req := (mkEnv C cfg O req (jar_get (q_browser req) (w_cook w)) (jar_get (q_browser req) (w_sess w))).

(* A2 under the wrapper: ANY request (any route, wrapped or not) by a browser whose jar holds a cookie
   whose token is absent: a session identity that appears is one the route's own credential was shown
   for, on the request as it arrived - the cookie logs nobody in, neither directly nor through the
   half-authenticated view *)
Lemma rm_absent_refused_w w req O cookie raw U :
  alookup k_rm (jar_get (q_browser req) (w_cook w)) = Some cookie ->
  b64url_dec cookie = Some raw -> rm_parse_pid raw = Some U ->
  rm_absent C cookie U (w_st w) ->
  forall b V, alookup k_uid (jar_get b (w_sess (fst (wstep C cfg w (AReq req) O)))) = Some V ->
    alookup k_uid (jar_get b (w_sess w)) = Some V \/
    (b = q_browser req /\ module_credential (ENV w O req) (init_hst (w_st w) O) V).
Proof.
  intros Ck Dc Pp Ab b V H1.
  destruct (names_dec b V w) as [Y|N]; [left; exact Y|right].
  assert (NG : forall V', ~ g_remember (ENV w O req) (w_st w) V').
  { intros V' G. destruct (g_remember_cookie (ENV w O req) (w_st w) V' cookie raw U Ck Dc Pp G) as (_ & Bm). cbn [e_C] in Bm.
    rewrite (Ab raw Dc) in Bm. discriminate Bm. }
  destruct (wstep_issued C cfg w (AReq req) O V b H1 N) as [(rq & Ha & Hb & Cs)|[Ha|(j & Ha & _)]];
    try discriminate Ha. inversion Ha; subst rq. split; [symmetry; exact Hb|].
  cbv zeta in Cs. destruct Cs as [(_ & Cs)|(_ & _ & [G|[MC|(pid & _ & G & _)]])].
  - apply credential_shown_split in Cs as [MC|(f1 & f2 & f3 & f4 & f5 & f6 & _ & G)]; [exact MC|].
    exfalso. exact (NG V G).
  - exfalso. exact (NG V G).
  - exact MC.
  - exfalso. exact (NG pid G).
Qed.

(* ... hence on an application route, and on every module route other than the seven that log in on
   their own, exactly the unwrapped conclusion *)
Lemma rm_absent_refused_w_exact w req O cookie raw U :
  is_app (q_route req) = true \/ can_login req = false ->
  alookup k_rm (jar_get (q_browser req) (w_cook w)) = Some cookie ->
  b64url_dec cookie = Some raw -> rm_parse_pid raw = Some U ->
  rm_absent C cookie U (w_st w) ->
  forall b V, alookup k_uid (jar_get b (w_sess (fst (wstep C cfg w (AReq req) O)))) = Some V ->
              alookup k_uid (jar_get b (w_sess w)) = Some V.
Proof.
  intros Hr Ck Dc Pp Ab b V H1.
  destruct (rm_absent_refused_w w req O cookie raw U Ck Dc Pp Ab b V H1) as [Y|(_ & MC)]; [exact Y|].
  exfalso. pose proof (module_credential_can_login _ _ _ MC) as CL. cbn [e_req] in CL.
  destruct Hr as [Ha|Hn]; [|congruence].
  unfold module_credential in MC. cbv zeta in MC. cbn [e_req] in MC.
  destruct (q_route req); try discriminate Ha.
  destruct MC as [(R & _)|[(R & _)|[(R & _)|[(R & _)|[(pv & R & _)|[(R & _)|(R & _)]]]]]]; discriminate R.
Qed.
End AW.

(* ---- A4 under the wrapper: what remember.Middleware does to the token it accepts ------------------ *)
Section DW.
Variable E : env.
Hypothesis laws : crypto_laws (e_C E).
Variables (cookie raw U : bytes) (m : nat).
Hypothesis Ck : alookup k_rm (e_cook E) = Some cookie.
Hypothesis Dc : b64url_dec cookie = Some raw.
Hypothesis Pp : rm_parse_pid raw = Some U.
Notation N := (skipn (length raw - 32) raw).
Hypothesis Hz : N <> repeat x00 (length N).
Notation Slo := (specA (e_C E) U N m).
Notation Shi := (specA (e_C E) U N (S m)).

(* the context pid is set only after one copy of the token has been taken out *)
Lemma remember_authenticate_cpid_consumed h r h' :
  tinv Shi h -> h_cpid h = None -> remember_authenticate E h = (r, h') -> tinv Slo h' \/ h_cpid h' = None.
Proof using laws Hz Ck Dc Pp.
  pose proof (OKlo E laws raw U m Hz) as OK1.
  intros Hi Hp Eq. unfold remember_authenticate in Eq. rewrite Ck, Dc, Pp in Eq. cbv zeta in Eq.
  apply try_inv in Eq as [(x & k1 & L & NPn & Eq)|(L & _)].
  2:{ apply st_use_rm_full in L as (_ & _ & _ & [(Hx & _)|((e & Hx) & _)]); discriminate Hx. }
  assert (K1 : h_cpid k1 = h_cpid h).
  { assert (G : rl (Rk h_cpid) (st_use_rm (e_O E) U (b64std_enc (sha (e_C E) raw)))) by (rl_go; rk_side).
    exact (G _ _ _ L). }
  apply st_use_rm_full in L as (Cu & Fr & Sv & [(-> & St)|((e & ->) & St)]).
  - left.
    assert (Ilo : tinv Slo k1).
    { destruct Hi as [I1 I2 I3 I4]. split.
      - intros k u _. split; exact I.
      - intros u _. split; exact I.
      - intros p ->. rewrite St. cbn [s_rm set]. simpl. rewrite rmlookup_rmput_eq.
        rewrite (rm_tok_of_raw (e_C E) raw U Pp). rewrite count_occ_remove_first.
        pose proof (I3 U eq_refl) as Hc. rewrite (rm_tok_of_raw (e_C E) raw U Pp) in Hc. lia.
      - rewrite Fr. exact I4. }
    match type of Eq with ?mm k1 = _ => assert (Hm : tk Slo anyq mm) by (tk_go2; tk_side) end.
    exact (proj1 (Hm _ _ _ Ilo Eq)).
  - right.
    assert (G : rl (Rk h_cpid) (match e with ErrTokenNotFound => log [] ;;; del_cookie k_rm | _ => @fail unit e end))
      by (destruct e; rl_go; rk_side).
    assert (h_cpid h' = h_cpid k1) by (destruct e; exact (G _ _ _ Eq)). congruence.
Qed.

Lemma remember_mw_cpid_consumed h x h' :
  tinv Shi h -> h_cpid h = None -> remember_mw E h = (x, h') -> tinv Slo h' \/ h_cpid h' = None.
Proof using laws Hz Ck Dc Pp.
  pose proof (OKlo E laws raw U m Hz) as OK1.
  intros Hi Hp Eq. unfold remember_mw in Eq. unfold bind at 1 in Eq. rewrite (current_user_id_nocache _ _ Hp) in Eq.
  destruct (bempty (aget k_uid (e_sess E))); [|inversion Eq; subst; right; exact Hp].
  apply try_inv in Eq as [(x0 & k0 & RA & _ & K)|(RA & _)].
  - destruct (remember_authenticate_cpid_consumed _ _ _ Hi Hp RA) as [Lo|Hn].
    + left. match type of K with ?mm k0 = _ => assert (Hm : tk Slo anyq mm) by (destruct x0; tk_go2; tk_side) end.
      exact (proj1 (Hm _ _ _ Lo K)).
    + right. assert (h_cpid h' = h_cpid k0) as Hq by (destruct x0; inversion K; reflexivity). congruence.
  - exact (remember_authenticate_cpid_consumed _ _ _ Hi Hp RA).
Qed.
End DW.

Section A4W.
Variable C : crypto.
Hypothesis laws : crypto_laws C.
Variable cfg : config.
Notation ENV w O req := (mkEnv C cfg O req (jar_get (q_browser req) (w_cook w)) (jar_get (q_browser req) (w_sess w))).

(* a new identity in the stored session was put by an event of the request *)
Lemma wstep_new_uid_event w req O r h V :
  serve_top (ENV w O req) (init_hst (w_st w) O) = (r, h) ->
  alookup k_uid (jar_get (q_browser req) (w_sess (fst (wstep C cfg w (AReq req) O)))) = Some V ->
  alookup k_uid (jar_get (q_browser req) (w_sess w)) <> Some V ->
  In (Put k_uid V) (h_sev h).
Proof.
  intros Sv H1 H0. destruct (wstep_req_unfold C cfg w req O r h Sv) as (_ & Ss & _). rewrite Ss in H1.
  destruct (h_out h) as [wr|] eqn:Ho; [|contradiction].
  rewrite jar_get_set_eq in H1. apply apply_events_uid_change in H1; [|exact H0].
  pose proof (proj2 (evs_any_serve_top _ _ _ _ Sv) (pref_init _ _)) as Pf.
  destruct (Pf wr Ho) as (ls & lc & A1 & _). rewrite A1. apply in_or_app. left. exact H1.
Qed.

(* the requests on which a remember cookie is looked at: an application route behind
   remember.Middleware, or - in a wrapped deployment - any module route.  [cookie_login U]: ... and on
   which the route's own credential (password, one-time password, token, second factor: the seven
   routes that log in on their own) was NOT shown for U, on the request as it arrived; this is so on
   every route with [can_login req = false] *)
Definition cookie_login (w : world) (req : request) (O : oracle) (U : bytes) : Prop :=
  (exists full tf fr l c e, q_route req = RApp full tf fr l c true e) \/
  (c_wrap_remember cfg = true /\ is_app (q_route req) = false /\
   ~ module_credential (ENV w O req) (init_hst (w_st w) O) U).

Lemma cookie_login_nologin w req O U :
  c_wrap_remember cfg = true -> is_app (q_route req) = false -> can_login req = false -> cookie_login w req O U.
Proof.
  intros Wc Na NL. right. split; [exact Wc|]. split; [exact Na|]. intros MC.
  apply module_credential_can_login in MC. cbn [e_req] in MC. congruence.
Qed.

(* the step in which the cookie logged somebody in: one copy of its token is gone *)
Lemma rm_consume_wstep w req O cookie raw U m :
  cookie_login w req O U ->
  alookup k_rm (jar_get (q_browser req) (w_cook w)) = Some cookie ->
  b64url_dec cookie = Some raw -> rm_parse_pid raw = Some U ->
  ~ hands_out O (skipn (length raw - 32) raw) ->
  alookup k_uid (jar_get (q_browser req) (w_sess (fst (wstep C cfg w (AReq req) O)))) = Some U ->
  alookup k_uid (jar_get (q_browser req) (w_sess w)) <> Some U ->
  (count_occ bytes_dec (rmlookup U (s_rm (w_st w))) (b64std_enc (sha C raw)) <= S m)%nat ->
  (count_occ bytes_dec (rmlookup U (s_rm (w_st (fst (wstep C cfg w (AReq req) O))))) (b64std_enc (sha C raw)) <= m)%nat.
Proof using laws.
  intros [(full & tf & fr & l & c & e & R)|(Wc & Na & NMC)] Ck Dc Pp NH H1 H0 Cnt.
  { rewrite (wstep_app C cfg w req O _ _ _ _ _ _ _ R) in *.
    exact (rm_consume_step C laws cfg w req O cookie raw U U m full tf fr l c e R Ck Dc Pp NH H1 H0 Cnt). }
  set (E := ENV w O req) in *.
  assert (W : wrapped_route E = true).
  { unfold wrapped_route. cbn [E e_cfg e_req]. rewrite Wc, Na. reflexivity. }
  destruct (serve_top E (init_hst (w_st w) O)) as [r h] eqn:Sv.
  destruct (wstep_req_unfold C cfg w req O r h Sv) as (St & _). rewrite St.
  assert (Hz : skipn (length raw - 32) raw <> repeat x00 (length (skipn (length raw - 32) raw))).
  { intros Hx. apply NH. right. exact Hx. }
  pose proof (wstep_new_uid_event w req O r h U Sv H1 H0) as Hin.
  assert (laws' : crypto_laws (e_C E)) by exact laws.
  pose proof (OKlo E laws' raw U m Hz) as OK1. pose proof (OKhi E laws' raw U m Hz) as OK2.
  assert (T0 : tinv (specA C U (skipn (length raw - 32) raw) (S m)) (init_hst (w_st w) O)).
  { apply tinv_init.
    - apply (proj2 (winv_specA C U _ (S m) _)). rewrite (rm_tok_of_raw C raw U Pp). exact Cnt.
    - intros x Hx ->. apply NH. left. exact Hx. }
  assert (FIN : tinv (specA C U (skipn (length raw - 32) raw) m) h ->
                (count_occ bytes_dec (rmlookup U (s_rm (h_st h))) (b64std_enc (sha C raw)) <= m)%nat).
  { intros Lo. apply tinv_winv in Lo. apply (proj1 (winv_specA C U _ m _)) in Lo.
    rewrite (rm_tok_of_raw C raw U Pp) in Lo. exact Lo. }
  apply serve_top_inv in Sv as [(Wf & _)|(_ & h1 & s2 & RM & RV & Sv)]; [congruence|].
  (* the wrapper: a copy is gone, or no identity was put and no pid is cached *)
  assert (D0 : dst E raw U m (init_hst (w_st w) O)) by (right; split; [exact T0|intros V0 []]).
  pose proof (dk_remember_mw E laws' cookie raw U m Ck Dc Pp Hz (e_sess E)) as DK. rewrite with_sess_same in DK.
  destruct (DK _ _ _ D0 RM) as [Lo|[Hi NP]].
  { apply FIN. exact (proj1 (tk_serve (with_sess E s2) _ OK1 _ _ _ Lo Sv)). }
  destruct (remember_mw_cpid_consumed E laws' cookie raw U m Ck Dc Pp Hz _ _ _ T0 eq_refl RM) as [Lo|Hp].
  { apply FIN. exact (proj1 (tk_serve (with_sess E s2) _ OK1 _ _ _ Lo Sv)). }
  (* no pid cached: the view is the session as it arrived, and the route ran on it *)
  exfalso.
  destruct (wrapper_result E _ _ _ _ RM RV) as (Ku & Kc & _ & [[_ ->]|(pid & Hp' & _)]); [|congruence].
  assert (NA : is_app (q_route (e_req (with_sess E (e_sess E)))) = false) by exact Na.
  destruct (serve_module_guard (with_sess E (e_sess E)) h1 NA _ _ Sv) as (ls & lc & A1 & _ & Fg).
  rewrite A1 in Hin. apply in_app_or in Hin as [Hin|Hin]; [exact (NP U Hin)|].
  rewrite Forall_forall in Fg. pose proof (Fg _ Hin U eq_refl) as MC.
  rewrite with_sess_same in MC. apply NMC.
  apply (module_credential_transport E h1 (w_st w) O U Ku Kc); [|exact MC].
  unfold Guards3.cur_pid. rewrite Hp. reflexivity.
Qed.

(* A4: the step in which the cookie logged its owner in establishes absence *)
Lemma rm_consumed_absent_w w req O cookie raw U :
  cookie_login w req O U ->
  alookup k_rm (jar_get (q_browser req) (w_cook w)) = Some cookie ->
  b64url_dec cookie = Some raw -> rm_parse_pid raw = Some U ->
  alookup k_uid (jar_get (q_browser req) (w_sess (fst (wstep C cfg w (AReq req) O)))) = Some U ->
  alookup k_uid (jar_get (q_browser req) (w_sess w)) <> Some U ->
  ~ rm_exception C cookie U (AReq req, O) ->
  rm_at_most C cookie U (w_st w) 1 ->
  rm_absent C cookie U (w_st (fst (wstep C cfg w (AReq req) O))).
Proof using laws.
  intros CL Ck Dc Pp H1 H0 NE AM.
  apply rm_absent_iff. intros raw' Dc'. rewrite Dc in Dc'. inversion Dc'; subst raw'.
  apply (rm_consume_wstep w req O cookie raw U 0 CL Ck Dc Pp); auto.
  intros Hh. apply NE. exists raw. split; [exact Dc|exact Hh].
Qed.

(* A5: never again, under the wrapper *)
Lemma cookie_never_again_w_lemma w0 l1 r1 O1 l2 r2 O2 cookie raw U :
  b64url_dec cookie = Some raw -> rm_parse_pid raw = Some U ->
  let w1 := fst (wrun C cfg w0 l1) in
  let w1' := fst (wrun C cfg w0 (l1 ++ [(AReq r1, O1)])) in
  let w2 := fst (wrun C cfg w0 (l1 ++ (AReq r1, O1) :: l2)) in
  let w3 := fst (wrun C cfg w0 (l1 ++ (AReq r1, O1) :: l2 ++ [(AReq r2, O2)])) in
  cookie_login w1 r1 O1 U ->
  alookup k_rm (jar_get (q_browser r1) (w_cook w1)) = Some cookie ->
  alookup k_uid (jar_get (q_browser r1) (w_sess w1')) = Some U ->
  alookup k_uid (jar_get (q_browser r1) (w_sess w1)) <> Some U ->
  rm_at_most C cookie U (w_st w1) 1 ->
  ~ rm_exception C cookie U (AReq r1, O1) ->
  Forall (fun ao => ~ rm_exception C cookie U ao) l2 ->
  alookup k_rm (jar_get (q_browser r2) (w_cook w2)) = Some cookie ->
  rm_absent C cookie U (w_st w2) /\
  (forall b V, alookup k_uid (jar_get b (w_sess w3)) = Some V ->
     alookup k_uid (jar_get b (w_sess w2)) = Some V \/
     (b = q_browser r2 /\ module_credential (ENV w2 O2 r2) (init_hst (w_st w2) O2) V)) /\
  (is_app (q_route r2) = true \/ can_login r2 = false ->
   forall b V, alookup k_uid (jar_get b (w_sess w3)) = Some V -> alookup k_uid (jar_get b (w_sess w2)) = Some V).
Proof using laws.
  intros Dc Pp w1 w1' w2 w3 R1 Ck1 H1 H0 AM NE1 Q2 Ck2.
  assert (E1 : w1' = fst (wstep C cfg w1 (AReq r1) O1)).
  { subst w1' w1. rewrite !wrun_grun. apply grun_snoc. }
  assert (E2 : w2 = grun (wstep C cfg) w1' l2).
  { subst w2 w1'. rewrite !wrun_grun, grun_mid, grun_snoc. reflexivity. }
  assert (E3 : w3 = fst (wstep C cfg w2 (AReq r2) O2)).
  { subst w3 w2. rewrite !wrun_grun. rewrite app_comm_cons, app_assoc. apply grun_snoc. }
  assert (A1 : rm_absent C cookie U (w_st w1')).
  { rewrite E1. apply (rm_consumed_absent_w w1 r1 O1 cookie raw U); auto. rewrite <- E1. exact H1. }
  assert (A2 : rm_absent C cookie U (w_st w2)).
  { rewrite E2. apply rm_absent_iff. apply (rm_at_most_wgrun C laws cfg cookie raw U 0 Dc Pp); [exact Q2|].
    apply rm_absent_iff. exact A1. }
  split; [exact A2|]. split.
  - intros b V. rewrite E3. exact (rm_absent_refused_w C cfg w2 r2 O2 cookie raw U Ck2 Dc Pp A2 b V).
  - intros Hr b V. rewrite E3. exact (rm_absent_refused_w_exact C cfg w2 r2 O2 cookie raw U Hr Ck2 Dc Pp A2 b V).
Qed.
End A4W.

(* from the empty world "at most once" needs no hypothesis *)
Lemma cookie_never_again_w_from_empty_lemma C (laws : crypto_laws C) cfg l1 r1 O1 l2 r2 O2 cookie raw U :
  b64url_dec cookie = Some raw -> rm_parse_pid raw = Some U ->
  let w1 := fst (wrun C cfg empty_world l1) in
  let w1' := fst (wrun C cfg empty_world (l1 ++ [(AReq r1, O1)])) in
  let w2 := fst (wrun C cfg empty_world (l1 ++ (AReq r1, O1) :: l2)) in
  let w3 := fst (wrun C cfg empty_world (l1 ++ (AReq r1, O1) :: l2 ++ [(AReq r2, O2)])) in
  Forall (fun ao => ~ rm_exception C cookie U ao) (l1 ++ (AReq r1, O1) :: l2) ->
  cookie_login C cfg w1 r1 O1 U ->
  alookup k_rm (jar_get (q_browser r1) (w_cook w1)) = Some cookie ->
  alookup k_uid (jar_get (q_browser r1) (w_sess w1')) = Some U ->
  alookup k_uid (jar_get (q_browser r1) (w_sess w1)) <> Some U ->
  alookup k_rm (jar_get (q_browser r2) (w_cook w2)) = Some cookie ->
  (forall b V, alookup k_uid (jar_get b (w_sess w3)) = Some V ->
     alookup k_uid (jar_get b (w_sess w2)) = Some V \/
     (b = q_browser r2 /\
      module_credential (mkEnv C cfg O2 r2 (jar_get (q_browser r2) (w_cook w2)) (jar_get (q_browser r2) (w_sess w2)))
                        (init_hst (w_st w2) O2) V)) /\
  (is_app (q_route r2) = true \/ can_login r2 = false ->
   forall b V, alookup k_uid (jar_get b (w_sess w3)) = Some V -> alookup k_uid (jar_get b (w_sess w2)) = Some V).
Proof.
  intros Dc Pp w1 w1' w2 w3 Q R1 Ck1 H1 H0 Ck2.
  apply Forall_app in Q as [Q1 Q2]. inversion Q2 as [|? ? Q2a Q2b]; subst.
  refine (proj2 (cookie_never_again_w_lemma C laws cfg empty_world l1 r1 O1 l2 r2 O2 cookie raw U Dc Pp R1 Ck1 H1 H0 _ Q2a Q2b Ck2)).
  eapply (rm_at_most_wrun C laws cfg cookie raw U 1 l1 empty_world Dc Pp Q1).
  intros raw' _. cbn. lia.
Qed.

(* without the global wrapper: the statement of Props/C07d.v, for [wrun] *)
Lemma cookie_never_again_w_unwrapped_lemma C (laws : crypto_laws C) cfg w0 l1 r1 O1 l2 r2 O2 cookie raw U :
  c_wrap_remember cfg = false ->
  b64url_dec cookie = Some raw -> rm_parse_pid raw = Some U ->
  let w1 := fst (wrun C cfg w0 l1) in
  let w1' := fst (wrun C cfg w0 (l1 ++ [(AReq r1, O1)])) in
  let w2 := fst (wrun C cfg w0 (l1 ++ (AReq r1, O1) :: l2)) in
  let w3 := fst (wrun C cfg w0 (l1 ++ (AReq r1, O1) :: l2 ++ [(AReq r2, O2)])) in
  (exists full tf fr l c e, q_route r1 = RApp full tf fr l c true e) ->
  alookup k_rm (jar_get (q_browser r1) (w_cook w1)) = Some cookie ->
  alookup k_uid (jar_get (q_browser r1) (w_sess w1')) = Some U ->
  alookup k_uid (jar_get (q_browser r1) (w_sess w1)) <> Some U ->
  rm_at_most C cookie U (w_st w1) 1 ->
  ~ rm_exception C cookie U (AReq r1, O1) ->
  Forall (fun ao => ~ rm_exception C cookie U ao) l2 ->
  is_app (q_route r2) = true ->
  alookup k_rm (jar_get (q_browser r2) (w_cook w2)) = Some cookie ->
  rm_absent C cookie U (w_st w2) /\
  forall b V, alookup k_uid (jar_get b (w_sess w3)) = Some V -> alookup k_uid (jar_get b (w_sess w2)) = Some V.
Proof.
  intros Wf. cbv zeta. rewrite !(wrun_unwrapped C cfg Wf).
  exact (cookie_never_again_lemma C laws cfg w0 l1 r1 O1 l2 r2 O2 cookie raw U).
Qed.

(* ---- non-vacuity under the wrapper (executable crypto instance, computed): log in with "remember me",
   end the session, fetch the login PAGE - a module route, behind the global wrapper - with the cookie
   (logged in, token rotated), copy the OLD cookie into another browser's jar, fetch the page with it *)
Definition wx_cfg : config :=
  mkConfig [MAuth; MRemember] false false false false false false 3 300 3600 600 3600 (bs "/auth")
           false false false DELETE GET false [] RespNotFound [] [] true false true.
Definition wx_page (b : bytes) : request := mkRequest b GET RLogin (bs "/login") [] [] [] false.

Lemma wx_witness :
  exists C cfg w0 l1 r1 O1 l2 r2 cookie raw U,
    crypto_laws C /\ c_wrap_remember cfg = true /\
    is_app (q_route r1) = false /\ can_login r1 = false /\ is_app (q_route r2) = false /\ can_login r2 = false /\
    b64url_dec cookie = Some raw /\ rm_parse_pid raw = Some U /\
    cookie_login C cfg (fst (wrun C cfg w0 l1)) r1 O1 U /\
    alookup k_rm (jar_get (q_browser r1) (w_cook (fst (wrun C cfg w0 l1)))) = Some cookie /\
    alookup k_uid (jar_get (q_browser r1) (w_sess (fst (wrun C cfg w0 (l1 ++ [(AReq r1, O1)]))))) = Some U /\
    alookup k_uid (jar_get (q_browser r1) (w_sess (fst (wrun C cfg w0 l1)))) <> Some U /\
    rm_at_most C cookie U (w_st (fst (wrun C cfg w0 l1))) 1 /\
    ~ rm_exception C cookie U (AReq r1, O1) /\
    Forall (fun ao => ~ rm_exception C cookie U ao) l2 /\
    l2 <> [] /\
    alookup k_rm (jar_get (q_browser r2) (w_cook (fst (wrun C cfg w0 (l1 ++ (AReq r1, O1) :: l2))))) = Some cookie.
Proof.
  exists XC, wx_cfg, empty_world, nx_l1, (wx_page (bs "b1")), (nx_oracle [nx_n2]), nx_l2, (wx_page (bs "b2")),
         nx_cookie, nx_raw, hx_pid.
  split; [exact exec_laws|]. split; [reflexivity|].
  split; [reflexivity|]. split; [reflexivity|]. split; [reflexivity|]. split; [reflexivity|].
  split; [exact nx_dec|]. split; [vm_compute; reflexivity|].
  split; [apply cookie_login_nologin; reflexivity|].
  split; [vm_compute; reflexivity|]. split; [vm_compute; reflexivity|].
  split; [vm_compute; discriminate|]. split.
  { intros raw Dc. rewrite nx_dec in Dc. inversion Dc; subst raw. vm_compute. lia. }
  split.
  { intros (raw & Dc & Hr). rewrite nx_dec in Dc. inversion Dc; subst raw. cbn [fst snd rm_reissue] in Hr.
    destruct Hr as [[Hr|[]]|Hr]; vm_compute in Hr; discriminate Hr. }
  split.
  { repeat constructor. intros (raw & _ & Hr). exact Hr. }
  split; [discriminate|]. vm_compute. reflexivity.
Qed.

(* ================================================================================================ *)
(* The cut, uniformly: one request of the router as mounted is the route's [serve] run on a session   *)
(* view from a state in which the user table is the one the request found, no user is in the context, *)
(* and the only session events recorded so far are the wrapper's: the half-auth mark, and an identity  *)
(* for which the request carried a remember cookie whose token is stored                              *)
(* ================================================================================================ *)
Definition wrap_ev (G : bytes -> Prop) (e : csevent) : Prop :=
  (exists v, e = Put k_halfauth v) \/ (exists v, e = Put k_uid v /\ G v).

Lemma wrapper_events_guarded E st O x h1 :
  remember_mw E (init_hst st O) = (x, h1) -> Forall (wrap_ev (g_remember E st)) (h_sev h1).
Proof.
  intros RM. destruct (evs_wrapper E _ _ _ RM) as [(ls & lc & Sv & _ & Fs & _) _].
  destruct (remember_mw_guard E (init_hst st O) _ _ RM) as (ls' & lc' & Sv' & _ & Fg).
  cbn [init_hst h_sev app h_st] in Sv, Sv', Fg. rewrite Sv. rewrite Sv in Sv'. subst ls'.
  rewrite Forall_forall in *. intros e He. destruct (Fs e He) as (v & [-> | ->]).
  - right. exists v. split; [reflexivity|]. exact (Fg _ He v eq_refl).
  - left. exists v. reflexivity.
Qed.

Lemma serve_top_cut E st O r h :
  serve_top E (init_hst st O) = (r, h) ->
  exists h1 s2,
    serve (with_sess E s2) h1 = (r, h) /\
    s_users (h_st h1) = s_users st /\ h_cuser h1 = None /\
    Forall (wrap_ev (g_remember E st)) (h_sev h1).
Proof.
  intros Eq. apply serve_top_inv in Eq as [(_ & Eq)|(_ & h1 & s2 & RM & RV & Eq)].
  - exists (init_hst st O), (e_sess E). rewrite with_sess_same. split; [exact Eq|]. split; [reflexivity|].
    split; [reflexivity|constructor].
  - exists h1, s2. split; [exact Eq|].
    destruct (wrapper_result E st O h1 s2 RM RV) as (Ku & Kc & _). split; [exact Ku|]. split; [exact Kc|].
    exact (wrapper_events_guarded E st O _ _ RM).
Qed.

(* the request carries a remember cookie of V whose token is stored ([g_remember] of the request's
   environment, spelled out on the world) *)
Definition remembered (C : crypto) (w : world) (req : request) (V : bytes) : Prop :=
  exists cookie raw,
    alookup k_rm (jar_get (q_browser req) (w_cook w)) = Some cookie /\ b64url_dec cookie = Some raw /\
    rm_parse_pid raw = Some V /\ bmem (b64std_enc (sha C raw)) (rmlookup V (s_rm (w_st w))) = true.

Lemma wstep_req_cut C cfg w req O :
  let E := mkEnv C cfg O req (jar_get (q_browser req) (w_cook w)) (jar_get (q_browser req) (w_sess w)) in
  exists r h h1 s2,
    serve (with_sess E s2) h1 = (r, h) /\
    s_users (h_st h1) = s_users (w_st w) /\ h_cuser h1 = None /\
    Forall (wrap_ev (remembered C w req)) (h_sev h1) /\
    w_st (fst (wstep C cfg w (AReq req) O)) = h_st h /\
    forall b, jar_get b (w_sess (fst (wstep C cfg w (AReq req) O))) = jar_get b (w_sess w) \/
              exists pre post, h_sev h = pre ++ post /\
                jar_get b (w_sess (fst (wstep C cfg w (AReq req) O))) = apply_events (jar_get b (w_sess w)) pre.
Proof.
  intros E. destruct (serve_top E (init_hst (w_st w) O)) as [r h] eqn:Es.
  destruct (wstep_req_unfold C cfg w req O r h Es) as (St & Ss & _).
  destruct (serve_top_cut E (w_st w) O r h Es) as (h1 & s2 & Sv & Ku & Kc & Fw).
  exists r, h, h1, s2. split; [exact Sv|]. split; [exact Ku|]. split; [exact Kc|]. split; [exact Fw|].
  split; [exact St|]. rewrite Ss. intros b. destruct (h_out h) as [wr|] eqn:Ho.
  - destruct (bytes_dec b (q_browser req)) as [->|N].
    + right. destruct (evs_any_serve_top _ _ _ _ Es) as [_ Pf].
      destruct (Pf (pref_init _ _) wr Ho) as (l & c & E1 & _). exists (w_sev wr), l. split; [exact E1|]. apply jar_get_set_eq.
    + left. apply jar_get_set_neq. exact N.
  - left. reflexivity.
Qed.

(* the handler's events come after the wrapper's *)
Lemma serve_events_after E h1 r h : serve E h1 = (r, h) -> exists ls, h_sev h = h_sev h1 ++ ls.
Proof. intros Sv. destruct (evs_any_serve _ _ _ _ Sv) as [(ls & lc & A & _) _]. exists ls. exact A. Qed.

(* no session key other than the two flash messages, the identity and the half-auth mark differs in any
   jar; and an identity that appears is one the class G allows *)
Definition sess_untouched_but (G : bytes -> Prop) (w w' : world) : Prop :=
  (forall b k, k <> k_flash_ok -> k <> k_flash_err -> k <> k_uid -> k <> k_halfauth ->
     alookup k (jar_get b (w_sess w')) = alookup k (jar_get b (w_sess w))) /\
  (forall b V, alookup k_uid (jar_get b (w_sess w')) = Some V -> alookup k_uid (jar_get b (w_sess w)) = Some V \/ G V).

Definition wflash (G : bytes -> Prop) (e : csevent) : Prop := flash_only e \/ wrap_ev G e.

Lemma apply_events_wflash_other G l : forall j k, Forall (wflash G) l ->
  k <> k_flash_ok -> k <> k_flash_err -> k <> k_uid -> k <> k_halfauth ->
  alookup k (apply_events j l) = alookup k j.
Proof.
  unfold apply_events. induction l as [|e l IH]; intros j k F N1 N2 N3 N4; cbn [fold_left]; [reflexivity|].
  inversion F as [|? ? He Fl]; subst. rewrite IH by assumption.
  destruct He as [He|[(v & ->)|(v & -> & _)]].
  - destruct e as [k' v|k'|wl]; cbn [flash_only] in He; try contradiction. cbn [apply_event].
    apply alookup_aput_neq. destruct He; congruence.
  - cbn [apply_event]. apply alookup_aput_neq. exact N4.
  - cbn [apply_event]. apply alookup_aput_neq. exact N3.
Qed.

Lemma apply_events_wflash_uid G l : forall j V, Forall (wflash G) l ->
  alookup k_uid (apply_events j l) = Some V -> alookup k_uid j = Some V \/ G V.
Proof.
  unfold apply_events. induction l as [|e l IH]; intros j V F H; cbn [fold_left] in H; [left; exact H|].
  inversion F as [|? ? He Fl]; subst. destruct (IH _ V Fl H) as [H'|HG]; [|right; exact HG].
  destruct He as [He|[(v & ->)|(v & -> & Gv)]].
  - destruct e as [k' v|k'|wl]; cbn [flash_only] in He; try contradiction. cbn [apply_event] in H'.
    left. rewrite alookup_aput_neq in H'; [exact H'|]. destruct He as [-> | ->]; neq_const.
  - cbn [apply_event] in H'. left. rewrite alookup_aput_neq in H'; [exact H'|neq_const].
  - cbn [apply_event] in H'. rewrite alookup_aput_eq in H'. inversion H'; subst v. right. exact Gv.
Qed.

Lemma jars_untouched_but (G : bytes -> Prop) (w w' : world) (sev : list csevent) :
  (forall b, jar_get b (w_sess w') = jar_get b (w_sess w) \/
             exists pre post, sev = pre ++ post /\ jar_get b (w_sess w') = apply_events (jar_get b (w_sess w)) pre) ->
  Forall (wflash G) sev -> sess_untouched_but G w w'.
Proof.
  intros Jr F. split.
  - intros b k N1 N2 N3 N4. destruct (Jr b) as [->|(pre & post & Hs & ->)]; [reflexivity|].
    apply (apply_events_wflash_other G); auto. rewrite Hs in F. apply Forall_app in F. tauto.
  - intros b V H1. destruct (Jr b) as [Eb|(pre & post & Hs & Eb)]; rewrite Eb in H1; [left; exact H1|].
    apply (apply_events_wflash_uid G pre); [|exact H1]. rewrite Hs in F. apply Forall_app in F. tauto.
Qed.

Lemma wflash_of_wrap G l : Forall (wrap_ev G) l -> Forall (wflash G) l.
Proof. apply Forall_impl. intros e He. right. exact He. Qed.
Lemma wflash_of_flash G l : Forall flash_only l -> Forall (wflash G) l.
Proof. apply Forall_impl. intros e He. left. exact He. Qed.

(* when the wrapper does nothing, [wstep] is [step] *)
Lemma wstep_idle C cfg w req O :
  wrapper_idle (mkEnv C cfg O req (jar_get (q_browser req) (w_cook w)) (jar_get (q_browser req) (w_sess w))) ->
  wstep C cfg w (AReq req) O = step C cfg w (AReq req) O.
Proof. intros Hi. exact (proj2 (wlock_ops_idle_lemma C cfg w req O [] Hi)). Qed.

(* ================================================================================================ *)
(* Part B: one-time passwords and recovery codes under the wrapper                                  *)
(* ================================================================================================ *)
Section BW.
Variable C : crypto.
Variable cfg : config.
Notation ENV w O req := (mkEnv C cfg O req (jar_get (q_browser req) (w_cook w)) (jar_get (q_browser req) (w_sess w))).

(* the events of an /otp/login request under the router as mounted: the wrapper's, then the handler's;
   the handler's are flash messages only, or the matched entry is gone at the end *)
Lemma wstep_otp_login_events w req O U x :
  filed (w_st w) -> otp_login_req cfg req U x ->
  exists sev st',
    w_st (fst (wstep C cfg w (AReq req) O)) = st' /\
    (forall b, jar_get b (w_sess (fst (wstep C cfg w (AReq req) O))) = jar_get b (w_sess w) \/
               exists pre post, sev = pre ++ post /\
                 jar_get b (w_sess (fst (wstep C cfg w (AReq req) O))) = apply_events (jar_get b (w_sess w)) pre) /\
    (Forall (wflash (remembered C w req)) sev \/
     exists u i su,
       ulookup U (s_users (w_st w)) = Some u /\
       otp_match (sha C x) (split_otps (u_otps u)) 0%nat = Some (Some i) /\
       ulookup (u_pid u) (s_users st') = Some su /\ upto_lock (otp_consumed u i) su) /\
    ((forall u i, ulookup U (s_users (w_st w)) = Some u ->
        otp_match (sha C x) (split_otps (u_otps u)) 0%nat <> Some (Some i)) ->
     Forall (wflash (remembered C w req)) sev).
Proof.
  intros F (R & M & HU & HX).
  destruct (wstep_req_cut C cfg w req O) as (r & h & h1 & s2 & Sv & Ku & Kc & Fw & St & Jr).
  exists (h_sev h), (h_st h). split; [exact St|]. split; [exact Jr|].
  set (E' := with_sess (ENV w O req) s2) in *.
  assert (Fl1 : filed (h_st h1)) by (unfold filed; rewrite Ku; exact F).
  apply serve_otp_login in Sv as [(S1 & _)|(r0 & h0 & Eq & S1 & S2)]; [| |exact R|exact M].
  { assert (FW : Forall (wflash (remembered C w req)) (h_sev h)) by (rewrite S1; apply wflash_of_wrap; exact Fw).
    split; [left; exact FW|intros _; exact FW]. }
  rewrite S1, S2. split.
  - destruct (otp_login_cases_flash E' _ _ _ Eq) as [(ls & A1 & Fl)|(u & i & Hu & OM & (su & B1 & B2) & _)].
    + left. rewrite A1. apply Forall_app. split; [apply wflash_of_wrap; exact Fw|apply wflash_of_flash; exact Fl].
    + right. exists u, i, su.
      change (ulookup (aget (pid_field_of cfg) (values_of cfg req)) (s_users (h_st h1)) = Some u) in Hu.
      change (aget f_password (values E')) with (aget f_password (values_of cfg req)) in OM.
      rewrite HU, Ku in Hu. rewrite HX in OM. auto.
  - intros NM.
    destruct (otp_login_refused_lemma E' h1 _ _ (filed_keyed _ Fl1) Eq) as [(ls & A1 & Fl) _].
    + intros u i Hu. change (ulookup (aget (pid_field_of cfg) (values_of cfg req)) (s_users (h_st h1)) = Some u) in Hu.
      rewrite HU, Ku in Hu. change (aget f_password (values E')) with (aget f_password (values_of cfg req)). rewrite HX.
      exact (NM u i Hu).
    + rewrite A1. apply Forall_app. split; [apply wflash_of_wrap; exact Fw|apply wflash_of_flash; exact Fl].
Qed.

(* B2: a password that U's record does not hold: no session key other than a flash message changes in
   any jar, EXCEPT what the wrapper does for a remember cookie the request carries: the half-auth mark,
   and the identity of the cookie's owner (if its token is stored).  Nobody is parked for a second
   factor, nobody is logged in by the password. *)
Lemma absent_otp_refused_w w req O U x :
  filed (w_st w) -> otp_login_req cfg req U x -> otp_absent C x U (w_st w) ->
  sess_untouched_but (remembered C w req) w (fst (wstep C cfg w (AReq req) O)).
Proof.
  intros F L Ab. destruct (wstep_otp_login_events w req O U x F L) as (sev & st' & _ & Jr & _ & NM).
  apply (jars_untouched_but _ w _ sev Jr). apply NM. intros u i Hu.
  exact (otp_absent_no_match C x U (w_st w) u i Ab Hu).
Qed.

(* ... and when the wrapper has nothing to do (no remember cookie, or a session that names somebody),
   exactly the unwrapped conclusion *)
Lemma absent_otp_refused_idle w req O U x :
  wrapper_idle (ENV w O req) ->
  filed (w_st w) -> otp_login_req cfg req U x -> otp_absent C x U (w_st w) ->
  sess_untouched w (fst (wstep C cfg w (AReq req) O)).
Proof. intros Hi F L Ab. rewrite (wstep_idle C cfg w req O Hi). exact (absent_otp_refused C cfg w req O U x F L Ab). Qed.

(* B4: the accepting step establishes absence *)
Lemma consumption_establishes_absent_w w req O U x :
  filed (w_st w) -> otp_login_req cfg req U x -> otp_unique C x U (w_st w) ->
  ~ sess_untouched_but (remembered C w req) w (fst (wstep C cfg w (AReq req) O)) ->
  otp_absent C x U (w_st (fst (wstep C cfg w (AReq req) O))).
Proof.
  intros F L Un Acc. destruct (wstep_otp_login_events w req O U x F L) as (sev & st' & St & Jr & [FW|Cons] & _).
  { exfalso. apply Acc. exact (jars_untouched_but _ w _ sev Jr FW). }
  destruct Cons as (u & i & su & Hu & OM & B1 & B2).
  pose proof (filed_keyed _ F _ _ Hu) as Pu. rewrite Pu in B1.
  apply upto_lock_consumed in B2 as (_ & Os & _).
  intros u1 Hu1 e He. rewrite St, B1 in Hu1. inversion Hu1; subst u1. rewrite Os in He.
  apply (split_join_incl _ (otp_remove_nosep (u_otps u) i)) in He.
  exact (otp_remove_no_hit _ _ i OM (Un u Hu) e He).
Qed.

(* some jar newly names U - parked for a second factor, or as its identity while the request carried
   no remember cookie of U with a stored token (so it was not the wrapper that wrote it) *)
Definition accepted_for_w (U : bytes) (w : world) (req : request) (w' : world) : Prop :=
  exists b k, pending_or_uid k /\
    alookup k (jar_get b (w_sess w')) = Some U /\ alookup k (jar_get b (w_sess w)) <> Some U /\
    (k = k_uid -> ~ remembered C w req U).

Lemma accepted_w_touched U w req w' : accepted_for_w U w req w' -> ~ sess_untouched_but (remembered C w req) w w'.
Proof.
  intros (b & k & Hk & H1 & H0 & NR) [T1 T2]. destruct Hk as [->|Hk].
  - destruct (T2 b U H1) as [Y|G]; [exact (H0 Y)|exact (NR eq_refl G)].
  - apply H0. rewrite <- (T1 b k); [exact H1| | | |]; destruct Hk as [-> | ->]; neq_const.
Qed.

Lemma accepted_w_of_accepted U w req w' :
  accepted_for U w w' -> ~ remembered C w req U -> accepted_for_w U w req w'.
Proof. intros (b & k & Hk & H1 & H0) NR. exists b, k. auto. Qed.

(* what the generalised refusal says about U *)
Definition refused_for_w (U : bytes) (w : world) (req : request) (w' : world) : Prop :=
  forall b k, pending_or_uid k -> alookup k (jar_get b (w_sess w')) = Some U ->
    alookup k (jar_get b (w_sess w)) = Some U \/ (k = k_uid /\ remembered C w req U).

Lemma untouched_but_refused U w req w' : sess_untouched_but (remembered C w req) w w' -> refused_for_w U w req w'.
Proof.
  intros [T1 T2] b k Hk H1. destruct Hk as [->|Hk].
  - destruct (T2 b U H1) as [Y|G]; [left; exact Y|right; auto].
  - left. rewrite <- (T1 b k); [exact H1| | | |]; destruct Hk as [-> | ->]; neq_const.
Qed.

(* B5: the history theorem under the wrapper *)
Lemma otp_never_again_w_lemma w0 l1 req1 O1 l2 req2 O2 U x :
  filed (w_st w0) ->
  otp_login_req cfg req1 U x -> otp_login_req cfg req2 U x ->
  otp_unique C x U (w_st (fst (wrun C cfg w0 l1))) ->
  accepted_for_w U (fst (wrun C cfg w0 l1)) req1 (fst (wstep C cfg (fst (wrun C cfg w0 l1)) (AReq req1) O1)) ->
  otp_quiet C U x l2 ->
  let w2 := fst (wrun C cfg w0 (l1 ++ (AReq req1, O1) :: l2)) in
  let w3 := fst (wrun C cfg w0 (l1 ++ (AReq req1, O1) :: l2 ++ [(AReq req2, O2)])) in
  sess_untouched_but (remembered C w2 req2) w2 w3 /\
  refused_for_w U w2 req2 w3 /\
  otp_absent C x U (w_st w2) /\
  (wrapper_idle (ENV w2 O2 req2) -> sess_untouched w2 w3 /\ refused_for U w2 w3).
Proof.
  intros F0 L1 L2 Un Acc Q w2 w3.
  set (w1 := fst (wrun C cfg w0 l1)) in *.
  assert (F1 : filed (w_st w1)) by (apply wrun_filed; exact F0).
  set (w1' := fst (wstep C cfg w1 (AReq req1) O1)) in *.
  assert (F1' : filed (w_st w1')) by (apply wstep_filed; exact F1).
  assert (A1 : otp_absent C x U (w_st w1')).
  { apply consumption_establishes_absent_w; auto. apply (accepted_w_touched U). exact Acc. }
  assert (E2 : w2 = fst (wrun C cfg w1' l2)).
  { unfold w2. rewrite wrun_app_fst, wrun_cons_fst. reflexivity. }
  assert (E3 : w3 = fst (wstep C cfg w2 (AReq req2) O2)).
  { unfold w3. rewrite E2. rewrite wrun_app_fst, wrun_cons_fst, wrun_snoc_fst. reflexivity. }
  assert (F2 : filed (w_st w2)) by (rewrite E2; apply wrun_filed; exact F1').
  assert (A2 : otp_absent C x U (w_st w2)) by (rewrite E2; apply wrun_absent_preserved; auto).
  assert (U2 : sess_untouched_but (remembered C w2 req2) w2 w3).
  { rewrite E3. exact (absent_otp_refused_w w2 req2 O2 U x F2 L2 A2). }
  split; [exact U2|]. split; [apply untouched_but_refused; exact U2|]. split; [exact A2|].
  intros Hi. assert (U3 : sess_untouched w2 w3).
  { rewrite E3. exact (absent_otp_refused_idle w2 req2 O2 U x Hi F2 L2 A2). }
  split; [exact U3|apply untouched_refused; exact U3].
Qed.
End BW.

(* ---- 2FA recovery codes ------------------------------------------------------------------------------ *)
Section RCW.
Variable C : crypto.
Variable cfg : config.
Notation ENV w O req := (mkEnv C cfg O req (jar_get (q_browser req) (w_cook w)) (jar_get (q_browser req) (w_sess w))).

Lemma wrap_ev_put_uid G U l : Forall (wrap_ev G) l -> In (Put k_uid U) l -> G U.
Proof.
  intros F Hin. rewrite Forall_forall in F. destruct (F _ Hin) as [(v & Hv)|(v & Hv & Gv)].
  - exfalso. inversion Hv as [Hk]; try (vm_compute in Hk; discriminate Hk).
  - inversion Hv; subst v. exact Gv.
Qed.

(* the handler-level content of a validation request under the router as mounted: the validator runs on
   the view the wrapper hands on, from a state with the user table the request found and no context
   user; an identity that appears was written by the wrapper (for the owner of a remember cookie whose
   token is stored) or by the validator *)
Lemma wstep_rc_validate w req O c :
  filed (w_st w) -> rc_validate_req cfg req c ->
  (forall U, logged_in_as U w (fst (wstep C cfg w (AReq req) O)) -> remembered C w req U) \/
  exists k s2 h1 r0 h0 ls,
    validate2fa k (with_sess (ENV w O req) s2) h1 = (r0, h0) /\ h_sev h0 = h_sev h1 ++ ls /\
    filed (h_st h1) /\ h_cuser h1 = None /\ s_users (h_st h1) = s_users (w_st w) /\
    w_st (fst (wstep C cfg w (AReq req) O)) = h_st h0 /\
    forall U, logged_in_as U w (fst (wstep C cfg w (AReq req) O)) -> remembered C w req U \/ In (Put k_uid U) ls.
Proof.
  intros F (R & M & Hc & Be).
  destruct (wstep_req_cut C cfg w req O) as (r & h & h1 & s2 & Sv & Ku & Kc & Fw & St & Jr).
  assert (Fl1 : filed (h_st h1)) by (unfold filed; rewrite Ku; exact F).
  destruct (serve_events_after _ _ _ _ Sv) as (ls & Als).
  assert (PUT : forall U, logged_in_as U w (fst (wstep C cfg w (AReq req) O)) -> remembered C w req U \/ In (Put k_uid U) ls).
  { intros U (b & H1 & H0). destruct (Jr b) as [Eb|(pre & post & Hs & Eb)]; rewrite Eb in H1; [contradiction|].
    assert (Hin : In (Put k_uid U) (h_sev h)) by (rewrite Hs; apply in_or_app; left; exact (apply_events_uid_change _ _ _ H1 H0)).
    rewrite Als in Hin. apply in_app_or in Hin as [Hin|Hin]; [left; exact (wrap_ev_put_uid _ _ _ Fw Hin)|right; exact Hin]. }
  set (E' := with_sess (ENV w O req) s2) in *.
  apply serve_of_route in Sv as [(hd & r0 & h0 & RT & Eq & S1 & S2)|(_ & S1 & _)].
  - apply (rc_validate_route E' hd R M) in RT as (k & ->). right. exists k, s2, h1, r0, h0, ls.
    split; [exact Eq|]. split; [congruence|]. split; [exact Fl1|]. split; [exact Kc|]. split; [exact Ku|].
    split; [congruence|exact PUT].
  - left. intros U HU. destruct (PUT U HU) as [G|Hin]; [exact G|]. exfalso.
    rewrite S1 in Als. rewrite <- (app_nil_r (h_sev h1)) in Als at 1. apply app_inv_head in Als. subst ls. destruct Hin.
Qed.

(* refusal: U's record verifies c against nothing: no jar newly names U - unless the request carried a
   remember cookie of U with a stored token (then the wrapper wrote it, half-authenticated) *)
Lemma rc_absent_refused_w w req O U c :
  filed (w_st w) -> rc_validate_req cfg req c -> rc_absent C c U (w_st w) ->
  forall b, alookup k_uid (jar_get b (w_sess (fst (wstep C cfg w (AReq req) O)))) = Some U ->
            alookup k_uid (jar_get b (w_sess w)) = Some U \/ remembered C w req U.
Proof.
  intros F L Ab b H1. pose proof L as (_ & _ & Hc & Be).
  destruct (names_dec b U w) as [Y|N]; [left; exact Y|right].
  assert (LI : logged_in_as U w (fst (wstep C cfg w (AReq req) O))) by (exists b; auto).
  destruct (wstep_rc_validate w req O c F L) as [H|(k & s2 & h1 & r0 & h0 & ls & Eq & Hs & Fl1 & Kc & Ku & _ & PUT)]; [exact (H U LI)|].
  destruct (PUT U LI) as [G|HI]; [exact G|]. exfalso.
  set (E' := with_sess (ENV w O req) s2) in *.
  revert HI. apply (validate2fa_rc_refused E' k h1 r0 h0 U ls (filed_keyed _ Fl1) Kc).
  - change (aget f_recovery_code (values E')) with (aget f_recovery_code (values_of cfg req)). rewrite Hc. exact Be.
  - intros u Hu. change (aget f_recovery_code (values E')) with (aget f_recovery_code (values_of cfg req)). rewrite Hc.
    rewrite Ku in Hu. apply (rc_absent_use E' c U (w_st w) u); [exact Ab|exact Hu].
  - exact Eq.
  - exact Hs.
Qed.

Lemma rc_absent_refused_idle w req O U c :
  wrapper_idle (ENV w O req) ->
  filed (w_st w) -> rc_validate_req cfg req c -> rc_absent C c U (w_st w) ->
  not_logged_in_as U w (fst (wstep C cfg w (AReq req) O)).
Proof. intros Hi F L Ab. rewrite (wstep_idle C cfg w req O Hi). exact (rc_absent_refused C cfg w req O U c F L Ab). Qed.

(* consumption: the step that logged U in against the recovery code c - and not through a remember
   cookie of U - leaves U's record without a hash that verifies c *)
Lemma rc_consumption_establishes_absent_w w req O U c plain :
  crypto_laws C -> filed (w_st w) -> rc_validate_req cfg req c ->
  (forall u, ulookup U (s_users (w_st w)) = Some u -> decode_codes (u_recovery u) = map (pwhash C) plain) ->
  NoDup plain -> Forall pw_dom plain -> pw_dom c -> pwcheck C [] c = false ->
  logged_in_as U w (fst (wstep C cfg w (AReq req) O)) -> ~ remembered C w req U ->
  rc_absent C c U (w_st (fst (wstep C cfg w (AReq req) O))).
Proof.
  intros laws F L Plain ND FD Dc Em Acc NR. pose proof L as (_ & _ & Hc & Be).
  destruct (wstep_rc_validate w req O c F L) as [H|(k & s2 & h1 & r0 & h0 & ls & Eq & Hs & Fl1 & Kc & Ku & St & PUT)].
  { exfalso. exact (NR (H U Acc)). }
  destruct (PUT U Acc) as [G|Hin]; [exfalso; exact (NR G)|].
  set (E' := with_sess (ENV w O req) s2) in *.
  assert (Brc : bempty (aget f_recovery_code (values E')) = false).
  { change (aget f_recovery_code (values E')) with (aget f_recovery_code (values_of cfg req)). rewrite Hc. exact Be. }
  destruct (validate2fa_rc_cases E' k _ _ _ Eq Brc) as [(ls0 & A1 & Fn)|(u0 & rest & Src & Uc & (ls0 & A1 & Fg) & (su & B1 & B2) & Fr)].
  { rewrite Hs in A1. apply app_inv_head in A1. subst ls0. rewrite Forall_forall in Fn. exfalso. apply (Fn _ Hin). reflexivity. }
  rewrite Hs in A1. apply app_inv_head in A1. subst ls0. rewrite Forall_forall in Fg.
  assert (PU : u_pid u0 = U).
  { destruct (Fg _ Hin) as [N|(U' & EqU & G)]; [exfalso; apply N; reflexivity|]. inversion EqU. congruence. }
  pose proof (user_source_stored E' _ h1 u0 (filed_keyed _ Fl1) Kc Src) as Lu.
  rewrite PU in *. rewrite Ku in Lu. destruct B2 as [s ->].
  intros u1 Hu1. rewrite St, B1 in Hu1. inversion Hu1; subst u1.
  change (u_recovery (set_ltriple (consumed u0 rest) s)) with (encode_codes rest).
  apply (use_rc_none_iff E').
  change (aget f_recovery_code (values E')) with (aget f_recovery_code (values_of cfg req)) in Uc. rewrite Hc in Uc.
  rewrite (Plain u0 Lu) in Uc.
  exact (consumed_code_rejected E' plain c rest laws ND FD Dc Em Uc).
Qed.

Lemma recovery_code_never_again_w_lemma w0 l1 req1 O1 l2 req2 O2 U c plain :
  crypto_laws C -> filed (w_st w0) ->
  rc_validate_req cfg req1 c -> rc_validate_req cfg req2 c ->
  (forall u, ulookup U (s_users (w_st (fst (wrun C cfg w0 l1)))) = Some u -> decode_codes (u_recovery u) = map (pwhash C) plain) ->
  NoDup plain -> Forall pw_dom plain -> pw_dom c -> pwcheck C [] c = false ->
  logged_in_as U (fst (wrun C cfg w0 l1)) (fst (wstep C cfg (fst (wrun C cfg w0 l1)) (AReq req1) O1)) ->
  ~ remembered C (fst (wrun C cfg w0 l1)) req1 U ->
  rc_quiet C U c l2 ->
  let w2 := fst (wrun C cfg w0 (l1 ++ (AReq req1, O1) :: l2)) in
  let w3 := fst (wrun C cfg w0 (l1 ++ (AReq req1, O1) :: l2 ++ [(AReq req2, O2)])) in
  (forall b, alookup k_uid (jar_get b (w_sess w3)) = Some U ->
             alookup k_uid (jar_get b (w_sess w2)) = Some U \/ remembered C w2 req2 U) /\
  rc_absent C c U (w_st w2) /\
  (wrapper_idle (ENV w2 O2 req2) -> not_logged_in_as U w2 w3).
Proof.
  intros laws F0 L1 L2 Plain ND FD Dc Em Acc NR Q w2 w3.
  set (w1 := fst (wrun C cfg w0 l1)) in *.
  assert (F1 : filed (w_st w1)) by (apply wrun_filed; exact F0).
  set (w1' := fst (wstep C cfg w1 (AReq req1) O1)) in *.
  assert (F1' : filed (w_st w1')) by (apply wstep_filed; exact F1).
  assert (A1 : rc_absent C c U (w_st w1')) by (apply (rc_consumption_establishes_absent_w w1 req1 O1 U c plain); auto).
  assert (E2 : w2 = fst (wrun C cfg w1' l2)).
  { unfold w2. rewrite wrun_app_fst, wrun_cons_fst. reflexivity. }
  assert (E3 : w3 = fst (wstep C cfg w2 (AReq req2) O2)).
  { unfold w3. rewrite E2. rewrite wrun_app_fst, wrun_cons_fst, wrun_snoc_fst. reflexivity. }
  assert (F2 : filed (w_st w2)) by (rewrite E2; apply wrun_filed; exact F1').
  assert (A2 : rc_absent C c U (w_st w2)).
  { rewrite E2. apply wrun_rc_absent_preserved; auto. apply nocomma_of_laws. exact laws. }
  split; [|split; [exact A2|]].
  - rewrite E3. exact (rc_absent_refused_w w2 req2 O2 U c F2 L2 A2).
  - intros Hi. rewrite E3. exact (rc_absent_refused_idle w2 req2 O2 U c Hi F2 L2 A2).
Qed.
End RCW.

(* ================================================================================================ *)
(* Part C: confirmation and recovery tokens under the wrapper                                       *)
(* ================================================================================================ *)
(* the wrapper touches the remember table only: under the router as mounted "storage is what it was"
   reads "the user table is what it was" *)
Section CW.
Variable C : crypto.
Variable cfg : config.
Notation ENV w O req := (mkEnv C cfg O req (jar_get (q_browser req) (w_cook w)) (jar_get (q_browser req) (w_sess w))).

(* C2: an absent token is refused *)
Lemma confirm_absent_refused_w w req O :
  q_route req = RConfirm ->
  ctok_absent C (aget f_cnf (vals_of cfg req)) (w_st w) ->
  s_users (w_st (fst (wstep C cfg w (AReq req) O))) = s_users (w_st w).
Proof.
  intros R Ab.
  destruct (wstep_req_cut C cfg w req O) as (r & h & h1 & s2 & Sv & Ku & Kc & Fw & St & Jr). rewrite St, <- Ku.
  set (E' := with_sess (ENV w O req) s2) in *.
  destruct (route_confirm_cases E' R) as [RT|NH]; [|rewrite (serve_st_nohandler E' _ _ _ NH Sv); reflexivity].
  destruct (serve_st_handler E' _ _ _ _ RT Sv) as (x & ha & CG & ->).
  rewrite (confirm_reject_cases_lemma E' _ _ _ CG); [reflexivity|].
  destruct (b64url_dec (aget f_cnf (values E'))) as [raw|] eqn:Dc; [|left; reflexivity].
  right. exists raw. split; [reflexivity|]. right. left. apply ufind_none. intros k v Hin.
  apply beqb_neq. rewrite Ku in Hin. exact (Ab raw Dc k v Hin).
Qed.

Lemma confirm_absent_refused_idle w req O :
  wrapper_idle (ENV w O req) ->
  q_route req = RConfirm ->
  ctok_absent C (aget f_cnf (vals_of cfg req)) (w_st w) ->
  w_st (fst (wstep C cfg w (AReq req) O)) = w_st w.
Proof. intros Hi R Ab. rewrite (wstep_idle C cfg w req O Hi). exact (confirm_absent_refused C cfg w req O R Ab). Qed.

Lemma recover_absent_refused_w w req O :
  q_route req = RRecoverEnd ->
  rtok_absent C (aget f_token (vals_of cfg req)) (w_st w) ->
  s_users (w_st (fst (wstep C cfg w (AReq req) O))) = s_users (w_st w) /\
  forall b V, alookup k_uid (jar_get b (w_sess (fst (wstep C cfg w (AReq req) O)))) = Some V ->
              alookup k_uid (jar_get b (w_sess w)) = Some V \/ remembered C w req V.
Proof.
  intros R Ab.
  destruct (wstep_req_cut C cfg w req O) as (r & h & h1 & s2 & Sv & Ku & Kc & Fw & St & Jr).
  set (E' := with_sess (ENV w O req) s2) in *.
  assert (NF : forall raw, b64url_dec (aget f_token (values E')) = Some raw ->
                 ufind (fun u => beqb (u_rsel u) (selector_of E' raw)) (s_users (h_st h1)) = None).
  { intros raw Dc. apply ufind_none. intros k v Hin. apply beqb_neq. rewrite Ku in Hin. exact (Ab raw Dc k v Hin). }
  destruct (serve_events_after _ _ _ _ Sv) as (ls & Als).
  assert (K : s_users (h_st h) = s_users (h_st h1) /\ Forall sess_neutral ls).
  { destruct (serve_of_route E' h1 r h Sv) as [(hd & r0 & h0 & RT & Eq & S1 & S2)|(_ & S1 & S2)].
    2:{ split; [rewrite S2; reflexivity|]. rewrite S1 in Als. rewrite <- (app_nil_r (h_sev h1)) in Als at 1.
        apply app_inv_head in Als. subst ls. constructor. }
    rewrite S1 in Als. rewrite S2.
    destruct (route_recover_end_cases E' R) as [RT'|[RT'|NH]]; [| |exfalso; exact (NH hd RT)];
      rewrite RT' in RT; inversion RT; subst hd.
    - split; [rewrite (pres_st_recover_end_get E' _ _ _ Eq); reflexivity|].
      destruct (neutral_recover_end_get E' _ _ _ Eq) as [(ls0 & lc & A1 & _ & Fn & _) _].
      rewrite Als in A1. apply app_inv_head in A1. subst ls0. exact Fn.
    - split.
      + rewrite (recover_reject_unchanged_lemma E' _ _ _ Eq); [reflexivity|]. intros raw u Dc _ F _ _.
        rewrite (NF raw Dc) in F. discriminate F.
      + destruct (recover_end_no_record_neutral E' _ _ _ Eq NF) as (ls0 & A1 & Fn).
        rewrite Als in A1. apply app_inv_head in A1. subst ls0. exact Fn. }
  destruct K as (Ks & Kn). split; [rewrite St, Ks; exact Ku|].
  intros b V H1. destruct (names_dec b V w) as [Y|N]; [left; exact Y|right].
  destruct (Jr b) as [Eb|(pre & post & Hs & Eb)]; rewrite Eb in H1; [contradiction|].
  assert (Hin : In (Put k_uid V) (h_sev h)) by (rewrite Hs; apply in_or_app; left; exact (apply_events_uid_change _ _ _ H1 N)).
  rewrite Als in Hin. apply in_app_or in Hin as [Hin|Hin]; [exact (wrap_ev_put_uid _ _ _ Fw Hin)|].
  exfalso. rewrite Forall_forall in Kn. apply (Kn _ Hin). reflexivity.
Qed.

Lemma recover_absent_refused_idle w req O :
  wrapper_idle (ENV w O req) ->
  q_route req = RRecoverEnd ->
  rtok_absent C (aget f_token (vals_of cfg req)) (w_st w) ->
  w_st (fst (wstep C cfg w (AReq req) O)) = w_st w /\
  forall b V, alookup k_uid (jar_get b (w_sess (fst (wstep C cfg w (AReq req) O)))) = Some V ->
              alookup k_uid (jar_get b (w_sess w)) = Some V.
Proof. intros Hi R Ab. rewrite (wstep_idle C cfg w req O Hi). exact (recover_absent_refused C cfg w req O R Ab). Qed.

(* C4: the accepting step clears the selector; with unique selectors nobody else carries it *)
Lemma confirm_accepted_absent_w w req O :
  q_route req = RConfirm ->
  s_users (w_st (fst (wstep C cfg w (AReq req) O))) <> s_users (w_st w) ->
  filed (w_st w) -> csel_unique (w_st w) ->
  (forall raw, b64url_dec (aget f_cnf (vals_of cfg req)) = Some raw -> sha C (firstn 32 raw) <> []) ->
  ctok_absent C (aget f_cnf (vals_of cfg req)) (w_st (fst (wstep C cfg w (AReq req) O))).
Proof.
  intros R Ch Fl Un Ne.
  destruct (wstep_req_cut C cfg w req O) as (r & h & h1 & s2 & Sv & Ku & Kc & Fw & St & Jr). rewrite St in *.
  set (E' := with_sess (ENV w O req) s2) in *.
  destruct (route_confirm_cases E' R) as [RT|NH].
  2:{ exfalso; apply Ch. rewrite (serve_st_nohandler E' _ _ _ NH Sv). exact Ku. }
  destruct (serve_st_handler E' _ _ _ _ RT Sv) as (x & ha & CG & Hst). rewrite Hst in *.
  destruct (confirm_get_cases E' _ _ _ CG) as [U|(raw & u & D & Ln & F & V & Sta)].
  { exfalso; apply Ch. rewrite U. exact Ku. }
  rewrite Ku in F.
  pose proof (filedl_found _ _ _ Fl F) as Lu.
  pose proof (ufind_sat _ _ _ F) as Su. apply beqb_eq in Su.
  assert (SelNe : selector_of E' raw <> []) by (apply b64std_enc_nonempty; exact (Ne raw D)).
  intros raw' D' k v Hin. change (b64url_dec (aget f_cnf (values E')) = Some raw') in D'.
  rewrite D in D'. inversion D'; subst raw'. rewrite Sta in Hin. cbn [s_users set] in Hin. simpl in Hin. rewrite Ku in Hin.
  apply uput_in_nodup in Hin as [Heq|[Hin Nk]]; [| |exact (proj1 Fl)].
  - inversion Heq; subst. cbn. intros Hx. apply SelNe. symmetry. exact Hx.
  - intros Hx. apply Nk. symmetry.
    apply (Un (u_pid u) k u v Lu (in_ulookup _ _ _ (proj1 Fl) Hin)); [rewrite Su; exact SelNe|].
    rewrite Su, Hx. reflexivity.
Qed.

Lemma recover_accepted_absent_w w req O :
  q_route req = RRecoverEnd ->
  s_users (w_st (fst (wstep C cfg w (AReq req) O))) <> s_users (w_st w) ->
  filed (w_st w) -> rsel_unique (w_st w) ->
  (forall raw, b64url_dec (aget f_token (vals_of cfg req)) = Some raw -> sha C (firstn 32 raw) <> []) ->
  rtok_absent C (aget f_token (vals_of cfg req)) (w_st (fst (wstep C cfg w (AReq req) O))).
Proof.
  intros R Ch Fl Un Ne.
  destruct (wstep_req_cut C cfg w req O) as (r & h & h1 & s2 & Sv & Ku & Kc & Fw & St & Jr). rewrite St in *.
  set (E' := with_sess (ENV w O req) s2) in *.
  assert (Fl1 : filed (h_st h1)) by (unfold filed; rewrite Ku; exact Fl).
  destruct (route_recover_end_cases E' R) as [RT|[RT|NH]].
  - exfalso. apply Ch. destruct (serve_st_handler E' _ _ _ _ RT Sv) as (x & ha & RG & ->).
    rewrite (pres_st_recover_end_get E' _ _ _ RG). exact Ku.
  - destruct (serve_st_handler E' _ _ _ _ RT Sv) as (x & ha & RP & Hst). rewrite Hst in *.
    destruct (recover_end_cases E' _ _ _ RP) as [U|(raw & u & D & Ln & F & Ex & V & _ & _ & (su & B1 & B2) & Fr)].
    { exfalso. apply Ch. rewrite U. exact Ku. }
    rewrite Ku in F.
    pose proof (filedl_found _ _ _ Fl F) as Lu.
    pose proof (ufind_sat _ _ _ F) as Su. apply beqb_eq in Su.
    destruct (keeps2fa_recover_end E' h1 _ _ Fl1 (ctx_ok_none h1 Kc) RP) as (Fl' & _ & _).
    apply upto_lock_recovered in B2 as (_ & P1 & P2 & P3 & _).
    assert (SelNe : selector_of E' raw <> []) by (apply b64std_enc_nonempty; exact (Ne raw D)).
    intros raw' D' k v Hin. change (b64url_dec (aget f_token (values E')) = Some raw') in D'.
    rewrite D in D'. inversion D'; subst raw'.
    pose proof (in_ulookup _ _ _ (proj1 Fl') Hin) as Lv.
    destruct (bytes_dec k (u_pid u)) as [->|Nk].
    + rewrite B1 in Lv. inversion Lv; subst v. rewrite P2. intros Hx. apply SelNe. symmetry. exact Hx.
    + rewrite Fr in Lv by exact Nk. rewrite Ku in Lv. intros Hx. apply Nk. symmetry.
      apply (Un (u_pid u) k u v Lu Lv); [rewrite Su; exact SelNe|]. rewrite Su, Hx. reflexivity.
  - exfalso. apply Ch. rewrite (serve_st_nohandler E' _ _ _ NH Sv). exact Ku.
Qed.
End CW.

Section CWH.
Variable C : crypto.
Hypothesis laws : crypto_laws C.
Variable cfg : config.
Notation ENV w O req := (mkEnv C cfg O req (jar_get (q_browser req) (w_cook w)) (jar_get (q_browser req) (w_sess w))).

(* C5 *)
Lemma confirm_never_again_w_lemma w0 l1 r1 O1 l2 r2 O2 tok raw :
  b64url_dec tok = Some raw -> sha C (firstn 32 raw) <> [] ->
  let w1 := fst (wrun C cfg w0 l1) in
  let w1' := fst (wrun C cfg w0 (l1 ++ [(AReq r1, O1)])) in
  let w2 := fst (wrun C cfg w0 (l1 ++ (AReq r1, O1) :: l2)) in
  let w3 := fst (wrun C cfg w0 (l1 ++ (AReq r1, O1) :: l2 ++ [(AReq r2, O2)])) in
  q_route r1 = RConfirm -> aget f_cnf (vals_of cfg r1) = tok -> s_users (w_st w1') <> s_users (w_st w1) ->
  filed (w_st w1) -> csel_unique (w_st w1) ->
  Forall (fun ao => ~ ctok_exception C tok ao) l2 ->
  q_route r2 = RConfirm -> aget f_cnf (vals_of cfg r2) = tok ->
  ctok_absent C tok (w_st w2) /\ s_users (w_st w3) = s_users (w_st w2) /\
  (wrapper_idle (ENV w2 O2 r2) -> w_st w3 = w_st w2).
Proof using laws.
  intros Dc Hne w1 w1' w2 w3 R1 T1 Ch Fl Un Q2 R2 T2.
  assert (E1 : w1' = fst (wstep C cfg w1 (AReq r1) O1)).
  { subst w1' w1. rewrite !wrun_grun. apply grun_snoc. }
  assert (E2 : w2 = grun (wstep C cfg) w1' l2).
  { subst w2 w1'. rewrite !wrun_grun, grun_mid, grun_snoc. reflexivity. }
  assert (E3 : w3 = fst (wstep C cfg w2 (AReq r2) O2)).
  { subst w3 w2. rewrite !wrun_grun. rewrite app_comm_cons, app_assoc. apply grun_snoc. }
  assert (A1 : ctok_absent C tok (w_st w1')).
  { rewrite E1, <- T1. apply confirm_accepted_absent_w; auto.
    - rewrite <- E1. exact Ch.
    - rewrite T1. intros raw' Dc'. rewrite Dc in Dc'. inversion Dc'; subst raw'. exact Hne. }
  assert (A2 : ctok_absent C tok (w_st w2)).
  { rewrite E2. exact (ctok_absent_wgrun C laws cfg tok raw Dc Hne l2 w1' Q2 A1). }
  split; [exact A2|]. split.
  - rewrite E3. apply confirm_absent_refused_w; [exact R2|]. rewrite T2. exact A2.
  - intros Hi. rewrite E3. apply confirm_absent_refused_idle; [exact Hi|exact R2|]. rewrite T2. exact A2.
Qed.

Lemma recover_never_again_w_lemma w0 l1 r1 O1 l2 r2 O2 tok raw :
  b64url_dec tok = Some raw -> sha C (firstn 32 raw) <> [] ->
  let w1 := fst (wrun C cfg w0 l1) in
  let w1' := fst (wrun C cfg w0 (l1 ++ [(AReq r1, O1)])) in
  let w2 := fst (wrun C cfg w0 (l1 ++ (AReq r1, O1) :: l2)) in
  let w3 := fst (wrun C cfg w0 (l1 ++ (AReq r1, O1) :: l2 ++ [(AReq r2, O2)])) in
  q_route r1 = RRecoverEnd -> aget f_token (vals_of cfg r1) = tok -> s_users (w_st w1') <> s_users (w_st w1) ->
  filed (w_st w1) -> rsel_unique (w_st w1) ->
  Forall (fun ao => ~ rtok_exception C tok ao) l2 ->
  q_route r2 = RRecoverEnd -> aget f_token (vals_of cfg r2) = tok ->
  rtok_absent C tok (w_st w2) /\ s_users (w_st w3) = s_users (w_st w2) /\
  (forall b V, alookup k_uid (jar_get b (w_sess w3)) = Some V ->
               alookup k_uid (jar_get b (w_sess w2)) = Some V \/ remembered C w2 r2 V) /\
  (wrapper_idle (ENV w2 O2 r2) ->
   w_st w3 = w_st w2 /\
   forall b V, alookup k_uid (jar_get b (w_sess w3)) = Some V -> alookup k_uid (jar_get b (w_sess w2)) = Some V).
Proof using laws.
  intros Dc Hne w1 w1' w2 w3 R1 T1 Ch Fl Un Q2 R2 T2.
  assert (E1 : w1' = fst (wstep C cfg w1 (AReq r1) O1)).
  { subst w1' w1. rewrite !wrun_grun. apply grun_snoc. }
  assert (E2 : w2 = grun (wstep C cfg) w1' l2).
  { subst w2 w1'. rewrite !wrun_grun, grun_mid, grun_snoc. reflexivity. }
  assert (E3 : w3 = fst (wstep C cfg w2 (AReq r2) O2)).
  { subst w3 w2. rewrite !wrun_grun. rewrite app_comm_cons, app_assoc. apply grun_snoc. }
  assert (A1 : rtok_absent C tok (w_st w1')).
  { rewrite E1, <- T1. apply recover_accepted_absent_w; auto.
    - rewrite <- E1. exact Ch.
    - rewrite T1. intros raw' Dc'. rewrite Dc in Dc'. inversion Dc'; subst raw'. exact Hne. }
  assert (A2 : rtok_absent C tok (w_st w2)).
  { rewrite E2. exact (rtok_absent_wgrun C laws cfg tok raw Dc Hne l2 w1' Q2 A1). }
  split; [exact A2|].
  assert (A2' : rtok_absent C (aget f_token (vals_of cfg r2)) (w_st w2)) by (rewrite T2; exact A2).
  destruct (recover_absent_refused_w C cfg w2 r2 O2 R2 A2') as (K1 & K2).
  split; [rewrite E3; exact K1|]. split; [rewrite E3; exact K2|].
  intros Hi. rewrite E3. exact (recover_absent_refused_idle C cfg w2 r2 O2 Hi R2 A2').
Qed.
End CWH.

(* ================================================================================================ *)
(* Without the global wrapper: the statements of Props/C12d.v and Props/C05c.v, for [wrun] / [wstep] *)
(* ================================================================================================ *)
Lemma otp_never_again_w_unwrapped_lemma C cfg w0 l1 req1 O1 l2 req2 O2 U x :
  c_wrap_remember cfg = false ->
  filed (w_st w0) ->
  otp_login_req cfg req1 U x -> otp_login_req cfg req2 U x ->
  otp_unique C x U (w_st (fst (wrun C cfg w0 l1))) ->
  accepted_for U (fst (wrun C cfg w0 l1)) (fst (wstep C cfg (fst (wrun C cfg w0 l1)) (AReq req1) O1)) ->
  Forall (fun ao => ~ seeds U (fst ao) /\ ~ otp_add_may_hit C x (fst ao) (snd ao)) l2 ->
  sess_untouched (fst (wrun C cfg w0 (l1 ++ (AReq req1, O1) :: l2)))
                 (fst (wrun C cfg w0 (l1 ++ (AReq req1, O1) :: l2 ++ [(AReq req2, O2)]))) /\
  refused_for U (fst (wrun C cfg w0 (l1 ++ (AReq req1, O1) :: l2)))
                (fst (wrun C cfg w0 (l1 ++ (AReq req1, O1) :: l2 ++ [(AReq req2, O2)]))) /\
  otp_absent C x U (w_st (fst (wrun C cfg w0 (l1 ++ (AReq req1, O1) :: l2)))).
Proof.
  intros Wf. rewrite !(wrun_unwrapped C cfg Wf), (wstep_unwrapped C cfg _ _ _ Wf).
  exact (otp_never_again_lemma C cfg w0 l1 req1 O1 l2 req2 O2 U x).
Qed.

Lemma recovery_code_never_again_w_unwrapped_lemma C cfg w0 l1 req1 O1 l2 req2 O2 U c plain :
  c_wrap_remember cfg = false ->
  crypto_laws C -> filed (w_st w0) ->
  rc_validate_req cfg req1 c -> rc_validate_req cfg req2 c ->
  (forall u, ulookup U (s_users (w_st (fst (wrun C cfg w0 l1)))) = Some u ->
     decode_codes (u_recovery u) = map (pwhash C) plain) ->
  NoDup plain -> Forall pw_dom plain -> pw_dom c -> pwcheck C [] c = false ->
  logged_in_as U (fst (wrun C cfg w0 l1)) (fst (wstep C cfg (fst (wrun C cfg w0 l1)) (AReq req1) O1)) ->
  Forall (fun ao => ~ seeds U (fst ao) /\ ~ regen_may_hit C c (fst ao) (snd ao)) l2 ->
  not_logged_in_as U (fst (wrun C cfg w0 (l1 ++ (AReq req1, O1) :: l2)))
                     (fst (wrun C cfg w0 (l1 ++ (AReq req1, O1) :: l2 ++ [(AReq req2, O2)]))) /\
  rc_absent C c U (w_st (fst (wrun C cfg w0 (l1 ++ (AReq req1, O1) :: l2)))).
Proof.
  intros Wf. rewrite !(wrun_unwrapped C cfg Wf), (wstep_unwrapped C cfg _ _ _ Wf).
  exact (recovery_code_never_again_lemma C cfg w0 l1 req1 O1 l2 req2 O2 U c plain).
Qed.

Lemma confirm_never_again_w_unwrapped_lemma C (laws : crypto_laws C) cfg w0 l1 r1 O1 l2 r2 O2 tok raw :
  c_wrap_remember cfg = false ->
  b64url_dec tok = Some raw -> sha C (firstn 32 raw) <> [] ->
  let w1 := fst (wrun C cfg w0 l1) in
  let w1' := fst (wrun C cfg w0 (l1 ++ [(AReq r1, O1)])) in
  let w2 := fst (wrun C cfg w0 (l1 ++ (AReq r1, O1) :: l2)) in
  let w3 := fst (wrun C cfg w0 (l1 ++ (AReq r1, O1) :: l2 ++ [(AReq r2, O2)])) in
  q_route r1 = RConfirm -> aget f_cnf (vals_of cfg r1) = tok -> w_st w1' <> w_st w1 ->
  filed (w_st w1) -> csel_unique (w_st w1) ->
  Forall (fun ao => ~ ctok_exception C tok ao) l2 ->
  q_route r2 = RConfirm -> aget f_cnf (vals_of cfg r2) = tok ->
  ctok_absent C tok (w_st w2) /\ w_st w3 = w_st w2.
Proof.
  intros Wf. cbv zeta. rewrite !(wrun_unwrapped C cfg Wf).
  exact (confirm_never_again_lemma C laws cfg w0 l1 r1 O1 l2 r2 O2 tok raw).
Qed.

Lemma recover_never_again_w_unwrapped_lemma C (laws : crypto_laws C) cfg w0 l1 r1 O1 l2 r2 O2 tok raw :
  c_wrap_remember cfg = false ->
  b64url_dec tok = Some raw -> sha C (firstn 32 raw) <> [] ->
  let w1 := fst (wrun C cfg w0 l1) in
  let w1' := fst (wrun C cfg w0 (l1 ++ [(AReq r1, O1)])) in
  let w2 := fst (wrun C cfg w0 (l1 ++ (AReq r1, O1) :: l2)) in
  let w3 := fst (wrun C cfg w0 (l1 ++ (AReq r1, O1) :: l2 ++ [(AReq r2, O2)])) in
  q_route r1 = RRecoverEnd -> aget f_token (vals_of cfg r1) = tok -> s_users (w_st w1') <> s_users (w_st w1) ->
  filed (w_st w1) -> rsel_unique (w_st w1) ->
  Forall (fun ao => ~ rtok_exception C tok ao) l2 ->
  q_route r2 = RRecoverEnd -> aget f_token (vals_of cfg r2) = tok ->
  rtok_absent C tok (w_st w2) /\ w_st w3 = w_st w2 /\
  forall b V, alookup k_uid (jar_get b (w_sess w3)) = Some V -> alookup k_uid (jar_get b (w_sess w2)) = Some V.
Proof.
  intros Wf. cbv zeta. rewrite !(wrun_unwrapped C cfg Wf).
  exact (recover_never_again_lemma C laws cfg w0 l1 r1 O1 l2 r2 O2 tok raw).
Qed.

(* ================================================================================================ *)
(* Non-vacuity under the wrapper (executable crypto instance, computed): the histories of             *)
(* OneTimeHistory.v / TokenHistory.v, run by the router as mounted with [c_wrap_remember := true]     *)
(* ================================================================================================ *)
Definition wox_cfg : config :=
  mkConfig [MAuth; MOtp; MLogout] false false false false false false 3 300 3600 600 3600 (bs "/auth")
           false false false DELETE GET false [] RespNotFound [] [] true false true.

Lemma wox_witness :
  exists C cfg w0 l1 req1 O1 l2 req2 (O2 : oracle) U x,
    crypto_laws C /\ c_wrap_remember cfg = true /\ l2 <> [] /\
    filed (w_st w0) /\ otp_login_req cfg req1 U x /\ otp_login_req cfg req2 U x /\
    otp_unique C x U (w_st (fst (wrun C cfg w0 l1))) /\
    accepted_for_w C U (fst (wrun C cfg w0 l1)) req1 (fst (wstep C cfg (fst (wrun C cfg w0 l1)) (AReq req1) O1)) /\
    otp_quiet C U x l2 /\
    (exists u, ulookup U (s_users (w_st (fst (wrun C cfg w0 (l1 ++ (AReq req1, O1) :: l2))))) = Some u /\
               length (split_otps (u_otps u)) = 1%nat).
Proof.
  exists XC, wox_cfg, empty_world, ox_l1, (ox_login (bs "b1")), ox_oracle, ox_l2, (ox_login (bs "b2")), ox_oracle, ox_pid, ox_x.
  split; [exact exec_laws|]. split; [reflexivity|]. split; [discriminate|].
  split; [split; [constructor|intros k u []]|].
  split; [repeat split|]. split; [repeat split|].
  split.
  { intros u Hu. vm_compute in Hu. inversion Hu; subst u. vm_compute. lia. }
  split.
  { exists (bs "b1"), k_uid. split; [left; reflexivity|]. split; [vm_compute; reflexivity|]. split; [vm_compute; discriminate|].
    intros _ (ck & rw & Hk & _). vm_compute in Hk. discriminate Hk. }
  split; [exact ox_quiet|].
  eexists. split; [vm_compute; reflexivity|vm_compute; reflexivity].
Qed.

Definition wrx_cfg : config :=
  mkConfig [MAuth; MLogout] false true false false true false 3 300 3600 600 3600 (bs "/auth")
           false false false DELETE GET false [] RespNotFound [] [] true false true.

Lemma wrx_witness :
  exists C cfg w0 l1 req1 O1 l2 req2 (O2 : oracle) U c plain,
    crypto_laws C /\ c_wrap_remember cfg = true /\ l2 <> [] /\ filed (w_st w0) /\
    rc_validate_req cfg req1 c /\ rc_validate_req cfg req2 c /\
    (forall u, ulookup U (s_users (w_st (fst (wrun C cfg w0 l1)))) = Some u ->
       decode_codes (u_recovery u) = map (pwhash C) plain) /\
    NoDup plain /\ Forall pw_dom plain /\ pw_dom c /\ pwcheck C [] c = false /\
    logged_in_as U (fst (wrun C cfg w0 l1)) (fst (wstep C cfg (fst (wrun C cfg w0 l1)) (AReq req1) O1)) /\
    ~ remembered C (fst (wrun C cfg w0 l1)) req1 U /\
    rc_quiet C U c l2 /\
    alookup k_totp_pending (jar_get (q_browser req2) (w_sess (fst (wrun C cfg w0 (l1 ++ (AReq req1, O1) :: l2))))) = Some U.
Proof.
  exists XC, wrx_cfg, empty_world, rx_l1, (rx_validate (bs "b1")), ox_oracle, rx_l2, (rx_validate (bs "b2")), ox_oracle,
         ox_pid, rx_c, rx_plain.
  split; [exact exec_laws|]. split; [reflexivity|]. split; [discriminate|].
  split; [split; [constructor|intros k u []]|].
  split; [split; [left; reflexivity|repeat split]|]. split; [split; [left; reflexivity|repeat split]|].
  split.
  { intros u Hu. vm_compute in Hu. inversion Hu; subst u. vm_compute. reflexivity. }
  split.
  { apply NoDup_cons; [intros [H|[]]; discriminate H|]. apply NoDup_cons; [intros []|apply NoDup_nil]. }
  split; [repeat constructor; vm_compute; lia|]. split; [vm_compute; lia|]. split; [vm_compute; reflexivity|].
  split.
  { exists (bs "b1"). split; [vm_compute; reflexivity|vm_compute; discriminate]. }
  split.
  { intros (ck & rw & Hk & _). vm_compute in Hk. discriminate Hk. }
  split.
  { unfold rc_quiet, rx_l2. repeat constructor; cbn [fst snd seeds regen_may_hit]; try tauto.
    - intros (([R|[R|R]] & _) & _); discriminate R.
    - intros (([R|[R|R]] & _) & _); discriminate R. }
  vm_compute. reflexivity.
Qed.

Definition wbx_cfg : config :=
  mkConfig [MAuth; MConfirm; MRecover] false false false false false false 3 300 3600 600 3600 (bs "/auth")
           false false false DELETE GET false [] RespNotFound [] [] true false true.

Lemma wbx_confirm_witness :
  exists C cfg w0 l1 r1 O1 l2 r2 tok raw,
    crypto_laws C /\ c_wrap_remember cfg = true /\ b64url_dec tok = Some raw /\ sha C (firstn 32 raw) <> [] /\
    q_route r1 = RConfirm /\ aget f_cnf (vals_of cfg r1) = tok /\
    s_users (w_st (fst (wrun C cfg w0 (l1 ++ [(AReq r1, O1)])))) <> s_users (w_st (fst (wrun C cfg w0 l1))) /\
    filed (w_st (fst (wrun C cfg w0 l1))) /\ csel_unique (w_st (fst (wrun C cfg w0 l1))) /\
    Forall (fun ao => ~ ctok_exception C tok ao) l2 /\ l2 <> [] /\
    q_route r2 = RConfirm /\ aget f_cnf (vals_of cfg r2) = tok.
Proof.
  exists XC, wbx_cfg, empty_world, bx_l1c, (bx_confirm (bs "b1")), (nx_oracle []), bx_l2, (bx_confirm (bs "b2")),
         bx_tok1, bx_c1.
  assert (Hs : exists u, s_users (w_st (fst (wrun XC wbx_cfg empty_world bx_l1c))) = [(hx_pid, u)] /\ u_pid u = hx_pid).
  { eexists. split; vm_compute; reflexivity. }
  destruct Hs as (u & Hs & Hp).
  split; [exact exec_laws|]. split; [reflexivity|]. split; [vm_compute; reflexivity|]. split; [vm_compute; discriminate|].
  split; [reflexivity|]. split; [reflexivity|]. split.
  { intros Hx. apply (f_equal (map (fun ku => u_confirmed (snd ku)))) in Hx.
    vm_compute in Hx. discriminate Hx. }
  split; [unfold filed; rewrite Hs; exact (single_filed _ _ Hp)|].
  split; [exact (proj1 (single_unique _ _ _ Hs))|].
  split.
  { repeat constructor. intros (raw & Dc & Hr). cbn [fst snd] in Hr.
    assert (raw = bx_c1) by (vm_compute in Dc; inversion Dc; reflexivity). subst raw.
    destruct Hr as [(c & [] & _)|Hr]. vm_compute in Hr. discriminate Hr. }
  split; [discriminate|]. split; reflexivity.
Qed.

Lemma wbx_recover_witness :
  exists C cfg w0 l1 r1 O1 l2 r2 tok raw,
    crypto_laws C /\ c_wrap_remember cfg = true /\ b64url_dec tok = Some raw /\ sha C (firstn 32 raw) <> [] /\
    q_route r1 = RRecoverEnd /\ aget f_token (vals_of cfg r1) = tok /\
    s_users (w_st (fst (wrun C cfg w0 (l1 ++ [(AReq r1, O1)])))) <> s_users (w_st (fst (wrun C cfg w0 l1))) /\
    filed (w_st (fst (wrun C cfg w0 l1))) /\ rsel_unique (w_st (fst (wrun C cfg w0 l1))) /\
    Forall (fun ao => ~ rtok_exception C tok ao) l2 /\ l2 <> [] /\
    q_route r2 = RRecoverEnd /\ aget f_token (vals_of cfg r2) = tok.
Proof.
  exists XC, wbx_cfg, empty_world, bx_l1r, (bx_rend (bs "b1") (bs "Newpassw0rd!")), (nx_oracle []), bx_l2,
         (bx_rend (bs "b2") (bs "An0therpass!")), bx_tok2, bx_c2.
  assert (Hs : exists u, s_users (w_st (fst (wrun XC wbx_cfg empty_world bx_l1r))) = [(hx_pid, u)] /\ u_pid u = hx_pid).
  { eexists. split; vm_compute; reflexivity. }
  destruct Hs as (u & Hs & Hp).
  split; [exact exec_laws|]. split; [reflexivity|]. split; [vm_compute; reflexivity|]. split; [vm_compute; discriminate|].
  split; [reflexivity|]. split; [reflexivity|]. split.
  { intros Hx. apply (f_equal (map (fun ku => u_rsel (snd ku)))) in Hx.
    vm_compute in Hx. discriminate Hx. }
  split; [unfold filed; rewrite Hs; exact (single_filed _ _ Hp)|].
  split; [exact (proj2 (single_unique _ _ _ Hs))|].
  split.
  { repeat constructor. intros (raw & Dc & Hr). cbn [fst snd] in Hr.
    assert (raw = bx_c2) by (vm_compute in Dc; inversion Dc; reflexivity). subst raw.
    destruct Hr as [(c & [] & _)|Hr]. vm_compute in Hr. discriminate Hr. }
  split; [discriminate|]. split; reflexivity.
Qed.

Lemma consumption_establishes_absent_w_lemma C cfg w req O U x :
  filed (w_st w) -> otp_login_req cfg req U x -> otp_unique C x U (w_st w) ->
  accepted_for_w C U w req (fst (wstep C cfg w (AReq req) O)) ->
  otp_absent C x U (w_st (fst (wstep C cfg w (AReq req) O))).
Proof.
  intros F L Un Acc.
  exact (consumption_establishes_absent_w C cfg w req O U x F L Un (accepted_w_touched C U w req _ Acc)).
Qed.
