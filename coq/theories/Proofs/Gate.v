(* The access middleware (authboss.MountedMiddleware2) as a gate: exact conditions under
   which the wrapped handler runs, and what it leaves behind otherwise. *)
From AB Require Import World.Handlers Base.TextProofs Proofs.EvLogic Proofs.Neutral Proofs.MonadInv Proofs.StoreLogic.
Open Scope Z_scope.

Section G.
Variable E : env.

Definition reqs_ok (full tf : bool) : bool :=
  negb (full && ahas k_halfauth (e_sess E)) && negb (tf && negb (ahas k_twofactor (e_sess E))).

(* the handler runs only if the requirements hold and a user is in the context afterwards;
   when no user was cached before, that user is the one storage holds under the session's uid *)
Lemma auth_middleware_admits mp full tf fr h h' :
  auth_middleware E mp full tf fr h = (Ok true, h') ->
  reqs_ok full tf = true /\
  (exists u, h_cuser h' = Some u) /\
  (h_cuser h = None -> h_cpid h = None ->
     bempty (aget k_uid (e_sess E)) = false /\
     exists u, ulookup (aget k_uid (e_sess E)) (s_users (h_st h)) = Some u /\ h_cuser h' = Some u) /\
  h_sev h' = h_sev h /\ h_cev h' = h_cev h /\ h_out h' = h_out h /\ h_st h' = h_st h.
Proof.
  intros Eq. unfold auth_middleware in Eq. unfold reqs_ok.
  destruct ((full && ahas k_halfauth (e_sess E)) || (tf && negb (ahas k_twofactor (e_sess E)))) eqn:Rq.
  { apply bind_inv in Eq as [(a & h1 & E1 & E2)|[(e & E1 & Hr)|(E1 & Hr)]]; [cbv [ret] in E2; discriminate E2|discriminate Hr|discriminate Hr]. }
  apply orb_false_iff in Rq as [R1 R2]. rewrite R1, R2. split; [reflexivity|].
  apply try_inv in Eq as [(x & h1 & L & NP & K)|(L & Hr)]; [|discriminate Hr].
  destruct x as [u|e|]; [|destruct e|congruence].
  - inversion K; subst h1. clear K.
    unfold load_current_user in L.
    apply bind_inv in L as [(hh & k0 & F0 & L)|[(e & F0 & Hr)|(F0 & Hr)]]; try (inversion F0; fail).
    inversion F0; subst hh k0; clear F0.
    destruct (h_cuser h) as [cu|] eqn:Hc.
    + inversion L; subst. rewrite ?Hc. repeat split; eauto; try congruence; try discriminate.
    + unfold current_user_id in L.
      apply bind_inv in L as [(pid & k1 & F1 & L)|[(e & F1 & Hr)|(F1 & Hr)]]; try discriminate Hr.
      apply bind_inv in F1 as [(hh & k0 & F0 & F1)|[(e & F0 & Hr)|(F0 & Hr)]]; try (inversion F0; fail).
      inversion F0; subst hh k0; clear F0.
      assert (Pk : k1 = h /\ (h_cpid h = None -> pid = aget k_uid (e_sess E))).
      { destruct (h_cpid h); inversion F1; subst; split; auto. intros Habs; discriminate Habs. }
      destruct Pk as [-> Pid].
      destruct (bempty pid) eqn:Bp; [cbv [fail] in L; discriminate L|].
      apply bind_inv in L as [(a & k2 & F2 & L)|[(e & F2 & Hr)|(F2 & Hr)]]; try discriminate Hr.
      inversion F2; subst a k2; clear F2.
      apply bind_inv in L as [(u1 & k3 & F3 & L)|[(e & F3 & Hr)|(F3 & Hr)]]; try discriminate Hr.
      pose proof (st_load_spec _ _ _ _ _ F3) as (S1 & S2 & S3 & S4 & S5 & S6 & Hu & _).
      apply bind_inv in L as [(a & k4 & F4 & L)|[(e & F4 & Hr)|(F4 & Hr)]]; try (inversion F4; fail).
      inversion F4; subst a k4; clear F4. inversion L; subst. simpl in *.
      repeat split; eauto.
      * match goal with Hp : h_cpid h = None |- _ => rewrite <- (Pid Hp) end. exact Bp.
      * match goal with Hp : h_cpid h = None |- _ => rewrite <- (Pid Hp) end.
        exists u. split; [apply Hu; reflexivity|reflexivity].
  - apply bind_inv in K as [(a & h2 & F1 & K)|[(e & F1 & Hr)|(F1 & Hr)]]; [cbv [ret] in K; discriminate K|discriminate Hr|discriminate Hr].
  - apply bind_inv in K as [(a & h2 & F1 & K)|[(e & F1 & Hr)|(F1 & Hr)]]; try discriminate Hr.
    apply bind_inv in K as [(a2 & h3 & F2 & K)|[(e & F2 & Hr)|(F2 & Hr)]]; [cbv [ret] in K; discriminate K|discriminate Hr|discriminate Hr].
  - apply bind_inv in K as [(a & h2 & F1 & K)|[(e & F1 & Hr)|(F1 & Hr)]]; try discriminate Hr.
    apply bind_inv in K as [(a2 & h3 & F2 & K)|[(e & F2 & Hr)|(F2 & Hr)]]; [cbv [ret] in K; discriminate K|discriminate Hr|discriminate Hr].
  - apply bind_inv in K as [(a & h2 & F1 & K)|[(e & F1 & Hr)|(F1 & Hr)]]; try discriminate Hr.
    apply bind_inv in K as [(a2 & h3 & F2 & K)|[(e & F2 & Hr)|(F2 & Hr)]]; [cbv [ret] in K; discriminate K|discriminate Hr|discriminate Hr].
Qed.

(* the return target the redirect refusal carries decodes back to the original path and query *)
Lemma redirect_target_roundtrip (p : bytes) :
  query_unescape (S (length (query_escape p))) (query_escape p) = Some p.
Proof. apply query_unescape_escape. apply Nat.lt_succ_diag_r. Qed.
End G.
