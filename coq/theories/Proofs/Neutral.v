(* Which computations can touch the session's user identity.  [sess_neutral] events leave
   the "uid" key alone; every event hook of every module, hence Events.call over ANY list
   of hooks in ANY order, and every route handler that is not a login path, only ever
   appends neutral events. *)
From AB Require Import World.Handlers Proofs.EvLogic.
Open Scope Z_scope.

Definition sess_neutral (e : csevent) : Prop :=
  match e with Put k _ => k <> k_uid | Del k => k <> k_uid | DelAll _ => False end.
Definition any_ev (e : csevent) : Prop := True.

Ltac neq_const := let H := fresh in intro H; vm_compute in H; discriminate H.
Ltac side := first [ exact I | simpl; neq_const | simpl; exact I ].

(* unfold the derived operations down to primitives *)
Ltac unfold_derived :=
  unfold respond, render, redirect, ro_plain, ro_ok, ro_fail, ro_follow_redir, current_user, current_user_id,
         store_back, load_current_user, generate_token, send_mail, rm_generate, read_values,
         update_locked_state, send_code_to_user, bcrypt_codes, generate_recovery_codes in *.

Ltac evs_go := repeat (unfold_derived; cbn beta iota; evs_step); try side.

Section N.
Variable E : env.
Notation neutral := (evs_all sess_neutral any_ev).

Lemma neutral_redirect ro : neutral (redirect E ro).
Proof. evs_go. Qed.

Lemma neutral_respond p d : neutral (respond E p d).
Proof. evs_go. Qed.

Lemma neutral_current_user : neutral (current_user E).
Proof. evs_go. Qed.

Lemma neutral_send_code p n : neutral (send_code_to_user E p n).
Proof. evs_go. Qed.

Lemma neutral_hook hk rm hd : neutral (run_hook E hk rm hd).
Proof. destruct hk; unfold run_hook; evs_go. Qed.

Lemma neutral_call hs : forall rm hd, neutral (call E hs rm hd).
Proof.
  induction hs as [|hk hs IH]; intros rm hd; simpl.
  - apply evs_ret.
  - apply evs_bind; [apply neutral_hook|intros; apply IH].
Qed.

Lemma neutral_fire e rm : neutral (fire E e rm).
Proof. unfold fire. apply neutral_call. Qed.
End N.
