(* Confirmation / recovery tokens (C05) and password change (C06), at handler level:
   - a 64-byte token is determined by its (selector, verifier) pair;
   - a confirm request changes storage only by confirming exactly the account whose stored
     selector and verifier are the hashes of the two halves of the submitted token;
   - a recover-end request changes the user table only for such an account, not expired, and
     what is stored afterwards is the hash of the submitted password with the token cleared;
   - after a password change the old password no longer verifies, the new one does, and the
     administrative UpdatePassword drops the account's remember tokens and touches nobody else. *)
From AB Require Import World.Handlers World.Step Base.Base64Proofs
  Proofs.EvLogic Proofs.Neutral Proofs.MonadInv Proofs.StoreLogic.
Open Scope Z_scope.

(* ---- T1: the two halves ------------------------------------------------------------------ *)
Section T1.
Variable E : env.
Notation C := (e_C E).
Hypothesis laws : crypto_laws C.

Lemma token_halves_lemma raw :
  selector_of E raw = b64std_enc (sha C (firstn 32 raw)) /\
  verifier_of E raw = b64std_enc (sha C (skipn 32 raw)).
Proof. split; reflexivity. Qed.

Lemma token_halves_inj_gen r1 r2 :
  selector_of E r1 = selector_of E r2 -> verifier_of E r1 = verifier_of E r2 -> r1 = r2.
Proof.
  unfold selector_of, verifier_of, half1, half2. intros S V.
  apply b64std_enc_inj, (sha_inj C laws) in S. apply b64std_enc_inj, (sha_inj C laws) in V.
  rewrite <- (firstn_skipn 32 r1), <- (firstn_skipn 32 r2). congruence.
Qed.

Lemma token_halves_inj_lemma r1 r2 :
  length r1 = 64%nat -> length r2 = 64%nat ->
  selector_of E r1 = selector_of E r2 -> verifier_of E r1 = verifier_of E r2 -> r1 = r2.
Proof. intros _ _. apply token_halves_inj_gen. Qed.

(* what is stored decodes back to the hashes of the halves *)
Lemma token_stored_roundtrip raw :
  b64std_dec (selector_of E raw) = Some (sha C (half1 raw)) /\
  b64std_dec (verifier_of E raw) = Some (sha C (half2 raw)) /\
  b64url_dec (b64url_enc raw) = Some raw.
Proof. unfold selector_of, verifier_of. rewrite !b64std_dec_enc, b64url_dec_enc. auto. Qed.
End T1.

(* ---- T2 / T3: confirm ----------------------------------------------------------------------- *)
Section CF.
Variable E : env.
Notation C := (e_C E).
Notation vals := (values E).
Notation now := (o_now (e_O E)).

Definition confirmed (u : user) : user := u <| u_csel := [] |> <| u_cver := [] |> <| u_confirmed := true |>.

Lemma pres_invalid_confirm a : pres h_st (log a ;;; invalid_confirm_token E).
Proof. unfold invalid_confirm_token. apply pres_bind; [apply pres_log; exact _|intros; apply pres_redirect; exact _]. Qed.

Lemma confirm_get_cases h r h' :
  confirm_get E h = (r, h') ->
  h_st h' = h_st h \/
  exists raw u,
    b64url_dec (aget f_cnf vals) = Some raw /\ length raw = 64%nat /\
    ufind (fun u => beqb (u_csel u) (selector_of E raw)) (s_users (h_st h)) = Some u /\
    b64std_dec (u_cver u) = Some (sha C (half2 raw)) /\
    h_st h' = h_st h <| s_users := uput (u_pid u) (confirmed u) (s_users (h_st h)) |>.
Proof.
  intros Eq. unfold confirm_get in Eq.
  apply bind_inv in Eq as [(v & h1 & E1 & E2)|[(e & E1 & ->)|(E1 & ->)]];
    apply read_values_spec in E1 as [-> [Hv|Hv]]; try discriminate Hv; auto.
  inversion Hv; subst v; clear Hv. cbn beta zeta in E2.
  destruct (negb (valid _ _ vals)); [left; eapply pres_invalid_confirm; eauto|].
  destruct (b64url_dec (aget f_cnf vals)) as [raw|] eqn:Dec; [|left; eapply pres_invalid_confirm; eauto].
  destruct (Nat.eqb (length raw) 64) eqn:Len; cbn [negb] in E2; [|left; eapply pres_invalid_confirm; eauto].
  apply Nat.eqb_eq in Len.
  apply try_inv in E2 as [(x & h2 & L & NP & K)|(L & ->)].
  2:{ apply st_load_by_csel_spec in L. destruct L as (_ & _ & N & _). congruence. }
  apply st_load_by_csel_spec in L as (S2 & _ & _ & Hu & _).
  destruct x as [u|e|]; [|destruct e|congruence].
  - specialize (Hu u eq_refl).
    destruct (b64std_dec (u_cver u)) as [dbv|] eqn:Dv;
      [|left; rewrite <- S2; eapply pres_invalid_confirm; eauto].
    destruct (beqb (sha C (half2 raw)) dbv) eqn:Ver; cbn [negb] in K;
      [|left; rewrite <- S2; eapply pres_invalid_confirm; eauto].
    apply beqb_eq in Ver. subst dbv.
    apply bind_pres_inv in K as [(a & h3 & _ & S3 & K)|K]; [|left; congruence|apply pres_log; exact _].
    apply bind_inv in K as [(a' & h4 & K1 & K2)|[(e & K1 & ->)|(K1 & ->)]];
      apply st_save_spec in K1 as (_ & _ & _ & _ & [(e' & Hr & St)|(Hr & St)]); try discriminate Hr;
      try (left; congruence).
    right. exists raw, u. repeat split; auto.
    apply (pres_redirect E h_st) in K2. rewrite K2, St, S3, S2. reflexivity.
  - left. rewrite <- S2. eapply pres_invalid_confirm; eauto.
  - left. inversion K; subst. exact S2.
  - left. inversion K; subst. exact S2.
  - left. inversion K; subst. exact S2.
Qed.

(* any change to storage by a confirm request is exactly the confirmation of the account
   whose stored selector / verifier are the hashes of the two halves of the submitted token *)
Lemma confirm_accept_lemma h r h' :
  confirm_get E h = (r, h') -> h_st h' <> h_st h ->
  exists raw u,
    b64url_dec (aget f_cnf vals) = Some raw /\ length raw = 64%nat /\
    ufind (fun u => beqb (u_csel u) (selector_of E raw)) (s_users (h_st h)) = Some u /\
    b64std_dec (u_cver u) = Some (sha C (half2 raw)) /\
    s_users (h_st h') = uput (u_pid u) (u <| u_csel := [] |> <| u_cver := [] |> <| u_confirmed := true |>) (s_users (h_st h)) /\
    s_rm (h_st h') = s_rm (h_st h).
Proof.
  intros Eq Ch. destruct (confirm_get_cases _ _ _ Eq) as [U|(raw & u & A1 & A2 & A3 & A4 & A5)]; [contradiction|].
  exists raw, u. rewrite A5. repeat split; auto.
Qed.

(* a token that does not decode, has the wrong length, selects nobody, or whose second half
   does not hash to the stored verifier leaves storage as it was *)
Lemma confirm_reject_unchanged_lemma h r h' :
  confirm_get E h = (r, h') ->
  (forall raw u,
     b64url_dec (aget f_cnf vals) = Some raw -> length raw = 64%nat ->
     ufind (fun u => beqb (u_csel u) (selector_of E raw)) (s_users (h_st h)) = Some u ->
     b64std_dec (u_cver u) <> Some (sha C (half2 raw))) ->
  h_st h' = h_st h.
Proof.
  intros Eq N. destruct (confirm_get_cases _ _ _ Eq) as [U|(raw & u & A1 & A2 & A3 & A4 & _)]; [exact U|].
  exfalso. exact (N raw u A1 A2 A3 A4).
Qed.

Lemma confirm_reject_cases_lemma h r h' :
  confirm_get E h = (r, h') ->
  (b64url_dec (aget f_cnf vals) = None \/
   (exists raw, b64url_dec (aget f_cnf vals) = Some raw /\
      (length raw <> 64%nat \/
       ufind (fun u => beqb (u_csel u) (selector_of E raw)) (s_users (h_st h)) = None \/
       exists u, ufind (fun u => beqb (u_csel u) (selector_of E raw)) (s_users (h_st h)) = Some u /\
                 b64std_dec (u_cver u) <> Some (sha C (half2 raw))))) ->
  h_st h' = h_st h.
Proof.
  intros Eq Hc. apply (confirm_reject_unchanged_lemma _ _ _ Eq). intros raw u D Ln F V.
  destruct Hc as [Hc|(raw' & D' & Hc)]; [congruence|].
  assert (raw' = raw) by congruence. subst raw'.
  destruct Hc as [Hc|[Hc|(u' & F' & Hc)]]; [contradiction|congruence|].
  assert (u' = u) by congruence. subst u'. contradiction.
Qed.

(* ---- T4: recover end ------------------------------------------------------------------------ *)
Definition recovered (u : user) (pw : bytes) : user :=
  u <| u_password := pwhash C pw |> <| u_rsel := [] |> <| u_rver := [] |> <| u_rexp := now |>.

Lemma pres_invalid_recover a : pres h_st (log a ;;; invalid_recover_token E).
Proof. unfold invalid_recover_token. apply pres_bind; [apply pres_log; exact _|intros; apply pres_respond; exact _]. Qed.

Lemma hash_fail_never_ok {A} h (a : A) h1 : backend (e_O E) KHash (fail ErrOther) h <> (Ok a, h1).
Proof.
  intros Eq. destruct (backend_inv _ _ _ _ _ _ Eq) as [(e & Hr & _)|(h2 & _ & _ & _ & _ & _ & _ & _ & Eb)];
    [discriminate Hr|inversion Eb].
Qed.

(* Stated for the FINAL state of the request, through every event hook that any configuration
   runs after the Save (remember reset, lock bookkeeping, confirm check, 2FA hijack, expire):
   those only change the lock triple of the record and the remember table. *)
Lemma recover_end_cases h r h' :
  recover_end_post E h = (r, h') ->
  h_st h' = h_st h \/
  exists raw u,
    b64url_dec (aget f_token vals) = Some raw /\ length raw = 64%nat /\
    ufind (fun u => beqb (u_rsel u) (selector_of E raw)) (s_users (h_st h)) = Some u /\
    ~ (u_rexp u < now) /\
    b64std_dec (u_rver u) = Some (sha C (half2 raw)) /\
    valid [password_rule] pw_pairs vals = true /\ pw_dom (aget f_password vals) /\
    (exists su, ulookup (u_pid u) (s_users (h_st h')) = Some su /\
                upto_lock (recovered u (aget f_password vals)) su) /\
    (forall p, p <> u_pid u -> ulookup p (s_users (h_st h')) = ulookup p (s_users (h_st h))).
Proof.
  intros Eq. unfold recover_end_post in Eq.
  apply bind_inv in Eq as [(v & h1 & E1 & E2)|[(e & E1 & ->)|(E1 & ->)]];
    apply read_values_spec in E1 as [-> [Hv|Hv]]; try discriminate Hv; auto.
  inversion Hv; subst v; clear Hv. cbn beta zeta in E2.
  destruct (valid [password_rule] pw_pairs vals) eqn:V; cbn [negb] in E2.
  2:{ left. revert E2. apply pres_bind; [apply pres_log; exact _|intros; apply pres_respond; exact _]. }
  destruct (b64url_dec (aget f_token vals)) as [raw|] eqn:Dec; [|left; eapply pres_invalid_recover; eauto].
  destruct (Nat.eqb (length raw) 64) eqn:Len; cbn [negb] in E2; [|left; eapply pres_invalid_recover; eauto].
  apply Nat.eqb_eq in Len.
  apply try_inv in E2 as [(x & h2 & L & NP & K)|(L & ->)].
  2:{ apply st_load_by_rsel_spec in L. destruct L as (_ & _ & N & _). congruence. }
  apply st_load_by_rsel_spec in L as (S2 & _ & _ & Hu).
  destruct x as [u|e|]; [|destruct e|congruence];
    try (left; rewrite <- S2; eapply pres_invalid_recover; eauto; fail);
    try (left; inversion K; subst; exact S2; fail).
  specialize (Hu u eq_refl).
  destruct (u_rexp u <? now) eqn:Exp; [left; rewrite <- S2; eapply pres_invalid_recover; eauto|].
  apply Z.ltb_ge in Exp.
  destruct (b64std_dec (u_rver u)) as [dbv|] eqn:Dv; [|left; rewrite <- S2; eapply pres_invalid_recover; eauto].
  destruct (beqb (sha C (half2 raw)) dbv) eqn:Ver; cbn [negb] in K;
    [|left; rewrite <- S2; eapply pres_invalid_recover; eauto].
  apply beqb_eq in Ver. subst dbv.
  apply bind_pres_inv in K as [(a & h3 & _ & S3 & K)|K]; [|left; congruence|apply pres_st_set_cuser].
  destruct (72 <? length (aget f_password vals))%nat eqn:PL.
  { apply bind_pres_inv in K as [(a1 & h4 & K1 & _)|K]; [|left; congruence|apply pres_backend; [exact _|apply pres_fail]].
    exfalso. exact (hash_fail_never_ok _ _ _ K1). }
  apply Nat.ltb_ge in PL.
  apply bind_pres_inv in K as [(a1 & h4 & _ & S4 & K)|K]; [|left; congruence|apply pres_ret].
  apply bind_pres_inv in K as [(pass & h5 & K1 & S5 & K)|K]; [|left; congruence|apply pres_backend; [exact _|apply pres_ret]].
  pose proof (hash_spec E _ _ _ _ K1) as (_ & _ & _ & Hp). specialize (Hp pass eq_refl). subst pass. clear K1.
  cbn beta zeta in K.
  change (u <| u_password := pwhash C (aget f_password vals) |> <| u_rsel := [] |> <| u_rver := [] |> <| u_rexp := now |>)
    with (recovered u (aget f_password vals)) in K.
  set (u' := recovered u (aget f_password vals)) in *.
  apply bind_inv in K as [(a2 & h6 & K1 & K)|[(e & K1 & ->)|(K1 & ->)]]; try (inversion K1; fail).
  inversion K1; subst a2 h6; clear K1.
  apply bind_inv in K as [(a3 & h7 & K1 & K)|[(e & K1 & ->)|(K1 & ->)]];
    apply st_save_spec in K1 as (_ & _ & _ & Cu & [(e' & Hr & St)|(Hr & St)]); try discriminate Hr;
    try (left; rewrite St; simpl; congruence).
  simpl in St, Cu.
  assert (I7 : hinv (u_pid u) (upto_lock u') (s_users (h_st h)) h7).
  { split; [exists u'; rewrite Cu; repeat split; auto; apply upto_lock_refl|].
    rewrite St. simpl. change (u_pid u') with (u_pid u). rewrite S5, S4, S3, S2. split.
    - exists u'. rewrite ulookup_uput_eq. split; [reflexivity|apply upto_lock_refl].
    - intros p Np. apply ulookup_uput_neq. exact Np. }
  assert (I' : hinv (u_pid u) (upto_lock u') (s_users (h_st h)) h').
  { revert I7 K. generalize h7 r h'.
    change (keeps_inv (u_pid u) (upto_lock u') (s_users (h_st h))
              (_ <- fire E EvAfterRecoverEnd false ;;
               (if c_recover_login (e_cfg E)
                then handled <- fire E EvBeforeAuth false ;;
                     (if handled then ret tt
                      else handled0 <- fire E EvBeforeHijack false ;;
                           (if handled0 then ret tt
                            else put_session k_uid (u_pid u') ;;;
                                 handled1 <- fire E EvAfterAuth false ;;
                                 (if handled1 then ret tt else redirect E (ro_ok (p_recover_ok_of (e_cfg E))))))
                else redirect E (ro_ok (p_recover_ok_of (e_cfg E)))))).
    pose proof (upto_lock_lock u') as QL.
    assert (KR : forall ro, keeps_inv (u_pid u) (upto_lock u') (s_users (h_st h)) (redirect E ro))
      by (intros; apply keeps_of_pres, pres_redirect; exact _).
    assert (KT : keeps_inv (u_pid u) (upto_lock u') (s_users (h_st h)) (ret tt))
      by (apply keeps_of_pres, pres_ret).
    apply keeps_bind; [apply keeps_fire; [exact QL|discriminate]|intros _].
    destruct (c_recover_login (e_cfg E)); [|apply KR].
    apply keeps_bind; [apply keeps_fire; [exact QL|discriminate]|intros hd1].
    destruct hd1; [exact KT|].
    apply keeps_bind; [apply keeps_fire; [exact QL|discriminate]|intros hd2].
    destruct hd2; [exact KT|].
    apply keeps_bind; [apply keeps_of_pres, pres_put_session; exact _|intros _].
    apply keeps_bind; [apply keeps_fire; [exact QL|discriminate]|intros hd3].
    destruct hd3; [exact KT|apply KR]. }
  destruct I' as (_ & Su & Fr).
  right. exists raw, u. split; [reflexivity|]. split; [exact Len|]. split; [exact Hu|].
  split; [lia|]. split; [exact Dv|]. split; [reflexivity|]. split; [exact PL|]. split; [exact Su|exact Fr].
Qed.

Lemma upto_lock_recovered u pw su :
  upto_lock (recovered u pw) su ->
  u_pid su = u_pid u /\ u_password su = pwhash C pw /\ u_rsel su = [] /\ u_rver su = [] /\ u_rexp su = now /\
  u_email su = u_email u /\ u_confirmed su = u_confirmed u /\ u_otps su = u_otps u.
Proof. intros [s ->]. repeat split. Qed.

Lemma recover_accept_lemma h r h' :
  recover_end_post E h = (r, h') -> s_users (h_st h') <> s_users (h_st h) ->
  exists raw u su,
    b64url_dec (aget f_token vals) = Some raw /\ length raw = 64%nat /\
    ufind (fun u => beqb (u_rsel u) (selector_of E raw)) (s_users (h_st h)) = Some u /\
    ~ (u_rexp u < now) /\
    b64std_dec (u_rver u) = Some (sha C (half2 raw)) /\
    ulookup (u_pid u) (s_users (h_st h')) = Some su /\
    u_password su = pwhash C (aget f_password vals) /\ u_rsel su = [] /\ u_rver su = [] /\
    (forall p, p <> u_pid u -> ulookup p (s_users (h_st h')) = ulookup p (s_users (h_st h))).
Proof.
  intros Eq Ch.
  destruct (recover_end_cases _ _ _ Eq) as [U|(raw & u & A1 & A2 & A3 & A4 & A5 & _ & _ & (su & B1 & B2) & Fr)].
  - rewrite U in Ch. contradiction.
  - apply upto_lock_recovered in B2 as (_ & P1 & P2 & P3 & _).
    exists raw, u, su. repeat split; auto.
Qed.

Lemma recover_reject_unchanged_lemma h r h' :
  recover_end_post E h = (r, h') ->
  (forall raw u,
     b64url_dec (aget f_token vals) = Some raw -> length raw = 64%nat ->
     ufind (fun u => beqb (u_rsel u) (selector_of E raw)) (s_users (h_st h)) = Some u ->
     ~ (u_rexp u < now) ->
     b64std_dec (u_rver u) <> Some (sha C (half2 raw))) ->
  h_st h' = h_st h.
Proof.
  intros Eq N. destruct (recover_end_cases _ _ _ Eq) as [U|(raw & u & A1 & A2 & A3 & A4 & A5 & _)]; [exact U|].
  exfalso. exact (N raw u A1 A2 A3 A4 A5).
Qed.
End CF.

(* ---- T5: password change -------------------------------------------------------------------- *)
Section PW.
Variable C : crypto.
Hypothesis laws : crypto_laws C.

Lemma password_change_lemma :
  (forall p q, pw_dom p -> pw_dom q -> p <> q -> pwcheck C (pwhash C p) q = false) /\
  (forall p, pw_dom p -> pwcheck C (pwhash C p) p = true).
Proof.
  split.
  - intros p q Dp Dq N. destruct (pwcheck C (pwhash C p) q) eqn:Ck; auto.
    apply (pw_ok C laws p q Dp Dq) in Ck. contradiction.
  - intros p Dp. apply (pw_ok C laws p p Dp Dp). reflexivity.
Qed.

Lemma admin_update_password_lemma cfg O pid pw h h' :
  keyed (h_st h) ->
  admin C cfg O (AUpdatePassword pid pw) h = (Ok tt, h') ->
  pw_dom pw /\
  exists u, ulookup pid (s_users (h_st h)) = Some u /\
    ulookup pid (s_users (h_st h')) = Some (u <| u_password := pwhash C pw |>) /\
    rmlookup pid (s_rm (h_st h')) = [] /\
    (forall p, p <> pid ->
       ulookup p (s_users (h_st h')) = ulookup p (s_users (h_st h)) /\
       rmlookup p (s_rm (h_st h')) = rmlookup p (s_rm (h_st h))).
Proof.
  intros Kd Eq. set (E := mkEnv C cfg O null_request [] []).
  unfold admin in Eq.
  apply bind_inv in Eq as [(u & h1 & E1 & E2)|[(e & _ & Hr)|(_ & Hr)]]; try discriminate Hr.
  pose proof (st_load_spec E _ _ _ _ E1) as (_ & _ & _ & S1 & _ & _ & Hu & _).
  specialize (Hu u eq_refl). pose proof (Kd _ _ Hu) as Pu.
  destruct (72 <? length pw)%nat eqn:PL.
  { apply bind_inv in E2 as [(a & h2 & K1 & _)|[(e & _ & Hr)|(_ & Hr)]]; try discriminate Hr.
    exfalso. exact (hash_fail_never_ok E _ _ _ K1). }
  apply Nat.ltb_ge in PL.
  apply bind_inv in E2 as [(a & h2 & K1 & E2)|[(e & _ & Hr)|(_ & Hr)]]; try discriminate Hr.
  inversion K1; subst a h2; clear K1.
  apply bind_inv in E2 as [(pass & h3 & K1 & E2)|[(e & _ & Hr)|(_ & Hr)]]; try discriminate Hr.
  pose proof (hash_spec E _ _ _ _ K1) as (S3 & _ & _ & Hp). specialize (Hp pass eq_refl). subst pass. clear K1.
  apply bind_inv in E2 as [(a & h4 & K1 & E2)|[(e & _ & Hr)|(_ & Hr)]]; try discriminate Hr.
  apply (st_save_spec E) in K1 as (_ & _ & _ & _ & [(e' & Hr & _)|(_ & S4)]); [discriminate Hr|].
  apply (st_del_rm_spec E) in E2 as [(e' & Hr & _)|(_ & S5)]; [discriminate Hr|].
  split; [exact PL|]. exists u. split; [exact Hu|].
  rewrite S5, S4, S3, S1. simpl. change (u_pid (u <| u_password := pwhash C pw |>)) with (u_pid u). rewrite Pu.
  repeat split.
  - apply ulookup_uput_eq.
  - apply rmlookup_rmput_eq.
  - apply ulookup_uput_neq. assumption.
  - apply rmlookup_rmput_neq. assumption.
Qed.
End PW.

(* after a recover-end request that changed the user table, the stored hash of that account
   verifies the submitted password and no other one *)
Lemma recover_sets_password_lemma (E : env) h r h' :
  crypto_laws (e_C E) ->
  recover_end_post E h = (r, h') -> s_users (h_st h') <> s_users (h_st h) ->
  exists raw u su,
    b64url_dec (aget f_token (values E)) = Some raw /\
    ufind (fun u => beqb (u_rsel u) (selector_of E raw)) (s_users (h_st h)) = Some u /\
    ulookup (u_pid u) (s_users (h_st h')) = Some su /\
    u_password su = pwhash (e_C E) (aget f_password (values E)) /\
    pwcheck (e_C E) (u_password su) (aget f_password (values E)) = true /\
    (forall q, pw_dom q -> q <> aget f_password (values E) -> pwcheck (e_C E) (u_password su) q = false).
Proof.
  intros laws Eq Ch.
  destruct (recover_end_cases _ _ _ _ Eq) as [U|(raw & u & A1 & A2 & A3 & A4 & A5 & _ & Dm & (su & B1 & B2) & Fr)].
  - rewrite U in Ch. contradiction.
  - apply upto_lock_recovered in B2 as (_ & P1 & _).
    destruct (password_change_lemma _ laws) as [Hne Heq].
    exists raw, u, su. rewrite P1. repeat split; auto.
Qed.
