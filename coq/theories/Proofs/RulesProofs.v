(* Proofs for C19: the rule evaluator of Model/Rules.v against the declarative reading of
   Spec/C19.v, additivity of the class counts, and the confirm-field check. *)
From AB Require Import Model.Rules Spec.C19.
Open Scope Z_scope.

Lemma count_nonneg : forall c l, 0 <= count c l.
Proof. intros c l. unfold count. apply Nat2Z.is_nonneg. Qed.

Lemma c19_count_app_lemma : forall c a b, count c (a ++ b) = count c a + count c b.
Proof.
  intros c a b. unfold count.
  rewrite filter_app, app_length, Nat2Z.inj_add. reflexivity.
Qed.

(* list plumbing *)
Lemma app_nil_iff : forall (A : Type) (l1 l2 : list A), l1 ++ l2 = [] <-> l1 = [] /\ l2 = [].
Proof.
  intros A l1 l2. split.
  - intros H. apply app_eq_nil in H. exact H.
  - intros [H1 H2]. subst l1 l2. reflexivity.
Qed.

Lemma if_err_nil : forall (A : Type) (b : bool) (e : A), (if b then [e] else []) = [] <-> b = false.
Proof. intros A b e. destruct b; split; intros H; try reflexivity; discriminate H. Qed.

Lemma if_ok_nil : forall (A : Type) (b : bool) (e : A), (if b then [] else [e]) = [] <-> b = true.
Proof. intros A b e. destruct b; split; intros H; try reflexivity; discriminate H. Qed.

(* the individual tests *)
Lemma blank_test : forall (req blank : bool) (ln : Z),
  req && ((ln =? 0) || blank) = false <-> (req = true -> ln <> 0 /\ blank = false).
Proof.
  intros req blank ln.
  destruct req; cbn [andb].
  - destruct (ln =? 0) eqn:E0; cbn [orb].
    + apply Z.eqb_eq in E0. split.
      * intros H. discriminate H.
      * intros H. destruct (H eq_refl) as [Hn _]. contradiction.
    + apply Z.eqb_neq in E0. split.
      * intros H _. split; [exact E0 | exact H].
      * intros H. destruct (H eq_refl) as [_ Hb]. exact Hb.
  - split.
    + intros _ H. discriminate H.
    + intros _. reflexivity.
Qed.

Lemma length_test : forall mn mx ln : Z,
  ((0 <? mn) && (ln <? mn)) || ((0 <? mx) && (mx <? ln)) = false <->
  ((0 < mn -> mn <= ln) /\ (0 < mx -> ln <= mx)).
Proof.
  intros mn mx ln.
  destruct (Z.ltb_spec 0 mn) as [H1|H1];
  destruct (Z.ltb_spec ln mn) as [H2|H2];
  destruct (Z.ltb_spec 0 mx) as [H3|H3];
  destruct (Z.ltb_spec mx ln) as [H4|H4];
  cbn [andb orb]; split; intros H; try reflexivity; try discriminate H;
  try (split; intros H0; lia); destruct H as [Ha Hb]; lia.
Qed.

Lemma ws_test : forall (allow : bool) (c : Z), 0 <= c ->
  negb allow && (0 <? c) = false <-> (allow = false -> c = 0).
Proof.
  intros allow c Hc.
  destruct allow; cbn [negb andb].
  - split.
    + intros _ H. discriminate H.
    + intros _. reflexivity.
  - destruct (Z.ltb_spec 0 c) as [H1|H1]; split.
    + intros H. discriminate H.
    + intros H. specialize (H eq_refl). lia.
    + intros _ _. lia.
    + intros _. reflexivity.
Qed.

Lemma c19_policy_lemma : forall r s cls, rule_errors r s cls = [] <-> rule_holds r s cls.
Proof.
  intros r s cls. unfold rule_errors, rule_holds. cbv zeta.
  pose proof (count_nonneg CSpace cls) as Hsp.
  destruct (r_required r && ((Z.of_nat (length s) =? 0) || is_blank s)) eqn:EA.
  - split.
    + intros H. discriminate H.
    + intros [H _]. apply blank_test in H. rewrite H in EA. discriminate EA.
  - pose proof (proj1 (blank_test _ _ _) EA) as EB.
    rewrite !app_nil_iff, if_ok_nil, !if_err_nil, length_test, !Z.ltb_ge, (ws_test _ _ Hsp).
    tauto.
Qed.

Lemma c19_confirm_lemma : forall vals main conf,
  confirm_errors vals [(main, conf)] = [] <->
  (aget main vals = [] \/ (aget conf vals <> [] /\ aget conf vals = aget main vals)).
Proof.
  intros vals main conf. cbn [confirm_errors]. rewrite app_nil_r.
  generalize (aget main vals) (aget conf vals). intros m c.
  destruct m as [|x m]; cbn [bempty].
  - split.
    + intros _. left. reflexivity.
    + intros _. reflexivity.
  - destruct c as [|y c]; cbn [bempty orb].
    + split.
      * intros H. discriminate H.
      * intros [H|[H _]]; [discriminate H | contradiction H; reflexivity].
    + destruct (beqb (x :: m) (y :: c)) eqn:E; cbn [negb].
      * apply beqb_eq in E. split.
        -- intros _. right. split; [intros H; discriminate H | symmetry; exact E].
        -- intros _. reflexivity.
      * apply beqb_neq in E. split.
        -- intros H. discriminate H.
        -- intros [H|[_ H]]; [discriminate H | contradiction E; symmetry; exact H].
Qed.
