(* C20, sequential core: a request touches only the accounts it names, and its outcome depends
   only on them.

   One relational Hoare logic [J F m R] over a set of account identifiers F ("footprint"):
   run m from two states h1 h2 that
     - are well formed ([wf]: the user table is well filed, the context user and the context
       pid, if set, are in F),
     - carry the same request-local data ([rest]: pending events, first write, outboxes, logs,
       context user / pid, backend-call counter, randomness) and
     - [agree] on the records and remember tokens of every pid in F (anything may differ outside);
   then both runs return the SAME result, end in states that are again well formed, have the
   same request-local data and agree on F, and the first run has left every record and token
   list outside F exactly as it was ([frame]).
   Taking h2 := h1 gives the store footprint; the general case gives outcome independence. *)
From AB Require Import World.Handlers Proofs.EvLogic Proofs.Neutral Proofs.MonadInv Proofs.StoreLogic
  Proofs.TwoFactorProofs.
Open Scope Z_scope.

(* everything in the handler state except storage *)
Definition rest (h : hst) :=
  (h_sev h, h_cev h, h_out h, h_mails h, h_smss h, h_logs h, h_cuser h, h_cpid h,
   h_ncalls h, h_calls h, h_fresh h, h_starved h).

Lemma rest_inv h1 h2 : rest h1 = rest h2 ->
  h_sev h1 = h_sev h2 /\ h_cev h1 = h_cev h2 /\ h_out h1 = h_out h2 /\ h_mails h1 = h_mails h2 /\
  h_smss h1 = h_smss h2 /\ h_logs h1 = h_logs h2 /\ h_cuser h1 = h_cuser h2 /\ h_cpid h1 = h_cpid h2 /\
  h_ncalls h1 = h_ncalls h2 /\ h_calls h1 = h_calls h2 /\ h_fresh h1 = h_fresh h2 /\ h_starved h1 = h_starved h2.
Proof. unfold rest. intros H. injection H. intros. repeat split; assumption. Qed.

Ltac rest_tac_n h1 h2 :=
  let Hr := fresh "Hr" in
  intros h1 h2 Hr; apply rest_inv in Hr;
  destruct Hr as (?R1 & ?R2 & ?R3 & ?R4 & ?R5 & ?R6 & ?R7 & ?R8 & ?R9 & ?R10 & ?R11 & ?R12).
Ltac rest_tac := let a := fresh "ha" in let b := fresh "hb" in rest_tac_n a b.

Ltac jsplit := split; [|split; [|split; [|split; [|split]]]].

Section FP.
Variable F : bytes -> Prop.

Definition agree (s1 s2 : storage) : Prop :=
  forall p, F p -> ulookup p (s_users s1) = ulookup p (s_users s2) /\
                   rmlookup p (s_rm s1) = rmlookup p (s_rm s2).
Definition frame (s s' : storage) : Prop :=
  forall p, ~ F p -> ulookup p (s_users s') = ulookup p (s_users s) /\
                     rmlookup p (s_rm s') = rmlookup p (s_rm s).
Definition wf (h : hst) : Prop :=
  filed (h_st h) /\ (forall cu, h_cuser h = Some cu -> F (u_pid cu)) /\ (forall p, h_cpid h = Some p -> F p).
Definition sim (h1 h2 : hst) : Prop := rest h1 = rest h2 /\ agree (h_st h1) (h_st h2).

Definition Jat {A} (h1 h2 : hst) (m : M A) (R : A -> Prop) : Prop :=
  forall r1 h1' r2 h2', wf h1 -> wf h2 -> sim h1 h2 -> m h1 = (r1, h1') -> m h2 = (r2, h2') ->
    r1 = r2 /\ wf h1' /\ wf h2' /\ sim h1' h2' /\ frame (h_st h1) (h_st h1') /\ forall a, r1 = Ok a -> R a.
Definition J {A} (m : M A) (R : A -> Prop) : Prop := forall h1 h2, Jat h1 h2 m R.

Lemma frame_refl s : frame s s.
Proof. intros p _. auto. Qed.
Lemma frame_eq s s' : s' = s -> frame s s'.
Proof. intros ->. apply frame_refl. Qed.
Lemma frame_trans s1 s2 s3 : frame s1 s2 -> frame s2 s3 -> frame s1 s3.
Proof. intros A B p N. destruct (A p N) as [A1 A2]. destruct (B p N) as [B1 B2]. split; congruence. Qed.

Lemma wf_same h h' : h_st h' = h_st h -> h_cuser h' = h_cuser h -> h_cpid h' = h_cpid h -> wf h -> wf h'.
Proof. intros A B C W. unfold wf. rewrite A, B, C. exact W. Qed.
Lemma sim_same h1 h2 h1' h2' :
  rest h1' = rest h2' -> h_st h1' = h_st h1 -> h_st h2' = h_st h2 -> sim h1 h2 -> sim h1' h2'.
Proof. intros R A B [_ Ag]. split; [exact R|]. rewrite A, B. exact Ag. Qed.

Lemma Jat_weaken {A} h1 h2 (m : M A) (R R' : A -> Prop) : Jat h1 h2 m R -> (forall a, R a -> R' a) -> Jat h1 h2 m R'.
Proof.
  intros Hm W r1 k1 r2 k2 W1 W2 S E1 E2. destruct (Hm _ _ _ _ W1 W2 S E1 E2) as (A1 & A2 & A3 & A4 & A5 & A6).
  jsplit; auto.
Qed.
Lemma J_weaken {A} (m : M A) (R R' : A -> Prop) : J m R -> (forall a, R a -> R' a) -> J m R'.
Proof. intros Hm W h1 h2. eapply Jat_weaken; [apply Hm|exact W]. Qed.
Lemma J_top {A} (m : M A) R : J m R -> J m (fun _ => True).
Proof. intros Hm. apply (J_weaken m R); auto. Qed.

Lemma J_ret {A} (a : A) (R : A -> Prop) : R a -> J (ret a) R.
Proof.
  intros Ha h1 h2 r1 k1 r2 k2 W1 W2 S E1 E2. inversion E1; inversion E2; subst.
  jsplit; auto; [apply frame_refl|]. intros a' H. inversion H; subst. exact Ha.
Qed.
Lemma J_ret_top {A} (a : A) : J (ret a) (fun _ => True).
Proof. apply J_ret. exact I. Qed.
Lemma J_fail {A} e (R : A -> Prop) : J (fail e) R.
Proof.
  intros h1 h2 r1 k1 r2 k2 W1 W2 S E1 E2. inversion E1; inversion E2; subst.
  jsplit; auto; [apply frame_refl|]. intros a' H. discriminate H.
Qed.
Lemma J_panic {A} (R : A -> Prop) : J panic R.
Proof.
  intros h1 h2 r1 k1 r2 k2 W1 W2 S E1 E2. inversion E1; inversion E2; subst.
  jsplit; auto; [apply frame_refl|]. intros a' H. discriminate H.
Qed.

Lemma Jat_bind {A B} h1 h2 (m : M A) (f : A -> M B) R R' :
  Jat h1 h2 m R -> (forall a, R a -> J (f a) R') -> Jat h1 h2 (bind m f) R'.
Proof.
  intros Hm Hf r1 k1 r2 k2 W1 W2 S E1 E2. unfold bind in E1, E2.
  destruct (m h1) as [x1 j1] eqn:M1. destruct (m h2) as [x2 j2] eqn:M2.
  destruct (Hm _ _ _ _ W1 W2 S M1 M2) as (Ex & W1' & W2' & S' & Fr & Ra). subst x2.
  destruct x1 as [a|e|].
  - destruct (Hf a (Ra a eq_refl) j1 j2 _ _ _ _ W1' W2' S' E1 E2) as (Er & W1'' & W2'' & S'' & Fr' & Rb).
    jsplit; auto. eapply frame_trans; eauto.
  - inversion E1; inversion E2; subst. jsplit; auto. intros a H. discriminate H.
  - inversion E1; inversion E2; subst. jsplit; auto. intros a H. discriminate H.
Qed.
Lemma J_bind {A B} (m : M A) (f : A -> M B) R R' :
  J m R -> (forall a, R a -> J (f a) R') -> J (bind m f) R'.
Proof. intros Hm Hf h1 h2. eapply Jat_bind; [apply Hm|exact Hf]. Qed.

Lemma Jat_try {A B} h1 h2 (m : M A) (f : res A -> M B) R R' :
  Jat h1 h2 m R -> (forall a, R a -> J (f (Ok a)) R') -> (forall e, J (f (Err e)) R') -> Jat h1 h2 (try m f) R'.
Proof.
  intros Hm Hok Herr r1 k1 r2 k2 W1 W2 S E1 E2. unfold try in E1, E2.
  destruct (m h1) as [x1 j1] eqn:M1. destruct (m h2) as [x2 j2] eqn:M2.
  destruct (Hm _ _ _ _ W1 W2 S M1 M2) as (Ex & W1' & W2' & S' & Fr & Ra). subst x2.
  destruct x1 as [a|e|].
  - destruct (Hok a (Ra a eq_refl) j1 j2 _ _ _ _ W1' W2' S' E1 E2) as (Er & W1'' & W2'' & S'' & Fr' & Rb).
    jsplit; auto. eapply frame_trans; eauto.
  - destruct (Herr e j1 j2 _ _ _ _ W1' W2' S' E1 E2) as (Er & W1'' & W2'' & S'' & Fr' & Rb).
    jsplit; auto. eapply frame_trans; eauto.
  - inversion E1; inversion E2; subst. jsplit; auto. intros a H. discriminate H.
Qed.
Lemma J_try {A B} (m : M A) (f : res A -> M B) R R' :
  J m R -> (forall a, R a -> J (f (Ok a)) R') -> (forall e, J (f (Err e)) R') -> J (try m f) R'.
Proof. intros Hm Hok Herr h1 h2. eapply Jat_try; [apply Hm|exact Hok|exact Herr]. Qed.

(* a computation that neither reads nor writes storage, the context user or the context pid *)
Lemma J_restfun {A} (m : M A) :
  (forall h, h_st (snd (m h)) = h_st h /\ h_cuser (snd (m h)) = h_cuser h /\ h_cpid (snd (m h)) = h_cpid h) ->
  (forall h1 h2, rest h1 = rest h2 -> fst (m h1) = fst (m h2) /\ rest (snd (m h1)) = rest (snd (m h2))) ->
  J m (fun _ => True).
Proof.
  intros P1 P2 h1 h2 r1 k1 r2 k2 W1 W2 S E1 E2.
  destruct (P1 h1) as (A1 & A2 & A3). destruct (P1 h2) as (B1 & B2 & B3).
  destruct (P2 h1 h2 (proj1 S)) as (C1 & C2). rewrite E1 in *. rewrite E2 in *. simpl in *.
  jsplit; auto.
  - eapply wf_same; eauto.
  - eapply wf_same; eauto.
  - eapply sim_same; eauto.
  - apply frame_eq. exact A1.
Qed.

Lemma J_modify f :
  (forall h, h_st (f h) = h_st h /\ h_cuser (f h) = h_cuser h /\ h_cpid (f h) = h_cpid h) ->
  (forall h1 h2, rest h1 = rest h2 -> rest (f h1) = rest (f h2)) ->
  J (modify f) (fun _ => True).
Proof. intros P1 P2. apply J_restfun; [exact P1|]. intros h1 h2 Hr. simpl. split; [reflexivity|auto]. Qed.

Ltac jmod := apply J_modify; [intros h; simpl; auto|rest_tac; unfold rest; simpl; congruence].

Lemma J_put_session k v : J (put_session k v) (fun _ => True). Proof. unfold put_session. jmod. Qed.
Lemma J_del_session k : J (del_session k) (fun _ => True). Proof. unfold del_session. jmod. Qed.
Lemma J_delall_session wl : J (delall_session wl) (fun _ => True). Proof. unfold delall_session. jmod. Qed.
Lemma J_put_cookie k v : J (put_cookie k v) (fun _ => True). Proof. unfold put_cookie. jmod. Qed.
Lemma J_del_cookie k : J (del_cookie k) (fun _ => True). Proof. unfold del_cookie. jmod. Qed.
Lemma J_log a : J (log a) (fun _ => True). Proof. unfold log. jmod. Qed.
Lemma J_write_resp r : J (write_resp r) (fun _ => True).
Proof.
  unfold write_resp. apply J_modify.
  - intros h. destruct (h_out h); simpl; auto.
  - rest_tac_n ha hb. rewrite R3. destruct (h_out hb) eqn:Ho; unfold rest; simpl; congruence.
Qed.
Lemma J_fresh n : J (fresh n) (fun _ => True).
Proof.
  apply J_restfun.
  - intros h. unfold fresh. destruct (take_chunk n (h_fresh h)) as [[c t]|]; simpl; auto.
  - rest_tac_n ha hb. unfold fresh. rewrite R11. destruct (take_chunk n (h_fresh hb)) as [[c t]|] eqn:Ht; unfold rest; simpl; split; congruence.
Qed.

(* ---- backend calls ---------------------------------------------------------------------------- *)
Definition tick (k : callkind) (h : hst) : hst := h <| h_ncalls := S (h_ncalls h) |> <| h_calls := k :: h_calls h |>.

Lemma wf_tick k h : wf h -> wf (tick k h).
Proof. apply wf_same; reflexivity. Qed.
Lemma sim_tick k h1 h2 : sim h1 h2 -> sim (tick k h1) (tick k h2).
Proof.
  intros S. apply (sim_same h1 h2); [|reflexivity|reflexivity|exact S].
  destruct S as [Hr _]. revert Hr. generalize h1 h2. rest_tac. unfold rest, tick. simpl. congruence.
Qed.

Lemma Jat_backend {A} O k (body : M A) R h1 h2 :
  Jat (tick k h1) (tick k h2) body R -> Jat h1 h2 (backend O k body) R.
Proof.
  intros Hb r1 k1 r2 k2 W1 W2 S E1 E2. unfold backend in E1, E2.
  assert (N : h_ncalls h1 = h_ncalls h2) by (destruct (rest_inv _ _ (proj1 S)); tauto).
  cbv zeta in E1, E2. fold (tick k h1) in E1. fold (tick k h2) in E2. rewrite N in E1.
  destruct (fault_at (h_ncalls h2) (o_faults O)) as [[|]|].
  - inversion E1; inversion E2; subst. jsplit; auto using wf_tick, sim_tick; [apply frame_refl|intros a H; discriminate H].
  - inversion E1; inversion E2; subst. jsplit; auto using wf_tick, sim_tick; [apply frame_refl|intros a H; discriminate H].
  - exact (Hb _ _ _ _ (wf_tick k _ W1) (wf_tick k _ W2) (sim_tick k _ _ S) E1 E2).
Qed.
Lemma J_backend {A} O k (body : M A) R : J body R -> J (backend O k body) R.
Proof. intros Hb h1 h2. apply Jat_backend. apply Hb. Qed.

(* reading the record of a pid of the footprint *)
Lemma J_read_user {A} pid (m : M A) (g : option user -> res A) (R : A -> Prop) :
  F pid -> (forall h, m h = (g (ulookup pid (s_users (h_st h))), h)) ->
  (forall o a, (forall u, o = Some u -> u_pid u = pid) -> g o = Ok a -> R a) -> J m R.
Proof.
  intros Hp Hm Hg h1 h2 r1 k1 r2 k2 W1 W2 S E1 E2. rewrite Hm in E1, E2.
  destruct (proj2 S pid Hp) as [Eu _]. rewrite Eu in E1. inversion E1; inversion E2; subst.
  jsplit; auto; [apply frame_refl|]. intros a Ha. apply (Hg _ _ (fun u Hu => filed_keyed _ (proj1 W2) _ _ Hu) Ha).
Qed.

Lemma J_st_load O pid : F pid -> J (st_load O pid) (fun u => F (u_pid u)).
Proof.
  intros Hp. unfold st_load. apply J_backend.
  apply (J_read_user pid _ (fun o => match o with Some u => Ok u | None => Err ErrUserNotFound end)); [exact Hp| |].
  - intros h. destruct (ulookup pid (s_users (h_st h))); reflexivity.
  - intros o a Ho Ha. destruct o; inversion Ha; subst. rewrite (Ho a eq_refl). exact Hp.
Qed.

Lemma J_save_body u :
  F (u_pid u) ->
  J (modify (fun h => h <| h_st := h_st h <| s_users := uput (u_pid u) u (s_users (h_st h)) |> |>)) (fun _ => True).
Proof.
  intros Hp h1 h2 r1 k1 r2 k2 W1 W2 S E1 E2. inversion E1; inversion E2; subst. clear E1 E2.
  destruct W1 as (F1 & C1 & P1). destruct W2 as (F2 & C2 & P2). destruct S as (Sr & Sa).
  jsplit; auto.
  - split; [unfold filed; simpl; apply filedl_uput; exact F1|split; simpl; assumption].
  - split; [unfold filed; simpl; apply filedl_uput; exact F2|split; simpl; assumption].
  - split.
    + revert Sr. generalize h1 h2. rest_tac. unfold rest. simpl. congruence.
    + intros p Fp. simpl. destruct (bytes_dec p (u_pid u)) as [->|N].
      * rewrite !ulookup_uput_eq. split; [reflexivity|apply Sa; exact Fp].
      * rewrite !ulookup_uput_neq by exact N. apply Sa. exact Fp.
  - intros p Np. simpl. assert (N : p <> u_pid u) by (intros ->; contradiction).
    rewrite ulookup_uput_neq by exact N. auto.
Qed.
Lemma J_st_save O u : F (u_pid u) -> J (st_save O u) (fun _ => True).
Proof. intros Hp. unfold st_save. apply J_backend, J_save_body, Hp. Qed.

Lemma J_st_create O u : F (u_pid u) -> J (st_create O u) (fun _ => True).
Proof.
  intros Hp. unfold st_create. apply J_backend.
  intros h1 h2 r1 k1 r2 k2 W1 W2 S E1 E2.
  destruct (proj2 S _ Hp) as [Eu _]. rewrite Eu in E1.
  destruct W1 as (F1 & C1 & P1). destruct W2 as (F2 & C2 & P2). destruct S as (Sr & Sa).
  destruct (ulookup (u_pid u) (s_users (h_st h2))) eqn:L; inversion E1; inversion E2; subst; clear E1 E2.
  - jsplit; auto; [split; [exact F1|split; assumption]|split; [exact F2|split; assumption]|split; assumption|apply frame_refl].
  - jsplit; auto.
    + split; [unfold filed; simpl; apply filedl_snoc; [exact F1|exact Eu]|split; simpl; assumption].
    + split; [unfold filed; simpl; apply filedl_snoc; [exact F2|exact L]|split; simpl; assumption].
    + split.
      * revert Sr. generalize h1 h2. rest_tac. unfold rest. simpl. congruence.
      * intros p Fp. simpl. destruct (bytes_dec p (u_pid u)) as [->|N].
        -- rewrite (ulookup_snoc_new _ _ _ L). rewrite (ulookup_snoc_new _ _ _ Eu).
           split; [reflexivity|apply Sa; exact Fp].
        -- rewrite !ulookup_snoc_other by exact N. apply Sa. exact Fp.
    + intros p Np. simpl. assert (N : p <> u_pid u) by (intros ->; contradiction).
      rewrite ulookup_snoc_other by exact N. auto.
Qed.

(* the remember table *)
Lemma J_rm_body pid (g : list bytes -> list bytes) :
  F pid ->
  J (modify (fun h => h <| h_st := h_st h <| s_rm := rmput pid (g (rmlookup pid (s_rm (h_st h)))) (s_rm (h_st h)) |> |>))
    (fun _ => True).
Proof.
  intros Hp h1 h2 r1 k1 r2 k2 W1 W2 S E1 E2. inversion E1; inversion E2; subst. clear E1 E2.
  destruct W1 as (F1 & C1 & P1). destruct W2 as (F2 & C2 & P2). destruct S as (Sr & Sa).
  jsplit; auto.
  - split; [exact F1|split; simpl; assumption].
  - split; [exact F2|split; simpl; assumption].
  - split.
    + revert Sr. generalize h1 h2. rest_tac. unfold rest. simpl. congruence.
    + intros p Fp. simpl. destruct (bytes_dec p pid) as [->|N].
      * rewrite !rmlookup_rmput_eq. destruct (Sa pid Hp) as [A1 A2]. rewrite A2. auto.
      * rewrite !rmlookup_rmput_neq by exact N. apply Sa. exact Fp.
  - intros p Np. simpl. assert (N : p <> pid) by (intros ->; contradiction).
    rewrite rmlookup_rmput_neq by exact N. auto.
Qed.
Lemma J_st_add_rm O pid tok : F pid -> J (st_add_rm O pid tok) (fun _ => True).
Proof. intros Hp. unfold st_add_rm. apply J_backend. exact (J_rm_body pid (fun ts => ts ++ [tok]) Hp). Qed.
Lemma J_st_del_rm O pid : F pid -> J (st_del_rm O pid) (fun _ => True).
Proof. intros Hp. unfold st_del_rm. apply J_backend. exact (J_rm_body pid (fun _ => []) Hp). Qed.
Lemma J_st_use_rm O pid tok : F pid -> J (st_use_rm O pid tok) (fun _ => True).
Proof.
  intros Hp. unfold st_use_rm. apply J_backend.
  intros h1 h2 r1 k1 r2 k2 W1 W2 S E1 E2. cbv zeta in E1, E2.
  destruct (proj2 S _ Hp) as [_ Er].
  pose proof (J_rm_body pid (remove_first tok) Hp h1 h2 (Ok tt) _ (Ok tt) _ W1 W2 S eq_refl eq_refl) as Hb.
  rewrite Er in E1.
  destruct (bmem tok (rmlookup pid (s_rm (h_st h2)))).
  - rewrite <- Er in E1. inversion E1; inversion E2; subst. exact Hb.
  - inversion E1; inversion E2; subst. jsplit; auto; try apply frame_refl; try (intros a H; discriminate H).
Qed.

(* the context *)
Lemma J_set_cuser u : F (u_pid u) -> J (set_cuser u) (fun _ => True).
Proof.
  intros Hp h1 h2 r1 k1 r2 k2 W1 W2 S E1 E2. inversion E1; inversion E2; subst. clear E1 E2.
  destruct W1 as (F1 & C1 & P1). destruct W2 as (F2 & C2 & P2). destruct S as (Sr & Sa).
  jsplit; auto.
  - split; [exact F1|split; simpl; [intros cu Hc; inversion Hc; subst; exact Hp|assumption]].
  - split; [exact F2|split; simpl; [intros cu Hc; inversion Hc; subst; exact Hp|assumption]].
  - split; [|exact Sa]. revert Sr. generalize h1 h2. rest_tac. unfold rest. simpl. congruence.
  - apply frame_refl.
Qed.
Lemma J_set_cpid p : F p -> J (set_cpid p) (fun _ => True).
Proof.
  intros Hp h1 h2 r1 k1 r2 k2 W1 W2 S E1 E2. inversion E1; inversion E2; subst. clear E1 E2.
  destruct W1 as (F1 & C1 & P1). destruct W2 as (F2 & C2 & P2). destruct S as (Sr & Sa).
  jsplit; auto.
  - split; [exact F1|split; simpl; [assumption|intros q Hq; inversion Hq; subst; exact Hp]].
  - split; [exact F2|split; simpl; [assumption|intros q Hq; inversion Hq; subst; exact Hp]].
  - split; [|exact Sa]. revert Sr. generalize h1 h2. rest_tac. unfold rest. simpl. congruence.
  - apply frame_refl.
Qed.

Lemma J_with_cuser {A} (k : option user -> M A) R :
  (forall o, (forall u, o = Some u -> F (u_pid u)) -> J (k o) R) -> J (bind get_h (fun h => k (h_cuser h))) R.
Proof.
  intros Hk h1 h2 r1 k1 r2 k2 W1 W2 S E1 E2. unfold bind, get_h in E1, E2.
  assert (N : h_cuser h1 = h_cuser h2) by (destruct (rest_inv _ _ (proj1 S)); tauto).
  rewrite N in E1. exact (Hk (h_cuser h2) (proj1 (proj2 W2)) h1 h2 _ _ _ _ W1 W2 S E1 E2).
Qed.
Lemma J_with_cpid {A} (k : option bytes -> M A) R :
  (forall o, (forall p, o = Some p -> F p) -> J (k o) R) -> J (bind get_h (fun h => k (h_cpid h))) R.
Proof.
  intros Hk h1 h2 r1 k1 r2 k2 W1 W2 S E1 E2. unfold bind, get_h in E1, E2.
  assert (N : h_cpid h1 = h_cpid h2) by (destruct (rest_inv _ _ (proj1 S)); tauto).
  rewrite N in E1. exact (Hk (h_cpid h2) (proj2 (proj2 W2)) h1 h2 _ _ _ _ W1 W2 S E1 E2).
Qed.

(* selector queries look at every record: they are covered at the two start states, given that
   both stores answer the query alike and the record found is in the footprint *)
Lemma Jat_find (f : user -> bool) (m : M user) h1 h2 :
  (forall h, m h = (match ufind f (s_users (h_st h)) with Some u => Ok u | None => Err ErrUserNotFound end, h)) ->
  ufind f (s_users (h_st h1)) = ufind f (s_users (h_st h2)) ->
  (forall u, ufind f (s_users (h_st h1)) = Some u -> F (u_pid u)) ->
  Jat h1 h2 m (fun u => F (u_pid u)).
Proof.
  intros Hm Eq Hf r1 k1 r2 k2 W1 W2 S E1 E2. rewrite Hm in E1, E2. rewrite <- Eq in E2.
  inversion E1; inversion E2; subst. jsplit; auto; [apply frame_refl|].
  intros a Ha. destruct (ufind f (s_users (h_st k1))) eqn:U; inversion Ha; subst. apply Hf. reflexivity.
Qed.
Lemma Jat_load_by_csel O sel h1 h2 :
  ufind (fun u => beqb (u_csel u) sel) (s_users (h_st h1)) = ufind (fun u => beqb (u_csel u) sel) (s_users (h_st h2)) ->
  (forall u, ufind (fun u => beqb (u_csel u) sel) (s_users (h_st h1)) = Some u -> F (u_pid u)) ->
  Jat h1 h2 (st_load_by_csel O sel) (fun u => F (u_pid u)).
Proof.
  intros Eq Hf. unfold st_load_by_csel. apply Jat_backend.
  apply (Jat_find (fun u => beqb (u_csel u) sel)); [|exact Eq|exact Hf].
  intros h. destruct (ufind _ (s_users (h_st h))); reflexivity.
Qed.
Lemma Jat_load_by_rsel O sel h1 h2 :
  ufind (fun u => beqb (u_rsel u) sel) (s_users (h_st h1)) = ufind (fun u => beqb (u_rsel u) sel) (s_users (h_st h2)) ->
  (forall u, ufind (fun u => beqb (u_rsel u) sel) (s_users (h_st h1)) = Some u -> F (u_pid u)) ->
  Jat h1 h2 (st_load_by_rsel O sel) (fun u => F (u_pid u)).
Proof.
  intros Eq Hf. unfold st_load_by_rsel. apply Jat_backend.
  apply (Jat_find (fun u => beqb (u_rsel u) sel)); [|exact Eq|exact Hf].
  intros h. destruct (ufind _ (s_users (h_st h))); reflexivity.
Qed.

(* a computation that does not look at the state at all and leaves it alone *)
Lemma Jat_const_bind {A B} (m : M A) (x : res A) (f : A -> M B) R h1 h2 :
  (forall h, m h = (x, h)) ->
  (forall a, x = Ok a -> Jat h1 h2 (f a) R) -> Jat h1 h2 (bind m f) R.
Proof.
  intros Hm Hf r1 k1 r2 k2 W1 W2 S E1 E2. unfold bind in E1, E2. rewrite Hm in E1, E2.
  destruct x as [a|e|].
  - exact (Hf a eq_refl _ _ _ _ W1 W2 S E1 E2).
  - inversion E1; inversion E2; subst. jsplit; auto; try apply frame_refl; try (intros a H; discriminate H).
  - inversion E1; inversion E2; subst. jsplit; auto; try apply frame_refl; try (intros a H; discriminate H).
Qed.
End FP.

(* ---- the syntax-directed prover ------------------------------------------------------------------ *)
Ltac jside :=
  cbn [fst snd] in *;
  first [ exact I
        | assumption
        | match goal with H : ?G (u_pid ?u) |- ?G (u_pid _) => exact H end
        | solve [auto]
        | solve [eauto]
        | subst; solve [auto] ].

Ltac j_atom lem := first [ apply lem | eapply J_top; apply lem ].
Ltac j_atom_s lem := first [ apply lem; jside | eapply J_top; apply lem; jside ].
Ltac j_modify := first [ apply J_modify | eapply J_top; apply J_modify ];
                 [intros; simpl; auto|rest_tac; unfold rest; simpl; congruence].

Ltac j_extra := fail.
Ltac j_step :=
  match goal with
  | |- J _ _ _ => j_extra
  | |- J _ (bind _ _) _ => eapply J_bind; [|intros]
  | |- J _ (try _ _) _ => eapply J_try; [|intros|intros]
  | |- J _ (ret _) _ => first [apply J_ret_top | apply J_ret; jside]
  | |- J _ (fail _) _ => apply J_fail
  | |- J _ panic _ => apply J_panic
  | |- J _ (put_session _ _) _ => j_atom J_put_session
  | |- J _ (del_session _) _ => j_atom J_del_session
  | |- J _ (delall_session _) _ => j_atom J_delall_session
  | |- J _ (put_cookie _ _) _ => j_atom J_put_cookie
  | |- J _ (del_cookie _) _ => j_atom J_del_cookie
  | |- J _ (write_resp _) _ => j_atom J_write_resp
  | |- J _ (log _) _ => j_atom J_log
  | |- J _ (fresh _) _ => j_atom J_fresh
  | |- J _ (set_cuser _) _ => j_atom_s J_set_cuser
  | |- J _ (set_cpid _) _ => j_atom_s J_set_cpid
  | |- J _ (st_load _ _) _ => j_atom_s J_st_load
  | |- J _ (st_save _ _) _ => j_atom_s J_st_save
  | |- J _ (st_create _ _) _ => j_atom_s J_st_create
  | |- J _ (st_add_rm _ _ _) _ => j_atom_s J_st_add_rm
  | |- J _ (st_use_rm _ _ _) _ => j_atom_s J_st_use_rm
  | |- J _ (st_del_rm _ _) _ => j_atom_s J_st_del_rm
  | |- J _ (backend _ _ _) _ => apply J_backend
  | |- J _ (modify _) _ => j_modify
  | |- J _ (if ?c then _ else _) _ => destruct c eqn:?
  | |- J _ (match ?x with _ => _ end) _ => destruct x eqn:?
  end.
Ltac j_unf :=
  unfold store_back, update_locked_state, lock_apply, generate_token, send_mail, rm_generate, render,
         bcrypt_codes, generate_recovery_codes, invalid_confirm_token, invalid_recover_token.
Ltac j_go := repeat (j_unf; cbn beta iota zeta; j_step).

(* ---- handlers --------------------------------------------------------------------------------------- *)
Definition rv_res (E : env) : res amap :=
  if q_badbody (e_req E) then Err ErrOther
  else if c_api (e_cfg E) then
    match q_meth (e_req E) with GET => Err ErrOther | _ => Ok (q_form (e_req E)) end
  else Ok (q_form (e_req E) ++ q_query (e_req E)).
Lemma read_values_const E h : read_values E h = (rv_res E, h).
Proof.
  unfold read_values, rv_res. destruct (q_badbody (e_req E)); [reflexivity|].
  destruct (c_api (e_cfg E)); [|reflexivity]. destruct (q_meth (e_req E)); reflexivity.
Qed.
Lemma rv_res_ok E a : rv_res E = Ok a -> a = values E.
Proof.
  unfold rv_res, values. destruct (q_badbody (e_req E)); [discriminate|].
  destruct (c_api (e_cfg E)); [|intros H; inversion H; reflexivity].
  destruct (q_meth (e_req E)); intros H; inversion H; reflexivity.
Qed.

Section HF.
Variable F : bytes -> Prop.
Variable E : env.
(* what the request names: the session's user and pending second-factor users (when the key is
   set), the submitted pid, the pid inside the remember cookie *)
Hypothesis Huid : bempty (aget k_uid (e_sess E)) = false -> F (aget k_uid (e_sess E)).
Hypothesis Htp : bempty (aget k_totp_pending (e_sess E)) = false -> F (aget k_totp_pending (e_sess E)).
Hypothesis Hsp : bempty (aget k_sms_pending (e_sess E)) = false -> F (aget k_sms_pending (e_sess E)).
Hypothesis Hform : F (aget (pid_field E) (values E)).
Hypothesis Hrm : forall c raw p,
  alookup k_rm (e_cook E) = Some c -> b64url_dec c = Some raw -> rm_parse_pid raw = Some p -> F p.

Notation JF := (J F).

Lemma J_const {A} (m : M A) (x : res A) (R : A -> Prop) :
  (forall h, m h = (x, h)) -> (forall a, x = Ok a -> R a) -> JF m R.
Proof.
  intros Hm Hx h1 h2 r1 k1 r2 k2 W1 W2 S E1 E2. rewrite Hm in E1, E2. inversion E1; inversion E2; subst.
  jsplit; auto. apply frame_refl.
Qed.
Lemma J_read_values : JF (read_values E) (fun v => v = values E).
Proof. apply (J_const _ (rv_res E)); [apply read_values_const|apply rv_res_ok]. Qed.

Lemma J_respond p d : JF (respond E p d) (fun _ => True).
Proof. unfold respond. j_go. Qed.
Lemma J_redirect ro : JF (redirect E ro) (fun _ => True).
Proof. unfold redirect. j_go. Qed.
Lemma J_send_code p n : JF (send_code_to_user E p n) (fun _ => True).
Proof. unfold send_code_to_user. j_go. Qed.

Lemma J_current_user_id : JF (current_user_id E) (fun p => bempty p = false -> F p).
Proof.
  apply (J_with_cpid F (fun o => match o with Some p => ret p | None => ret (aget k_uid (e_sess E)) end)).
  intros o Ho. destruct o as [p|]; apply J_ret; [intros _; apply Ho; reflexivity|exact Huid].
Qed.

Lemma J_current_user : JF (current_user E) (fun x => F (u_pid (fst x))).
Proof.
  apply (J_with_cuser F (fun o => match o with
           | Some u => ret (u, true)
           | None => pid <- current_user_id E ;;
                     if bempty pid then fail ErrUserNotFound
                     else u <- st_load (e_O E) pid ;; ret (u, false) end)).
  intros o Ho. destruct o as [u|]; [apply J_ret; simpl; apply Ho; reflexivity|].
  eapply J_bind; [apply J_current_user_id|intros pid Hpid]. cbn beta.
  destruct (bempty pid) eqn:Be; [apply J_fail|]. j_go.
Qed.

Lemma J_load_current_user : JF (load_current_user E) (fun u => F (u_pid u)).
Proof.
  apply (J_with_cuser F (fun o => match o with
           | Some u => ret u
           | None => pid <- current_user_id E ;;
                     if bempty pid then fail ErrUserNotFound
                     else set_cpid pid ;;; u <- st_load (e_O E) pid ;; set_cuser u ;;; ret u end)).
  intros o Ho. destruct o as [u|]; [apply J_ret; apply Ho; reflexivity|].
  eapply J_bind; [apply J_current_user_id|intros pid Hpid]. cbn beta.
  destruct (bempty pid) eqn:Be; [apply J_fail|]. j_go.
Qed.

Ltac j_atom_h lem := first [ apply lem; try assumption | eapply J_top; apply lem; try assumption ].
Ltac j_extra ::=
  match goal with
  | |- J _ (bind (read_values _) _) _ => eapply J_bind; [apply J_read_values|intros ? ->]
  | |- J _ (read_values _) _ => j_atom_h J_read_values
  | |- J _ (respond _ _ _) _ => j_atom_h J_respond
  | |- J _ (redirect _ _) _ => j_atom_h J_redirect
  | |- J _ (send_code_to_user _ _ _) _ => j_atom_h J_send_code
  | |- J _ (current_user_id _) _ => j_atom_h J_current_user_id
  | |- J _ (current_user _) _ => j_atom_h J_current_user
  | |- J _ (load_current_user _) _ => j_atom_h J_load_current_user
  end.

Lemma J_hook hk rm hd : JF (run_hook E hk rm hd) (fun _ => True).
Proof.
  destruct hk; unfold run_hook; try (j_go; fail).
  - (* HTotpHijack *)
    destruct hd; [apply J_ret_top|].
    apply (J_with_cuser F (fun o => match o with
             | None => panic
             | Some u => if bempty (u_totp u) then ret false
                         else put_session k_totp_pending (u_pid u) ;;;
                              redirect E (ro_plain (with_rawquery E (c_mount (e_cfg E) ++ bs "/2fa/totp/validate"))) ;;; ret true
             end)).
    intros o Ho. destruct o as [u|]; j_go.
  - (* HSmsHijack *)
    destruct hd; [apply J_ret_top|].
    apply (J_with_cuser F (fun o => match o with
             | None => panic
             | Some u =>
                 if bempty (u_sms u) then ret false
                 else put_session k_sms_pending (u_pid u) ;;;
                      e <- send_code_to_user E (u_pid u) (u_sms u) ;;
                      match e with
                      | Some (HErr e') => fail e'
                      | Some HBadPhone => fail ErrOther
                      | _ => redirect E (ro_plain (with_rawquery E (c_mount (e_cfg E) ++ bs "/2fa/sms/validate"))) ;;; ret true
                      end
             end)).
    intros o Ho. destruct o as [u|]; j_go.
Qed.

Lemma J_call hs : forall rm hd, JF (call E hs rm hd) (fun _ => True).
Proof.
  induction hs as [|hk hs IH]; intros rm hd; cbn [call].
  - apply J_ret_top.
  - eapply J_bind; [apply J_hook|intros; apply IH].
Qed.
Lemma J_fire e rm : JF (fire E e rm) (fun _ => True).
Proof. unfold fire. apply J_call. Qed.

Ltac j_extra ::=
  match goal with
  | |- J _ (bind (read_values _) _) _ => eapply J_bind; [apply J_read_values|intros ? ->]
  | |- J _ (read_values _) _ => j_atom_h J_read_values
  | |- J _ (respond _ _ _) _ => j_atom_h J_respond
  | |- J _ (redirect _ _) _ => j_atom_h J_redirect
  | |- J _ (send_code_to_user _ _ _) _ => j_atom_h J_send_code
  | |- J _ (current_user_id _) _ => j_atom_h J_current_user_id
  | |- J _ (current_user _) _ => j_atom_h J_current_user
  | |- J _ (load_current_user _) _ => j_atom_h J_load_current_user
  | |- J _ (fire _ _ _) _ => j_atom_h J_fire
  | |- J _ (call _ _ _ _) _ => j_atom_h J_call
  | |- J _ (run_hook _ _ _ _) _ => j_atom_h J_hook
  end.

Lemma J_login_post : JF (login_post E) (fun _ => True).
Proof. unfold login_post. j_go. Qed.
Lemma J_login_get : JF (login_get E) (fun _ => True).
Proof. unfold login_get. j_go. Qed.
Lemma J_otp_login_post : JF (otp_login_post E) (fun _ => True).
Proof. unfold otp_login_post. j_go. Qed.
Lemma J_otp_login_get : JF (otp_login_get E) (fun _ => True).
Proof. unfold otp_login_get. j_go. Qed.
Lemma J_otp_add_post : JF (otp_add_post E) (fun _ => True).
Proof. unfold otp_add_post. j_go. Qed.
Lemma J_otp_clear_post : JF (otp_clear_post E) (fun _ => True).
Proof. unfold otp_clear_post. j_go. Qed.
Lemma J_otp_show p : JF (otp_show E p) (fun _ => True).
Proof. unfold otp_show. j_go. Qed.
Lemma J_register_post : JF (register_post E) (fun _ => True).
Proof. unfold register_post. j_go. Qed.
Lemma J_recover_start_post : JF (recover_start_post E) (fun _ => True).
Proof. unfold recover_start_post. j_go. Qed.
Lemma J_recover_end_get : JF (recover_end_get E) (fun _ => True).
Proof. unfold recover_end_get. j_go. Qed.
Lemma J_logout : JF (logout E) (fun _ => True).
Proof. unfold logout. j_go. Qed.
Lemma J_remember_authenticate : JF (remember_authenticate E) (fun _ => True).
Proof. unfold remember_authenticate. j_go. Qed.
Lemma J_remember_mw : JF (remember_mw E) (fun _ => True).
Proof. unfold remember_mw. j_go. apply J_remember_authenticate. Qed.
Lemma J_mw_fail mp fr : JF (mw_fail E mp fr) (fun _ => True).
Proof. unfold mw_fail. j_go. Qed.
Lemma J_auth_middleware mp full tf fr : JF (auth_middleware E mp full tf fr) (fun _ => True).
Proof. unfold auth_middleware. j_go; apply J_mw_fail. Qed.
Lemma J_lock_mw : JF (lock_mw E) (fun _ => True).
Proof. unfold lock_mw. j_go. Qed.
Lemma J_confirm_mw : JF (confirm_mw E) (fun _ => True).
Proof. unfold confirm_mw. j_go. Qed.

(* two-factor *)
Lemma J_recovery_regen_get : JF (recovery_regen_get E) (fun _ => True).
Proof. unfold recovery_regen_get. j_go. Qed.
Lemma J_recovery_regen_post : JF (recovery_regen_post E) (fun _ => True).
Proof. unfold recovery_regen_post. j_go. Qed.
Lemma J_email_verify_get k : JF (email_verify_get E k) (fun _ => True).
Proof. unfold email_verify_get. j_go. Qed.
Lemma J_email_verify_post k : JF (email_verify_post E k) (fun _ => True).
Proof. unfold email_verify_post. j_go. Qed.
Lemma J_email_verify_end k : JF (email_verify_end E k) (fun _ => True).
Proof. unfold email_verify_end. j_go. Qed.
Lemma J_email_verify_wrap k : JF (email_verify_wrap E k) (fun _ => True).
Proof. unfold email_verify_wrap. j_go. Qed.
Lemma J_totp_setup_get : JF (totp_setup_get E) (fun _ => True).
Proof. unfold totp_setup_get. j_go. Qed.
Lemma J_totp_setup_post : JF (totp_setup_post E) (fun _ => True).
Proof. unfold totp_setup_post. j_go. Qed.
Lemma J_totp_confirm_get : JF (totp_confirm_get E) (fun _ => True).
Proof. unfold totp_confirm_get. j_go. Qed.
Lemma J_totp_confirm_post : JF (totp_confirm_post E) (fun _ => True).
Proof. unfold totp_confirm_post. j_go. Qed.

Lemma J_totp_validate : JF (totp_validate E) (fun x => F (u_pid (fst (fst x)))).
Proof.
  unfold totp_validate.
  eapply (J_bind F _ _ (fun x => F (u_pid (fst x)))); [|intros].
  - eapply J_try; [apply J_current_user; assumption|intros; apply J_ret; assumption|intros].
    j_go.
  - j_go.
Qed.
Lemma J_totp_remove_post : JF (totp_remove_post E) (fun _ => True).
Proof. unfold totp_remove_post. eapply J_bind; [apply J_totp_validate|intros]. j_go. Qed.
Lemma J_totp_validate_post : JF (totp_validate_post E) (fun _ => True).
Proof. unfold totp_validate_post. eapply J_bind; [apply J_totp_validate|intros]. j_go. Qed.

Lemma J_sms_setup_get : JF (sms_setup_get E) (fun _ => True).
Proof. unfold sms_setup_get. j_go. Qed.
Lemma J_sms_setup_post : JF (sms_setup_post E) (fun _ => True).
Proof. unfold sms_setup_post. j_go. Qed.
Lemma J_sms_send_code p u : JF (sms_send_code E p u) (fun _ => True).
Proof. unfold sms_send_code. j_go. Qed.
Lemma J_sms_validate_code p u sh inp rc : F (u_pid u) -> JF (sms_validate_code E p u sh inp rc) (fun _ => True).
Proof.
  intros G. unfold sms_validate_code.
  eapply (J_bind F _ _ (fun vu => F (u_pid (snd vu)))); [|intros]; j_go.
Qed.
Lemma J_sms_validator_post p : JF (sms_validator_post E p) (fun _ => True).
Proof.
  unfold sms_validator_post.
  eapply (J_bind F _ _ (fun x => F (u_pid (fst x)))); [|intros].
  - eapply J_try; [apply J_current_user; assumption|intros; apply J_ret; assumption|intros].
    j_go.
  - j_go; first [apply J_sms_send_code | apply J_sms_validate_code; jside].
Qed.

(* oauth2 *)
Lemma J_oauth2_start prov : JF (oauth2_start E prov) (fun _ => True).
Proof. unfold oauth2_start. j_go. Qed.

Lemma J_oauth2_end prov :
  F (make_oauth2_pid prov (pa_uid (o_provider (e_O E)))) -> JF (oauth2_end E prov) (fun _ => True).
Proof.
  intros Hp. unfold oauth2_end.
  remember (make_oauth2_pid prov (pa_uid (o_provider (e_O E)))) as pid eqn:Hpid.
  assert (NEW : forall b : user, u_pid b = pid ->
     JF (backend (e_O E) KNewOAuth2 (fun h => match ulookup pid (s_users (h_st h)) with
                                              | Some u => (Ok u, h) | None => (Ok b, h) end))
        (fun u => F (u_pid u))).
  { intros b Hb. apply J_backend.
    apply (J_read_user F pid _ (fun o => match o with Some u => Ok u | None => Ok b end)); [exact Hp| |].
    - intros h. destruct (ulookup pid (s_users (h_st h))); reflexivity.
    - intros o a Ho Ha. destruct o; inversion Ha; subst; [rewrite (Ho a eq_refl)|rewrite Hb]; exact Hp. }
  assert (SAVE : forall u, F (u_pid u) ->
     JF (backend (e_O E) KSaveOAuth2
           (modify (fun h => h <| h_st := h_st h <| s_users := uput (u_pid u) u (s_users (h_st h)) |> |>)))
        (fun _ => True)).
  { intros u Hu. apply J_backend, J_save_body, Hu. }
  cbv zeta.
  repeat (j_unf; cbn beta iota zeta;
          first [ match goal with
                  | |- J _ (try (backend _ KNewOAuth2 _) _) _ =>
                      eapply (J_try F _ _ (fun u => F (u_pid u)) (fun u => F (u_pid u)));
                      [apply NEW; reflexivity|intros; apply J_ret; assumption|intros; apply J_fail]
                  | |- J _ (backend _ KSaveOAuth2 _) _ =>
                      match goal with |- context [uput _ ?u _] =>
                        first [apply (SAVE u); jside | eapply J_top; apply (SAVE u); jside] end
                  end
                | j_step ]).
Qed.

(* the probe *)
Lemma J_app_handler : JF (app_handler E) (fun _ => True).
Proof. unfold app_handler. j_go. Qed.
Lemma J_totp_qr : JF (totp_qr E) (fun _ => True).
Proof. unfold totp_qr. j_go. Qed.

(* the two handlers that query by token selector: covered at a pair of start states on which the
   query has the same answer, the record found being in the footprint *)
Definition sel_ok (f : user -> bool) (h1 h2 : hst) : Prop :=
  ufind f (s_users (h_st h1)) = ufind f (s_users (h_st h2)) /\
  forall u, ufind f (s_users (h_st h1)) = Some u -> F (u_pid u).

Ltac jat_of_j :=
  match goal with |- Jat ?G ?h1 ?h2 ?m ?R =>
    let HJ := fresh "HJ" in cut (J G m R); [intros HJ; exact (HJ h1 h2)|] end.

Lemma Jat_confirm_get h1 h2 :
  (forall raw, b64url_dec (aget f_cnf (values E)) = Some raw ->
               sel_ok (fun u => beqb (u_csel u) (selector_of E raw)) h1 h2) ->
  Jat F h1 h2 (confirm_get E) (fun _ => True).
Proof.
  intros Hsel. unfold confirm_get.
  apply (Jat_const_bind F _ (rv_res E)); [apply read_values_const|]. intros vals Hv. apply rv_res_ok in Hv. subst vals.
  cbn beta zeta.
  destruct (negb (valid _ _ (values E))); [jat_of_j; j_go|].
  destruct (b64url_dec (aget f_cnf (values E))) as [raw|] eqn:D; [|jat_of_j; j_go].
  destruct (negb (Nat.eqb (length raw) 64)); [jat_of_j; j_go|].
  destruct (Hsel raw eq_refl) as [S1 S2].
  eapply Jat_try; [apply Jat_load_by_csel; [exact S1|exact S2]|intros; j_go|intros; j_go].
Qed.

Lemma Jat_recover_end_post h1 h2 :
  (forall raw, b64url_dec (aget f_token (values E)) = Some raw ->
               sel_ok (fun u => beqb (u_rsel u) (selector_of E raw)) h1 h2) ->
  Jat F h1 h2 (recover_end_post E) (fun _ => True).
Proof.
  intros Hsel. unfold recover_end_post.
  apply (Jat_const_bind F _ (rv_res E)); [apply read_values_const|]. intros vals Hv. apply rv_res_ok in Hv. subst vals.
  cbn beta zeta.
  destruct (negb (valid _ _ (values E))); [jat_of_j; j_go|].
  destruct (b64url_dec (aget f_token (values E))) as [raw|] eqn:D; [|jat_of_j; j_go].
  destruct (negb (Nat.eqb (length raw) 64)); [jat_of_j; j_go|].
  destruct (Hsel raw eq_refl) as [S1 S2].
  eapply Jat_try; [apply Jat_load_by_rsel; [exact S1|exact S2]|intros; j_go|intros; j_go].
Qed.

(* module routes behind the access middleware *)
Lemma J_behind full (m : M unit) : JF m (fun _ => True) -> JF (behind E full m) (fun _ => True).
Proof. intros Hm. unfold behind. j_go; first [apply J_auth_middleware | exact Hm]. Qed.
Lemma J_verified k (m : M unit) : JF m (fun _ => True) -> JF (verified E k m) (fun _ => True).
Proof. intros Hm. unfold verified. apply J_behind. j_go; first [apply J_email_verify_wrap | exact Hm]. Qed.
Lemma J_resp0 page : JF (resp0 E page) (fun _ => True).
Proof. unfold resp0. j_go. Qed.
End HF.

(* ---- the whole router ---------------------------------------------------------------------------- *)
Lemma alookup_filter_keys k wl (s : amap) :
  alookup k (filter (fun kv => bmem (fst kv) wl) s) = if bmem k wl then alookup k s else None.
Proof.
  induction s as [|[k' v] s IH]; simpl; [destruct (bmem k wl); reflexivity|].
  destruct (bmem k' wl) eqn:B; simpl; destruct (beqb k k') eqn:Eb; try exact IH.
  - apply beqb_eq in Eb. subst k'. rewrite B. reflexivity.
  - apply beqb_eq in Eb. subst k'. rewrite B in IH. rewrite B. exact IH.
Qed.
Lemma aget_filter_keys k wl (s : amap) :
  bempty (aget k (filter (fun kv => bmem (fst kv) wl) s)) = false ->
  aget k (filter (fun kv => bmem (fst kv) wl) s) = aget k s.
Proof.
  unfold aget. rewrite alookup_filter_keys. destruct (bmem k wl); [reflexivity|]. simpl. discriminate.
Qed.

Section SV.
Variable F : bytes -> Prop.
Variable E : env.
Hypothesis Huid : bempty (aget k_uid (e_sess E)) = false -> F (aget k_uid (e_sess E)).
Hypothesis Htp : bempty (aget k_totp_pending (e_sess E)) = false -> F (aget k_totp_pending (e_sess E)).
Hypothesis Hsp : bempty (aget k_sms_pending (e_sess E)) = false -> F (aget k_sms_pending (e_sess E)).
Hypothesis Hform : F (aget (pid_field E) (values E)).
Hypothesis Hrm : forall c raw p,
  alookup k_rm (e_cook E) = Some c -> b64url_dec c = Some raw -> rm_parse_pid raw = Some p -> F p.
Hypothesis Hoa : forall prov,
  q_route (e_req E) = ROAuthCallback prov -> F (make_oauth2_pid prov (pa_uid (o_provider (e_O E)))).

Notation JF := (J F).

Definition sess_view (s : amap) : Prop :=
  s = e_sess E \/ s = filter (fun kv => bmem (fst kv) (c_whitelist (e_cfg E))) (e_sess E).

Lemma J_expire_mw : JF (expire_mw E) sess_view.
Proof. unfold expire_mw, sess_view. j_go. Qed.

Lemma sess_view_uid s : sess_view s -> bempty (aget k_uid s) = false -> F (aget k_uid s).
Proof.
  intros [->| ->]; [exact Huid|]. intros B. rewrite (aget_filter_keys _ _ _ B) in *.
  apply Huid. rewrite <- (aget_filter_keys _ _ _ B). exact B.
Qed.

(* remember.Authenticate's overlay of the request's session view: its uid is the context pid (which
   [wf] keeps inside the footprint) when the cookie was consumed, the view's own uid otherwise; the
   other keys are not touched *)
Definition uid_ok (s : amap) : Prop := bempty (aget k_uid s) = false -> F (aget k_uid s).

Lemma aget_uid_overlay pid s : aget k_uid (aput k_halfauth v_true (aput k_uid pid s)) = pid.
Proof.
  unfold aget. rewrite alookup_aput_neq by (intro H; vm_compute in H; discriminate H).
  rewrite alookup_aput_eq. reflexivity.
Qed.

Lemma J_remembered_view s : uid_ok s -> JF (remembered_view s) uid_ok.
Proof.
  intros Hs.
  apply (J_with_cpid F (fun o => match o with
           | Some pid => ret (aput k_halfauth v_true (aput k_uid pid s))
           | None => ret s end)).
  intros o Ho. destruct o as [pid|]; apply J_ret; [|exact Hs].
  unfold uid_ok. rewrite aget_uid_overlay. intros _. apply Ho. reflexivity.
Qed.

Lemma J_app_stack full tf fr l c r e : JF (app_stack E full tf fr l c r e) (fun _ => True).
Proof.
  unfold app_stack.
  eapply (J_bind F _ _ sess_view); [destruct e; [apply J_expire_mw|apply J_ret; left; reflexivity]|intros sess Hs].
  cbv zeta.
  assert (U' : bempty (aget k_uid (e_sess (with_sess E sess))) = false -> F (aget k_uid (e_sess (with_sess E sess))))
    by (exact (sess_view_uid sess Hs)).
  assert (R' : forall c raw p, alookup k_rm (e_cook (with_sess E sess)) = Some c -> b64url_dec c = Some raw ->
                               rm_parse_pid raw = Some p -> F p) by (exact Hrm).
  eapply (J_bind F _ _ uid_ok).
  - destruct r; [|apply J_ret; exact U'].
    eapply J_bind; [apply J_remember_mw; assumption|intros _ _]. apply J_remembered_view. exact U'.
  - intros sess2 U2.
    assert (U'' : bempty (aget k_uid (e_sess (with_sess E sess2))) = false ->
                  F (aget k_uid (e_sess (with_sess E sess2)))) by (exact U2).
    j_go; first [ apply J_auth_middleware; assumption
                | apply J_lock_mw; assumption | apply J_confirm_mw; assumption | apply J_app_handler; assumption ].
Qed.

(* the two start states *)
Variables h1 h2 : hst.
Hypothesis Hcsel : forall raw, b64url_dec (aget f_cnf (values E)) = Some raw ->
  sel_ok F (fun u => beqb (u_csel u) (selector_of E raw)) h1 h2.
Hypothesis Hrsel : forall raw, b64url_dec (aget f_token (values E)) = Some raw ->
  sel_ok F (fun u => beqb (u_rsel u) (selector_of E raw)) h1 h2.

Definition okr (r : routed) : Prop :=
  match r with Handler h => Jat F h1 h2 h (fun _ => True) | _ => True end.

Lemma okr_when b r : okr r -> okr (when b r).
Proof. destruct b; simpl; auto. Qed.
Lemma okr_get_post g p : Jat F h1 h2 g (fun _ => True) -> Jat F h1 h2 p (fun _ => True) -> okr (get_post E g p).
Proof. intros Hg Hp. unfold get_post. destruct (q_meth (e_req E)); simpl; auto. Qed.
Lemma okr_on_method m h : Jat F h1 h2 h (fun _ => True) -> okr (on_method E m h).
Proof. intros Hh. unfold on_method. destruct (meth_eqb _ m); simpl; auto. Qed.
Lemma Jat_of_J {A} (m : M A) R : JF m R -> Jat F h1 h2 m R.
Proof. intros H. apply H. Qed.

Ltac hfin1 :=
  match goal with
  | |- J _ (login_get _) _ => apply J_login_get
  | |- J _ (login_post _) _ => apply J_login_post
  | |- J _ (otp_login_get _) _ => apply J_otp_login_get
  | |- J _ (otp_login_post _) _ => apply J_otp_login_post
  | |- J _ (otp_show _ _) _ => apply J_otp_show
  | |- J _ (otp_add_post _) _ => apply J_otp_add_post
  | |- J _ (otp_clear_post _) _ => apply J_otp_clear_post
  | |- J _ (resp0 _ _) _ => apply J_resp0
  | |- J _ (register_post _) _ => apply J_register_post
  | |- J _ (recover_start_post _) _ => apply J_recover_start_post
  | |- J _ (recover_end_get _) _ => apply J_recover_end_get
  | |- J _ (oauth2_start _ _) _ => apply J_oauth2_start
  | |- J _ (oauth2_end _ _) _ => apply J_oauth2_end
  | |- J _ (logout _) _ => apply J_logout
  | |- J _ (totp_setup_get _) _ => apply J_totp_setup_get
  | |- J _ (totp_setup_post _) _ => apply J_totp_setup_post
  | |- J _ (totp_qr _) _ => apply J_totp_qr
  | |- J _ (totp_confirm_get _) _ => apply J_totp_confirm_get
  | |- J _ (totp_confirm_post _) _ => apply J_totp_confirm_post
  | |- J _ (totp_remove_post _) _ => apply J_totp_remove_post
  | |- J _ (totp_validate_post _) _ => apply J_totp_validate_post
  | |- J _ (sms_setup_get _) _ => apply J_sms_setup_get
  | |- J _ (sms_setup_post _) _ => apply J_sms_setup_post
  | |- J _ (sms_validator_post _ _) _ => apply J_sms_validator_post
  | |- J _ (email_verify_get _ _) _ => apply J_email_verify_get
  | |- J _ (email_verify_post _ _) _ => apply J_email_verify_post
  | |- J _ (email_verify_end _ _) _ => apply J_email_verify_end
  | |- J _ (recovery_regen_get _) _ => apply J_recovery_regen_get
  | |- J _ (recovery_regen_post _) _ => apply J_recovery_regen_post
  end; auto.
Ltac hfin :=
  match goal with
  | |- J _ (verified _ _ _) _ => apply J_verified; [assumption|hfin1]
  | |- J _ (behind _ _ _) _ => apply J_behind; [assumption|hfin1]
  | |- _ => hfin1
  end.
Ltac hat :=
  match goal with
  | |- Jat _ _ _ (confirm_get _) _ => apply Jat_confirm_get; assumption
  | |- Jat _ _ _ (recover_end_post _) _ => apply Jat_recover_end_post; assumption
  | |- _ => apply Jat_of_J; hfin
  end.

Lemma route_table_ok : okr (route_table E).
Proof.
  unfold route_table.
  destruct (q_route (e_req E)) eqn:Rt; cbv beta iota;
    match goal with
    | |- okr (Handler _) => apply Jat_of_J, J_app_stack
    | |- _ => destruct (q_meth (e_req E)) eqn:Mt; cbv beta iota; try exact I;
              apply okr_when; first [apply okr_get_post | apply okr_on_method]; hat
    end.
Qed.

Lemma J_with_error_handler_at (m : M unit) :
  Jat F h1 h2 m (fun _ => True) -> Jat F h1 h2 (with_error_handler E m) (fun _ => True).
Proof. intros Hm. unfold with_error_handler. eapply Jat_try; [exact Hm|intros; j_go|intros; j_go]. Qed.

Lemma serve_at : Jat F h1 h2 (serve E) (fun _ => True).
Proof.
  unfold serve. pose proof route_table_ok as Hr. destruct (route_table E); simpl in Hr.
  - apply J_with_error_handler_at. exact Hr.
  - apply Jat_of_J, J_write_resp.
  - apply Jat_of_J, J_write_resp.
Qed.
End SV.

(* ---- the footprint of a request ----------------------------------------------------------------- *)
(* a session key names an account only when it is set *)
Definition ne (p : bytes) : list bytes := if bempty p then [] else [p].

Definition fp_cookie (E : env) : list bytes :=
  match alookup k_rm (e_cook E) with
  | Some c => match b64url_dec c with
              | Some raw => match rm_parse_pid raw with Some p => [p] | None => [] end
              | None => [] end
  | None => []
  end.
(* the record a submitted confirm / recover token selects in the store the request starts from *)
Definition fp_sel (f : bytes -> user -> bool) (tok : bytes) (st : storage) : list bytes :=
  match b64url_dec tok with
  | Some raw => match ufind (f raw) (s_users st) with Some u => [u_pid u] | None => [] end
  | None => []
  end.
Definition csel_of (E : env) (raw : bytes) (u : user) : bool := beqb (u_csel u) (selector_of E raw).
Definition rsel_of (E : env) (raw : bytes) (u : user) : bool := beqb (u_rsel u) (selector_of E raw).
Definition fp_oauth (E : env) : list bytes :=
  match q_route (e_req E) with
  | ROAuthCallback prov => [make_oauth2_pid prov (pa_uid (o_provider (e_O E)))]
  | _ => []
  end.
Definition fp_ctx (h : hst) : list bytes :=
  match h_cuser h with Some u => [u_pid u] | None => [] end ++
  match h_cpid h with Some p => [p] | None => [] end.

Definition fp (E : env) (h : hst) : list bytes :=
  ne (aget k_uid (e_sess E)) ++ ne (aget k_totp_pending (e_sess E)) ++ ne (aget k_sms_pending (e_sess E)) ++
  [aget (pid_field E) (values E)] ++
  fp_cookie E ++
  fp_sel (csel_of E) (aget f_cnf (values E)) (h_st h) ++
  fp_sel (rsel_of E) (aget f_token (values E)) (h_st h) ++
  fp_oauth E ++
  fp_ctx h.

Lemma in_ne p : bempty p = false -> In p (ne p).
Proof. unfold ne. intros ->. left. reflexivity. Qed.

Tactic Notation "in_fp" integer(n) :=
  unfold fp; do n (apply in_or_app; right); first [apply in_or_app; left|idtac].

Section FPok.
Variable E : env.
Variable h : hst.
Notation Fh := (fun q => In q (fp E h)).

Lemma fp_uid : bempty (aget k_uid (e_sess E)) = false -> In (aget k_uid (e_sess E)) (fp E h).
Proof. intros B. unfold fp. apply in_or_app. left. apply in_ne, B. Qed.
Lemma fp_tp : bempty (aget k_totp_pending (e_sess E)) = false -> In (aget k_totp_pending (e_sess E)) (fp E h).
Proof. intros B. in_fp 1. apply in_ne, B. Qed.
Lemma fp_sp : bempty (aget k_sms_pending (e_sess E)) = false -> In (aget k_sms_pending (e_sess E)) (fp E h).
Proof. intros B. in_fp 2. apply in_ne, B. Qed.
Lemma fp_form : In (aget (pid_field E) (values E)) (fp E h).
Proof. in_fp 3. left. reflexivity. Qed.
Lemma fp_rm c raw p :
  alookup k_rm (e_cook E) = Some c -> b64url_dec c = Some raw -> rm_parse_pid raw = Some p -> In p (fp E h).
Proof. intros A B C. in_fp 4. unfold fp_cookie. rewrite A, B, C. left. reflexivity. Qed.
Lemma fp_csel raw u :
  b64url_dec (aget f_cnf (values E)) = Some raw ->
  ufind (fun u => beqb (u_csel u) (selector_of E raw)) (s_users (h_st h)) = Some u -> In (u_pid u) (fp E h).
Proof.
  intros A B. in_fp 5. unfold fp_sel. rewrite A. unfold csel_of. rewrite B. left. reflexivity.
Qed.
Lemma fp_rsel raw u :
  b64url_dec (aget f_token (values E)) = Some raw ->
  ufind (fun u => beqb (u_rsel u) (selector_of E raw)) (s_users (h_st h)) = Some u -> In (u_pid u) (fp E h).
Proof.
  intros A B. in_fp 6. unfold fp_sel. rewrite A. unfold rsel_of. rewrite B. left. reflexivity.
Qed.
Lemma fp_oa prov :
  q_route (e_req E) = ROAuthCallback prov -> In (make_oauth2_pid prov (pa_uid (o_provider (e_O E)))) (fp E h).
Proof. intros A. in_fp 7. unfold fp_oauth. rewrite A. left. reflexivity. Qed.
Lemma fp_cuser u : h_cuser h = Some u -> In (u_pid u) (fp E h).
Proof. intros A. in_fp 8. unfold fp_ctx. rewrite A. left. reflexivity. Qed.
Lemma fp_cpid p : h_cpid h = Some p -> In p (fp E h).
Proof.
  intros A. unfold fp. do 8 (apply in_or_app; right). unfold fp_ctx. rewrite A.
  apply in_or_app. right. left. reflexivity.
Qed.

Lemma wf_start : filed (h_st h) -> wf Fh h.
Proof. intros Fl. split; [exact Fl|]. split; [exact fp_cuser|exact fp_cpid]. Qed.
End FPok.

(* two start states as the second half compares them *)
Definition sel_agree (E : env) (h1 h2 : hst) : Prop :=
  (forall raw, b64url_dec (aget f_cnf (values E)) = Some raw ->
     ufind (csel_of E raw) (s_users (h_st h1)) = ufind (csel_of E raw) (s_users (h_st h2))) /\
  (forall raw, b64url_dec (aget f_token (values E)) = Some raw ->
     ufind (rsel_of E raw) (s_users (h_st h1)) = ufind (rsel_of E raw) (s_users (h_st h2))).

Lemma sel_agree_refl E h : sel_agree E h h.
Proof. split; reflexivity. Qed.

Definition agree_on (l : list bytes) (s1 s2 : storage) : Prop :=
  forall p, In p l -> ulookup p (s_users s1) = ulookup p (s_users s2) /\
                      rmlookup p (s_rm s1) = rmlookup p (s_rm s2).
Definition same_off (l : list bytes) (s s' : storage) : Prop :=
  forall p, ~ In p l -> ulookup p (s_users s') = ulookup p (s_users s) /\
                        rmlookup p (s_rm s') = rmlookup p (s_rm s).

Lemma serve_two_runs E h1 h2 r1 h1' r2 h2' :
  filed (h_st h1) -> filed (h_st h2) ->
  rest h1 = rest h2 -> agree_on (fp E h1) (h_st h1) (h_st h2) -> sel_agree E h1 h2 ->
  serve E h1 = (r1, h1') -> serve E h2 = (r2, h2') ->
  r1 = r2 /\ rest h1' = rest h2' /\ agree_on (fp E h1) (h_st h1') (h_st h2') /\
  same_off (fp E h1) (h_st h1) (h_st h1') /\ filed (h_st h1') /\ filed (h_st h2').
Proof.
  intros F1 F2 Hr Ag [Sc Sr] E1 E2.
  set (F := fun q => In q (fp E h1)).
  assert (W1 : wf F h1) by (apply wf_start; exact F1).
  assert (W2 : wf F h2).
  { destruct (rest_inv _ _ Hr) as (_ & _ & _ & _ & _ & _ & R7 & R8 & _).
    split; [exact F2|]. split; [rewrite <- R7; apply fp_cuser|rewrite <- R8; apply fp_cpid]. }
  assert (S : sim F h1 h2) by (split; [exact Hr|exact Ag]).
  assert (SV : Jat F h1 h2 (serve E) (fun _ => True)).
  { apply serve_at.
    - apply fp_uid.
    - apply fp_tp.
    - apply fp_sp.
    - apply fp_form.
    - apply fp_rm.
    - apply fp_oa.
    - intros raw D. split; [apply (Sc raw D)|]. intros u Hu. exact (fp_csel E h1 raw u D Hu).
    - intros raw D. split; [apply (Sr raw D)|]. intros u Hu. exact (fp_rsel E h1 raw u D Hu). }
  destruct (SV _ _ _ _ W1 W2 S E1 E2) as (A1 & A2 & A3 & A4 & A5 & _).
  split; [exact A1|]. split; [apply A4|]. split; [apply A4|]. split; [exact A5|].
  split; [apply A2|apply A3].
Qed.

(* C20, first half: a request leaves every account outside its footprint alone *)
Lemma serve_store_footprint E h r h' p :
  filed (h_st h) -> serve E h = (r, h') -> ~ In p (fp E h) ->
  ulookup p (s_users (h_st h')) = ulookup p (s_users (h_st h)) /\
  rmlookup p (s_rm (h_st h')) = rmlookup p (s_rm (h_st h)).
Proof.
  intros Fl Eq Np.
  destruct (serve_two_runs E h h r h' r h' Fl Fl eq_refl (fun _ _ => conj eq_refl eq_refl) (sel_agree_refl E h) Eq Eq)
    as (_ & _ & _ & Fr & _).
  exact (Fr p Np).
Qed.

Lemma serve_keeps_filed E h r h' : filed (h_st h) -> serve E h = (r, h') -> filed (h_st h').
Proof.
  intros Fl Eq.
  destruct (serve_two_runs E h h r h' r h' Fl Fl eq_refl (fun _ _ => conj eq_refl eq_refl) (sel_agree_refl E h) Eq Eq)
    as (_ & _ & _ & _ & F' & _).
  exact F'.
Qed.

(* C20, second half: the outcome depends only on the accounts of the footprint *)
Lemma serve_outcome_independent E h1 h2 r1 h1' r2 h2' :
  filed (h_st h1) -> filed (h_st h2) ->
  rest h1 = rest h2 -> agree_on (fp E h1) (h_st h1) (h_st h2) -> sel_agree E h1 h2 ->
  serve E h1 = (r1, h1') -> serve E h2 = (r2, h2') ->
  r1 = r2 /\ rest h1' = rest h2' /\ agree_on (fp E h1) (h_st h1') (h_st h2') /\
  same_off (fp E h1) (h_st h1) (h_st h1') /\ same_off (fp E h1) (h_st h2) (h_st h2').
Proof.
  intros F1 F2 Hr Ag Sa E1 E2.
  destruct (serve_two_runs E h1 h2 _ _ _ _ F1 F2 Hr Ag Sa E1 E2) as (A1 & A2 & A3 & A4 & _).
  split; [exact A1|]. split; [exact A2|]. split; [exact A3|]. split; [exact A4|].
  (* the second run's own footprint is the same set *)
  assert (Efp : fp E h2 = fp E h1).
  { destruct Sa as [Sc Sr]. destruct (rest_inv _ _ Hr) as (_ & _ & _ & _ & _ & _ & R7 & R8 & _).
    unfold fp, fp_ctx, fp_sel. rewrite R7, R8.
    destruct (b64url_dec (aget f_cnf (values E))) as [rc|] eqn:Dc; [rewrite (Sc rc eq_refl)|];
      (destruct (b64url_dec (aget f_token (values E))) as [rr|] eqn:Dr; [rewrite (Sr rr eq_refl)|]); reflexivity. }
  intros p Np. rewrite <- Efp in Np. exact (serve_store_footprint E h2 r2 h2' p F2 E2 Np).
Qed.

(* ---- the same two statements for [step]: one request against the whole system --------------------- *)
From AB Require Import World.Step Proofs.StepUid.

Definition req_env (C : crypto) (cfg : config) (w : world) (req : request) (orc : oracle) : env :=
  mkEnv C cfg orc req (jar_get (q_browser req) (w_cook w)) (jar_get (q_browser req) (w_sess w)).
Definition req_fp (C : crypto) (cfg : config) (w : world) (req : request) (orc : oracle) : list bytes :=
  fp (req_env C cfg w req orc) (init_hst (w_st w) orc).

Lemma step_store_footprint_lemma C cfg w req orc p :
  filed (w_st w) -> ~ In p (req_fp C cfg w req orc) ->
  ulookup p (s_users (w_st (fst (step C cfg w (AReq req) orc)))) = ulookup p (s_users (w_st w)) /\
  rmlookup p (s_rm (w_st (fst (step C cfg w (AReq req) orc)))) = rmlookup p (s_rm (w_st w)).
Proof.
  intros Fl Np. unfold step. fold (req_env C cfg w req orc).
  destruct (serve (req_env C cfg w req orc) (init_hst (w_st w) orc)) as [r h] eqn:Sv.
  pose proof (serve_store_footprint (req_env C cfg w req orc) (init_hst (w_st w) orc) r h p Fl Sv Np) as Hs.
  destruct (h_out h); simpl; exact Hs.
Qed.

Lemma step_outcome_independent_lemma C cfg w1 w2 req orc :
  filed (w_st w1) -> filed (w_st w2) ->
  jar_get (q_browser req) (w_sess w1) = jar_get (q_browser req) (w_sess w2) ->
  jar_get (q_browser req) (w_cook w1) = jar_get (q_browser req) (w_cook w2) ->
  agree_on (req_fp C cfg w1 req orc) (w_st w1) (w_st w2) ->
  sel_agree (req_env C cfg w1 req orc) (init_hst (w_st w1) orc) (init_hst (w_st w2) orc) ->
  snd (step C cfg w1 (AReq req) orc) = snd (step C cfg w2 (AReq req) orc) /\
  jar_get (q_browser req) (w_sess (fst (step C cfg w1 (AReq req) orc))) =
    jar_get (q_browser req) (w_sess (fst (step C cfg w2 (AReq req) orc))) /\
  jar_get (q_browser req) (w_cook (fst (step C cfg w1 (AReq req) orc))) =
    jar_get (q_browser req) (w_cook (fst (step C cfg w2 (AReq req) orc))) /\
  agree_on (req_fp C cfg w1 req orc) (w_st (fst (step C cfg w1 (AReq req) orc))) (w_st (fst (step C cfg w2 (AReq req) orc))) /\
  same_off (req_fp C cfg w1 req orc) (w_st w1) (w_st (fst (step C cfg w1 (AReq req) orc))) /\
  same_off (req_fp C cfg w1 req orc) (w_st w2) (w_st (fst (step C cfg w2 (AReq req) orc))).
Proof.
  intros F1 F2 Js Jc Ag Sa. unfold step.
  fold (req_env C cfg w1 req orc). fold (req_env C cfg w2 req orc).
  assert (EE : req_env C cfg w2 req orc = req_env C cfg w1 req orc) by (unfold req_env; rewrite Js, Jc; reflexivity).
  rewrite EE. rewrite <- Js, <- Jc.
  destruct (serve (req_env C cfg w1 req orc) (init_hst (w_st w1) orc)) as [r1 k1] eqn:S1.
  destruct (serve (req_env C cfg w1 req orc) (init_hst (w_st w2) orc)) as [r2 k2] eqn:S2.
  destruct (serve_outcome_independent (req_env C cfg w1 req orc) (init_hst (w_st w1) orc) (init_hst (w_st w2) orc)
              _ _ _ _ F1 F2 eq_refl Ag Sa S1 S2) as (A1 & A2 & A3 & A4 & A5).
  subst r2. destruct (rest_inv _ _ A2) as (R1 & R2 & R3 & R4 & R5 & R6 & R7 & R8 & R9 & R10 & R11 & R12).
  split; [unfold obs_of; simpl; congruence|].
  rewrite <- R3. destruct (h_out k1) as [wr|]; simpl.
  - rewrite !jar_get_set_eq. auto.
  - rewrite Js, Jc. auto.
Qed.

(* ---- when do two stores answer a selector query alike? --------------------------------------------- *)
Lemma ufind_some_spec f u l : ufind f l = Some u -> exists k, In (k, u) l /\ f u = true.
Proof.
  induction l as [|[k' u'] l IH]; simpl; [discriminate|]. destruct (f u') eqn:Fu.
  - intros H; inversion H; subst. exists k'. split; [left; reflexivity|exact Fu].
  - intros H. destruct (IH H) as (k & Hk & Hf). exists k. split; [right; exact Hk|exact Hf].
Qed.
Lemma ufind_none_spec f l : ufind f l = None -> forall k u, In (k, u) l -> f u = false.
Proof.
  induction l as [|[k' u'] l IH]; simpl; [intros _ k u []|]. destruct (f u') eqn:Fu; [discriminate|].
  intros H k u [Hi|Hi]; [inversion Hi; subst; exact Fu|exact (IH H k u Hi)].
Qed.

Lemma ufind_agree f l1 l2 (G : bytes -> Prop) :
  filedl l1 -> filedl l2 ->
  (forall p, G p -> ulookup p l1 = ulookup p l2) ->
  (forall k u, In (k, u) l1 -> f u = true -> G k) ->
  (forall k u, In (k, u) l2 -> f u = true -> G k) ->
  (forall k u k' u', In (k, u) l1 -> In (k', u') l1 -> f u = true -> f u' = true -> k = k') ->
  ufind f l1 = ufind f l2.
Proof.
  intros [N1 K1] [N2 K2] Ag G1 G2 Un.
  destruct (ufind f l1) as [u1|] eqn:A; destruct (ufind f l2) as [u2|] eqn:B; [| | |reflexivity].
  - apply ufind_some_spec in A as (k1 & I1 & T1). apply ufind_some_spec in B as (k2 & I2 & T2).
    pose proof (in_ulookup _ _ _ N2 I2) as L2. rewrite <- (Ag k2 (G2 _ _ I2 T2)) in L2.
    pose proof (ulookup_in _ _ _ L2) as I2'.
    assert (k1 = k2) by (exact (Un _ _ _ _ I1 I2' T1 T2)). subst k2.
    pose proof (in_ulookup _ _ _ N1 I1) as L1. congruence.
  - exfalso. apply ufind_some_spec in A as (k1 & I1 & T1).
    pose proof (in_ulookup _ _ _ N1 I1) as L1. rewrite (Ag k1 (G1 _ _ I1 T1)) in L1.
    pose proof (ufind_none_spec _ _ B _ _ (ulookup_in _ _ _ L1)). congruence.
  - exfalso. apply ufind_some_spec in B as (k2 & I2 & T2).
    pose proof (in_ulookup _ _ _ N2 I2) as L2. rewrite <- (Ag k2 (G2 _ _ I2 T2)) in L2.
    pose proof (ufind_none_spec _ _ A _ _ (ulookup_in _ _ _ L2)). congruence.
Qed.

(* in both stores every record the selector matches belongs to an account of the set l, and in
   the first store the selector matches at most one record *)
Definition sel_within (f : user -> bool) (l : list bytes) (h1 h2 : hst) : Prop :=
  (forall k u, In (k, u) (s_users (h_st h1)) -> f u = true -> In k l) /\
  (forall k u, In (k, u) (s_users (h_st h2)) -> f u = true -> In k l) /\
  (forall k u k' u', In (k, u) (s_users (h_st h1)) -> In (k', u') (s_users (h_st h1)) ->
                     f u = true -> f u' = true -> k = k').

Lemma sel_agree_of_within E h1 h2 l :
  filed (h_st h1) -> filed (h_st h2) -> agree_on l (h_st h1) (h_st h2) ->
  (forall raw, b64url_dec (aget f_cnf (values E)) = Some raw -> sel_within (csel_of E raw) l h1 h2) ->
  (forall raw, b64url_dec (aget f_token (values E)) = Some raw -> sel_within (rsel_of E raw) l h1 h2) ->
  sel_agree E h1 h2.
Proof.
  intros F1 F2 Ag Hc Hr. split; intros raw D.
  - destruct (Hc raw D) as (A & B & U).
    apply (ufind_agree _ _ _ (fun k => In k l)); auto. intros p Hp. apply (Ag p Hp).
  - destruct (Hr raw D) as (A & B & U).
    apply (ufind_agree _ _ _ (fun k => In k l)); auto. intros p Hp. apply (Ag p Hp).
Qed.

(* ==== C06, recover side: a password reset drops the account's remember tokens ======================== *)
From AB Require Import Proofs.TokenProofs.

Definition srm (h : hst) := s_rm (h_st h).
#[local] Instance dep_srm : StDep srm.
Proof. intros h h' A _. unfold srm. rewrite A. reflexivity. Qed.

Section RR.
Variable E : env.

Lemma pres_srm_st_save u : pres srm (st_save (e_O E) u).
Proof.
  unfold st_save. apply (pres_backend srm). intros h r h' Eq. inversion Eq; subst. reflexivity.
Qed.

Lemma pres_srm_set_cuser u : pres srm (set_cuser u).
Proof. intros h r h' Eq. inversion Eq; subst. reflexivity. Qed.

Ltac srm_go := repeat (first [ apply pres_srm_st_save | apply pres_srm_set_cuser | progress pres_go ]).

Lemma pres_srm_hook hk hd : hk <> HRememberReset -> pres srm (run_hook E hk false hd).
Proof.
  intros N. destruct hk; try (exfalso; apply N; reflexivity); unfold run_hook; cbn [negb]; srm_go.
Qed.
Lemma pres_srm_call hs : Forall (fun hk => hk <> HRememberReset) hs -> forall hd, pres srm (call E hs false hd).
Proof.
  induction hs as [|hk hs IH]; intros Fa hd; cbn [call].
  - apply pres_ret.
  - inversion Fa; subst. apply pres_bind; [apply pres_srm_hook; assumption|intros; apply IH; assumption].
Qed.
Lemma hooks_no_reset e : e <> EvAfterRecoverEnd -> Forall (fun hk => hk <> HRememberReset) (hooks E e).
Proof.
  intros Ne. unfold hooks. apply Forall_app. split.
  - induction (c_mods (e_cfg E)) as [|m l IH]; simpl; [constructor|].
    apply Forall_app. split; [|exact IH].
    destruct m, e; simpl; repeat constructor; try discriminate; congruence.
  - destruct e; try constructor; try discriminate.
    + destruct (c_expire (e_cfg E)); repeat constructor; discriminate.
    + destruct (c_sms_first (e_cfg E)), (c_totp (e_cfg E)), (c_sms (e_cfg E)); simpl; repeat constructor; discriminate.
Qed.
Lemma pres_srm_fire e : e <> EvAfterRecoverEnd -> pres srm (fire E e false).
Proof. intros Ne. unfold fire. apply pres_srm_call, hooks_no_reset, Ne. Qed.

(* the hooks of the recover-end event: one remember reset per loaded remember module *)
Lemma reset_hooks :
  Forall (eq HRememberReset) (hooks E EvAfterRecoverEnd) /\
  (has_mod (e_cfg E) MRemember = true -> hooks E EvAfterRecoverEnd <> []).
Proof.
  unfold hooks, has_mod. rewrite app_nil_r.
  induction (c_mods (e_cfg E)) as [|m l [IH1 IH2]]; simpl; [split; [constructor|discriminate]|].
  split.
  - apply Forall_app. split; [|exact IH1]. destruct m; simpl; repeat constructor.
  - destruct m; simpl; try exact IH2; intros _; discriminate.
Qed.

Lemma reset_hook_spec cu rm hd h r h' :
  h_cuser h = Some cu -> run_hook E HRememberReset rm hd h = (r, h') ->
  h_cuser h' = Some cu /\ s_users (h_st h') = s_users (h_st h) /\
  ((r = Ok false /\ s_rm (h_st h') = rmput (u_pid cu) [] (s_rm (h_st h))) \/
   ((exists e, r = Err e) /\ s_rm (h_st h') = s_rm (h_st h))).
Proof.
  intros Hc Eq. cbn [run_hook] in Eq.
  apply bind_inv in Eq as [(x & h1 & E1 & E2)|[(e & E1 & ->)|(E1 & ->)]];
    rewrite (current_user_ctx E h cu Hc) in E1; try discriminate E1.
  inversion E1; subst x h1; clear E1. cbn beta iota in E2.
  apply bind_inv in E2 as [(x & h1 & E1 & E2)|[(e & E1 & ->)|(E1 & ->)]]; try (inversion E1; fail).
  inversion E1; subst x h1; clear E1.
  apply bind_inv in E2 as [(x & h1 & E1 & E2)|[(e & E1 & ->)|(E1 & ->)]]; try (inversion E1; fail).
  inversion E1; subst x h1; clear E1.
  apply bind_inv in E2 as [(x & h1 & E1 & E2)|[(e & E1 & ->)|(E1 & ->)]]; unfold st_del_rm in E1;
    destruct (backend_inv E _ _ _ _ _ E1) as [(e' & Hr & _ & _ & _ & A4 & A5 & _)|(k & _ & _ & _ & A4 & A5 & _ & _ & Eb)];
    try discriminate Hr; try (inversion Eb; fail).
  - inversion Eb; subst. inversion E2; subst. simpl. rewrite A4, A5. simpl. split; [exact Hc|]. split; [reflexivity|].
    left. split; reflexivity.
  - rewrite A4, A5. simpl. split; [exact Hc|]. split; [reflexivity|]. right. split; [eauto|reflexivity].
Qed.

Lemma call_resets hs : Forall (eq HRememberReset) hs -> forall hd h r h' cu,
  h_cuser h = Some cu -> call E hs false hd h = (r, h') ->
  h_cuser h' = Some cu /\ s_users (h_st h') = s_users (h_st h) /\
  (forall p, p <> u_pid cu -> rmlookup p (s_rm (h_st h')) = rmlookup p (s_rm (h_st h))) /\
  (rmlookup (u_pid cu) (s_rm (h_st h')) = [] \/ s_rm (h_st h') = s_rm (h_st h)) /\
  ((exists b, r = Ok b) -> hs <> [] -> rmlookup (u_pid cu) (s_rm (h_st h')) = []).
Proof.
  induction hs as [|hk hs IH]; intros Fa hd h r h' cu Hc Eq; cbn [call] in Eq.
  - inversion Eq; subst. repeat split; auto. intros _ N. exfalso. apply N. reflexivity.
  - inversion Fa as [|? ? Hk Fa']; subst.
    apply bind_inv in Eq as [(i & h1 & E1 & E2)|[(e & E1 & ->)|(E1 & ->)]];
      destruct (reset_hook_spec cu _ _ _ _ _ Hc E1) as (C1 & U1 & [(Hr & S1)|((e' & Hr) & S1)]); try discriminate Hr.
    + destruct (IH Fa' _ _ _ _ cu C1 E2) as (C2 & U2 & O2 & P2 & L2).
      assert (PE : rmlookup (u_pid cu) (s_rm (h_st h')) = []).
      { destruct P2 as [P2|P2]; [exact P2|]. rewrite P2, S1. apply rmlookup_rmput_eq. }
      split; [exact C2|]. split; [congruence|]. split.
      * intros p Np. rewrite (O2 p Np), S1. apply rmlookup_rmput_neq. exact Np.
      * split; [left; exact PE|]. intros _ _. exact PE.
    + split; [exact C1|]. split; [exact U1|]. split; [intros p _; rewrite S1; reflexivity|].
      split; [right; exact S1|]. intros (b & Hb) _. discriminate Hb.
Qed.

Notation vals := (values E).
Notation now := (o_now (e_O E)).

(* the remember table through a recover-end request *)
Lemma recover_end_rm_cases h r h' :
  recover_end_post E h = (r, h') ->
  h_st h' = h_st h \/
  exists raw u,
    b64url_dec (aget f_token vals) = Some raw /\
    ufind (fun u => beqb (u_rsel u) (selector_of E raw)) (s_users (h_st h)) = Some u /\
    (forall p, p <> u_pid u -> rmlookup p (s_rm (h_st h')) = rmlookup p (s_rm (h_st h))) /\
    (rmlookup (u_pid u) (s_rm (h_st h')) = [] \/ s_rm (h_st h') = s_rm (h_st h)) /\
    (r = Ok tt -> has_mod (e_cfg E) MRemember = true -> rmlookup (u_pid u) (s_rm (h_st h')) = []).
Proof.
  intros Eq. unfold recover_end_post in Eq.
  apply bind_inv in Eq as [(v & h1 & E1 & E2)|[(e & E1 & ->)|(E1 & ->)]];
    apply read_values_spec in E1 as [-> [Hv|Hv]]; try discriminate Hv; auto.
  inversion Hv; subst v; clear Hv. cbn beta zeta in E2.
  destruct (valid [password_rule] pw_pairs vals) eqn:V; cbn [negb] in E2.
  2:{ left. revert E2. apply pres_bind; [apply pres_log; exact _|intros; apply pres_respond; exact _]. }
  destruct (b64url_dec (aget f_token vals)) as [raw|] eqn:Dec; [|left; eapply pres_invalid_recover; eauto].
  destruct (Nat.eqb (length raw) 64) eqn:Len; cbn [negb] in E2; [|left; eapply pres_invalid_recover; eauto].
  apply try_inv in E2 as [(x & h2 & L & NP & K)|(L & ->)].
  2:{ apply st_load_by_rsel_spec in L. destruct L as (_ & _ & N & _). congruence. }
  apply st_load_by_rsel_spec in L as (S2 & _ & _ & Hu).
  destruct x as [u|e|]; [|destruct e|congruence];
    try (left; rewrite <- S2; eapply pres_invalid_recover; eauto; fail);
    try (left; inversion K; subst; exact S2; fail).
  specialize (Hu u eq_refl).
  destruct (u_rexp u <? now) eqn:Exp; [left; rewrite <- S2; eapply pres_invalid_recover; eauto|].
  destruct (b64std_dec (u_rver u)) as [dbv|] eqn:Dv; [|left; rewrite <- S2; eapply pres_invalid_recover; eauto].
  destruct (beqb (sha (e_C E) (half2 raw)) dbv) eqn:Ver; cbn [negb] in K;
    [|left; rewrite <- S2; eapply pres_invalid_recover; eauto].
  apply bind_pres_inv in K as [(a & h3 & _ & S3 & K)|K]; [|left; congruence|apply pres_st_set_cuser].
  apply bind_pres_inv in K as [(a1 & h4 & _ & S4 & K)|K]; [|left; congruence|
    destruct (72 <? length (aget f_password vals))%nat; [apply pres_backend; [exact _|apply pres_fail]|apply pres_ret]].
  apply bind_pres_inv in K as [(pass & h5 & _ & S5 & K)|K]; [|left; congruence|apply pres_backend; [exact _|apply pres_ret]].
  cbn beta zeta in K.
  match type of K with (set_cuser ?x ;;; _) _ = _ => set (u' := x) in * end.
  apply bind_inv in K as [(a2 & h6 & K1 & K)|[(e & K1 & ->)|(K1 & ->)]]; try (inversion K1; fail).
  inversion K1; subst a2 h6; clear K1.
  apply bind_inv in K as [(a3 & h7 & K1 & K)|[(e & K1 & ->)|(K1 & ->)]];
    apply st_save_spec in K1 as (_ & _ & _ & Cu & [(e' & Hr & St)|(Hr & St)]); try discriminate Hr;
    try (left; rewrite St; simpl; congruence).
  simpl in St, Cu.
  assert (R7 : s_rm (h_st h7) = s_rm (h_st h)) by (rewrite St; simpl; congruence).
  right. exists raw, u. split; [reflexivity|]. split; [exact Hu|].
  change (u_pid u) with (u_pid u').
  destruct reset_hooks as [RH1 RH2].
  apply bind_inv in K as [(a4 & h8 & K1 & K)|[(e & K1 & ->)|(K1 & ->)]];
    unfold fire in K1; destruct (call_resets _ RH1 _ _ _ _ u' Cu K1) as (C8 & _ & O8 & P8 & L8);
    rewrite R7 in *.
  - assert (T : s_rm (h_st h') = s_rm (h_st h8)).
    { revert K. generalize h8 r h'.
      change (pres srm (if c_recover_login (e_cfg E)
                then handled <- fire E EvBeforeAuth false ;;
                     (if handled then ret tt
                      else handled0 <- fire E EvBeforeHijack false ;;
                           (if handled0 then ret tt
                            else put_session k_uid (u_pid u') ;;;
                                 handled1 <- fire E EvAfterAuth false ;;
                                 (if handled1 then ret tt else redirect E (ro_ok (p_recover_ok_of (e_cfg E))))))
                else redirect E (ro_ok (p_recover_ok_of (e_cfg E))))).
      assert (KR : forall ro, pres srm (redirect E ro)) by (intros; apply pres_redirect; exact _).
      destruct (c_recover_login (e_cfg E)); [|apply KR].
      apply pres_bind; [apply pres_srm_fire; discriminate|intros hd1].
      destruct hd1; [apply pres_ret|].
      apply pres_bind; [apply pres_srm_fire; discriminate|intros hd2].
      destruct hd2; [apply pres_ret|].
      apply pres_bind; [apply pres_put_session; exact _|intros _].
      apply pres_bind; [apply pres_srm_fire; discriminate|intros hd3].
      destruct hd3; [apply pres_ret|apply KR]. }
    rewrite T. split; [exact O8|]. split; [exact P8|]. intros _ HM. apply L8; [eauto|apply RH2, HM].
  - split; [exact O8|]. split; [exact P8|]. intros Hx. discriminate Hx.
  - split; [exact O8|]. split; [exact P8|]. intros Hx. discriminate Hx.
Qed.

(* C06 for the recover flow.  p: an account whose stored record this request changed. *)
Lemma recover_revokes_tokens_lemma h r h' p :
  recover_end_post E h = (r, h') ->
  ulookup p (s_users (h_st h')) <> ulookup p (s_users (h_st h)) ->
  (forall q, q <> p ->
     ulookup q (s_users (h_st h')) = ulookup q (s_users (h_st h)) /\
     rmlookup q (s_rm (h_st h')) = rmlookup q (s_rm (h_st h))) /\
  (rmlookup p (s_rm (h_st h')) = [] \/ rmlookup p (s_rm (h_st h')) = rmlookup p (s_rm (h_st h))) /\
  (r = Ok tt -> has_mod (e_cfg E) MRemember = true -> rmlookup p (s_rm (h_st h')) = []).
Proof.
  intros Eq Ch.
  destruct (recover_end_cases E _ _ _ Eq) as [U|(raw & u & A1 & _ & A3 & _ & _ & _ & _ & _ & Fr)];
    [rewrite U in Ch; contradiction|].
  destruct (recover_end_rm_cases _ _ _ Eq) as [U|(raw' & u' & B1 & B2 & Oth & Own & Okk)];
    [rewrite U in Ch; contradiction|].
  assert (raw' = raw) by congruence. subst raw'. assert (u' = u) by congruence. subst u'.
  assert (p = u_pid u).
  { destruct (bytes_dec p (u_pid u)) as [e|N]; [exact e|]. exfalso. apply Ch. apply Fr. exact N. }
  subst p. split; [|split].
  - intros q Nq. split; [apply Fr; exact Nq|apply Oth; exact Nq].
  - destruct Own as [O1|O1]; [left; exact O1|right; rewrite O1; reflexivity].
  - exact Okk.
Qed.

(* the same, read as the property words it: the request changed the password stored for p *)
Lemma recover_password_change_revokes_lemma h r h' p a b :
  recover_end_post E h = (r, h') ->
  ulookup p (s_users (h_st h)) = Some a -> ulookup p (s_users (h_st h')) = Some b ->
  u_password b <> u_password a ->
  (forall q, q <> p ->
     ulookup q (s_users (h_st h')) = ulookup q (s_users (h_st h)) /\
     rmlookup q (s_rm (h_st h')) = rmlookup q (s_rm (h_st h))) /\
  (rmlookup p (s_rm (h_st h')) = [] \/ rmlookup p (s_rm (h_st h')) = rmlookup p (s_rm (h_st h))) /\
  (r = Ok tt -> has_mod (e_cfg E) MRemember = true -> rmlookup p (s_rm (h_st h')) = []).
Proof.
  intros Eq La Lb Np. apply (recover_revokes_tokens_lemma h r h' p Eq).
  rewrite La, Lb. intros H. inversion H; subst. apply Np. reflexivity.
Qed.
End RR.
