(* C20, sequential core: a request touches only the accounts it names, and its outcome depends
   only on them.

   One relational Hoare logic [J F m R] over a set of account identifiers F ("footprint"):
   run m from two states h1 h2 that
     - are well formed ([wf]: the user table is well filed, the context user and the context
       pid, if set, are in F),
     - carry the same request-local data ([rest]: pending events, first write, outboxes, logs,
       context user / pid, backend-call counter, randomness) and
     - [agree] on the records and remember tokens of every pid in F (anything may differ outside);
   then both runs return the SAME result, end in states that are again well formed, have the
   same request-local data and agree on F, and the first run has left every record and token
   list outside F exactly as it was ([frame]).
   Taking h2 := h1 gives the store footprint; the general case gives outcome independence. *)
From AB Require Import World.Handlers Proofs.EvLogic Proofs.Neutral Proofs.MonadInv Proofs.StoreLogic
  Proofs.TwoFactorProofs.
Open Scope Z_scope.

(* everything in the handler state except storage *)
Definition rest (h : hst) :=
  (h_sev h, h_cev h, h_out h, h_mails h, h_smss h, h_logs h, h_cuser h, h_cpid h,
   h_ncalls h, h_calls h, h_fresh h, h_starved h).

Lemma rest_inv h1 h2 : rest h1 = rest h2 ->
  h_sev h1 = h_sev h2 /\ h_cev h1 = h_cev h2 /\ h_out h1 = h_out h2 /\ h_mails h1 = h_mails h2 /\
  h_smss h1 = h_smss h2 /\ h_logs h1 = h_logs h2 /\ h_cuser h1 = h_cuser h2 /\ h_cpid h1 = h_cpid h2 /\
  h_ncalls h1 = h_ncalls h2 /\ h_calls h1 = h_calls h2 /\ h_fresh h1 = h_fresh h2 /\ h_starved h1 = h_starved h2.
Proof. unfold rest. intros H. injection H. intros. repeat split; assumption. Qed.

Ltac rest_tac_n h1 h2 :=
  let Hr := fresh "Hr" in
  intros h1 h2 Hr; apply rest_inv in Hr;
  destruct Hr as (?R1 & ?R2 & ?R3 & ?R4 & ?R5 & ?R6 & ?R7 & ?R8 & ?R9 & ?R10 & ?R11 & ?R12).
Ltac rest_tac := let a := fresh "ha" in let b := fresh "hb" in rest_tac_n a b.

Ltac jsplit := split; [|split; [|split; [|split; [|split]]]].

Section FP.
Variable F : bytes -> Prop.

Definition agree (s1 s2 : storage) : Prop :=
  forall p, F p -> ulookup p (s_users s1) = ulookup p (s_users s2) /\
                   rmlookup p (s_rm s1) = rmlookup p (s_rm s2).
Definition frame (s s' : storage) : Prop :=
  forall p, ~ F p -> ulookup p (s_users s') = ulookup p (s_users s) /\
                     rmlookup p (s_rm s') = rmlookup p (s_rm s).
Definition wf (h : hst) : Prop :=
  filed (h_st h) /\ (forall cu, h_cuser h = Some cu -> F (u_pid cu)) /\ (forall p, h_cpid h = Some p -> F p).
Definition sim (h1 h2 : hst) : Prop := rest h1 = rest h2 /\ agree (h_st h1) (h_st h2).

Definition Jat {A} (h1 h2 : hst) (m : M A) (R : A -> Prop) : Prop :=
  forall r1 h1' r2 h2', wf h1 -> wf h2 -> sim h1 h2 -> m h1 = (r1, h1') -> m h2 = (r2, h2') ->
    r1 = r2 /\ wf h1' /\ wf h2' /\ sim h1' h2' /\ frame (h_st h1) (h_st h1') /\ forall a, r1 = Ok a -> R a.
Definition J {A} (m : M A) (R : A -> Prop) : Prop := forall h1 h2, Jat h1 h2 m R.

Lemma frame_refl s : frame s s.
Proof. intros p _. auto. Qed.
Lemma frame_eq s s' : s' = s -> frame s s'.
Proof. intros ->. apply frame_refl. Qed.
Lemma frame_trans s1 s2 s3 : frame s1 s2 -> frame s2 s3 -> frame s1 s3.
Proof. intros A B p N. destruct (A p N) as [A1 A2]. destruct (B p N) as [B1 B2]. split; congruence. Qed.

Lemma wf_same h h' : h_st h' = h_st h -> h_cuser h' = h_cuser h -> h_cpid h' = h_cpid h -> wf h -> wf h'.
Proof. intros A B C W. unfold wf. rewrite A, B, C. exact W. Qed.
Lemma sim_same h1 h2 h1' h2' :
  rest h1' = rest h2' -> h_st h1' = h_st h1 -> h_st h2' = h_st h2 -> sim h1 h2 -> sim h1' h2'.
Proof. intros R A B [_ Ag]. split; [exact R|]. rewrite A, B. exact Ag. Qed.

Lemma Jat_weaken {A} h1 h2 (m : M A) (R R' : A -> Prop) : Jat h1 h2 m R -> (forall a, R a -> R' a) -> Jat h1 h2 m R'.
Proof.
  intros Hm W r1 k1 r2 k2 W1 W2 S E1 E2. destruct (Hm _ _ _ _ W1 W2 S E1 E2) as (A1 & A2 & A3 & A4 & A5 & A6).
  jsplit; auto.
Qed.
Lemma J_weaken {A} (m : M A) (R R' : A -> Prop) : J m R -> (forall a, R a -> R' a) -> J m R'.
Proof. intros Hm W h1 h2. eapply Jat_weaken; [apply Hm|exact W]. Qed.
Lemma J_top {A} (m : M A) R : J m R -> J m (fun _ => True).
Proof. intros Hm. apply (J_weaken m R); auto. Qed.

Lemma J_ret {A} (a : A) (R : A -> Prop) : R a -> J (ret a) R.
Proof.
  intros Ha h1 h2 r1 k1 r2 k2 W1 W2 S E1 E2. inversion E1; inversion E2; subst.
  jsplit; auto; [apply frame_refl|]. intros a' H. inversion H; subst. exact Ha.
Qed.
Lemma J_ret_top {A} (a : A) : J (ret a) (fun _ => True).
Proof. apply J_ret. exact I. Qed.
Lemma J_fail {A} e (R : A -> Prop) : J (fail e) R.
Proof.
  intros h1 h2 r1 k1 r2 k2 W1 W2 S E1 E2. inversion E1; inversion E2; subst.
  jsplit; auto; [apply frame_refl|]. intros a' H. discriminate H.
Qed.
Lemma J_panic {A} (R : A -> Prop) : J panic R.
Proof.
  intros h1 h2 r1 k1 r2 k2 W1 W2 S E1 E2. inversion E1; inversion E2; subst.
  jsplit; auto; [apply frame_refl|]. intros a' H. discriminate H.
Qed.

Lemma Jat_bind {A B} h1 h2 (m : M A) (f : A -> M B) R R' :
  Jat h1 h2 m R -> (forall a, R a -> J (f a) R') -> Jat h1 h2 (bind m f) R'.
Proof.
  intros Hm Hf r1 k1 r2 k2 W1 W2 S E1 E2. unfold bind in E1, E2.
  destruct (m h1) as [x1 j1] eqn:M1. destruct (m h2) as [x2 j2] eqn:M2.
  destruct (Hm _ _ _ _ W1 W2 S M1 M2) as (Ex & W1' & W2' & S' & Fr & Ra). subst x2.
  destruct x1 as [a|e|].
  - destruct (Hf a (Ra a eq_refl) j1 j2 _ _ _ _ W1' W2' S' E1 E2) as (Er & W1'' & W2'' & S'' & Fr' & Rb).
    jsplit; auto. eapply frame_trans; eauto.
  - inversion E1; inversion E2; subst. jsplit; auto. intros a H. discriminate H.
  - inversion E1; inversion E2; subst. jsplit; auto. intros a H. discriminate H.
Qed.
Lemma J_bind {A B} (m : M A) (f : A -> M B) R R' :
  J m R -> (forall a, R a -> J (f a) R') -> J (bind m f) R'.
Proof. intros Hm Hf h1 h2. eapply Jat_bind; [apply Hm|exact Hf]. Qed.

Lemma Jat_try {A B} h1 h2 (m : M A) (f : res A -> M B) R R' :
  Jat h1 h2 m R -> (forall a, R a -> J (f (Ok a)) R') -> (forall e, J (f (Err e)) R') -> Jat h1 h2 (try m f) R'.
Proof.
  intros Hm Hok Herr r1 k1 r2 k2 W1 W2 S E1 E2. unfold try in E1, E2.
  destruct (m h1) as [x1 j1] eqn:M1. destruct (m h2) as [x2 j2] eqn:M2.
  destruct (Hm _ _ _ _ W1 W2 S M1 M2) as (Ex & W1' & W2' & S' & Fr & Ra). subst x2.
  destruct x1 as [a|e|].
  - destruct (Hok a (Ra a eq_refl) j1 j2 _ _ _ _ W1' W2' S' E1 E2) as (Er & W1'' & W2'' & S'' & Fr' & Rb).
    jsplit; auto. eapply frame_trans; eauto.
  - destruct (Herr e j1 j2 _ _ _ _ W1' W2' S' E1 E2) as (Er & W1'' & W2'' & S'' & Fr' & Rb).
    jsplit; auto. eapply frame_trans; eauto.
  - inversion E1; inversion E2; subst. jsplit; auto. intros a H. discriminate H.
Qed.
Lemma J_try {A B} (m : M A) (f : res A -> M B) R R' :
  J m R -> (forall a, R a -> J (f (Ok a)) R') -> (forall e, J (f (Err e)) R') -> J (try m f) R'.
Proof. intros Hm Hok Herr h1 h2. eapply Jat_try; [apply Hm|exact Hok|exact Herr]. Qed.

(* a computation that neither reads nor writes storage, the context user or the context pid *)
Lemma J_restfun {A} (m : M A) :
  (forall h, h_st (snd (m h)) = h_st h /\ h_cuser (snd (m h)) = h_cuser h /\ h_cpid (snd (m h)) = h_cpid h) ->
  (forall h1 h2, rest h1 = rest h2 -> fst (m h1) = fst (m h2) /\ rest (snd (m h1)) = rest (snd (m h2))) ->
  J m (fun _ => True).
Proof.
  intros P1 P2 h1 h2 r1 k1 r2 k2 W1 W2 S E1 E2.
  destruct (P1 h1) as (A1 & A2 & A3). destruct (P1 h2) as (B1 & B2 & B3).
  destruct (P2 h1 h2 (proj1 S)) as (C1 & C2). rewrite E1 in *. rewrite E2 in *. simpl in *.
  jsplit; auto.
  - eapply wf_same; eauto.
  - eapply wf_same; eauto.
  - eapply sim_same; eauto.
  - apply frame_eq. exact A1.
Qed.

Lemma J_modify f :
  (forall h, h_st (f h) = h_st h /\ h_cuser (f h) = h_cuser h /\ h_cpid (f h) = h_cpid h) ->
  (forall h1 h2, rest h1 = rest h2 -> rest (f h1) = rest (f h2)) ->
  J (modify f) (fun _ => True).
Proof. intros P1 P2. apply J_restfun; [exact P1|]. intros h1 h2 Hr. simpl. split; [reflexivity|auto]. Qed.

Ltac jmod := apply J_modify; [intros h; simpl; auto|rest_tac; unfold rest; simpl; congruence].

Lemma J_put_session k v : J (put_session k v) (fun _ => True). Proof. unfold put_session. jmod. Qed.
Lemma J_del_session k : J (del_session k) (fun _ => True). Proof. unfold del_session. jmod. Qed.
Lemma J_delall_session wl : J (delall_session wl) (fun _ => True). Proof. unfold delall_session. jmod. Qed.
Lemma J_put_cookie k v : J (put_cookie k v) (fun _ => True). Proof. unfold put_cookie. jmod. Qed.
Lemma J_del_cookie k : J (del_cookie k) (fun _ => True). Proof. unfold del_cookie. jmod. Qed.
Lemma J_log a : J (log a) (fun _ => True). Proof. unfold log. jmod. Qed.
Lemma J_write_resp r : J (write_resp r) (fun _ => True).
Proof.
  unfold write_resp. apply J_modify.
  - intros h. destruct (h_out h); simpl; auto.
  - rest_tac_n ha hb. rewrite R3. destruct (h_out hb) eqn:Ho; unfold rest; simpl; congruence.
Qed.
Lemma J_fresh n : J (fresh n) (fun _ => True).
Proof.
  apply J_restfun.
  - intros h. unfold fresh. destruct (take_chunk n (h_fresh h)) as [[c t]|]; simpl; auto.
  - rest_tac_n ha hb. unfold fresh. rewrite R11. destruct (take_chunk n (h_fresh hb)) as [[c t]|] eqn:Ht; unfold rest; simpl; split; congruence.
Qed.

(* ---- backend calls ---------------------------------------------------------------------------- *)
Definition tick (k : callkind) (h : hst) : hst := h <| h_ncalls := S (h_ncalls h) |> <| h_calls := k :: h_calls h |>.

Lemma wf_tick k h : wf h -> wf (tick k h).
Proof. apply wf_same; reflexivity. Qed.
Lemma sim_tick k h1 h2 : sim h1 h2 -> sim (tick k h1) (tick k h2).
Proof.
  intros S. apply (sim_same h1 h2); [|reflexivity|reflexivity|exact S].
  destruct S as [Hr _]. revert Hr. generalize h1 h2. rest_tac. unfold rest, tick. simpl. congruence.
Qed.

Lemma Jat_backend {A} O k (body : M A) R h1 h2 :
  Jat (tick k h1) (tick k h2) body R -> Jat h1 h2 (backend O k body) R.
Proof.
  intros Hb r1 k1 r2 k2 W1 W2 S E1 E2. unfold backend in E1, E2.
  assert (N : h_ncalls h1 = h_ncalls h2) by (destruct (rest_inv _ _ (proj1 S)); tauto).
  cbv zeta in E1, E2. fold (tick k h1) in E1. fold (tick k h2) in E2. rewrite N in E1.
  destruct (fault_at (h_ncalls h2) (o_faults O)) as [[|]|].
  - inversion E1; inversion E2; subst. jsplit; auto using wf_tick, sim_tick; [apply frame_refl|intros a H; discriminate H].
  - inversion E1; inversion E2; subst. jsplit; auto using wf_tick, sim_tick; [apply frame_refl|intros a H; discriminate H].
  - exact (Hb _ _ _ _ (wf_tick k _ W1) (wf_tick k _ W2) (sim_tick k _ _ S) E1 E2).
Qed.
Lemma J_backend {A} O k (body : M A) R : J body R -> J (backend O k body) R.
Proof. intros Hb h1 h2. apply Jat_backend. apply Hb. Qed.

(* reading the record of a pid of the footprint *)
Lemma J_read_user {A} pid (m : M A) (g : option user -> res A) (R : A -> Prop) :
  F pid -> (forall h, m h = (g (ulookup pid (s_users (h_st h))), h)) ->
  (forall o a, (forall u, o = Some u -> u_pid u = pid) -> g o = Ok a -> R a) -> J m R.
Proof.
  intros Hp Hm Hg h1 h2 r1 k1 r2 k2 W1 W2 S E1 E2. rewrite Hm in E1, E2.
  destruct (proj2 S pid Hp) as [Eu _]. rewrite Eu in E1. inversion E1; inversion E2; subst.
  jsplit; auto; [apply frame_refl|]. intros a Ha. apply (Hg _ _ (fun u Hu => filed_keyed _ (proj1 W2) _ _ Hu) Ha).
Qed.

Lemma J_st_load O pid : F pid -> J (st_load O pid) (fun u => F (u_pid u)).
Proof.
  intros Hp. unfold st_load. apply J_backend.
  apply (J_read_user pid _ (fun o => match o with Some u => Ok u | None => Err ErrUserNotFound end)); [exact Hp| |].
  - intros h. destruct (ulookup pid (s_users (h_st h))); reflexivity.
  - intros o a Ho Ha. destruct o; inversion Ha; subst. rewrite (Ho a eq_refl). exact Hp.
Qed.

Lemma J_save_body u :
  F (u_pid u) ->
  J (modify (fun h => h <| h_st := h_st h <| s_users := uput (u_pid u) u (s_users (h_st h)) |> |>)) (fun _ => True).
Proof.
  intros Hp h1 h2 r1 k1 r2 k2 W1 W2 S E1 E2. inversion E1; inversion E2; subst. clear E1 E2.
  destruct W1 as (F1 & C1 & P1). destruct W2 as (F2 & C2 & P2). destruct S as (Sr & Sa).
  jsplit; auto.
  - split; [unfold filed; simpl; apply filedl_uput; exact F1|split; simpl; assumption].
  - split; [unfold filed; simpl; apply filedl_uput; exact F2|split; simpl; assumption].
  - split.
    + revert Sr. generalize h1 h2. rest_tac. unfold rest. simpl. congruence.
    + intros p Fp. simpl. destruct (bytes_dec p (u_pid u)) as [->|N].
      * rewrite !ulookup_uput_eq. split; [reflexivity|apply Sa; exact Fp].
      * rewrite !ulookup_uput_neq by exact N. apply Sa. exact Fp.
  - intros p Np. simpl. assert (N : p <> u_pid u) by (intros ->; contradiction).
    rewrite ulookup_uput_neq by exact N. auto.
Qed.
Lemma J_st_save O u : F (u_pid u) -> J (st_save O u) (fun _ => True).
Proof. intros Hp. unfold st_save. apply J_backend, J_save_body, Hp. Qed.

Lemma J_st_create O u : F (u_pid u) -> J (st_create O u) (fun _ => True).
Proof.
  intros Hp. unfold st_create. apply J_backend.
  intros h1 h2 r1 k1 r2 k2 W1 W2 S E1 E2.
  destruct (proj2 S _ Hp) as [Eu _]. rewrite Eu in E1.
  destruct W1 as (F1 & C1 & P1). destruct W2 as (F2 & C2 & P2). destruct S as (Sr & Sa).
  destruct (ulookup (u_pid u) (s_users (h_st h2))) eqn:L; inversion E1; inversion E2; subst; clear E1 E2.
  - jsplit; auto; [split; [exact F1|split; assumption]|split; [exact F2|split; assumption]|split; assumption|apply frame_refl].
  - jsplit; auto.
    + split; [unfold filed; simpl; apply filedl_snoc; [exact F1|exact Eu]|split; simpl; assumption].
    + split; [unfold filed; simpl; apply filedl_snoc; [exact F2|exact L]|split; simpl; assumption].
    + split.
      * revert Sr. generalize h1 h2. rest_tac. unfold rest. simpl. congruence.
      * intros p Fp. simpl. destruct (bytes_dec p (u_pid u)) as [->|N].
        -- rewrite (ulookup_snoc_new _ _ _ L). rewrite (ulookup_snoc_new _ _ _ Eu).
           split; [reflexivity|apply Sa; exact Fp].
        -- rewrite !ulookup_snoc_other by exact N. apply Sa. exact Fp.
    + intros p Np. simpl. assert (N : p <> u_pid u) by (intros ->; contradiction).
      rewrite ulookup_snoc_other by exact N. auto.
Qed.

(* the remember table *)
Lemma J_rm_body pid (g : list bytes -> list bytes) :
  F pid ->
  J (modify (fun h => h <| h_st := h_st h <| s_rm := rmput pid (g (rmlookup pid (s_rm (h_st h)))) (s_rm (h_st h)) |> |>))
    (fun _ => True).
Proof.
  intros Hp h1 h2 r1 k1 r2 k2 W1 W2 S E1 E2. inversion E1; inversion E2; subst. clear E1 E2.
  destruct W1 as (F1 & C1 & P1). destruct W2 as (F2 & C2 & P2). destruct S as (Sr & Sa).
  jsplit; auto.
  - split; [exact F1|split; simpl; assumption].
  - split; [exact F2|split; simpl; assumption].
  - split.
    + revert Sr. generalize h1 h2. rest_tac. unfold rest. simpl. congruence.
    + intros p Fp. simpl. destruct (bytes_dec p pid) as [->|N].
      * rewrite !rmlookup_rmput_eq. destruct (Sa pid Hp) as [A1 A2]. rewrite A2. auto.
      * rewrite !rmlookup_rmput_neq by exact N. apply Sa. exact Fp.
  - intros p Np. simpl. assert (N : p <> pid) by (intros ->; contradiction).
    rewrite rmlookup_rmput_neq by exact N. auto.
Qed.
Lemma J_st_add_rm O pid tok : F pid -> J (st_add_rm O pid tok) (fun _ => True).
Proof. intros Hp. unfold st_add_rm. apply J_backend. exact (J_rm_body pid (fun ts => ts ++ [tok]) Hp). Qed.
Lemma J_st_del_rm O pid : F pid -> J (st_del_rm O pid) (fun _ => True).
Proof. intros Hp. unfold st_del_rm. apply J_backend. exact (J_rm_body pid (fun _ => []) Hp). Qed.
Lemma J_st_use_rm O pid tok : F pid -> J (st_use_rm O pid tok) (fun _ => True).
Proof.
  intros Hp. unfold st_use_rm. apply J_backend.
  intros h1 h2 r1 k1 r2 k2 W1 W2 S E1 E2. cbv zeta in E1, E2.
  destruct (proj2 S _ Hp) as [_ Er].
  pose proof (J_rm_body pid (remove_first tok) Hp h1 h2 (Ok tt) _ (Ok tt) _ W1 W2 S eq_refl eq_refl) as Hb.
  rewrite Er in E1.
  destruct (bmem tok (rmlookup pid (s_rm (h_st h2)))).
  - rewrite <- Er in E1. inversion E1; inversion E2; subst. exact Hb.
  - inversion E1; inversion E2; subst. jsplit; auto; try apply frame_refl; try (intros a H; discriminate H).
Qed.

(* the context *)
Lemma J_set_cuser u : F (u_pid u) -> J (set_cuser u) (fun _ => True).
Proof.
  intros Hp h1 h2 r1 k1 r2 k2 W1 W2 S E1 E2. inversion E1; inversion E2; subst. clear E1 E2.
  destruct W1 as (F1 & C1 & P1). destruct W2 as (F2 & C2 & P2). destruct S as (Sr & Sa).
  jsplit; auto.
  - split; [exact F1|split; simpl; [intros cu Hc; inversion Hc; subst; exact Hp|assumption]].
  - split; [exact F2|split; simpl; [intros cu Hc; inversion Hc; subst; exact Hp|assumption]].
  - split; [|exact Sa]. revert Sr. generalize h1 h2. rest_tac. unfold rest. simpl. congruence.
  - apply frame_refl.
Qed.
Lemma J_set_cpid p : F p -> J (set_cpid p) (fun _ => True).
Proof.
  intros Hp h1 h2 r1 k1 r2 k2 W1 W2 S E1 E2. inversion E1; inversion E2; subst. clear E1 E2.
  destruct W1 as (F1 & C1 & P1). destruct W2 as (F2 & C2 & P2). destruct S as (Sr & Sa).
  jsplit; auto.
  - split; [exact F1|split; simpl; [assumption|intros q Hq; inversion Hq; subst; exact Hp]].
  - split; [exact F2|split; simpl; [assumption|intros q Hq; inversion Hq; subst; exact Hp]].
  - split; [|exact Sa]. revert Sr. generalize h1 h2. rest_tac. unfold rest. simpl. congruence.
  - apply frame_refl.
Qed.

Lemma J_with_cuser {A} (k : option user -> M A) R :
  (forall o, (forall u, o = Some u -> F (u_pid u)) -> J (k o) R) -> J (bind get_h (fun h => k (h_cuser h))) R.
Proof.
  intros Hk h1 h2 r1 k1 r2 k2 W1 W2 S E1 E2. unfold bind, get_h in E1, E2.
  assert (N : h_cuser h1 = h_cuser h2) by (destruct (rest_inv _ _ (proj1 S)); tauto).
  rewrite N in E1. exact (Hk (h_cuser h2) (proj1 (proj2 W2)) h1 h2 _ _ _ _ W1 W2 S E1 E2).
Qed.
Lemma J_with_cpid {A} (k : option bytes -> M A) R :
  (forall o, (forall p, o = Some p -> F p) -> J (k o) R) -> J (bind get_h (fun h => k (h_cpid h))) R.
Proof.
  intros Hk h1 h2 r1 k1 r2 k2 W1 W2 S E1 E2. unfold bind, get_h in E1, E2.
  assert (N : h_cpid h1 = h_cpid h2) by (destruct (rest_inv _ _ (proj1 S)); tauto).
  rewrite N in E1. exact (Hk (h_cpid h2) (proj2 (proj2 W2)) h1 h2 _ _ _ _ W1 W2 S E1 E2).
Qed.

(* selector queries look at every record: they are covered at the two start states, given that
   both stores answer the query alike and the record found is in the footprint *)
Lemma Jat_find (f : user -> bool) (m : M user) h1 h2 :
  (forall h, m h = (match ufind f (s_users (h_st h)) with Some u => Ok u | None => Err ErrUserNotFound end, h)) ->
  ufind f (s_users (h_st h1)) = ufind f (s_users (h_st h2)) ->
  (forall u, ufind f (s_users (h_st h1)) = Some u -> F (u_pid u)) ->
  Jat h1 h2 m (fun u => F (u_pid u)).
Proof.
  intros Hm Eq Hf r1 k1 r2 k2 W1 W2 S E1 E2. rewrite Hm in E1, E2. rewrite <- Eq in E2.
  inversion E1; inversion E2; subst. jsplit; auto; [apply frame_refl|].
  intros a Ha. destruct (ufind f (s_users (h_st k1))) eqn:U; inversion Ha; subst. apply Hf. reflexivity.
Qed.
Lemma Jat_load_by_csel O sel h1 h2 :
  ufind (fun u => beqb (u_csel u) sel) (s_users (h_st h1)) = ufind (fun u => beqb (u_csel u) sel) (s_users (h_st h2)) ->
  (forall u, ufind (fun u => beqb (u_csel u) sel) (s_users (h_st h1)) = Some u -> F (u_pid u)) ->
  Jat h1 h2 (st_load_by_csel O sel) (fun u => F (u_pid u)).
Proof.
  intros Eq Hf. unfold st_load_by_csel. apply Jat_backend.
  apply (Jat_find (fun u => beqb (u_csel u) sel)); [|exact Eq|exact Hf].
  intros h. destruct (ufind _ (s_users (h_st h))); reflexivity.
Qed.
Lemma Jat_load_by_rsel O sel h1 h2 :
  ufind (fun u => beqb (u_rsel u) sel) (s_users (h_st h1)) = ufind (fun u => beqb (u_rsel u) sel) (s_users (h_st h2)) ->
  (forall u, ufind (fun u => beqb (u_rsel u) sel) (s_users (h_st h1)) = Some u -> F (u_pid u)) ->
  Jat h1 h2 (st_load_by_rsel O sel) (fun u => F (u_pid u)).
Proof.
  intros Eq Hf. unfold st_load_by_rsel. apply Jat_backend.
  apply (Jat_find (fun u => beqb (u_rsel u) sel)); [|exact Eq|exact Hf].
  intros h. destruct (ufind _ (s_users (h_st h))); reflexivity.
Qed.

(* a computation that does not look at the state at all and leaves it alone *)
Lemma Jat_const_bind {A B} (m : M A) (x : res A) (f : A -> M B) R h1 h2 :
  (forall h, m h = (x, h)) ->
  (forall a, x = Ok a -> Jat h1 h2 (f a) R) -> Jat h1 h2 (bind m f) R.
Proof.
  intros Hm Hf r1 k1 r2 k2 W1 W2 S E1 E2. unfold bind in E1, E2. rewrite Hm in E1, E2.
  destruct x as [a|e|].
  - exact (Hf a eq_refl _ _ _ _ W1 W2 S E1 E2).
  - inversion E1; inversion E2; subst. jsplit; auto; try apply frame_refl; try (intros a H; discriminate H).
  - inversion E1; inversion E2; subst. jsplit; auto; try apply frame_refl; try (intros a H; discriminate H).
Qed.
End FP.

(* ---- the syntax-directed prover ------------------------------------------------------------------ *)
Ltac jside :=
  cbn [fst snd] in *;
  first [ exact I
        | assumption
        | match goal with H : ?G (u_pid ?u) |- ?G (u_pid _) => exact H end
        | solve [auto]
        | solve [eauto]
        | subst; solve [auto] ].

Ltac j_atom lem := first [ apply lem | eapply J_top; apply lem ].
Ltac j_atom_s lem := first [ apply lem; jside | eapply J_top; apply lem; jside ].
Ltac j_modify := first [ apply J_modify | eapply J_top; apply J_modify ];
                 [intros; simpl; auto|rest_tac; unfold rest; simpl; congruence].

Ltac j_extra := fail.
Ltac j_step :=
  match goal with
  | |- J _ _ _ => j_extra
  | |- J _ (bind _ _) _ => eapply J_bind; [|intros]
  | |- J _ (try _ _) _ => eapply J_try; [|intros|intros]
  | |- J _ (ret _) _ => first [apply J_ret_top | apply J_ret; jside]
  | |- J _ (fail _) _ => apply J_fail
  | |- J _ panic _ => apply J_panic
  | |- J _ (put_session _ _) _ => j_atom J_put_session
  | |- J _ (del_session _) _ => j_atom J_del_session
  | |- J _ (delall_session _) _ => j_atom J_delall_session
  | |- J _ (put_cookie _ _) _ => j_atom J_put_cookie
  | |- J _ (del_cookie _) _ => j_atom J_del_cookie
  | |- J _ (write_resp _) _ => j_atom J_write_resp
  | |- J _ (log _) _ => j_atom J_log
  | |- J _ (fresh _) _ => j_atom J_fresh
  | |- J _ (set_cuser _) _ => j_atom_s J_set_cuser
  | |- J _ (set_cpid _) _ => j_atom_s J_set_cpid
  | |- J _ (st_load _ _) _ => j_atom_s J_st_load
  | |- J _ (st_save _ _) _ => j_atom_s J_st_save
  | |- J _ (st_create _ _) _ => j_atom_s J_st_create
  | |- J _ (st_add_rm _ _ _) _ => j_atom_s J_st_add_rm
  | |- J _ (st_use_rm _ _ _) _ => j_atom_s J_st_use_rm
  | |- J _ (st_del_rm _ _) _ => j_atom_s J_st_del_rm
  | |- J _ (backend _ _ _) _ => apply J_backend
  | |- J _ (modify _) _ => j_modify
  | |- J _ (if ?c then _ else _) _ => destruct c eqn:?
  | |- J _ (match ?x with _ => _ end) _ => destruct x eqn:?
  end.
Ltac j_unf :=
  unfold store_back, update_locked_state, lock_apply, generate_token, send_mail, rm_generate, render,
         bcrypt_codes, generate_recovery_codes, invalid_confirm_token, invalid_recover_token.
Ltac j_go := repeat (j_unf; cbn beta iota zeta; j_step).

(* ---- handlers --------------------------------------------------------------------------------------- *)
Definition rv_res (E : env) : res amap :=
  if q_badbody (e_req E) then Err ErrOther
  else if c_api (e_cfg E) then
    match q_meth (e_req E) with GET => Err ErrOther | _ => Ok (q_form (e_req E)) end
  else Ok (q_form (e_req E) ++ q_query (e_req E)).
Lemma read_values_const E h : read_values E h = (rv_res E, h).
Proof.
  unfold read_values, rv_res. destruct (q_badbody (e_req E)); [reflexivity|].
  destruct (c_api (e_cfg E)); [|reflexivity]. destruct (q_meth (e_req E)); reflexivity.
Qed.
Lemma rv_res_ok E a : rv_res E = Ok a -> a = values E.
Proof.
  unfold rv_res, values. destruct (q_badbody (e_req E)); [discriminate|].
  destruct (c_api (e_cfg E)); [|intros H; inversion H; reflexivity].
  destruct (q_meth (e_req E)); intros H; inversion H; reflexivity.
Qed.

Section HF.
Variable F : bytes -> Prop.
Variable E : env.
(* what the request names: the session's user and pending second-factor users (when the key is
   set), the submitted pid, the pid inside the remember cookie *)
Hypothesis Huid : bempty (aget k_uid (e_sess E)) = false -> F (aget k_uid (e_sess E)).
Hypothesis Htp : bempty (aget k_totp_pending (e_sess E)) = false -> F (aget k_totp_pending (e_sess E)).
Hypothesis Hsp : bempty (aget k_sms_pending (e_sess E)) = false -> F (aget k_sms_pending (e_sess E)).
Hypothesis Hform : F (aget (pid_field E) (values E)).
Hypothesis Hrm : forall c raw p,
  alookup k_rm (e_cook E) = Some c -> b64url_dec c = Some raw -> rm_parse_pid raw = Some p -> F p.

Notation JF := (J F).

Lemma J_const {A} (m : M A) (x : res A) (R : A -> Prop) :
  (forall h, m h = (x, h)) -> (forall a, x = Ok a -> R a) -> JF m R.
Proof.
  intros Hm Hx h1 h2 r1 k1 r2 k2 W1 W2 S E1 E2. rewrite Hm in E1, E2. inversion E1; inversion E2; subst.
  jsplit; auto. apply frame_refl.
Qed.
Lemma J_read_values : JF (read_values E) (fun v => v = values E).
Proof. apply (J_const _ (rv_res E)); [apply read_values_const|apply rv_res_ok]. Qed.

Lemma J_respond p d : JF (respond E p d) (fun _ => True).
Proof. unfold respond. j_go. Qed.
Lemma J_redirect ro : JF (redirect E ro) (fun _ => True).
Proof. unfold redirect. j_go. Qed.
Lemma J_send_code p n : JF (send_code_to_user E p n) (fun _ => True).
Proof. unfold send_code_to_user. j_go. Qed.

Lemma J_current_user_id : JF (current_user_id E) (fun p => bempty p = false -> F p).
Proof.
  apply (J_with_cpid F (fun o => match o with Some p => ret p | None => ret (aget k_uid (e_sess E)) end)).
  intros o Ho. destruct o as [p|]; apply J_ret; [intros _; apply Ho; reflexivity|exact Huid].
Qed.

Lemma J_current_user : JF (current_user E) (fun x => F (u_pid (fst x))).
Proof.
  apply (J_with_cuser F (fun o => match o with
           | Some u => ret (u, true)
           | None => pid <- current_user_id E ;;
                     if bempty pid then fail ErrUserNotFound
                     else u <- st_load (e_O E) pid ;; ret (u, false) end)).
  intros o Ho. destruct o as [u|]; [apply J_ret; simpl; apply Ho; reflexivity|].
  eapply J_bind; [apply J_current_user_id|intros pid Hpid]. cbn beta.
  destruct (bempty pid) eqn:Be; [apply J_fail|]. j_go.
Qed.

Lemma J_load_current_user : JF (load_current_user E) (fun u => F (u_pid u)).
Proof.
  apply (J_with_cuser F (fun o => match o with
           | Some u => ret u
           | None => pid <- current_user_id E ;;
                     if bempty pid then fail ErrUserNotFound
                     else set_cpid pid ;;; u <- st_load (e_O E) pid ;; set_cuser u ;;; ret u end)).
  intros o Ho. destruct o as [u|]; [apply J_ret; apply Ho; reflexivity|].
  eapply J_bind; [apply J_current_user_id|intros pid Hpid]. cbn beta.
  destruct (bempty pid) eqn:Be; [apply J_fail|]. j_go.
Qed.

Ltac j_atom_h lem := first [ apply lem; try assumption | eapply J_top; apply lem; try assumption ].
Ltac j_extra ::=
  match goal with
  | |- J _ (bind (read_values _) _) _ => eapply J_bind; [apply J_read_values|intros ? ->]
  | |- J _ (read_values _) _ => j_atom_h J_read_values
  | |- J _ (respond _ _ _) _ => j_atom_h J_respond
  | |- J _ (redirect _ _) _ => j_atom_h J_redirect
  | |- J _ (send_code_to_user _ _ _) _ => j_atom_h J_send_code
  | |- J _ (current_user_id _) _ => j_atom_h J_current_user_id
  | |- J _ (current_user _) _ => j_atom_h J_current_user
  | |- J _ (load_current_user _) _ => j_atom_h J_load_current_user
  end.

Lemma J_hook hk rm hd : JF (run_hook E hk rm hd) (fun _ => True).
Proof.
  destruct hk; unfold run_hook; try (j_go; fail).
  - (* HTotpHijack *)
    destruct hd; [apply J_ret_top|].
    apply (J_with_cuser F (fun o => match o with
             | None => panic
             | Some u => if bempty (u_totp u) then ret false
                         else put_session k_totp_pending (u_pid u) ;;;
                              redirect E (ro_plain (with_rawquery E (c_mount (e_cfg E) ++ bs "/2fa/totp/validate"))) ;;; ret true
             end)).
    intros o Ho. destruct o as [u|]; j_go.
  - (* HSmsHijack *)
    destruct hd; [apply J_ret_top|].
    apply (J_with_cuser F (fun o => match o with
             | None => panic
             | Some u =>
                 if bempty (u_sms u) then ret false
                 else put_session k_sms_pending (u_pid u) ;;;
                      e <- send_code_to_user E (u_pid u) (u_sms u) ;;
                      match e with
                      | Some (HErr e') => fail e'
                      | Some HBadPhone => fail ErrOther
                      | _ => redirect E (ro_plain (with_rawquery E (c_mount (e_cfg E) ++ bs "/2fa/sms/validate"))) ;;; ret true
                      end
             end)).
    intros o Ho. destruct o as [u|]; j_go.
Qed.

Lemma J_call hs : forall rm hd, JF (call E hs rm hd) (fun _ => True).
Proof.
  induction hs as [|hk hs IH]; intros rm hd; cbn [call].
  - apply J_ret_top.
  - eapply J_bind; [apply J_hook|intros; apply IH].
Qed.
Lemma J_fire e rm : JF (fire E e rm) (fun _ => True).
Proof. unfold fire. apply J_call. Qed.

Ltac j_extra ::=
  match goal with
  | |- J _ (bind (read_values _) _) _ => eapply J_bind; [apply J_read_values|intros ? ->]
  | |- J _ (read_values _) _ => j_atom_h J_read_values
  | |- J _ (respond _ _ _) _ => j_atom_h J_respond
  | |- J _ (redirect _ _) _ => j_atom_h J_redirect
  | |- J _ (send_code_to_user _ _ _) _ => j_atom_h J_send_code
  | |- J _ (current_user_id _) _ => j_atom_h J_current_user_id
  | |- J _ (current_user _) _ => j_atom_h J_current_user
  | |- J _ (load_current_user _) _ => j_atom_h J_load_current_user
  | |- J _ (fire _ _ _) _ => j_atom_h J_fire
  | |- J _ (call _ _ _ _) _ => j_atom_h J_call
  | |- J _ (run_hook _ _ _ _) _ => j_atom_h J_hook
  end.

Lemma J_login_post : JF (login_post E) (fun _ => True).
Proof. unfold login_post. j_go. Qed.
Lemma J_login_get : JF (login_get E) (fun _ => True).
Proof. unfold login_get. j_go. Qed.
Lemma J_otp_login_post : JF (otp_login_post E) (fun _ => True).
Proof. unfold otp_login_post. j_go. Qed.
Lemma J_otp_login_get : JF (otp_login_get E) (fun _ => True).
Proof. unfold otp_login_get. j_go. Qed.
Lemma J_otp_add_post : JF (otp_add_post E) (fun _ => True).
Proof. unfold otp_add_post. j_go. Qed.
Lemma J_otp_clear_post : JF (otp_clear_post E) (fun _ => True).
Proof. unfold otp_clear_post. j_go. Qed.
Lemma J_otp_show p : JF (otp_show E p) (fun _ => True).
Proof. unfold otp_show. j_go. Qed.
Lemma J_register_post : JF (register_post E) (fun _ => True).
Proof. unfold register_post. j_go. Qed.
Lemma J_recover_start_post : JF (recover_start_post E) (fun _ => True).
Proof. unfold recover_start_post. j_go. Qed.
Lemma J_recover_end_get : JF (recover_end_get E) (fun _ => True).
Proof. unfold recover_end_get. j_go. Qed.
Lemma J_logout : JF (logout E) (fun _ => True).
Proof. unfold logout. j_go. Qed.
Lemma J_remember_authenticate : JF (remember_authenticate E) (fun _ => True).
Proof. unfold remember_authenticate. j_go. Qed.
Lemma J_remember_mw : JF (remember_mw E) (fun _ => True).
Proof. unfold remember_mw. j_go. apply J_remember_authenticate. Qed.
Lemma J_mw_fail mp fr : JF (mw_fail E mp fr) (fun _ => True).
Proof. unfold mw_fail. j_go. Qed.
Lemma J_auth_middleware mp full tf fr : JF (auth_middleware E mp full tf fr) (fun _ => True).
Proof. unfold auth_middleware. j_go; apply J_mw_fail. Qed.
Lemma J_lock_mw : JF (lock_mw E) (fun _ => True).
Proof. unfold lock_mw. j_go. Qed.
Lemma J_confirm_mw : JF (confirm_mw E) (fun _ => True).
Proof. unfold confirm_mw. j_go. Qed.

(* two-factor *)
Lemma J_recovery_regen_get : JF (recovery_regen_get E) (fun _ => True).
Proof. unfold recovery_regen_get. j_go. Qed.
Lemma J_recovery_regen_post : JF (recovery_regen_post E) (fun _ => True).
Proof. unfold recovery_regen_post. j_go. Qed.
Lemma J_email_verify_get k : JF (email_verify_get E k) (fun _ => True).
Proof. unfold email_verify_get. j_go. Qed.
Lemma J_email_verify_post k : JF (email_verify_post E k) (fun _ => True).
Proof. unfold email_verify_post. j_go. Qed.
Lemma J_email_verify_end k : JF (email_verify_end E k) (fun _ => True).
Proof. unfold email_verify_end. j_go. Qed.
Lemma J_email_verify_wrap k : JF (email_verify_wrap E k) (fun _ => True).
Proof. unfold email_verify_wrap. j_go. Qed.
Lemma J_totp_setup_get : JF (totp_setup_get E) (fun _ => True).
Proof. unfold totp_setup_get. j_go. Qed.
Lemma J_totp_setup_post : JF (totp_setup_post E) (fun _ => True).
Proof. unfold totp_setup_post. j_go. Qed.
Lemma J_totp_confirm_get : JF (totp_confirm_get E) (fun _ => True).
Proof. unfold totp_confirm_get. j_go. Qed.
Lemma J_totp_confirm_post : JF (totp_confirm_post E) (fun _ => True).
Proof. unfold totp_confirm_post. j_go. Qed.

Lemma J_totp_validate : JF (totp_validate E) (fun x => F (u_pid (fst (fst x)))).
Proof.
  unfold totp_validate.
  eapply (J_bind F _ _ (fun x => F (u_pid (fst x)))); [|intros].
  - eapply J_try; [apply J_current_user; assumption|intros; apply J_ret; assumption|intros].
    j_go.
  - j_go.
Qed.
Lemma J_totp_remove_post : JF (totp_remove_post E) (fun _ => True).
Proof. unfold totp_remove_post. eapply J_bind; [apply J_totp_validate|intros]. j_go. Qed.
Lemma J_totp_validate_post : JF (totp_validate_post E) (fun _ => True).
Proof. unfold totp_validate_post. eapply J_bind; [apply J_totp_validate|intros]. j_go. Qed.

Lemma J_sms_setup_get : JF (sms_setup_get E) (fun _ => True).
Proof. unfold sms_setup_get. j_go. Qed.
Lemma J_sms_setup_post : JF (sms_setup_post E) (fun _ => True).
Proof. unfold sms_setup_post. j_go. Qed.
Lemma J_sms_send_code p u : JF (sms_send_code E p u) (fun _ => True).
Proof. unfold sms_send_code. j_go. Qed.
Lemma J_sms_validate_code p u sh inp rc : F (u_pid u) -> JF (sms_validate_code E p u sh inp rc) (fun _ => True).
Proof.
  intros G. unfold sms_validate_code.
  eapply (J_bind F _ _ (fun vu => F (u_pid (snd vu)))); [|intros]; j_go.
Qed.
Lemma J_sms_validator_post p : JF (sms_validator_post E p) (fun _ => True).
Proof.
  unfold sms_validator_post.
  eapply (J_bind F _ _ (fun x => F (u_pid (fst x)))); [|intros].
  - eapply J_try; [apply J_current_user; assumption|intros; apply J_ret; assumption|intros].
    j_go.
  - j_go; first [apply J_sms_send_code | apply J_sms_validate_code; jside].
Qed.

(* oauth2 *)
Lemma J_oauth2_start prov : JF (oauth2_start E prov) (fun _ => True).
Proof. unfold oauth2_start. j_go. Qed.

Lemma J_oauth2_end prov :
  F (make_oauth2_pid prov (pa_uid (o_provider (e_O E)))) -> JF (oauth2_end E prov) (fun _ => True).
Proof.
  intros Hp. unfold oauth2_end.
  remember (make_oauth2_pid prov (pa_uid (o_provider (e_O E)))) as pid eqn:Hpid.
  assert (NEW : forall b : user, u_pid b = pid ->
     JF (backend (e_O E) KNewOAuth2 (fun h => match ulookup pid (s_users (h_st h)) with
                                              | Some u => (Ok u, h) | None => (Ok b, h) end))
        (fun u => F (u_pid u))).
  { intros b Hb. apply J_backend.
    apply (J_read_user F pid _ (fun o => match o with Some u => Ok u | None => Ok b end)); [exact Hp| |].
    - intros h. destruct (ulookup pid (s_users (h_st h))); reflexivity.
    - intros o a Ho Ha. destruct o; inversion Ha; subst; [rewrite (Ho a eq_refl)|rewrite Hb]; exact Hp. }
  assert (SAVE : forall u, F (u_pid u) ->
     JF (backend (e_O E) KSaveOAuth2
           (modify (fun h => h <| h_st := h_st h <| s_users := uput (u_pid u) u (s_users (h_st h)) |> |>)))
        (fun _ => True)).
  { intros u Hu. apply J_backend, J_save_body, Hu. }
  cbv zeta.
  repeat (j_unf; cbn beta iota zeta;
          first [ match goal with
                  | |- J _ (try (backend _ KNewOAuth2 _) _) _ =>
                      eapply (J_try F _ _ (fun u => F (u_pid u)) (fun u => F (u_pid u)));
                      [apply NEW; reflexivity|intros; apply J_ret; assumption|intros; apply J_fail]
                  | |- J _ (backend _ KSaveOAuth2 _) _ =>
                      match goal with |- context [uput _ ?u _] =>
                        first [apply (SAVE u); jside | eapply J_top; apply (SAVE u); jside] end
                  end
                | j_step ]).
Qed.

(* the probe *)
Lemma J_app_handler : JF (app_handler E) (fun _ => True).
Proof. unfold app_handler. j_go. Qed.
Lemma J_totp_qr : JF (totp_qr E) (fun _ => True).
Proof. unfold totp_qr. j_go. Qed.

(* the two handlers that query by token selector: covered at a pair of start states on which the
   query has the same answer, the record found being in the footprint *)
Definition sel_ok (f : user -> bool) (h1 h2 : hst) : Prop :=
  ufind f (s_users (h_st h1)) = ufind f (s_users (h_st h2)) /\
  forall u, ufind f (s_users (h_st h1)) = Some u -> F (u_pid u).

Ltac jat_of_j :=
  match goal with |- Jat ?G ?h1 ?h2 ?m ?R =>
    let HJ := fresh "HJ" in cut (J G m R); [intros HJ; exact (HJ h1 h2)|] end.

Lemma Jat_confirm_get h1 h2 :
  (forall raw, b64url_dec (aget f_cnf (values E)) = Some raw ->
               sel_ok (fun u => beqb (u_csel u) (selector_of E raw)) h1 h2) ->
  Jat F h1 h2 (confirm_get E) (fun _ => True).
Proof.
  intros Hsel. unfold confirm_get.
  apply (Jat_const_bind F _ (rv_res E)); [apply read_values_const|]. intros vals Hv. apply rv_res_ok in Hv. subst vals.
  cbn beta zeta.
  destruct (negb (valid _ _ (values E))); [jat_of_j; j_go|].
  destruct (b64url_dec (aget f_cnf (values E))) as [raw|] eqn:D; [|jat_of_j; j_go].
  destruct (negb (Nat.eqb (length raw) 64)); [jat_of_j; j_go|].
  destruct (Hsel raw eq_refl) as [S1 S2].
  eapply Jat_try; [apply Jat_load_by_csel; [exact S1|exact S2]|intros; j_go|intros; j_go].
Qed.

Lemma Jat_recover_end_post h1 h2 :
  (forall raw, b64url_dec (aget f_token (values E)) = Some raw ->
               sel_ok (fun u => beqb (u_rsel u) (selector_of E raw)) h1 h2) ->
  Jat F h1 h2 (recover_end_post E) (fun _ => True).
Proof.
  intros Hsel. unfold recover_end_post.
  apply (Jat_const_bind F _ (rv_res E)); [apply read_values_const|]. intros vals Hv. apply rv_res_ok in Hv. subst vals.
  cbn beta zeta.
  destruct (negb (valid _ _ (values E))); [jat_of_j; j_go|].
  destruct (b64url_dec (aget f_token (values E))) as [raw|] eqn:D; [|jat_of_j; j_go].
  destruct (negb (Nat.eqb (length raw) 64)); [jat_of_j; j_go|].
  destruct (Hsel raw eq_refl) as [S1 S2].
  eapply Jat_try; [apply Jat_load_by_rsel; [exact S1|exact S2]|intros; j_go|intros; j_go].
Qed.

(* module routes behind the access middleware *)
Lemma J_behind full (m : M unit) : JF m (fun _ => True) -> JF (behind E full m) (fun _ => True).
Proof. intros Hm. unfold behind. j_go; first [apply J_auth_middleware | exact Hm]. Qed.
Lemma J_verified k (m : M unit) : JF m (fun _ => True) -> JF (verified E k m) (fun _ => True).
Proof. intros Hm. unfold verified. apply J_behind. j_go; first [apply J_email_verify_wrap | exact Hm]. Qed.
Lemma J_resp0 page : JF (resp0 E page) (fun _ => True).
Proof. unfold resp0. j_go. Qed.
End HF.

Check J_remember_mw. Check J_auth_middleware. Check J_lock_mw. Check J_app_handler. Check J_verified. Check Jat_recover_end_post. Check J_oauth2_end. Check J_login_post. Check J_sms_validator_post.
