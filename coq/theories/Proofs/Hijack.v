(* C02 at handler level: for an account with a second factor enabled, the before-hijack
   question is never answered "not handled", so the password login handler never reaches the
   code that writes the logged-in session: it can only park the login as pending. *)
From AB Require Import World.Handlers Proofs.EvLogic Proofs.Neutral Proofs.HandlerEvents Proofs.MonadInv
  Proofs.Guards Proofs.StoreLogic Proofs.Veto Proofs.NoLogin.
Open Scope Z_scope.

#[local] Instance dep_cuser2 : StDep h_cuser.
Proof. intros h h' _ B. exact B. Qed.

Section HJ.
Variable E : env.
Notation now := (o_now (e_O E)).
Notation vals := (values E).

Definition has_totp (u : user) : Prop := c_totp (e_cfg E) = true /\ bempty (u_totp u) = false.
Definition has_sms (u : user) : Prop := c_sms (e_cfg E) = true /\ bempty (u_sms u) = false.
Definition ctx_2fa (h : hst) : Prop := exists cu, h_cuser h = Some cu /\ (has_totp cu \/ has_sms cu).

Lemma hooks_hijack_totp : c_totp (e_cfg E) = true -> In HTotpHijack (hooks E EvBeforeHijack).
Proof.
  intros H. unfold hooks. apply in_or_app. right. rewrite H.
  destruct (c_sms_first (e_cfg E)), (c_sms (e_cfg E)); simpl; auto.
Qed.
Lemma hooks_hijack_sms : c_sms (e_cfg E) = true -> In HSmsHijack (hooks E EvBeforeHijack).
Proof.
  intros H. unfold hooks. apply in_or_app. right. rewrite H.
  destruct (c_sms_first (e_cfg E)), (c_totp (e_cfg E)); simpl; auto.
Qed.

(* neither hijack hook touches the context user *)
Lemma hijack_keeps_cuser hk rm hd h r h' :
  hk = HTotpHijack \/ hk = HSmsHijack -> run_hook E hk rm hd h = (r, h') -> h_cuser h' = h_cuser h.
Proof.
  intros Hk Eq.
  assert (PR : pres h_cuser (run_hook E hk rm hd)).
  { destruct Hk as [->| ->]; unfold run_hook; pres_go. }
  exact (PR _ _ _ Eq).
Qed.

Lemma totp_hijack_refuses rm h r h' cu :
  h_cuser h = Some cu -> bempty (u_totp cu) = false -> run_hook E HTotpHijack rm false h = (r, h') -> refused r.
Proof.
  intros Hc Ht Eq. unfold run_hook in Eq. unfold bind at 1 in Eq. unfold get_h in Eq. rewrite Hc in Eq.
  rewrite Ht in Eq.
  apply bind_inv in Eq as [(a & h1 & E1 & E2)|[(e & E1 & ->)|(E1 & ->)]]; try discriminate.
  apply bind_inv in E2 as [(a2 & h2 & E3 & E4)|[(e & E3 & ->)|(E3 & ->)]]; try discriminate.
  inversion E4; subst. discriminate.
Qed.

Lemma sms_hijack_refuses rm h r h' cu :
  h_cuser h = Some cu -> bempty (u_sms cu) = false -> run_hook E HSmsHijack rm false h = (r, h') -> refused r.
Proof.
  intros Hc Ht Eq. unfold run_hook in Eq. unfold bind at 1 in Eq. unfold get_h in Eq. rewrite Hc in Eq.
  rewrite Ht in Eq.
  apply bind_inv in Eq as [(a & h1 & E1 & E2)|[(e & E1 & ->)|(E1 & ->)]]; try discriminate.
  apply bind_inv in E2 as [(oe & h2 & E3 & E4)|[(e & E3 & ->)|(E3 & ->)]]; try discriminate.
  destruct oe as [[| |e']|].
  - apply bind_inv in E4 as [(a2 & h3 & E5 & E6)|[(e & E5 & ->)|(E5 & ->)]]; try discriminate.
    inversion E6; subst. discriminate.
  - inversion E4; subst. discriminate.
  - inversion E4; subst. discriminate.
  - apply bind_inv in E4 as [(a2 & h3 & E5 & E6)|[(e & E5 & ->)|(E5 & ->)]]; try discriminate.
    inversion E6; subst. discriminate.
Qed.

Lemma fire_hijack_refuses rm h r h' :
  ctx_2fa h -> fire E EvBeforeHijack rm h = (r, h') -> refused r.
Proof.
  intros (cu & Hc & [[Ct Ht]|[Cs Hs]]) Eq; unfold fire in Eq.
  - eapply (call_veto E (fun h => h_cuser h = Some cu) HTotpHijack); [apply hooks_hijack_totp; exact Ct| | |exact Hc|exact Eq].
    + intros rm0 h0 r0 h0' Hc0 Eh. eapply totp_hijack_refuses; eauto.
    + intros g Hg rm0 hd h0 r0 h0' Hc0 Eh. rewrite (hijack_keeps_cuser g rm0 hd _ _ _ (hooks_before_hijack E g Hg) Eh). exact Hc0.
  - eapply (call_veto E (fun h => h_cuser h = Some cu) HSmsHijack); [apply hooks_hijack_sms; exact Cs| | |exact Hc|exact Eq].
    + intros rm0 h0 r0 h0' Hc0 Eh. eapply sms_hijack_refuses; eauto.
    + intros g Hg rm0 hd h0 r0 h0' Hc0 Eh. rewrite (hijack_keeps_cuser g rm0 hd _ _ _ (hooks_before_hijack E g Hg) Eh). exact Hc0.
Qed.

(* the BeforeAuth hooks keep "has a second factor" true of the context user *)
Lemma before_auth_keeps_2fa rm : forall hs hd h r h',
  (forall g, In g hs -> g = HLockBefore \/ g = HConfirmPrevent) ->
  ctx_2fa h -> call E hs rm hd h = (r, h') -> ctx_2fa h'.
Proof.
  induction hs as [|g t IH]; intros hd h r h' Hg HP Eq; simpl in Eq.
  - inversion Eq; subst. exact HP.
  - destruct HP as (cu & Hc & F).
    apply bind_inv in Eq as [(i & h1 & E1 & E2)|[(e & E1 & ->)|(E1 & ->)]].
    + eapply IH; [intros g' Hg'; apply Hg; right; exact Hg'| |exact E2].
      destruct (Hg g (or_introl eq_refl)) as [->| ->].
      * destruct (lock_before_spec E _ _ _ _ _ _ Hc E1) as [[Cu|Cu] _]; [|exists cu; auto].
        exists (lock_apply E cu (LOkBefore now)). split; [exact Cu|]. exact F.
      * destruct (confirm_prevent_spec E _ _ _ _ _ _ Hc E1) as [Cu _]. exists cu. auto.
    + destruct (Hg g (or_introl eq_refl)) as [->| ->].
      * destruct (lock_before_spec E _ _ _ _ _ _ Hc E1) as [[Cu|Cu] _]; [|exists cu; auto].
        exists (lock_apply E cu (LOkBefore now)). split; [exact Cu|]. exact F.
      * destruct (confirm_prevent_spec E _ _ _ _ _ _ Hc E1) as [Cu _]. exists cu. auto.
    + destruct (Hg g (or_introl eq_refl)) as [->| ->].
      * destruct (lock_before_spec E _ _ _ _ _ _ Hc E1) as [[Cu|Cu] _]; [|exists cu; auto].
        exists (lock_apply E cu (LOkBefore now)). split; [exact Cu|]. exact F.
      * destruct (confirm_prevent_spec E _ _ _ _ _ _ Hc E1) as [Cu _]. exists cu. auto.
Qed.

(* /login for an account with a second factor: only uid-neutral events, i.e. the session is
   never logged in by this request; at most a pending marker is written *)
Theorem login_post_2fa_parks_lemma h u :
  ulookup (aget (pid_field E) vals) (s_users (h_st h)) = Some u -> (has_totp u \/ has_sms u) ->
  neutral_from (login_post E) h.
Proof.
  intros Hu F r h' Eq. unfold login_post in Eq.
  apply bind_inv in Eq as [(v & h1 & E1 & E2)|[(e & E1 & ->)|(E1 & ->)]];
    apply read_values_spec in E1 as [-> [Hv|Hv]]; try discriminate Hv;
    try (exists [], []; rewrite !app_nil_r; auto; fail).
  inversion Hv; subst v; clear Hv.
  apply try_inv in E2 as [(x & h2 & L & NP & K)|(L & ->)].
  2:{ apply st_load_spec in L. destruct L as (_ & _ & _ & _ & _ & _ & _ & N). congruence. }
  pose proof (st_load_spec _ _ _ _ _ L) as (S1 & S2 & S3 & S4 & _ & _ & Hl & _).
  revert K. apply (neutral_from_same _ h2 h S1 S2).
  destruct x as [u'|e|]; [|destruct e; apply neutral_from_evs; repeat (unfold_derived; cbn beta iota; first [apply neutral_fire | evs_step]); try side|congruence].
  specialize (Hl u' eq_refl). rewrite Hu in Hl. inversion Hl; subst u'.
  intros r2 h3 K.
  apply bind_inv in K as [(a & k1 & F1 & K)|[(e & F1 & ->)|(F1 & ->)]]; try (inversion F1; fail).
  inversion F1; subst a k1; clear F1.
  destruct (pwcheck (e_C E) (u_password u) (aget f_password vals)); cbn [negb] in K.
  2:{ assert (T : evs_all sess_neutral any_ev
                   (handled <- fire E EvAfterAuthFail false;;
                    (if handled then ret tt else log [aget (pid_field E) vals];;; respond E (bs "login") d_err))).
      { repeat (unfold_derived; cbn beta iota; first [apply neutral_fire | evs_step]); try side. }
      destruct (T _ _ _ K) as [(ls & lc & S & Cc & Fo & _) _]. simpl in S, Cc. eauto. }
  (* correct password: BeforeAuth, then BeforeHijack which refuses *)
  apply bind_inv in K as [(hd1 & k1 & F1 & K)|[(e & F1 & ->)|(F1 & ->)]].
  - destruct (neutral_fire E EvBeforeAuth _ _ _ _ F1) as [(ls1 & lc1 & Sa & Ca & Fa & _) _]. simpl in Sa, Ca.
    destruct hd1.
    + inversion K; subst. eauto.
    + assert (P1 : ctx_2fa k1).
      { unfold fire in F1. eapply before_auth_keeps_2fa; [apply hooks_before_auth| |exact F1]. exists u. split; [reflexivity|exact F]. }
      eapply refused_continuation in K; [|intros r1 h1 Ef; eapply fire_hijack_refuses; [exact P1|exact Ef]].
      destruct K as (ls2 & lc2 & Sb & Cb & Fb). exists (ls1 ++ ls2), (lc1 ++ lc2).
      rewrite Sb, Sa, Cb, Ca, !app_assoc. repeat split; auto. apply Forall_app; auto.
  - destruct (neutral_fire E EvBeforeAuth _ _ _ _ F1) as [(ls1 & lc1 & Sa & Ca & Fa & _) _]. simpl in Sa, Ca. eauto.
  - destruct (neutral_fire E EvBeforeAuth _ _ _ _ F1) as [(ls1 & lc1 & Sa & Ca & Fa & _) _]. simpl in Sa, Ca. eauto.
Qed.
End HJ.
