(* Storage-side reasoning for handlers: finite-map facts about the user / remember tables,
   exact specifications of the storage primitives, a small logic of "this computation leaves
   (a projection of) storage and the context user alone", and the invariant that every event
   hook other than the confirmation starter keeps: the context user and the record stored
   under his pid keep every property that the lock bookkeeping does not touch, and nobody
   else's record changes.  Used by OneTimeProofs.v and TokenProofs.v. *)
From AB Require Import World.Handlers Proofs.EvLogic Proofs.Neutral Proofs.MonadInv.
Open Scope Z_scope.

(* ---- finite maps -------------------------------------------------------------------- *)
Lemma ulookup_uput_eq k u l : ulookup k (uput k u l) = Some u.
Proof.
  induction l as [|[k' u'] l IH]; simpl.
  - rewrite beqb_refl. reflexivity.
  - destruct (beqb k k') eqn:Eb; simpl; [rewrite beqb_refl; reflexivity|rewrite Eb; exact IH].
Qed.
Lemma ulookup_uput_neq k k' u l : k <> k' -> ulookup k (uput k' u l) = ulookup k l.
Proof.
  intros N. induction l as [|[k2 u2] l IH]; simpl.
  - destruct (beqb k k') eqn:Eb; [apply beqb_eq in Eb; contradiction|reflexivity].
  - destruct (beqb k' k2) eqn:E2; simpl.
    + apply beqb_eq in E2. subst k2.
      destruct (beqb k k') eqn:Eb; [apply beqb_eq in Eb; contradiction|reflexivity].
    + destruct (beqb k k2); auto.
Qed.
Lemma rmlookup_rmput_eq k t l : rmlookup k (rmput k t l) = t.
Proof.
  induction l as [|[k' t'] l IH]; simpl.
  - rewrite beqb_refl. reflexivity.
  - destruct (beqb k k') eqn:Eb; simpl; [rewrite beqb_refl; reflexivity|rewrite Eb; exact IH].
Qed.
Lemma rmlookup_rmput_neq k k' t l : k <> k' -> rmlookup k (rmput k' t l) = rmlookup k l.
Proof.
  intros N. induction l as [|[k2 t2] l IH]; simpl.
  - destruct (beqb k k') eqn:Eb; [apply beqb_eq in Eb; contradiction|reflexivity].
  - destruct (beqb k' k2) eqn:E2; simpl.
    + apply beqb_eq in E2. subst k2.
      destruct (beqb k k') eqn:Eb; [apply beqb_eq in Eb; contradiction|reflexivity].
    + destruct (beqb k k2); auto.
Qed.

(* records are filed under their own pid (what the harness store and every Save maintain) *)
Definition keyed (st : storage) : Prop :=
  forall k u, ulookup k (s_users st) = Some u -> u_pid u = k.

Lemma keyed_uput st u :
  keyed st -> keyed (st <| s_users := uput (u_pid u) u (s_users st) |>).
Proof.
  intros K k v. simpl. destruct (bytes_dec k (u_pid u)) as [->|N].
  - rewrite ulookup_uput_eq. intros Eq. inversion Eq; subst. reflexivity.
  - rewrite ulookup_uput_neq by assumption. apply K.
Qed.

(* ---- "leaves a projection of the state alone" ------------------------------------------ *)
Class StDep {X : Type} (proj : hst -> X) : Prop :=
  st_dep : forall h h', h_st h' = h_st h -> h_cuser h' = h_cuser h -> proj h' = proj h.

#[export] Instance dep_st : StDep h_st.
Proof. intros h h' A _. exact A. Qed.
Definition uc (h : hst) := (s_users (h_st h), h_cuser h).
#[export] Instance dep_uc : StDep uc.
Proof. intros h h' A B. unfold uc. rewrite A, B. reflexivity. Qed.

Section P.
Context {X : Type} (proj : hst -> X) `{D : StDep X proj}.

Definition pres {A} (m : M A) : Prop := forall h r h', m h = (r, h') -> proj h' = proj h.

Lemma pres_ret {A} (a : A) : pres (ret a).
Proof. intros h r h' Eq. inversion Eq; reflexivity. Qed.
Lemma pres_fail {A} e : pres (@fail A e).
Proof. intros h r h' Eq. inversion Eq; reflexivity. Qed.
Lemma pres_panic {A} : pres (@panic A).
Proof. intros h r h' Eq. inversion Eq; reflexivity. Qed.
Lemma pres_get_h : pres get_h.
Proof. intros h r h' Eq. inversion Eq; reflexivity. Qed.
Lemma pres_get_cuser : pres get_cuser.
Proof. intros h r h' Eq. inversion Eq; reflexivity. Qed.

Lemma pres_bind {A B} (m : M A) (f : A -> M B) : pres m -> (forall a, pres (f a)) -> pres (bind m f).
Proof.
  intros Hm Hf h r h' Eq. destruct (bind_inv _ _ _ _ _ Eq) as [(a & h1 & E1 & E2)|[(e & E1 & ->)|(E1 & ->)]].
  - rewrite (Hf _ _ _ _ E2). eapply Hm; eauto.
  - eapply Hm; eauto.
  - eapply Hm; eauto.
Qed.
Lemma pres_try {A B} (m : M A) (f : res A -> M B) : pres m -> (forall r, pres (f r)) -> pres (try m f).
Proof.
  intros Hm Hf h r h' Eq. destruct (try_inv _ _ _ _ _ Eq) as [(x & h1 & E1 & _ & E2)|(E1 & ->)].
  - rewrite (Hf _ _ _ _ E2). eapply Hm; eauto.
  - eapply Hm; eauto.
Qed.

Lemma pres_state {A} (m : M A) :
  (forall h, h_st (snd (m h)) = h_st h /\ h_cuser (snd (m h)) = h_cuser h) -> pres m.
Proof. intros H h r h' Eq. specialize (H h). rewrite Eq in H. simpl in H. apply D; tauto. Qed.

Lemma pres_modify f : (forall h, h_st (f h) = h_st h /\ h_cuser (f h) = h_cuser h) -> pres (modify f).
Proof. intros H. apply pres_state. intros h. simpl. apply H. Qed.

Lemma pres_backend O {A} k (body : M A) : pres body -> pres (backend O k body).
Proof.
  intros Hb h r h' Eq. unfold backend in Eq.
  destruct (fault_at (h_ncalls h) (o_faults O)) as [[|]|].
  - inversion Eq; subst. apply D; reflexivity.
  - inversion Eq; subst. apply D; reflexivity.
  - rewrite (Hb _ _ _ Eq). apply D; reflexivity.
Qed.

Lemma pres_put_session k v : pres (put_session k v). Proof. apply pres_modify; auto. Qed.
Lemma pres_del_session k : pres (del_session k). Proof. apply pres_modify; auto. Qed.
Lemma pres_delall_session wl : pres (delall_session wl). Proof. apply pres_modify; auto. Qed.
Lemma pres_put_cookie k v : pres (put_cookie k v). Proof. apply pres_modify; auto. Qed.
Lemma pres_del_cookie k : pres (del_cookie k). Proof. apply pres_modify; auto. Qed.
Lemma pres_log a : pres (log a). Proof. apply pres_modify; auto. Qed.
Lemma pres_set_cpid p : pres (set_cpid p). Proof. apply pres_modify; auto. Qed.
Lemma pres_write_resp r : pres (write_resp r).
Proof. apply pres_state. intros h. simpl. destruct (h_out h); auto. Qed.
Lemma pres_fresh n : pres (fresh n).
Proof. apply pres_state. intros h. unfold fresh. destruct (take_chunk n (h_fresh h)) as [[c t]|]; auto. Qed.
Lemma pres_st_load O p : pres (st_load O p).
Proof.
  apply pres_backend, pres_state. intros h. destruct (ulookup p (s_users (h_st h))); auto.
Qed.
Lemma pres_st_load_by_csel O s : pres (st_load_by_csel O s).
Proof.
  apply pres_backend, pres_state. intros h. destruct (ufind _ (s_users (h_st h))); auto.
Qed.
Lemma pres_st_load_by_rsel O s : pres (st_load_by_rsel O s).
Proof.
  apply pres_backend, pres_state. intros h. destruct (ufind _ (s_users (h_st h))); auto.
Qed.
End P.

(* the remember table is not part of [uc] *)
Lemma pres_uc_st_add_rm O p t : pres uc (st_add_rm O p t).
Proof. apply (pres_backend uc). intros h r h' Eq. inversion Eq; subst. reflexivity. Qed.
Lemma pres_uc_st_del_rm O p : pres uc (st_del_rm O p).
Proof. apply (pres_backend uc). intros h r h' Eq. inversion Eq; subst. reflexivity. Qed.
Lemma pres_st_set_cuser u : pres h_st (set_cuser u).
Proof. intros h r h' Eq. inversion Eq; subst. reflexivity. Qed.

(* syntax-directed prover, after EvLogic's *)
Ltac pres_step :=
  match goal with
  | |- pres _ (bind _ _) => apply pres_bind; [|intros]
  | |- pres _ (try _ _) => apply pres_try; [|intros]
  | |- pres _ (ret _) => apply pres_ret
  | |- pres _ (fail _) => apply pres_fail
  | |- pres _ panic => apply pres_panic
  | |- pres _ get_h => apply pres_get_h
  | |- pres _ get_cuser => apply pres_get_cuser
  | |- pres _ (put_session _ _) => apply pres_put_session
  | |- pres _ (del_session _) => apply pres_del_session
  | |- pres _ (delall_session _) => apply pres_delall_session
  | |- pres _ (put_cookie _ _) => apply pres_put_cookie
  | |- pres _ (del_cookie _) => apply pres_del_cookie
  | |- pres _ (write_resp _) => apply pres_write_resp
  | |- pres _ (log _) => apply pres_log
  | |- pres _ (fresh _) => apply pres_fresh
  | |- pres _ (set_cpid _) => apply pres_set_cpid
  | |- pres _ (st_load _ _) => apply pres_st_load
  | |- pres _ (st_load_by_csel _ _) => apply pres_st_load_by_csel
  | |- pres _ (st_load_by_rsel _ _) => apply pres_st_load_by_rsel
  | |- pres uc (st_add_rm _ _ _) => apply pres_uc_st_add_rm
  | |- pres uc (st_del_rm _ _) => apply pres_uc_st_del_rm
  | |- pres h_st (set_cuser _) => apply pres_st_set_cuser
  | |- pres _ (backend _ _ _) => apply pres_backend
  | |- pres _ (modify _) => apply pres_modify; intros; simpl; auto
  | |- pres _ (if ?c then _ else _) => destruct c eqn:?
  | |- pres _ (match ?x with _ => _ end) => destruct x eqn:?
  | |- pres _ (let '(_, _) := ?x in _) => destruct x eqn:?
  end.
Ltac pres_go := repeat (unfold_derived; cbn beta iota; pres_step); try exact _.

Section PH.
Variable E : env.
Context {X : Type} (proj : hst -> X) `{D : StDep X proj}.

Lemma pres_redirect ro : pres proj (redirect E ro). Proof. pres_go. Qed.
Lemma pres_respond p d : pres proj (respond E p d). Proof. pres_go. Qed.
Lemma pres_send_code p n : pres proj (send_code_to_user E p n). Proof. pres_go. Qed.
End PH.

(* ---- exact specifications of Save and of the selector loads --------------------------- *)
Section SP.
Variable E : env.

Lemma st_save_spec u h r h' :
  st_save (e_O E) u h = (r, h') ->
  h_sev h' = h_sev h /\ h_cev h' = h_cev h /\ h_out h' = h_out h /\ h_cuser h' = h_cuser h /\
  ((exists e, r = Err e /\ h_st h' = h_st h) \/
   (r = Ok tt /\ h_st h' = h_st h <| s_users := uput (u_pid u) u (s_users (h_st h)) |>)).
Proof.
  unfold st_save. intros Eq.
  destruct (backend_inv _ _ _ _ _ _ Eq) as [(e & -> & A1 & A2 & A3 & A4 & A5 & _)|(h1 & A1 & A2 & A3 & A4 & A5 & _ & _ & Eb)].
  - repeat split; auto. left. eauto.
  - inversion Eb; subst. simpl. rewrite A4. repeat split; auto.
Qed.

Lemma st_del_rm_spec p h r h' :
  st_del_rm (e_O E) p h = (r, h') ->
  (exists e, r = Err e /\ h_st h' = h_st h) \/
  (r = Ok tt /\ h_st h' = h_st h <| s_rm := rmput p [] (s_rm (h_st h)) |>).
Proof.
  unfold st_del_rm. intros Eq.
  destruct (backend_inv _ _ _ _ _ _ Eq) as [(e & -> & _ & _ & _ & A4 & _)|(h1 & _ & _ & _ & A4 & _ & _ & _ & Eb)].
  - left. eauto.
  - inversion Eb; subst. simpl. rewrite A4. auto.
Qed.

Lemma st_load_by_csel_spec sel h r h' :
  st_load_by_csel (e_O E) sel h = (r, h') ->
  h_st h' = h_st h /\ h_cuser h' = h_cuser h /\ r <> Panic /\
  (forall u, r = Ok u -> ufind (fun u => beqb (u_csel u) sel) (s_users (h_st h)) = Some u) /\
  (r = Err ErrUserNotFound \/ r = Err ErrOther \/ exists u, r = Ok u).
Proof.
  unfold st_load_by_csel. intros Eq.
  destruct (backend_inv _ _ _ _ _ _ Eq) as [(e & -> & _ & _ & _ & A4 & A5 & _)|(h1 & _ & _ & _ & A4 & A5 & _ & _ & Eb)].
  - repeat split; auto; try discriminate.
    unfold backend in Eq. destruct (fault_at _ _) as [[|]|]; [inversion Eq; auto|inversion Eq; auto|].
    destruct (ufind _ _); inversion Eq; subst; auto.
  - rewrite A4 in Eb. destruct (ufind _ (s_users (h_st h))) as [u0|] eqn:F; inversion Eb; subst.
    + repeat split; auto; try discriminate; [|right; right; eauto]. intros u Hu. inversion Hu; subst. reflexivity.
    + repeat split; auto; try discriminate.
Qed.

Lemma st_load_by_rsel_spec sel h r h' :
  st_load_by_rsel (e_O E) sel h = (r, h') ->
  h_st h' = h_st h /\ h_cuser h' = h_cuser h /\ r <> Panic /\
  (forall u, r = Ok u -> ufind (fun u => beqb (u_rsel u) sel) (s_users (h_st h)) = Some u).
Proof.
  unfold st_load_by_rsel. intros Eq.
  destruct (backend_inv _ _ _ _ _ _ Eq) as [(e & -> & _ & _ & _ & A4 & A5 & _)|(h1 & _ & _ & _ & A4 & A5 & _ & _ & Eb)].
  - repeat split; auto; discriminate.
  - rewrite A4 in Eb. destruct (ufind _ (s_users (h_st h))) as [u0|] eqn:F; inversion Eb; subst.
    + repeat split; auto; try discriminate. intros u Hu. inversion Hu; subst. reflexivity.
    + repeat split; auto; discriminate.
Qed.

Lemma hash_spec {A} (a : A) h r h' :
  backend (e_O E) KHash (ret a) h = (r, h') ->
  h_st h' = h_st h /\ h_cuser h' = h_cuser h /\ h_sev h' = h_sev h /\ forall x, r = Ok x -> x = a.
Proof.
  intros Eq.
  destruct (backend_inv _ _ _ _ _ _ Eq) as [(e & -> & A1 & _ & _ & A4 & A5 & _)|(h1 & A1 & _ & _ & A4 & A5 & _ & _ & Eb)].
  - repeat split; auto. discriminate.
  - inversion Eb; subst. repeat split; auto. intros x Hx. inversion Hx; reflexivity.
Qed.
End SP.

(* bind over a computation that leaves storage alone: either it went on, or storage is as before *)
Lemma bind_pres_inv {A B} (m : M A) (f : A -> M B) h r h' :
  pres h_st m -> bind m f h = (r, h') ->
  (exists a h1, m h = (Ok a, h1) /\ h_st h1 = h_st h /\ f a h1 = (r, h')) \/ h_st h' = h_st h.
Proof.
  intros Hp Eq. destruct (bind_inv _ _ _ _ _ Eq) as [(a & h1 & E1 & E2)|[(e & E1 & ->)|(E1 & ->)]].
  - left. exists a, h1. repeat split; auto. eapply Hp; eauto.
  - right. eapply Hp; eauto.
  - right. eapply Hp; eauto.
Qed.

(* the lock triple is the only thing the lock hooks change *)
Definition upto_lock (u0 u : user) : Prop := exists s, u = set_ltriple u0 s.
Lemma upto_lock_refl u : upto_lock u u.
Proof. exists (ltriple u). destruct u; reflexivity. Qed.
Lemma upto_lock_lock u0 u s : upto_lock u0 u -> upto_lock u0 (set_ltriple u s).
Proof. intros [s0 ->]. exists s. destruct u0; reflexivity. Qed.

(* ---- the invariant kept by the event hooks ---------------------------------------------- *)
Section HI.
Variable E : env.
Variable P : bytes.                         (* whose record *)
Variable Q : user -> Prop.                  (* what stays true of it *)
Variable L0 : list (bytes * user).          (* frame: everybody else's record *)
Hypothesis Q_lock : forall u s, Q u -> Q (set_ltriple u s).

Definition hinv (h : hst) : Prop :=
  (exists cu, h_cuser h = Some cu /\ u_pid cu = P /\ Q cu) /\
  (exists su, ulookup P (s_users (h_st h)) = Some su /\ Q su) /\
  (forall p, p <> P -> ulookup p (s_users (h_st h)) = ulookup p L0).

Definition keeps_inv {A} (m : M A) : Prop := forall h r h', hinv h -> m h = (r, h') -> hinv h'.

Lemma keeps_of_pres {A} (m : M A) : pres uc m -> keeps_inv m.
Proof.
  intros Hp h r h' I Eq. apply Hp in Eq. unfold uc in Eq. inversion Eq as [[A1 A2]].
  unfold hinv. rewrite A1, A2. exact I.
Qed.

Lemma keeps_bind {A B} (m : M A) (f : A -> M B) : keeps_inv m -> (forall a, keeps_inv (f a)) -> keeps_inv (bind m f).
Proof.
  intros Hm Hf h r h' I Eq. destruct (bind_inv _ _ _ _ _ Eq) as [(a & h1 & E1 & E2)|[(e & E1 & ->)|(E1 & ->)]].
  - eapply Hf; [|exact E2]. eapply Hm; eauto.
  - eapply Hm; eauto.
  - eapply Hm; eauto.
Qed.

(* the shape shared by the three lock hooks: take the context user, change only the lock
   triple, put him back, save him *)
Lemma lock_update_inv (s : user -> lstate) {A} (k : user -> M A) :
  (forall u, pres uc (k u)) ->
  keeps_inv ('(u, shared) <- current_user E ;;
             let u2 := set_ltriple u (s u) in
             store_back u2 shared ;;; st_save (e_O E) u2 ;;; k u2).
Proof.
  intros Hk h r h' I Eq. pose proof I as ((cu & Hc & Hp & Hq) & (su & Hs & Hqs) & Fr).
  unfold current_user in Eq. unfold bind at 1 in Eq. unfold bind at 1 in Eq. unfold get_h in Eq.
  rewrite Hc in Eq. unfold ret at 1 in Eq. cbn beta iota in Eq. unfold store_back in Eq.
  remember (set_ltriple cu (s cu)) as u2 eqn:Hu2.
  assert (P2 : u_pid u2 = P) by (subst u2; exact Hp).
  assert (Q2 : Q u2) by (subst u2; apply Q_lock; exact Hq).
  apply bind_inv in Eq as [(a & h1 & E1 & E2)|[(e & E1 & ->)|(E1 & ->)]]; try (inversion E1; fail).
  inversion E1; subst a h1; clear E1.
  assert (I1 : hinv (h <| h_cuser := Some u2 |>)).
  { split; [exists u2; auto|]. split; [exists su; auto|exact Fr]. }
  apply bind_inv in E2 as [(a & h2 & E1 & E2)|[(e & E1 & ->)|(E1 & ->)]];
    apply st_save_spec in E1 as (_ & _ & _ & Cu & [(e' & Hr & St)|(Hr & St)]); try discriminate Hr.
  - assert (I2 : hinv h2).
    { split; [exists u2; rewrite Cu; auto|]. rewrite St, P2. simpl. split.
      - exists u2. rewrite ulookup_uput_eq. auto.
      - intros p Np. rewrite ulookup_uput_neq by assumption. apply Fr. exact Np. }
    eapply (keeps_of_pres _ (Hk u2)); eauto.
  - destruct I1 as (I1a & I1b & I1c). split; [rewrite Cu; exact I1a|]. rewrite St. auto.
Qed.

Definition benign (hk : hook) : Prop := hk <> HConfirmStart.

Lemma keeps_hook hk rm hd : benign hk -> keeps_inv (run_hook E hk rm hd).
Proof.
  intros Hb. destruct hk; try (exfalso; apply Hb; reflexivity); unfold run_hook.
  - unfold update_locked_state, lock_apply.
    apply (lock_update_inv (fun u => lstep (lcfg_of E) (ltriple u) (LOkBefore (o_now (e_O E))))
             (fun u2 => if negb (is_locked E u2) then ret false else redirect E (ro_fail (p_lock_notok_of (e_cfg E))) ;;; ret true)).
    intros u. destruct (negb (is_locked E u)); [apply pres_ret|].
    apply pres_bind; [apply pres_redirect; exact _|intros; apply pres_ret].
  - unfold lock_apply.
    apply (lock_update_inv (fun u => lstep (lcfg_of E) (ltriple u) (LOkAfter (o_now (e_O E)))) (fun _ => ret false)).
    intros u. apply pres_ret.
  - unfold update_locked_state, lock_apply.
    apply (lock_update_inv (fun u => lstep (lcfg_of E) (ltriple u) (LFail (o_now (e_O E))))
             (fun u2 => if negb (is_locked E u2) then ret false else redirect E (ro_fail (p_lock_notok_of (e_cfg E))) ;;; ret true)).
    intros u. destruct (negb (is_locked E u)); [apply pres_ret|].
    apply pres_bind; [apply pres_redirect; exact _|intros; apply pres_ret].
  - apply keeps_of_pres. pres_go.
  - apply keeps_of_pres. pres_go.
  - apply keeps_of_pres. pres_go.
  - apply keeps_of_pres. pres_go.
  - apply keeps_of_pres. pres_go.
  - apply keeps_of_pres. pres_go.
Qed.

Lemma keeps_call hs : Forall benign hs -> forall rm hd, keeps_inv (call E hs rm hd).
Proof.
  induction hs as [|hk hs IH]; intros F rm hd; simpl.
  - apply keeps_of_pres, pres_ret.
  - inversion F; subst. apply keeps_bind; [apply keeps_hook; assumption|intros; apply IH; assumption].
Qed.

Lemma hooks_benign e : e <> EvAfterRegister -> Forall benign (hooks E e).
Proof.
  intros Ne. unfold hooks. apply Forall_app. split.
  - induction (c_mods (e_cfg E)) as [|m l IH]; simpl; [constructor|].
    apply Forall_app. split; [|exact IH].
    destruct m, e; simpl; repeat constructor; try discriminate; congruence.
  - destruct e; try constructor; try discriminate.
    + destruct (c_expire (e_cfg E)); repeat constructor; discriminate.
    + destruct (c_sms_first (e_cfg E)), (c_totp (e_cfg E)), (c_sms (e_cfg E)); simpl; repeat constructor; discriminate.
Qed.

Lemma keeps_fire e rm : e <> EvAfterRegister -> keeps_inv (fire E e rm).
Proof. intros Ne. unfold fire. apply keeps_call. apply hooks_benign. exact Ne. Qed.
End HI.
