(* C19, request level: what /register can do to storage.  The storage invariant of
   StoreLogic.v ([hinv]) is extended to the one hook it excludes (the confirmation starter),
   so it holds across Events.call over ANY hook list; the handler is then cut into its short
   head (read, validate, hash, Create) and the tail that runs under the invariant. *)
From AB Require Import World.Handlers Proofs.EvLogic Proofs.Neutral Proofs.MonadInv Proofs.StoreLogic.
Open Scope Z_scope.

(* ---- finite maps: Create appends at the end ------------------------------------------------ *)
Lemma ulookup_app_some k l l' u : ulookup k l = Some u -> ulookup k (l ++ l') = Some u.
Proof.
  induction l as [|[k' u'] l IH]; simpl; [discriminate|].
  destruct (beqb k k'); auto.
Qed.
Lemma ulookup_app_none k l l' : ulookup k l = None -> ulookup k (l ++ l') = ulookup k l'.
Proof.
  induction l as [|[k' u'] l IH]; simpl; [reflexivity|].
  destruct (beqb k k'); [discriminate|auto].
Qed.
Lemma ulookup_snoc_neq k k' u l : k <> k' -> ulookup k (l ++ [(k', u)]) = ulookup k l.
Proof.
  intros N. induction l as [|[k2 u2] l IH]; simpl.
  - destruct (beqb k k') eqn:Eb; [apply beqb_eq in Eb; contradiction|reflexivity].
  - destruct (beqb k k2); auto.
Qed.
Lemma ulookup_snoc_new k u l : ulookup k l = None -> ulookup k (l ++ [(k, u)]) = Some u.
Proof. intros H. rewrite ulookup_app_none by exact H. simpl. rewrite beqb_refl. reflexivity. Qed.

(* ---- the hook invariant also survives the confirmation starter ---------------------------- *)
Section HI2.
Variable E : env.
Variable P : bytes.
Variable Q : user -> Prop.
Variable L0 : list (bytes * user).
Hypothesis Q_lock : forall u s, Q u -> Q (set_ltriple u s).
Hypothesis Q_confirm : forall u a b c, Q u -> Q (u <| u_confirmed := a |> <| u_csel := b |> <| u_cver := c |>).

Notation hinv := (hinv P Q L0).
Notation keeps_inv := (keeps_inv P Q L0).

Lemma keeps_try {A B} (m : M A) (f : res A -> M B) : keeps_inv m -> (forall r, keeps_inv (f r)) -> keeps_inv (try m f).
Proof.
  intros Hm Hf h r h' I Eq. destruct (try_inv _ _ _ _ _ Eq) as [(x & h1 & E1 & _ & E2)|(E1 & ->)].
  - eapply Hf; [|exact E2]. eapply Hm; eauto.
  - eapply Hm; eauto.
Qed.

Lemma keeps_set_cuser u : u_pid u = P -> Q u -> keeps_inv (set_cuser u).
Proof.
  intros Hp Hq h r h' (_ & Hs & Fr) Eq. inversion Eq; subst. split; [exists u; auto|]. split; [exact Hs|exact Fr].
Qed.

Lemma keeps_save u : u_pid u = P -> Q u -> keeps_inv (st_save (e_O E) u).
Proof.
  intros Hp Hq h r h' (Hc & Hs & Fr) Eq.
  apply st_save_spec in Eq as (_ & _ & _ & Cu & [(e & _ & St)|(_ & St)]).
  - unfold StoreLogic.hinv. rewrite Cu, St. auto.
  - unfold StoreLogic.hinv. rewrite Cu, St, Hp. simpl. split; [exact Hc|]. split.
    + exists u. rewrite ulookup_uput_eq. auto.
    + intros p Np. rewrite ulookup_uput_neq by assumption. apply Fr. exact Np.
Qed.

Lemma keeps_current_user_bind {B} (f : user * bool -> M B) :
  (forall cu, u_pid cu = P -> Q cu -> keeps_inv (f (cu, true))) -> keeps_inv (bind (current_user E) f).
Proof.
  intros Hf h r h' I Eq. pose proof I as ((cu & Hc & Hp & Hq) & _).
  unfold current_user, bind at 1 2, get_h in Eq. rewrite Hc in Eq. unfold ret at 1 in Eq.
  eapply Hf; eauto.
Qed.

Lemma keeps_confirm_start rm hd : keeps_inv (run_hook E HConfirmStart rm hd).
Proof.
  unfold run_hook. apply keeps_current_user_bind. intros cu Hp Hq. cbn beta iota.
  apply keeps_bind; [apply keeps_of_pres; pres_go|intros [[sel ver] tok]]. cbn beta iota zeta.
  unfold store_back.
  apply keeps_bind; [apply keeps_set_cuser; [exact Hp|apply Q_confirm; exact Hq]|intros _].
  apply keeps_bind; [apply keeps_of_pres; pres_go|intros _].
  apply keeps_bind.
  { apply keeps_try; [apply keeps_save; [exact Hp|apply Q_confirm; exact Hq]|].
    intros [x|e|]; apply keeps_of_pres; pres_go. }
  intros _. apply keeps_of_pres. pres_go.
Qed.

Lemma keeps_hook_all hk rm hd : keeps_inv (run_hook E hk rm hd).
Proof.
  destruct hk; try (apply keeps_hook; [exact Q_lock|discriminate]).
  apply keeps_confirm_start.
Qed.
Lemma keeps_call_all hs : forall rm hd, keeps_inv (call E hs rm hd).
Proof.
  induction hs as [|hk hs IH]; intros rm hd; simpl.
  - apply keeps_of_pres, pres_ret.
  - apply keeps_bind; [apply keeps_hook_all|intros; apply IH].
Qed.
Lemma keeps_fire_all e rm : keeps_inv (fire E e rm).
Proof. unfold fire. apply keeps_call_all. Qed.
End HI2.

Section RG.
Variable E : env.
Notation C := (e_C E).
Notation cfg := (e_cfg E).
Notation vals := (values E).

Definition reg_pid : bytes := aget (pid_field E) vals.

(* the record /register hands to Create *)
Definition reg_user : user :=
  blank_user <| u_pid := reg_pid |>
             <| u_email := (if c_username cfg then aget f_email (arbitrary_of vals) else reg_pid) |>
             <| u_password := pwhash C (aget f_password vals) |> <| u_arb := arbitrary_of vals |>
             <| u_last := zero_time |> <| u_locked := zero_time |> <| u_rexp := zero_time |> <| u_oexp := zero_time |>.

(* that record, except for the confirmation fields and the lock bookkeeping *)
Definition reg_like (x : user) : Prop :=
  exists a b c s, x = set_ltriple (reg_user <| u_confirmed := a |> <| u_csel := b |> <| u_cver := c |>) s.

Lemma reg_like_lock u s : reg_like u -> reg_like (set_ltriple u s).
Proof. intros (a & b & c & s0 & ->). exists a, b, c, s. generalize reg_user. intros [ ]. reflexivity. Qed.
Lemma reg_like_confirm u a b c :
  reg_like u -> reg_like (u <| u_confirmed := a |> <| u_csel := b |> <| u_cver := c |>).
Proof. intros (a0 & b0 & c0 & s0 & ->). exists a, b, c, s0. generalize reg_user. intros [ ]. reflexivity. Qed.
Lemma reg_like_self : reg_like reg_user.
Proof. exists false, [], [], (ltriple reg_user). reflexivity. Qed.

Lemma reg_like_shape x :
  reg_like x ->
  u_pid x = reg_pid /\ u_password x = pwhash C (aget f_password vals) /\ u_arb x = arbitrary_of vals /\
  u_email x = (if c_username cfg then aget f_email (arbitrary_of vals) else reg_pid) /\
  u_totp x = [] /\ u_sms x = [] /\ u_otps x = [] /\ u_recovery x = [] /\ u_rsel x = [] /\ u_rver x = [].
Proof. intros (a & b & c & s & ->). repeat split. Qed.

Lemma arbitrary_keys : Forall (fun kv => In (fst kv) whitelist_register) (arbitrary_of vals).
Proof.
  unfold arbitrary_of. apply Forall_forall. intros kv Hin. apply filter_In in Hin as [_ Hb].
  apply bmem_In. exact Hb.
Qed.

(* Create: exact effect on storage *)
Lemma st_create_spec2 u h r h' :
  st_create (e_O E) u h = (r, h') ->
  h_cuser h' = h_cuser h /\
  ((exists e, r = Err e /\ h_st h' = h_st h) \/
   (r = Ok tt /\ ulookup (u_pid u) (s_users (h_st h)) = None /\
    h_st h' = h_st h <| s_users := s_users (h_st h) ++ [(u_pid u, u)] |>)).
Proof.
  unfold st_create. intros Eq.
  destruct (backend_inv _ _ _ _ _ _ Eq) as [(e & -> & _ & _ & _ & A4 & A5 & _)|(h1 & _ & _ & _ & A4 & A5 & _ & _ & Eb)].
  - split; [exact A5|]. left. eauto.
  - destruct (ulookup (u_pid u) (s_users (h_st h1))) eqn:L; inversion Eb; subst; simpl.
    + split; [exact A5|]. left. eauto.
    + split; [exact A5|]. right. rewrite <- A4. auto.
Qed.

Definition reg_ok : Prop :=
  valid [pid_rule E; password_rule] pw_pairs vals = true /\ (length (aget f_password vals) <= 72)%nat.

(* the two outcomes of a registration request, on storage *)
Lemma register_post_cases h r h' :
  register_post E h = (r, h') ->
  h_st h' = h_st h \/
  (reg_ok /\ ulookup reg_pid (s_users (h_st h)) = None /\
   (exists su, ulookup reg_pid (s_users (h_st h')) = Some su /\ reg_like su) /\
   (forall p, p <> reg_pid -> ulookup p (s_users (h_st h')) = ulookup p (s_users (h_st h)))).
Proof.
  intros Eq. unfold register_post in Eq.
  apply bind_pres_inv in Eq as [(v & h1 & E1 & S1 & E2)|Hs]; [|left; exact Hs|pres_go].
  apply read_values_spec in E1 as [-> [Hv|Hv]]; [|discriminate Hv]. inversion Hv; subst v; clear Hv S1.
  destruct (valid [pid_rule E; password_rule] pw_pairs vals) eqn:Vd; cbn [negb] in E2.
  2:{ left. revert E2. generalize h r h'.
      change (pres h_st (log [] ;;; respond E (bs "register") [(bs "errors", DOther); (bs "preserve", DOther)])). pres_go. }
  cbv zeta in E2.
  destruct ((72 <? length (aget f_password vals))%nat) eqn:Ln.
  { left. revert E2. generalize h r h'. change (pres h_st (backend (e_O E) KHash (@fail unit ErrOther))). pres_go. }
  apply Nat.ltb_ge in Ln.
  apply bind_pres_inv in E2 as [(pass & h2 & F1 & S2 & E2)|Hs]; [|left; exact Hs|pres_go].
  apply hash_spec in F1 as (_ & _ & _ & Hp). specialize (Hp pass eq_refl). subst pass.
  change (try (st_create (e_O E) reg_user) (fun r0 =>
            match r0 with
            | Ok _ => set_cuser reg_user ;;;
                      (handled <- fire E EvAfterRegister false ;;
                       if handled then ret tt
                       else put_session k_uid reg_pid ;;; log [reg_pid] ;;; redirect E (ro_ok (p_register_ok_of (e_cfg E))))
            | Err ErrUserFound =>
                log [reg_pid] ;;; respond E (bs "register") [(bs "errors", DOther); (bs "preserve", DOther)]
            | Err e => fail e
            | Panic => panic
            end) h2 = (r, h')) in E2.
  apply try_inv in E2 as [(x & k1 & L & NP & K)|(L & ->)].
  2:{ left. apply st_create_spec2 in L as (_ & [(e & Hr & _)|(Hr & _)]); discriminate Hr. }
  apply st_create_spec2 in L as (Cu & [(e & -> & St)|(-> & Hn & St)]).
  - left. rewrite <- S2, <- St. revert K. generalize k1 r h'.
    change (pres h_st (match e with
                       | ErrUserFound => log [reg_pid] ;;; respond E (bs "register") [(bs "errors", DOther); (bs "preserve", DOther)]
                       | e0 => @fail unit e0 end)).
    destruct e; pres_go.
  - right. change (u_pid reg_user) with reg_pid in *. rewrite S2 in Hn.
    split; [split; assumption|]. split; [exact Hn|].
    apply bind_inv in K as [(a & k2 & F2 & K)|[(e & F2 & _)|(F2 & _)]]; try (inversion F2; fail).
    inversion F2; subst a k2; clear F2.
    assert (I2 : hinv reg_pid reg_like (s_users (h_st h)) (k1 <| h_cuser := Some reg_user |>)).
    { split; [exists reg_user; repeat split; apply reg_like_self|]. simpl. rewrite St, S2. simpl. split.
      - exists reg_user. split; [apply ulookup_snoc_new; exact Hn|apply reg_like_self].
      - intros p Np. apply ulookup_snoc_neq. exact Np. }
    assert (G : keeps_inv reg_pid reg_like (s_users (h_st h))
                  (handled <- fire E EvAfterRegister false ;;
                   if handled then ret tt
                   else put_session k_uid reg_pid ;;; log [reg_pid] ;;; redirect E (ro_ok (p_register_ok_of (e_cfg E))))).
    { apply keeps_bind; [apply keeps_fire_all; [apply reg_like_lock|apply reg_like_confirm]|].
      intros [|]; apply keeps_of_pres; pres_go. }
    destruct (G _ _ _ I2 K) as (_ & Hs & Fr). split; [exact Hs|exact Fr].
Qed.

(* (i) records that existed before the request are still there, unchanged *)
Lemma register_existing_unchanged h r h' p u :
  register_post E h = (r, h') ->
  ulookup p (s_users (h_st h)) = Some u -> ulookup p (s_users (h_st h')) = Some u.
Proof.
  intros Eq Hu. apply register_post_cases in Eq as [St|(_ & Hn & _ & Fr)].
  - rewrite St. exact Hu.
  - destruct (bytes_dec p reg_pid) as [->|Np]; [rewrite Hn in Hu; discriminate Hu|].
    rewrite Fr by exact Np. exact Hu.
Qed.

(* (ii) a submission that fails the policy, or whose password bcrypt refuses, creates nothing *)
Lemma register_invalid_creates_nothing h r h' :
  register_post E h = (r, h') ->
  valid [pid_rule E; password_rule] pw_pairs vals = false \/ (72 < length (aget f_password vals))%nat ->
  h_st h' = h_st h /\ h_cuser h' = h_cuser h /\ h_mails h' = h_mails h /\
  exists ls, h_sev h' = h_sev h ++ ls /\ Forall sess_neutral ls.
Proof.
  intros Eq Bad.
  assert (St : h_st h' = h_st h /\ h_cuser h' = h_cuser h).
  { pose proof (register_post_cases _ _ _ Eq) as [St|((Vd & Ln) & _)].
    2:{ exfalso. destruct Bad as [B|B]; [congruence|]. apply (Nat.lt_irrefl 72). eapply Nat.lt_le_trans; eauto. }
    split; [exact St|].
    unfold register_post in Eq.
    apply bind_inv in Eq as [(v & h1 & E1 & E2)|[(e & E1 & ->)|(E1 & ->)]];
      apply read_values_spec in E1 as [-> [Hv|Hv]]; try discriminate Hv; try reflexivity.
    inversion Hv; subst v; clear Hv.
    destruct (valid [pid_rule E; password_rule] pw_pairs vals) eqn:Vd; cbn [negb] in E2.
    2:{ assert (Pu : pres uc (log [] ;;; respond E (bs "register") [(bs "errors", DOther); (bs "preserve", DOther)])) by pres_go.
        apply Pu in E2. unfold uc in E2. congruence. }
    destruct Bad as [B|B]; [discriminate B|]. apply Nat.ltb_lt in B. cbv zeta in E2. rewrite B in E2.
    assert (Pu : pres uc (backend (e_O E) KHash (@fail unit ErrOther))) by pres_go.
    apply Pu in E2. unfold uc in E2. congruence. }
  destruct St as [St Cu]. split; [exact St|]. split; [exact Cu|].
  unfold register_post in Eq.
  apply bind_inv in Eq as [(v & h1 & E1 & E2)|[(e & E1 & ->)|(E1 & ->)]];
    apply read_values_spec in E1 as [-> [Hv|Hv]]; try discriminate Hv;
    try (split; [reflexivity|]; exists []; rewrite app_nil_r; auto; fail).
  inversion Hv; subst v; clear Hv.
  assert (Mk : forall (m : M unit), evs_all sess_neutral any_ev m ->
               (forall h0 r0 h1, m h0 = (r0, h1) -> h_mails h1 = h_mails h0) ->
               m h = (r, h') -> h_mails h' = h_mails h /\ exists ls, h_sev h' = h_sev h ++ ls /\ Forall sess_neutral ls).
  { intros m Hn Hm Em. split; [eapply Hm; eauto|].
    destruct (Hn _ _ _ Em) as [(ls & lc & S1 & _ & F1 & _) _]. eauto. }
  destruct (valid [pid_rule E; password_rule] pw_pairs vals) eqn:Vd; cbn [negb] in E2.
  2:{ revert E2. apply Mk; [apply evs_bind; [apply evs_log|intros _; apply neutral_respond]|].
      intros h00 r0 h1 Em. unfold log, modify in Em. cbn [bind] in Em.
      set (h0 := h00 <| h_logs := h_logs h00 ++ [[]] |>) in Em.
      change (h_mails h00) with (h_mails h0).
      unfold respond, render in Em.
      apply bind_inv in Em as [(a & k1 & F1 & F2)|[(e & F1 & ->)|(F1 & ->)]].
      - inversion F2; subst. unfold write_resp, modify in *. simpl.
        assert (h_mails k1 = h_mails h0).
        { unfold backend in F1. destruct (fault_at _ _) as [[|]|]; inversion F1; subst; reflexivity. }
        destruct (h_out k1); simpl; assumption.
      - unfold backend in F1. destruct (fault_at _ _) as [[|]|]; inversion F1; subst; reflexivity.
      - unfold backend in F1. destruct (fault_at _ _) as [[|]|]; inversion F1; subst; reflexivity. }
  destruct Bad as [B|B]; [discriminate B|]. apply Nat.ltb_lt in B. cbv zeta in E2. rewrite B in E2.
  revert E2. apply Mk; [apply evs_backend, evs_fail|].
  intros h0 r0 h1 Em. unfold backend in Em. destruct (fault_at _ _) as [[|]|]; inversion Em; subst; reflexivity.
Qed.

(* (iii) a record that appears under the submitted pid is the one built from the submitted
   values: hashed password, whitelisted arbitrary fields, nothing else set except what the
   confirm and lock modules write *)
Lemma register_created_record_shape h r h' su :
  register_post E h = (r, h') ->
  ulookup reg_pid (s_users (h_st h)) = None ->
  ulookup reg_pid (s_users (h_st h')) = Some su ->
  reg_ok /\
  u_pid su = reg_pid /\
  u_password su = pwhash C (aget f_password vals) /\
  u_arb su = arbitrary_of vals /\
  Forall (fun kv => In (fst kv) whitelist_register) (u_arb su) /\
  u_email su = (if c_username cfg then aget f_email (arbitrary_of vals) else reg_pid) /\
  reg_like su.
Proof.
  intros Eq Hn Hs. apply register_post_cases in Eq as [St|(Ok & _ & (su' & Hs' & Hl) & _)].
  - rewrite St, Hn in Hs. discriminate Hs.
  - rewrite Hs in Hs'. inversion Hs'; subst su'. clear Hs'.
    destruct (reg_like_shape _ Hl) as (A1 & A2 & A3 & A4 & _).
    repeat split; auto; try apply Ok. rewrite A3. apply arbitrary_keys.
Qed.
End RG.
