From AB Require Import Model.Lock Spec.C04.
Open Scope Z_scope.

(* C04 — proofs for Props/C04.v.  Standard library only; no axioms. *)

Lemma lrun_snoc : forall c s h o, lrun c s (h ++ [o]) = lstep c (lrun c s h) o.
Proof.
  intros c s h o. unfold lrun. rewrite fold_left_app. reflexivity.
Qed.

Lemma c04_refines_lemma : forall c (h : list lop),
  let s := lrun c l_init h in
  l_count s = streak c (rev h) /\ l_last s = last_stamp c (rev h) /\ l_locked s = locked_until c (rev h).
Proof.
  intros c h. cbv zeta.
  induction h as [|o h IH] using rev_ind.
  - simpl. repeat split; reflexivity.
  - destruct IH as [IHc [IHl IHk]].
    rewrite lrun_snoc. rewrite rev_unit.
    remember (lrun c l_init h) as s eqn:Hs.
    remember (rev h) as rh eqn:Hrh.
    destruct o as [t|t|t|t|t]; simpl.
    + rewrite <- IHc, <- IHl, <- IHk.
      destruct (t - l_last s <=? lc_window c) eqn:Hw; simpl.
      * destruct (lc_after c <=? l_count s + 1) eqn:Ha; simpl;
          repeat split; reflexivity.
      * destruct (lc_after c <=? 1) eqn:Ha; simpl; repeat split; reflexivity.
    + repeat split; assumption || reflexivity.
    + repeat split; assumption || reflexivity.
    + repeat split; assumption || reflexivity.
    + repeat split; reflexivity.
Qed.

Lemma c04_correct_never_counts_lemma :
  forall c s t, l_count (lstep c s (LOkBefore t)) = l_count s.
Proof. intros c s t. reflexivity. Qed.

Lemma c04_success_resets_lemma :
  forall c s t, l_count (lstep c s (LOkAfter t)) = 0.
Proof. intros c s t. reflexivity. Qed.

Lemma c04_unlock_clears_lemma : forall c s t t', 0 <= lc_duration c -> t <= t' ->
  l_count (lstep c s (LUnlock t)) = 0 /\ locked_at (lstep c s (LUnlock t)) t' = false.
Proof.
  intros c s t t' Hd Ht. split.
  - reflexivity.
  - unfold locked_at. simpl. apply Z.ltb_ge. lia.
Qed.

Lemma c04_threshold_lemma : forall c s t, 1 <= lc_after c -> 0 <= lc_window c ->
  t - l_last s <= lc_window c ->
  let s' := lstep c s (LFail t) in
  l_count s' = l_count s + 1 /\
  (lc_after c <= l_count s + 1 -> forall t', locked_at s' t' = true <-> t' < t + lc_duration c) /\
  (l_count s + 1 < lc_after c -> l_locked s' = l_locked s).
Proof.
  intros c s t Ha Hw Hin. cbv zeta. unfold locked_at. simpl.
  apply Z.leb_le in Hin. rewrite Hin. simpl.
  split; [reflexivity|]. split.
  - intros Hge t'. apply Z.leb_le in Hge. rewrite Hge. apply Z.ltb_lt.
  - intros Hlt. apply Z.leb_gt in Hlt. rewrite Hlt. reflexivity.
Qed.

Lemma c04_window_restart_lemma : forall c s t, lc_window c < t - l_last s ->
  let s' := lstep c s (LFail t) in
  l_count s' = 1 /\
  (2 <= lc_after c -> l_locked s' = l_locked s) /\
  (lc_after c <= 1 -> forall t', locked_at s' t' = true <-> t' < t + lc_duration c).
Proof.
  intros c s t Hgap. cbv zeta. unfold locked_at. simpl.
  apply Z.leb_gt in Hgap. rewrite Hgap. simpl. split; [reflexivity|]. split.
  - intros H2. assert (Hn : (lc_after c <=? 1) = false) by (apply Z.leb_gt; lia). rewrite Hn. reflexivity.
  - intros H1 t'. apply Z.leb_le in H1. rewrite H1. apply Z.ltb_lt.
Qed.

(* the property's sentence itself: whenever a failure leaves the count at or above LockAfter,
   the account is locked for LockDuration from that failure *)
Lemma c04_locked_as_soon_as_lemma : forall c s t,
  let s' := lstep c s (LFail t) in
  (lc_after c <= l_count s' -> forall t', locked_at s' t' = true <-> t' < t + lc_duration c) /\
  (l_count s' < lc_after c -> l_locked s' = l_locked s).
Proof.
  intros c s t. cbv zeta. unfold locked_at. simpl. split.
  - intros Hge t'. apply Z.leb_le in Hge. rewrite Hge. apply Z.ltb_lt.
  - intros Hlt. apply Z.leb_gt in Hlt. rewrite Hlt. reflexivity.
Qed.

Lemma c04_fail_run_lemma : forall c rh (ts : list Z),
  in_window c rh ts ->
  streak c (rev (map LFail ts) ++ rh) = streak c rh + Z.of_nat (length ts).
Proof.
  intros c rh ts. revert rh.
  induction ts as [|t r IH]; intros rh Hin.
  - simpl. lia.
  - destruct Hin as [Hw Hrest].
    change (rev (map LFail (t :: r))) with (rev (map LFail r) ++ [LFail t]).
    rewrite <- app_assoc.
    change ([LFail t] ++ rh) with (LFail t :: rh).
    rewrite (IH (LFail t :: rh) Hrest).
    change (streak c (LFail t :: rh))
      with (if t - last_stamp c rh <=? lc_window c then streak c rh + 1 else 1).
    apply Z.leb_le in Hw. rewrite Hw.
    change (length (t :: r)) with (S (length r)).
    rewrite Nat2Z.inj_succ. lia.
Qed.

Lemma c04_locked_iff_lemma : forall c h t,
  locked_at (lrun c l_init h) t = true <-> t < locked_until c (rev h).
Proof.
  intros c h t.
  destruct (c04_refines_lemma c h) as [_ [_ Hk]].
  unfold locked_at. rewrite Hk. apply Z.ltb_lt.
Qed.
