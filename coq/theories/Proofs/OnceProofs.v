(* "Exactly once", as TWO-RUN theorems: a first run of a handler accepts a one-time credential;
   a second run - any environment that submits the same credential value, any browser, session,
   cookie jar and oracle - started from a state whose storage is the first run's final storage
   is refused.
     C05  confirmation token (confirm_get) and recovery token (recover_end_post);
     C07  remember cookie (remember_authenticate);
     C12  one-time password (otp_login_post), recovery code at the two 2FA validation pages
          (totp_validate_post / sms_validator_post SPValidate), texted SMS code.
   Hypotheses that the statements need are kept visible and explained where they are introduced. *)
From AB Require Import World.Handlers World.Step Base.Base64Proofs
  Proofs.EvLogic Proofs.Neutral Proofs.HandlerEvents Proofs.MonadInv
  Proofs.Guards Proofs.Guards2 Proofs.Guards3 Proofs.StoreLogic
  Proofs.TokenProofs Proofs.FlowProofs Proofs.OneTimeProofs Proofs.TwoFactorProofs Proofs.SameView2.
Open Scope Z_scope.

(* ---- finite-map facts ---------------------------------------------------------------------- *)
Lemma ufind_sat f u l : ufind f l = Some u -> f u = true.
Proof.
  induction l as [|[k v] l IH]; simpl; [discriminate|]. destruct (f v) eqn:Fv; [|exact IH].
  intros H; inversion H; subst. exact Fv.
Qed.

Lemma ufind_none f l : (forall k v, In (k, v) l -> f v = false) -> ufind f l = None.
Proof.
  induction l as [|[k v] l IH]; simpl; intros H; [reflexivity|].
  rewrite (H k v (or_introl eq_refl)). apply IH. intros k' v' Hin. apply (H k' v'). right. exact Hin.
Qed.

(* with distinct keys, Save replaces one entry and leaves the entries under the other keys *)
Lemma uput_in_nodup k u k' u' l :
  NoDup (map fst l) -> In (k', u') (uput k u l) -> (k', u') = (k, u) \/ (In (k', u') l /\ k' <> k).
Proof.
  induction l as [|[k2 u2] l IH]; simpl; intros ND H.
  - destruct H as [H|[]]. left. symmetry. exact H.
  - inversion ND as [|? ? N1 N2]; subst. destruct (beqb k k2) eqn:Eb.
    + apply beqb_eq in Eb. subst k2. destruct H as [H|H]; [left; symmetry; exact H|].
      right. split; [right; exact H|]. intros ->. apply N1. apply (in_map fst) in H. exact H.
    + apply beqb_neq in Eb. destruct H as [H|H].
      * inversion H; subst. right. split; [left; reflexivity|]. intros ->. apply Eb. reflexivity.
      * destruct (IH N2 H) as [Hx|[Hx Hn]]; [left; exact Hx|right; split; [right; exact Hx|exact Hn]].
Qed.

(* a table in which one key holds a record filed under that key, and every other key holds what
   a keyed table held, is keyed *)
Lemma keyed_frame st st' P su :
  keyed st -> ulookup P (s_users st') = Some su -> u_pid su = P ->
  (forall p, p <> P -> ulookup p (s_users st') = ulookup p (s_users st)) -> keyed st'.
Proof.
  intros K Hs Hp Fr k v Hk. destruct (bytes_dec k P) as [->|N].
  - rewrite Hs in Hk. inversion Hk; subst. reflexivity.
  - rewrite Fr in Hk by exact N. apply K. exact Hk.
Qed.

Lemma bmem_false_iff k l : bmem k l = false <-> ~ In k l.
Proof.
  split.
  - intros H Hin. apply bmem_In in Hin. congruence.
  - intros H. destruct (bmem k l) eqn:B; [|reflexivity]. apply bmem_In in B. contradiction.
Qed.

Lemma b64std_enc_nonempty x : x <> [] -> b64std_enc x <> [].
Proof. intros N H. apply N. apply b64std_enc_inj. rewrite H. reflexivity. Qed.

Lemma evs_left (phi : csevent -> Prop) {A} (m : M A) h2 h r h' :
  h_sev h2 = h_sev h -> evs_all phi any_ev m -> m h2 = (r, h') ->
  exists ls, h_sev h' = h_sev h ++ ls /\ Forall phi ls.
Proof.
  intros S Hm Eq. destruct (Hm _ _ _ Eq) as [(ls & lc & A1 & _ & F & _) _]. exists ls. rewrite <- S. auto.
Qed.

(* ============================== C05: confirmation token ======================================= *)

(* two stored records that carry the same non-empty confirmation selector are the same record *)
Definition csel_unique (st : storage) : Prop :=
  forall p q u v, ulookup p (s_users st) = Some u -> ulookup q (s_users st) = Some v ->
    u_csel u <> [] -> u_csel u = u_csel v -> p = q.

(* the same for the recovery selector *)
Definition rsel_unique (st : storage) : Prop :=
  forall p q u v, ulookup p (s_users st) = Some u -> ulookup q (s_users st) = Some v ->
    u_rsel u <> [] -> u_rsel u = u_rsel v -> p = q.

Lemma selector_same_crypto E1 E2 raw : e_C E2 = e_C E1 -> selector_of E2 raw = selector_of E1 raw.
Proof. intros HC. unfold selector_of. rewrite HC. reflexivity. Qed.

(* First run: a confirm request changed storage (by c05_confirm_accept: it confirmed the account
   whose stored selector / verifier are the hashes of the halves of the submitted token).
   Second run: any environment with the same crypto and the same [cnf] value, from any handler
   state over the storage the first run left.
   Hypotheses: the user table is well filed ([filed]: distinct keys, every record under its own
   pid - the selector lookup scans the table); non-empty selectors are unique; the hash of the
   token's first half is not the empty string (SHA-512 returns 64 bytes; an empty selector would
   be shared with every account that has no pending confirmation). *)
Lemma confirm_once_lemma E1 h1 r1 h1' E2 h2 r2 h2' :
  confirm_get E1 h1 = (r1, h1') -> h_st h1' <> h_st h1 ->
  filed (h_st h1) -> csel_unique (h_st h1) ->
  (forall raw, b64url_dec (aget f_cnf (values E1)) = Some raw -> sha (e_C E1) (half1 raw) <> []) ->
  e_C E2 = e_C E1 -> aget f_cnf (values E2) = aget f_cnf (values E1) -> h_st h2 = h_st h1' ->
  confirm_get E2 h2 = (r2, h2') ->
  h_st h2' = h_st h2 /\
  (exists ls, h_sev h2' = h_sev h2 ++ ls /\ Forall sess_neutral ls) /\
  (exists u, ulookup (u_pid u) (s_users (h_st h1)) = Some u /\
             ulookup (u_pid u) (s_users (h_st h2')) =
               Some (u <| u_csel := [] |> <| u_cver := [] |> <| u_confirmed := true |>)).
Proof.
  intros R1 Ch Fl Un Ne HC Tk St2 R2.
  destruct (confirm_get_cases E1 _ _ _ R1) as [U|(raw & u & D & Ln & F & V & St)]; [contradiction|].
  pose proof (filedl_found _ _ _ Fl F) as Lu.
  pose proof (ufind_sat _ _ _ F) as Su. apply beqb_eq in Su.
  assert (SelNe : selector_of E1 raw <> []) by (apply b64std_enc_nonempty, Ne; exact D).
  assert (NF : ufind (fun u => beqb (u_csel u) (selector_of E1 raw)) (s_users (h_st h2)) = None).
  { rewrite St2, St. cbn [s_users set]. apply ufind_none. intros k v Hin.
    apply uput_in_nodup in Hin as [Heq|[Hin Nk]]; [|idtac|exact (proj1 Fl)].
    - inversion Heq; subst. cbn. destruct (selector_of E1 raw) eqn:Sl; [congruence|reflexivity].
    - destruct (beqb (u_csel v) (selector_of E1 raw)) eqn:B; [|reflexivity]. exfalso.
      apply beqb_eq in B. apply Nk. symmetry.
      apply (Un (u_pid u) k u v Lu (in_ulookup _ _ _ (proj1 Fl) Hin)); congruence. }
  assert (S2 : h_st h2' = h_st h2).
  { apply (confirm_reject_cases_lemma E2 _ _ _ R2). right. exists raw. rewrite Tk. split; [exact D|].
    right. left. rewrite (selector_same_crypto E1 E2 raw HC). exact NF. }
  split; [exact S2|]. split.
  - destruct (neutral_confirm_get E2 _ _ _ R2) as [(ls & lc & A1 & _ & Fn & _) _]. eauto.
  - exists u. split; [exact Lu|]. rewrite S2, St2, St. cbn [s_users set]. apply ulookup_uput_eq.
Qed.

(* ============================== C05: recovery token =========================================== *)
Lemma keeps2fa_recover_end E : keeps2fa (recover_end_post E).
Proof. apply (@keeps2fa_of_K E _ (recover_end_post E) (fun _ => True)). intros T. apply KT_recover_end_post. Qed.

(* a recover-end request that finds no record under the submitted token's selector appends only
   uid-neutral session events *)
Lemma recover_end_no_record_neutral E h r h' :
  recover_end_post E h = (r, h') ->
  (forall raw, b64url_dec (aget f_token (values E)) = Some raw ->
     ufind (fun u => beqb (u_rsel u) (selector_of E raw)) (s_users (h_st h)) = None) ->
  exists ls, h_sev h' = h_sev h ++ ls /\ Forall sess_neutral ls.
Proof.
  intros R NF. destruct (recover_end_post_guard E h _ _ R) as (ls & lc & A1 & _ & Fg).
  exists ls. split; [exact A1|]. eapply Forall_impl; [|exact Fg].
  intros e [Hn|(U & _ & _ & raw & u & D & _ & F & _)]; [exact Hn|].
  rewrite (NF raw D) in F. discriminate F.
Qed.

(* First run: a recover-end request changed the user table (by c05_recover_accept: the password of
   the account matching the token was replaced and its token cleared).  Second run: any environment
   with the same crypto and the same [token] value (any password), from the storage the first run
   left: storage is untouched (no password changes) and nobody is logged in.
   [ctx_ok h1] holds at the start of every request (no context user: [ctx_ok_none]); with [filed] it
   makes the first run leave a well-filed table. *)
Lemma recover_once_lemma E1 h1 r1 h1' E2 h2 r2 h2' :
  recover_end_post E1 h1 = (r1, h1') -> s_users (h_st h1') <> s_users (h_st h1) ->
  filed (h_st h1) -> ctx_ok h1 -> rsel_unique (h_st h1) ->
  (forall raw, b64url_dec (aget f_token (values E1)) = Some raw -> sha (e_C E1) (half1 raw) <> []) ->
  e_C E2 = e_C E1 -> aget f_token (values E2) = aget f_token (values E1) -> h_st h2 = h_st h1' ->
  recover_end_post E2 h2 = (r2, h2') ->
  h_st h2' = h_st h2 /\
  (exists ls, h_sev h2' = h_sev h2 ++ ls /\ Forall sess_neutral ls) /\
  (exists u su, ulookup (u_pid u) (s_users (h_st h1)) = Some u /\
                ulookup (u_pid u) (s_users (h_st h2')) = Some su /\
                u_password su = pwhash (e_C E1) (aget f_password (values E1)) /\ u_rsel su = [] /\ u_rver su = []).
Proof.
  intros R1 Ch Fl Cx Un Ne HC Tk St2 R2.
  destruct (recover_end_cases E1 _ _ _ R1) as [U|(raw & u & D & Ln & F & Ex & V & _ & _ & (su & B1 & B2) & Fr)].
  { rewrite U in Ch. contradiction. }
  pose proof (filedl_found _ _ _ Fl F) as Lu.
  pose proof (ufind_sat _ _ _ F) as Su. apply beqb_eq in Su.
  destruct (keeps2fa_recover_end E1 _ _ _ Fl Cx R1) as (Fl' & _ & _).
  apply upto_lock_recovered in B2 as (_ & P1 & P2 & P3 & _).
  assert (SelNe : selector_of E1 raw <> []) by (apply b64std_enc_nonempty, Ne; exact D).
  assert (NF : ufind (fun u => beqb (u_rsel u) (selector_of E1 raw)) (s_users (h_st h2)) = None).
  { rewrite St2. apply ufind_none. intros k v Hin.
    pose proof (in_ulookup _ _ _ (proj1 Fl') Hin) as Lv.
    destruct (bytes_dec k (u_pid u)) as [->|Nk].
    - rewrite B1 in Lv. inversion Lv; subst v. rewrite P2.
      destruct (selector_of E1 raw) eqn:Sl; [congruence|reflexivity].
    - rewrite Fr in Lv by exact Nk.
      destruct (beqb (u_rsel v) (selector_of E1 raw)) eqn:B; [|reflexivity]. exfalso.
      apply beqb_eq in B. apply Nk. symmetry. apply (Un (u_pid u) k u v Lu Lv); congruence. }
  assert (NF2 : forall raw2, b64url_dec (aget f_token (values E2)) = Some raw2 ->
                  ufind (fun u => beqb (u_rsel u) (selector_of E2 raw2)) (s_users (h_st h2)) = None).
  { intros raw2 D2. rewrite Tk, D in D2. inversion D2; subst raw2.
    rewrite (selector_same_crypto E1 E2 raw HC). exact NF. }
  assert (S2 : h_st h2' = h_st h2).
  { apply (recover_reject_unchanged_lemma E2 _ _ _ R2). intros raw2 u2 D2 _ F2 _ _.
    rewrite (NF2 raw2 D2) in F2. discriminate F2. }
  split; [exact S2|]. split; [exact (recover_end_no_record_neutral E2 _ _ _ R2 NF2)|].
  exists u, su. rewrite S2, St2. auto.
Qed.

(* ============================== C07: remember cookie ========================================== *)
Lemma count_occ_remove_first x l :
  count_occ bytes_dec (remove_first x l) x = pred (count_occ bytes_dec l x).
Proof.
  induction l as [|a l IH]; [reflexivity|]. cbn [remove_first count_occ].
  destruct (beqb x a) eqn:B.
  - apply beqb_eq in B. subst a. destruct (bytes_dec x x); [reflexivity|contradiction].
  - apply beqb_neq in B. cbn [count_occ]. destruct (bytes_dec a x); [subst; contradiction|exact IH].
Qed.

(* a well-formed cookie whose hash is not among the named account's tokens: nobody is logged in and
   storage is untouched WHATEVER the oracle does; without backend faults the cookie is deleted *)
Lemma remember_refused_lemma E h r h' cookie raw pid :
  alookup k_rm (e_cook E) = Some cookie -> b64url_dec cookie = Some raw -> rm_parse_pid raw = Some pid ->
  bmem (b64std_enc (sha (e_C E) raw)) (rmlookup pid (s_rm (h_st h))) = false ->
  remember_authenticate E h = (r, h') ->
  h_sev h' = h_sev h /\ h_st h' = h_st h /\
  (o_faults (e_O E) = [] -> r = Ok tt /\ h_cev h' = h_cev h ++ [Del k_rm]).
Proof.
  intros Ck Dc Pp Bm Eq. split; [|split].
  3:{ intros NoF.
      destruct (remember_bad_cookie_lemma E h r h' cookie Ck) as (A1 & A2 & _); auto.
      right. right. exists raw, pid. auto. }
  all: unfold remember_authenticate in Eq; rewrite Ck, Dc, Pp in Eq; cbv zeta in Eq;
    apply try_inv in Eq as [(x & k1 & L & NP & Eq)|(L & ->)];
    [|exfalso; apply st_use_rm_exact in L as (_ & _ & [(Hx & _)|[(Hx & _)|(Hx & _)]]); discriminate Hx];
    apply st_use_rm_exact in L as (S1 & C1 & [(_ & Bm' & _)|[(-> & T1 & _)|(-> & T1 & _)]]); [congruence| |];
    try (inversion Eq; subst; assumption);
    apply bind_inv in Eq as [(a1 & k2 & F1 & Eq)|[(e & F1 & _)|(F1 & _)]]; try (inversion F1; fail);
    apply log_spec in F1 as (_ & S2 & C2 & T2 & _); apply del_cookie_spec in Eq as (_ & S3 & C3 & T3); congruence.
Qed.

(* First run: remember.Authenticate wrote the identity U (c07_use_rotates: the cookie named U, one
   occurrence of its hash was removed from U's token list and the hash of a fresh token appended).
   Second run: any environment with the same crypto whose cookie jar carries the same cookie value.
   Hypotheses: [crypto_laws] (sha injective); the consumed hash occurred at most once in U's list;
   the replacement cookie that the first run sent does not decode to the same token as the consumed
   one, i.e. the 32 fresh bytes differ from the old nonce (the oracle chooses the fresh bytes, so
   this cannot be proved; [remember_fresh_differs_lemma] below derives it from "the old nonce is not
   among the random chunks of the first request"). *)
Lemma remember_once_lemma E1 h1 r1 h1' U cookie E2 h2 r2 h2' :
  crypto_laws (e_C E1) ->
  remember_authenticate E1 h1 = (r1, h1') ->
  (exists ls, h_sev h1' = h_sev h1 ++ ls /\ In (Put k_uid U) ls) ->
  alookup k_rm (e_cook E1) = Some cookie ->
  (forall raw, b64url_dec cookie = Some raw ->
     (count_occ bytes_dec (rmlookup U (s_rm (h_st h1))) (b64std_enc (sha (e_C E1) raw)) <= 1)%nat) ->
  (forall c', h_cev h1' = h_cev h1 ++ [Del k_rm; Put k_rm c'] -> b64url_dec c' <> b64url_dec cookie) ->
  e_C E2 = e_C E1 -> alookup k_rm (e_cook E2) = Some cookie -> h_st h2 = h_st h1' ->
  remember_authenticate E2 h2 = (r2, h2') ->
  h_sev h2' = h_sev h2 /\ h_st h2' = h_st h2 /\
  (o_faults (e_O E2) = [] -> r2 = Ok tt /\ h_cev h2' = h_cev h2 ++ [Del k_rm]).
Proof.
  intros laws R1 Ap Ck Once Fresh HC Ck2 St2 R2.
  destruct (remember_use_rotates_lemma E1 _ _ _ U R1 Ap) as (cookie0 & raw & nonce & Ck0 & Dc & Pp & Ln & Rest).
  cbv zeta in Rest. destruct Rest as (_ & Bm & _ & Cev & Rm).
  rewrite Ck in Ck0. inversion Ck0; subst cookie0; clear Ck0.
  apply (remember_refused_lemma E2 h2 r2 h2' cookie raw U Ck2 Dc Pp); [|exact R2].
  rewrite HC, St2, Rm. apply bmem_false_iff. intros Hin. apply in_app_or in Hin as [Hin|[Hin|[]]].
  - apply (count_occ_In bytes_dec) in Hin. rewrite count_occ_remove_first in Hin.
    specialize (Once raw Dc). lia.
  - apply b64std_enc_inj, (sha_inj _ laws) in Hin.
    apply (Fresh _ Cev). rewrite b64url_dec_enc, Dc, Hin. reflexivity.
Qed.

(* ---- where the fresh nonce comes from ---- *)
Definition randkeep {A} (m : M A) : Prop :=
  forall h r h', m h = (r, h') -> h_fresh h' = h_fresh h /\ h_starved h' = h_starved h.

Lemma randkeep_modify f : (forall h, h_fresh (f h) = h_fresh h /\ h_starved (f h) = h_starved h) -> randkeep (modify f).
Proof. intros H h r h' Eq. inversion Eq; subst. apply H. Qed.

Lemma randkeep_st_use_rm O p t : randkeep (st_use_rm O p t).
Proof.
  intros h r h' Eq. unfold st_use_rm, backend in Eq.
  destruct (fault_at (h_ncalls h) (o_faults O)) as [[|]|]; [inversion Eq; subst; auto..|].
  cbv zeta in Eq.
  match type of Eq with context [if ?b then _ else _] => destruct b end; inversion Eq; subst; auto.
Qed.

Lemma randkeep_st_add_rm O p t : randkeep (st_add_rm O p t).
Proof.
  intros h r h' Eq. unfold st_add_rm, backend in Eq.
  destruct (fault_at (h_ncalls h) (o_faults O)) as [[|]|]; inversion Eq; subst; auto.
Qed.

Lemma take_chunk_in n l c t : take_chunk n l = Some (c, t) -> In c l.
Proof.
  revert c t. induction l as [|x l IH]; simpl; intros c t Eq; [discriminate|].
  destruct (Nat.eqb (length x) n).
  - inversion Eq; subst. left. reflexivity.
  - destruct (take_chunk n l) as [[y t']|]; [|discriminate]. inversion Eq; subst. right. eapply IH; reflexivity.
Qed.

Lemma fresh_source n h r h' : fresh n h = (r, h') ->
  exists c, r = Ok c /\ h_cev h' = h_cev h /\ (In c (h_fresh h) \/ h_starved h' = true).
Proof.
  unfold fresh. intros Eq. destruct (take_chunk n (h_fresh h)) as [[c t]|] eqn:Tk; inversion Eq; subst.
  - exists c. repeat split. left. eapply take_chunk_in; eauto.
  - eexists. repeat split. right. reflexivity.
Qed.

(* the replacement cookie that a first run sent cannot decode to the consumed token when the consumed
   token's nonce (its last 32 bytes) is not among the random chunks the oracle offered to that
   request and the request was not starved of randomness *)
Lemma remember_fresh_differs_lemma E h r h' cookie raw c' :
  remember_authenticate E h = (r, h') ->
  alookup k_rm (e_cook E) = Some cookie -> b64url_dec cookie = Some raw ->
  h_starved h' = false -> ~ In (skipn (length raw - 32) raw) (h_fresh h) ->
  h_cev h' = h_cev h ++ [Del k_rm; Put k_rm c'] ->
  b64url_dec c' <> b64url_dec cookie.
Proof.
  intros Eq Ck Dc NS NF Cev. unfold remember_authenticate in Eq. rewrite Ck, Dc in Eq.
  assert (ONE : forall X : Prop, h_cev h' = h_cev h ++ [Del k_rm] -> X).
  { intros X H. rewrite H in Cev. apply app_inv_head in Cev. discriminate Cev. }
  assert (ZERO : forall X : Prop, h_cev h' = h_cev h -> X).
  { intros X H. rewrite H in Cev. apply app_same_nil in Cev. discriminate Cev. }
  destruct (rm_parse_pid raw) as [pid|] eqn:Pp.
  2:{ apply ONE.
      apply bind_inv in Eq as [(a1 & k1 & F1 & Eq)|[(e & F1 & _)|(F1 & _)]]; try (inversion F1; fail).
      apply del_cookie_spec in F1 as (_ & _ & C1 & _). apply log_spec in Eq as (_ & _ & C2 & _). congruence. }
  cbv zeta in Eq.
  apply try_inv in Eq as [(x & k1 & L & NP & Eq)|(L & ->)].
  2:{ exfalso. apply st_use_rm_exact in L as (_ & _ & [(Hx & _)|[(Hx & _)|(Hx & _)]]); discriminate Hx. }
  pose proof (randkeep_st_use_rm _ _ _ _ _ _ L) as (Fr1 & _).
  apply st_use_rm_exact in L as (_ & C1 & [(-> & _ & _)|[(-> & _ & _)|(-> & _ & _)]]).
  2:{ apply ONE.
      apply bind_inv in Eq as [(a1 & k2 & F1 & Eq)|[(e & F1 & _)|(F1 & _)]]; try (inversion F1; fail).
      apply log_spec in F1 as (_ & _ & C2 & _). apply del_cookie_spec in Eq as (_ & _ & C3 & _). congruence. }
  2:{ apply ZERO. inversion Eq; subst. exact C1. }
  unfold rm_generate in Eq.
  apply bind_inv in Eq as [(gt & k2 & F2 & Eq)|[(e & F2 & ->)|(F2 & ->)]].
  2,3: apply bind_inv in F2 as [(c & k3 & F3 & F2)|[(e' & F3 & _)|(F3 & _)]];
       apply fresh_source in F3 as (c0 & Hr & _); try discriminate Hr; inversion F2.
  apply bind_inv in F2 as [(nonce & k3 & F3 & F2)|[(e' & F3 & D)|(F3 & D)]]; try discriminate D.
  apply fresh_source in F3 as (c0 & Hr & C2 & Src). inversion Hr; subst c0; clear Hr.
  inversion F2; subst gt k3; clear F2. cbn beta iota in Eq.
  apply bind_inv in Eq as [(a3 & k3 & F3 & Eq)|[(e & F3 & ->)|(F3 & ->)]].
  2,3: apply ZERO; apply try_inv in F3 as [(y & k4 & L4 & _ & F3)|(L4 & _)];
       apply st_add_rm_exact in L4 as (_ & C4 & _);
       try (destruct y as [[]|e'|]; inversion F3; subst); congruence.
  apply try_inv in F3 as [(y & k4 & L4 & NP4 & F3)|(L4 & Hp)]; [|discriminate Hp].
  pose proof (randkeep_st_add_rm _ _ _ _ _ _ L4) as (_ & St4).
  apply st_add_rm_exact in L4 as (_ & C4 & _).
  assert (X3 : h_cev k3 = h_cev k4 /\ h_starved k3 = h_starved k4)
    by (destruct y as [[]|e'|]; inversion F3; subst; auto).
  destruct X3 as (C4' & St4'). clear F3.
  apply bind_inv in Eq as [(a5 & k5 & F5 & Eq)|[(e & F5 & _)|(F5 & _)]]; try (inversion F5; fail).
  assert (X5 : h_cev k5 = h_cev k3 /\ h_starved k5 = h_starved k3) by (inversion F5; subst; auto). clear F5.
  apply bind_inv in Eq as [(a6 & k6 & F6 & Eq)|[(e & F6 & _)|(F6 & _)]]; try (inversion F6; fail).
  assert (X6 : h_cev k6 = h_cev k5 /\ h_starved k6 = h_starved k5) by (inversion F6; subst; auto). clear F6.
  apply bind_inv in Eq as [(a7 & k7 & F7 & Eq)|[(e & F7 & _)|(F7 & _)]]; try (inversion F7; fail).
  assert (X7 : h_cev k7 = h_cev k6 /\ h_starved k7 = h_starved k6) by (inversion F7; subst; auto). clear F7.
  apply bind_inv in Eq as [(a8 & k8 & F8 & Eq)|[(e & F8 & _)|(F8 & _)]]; try (inversion F8; fail).
  assert (X8 : h_cev k8 = h_cev k7 ++ [Del k_rm] /\ h_starved k8 = h_starved k7) by (inversion F8; subst; auto). clear F8.
  assert (X9 : h_cev h' = h_cev k8 ++ [Put k_rm (b64url_enc (pid ++ ";"%byte :: nonce))] /\ h_starved h' = h_starved k8)
    by (inversion Eq; subst; auto).
  destruct X5 as (C5 & S5), X6 as (C6 & S6), X7 as (C7 & S7), X8 as (C8 & S8), X9 as (C9 & S9).
  assert (Cf : h_cev h' = h_cev h ++ [Del k_rm; Put k_rm (b64url_enc (pid ++ ";"%byte :: nonce))]).
  { rewrite C9, C8, C7, C6, C5, C4', C4, C2, C1, <- app_assoc. reflexivity. }
  rewrite Cf in Cev. apply app_inv_head in Cev. inversion Cev; subst c'.
  rewrite b64url_dec_enc, Dc. intros Hx. inversion Hx as [Hraw]. apply NF.
  destruct Src as [Src|Src]; [|congruence].
  rewrite Fr1 in Src. rewrite <- Hraw.
  assert (Ln : length nonce = 32%nat).
  { unfold rm_parse_pid in Pp. rewrite <- Hraw in Pp. rewrite app_length in Pp. cbn [length] in Pp.
    destruct (length pid + S (length nonce) <? 33)%nat eqn:Lt; [discriminate Pp|]. apply Nat.ltb_ge in Lt.
    destruct (nth_error (pid ++ ";"%byte :: nonce) (length pid + S (length nonce) - 33)) as [c|] eqn:Ne; [|discriminate Pp].
    destruct (Byte.eqb c ";"%byte); [|discriminate Pp]. inversion Pp as [Hp].
    apply (f_equal (@length byte)) in Hp. rewrite firstn_length, app_length in Hp. cbn [length] in Hp. lia. }
  rewrite app_length. cbn [length]. rewrite Ln.
  replace (length pid + 33 - 32)%nat with (length pid + 1)%nat by lia.
  rewrite skipn_app, skipn_all2 by lia. replace (length pid + 1 - length pid)%nat with 1%nat by lia.
  cbn [skipn app]. exact Src.
Qed.

(* the two-run theorem with the freshness hypothesis stated on the oracle's random chunks *)
Lemma remember_once_fresh_lemma E1 h1 r1 h1' U cookie E2 h2 r2 h2' :
  crypto_laws (e_C E1) ->
  remember_authenticate E1 h1 = (r1, h1') ->
  (exists ls, h_sev h1' = h_sev h1 ++ ls /\ In (Put k_uid U) ls) ->
  alookup k_rm (e_cook E1) = Some cookie ->
  (forall raw, b64url_dec cookie = Some raw ->
     (count_occ bytes_dec (rmlookup U (s_rm (h_st h1))) (b64std_enc (sha (e_C E1) raw)) <= 1)%nat) ->
  h_starved h1' = false ->
  (forall raw, b64url_dec cookie = Some raw -> ~ In (skipn (length raw - 32) raw) (h_fresh h1)) ->
  e_C E2 = e_C E1 -> alookup k_rm (e_cook E2) = Some cookie -> h_st h2 = h_st h1' ->
  remember_authenticate E2 h2 = (r2, h2') ->
  h_sev h2' = h_sev h2 /\ h_st h2' = h_st h2 /\
  (o_faults (e_O E2) = [] -> r2 = Ok tt /\ h_cev h2' = h_cev h2 ++ [Del k_rm]).
Proof.
  intros laws R1 Ap Ck Once NS NF. apply (remember_once_lemma E1 h1 r1 h1' U cookie); auto.
  intros c' Cev. destruct (b64url_dec cookie) as [raw|] eqn:Dc.
  - rewrite <- Dc. exact (remember_fresh_differs_lemma E1 h1 r1 h1' cookie raw c' R1 Ck Dc NS (NF raw eq_refl) Cev).
  - destruct (remember_use_rotates_lemma E1 _ _ _ U R1 Ap) as (cookie0 & raw & _ & Ck0 & Dc0 & _).
    rewrite Ck in Ck0. inversion Ck0; subst. congruence.
Qed.

(* ============================== C12 (a): one-time password ==================================== *)

(* session events that only set a flash message *)
Definition flash_only (e : csevent) : Prop :=
  match e with Put k _ => k = k_flash_ok \/ k = k_flash_err | _ => False end.

Ltac fside := first [ exact I | left; reflexivity | right; reflexivity ].

Section FL.
Variable E : env.
Notation flash := (evs_all flash_only any_ev).

Lemma flash_hook_lock_fail rm hd : flash (run_hook E HLockAfterFail rm hd).
Proof. unfold run_hook. repeat (unfold_derived; cbn beta iota; evs_step); try fside. Qed.

Lemma flash_call_fail hs : Forall (eq HLockAfterFail) hs -> forall rm hd, flash (call E hs rm hd).
Proof.
  induction hs as [|hk hs IH]; intros F rm hd; simpl.
  - apply evs_ret.
  - inversion F; subst. apply evs_bind; [apply flash_hook_lock_fail|intros; apply IH; assumption].
Qed.

Lemma flash_fire_fail rm : flash (fire E EvAfterAuthFail rm).
Proof.
  unfold fire. apply flash_call_fail. apply Forall_forall. intros hk Hin. symmetry. apply (hooks_after_fail E). exact Hin.
Qed.
End FL.

Ltac ftail := repeat (unfold_derived; cbn beta iota; first [apply flash_fire_fail | evs_step]); try fside.

(* the matcher of /otp/login, entry by entry *)
Definition otp_hit (inp p : bytes) : bool :=
  match b64std_dec p with Some d => beqb inp d | None => false end.

Lemma otp_match_some_hit inp l : forall k i, otp_match inp l k = Some (Some i) -> exists y, In y l /\ otp_hit inp y = true.
Proof.
  induction l as [|p l IH]; intros k i H; simpl in H; [discriminate|].
  destruct (b64std_dec p) as [d|] eqn:Dp; [|discriminate].
  destruct (beqb inp d) eqn:Eb.
  - exists p. split; [left; reflexivity|]. unfold otp_hit. rewrite Dp. exact Eb.
  - destruct (IH _ _ H) as (y & Hy & Hh). exists y. split; [right; exact Hy|exact Hh].
Qed.

Lemma otp_remove_in_rest (l : list bytes) i y :
  (i < length l)%nat -> In y (otp_remove l i) -> In y (firstn i l ++ skipn (S i) l).
Proof.
  destruct l as [|x l] using rev_ind; [simpl; lia|]. clear IHl.
  rewrite otp_remove_snoc, app_length. cbn [length]. intros Hi.
  destruct (Nat.eqb i (length l)) eqn:Eq.
  - apply Nat.eqb_eq in Eq. subst i. intros H. apply in_or_app. left.
    rewrite firstn_app, Nat.sub_diag, firstn_all. cbn [firstn]. rewrite app_nil_r. exact H.
  - apply Nat.eqb_neq in Eq. assert (Hl : (i < length l)%nat) by lia.
    rewrite firstn_app, skipn_app.
    replace (i - length l)%nat with 0%nat by lia. replace (S i - length l)%nat with 0%nat by lia.
    cbn [firstn skipn]. rewrite app_nil_r. intros H.
    apply in_app_or in H as [H|[H|H]]; apply in_or_app.
    + left. exact H.
    + right. apply in_or_app. right. left. exact H.
    + right. apply in_or_app. left. exact H.
Qed.

Lemma filter_single_elsewhere {A} (f : A -> bool) (a b : list A) x :
  f x = true -> (length (filter f (a ++ x :: b)) <= 1)%nat -> forall y, In y (a ++ b) -> f y = false.
Proof.
  intros Hx Once y Hy. rewrite filter_app in Once. cbn [filter] in Once. rewrite Hx, app_length in Once.
  cbn [length] in Once. destruct (f y) eqn:Hh; [|reflexivity]. exfalso.
  apply in_app_or in Hy as [Hy|Hy].
  - assert (Hf : In y (filter f a)) by (apply filter_In; auto).
    destruct (filter f a); [exact Hf|cbn [length] in Once; lia].
  - assert (Hf : In y (filter f b)) by (apply filter_In; auto).
    destruct (filter f b); [exact Hf|cbn [length] in Once; lia].
Qed.

(* at most one stored entry decodes to the submitted hash, the matcher found it at i: after the
   removal no entry decodes to it *)
Lemma otp_remove_no_hit inp (l : list bytes) i :
  otp_match inp l 0%nat = Some (Some i) ->
  (length (filter (otp_hit inp) l) <= 1)%nat ->
  forall y, In y (otp_remove l i) -> otp_hit inp y = false.
Proof.
  intros OM Once y Hy. apply otp_match_spec_lemma in OM as (Hi & Dx).
  apply (otp_remove_in_rest l i y Hi) in Hy.
  rewrite (nth_split_eq [] l i Hi) in Once.
  assert (Hx : otp_hit inp (nth i l []) = true) by (unfold otp_hit; rewrite Dx; apply beqb_refl).
  exact (filter_single_elsewhere (otp_hit inp) _ _ _ Hx Once y Hy).
Qed.

(* what is read back from a stored list of comma-free entries has no new entries *)
Lemma split_join_incl l : Forall (nosep ","%byte) l -> forall y, In y (split_otps (join_otps l)) -> In y l.
Proof.
  intros F y. unfold split_otps, join_otps. destruct (bempty (bjoin ","%byte l)) eqn:Be; [intros []|].
  destruct l as [|a l']; [discriminate Be|]. rewrite bsplit_bjoin; [auto|discriminate|exact F].
Qed.

Lemma otp_remove_nosep s i : Forall (nosep ","%byte) (otp_remove (split_otps s) i).
Proof.
  apply Forall_forall. intros y Hy. apply otp_remove_incl in Hy.
  pose proof (split_otps_nosep s) as F. rewrite Forall_forall in F. apply F. exact Hy.
Qed.

Lemma otp_consumed_no_match inp s i j :
  otp_match inp (split_otps s) 0%nat = Some (Some i) ->
  (length (filter (otp_hit inp) (split_otps s)) <= 1)%nat ->
  otp_match inp (split_otps (join_otps (otp_remove (split_otps s) i))) 0%nat <> Some (Some j).
Proof.
  intros OM Once H. apply otp_match_some_hit in H as (y & Hy & Hh).
  apply (split_join_incl _ (otp_remove_nosep s i)) in Hy.
  rewrite (otp_remove_no_hit inp _ i OM Once y Hy) in Hh. discriminate Hh.
Qed.

Section OR.
Variable E : env.
Notation C := (e_C E).
Notation vals := (values E).

(* /otp/login when the submitted value matches none of the stored one-time passwords of the submitted
   pid: the only session events are flash messages (no identity, no pending second factor), and
   every stored record is what it was up to the lock counters (the failed attempt is counted) *)
Lemma otp_login_refused_lemma h r h' :
  keyed (h_st h) ->
  otp_login_post E h = (r, h') ->
  (forall u i, ulookup (aget (pid_field E) vals) (s_users (h_st h)) = Some u ->
     otp_match (sha C (aget f_password vals)) (split_otps (u_otps u)) 0%nat <> Some (Some i)) ->
  (exists ls, h_sev h' = h_sev h ++ ls /\ Forall flash_only ls) /\
  (forall p u, ulookup p (s_users (h_st h)) = Some u ->
     exists su, ulookup p (s_users (h_st h')) = Some su /\ upto_lock u su).
Proof.
  intros Kd Eq NM.
  assert (SAME : forall h0, h_st h0 = h_st h ->
            forall p u, ulookup p (s_users (h_st h)) = Some u ->
              exists su, ulookup p (s_users (h_st h0)) = Some su /\ upto_lock u su).
  { intros h0 S0 p u Hu. exists u. rewrite S0. split; [exact Hu|apply upto_lock_refl]. }
  assert (NIL : forall h0, h_sev h0 = h_sev h -> exists ls, h_sev h0 = h_sev h ++ ls /\ Forall flash_only ls)
    by (intros h0 S0; exists []; rewrite app_nil_r; auto).
  unfold otp_login_post in Eq.
  apply bind_inv in Eq as [(v & h1 & E1 & E2)|[(e & E1 & ->)|(E1 & ->)]];
    apply read_values_spec in E1 as [-> [Hv|Hv]]; try discriminate Hv;
    try (split; [apply NIL; reflexivity|apply SAME; reflexivity]).
  inversion Hv; subst v; clear Hv. cbn beta zeta in E2.
  apply try_inv in E2 as [(x & h2 & L & NP & K)|(L & ->)].
  2:{ apply st_load_spec in L. destruct L as (_ & _ & _ & _ & _ & _ & _ & N). congruence. }
  pose proof (st_load_spec _ _ _ _ _ L) as (S1 & _ & _ & S4 & _ & _ & Hu & _).
  assert (PST : forall (m : M unit), evs_all flash_only any_ev m -> pres h_st m -> m h2 = (r, h') ->
            (exists ls, h_sev h' = h_sev h ++ ls /\ Forall flash_only ls) /\
            (forall p u, ulookup p (s_users (h_st h)) = Some u ->
               exists su, ulookup p (s_users (h_st h')) = Some su /\ upto_lock u su)).
  { intros m Hf Hp Em. split; [exact (evs_left _ m h2 h r h' S1 Hf Em)|].
    apply SAME. rewrite (Hp _ _ _ Em). exact S4. }
  destruct x as [u|e|]; [|destruct e|congruence];
    try (revert K; apply PST; [ftail|pres_go]; fail).
  specialize (Hu u eq_refl). cbn beta zeta in K.
  destruct (otp_match (sha C (aget f_password vals)) (split_otps (u_otps u)) 0%nat) as [[i|]|] eqn:OM.
  - exfalso. exact (NM u i Hu OM).
  - (* no match: the failure hooks run *)
    split.
    + revert K. apply evs_left; [exact S1|ftail].
    + pose proof (Kd _ _ Hu) as Pu.
      apply bind_inv in K as [(a & h3 & K1 & K)|[(e & K1 & ->)|(K1 & ->)]]; try (inversion K1; fail).
      assert (C3 : h_cuser h3 = Some u /\ h_st h3 = h_st h2) by (inversion K1; subst; split; reflexivity).
      clear K1. destruct C3 as [C3 S3].
      assert (I3 : hinv (u_pid u) (upto_lock u) (s_users (h_st h)) h3).
      { split; [exists u; repeat split; auto; apply upto_lock_refl|]. rewrite S3, S4, Pu. split.
        - exists u. split; [exact Hu|apply upto_lock_refl].
        - intros p Np. reflexivity. }
      assert (I' : hinv (u_pid u) (upto_lock u) (s_users (h_st h)) h').
      { revert I3 K. generalize h3 r h'.
        match goal with |- forall h3 r h', _ -> ?m h3 = _ -> _ =>
          change (keeps_inv (u_pid u) (upto_lock u) (s_users (h_st h)) m) end.
        pose proof (upto_lock_lock u) as QL.
        apply keeps_bind; [apply keeps_fire; [exact QL|discriminate]|intros hd1].
        destruct hd1; apply keeps_of_pres; pres_go. }
      destruct I' as (_ & (su & Su & Qs) & Fr).
      intros p v Hv. destruct (bytes_dec p (u_pid u)) as [->|Np].
      * rewrite Pu, Hu in Hv. inversion Hv; subst v. exists su. auto.
      * exists v. rewrite (Fr p Np). split; [exact Hv|apply upto_lock_refl].
  - revert K. apply PST; [ftail|pres_go].
Qed.
End OR.

(* First run: /otp/login wrote the identity U (c12_otp_consumed_before_session: U is the submitted
   pid, the submitted value x hashed to a stored one-time password of U, which was removed).
   Second run: any environment with the same crypto that submits pid U and the same x, from the
   storage the first run left.
   Hypotheses: records are filed under their own pid ([keyed]); at most ONE stored entry of U decoded
   to sha(x) - with two the second copy remains usable.  (No crypto law is needed: the second run
   compares the same hash value.) *)
Lemma otp_once_lemma E1 h1 r1 h1' ls U E2 h2 r2 h2' :
  keyed (h_st h1) ->
  otp_login_post E1 h1 = (r1, h1') -> h_sev h1' = h_sev h1 ++ ls -> In (Put k_uid U) ls ->
  (forall u, ulookup U (s_users (h_st h1)) = Some u ->
     (length (filter (otp_hit (sha (e_C E1) (aget f_password (values E1)))) (split_otps (u_otps u))) <= 1)%nat) ->
  e_C E2 = e_C E1 -> aget (pid_field E2) (values E2) = U ->
  aget f_password (values E2) = aget f_password (values E1) -> h_st h2 = h_st h1' ->
  otp_login_post E2 h2 = (r2, h2') ->
  (exists ls2, h_sev h2' = h_sev h2 ++ ls2 /\ Forall flash_only ls2) /\
  (forall p u, ulookup p (s_users (h_st h2)) = Some u ->
     exists su, ulookup p (s_users (h_st h2')) = Some su /\ upto_lock u su).
Proof.
  intros Kd R1 Sv Hin Once HC Pid Pw St2 R2.
  assert (HU : U = aget (pid_field E1) (values E1)).
  { destruct (otp_consumed_before_session_lemma E1 _ _ _ _ _ Kd R1 Sv Hin) as (HU & _). exact HU. }
  destruct (otp_login_cases E1 _ _ _ R1) as [(ls0 & A1 & F)|(u & i & Hu & OM & (su & B1 & B2) & Fr)].
  { rewrite Sv in A1. apply app_inv_head in A1. subst ls0.
    rewrite Forall_forall in F. exfalso. apply (F _ Hin). reflexivity. }
  rewrite <- HU in Hu. pose proof (Kd _ _ Hu) as Pu. rewrite Pu in *.
  apply upto_lock_consumed in B2 as (Ps & Os & _).
  assert (Kd2 : keyed (h_st h2)).
  { rewrite St2. apply (keyed_frame (h_st h1) (h_st h1') U su Kd B1); [congruence|exact Fr]. }
  apply (otp_login_refused_lemma E2 h2 r2 h2' Kd2 R2).
  intros u2 j Hu2. rewrite Pid, St2, B1 in Hu2. inversion Hu2; subst u2. rewrite Os, HC, Pw.
  apply otp_consumed_no_match; [exact OM|exact (Once u Hu)].
Qed.

(* ============================== C12 (c): the texted SMS code ================================== *)
(* events that do not put a code under the session's sms_secret key *)
Definition nosecret (e : csevent) : Prop :=
  match e with Put k _ => k <> k_sms_secret | _ => True end.
(* ... and leave the identity alone as well *)
Definition nq (e : csevent) : Prop := sess_neutral e /\ nosecret e.

Ltac nqside := first [ exact I | split; [side|side] ].

(* once deleted and never put again, the key is absent from the jar *)
Lemma alookup_filter_none (k : bytes) (f : bytes * bytes -> bool) (m : amap) :
  alookup k m = None -> alookup k (filter f m) = None.
Proof.
  induction m as [|[k' v'] m IH]; [reflexivity|]. cbn [alookup].
  destruct (beqb k k') eqn:B; [discriminate|]. intros H. cbn [filter].
  destruct (f (k', v')); [cbn [alookup]; rewrite B|]; auto.
Qed.

Lemma nosecret_keeps_absent l : forall j,
  Forall nosecret l -> alookup k_sms_secret j = None -> alookup k_sms_secret (apply_events j l) = None.
Proof.
  unfold apply_events. induction l as [|e l IH]; intros j F Hj; cbn [fold_left]; [exact Hj|].
  inversion F as [|? ? He Fl]; subst. apply IH; [exact Fl|].
  destruct e as [k v|k|wl]; cbn [apply_event].
  - rewrite alookup_aput_neq; [exact Hj|]. intros Hk. apply He. symmetry. exact Hk.
  - destruct (bytes_dec k_sms_secret k) as [<-|N]; [apply alookup_aremove_eq|].
    rewrite alookup_aremove_neq by exact N. exact Hj.
  - apply alookup_filter_none. exact Hj.
Qed.

Lemma apply_events_app j l1 l2 : apply_events j (l1 ++ l2) = apply_events (apply_events j l1) l2.
Proof. unfold apply_events. apply fold_left_app. Qed.

Lemma secret_deleted_absent ls j :
  Forall nosecret ls -> In (Del k_sms_secret) ls -> alookup k_sms_secret (apply_events j ls) = None.
Proof.
  intros F Hin. apply in_split in Hin as (l1 & l2 & ->).
  apply Forall_app in F as [_ F2]. inversion F2 as [|? ? _ F3]; subst.
  rewrite apply_events_app. change (Del k_sms_secret :: l2) with ([Del k_sms_secret] ++ l2).
  rewrite apply_events_app. apply nosecret_keeps_absent; [exact F3|].
  unfold apply_events. cbn [fold_left apply_event]. apply alookup_aremove_eq.
Qed.

Section SC.
Variable E : env.
Notation quiet := (evs_all nq any_ev).

Lemma nq_hook hk rm hd : hk <> HSmsHijack -> quiet (run_hook E hk rm hd).
Proof.
  intros Hn. destruct hk; try (exfalso; apply Hn; reflexivity); unfold run_hook;
    repeat (unfold_derived; cbn beta iota; evs_step); try nqside.
Qed.

Lemma nq_call hs : Forall (fun hk => hk <> HSmsHijack) hs -> forall rm hd, quiet (call E hs rm hd).
Proof.
  induction hs as [|hk hs IH]; intros F rm hd; simpl.
  - apply evs_ret.
  - inversion F; subst. apply evs_bind; [apply nq_hook; assumption|intros; apply IH; assumption].
Qed.

Lemma hooks_no_sms_hijack e : e <> EvBeforeHijack -> Forall (fun hk => hk <> HSmsHijack) (hooks E e).
Proof.
  intros Ne. unfold hooks. apply Forall_app. split.
  - induction (c_mods (e_cfg E)) as [|m l IH]; simpl; [constructor|].
    apply Forall_app. split; [|exact IH].
    destruct m, e; simpl; repeat constructor; discriminate.
  - destruct e; try constructor; try congruence.
    destruct (c_expire (e_cfg E)); repeat constructor; discriminate.
Qed.

Lemma nq_fire e rm : e <> EvBeforeHijack -> quiet (fire E e rm).
Proof. intros Ne. unfold fire. apply nq_call, hooks_no_sms_hijack. exact Ne. Qed.

Lemma nosecret_fire e rm : e <> EvBeforeHijack -> evs_all nosecret any_ev (fire E e rm).
Proof.
  intros Ne. apply (evs_weaken nq nosecret any_ev any_ev); [intros ? [_ H]; exact H|intros ? H; exact H|].
  apply nq_fire. exact Ne.
Qed.

(* what a run did to the session: only uid-neutral events, or no put of the code and its deletion *)
Definition spent_at (h h' : hst) : Prop :=
  exists ls, h_sev h' = h_sev h ++ ls /\
    (Forall sess_neutral ls \/ (Forall nosecret ls /\ In (Del k_sms_secret) ls)).
Definition spent {A} (m : M A) : Prop := forall h r h', m h = (r, h') -> spent_at h h'.

Lemma spent_of_neutral {A} (m : M A) : evs_all sess_neutral any_ev m -> spent m.
Proof. intros Hm h r h' Eq. destruct (Hm _ _ _ Eq) as [(ls & lc & A1 & _ & F & _) _]. exists ls. auto. Qed.

Lemma nq_neutral l : Forall nq l -> Forall sess_neutral l.
Proof. apply Forall_impl. intros e [H _]. exact H. Qed.
Lemma nq_nosecret l : Forall nq l -> Forall nosecret l.
Proof. apply Forall_impl. intros e [_ H]. exact H. Qed.

Lemma spent_of_nq {A} (m : M A) : quiet m -> spent m.
Proof.
  intros Hm h r h' Eq. destruct (Hm _ _ _ Eq) as [(ls & lc & A1 & _ & F & _) _]. exists ls.
  split; [exact A1|left; apply nq_neutral; exact F].
Qed.

Lemma spent_bind {A B} (m : M A) (f : A -> M B) : quiet m -> (forall a, spent (f a)) -> spent (bind m f).
Proof.
  intros Hm Hf h r h' Eq. apply bind_inv in Eq as [(a & h1 & E1 & E2)|[(e & E1 & ->)|(E1 & ->)]].
  - destruct (Hm _ _ _ E1) as [(l1 & lc & A1 & _ & F1 & _) _].
    destruct (Hf a _ _ _ E2) as (l2 & A2 & D). exists (l1 ++ l2). rewrite A2, A1, app_assoc. split; [reflexivity|].
    destruct D as [N|[N I]].
    + left. apply Forall_app. split; [apply nq_neutral; exact F1|exact N].
    + right. split; [apply Forall_app; split; [apply nq_nosecret; exact F1|exact N]|apply in_or_app; right; exact I].
  - exact (spent_of_nq m Hm _ _ _ E1).
  - exact (spent_of_nq m Hm _ _ _ E1).
Qed.

Ltac nqgo := repeat (unfold_derived; cbn beta iota; evs_step); try nqside.
Ltac ntl := repeat (unfold_derived; cbn beta iota; first [apply neutral_fire | evs_step]); try side.

Lemma spent_sms_validate_code u sh inp rc : spent (sms_validate_code E SPValidate u sh inp rc).
Proof.
  unfold sms_validate_code.
  apply spent_bind; [nqgo|intros [vf u2]]. cbn beta iota.
  destruct vf; cbn [negb]; [|apply spent_of_neutral; ntl].
  apply spent_bind; [nqgo|intros _].
  apply spent_bind; [apply nq_fire; discriminate|intros hd].
  destruct hd; [apply spent_of_nq, evs_ret|].
  intros h r h' Eq.
  apply bind_inv in Eq as [(a1 & k1 & F1 & Eq)|[(e & F1 & _)|(F1 & _)]]; try (inversion F1; fail).
  apply put_session_spec in F1 as (_ & S1 & _).
  apply bind_inv in Eq as [(a2 & k2 & F2 & Eq)|[(e & F2 & _)|(F2 & _)]]; try (inversion F2; fail).
  apply put_session_spec in F2 as (_ & S2 & _).
  apply bind_inv in Eq as [(a3 & k3 & F3 & Eq)|[(e & F3 & _)|(F3 & _)]]; try (inversion F3; fail).
  apply del_session_spec in F3 as (_ & S3 & _).
  apply bind_inv in Eq as [(a4 & k4 & F4 & Eq)|[(e & F4 & _)|(F4 & _)]]; try (inversion F4; fail).
  apply del_session_spec in F4 as (_ & S4 & _).
  apply bind_inv in Eq as [(a5 & k5 & F5 & Eq)|[(e & F5 & _)|(F5 & _)]]; try (inversion F5; fail).
  apply del_session_spec in F5 as (_ & S5 & _).
  match type of Eq with ?m k5 = _ => assert (Hm : evs_all nosecret any_ev m) end.
  { repeat (unfold_derived; cbn beta iota; first [ apply nosecret_fire; discriminate | evs_step ]); try side. }
  destruct (Hm _ _ _ Eq) as [(l & lc & A1 & _ & F & _) _].
  exists ([Put k_uid (u_pid u2); Put k_twofactor (bs "sms"); Del k_halfauth; Del k_sms_pending; Del k_sms_secret] ++ l).
  split.
  - rewrite A1, S5, S4, S3, S2, S1, <- !app_assoc. reflexivity.
  - right. split.
    + apply Forall_app. split; [|exact F]. repeat constructor; simpl; neq_const.
    + apply in_or_app. left. simpl. auto 6.
Qed.

Lemma spent_sms_validator_post : spent (sms_validator_post E SPValidate).
Proof.
  unfold sms_validator_post.
  apply spent_bind; [nqgo|intros [u sh]]. cbn beta iota.
  apply spent_bind; [nqgo|intros v]. cbv zeta.
  destruct (bempty (aget f_recovery_code v) && bempty (aget f_code v)).
  { apply spent_of_neutral, neutral_sms_send_code. }
  destruct (negb (bempty (aget f_recovery_code v))); apply spent_sms_validate_code.
Qed.

(* /2fa/sms/validate: if the request wrote an identity into the session (it accepted the texted
   code, or a recovery code), then among the session events it appended is the deletion of the
   texted code, none of them puts a code back, and so in any jar these events are applied to the
   code is absent afterwards: the next request of that browser finds no code to compare with *)
Lemma sms_code_spent_lemma h r h' ls U :
  sms_validator_post E SPValidate h = (r, h') -> h_sev h' = h_sev h ++ ls -> In (Put k_uid U) ls ->
  In (Del k_sms_secret) ls /\ Forall nosecret ls /\
  forall j, alookup k_sms_secret (apply_events j ls) = None /\ aget k_sms_secret (apply_events j ls) = [].
Proof.
  intros Eq Sv Hin. destruct (spent_sms_validator_post _ _ _ Eq) as (ls0 & A1 & D).
  rewrite Sv in A1. apply app_inv_head in A1. subst ls0.
  destruct D as [N|[N I]].
  - exfalso. rewrite Forall_forall in N. apply (N _ Hin). reflexivity.
  - split; [exact I|]. split; [exact N|]. intros j.
    pose proof (secret_deleted_absent ls j N I) as Ha. split; [exact Ha|]. unfold aget. rewrite Ha. reflexivity.
Qed.
End SC.

(* ============================== C12 (b): recovery codes at the validation pages =============== *)
(* the two pages that accept a recovery code in place of the second factor *)
Definition validate2fa (k : tfkind) (E : env) : M unit :=
  match k with KTotp => totp_validate_post E | KSms => sms_validator_post E SPValidate end.
Definition pending_key (k : tfkind) : bytes :=
  match k with KTotp => k_totp_pending | KSms => k_sms_pending end.

Lemma use_rc_same_crypto E1 E2 l c : e_C E2 = e_C E1 -> use_recovery_code E2 l c = use_recovery_code E1 l c.
Proof. intros HC. induction l as [|a l IH]; simpl; [reflexivity|]. rewrite HC, IH. reflexivity. Qed.

(* what is read back from a stored list of comma-free hashes: the list, or the empty string alone
   when the list was empty *)
Lemma decode_encode_incl rest : Forall (nosep ","%byte) rest ->
  forall y, In y (decode_codes (encode_codes rest)) -> In y rest \/ y = [].
Proof.
  intros F y. unfold decode_codes, encode_codes. destruct rest as [|a r].
  - simpl. intros [H|[]]. right. symmetry. exact H.
  - rewrite bsplit_bjoin; [auto|discriminate|exact F].
Qed.

(* the list-level fact (c12_recovery_code_not_reusable) carried through the stored encoding *)
Lemma consumed_code_rejected E plain c rest :
  crypto_laws (e_C E) -> NoDup plain -> Forall pw_dom plain -> pw_dom c -> pwcheck (e_C E) [] c = false ->
  use_recovery_code E (map (pwhash (e_C E)) plain) c = Some rest ->
  use_recovery_code E (decode_codes (encode_codes rest)) c = None.
Proof.
  intros laws ND FD Dc Em U.
  destruct (use_rc_hashed_lemma E laws plain c rest ND FD Dc U) as (_ & Hr & _ & Hn).
  apply use_rc_none_iff. intros y Hy. apply decode_encode_incl in Hy as [Hy| ->]; [|exact Em|].
  - apply (proj1 (use_rc_none_iff E rest c) Hn). exact Hy.
  - rewrite Hr. apply Forall_forall. intros x Hx. apply in_map_iff in Hx as (p & <- & _).
    apply (pw_nocomma _ laws).
Qed.

Ltac kinv QL :=
  repeat match goal with
  | |- keeps_inv _ _ _ (bind (fire _ _ _) _) => apply keeps_bind; [apply keeps_fire; [exact QL|discriminate]|intros]
  | |- keeps_inv _ _ _ (bind _ _) => apply keeps_bind; [apply keeps_of_pres; pres_go|intros]
  | |- keeps_inv _ _ _ (if ?c then _ else _) => destruct c
  | |- keeps_inv _ _ _ _ => apply keeps_of_pres; pres_go
  end.

Section RCV.
Variable E : env.
Notation rc := (aget f_recovery_code (values E)).

(* what a validation request that consumed a recovery code of u0 leaves behind *)
Definition rc_consumed_by (pk : bytes) (h h' : hst) (u0 : user) (rest : list bytes) : Prop :=
  user_source E pk h u0 /\
  use_recovery_code E (decode_codes (u_recovery u0)) rc = Some rest /\
  (exists ls, h_sev h' = h_sev h ++ ls /\ Forall (uid_guard (eq (u_pid u0))) ls) /\
  (exists su, ulookup (u_pid u0) (s_users (h_st h')) = Some su /\ upto_lock (consumed u0 rest) su) /\
  (forall p, p <> u_pid u0 -> ulookup p (s_users (h_st h')) = ulookup p (s_users (h_st h))).

(* the part of either page that runs once the record with the shrunken list is saved and is the
   context user: event hooks may change its lock counters only *)
Lemma consumed_tail pk u0 rest (m : M unit) h hc r h' l1 :
  user_source E pk h u0 ->
  use_recovery_code E (decode_codes (u_recovery u0)) rc = Some rest ->
  h_sev hc = h_sev h ++ l1 -> Forall sess_neutral l1 ->
  ulookup (u_pid u0) (s_users (h_st hc)) = Some (consumed u0 rest) ->
  (forall p, p <> u_pid u0 -> ulookup p (s_users (h_st hc)) = ulookup p (s_users (h_st h))) ->
  h_cuser hc = Some (consumed u0 rest) ->
  keeps_inv (u_pid u0) (upto_lock (consumed u0 rest)) (s_users (h_st h)) m ->
  evs_all (uid_guard (eq (u_pid u0))) any_ev m ->
  m hc = (r, h') ->
  rc_consumed_by pk h h' u0 rest.
Proof.
  intros Src U S1 N1 Lc Fr Cu Hk He Eq.
  assert (Ic : hinv (u_pid u0) (upto_lock (consumed u0 rest)) (s_users (h_st h)) hc).
  { split; [exists (consumed u0 rest); repeat split; auto; apply upto_lock_refl|]. split; [|exact Fr].
    exists (consumed u0 rest). split; [exact Lc|apply upto_lock_refl]. }
  destruct (Hk _ _ _ Ic Eq) as (_ & Su & Fr').
  destruct (He _ _ _ Eq) as [(l2 & lc & A2 & _ & F2 & _) _].
  split; [exact Src|]. split; [exact U|]. split; [|split; [exact Su|exact Fr']].
  exists (l1 ++ l2). rewrite A2, S1, app_assoc. split; [reflexivity|].
  apply Forall_app. split; [|exact F2]. eapply Forall_impl; [|exact N1]. intros e He'. left. exact He'.
Qed.

Lemma neutral_after {A} (m : M A) h h1 l1 r h' :
  h_sev h1 = h_sev h ++ l1 -> Forall sess_neutral l1 -> evs_all sess_neutral any_ev m -> m h1 = (r, h') ->
  exists ls, h_sev h' = h_sev h ++ ls /\ Forall sess_neutral ls.
Proof.
  intros S1 N1 Hm Eq. destruct (Hm _ _ _ Eq) as [(l2 & lc & A2 & _ & F2 & _) _].
  exists (l1 ++ l2). rewrite A2, S1, app_assoc. split; [reflexivity|apply Forall_app; auto].
Qed.

Ltac ntl := repeat (unfold_derived; cbn beta iota; first [apply neutral_fire | evs_step]); try side.
Ltac gtl := repeat (unfold_derived; cbn beta iota; first [ghooks | evs_step]); try gside.

(* ---- /2fa/totp/validate ---- *)
Lemma totp_post_rc_cases h r h' :
  totp_validate_post E h = (r, h') -> bempty rc = false ->
  (exists ls, h_sev h' = h_sev h ++ ls /\ Forall sess_neutral ls) \/
  (exists u0 rest, rc_consumed_by k_totp_pending h h' u0 rest).
Proof.
  intros Eq Brc. unfold totp_validate_post in Eq.
  apply bind_inv in Eq as [([[u sh] st] & h1 & E1 & E2)|[(e & E1 & ->)|(E1 & ->)]].
  2,3: left; destruct (neutral_totp_validate E _ _ _ E1) as [(ls & lc & A1 & _ & F & _) _]; eauto.
  destruct (neutral_totp_validate E _ _ _ E1) as [(l1 & lc1 & A1 & _ & N1 & _) _].
  cbn beta iota in E2.
  destruct st as [[| |]|]; try (left; revert E2; apply (neutral_after _ h h1 l1); [exact A1|exact N1|ntl]; fail).
  (* success *)
  rewrite totp_validate_unfold in E1.
  apply bind_inv in E1 as [([u0 sh0] & h0 & H0 & T0)|[(e & _ & D)|(_ & D)]]; try discriminate D.
  unfold tv_head in H0. apply (fetch_user_spec E k_totp_pending) in H0 as (_ & _ & S0 & _ & _ & Src).
  apply tv_tail_spec in T0 as [(N & _)|[(_ & B & _)|(_ & _ & rest & U & Hr & St)]];
    [exfalso; exact (N _ _ eq_refl)|congruence|].
  inversion Hr; subst u sh; clear Hr. right. exists u0, rest.
  assert (L1 : ulookup (u_pid u0) (s_users (h_st h1)) = Some (consumed u0 rest))
    by (rewrite St; cbn [s_users set]; apply ulookup_uput_eq).
  assert (Fr1 : forall p, p <> u_pid u0 -> ulookup p (s_users (h_st h1)) = ulookup p (s_users (h_st h))).
  { intros p Np. rewrite St. cbn [s_users set]. change (u_pid (consumed u0 rest)) with (u_pid u0).
    rewrite ulookup_uput_neq by exact Np. rewrite S0. reflexivity. }
  (* the optional second Save of the same record *)
  apply bind_inv in E2 as [(a2 & h2 & K1 & E2)|[(e & K1 & ->)|(K1 & ->)]].
  - assert (X2 : h_sev h2 = h_sev h1 /\
                 ulookup (u_pid u0) (s_users (h_st h2)) = Some (consumed u0 rest) /\
                 (forall p, p <> u_pid u0 -> ulookup p (s_users (h_st h2)) = ulookup p (s_users (h_st h)))).
    { destruct (c_onetime (e_cfg E)).
      - apply st_save_spec in K1 as (Sv & _ & _ & _ & [(e' & Hr & St2)|(_ & St2)]); [discriminate Hr|].
        rewrite St2. cbn [s_users set]. change (u_pid (consumed u0 rest)) with (u_pid u0).
        split; [exact Sv|]. split; [apply ulookup_uput_eq|].
        intros p Np. rewrite ulookup_uput_neq by exact Np. apply Fr1. exact Np.
      - inversion K1; subst. auto. }
    destruct X2 as (S2 & L2 & Fr2).
    apply bind_inv in E2 as [(a3 & h3 & K2 & E2)|[(e & K2 & _)|(K2 & _)]]; try (inversion K2; fail).
    assert (X3 : h_sev h3 = h_sev h2 /\ h_st h3 = h_st h2 /\ h_cuser h3 = Some (consumed u0 rest))
      by (inversion K2; subst; auto).
    destruct X3 as (S3 & T3 & C3). clear K2.
    revert E2. apply (consumed_tail k_totp_pending u0 rest _ h h3 r h' l1); auto.
    + congruence.
    + rewrite T3. exact L2.
    + intros p Np. rewrite T3. apply Fr2. exact Np.
    + pose proof (upto_lock_lock (consumed u0 rest)) as QL. kinv QL.
    + assert (G : u_pid u0 = u_pid (consumed u0 rest)) by reflexivity. gtl.
  - (* the second Save failed: the first one stands *)
    destruct (c_onetime (e_cfg E)); [|inversion K1].
    apply st_save_spec in K1 as (Sv & _ & _ & _ & [(e' & _ & St2)|(Hr & _)]); [|discriminate Hr].
    split; [exact Src|]. split; [exact U|]. split; [|split].
    + exists l1. rewrite Sv, A1. split; [reflexivity|]. eapply Forall_impl; [|exact N1]. intros x Hx. left. exact Hx.
    + exists (consumed u0 rest). rewrite St2. split; [exact L1|apply upto_lock_refl].
    + intros p Np. rewrite St2. apply Fr1. exact Np.
  - destruct (c_onetime (e_cfg E)); [|inversion K1].
    apply st_save_spec in K1 as (_ & _ & _ & _ & [(e' & Hr & _)|(Hr & _)]); discriminate Hr.
Qed.

(* ---- /2fa/sms/validate ---- *)
Lemma sms_post_rc_cases h r h' :
  sms_validator_post E SPValidate h = (r, h') -> bempty rc = false ->
  (exists ls, h_sev h' = h_sev h ++ ls /\ Forall sess_neutral ls) \/
  (exists u0 rest, rc_consumed_by k_sms_pending h h' u0 rest).
Proof.
  intros Eq Brc. unfold sms_validator_post in Eq.
  assert (NIL : forall h0, h_sev h0 = h_sev h -> exists ls, h_sev h0 = h_sev h ++ ls /\ Forall sess_neutral ls)
    by (intros h0 S0; exists []; rewrite app_nil_r; auto).
  apply bind_inv in Eq as [([u0 sh] & h0 & H0 & Eq)|[(e & H0 & ->)|(H0 & ->)]].
  2,3: left; match type of H0 with ?m _ = _ => assert (Hm : evs_all sess_neutral any_ev m) by ntl end;
       destruct (Hm _ _ _ H0) as [(ls & lc & A1 & _ & F & _) _]; eauto.
  apply (fetch_user_spec E k_sms_pending) in H0 as (S0 & _ & T0 & _ & _ & Src). cbn beta iota in Eq.
  apply bind_inv in Eq as [(v & h1 & E1 & Eq)|[(e & E1 & ->)|(E1 & ->)]];
    apply read_values_spec in E1 as [-> [Hv|Hv]]; try discriminate Hv; try (left; apply NIL; exact S0).
  inversion Hv; subst v; clear Hv. cbv zeta in Eq. rewrite Brc in Eq. cbn [andb negb] in Eq.
  unfold sms_validate_code in Eq. rewrite Brc in Eq. cbn [negb] in Eq.
  destruct (use_recovery_code E (decode_codes (u_recovery u0)) rc) as [rest|] eqn:U.
  2:{ left. apply bind_inv in Eq as [(a1 & k1 & F1 & Eq)|[(e & F1 & _)|(F1 & _)]]; try (inversion F1; fail).
      inversion F1; subst a1 k1; clear F1. cbn beta iota in Eq. cbn [negb] in Eq.
      revert Eq. apply (neutral_after _ h h0 []); [rewrite app_nil_r; exact S0|constructor|]. ntl. }
  fold (consumed u0 rest) in Eq.
  apply bind_inv in Eq as [([vf u2] & h2 & K1 & Eq)|[(e & K1 & ->)|(K1 & ->)]].
  2,3: left; match type of K1 with ?m _ = _ => assert (Hm : evs_all sess_neutral any_ev m) by ntl end;
       destruct (Hm _ _ _ K1) as [(ls & lc & A1 & _ & F & _) _]; exists ls; rewrite <- S0; auto.
  (* log; store_back; Save; ret *)
  apply bind_inv in K1 as [(a1 & k1 & F1 & K1)|[(e & F1 & D)|(F1 & D)]]; try discriminate D.
  apply log_spec in F1 as (_ & Sa & _ & Ta & _).
  apply bind_inv in K1 as [(a2 & k2 & F2 & K1)|[(e & F2 & D)|(F2 & D)]]; try discriminate D.
  assert (X2 : h_sev k2 = h_sev k1 /\ h_st k2 = h_st k1) by (destruct sh; inversion F2; subst; auto).
  destruct X2 as (Sb & Tb). clear F2.
  apply bind_inv in K1 as [(a3 & k3 & F3 & K1)|[(e & F3 & D)|(F3 & D)]]; try discriminate D.
  apply st_save_spec in F3 as (Sc & _ & _ & _ & [(e' & Hr & _)|(_ & Tc)]); [discriminate Hr|].
  inversion K1; subst vf u2 h2; clear K1. cbn beta iota in Eq. cbn [negb] in Eq.
  assert (L1 : ulookup (u_pid u0) (s_users (h_st k3)) = Some (consumed u0 rest))
    by (rewrite Tc; cbn [s_users set]; apply ulookup_uput_eq).
  assert (Fr1 : forall p, p <> u_pid u0 -> ulookup p (s_users (h_st k3)) = ulookup p (s_users (h_st h))).
  { intros p Np. rewrite Tc. cbn [s_users set]. change (u_pid (consumed u0 rest)) with (u_pid u0).
    rewrite ulookup_uput_neq by exact Np. rewrite Tb, Ta, T0. reflexivity. }
  right. exists u0, rest.
  apply bind_inv in Eq as [(a4 & k4 & K2 & Eq)|[(e & K2 & _)|(K2 & _)]]; try (inversion K2; fail).
  assert (X4 : h_sev k4 = h_sev k3 /\ h_st k4 = h_st k3 /\ h_cuser k4 = Some (consumed u0 rest))
    by (inversion K2; subst; auto).
  destruct X4 as (S4 & T4 & C4). clear K2.
  revert Eq. apply (consumed_tail k_sms_pending u0 rest _ h k4 r h' []); auto.
  - rewrite app_nil_r. congruence.
  - rewrite T4. exact L1.
  - intros p Np. rewrite T4. apply Fr1. exact Np.
  - pose proof (upto_lock_lock (consumed u0 rest)) as QL. kinv QL.
  - assert (G : u_pid u0 = u_pid (consumed u0 rest)) by reflexivity. gtl.
Qed.

Lemma validate2fa_rc_cases k h r h' :
  validate2fa k E h = (r, h') -> bempty rc = false ->
  (exists ls, h_sev h' = h_sev h ++ ls /\ Forall sess_neutral ls) \/
  (exists u0 rest, rc_consumed_by (pending_key k) h h' u0 rest).
Proof. destruct k; [apply totp_post_rc_cases|apply sms_post_rc_cases]. Qed.

(* ---- the refusal: the record stored under U verifies the submitted recovery code against none of
   its stored hashes, and there is no context user yet (the start of a request): neither page
   writes the identity U ---- *)
Lemma user_source_stored pk h u :
  keyed (h_st h) -> h_cuser h = None -> user_source E pk h u -> ulookup (u_pid u) (s_users (h_st h)) = Some u.
Proof.
  intros Kd Cn [Hc|[Hl|Hl]]; [congruence| |]; rewrite <- (Kd _ _ Hl) in Hl; exact Hl.
Qed.

Lemma validate2fa_rc_refused k h r h' U ls :
  keyed (h_st h) -> h_cuser h = None -> bempty rc = false ->
  (forall u, ulookup U (s_users (h_st h)) = Some u -> use_recovery_code E (decode_codes (u_recovery u)) rc = None) ->
  validate2fa k E h = (r, h') -> h_sev h' = h_sev h ++ ls -> ~ In (Put k_uid U) ls.
Proof.
  intros Kd Cn Brc NoCode Eq Sv Hin.
  assert (G : exists u, user_source E (pending_key k) h u /\ u_pid u = U /\
                        use_recovery_code E (decode_codes (u_recovery u)) rc <> None).
  { destruct k; cbn [validate2fa pending_key] in *.
    - destruct (totp_validate_post_guard E h _ _ Eq) as (ls0 & lc & A1 & _ & F).
      rewrite Sv in A1. apply app_inv_head in A1. subst ls0. rewrite Forall_forall in F.
      destruct (F _ Hin) as [N|(U' & EqU & u & (Src & _ & Hrc & _) & Pu)]; [exfalso; apply N; reflexivity|].
      inversion EqU; subst U'. exists u. auto.
    - destruct (sms_validator_post_guard E h _ _ Eq) as (ls0 & lc & A1 & _ & F).
      rewrite Sv in A1. apply app_inv_head in A1. subst ls0. rewrite Forall_forall in F.
      destruct (F _ Hin) as [N|(U' & EqU & u & Src & Pu & Hrc & _)]; [exfalso; apply N; reflexivity|].
      inversion EqU; subst U'. exists u. auto. }
  destruct G as (u & Src & Pu & Hrc). apply Hrc. apply NoCode.
  rewrite <- Pu. exact (user_source_stored _ h u Kd Cn Src).
Qed.
End RCV.

(* First run: one of the two validation pages, given the recovery code c, wrote the identity U.
   Second run: either page, any environment with the same crypto that submits the same c, from the
   storage the first run left, at the start of a request (no context user).
   Hypotheses: [crypto_laws]; records are filed under their own pid ([keyed]); the stored recovery
   list of U read back as the hashes of distinct plain codes, all within bcrypt's domain, as is c;
   the empty string does not verify c (when the last code is consumed the stored value is the empty
   string, which reads back as one empty entry; bcrypt rejects it as malformed). *)
Lemma recovery_code_once_lemma k1 k2 E1 h1 r1 h1' ls U plain E2 h2 r2 h2' ls2 :
  crypto_laws (e_C E1) -> keyed (h_st h1) -> h_cuser h1 = None ->
  validate2fa k1 E1 h1 = (r1, h1') -> h_sev h1' = h_sev h1 ++ ls -> In (Put k_uid U) ls ->
  bempty (aget f_recovery_code (values E1)) = false ->
  (forall u, ulookup U (s_users (h_st h1)) = Some u -> decode_codes (u_recovery u) = map (pwhash (e_C E1)) plain) ->
  NoDup plain -> Forall pw_dom plain -> pw_dom (aget f_recovery_code (values E1)) ->
  pwcheck (e_C E1) [] (aget f_recovery_code (values E1)) = false ->
  e_C E2 = e_C E1 -> aget f_recovery_code (values E2) = aget f_recovery_code (values E1) ->
  h_st h2 = h_st h1' -> h_cuser h2 = None ->
  validate2fa k2 E2 h2 = (r2, h2') -> h_sev h2' = h_sev h2 ++ ls2 ->
  ~ In (Put k_uid U) ls2.
Proof.
  intros laws Kd Cn R1 Sv Hin Brc Plain ND FD Dc Em HC Rc St2 Cn2 R2 Sv2.
  destruct (validate2fa_rc_cases E1 k1 _ _ _ R1 Brc) as [(ls0 & A1 & F)|(u0 & rest & Src & Uc & (ls0 & A1 & Fg) & (su & B1 & B2) & Fr)].
  { rewrite Sv in A1. apply app_inv_head in A1. subst ls0.
    rewrite Forall_forall in F. exfalso. apply (F _ Hin). reflexivity. }
  rewrite Sv in A1. apply app_inv_head in A1. subst ls0. rewrite Forall_forall in Fg.
  assert (PU : u_pid u0 = U).
  { destruct (Fg _ Hin) as [N|(U' & EqU & G)]; [exfalso; apply N; reflexivity|]. inversion EqU. congruence. }
  pose proof (user_source_stored E1 _ h1 u0 Kd Cn Src) as Lu. rewrite PU in *.
  destruct B2 as [s ->].
  assert (Kd2 : keyed (h_st h2)).
  { rewrite St2. apply (keyed_frame (h_st h1) (h_st h1') U _ Kd B1); [exact PU|exact Fr]. }
  apply (validate2fa_rc_refused E2 k2 h2 r2 h2' U ls2 Kd2 Cn2); auto.
  - rewrite Rc. exact Brc.
  - intros u Hu. rewrite St2, B1 in Hu. inversion Hu; subst u; clear Hu.
    change (u_recovery (set_ltriple (consumed u0 rest) s)) with (encode_codes rest).
    rewrite Rc, (use_rc_same_crypto E1 E2 _ _ HC).
    rewrite (Plain u0 Lu) in Uc.
    exact (consumed_code_rejected E1 plain _ rest laws ND FD Dc Em Uc).
Qed.

(* ---- (c), second request: no code in the session, a code (no recovery code) submitted: the page
   writes no identity ---- *)
Lemma sms_no_code_refused_lemma E h r h' ls U :
  aget k_sms_secret (e_sess E) = [] -> bempty (aget f_recovery_code (values E)) = true ->
  sms_validator_post E SPValidate h = (r, h') -> h_sev h' = h_sev h ++ ls -> ~ In (Put k_uid U) ls.
Proof.
  intros Ns Brc Eq Sv Hin.
  destruct (sms_validator_post_guard E h _ _ Eq) as (ls0 & lc & A1 & _ & F).
  rewrite Sv in A1. apply app_inv_head in A1. subst ls0. rewrite Forall_forall in F.
  destruct (F _ Hin) as [N|(U' & _ & u & _ & _ & _ & Hc)]; [apply N; reflexivity|].
  destruct (Hc Brc) as (Hb & _). rewrite Ns in Hb. discriminate Hb.
Qed.

(* the texted code, two runs: the first wrote an identity; the next request of a browser whose session
   is the result of applying the first run's session events to any jar, submitting any code (and no
   recovery code), writes no identity *)
Lemma sms_code_once_lemma E1 h1 r1 h1' ls U j E2 h2 r2 h2' ls2 U2 :
  sms_validator_post E1 SPValidate h1 = (r1, h1') -> h_sev h1' = h_sev h1 ++ ls -> In (Put k_uid U) ls ->
  e_sess E2 = apply_events j ls -> bempty (aget f_recovery_code (values E2)) = true ->
  sms_validator_post E2 SPValidate h2 = (r2, h2') -> h_sev h2' = h_sev h2 ++ ls2 -> ~ In (Put k_uid U2) ls2.
Proof.
  intros R1 Sv Hin Se Brc R2 Sv2.
  destruct (sms_code_spent_lemma E1 _ _ _ _ _ R1 Sv Hin) as (_ & _ & Ha).
  apply (sms_no_code_refused_lemma E2 h2 r2 h2' ls2 U2); auto. rewrite Se. apply Ha.
Qed.
