(* "Exactly once", as TWO-RUN theorems: a first run of a handler accepts a one-time credential;
   a second run - any environment that submits the same credential value, any browser, session,
   cookie jar and oracle - started from a state whose storage is the first run's final storage
   is refused.
     C05  confirmation token (confirm_get) and recovery token (recover_end_post);
     C07  remember cookie (remember_authenticate);
     C12  one-time password (otp_login_post), recovery code at the two 2FA validation pages
          (totp_validate_post / sms_validator_post SPValidate), texted SMS code.
   Hypotheses that the statements need are kept visible and explained where they are introduced. *)
From AB Require Import World.Handlers World.Step Base.Base64Proofs
  Proofs.EvLogic Proofs.Neutral Proofs.HandlerEvents Proofs.MonadInv
  Proofs.Guards Proofs.Guards2 Proofs.Guards3 Proofs.StoreLogic
  Proofs.TokenProofs Proofs.FlowProofs Proofs.OneTimeProofs Proofs.TwoFactorProofs Proofs.SameView2.
Open Scope Z_scope.

(* ---- finite-map facts ---------------------------------------------------------------------- *)
Lemma ufind_sat f u l : ufind f l = Some u -> f u = true.
Proof.
  induction l as [|[k v] l IH]; simpl; [discriminate|]. destruct (f v) eqn:Fv; [|exact IH].
  intros H; inversion H; subst. exact Fv.
Qed.

Lemma ufind_none f l : (forall k v, In (k, v) l -> f v = false) -> ufind f l = None.
Proof.
  induction l as [|[k v] l IH]; simpl; intros H; [reflexivity|].
  rewrite (H k v (or_introl eq_refl)). apply IH. intros k' v' Hin. apply (H k' v'). right. exact Hin.
Qed.

(* with distinct keys, Save replaces one entry and leaves the entries under the other keys *)
Lemma uput_in_nodup k u k' u' l :
  NoDup (map fst l) -> In (k', u') (uput k u l) -> (k', u') = (k, u) \/ (In (k', u') l /\ k' <> k).
Proof.
  induction l as [|[k2 u2] l IH]; simpl; intros ND H.
  - destruct H as [H|[]]. left. symmetry. exact H.
  - inversion ND as [|? ? N1 N2]; subst. destruct (beqb k k2) eqn:Eb.
    + apply beqb_eq in Eb. subst k2. destruct H as [H|H]; [left; symmetry; exact H|].
      right. split; [right; exact H|]. intros ->. apply N1. apply (in_map fst) in H. exact H.
    + apply beqb_neq in Eb. destruct H as [H|H].
      * inversion H; subst. right. split; [left; reflexivity|]. intros ->. apply Eb. reflexivity.
      * destruct (IH N2 H) as [Hx|[Hx Hn]]; [left; exact Hx|right; split; [right; exact Hx|exact Hn]].
Qed.

(* a table in which one key holds a record filed under that key, and every other key holds what
   a keyed table held, is keyed *)
Lemma keyed_frame st st' P su :
  keyed st -> ulookup P (s_users st') = Some su -> u_pid su = P ->
  (forall p, p <> P -> ulookup p (s_users st') = ulookup p (s_users st)) -> keyed st'.
Proof.
  intros K Hs Hp Fr k v Hk. destruct (bytes_dec k P) as [->|N].
  - rewrite Hs in Hk. inversion Hk; subst. reflexivity.
  - rewrite Fr in Hk by exact N. apply K. exact Hk.
Qed.

Lemma bmem_false_iff k l : bmem k l = false <-> ~ In k l.
Proof.
  split.
  - intros H Hin. apply bmem_In in Hin. congruence.
  - intros H. destruct (bmem k l) eqn:B; [|reflexivity]. apply bmem_In in B. contradiction.
Qed.

Lemma b64std_enc_nonempty x : x <> [] -> b64std_enc x <> [].
Proof. intros N H. apply N. apply b64std_enc_inj. rewrite H. reflexivity. Qed.

Lemma evs_left (phi : csevent -> Prop) {A} (m : M A) h2 h r h' :
  h_sev h2 = h_sev h -> evs_all phi any_ev m -> m h2 = (r, h') ->
  exists ls, h_sev h' = h_sev h ++ ls /\ Forall phi ls.
Proof.
  intros S Hm Eq. destruct (Hm _ _ _ Eq) as [(ls & lc & A1 & _ & F & _) _]. exists ls. rewrite <- S. auto.
Qed.

(* ============================== C05: confirmation token ======================================= *)

(* two stored records that carry the same non-empty confirmation selector are the same record *)
Definition csel_unique (st : storage) : Prop :=
  forall p q u v, ulookup p (s_users st) = Some u -> ulookup q (s_users st) = Some v ->
    u_csel u <> [] -> u_csel u = u_csel v -> p = q.

(* the same for the recovery selector *)
Definition rsel_unique (st : storage) : Prop :=
  forall p q u v, ulookup p (s_users st) = Some u -> ulookup q (s_users st) = Some v ->
    u_rsel u <> [] -> u_rsel u = u_rsel v -> p = q.

Lemma selector_same_crypto E1 E2 raw : e_C E2 = e_C E1 -> selector_of E2 raw = selector_of E1 raw.
Proof. intros HC. unfold selector_of. rewrite HC. reflexivity. Qed.

(* First run: a confirm request changed storage (by c05_confirm_accept: it confirmed the account
   whose stored selector / verifier are the hashes of the halves of the submitted token).
   Second run: any environment with the same crypto and the same [cnf] value, from any handler
   state over the storage the first run left.
   Hypotheses: the user table is well filed ([filed]: distinct keys, every record under its own
   pid - the selector lookup scans the table); non-empty selectors are unique; the hash of the
   token's first half is not the empty string (SHA-512 returns 64 bytes; an empty selector would
   be shared with every account that has no pending confirmation). *)
Lemma confirm_once_lemma E1 h1 r1 h1' E2 h2 r2 h2' :
  confirm_get E1 h1 = (r1, h1') -> h_st h1' <> h_st h1 ->
  filed (h_st h1) -> csel_unique (h_st h1) ->
  (forall raw, b64url_dec (aget f_cnf (values E1)) = Some raw -> sha (e_C E1) (half1 raw) <> []) ->
  e_C E2 = e_C E1 -> aget f_cnf (values E2) = aget f_cnf (values E1) -> h_st h2 = h_st h1' ->
  confirm_get E2 h2 = (r2, h2') ->
  h_st h2' = h_st h2 /\
  (exists ls, h_sev h2' = h_sev h2 ++ ls /\ Forall sess_neutral ls) /\
  (exists u, ulookup (u_pid u) (s_users (h_st h1)) = Some u /\
             ulookup (u_pid u) (s_users (h_st h2')) =
               Some (u <| u_csel := [] |> <| u_cver := [] |> <| u_confirmed := true |>)).
Proof.
  intros R1 Ch Fl Un Ne HC Tk St2 R2.
  destruct (confirm_get_cases E1 _ _ _ R1) as [U|(raw & u & D & Ln & F & V & St)]; [contradiction|].
  pose proof (filedl_found _ _ _ Fl F) as Lu.
  pose proof (ufind_sat _ _ _ F) as Su. apply beqb_eq in Su.
  assert (SelNe : selector_of E1 raw <> []) by (apply b64std_enc_nonempty, Ne; exact D).
  assert (NF : ufind (fun u => beqb (u_csel u) (selector_of E1 raw)) (s_users (h_st h2)) = None).
  { rewrite St2, St. cbn [s_users set]. apply ufind_none. intros k v Hin.
    apply uput_in_nodup in Hin as [Heq|[Hin Nk]]; [|idtac|exact (proj1 Fl)].
    - inversion Heq; subst. cbn. destruct (selector_of E1 raw) eqn:Sl; [congruence|reflexivity].
    - destruct (beqb (u_csel v) (selector_of E1 raw)) eqn:B; [|reflexivity]. exfalso.
      apply beqb_eq in B. apply Nk. symmetry.
      apply (Un (u_pid u) k u v Lu (in_ulookup _ _ _ (proj1 Fl) Hin)); congruence. }
  assert (S2 : h_st h2' = h_st h2).
  { apply (confirm_reject_cases_lemma E2 _ _ _ R2). right. exists raw. rewrite Tk. split; [exact D|].
    right. left. rewrite (selector_same_crypto E1 E2 raw HC). exact NF. }
  split; [exact S2|]. split.
  - destruct (neutral_confirm_get E2 _ _ _ R2) as [(ls & lc & A1 & _ & Fn & _) _]. eauto.
  - exists u. split; [exact Lu|]. rewrite S2, St2, St. cbn [s_users set]. apply ulookup_uput_eq.
Qed.

(* ============================== C05: recovery token =========================================== *)
Lemma keeps2fa_recover_end E : keeps2fa (recover_end_post E).
Proof. apply (@keeps2fa_of_K E _ (recover_end_post E) (fun _ => True)). intros T. apply KT_recover_end_post. Qed.

(* a recover-end request that finds no record under the submitted token's selector appends only
   uid-neutral session events *)
Lemma recover_end_no_record_neutral E h r h' :
  recover_end_post E h = (r, h') ->
  (forall raw, b64url_dec (aget f_token (values E)) = Some raw ->
     ufind (fun u => beqb (u_rsel u) (selector_of E raw)) (s_users (h_st h)) = None) ->
  exists ls, h_sev h' = h_sev h ++ ls /\ Forall sess_neutral ls.
Proof.
  intros R NF. destruct (recover_end_post_guard E h _ _ R) as (ls & lc & A1 & _ & Fg).
  exists ls. split; [exact A1|]. eapply Forall_impl; [|exact Fg].
  intros e [Hn|(U & _ & _ & raw & u & D & _ & F & _)]; [exact Hn|].
  rewrite (NF raw D) in F. discriminate F.
Qed.

(* First run: a recover-end request changed the user table (by c05_recover_accept: the password of
   the account matching the token was replaced and its token cleared).  Second run: any environment
   with the same crypto and the same [token] value (any password), from the storage the first run
   left: storage is untouched (no password changes) and nobody is logged in.
   [ctx_ok h1] holds at the start of every request (no context user: [ctx_ok_none]); with [filed] it
   makes the first run leave a well-filed table. *)
Lemma recover_once_lemma E1 h1 r1 h1' E2 h2 r2 h2' :
  recover_end_post E1 h1 = (r1, h1') -> s_users (h_st h1') <> s_users (h_st h1) ->
  filed (h_st h1) -> ctx_ok h1 -> rsel_unique (h_st h1) ->
  (forall raw, b64url_dec (aget f_token (values E1)) = Some raw -> sha (e_C E1) (half1 raw) <> []) ->
  e_C E2 = e_C E1 -> aget f_token (values E2) = aget f_token (values E1) -> h_st h2 = h_st h1' ->
  recover_end_post E2 h2 = (r2, h2') ->
  h_st h2' = h_st h2 /\
  (exists ls, h_sev h2' = h_sev h2 ++ ls /\ Forall sess_neutral ls) /\
  (exists u su, ulookup (u_pid u) (s_users (h_st h1)) = Some u /\
                ulookup (u_pid u) (s_users (h_st h2')) = Some su /\
                u_password su = pwhash (e_C E1) (aget f_password (values E1)) /\ u_rsel su = [] /\ u_rver su = []).
Proof.
  intros R1 Ch Fl Cx Un Ne HC Tk St2 R2.
  destruct (recover_end_cases E1 _ _ _ R1) as [U|(raw & u & D & Ln & F & Ex & V & _ & _ & (su & B1 & B2) & Fr)].
  { rewrite U in Ch. contradiction. }
  pose proof (filedl_found _ _ _ Fl F) as Lu.
  pose proof (ufind_sat _ _ _ F) as Su. apply beqb_eq in Su.
  destruct (keeps2fa_recover_end E1 _ _ _ Fl Cx R1) as (Fl' & _ & _).
  apply upto_lock_recovered in B2 as (_ & P1 & P2 & P3 & _).
  assert (SelNe : selector_of E1 raw <> []) by (apply b64std_enc_nonempty, Ne; exact D).
  assert (NF : ufind (fun u => beqb (u_rsel u) (selector_of E1 raw)) (s_users (h_st h2)) = None).
  { rewrite St2. apply ufind_none. intros k v Hin.
    pose proof (in_ulookup _ _ _ (proj1 Fl') Hin) as Lv.
    destruct (bytes_dec k (u_pid u)) as [->|Nk].
    - rewrite B1 in Lv. inversion Lv; subst v. rewrite P2.
      destruct (selector_of E1 raw) eqn:Sl; [congruence|reflexivity].
    - rewrite Fr in Lv by exact Nk.
      destruct (beqb (u_rsel v) (selector_of E1 raw)) eqn:B; [|reflexivity]. exfalso.
      apply beqb_eq in B. apply Nk. symmetry. apply (Un (u_pid u) k u v Lu Lv); congruence. }
  assert (NF2 : forall raw2, b64url_dec (aget f_token (values E2)) = Some raw2 ->
                  ufind (fun u => beqb (u_rsel u) (selector_of E2 raw2)) (s_users (h_st h2)) = None).
  { intros raw2 D2. rewrite Tk, D in D2. inversion D2; subst raw2.
    rewrite (selector_same_crypto E1 E2 raw HC). exact NF. }
  assert (S2 : h_st h2' = h_st h2).
  { apply (recover_reject_unchanged_lemma E2 _ _ _ R2). intros raw2 u2 D2 _ F2 _ _.
    rewrite (NF2 raw2 D2) in F2. discriminate F2. }
  split; [exact S2|]. split; [exact (recover_end_no_record_neutral E2 _ _ _ R2 NF2)|].
  exists u, su. rewrite S2, St2. auto.
Qed.

(* ============================== C07: remember cookie ========================================== *)
Lemma count_occ_remove_first x l :
  count_occ bytes_dec (remove_first x l) x = pred (count_occ bytes_dec l x).
Proof.
  induction l as [|a l IH]; [reflexivity|]. cbn [remove_first count_occ].
  destruct (beqb x a) eqn:B.
  - apply beqb_eq in B. subst a. destruct (bytes_dec x x); [reflexivity|contradiction].
  - apply beqb_neq in B. cbn [count_occ]. destruct (bytes_dec a x); [subst; contradiction|exact IH].
Qed.

(* a well-formed cookie whose hash is not among the named account's tokens: nobody is logged in and
   storage is untouched WHATEVER the oracle does; without backend faults the cookie is deleted *)
Lemma remember_refused_lemma E h r h' cookie raw pid :
  alookup k_rm (e_cook E) = Some cookie -> b64url_dec cookie = Some raw -> rm_parse_pid raw = Some pid ->
  bmem (b64std_enc (sha (e_C E) raw)) (rmlookup pid (s_rm (h_st h))) = false ->
  remember_authenticate E h = (r, h') ->
  h_sev h' = h_sev h /\ h_st h' = h_st h /\
  (o_faults (e_O E) = [] -> r = Ok tt /\ h_cev h' = h_cev h ++ [Del k_rm]).
Proof.
  intros Ck Dc Pp Bm Eq. split; [|split].
  3:{ intros NoF.
      destruct (remember_bad_cookie_lemma E h r h' cookie Ck) as (A1 & A2 & _); auto.
      right. right. exists raw, pid. auto. }
  all: unfold remember_authenticate in Eq; rewrite Ck, Dc, Pp in Eq; cbv zeta in Eq;
    apply try_inv in Eq as [(x & k1 & L & NP & Eq)|(L & ->)];
    [|exfalso; apply st_use_rm_exact in L as (_ & _ & [(Hx & _)|[(Hx & _)|(Hx & _)]]); discriminate Hx];
    apply st_use_rm_exact in L as (S1 & C1 & [(_ & Bm' & _)|[(-> & T1 & _)|(-> & T1 & _)]]); [congruence| |];
    try (inversion Eq; subst; assumption);
    apply bind_inv in Eq as [(a1 & k2 & F1 & Eq)|[(e & F1 & _)|(F1 & _)]]; try (inversion F1; fail);
    apply log_spec in F1 as (_ & S2 & C2 & T2 & _); apply del_cookie_spec in Eq as (_ & S3 & C3 & T3); congruence.
Qed.

(* First run: remember.Authenticate wrote the identity U (c07_use_rotates: the cookie named U, one
   occurrence of its hash was removed from U's token list and the hash of a fresh token appended).
   Second run: any environment with the same crypto whose cookie jar carries the same cookie value.
   Hypotheses: [crypto_laws] (sha injective); the consumed hash occurred at most once in U's list;
   the replacement cookie that the first run sent does not decode to the same token as the consumed
   one, i.e. the 32 fresh bytes differ from the old nonce (the oracle chooses the fresh bytes, so
   this cannot be proved; [remember_fresh_differs_lemma] below derives it from "the old nonce is not
   among the random chunks of the first request"). *)
Lemma remember_once_lemma E1 h1 r1 h1' U cookie E2 h2 r2 h2' :
  crypto_laws (e_C E1) ->
  remember_authenticate E1 h1 = (r1, h1') ->
  (exists ls, h_sev h1' = h_sev h1 ++ ls /\ In (Put k_uid U) ls) ->
  alookup k_rm (e_cook E1) = Some cookie ->
  (forall raw, b64url_dec cookie = Some raw ->
     (count_occ bytes_dec (rmlookup U (s_rm (h_st h1))) (b64std_enc (sha (e_C E1) raw)) <= 1)%nat) ->
  (forall c', h_cev h1' = h_cev h1 ++ [Del k_rm; Put k_rm c'] -> b64url_dec c' <> b64url_dec cookie) ->
  e_C E2 = e_C E1 -> alookup k_rm (e_cook E2) = Some cookie -> h_st h2 = h_st h1' ->
  remember_authenticate E2 h2 = (r2, h2') ->
  h_sev h2' = h_sev h2 /\ h_st h2' = h_st h2 /\
  (o_faults (e_O E2) = [] -> r2 = Ok tt /\ h_cev h2' = h_cev h2 ++ [Del k_rm]).
Proof.
  intros laws R1 Ap Ck Once Fresh HC Ck2 St2 R2.
  destruct (remember_use_rotates_lemma E1 _ _ _ U R1 Ap) as (cookie0 & raw & nonce & Ck0 & Dc & Pp & Ln & Rest).
  cbv zeta in Rest. destruct Rest as (_ & Bm & _ & Cev & Rm).
  rewrite Ck in Ck0. inversion Ck0; subst cookie0; clear Ck0.
  apply (remember_refused_lemma E2 h2 r2 h2' cookie raw U Ck2 Dc Pp); [|exact R2].
  rewrite HC, St2, Rm. apply bmem_false_iff. intros Hin. apply in_app_or in Hin as [Hin|[Hin|[]]].
  - apply (count_occ_In bytes_dec) in Hin. rewrite count_occ_remove_first in Hin.
    specialize (Once raw Dc). lia.
  - apply b64std_enc_inj, (sha_inj _ laws) in Hin.
    apply (Fresh _ Cev). rewrite b64url_dec_enc, Dc, Hin. reflexivity.
Qed.

(* ============================== C12 (a): one-time password ==================================== *)

(* session events that only set a flash message *)
Definition flash_only (e : csevent) : Prop :=
  match e with Put k _ => k = k_flash_ok \/ k = k_flash_err | _ => False end.

Ltac fside := first [ exact I | left; reflexivity | right; reflexivity ].

Section FL.
Variable E : env.
Notation flash := (evs_all flash_only any_ev).

Lemma flash_hook_lock_fail rm hd : flash (run_hook E HLockAfterFail rm hd).
Proof. unfold run_hook. repeat (unfold_derived; cbn beta iota; evs_step); try fside. Qed.

Lemma flash_call_fail hs : Forall (eq HLockAfterFail) hs -> forall rm hd, flash (call E hs rm hd).
Proof.
  induction hs as [|hk hs IH]; intros F rm hd; simpl.
  - apply evs_ret.
  - inversion F; subst. apply evs_bind; [apply flash_hook_lock_fail|intros; apply IH; assumption].
Qed.

Lemma flash_fire_fail rm : flash (fire E EvAfterAuthFail rm).
Proof.
  unfold fire. apply flash_call_fail. apply Forall_forall. intros hk Hin. symmetry. apply (hooks_after_fail E). exact Hin.
Qed.
End FL.

Ltac ftail := repeat (unfold_derived; cbn beta iota; first [apply flash_fire_fail | evs_step]); try fside.

(* the matcher of /otp/login, entry by entry *)
Definition otp_hit (inp p : bytes) : bool :=
  match b64std_dec p with Some d => beqb inp d | None => false end.

Lemma otp_match_some_hit inp l : forall k i, otp_match inp l k = Some (Some i) -> exists y, In y l /\ otp_hit inp y = true.
Proof.
  induction l as [|p l IH]; intros k i H; simpl in H; [discriminate|].
  destruct (b64std_dec p) as [d|] eqn:Dp; [|discriminate].
  destruct (beqb inp d) eqn:Eb.
  - exists p. split; [left; reflexivity|]. unfold otp_hit. rewrite Dp. exact Eb.
  - destruct (IH _ _ H) as (y & Hy & Hh). exists y. split; [right; exact Hy|exact Hh].
Qed.

Lemma otp_remove_in_rest (l : list bytes) i y :
  (i < length l)%nat -> In y (otp_remove l i) -> In y (firstn i l ++ skipn (S i) l).
Proof.
  destruct l as [|x l] using rev_ind; [simpl; lia|]. clear IHl.
  rewrite otp_remove_snoc, app_length. cbn [length]. intros Hi.
  destruct (Nat.eqb i (length l)) eqn:Eq.
  - apply Nat.eqb_eq in Eq. subst i. intros H. apply in_or_app. left.
    rewrite firstn_app, Nat.sub_diag, firstn_all. cbn [firstn]. rewrite app_nil_r. exact H.
  - apply Nat.eqb_neq in Eq. assert (Hl : (i < length l)%nat) by lia.
    rewrite firstn_app, skipn_app.
    replace (i - length l)%nat with 0%nat by lia. replace (S i - length l)%nat with 0%nat by lia.
    cbn [firstn skipn]. rewrite app_nil_r. intros H.
    apply in_app_or in H as [H|[H|H]]; apply in_or_app.
    + left. exact H.
    + right. apply in_or_app. right. left. exact H.
    + right. apply in_or_app. left. exact H.
Qed.

Lemma filter_single_elsewhere {A} (f : A -> bool) (a b : list A) x :
  f x = true -> (length (filter f (a ++ x :: b)) <= 1)%nat -> forall y, In y (a ++ b) -> f y = false.
Proof.
  intros Hx Once y Hy. rewrite filter_app in Once. cbn [filter] in Once. rewrite Hx, app_length in Once.
  cbn [length] in Once. destruct (f y) eqn:Hh; [|reflexivity]. exfalso.
  apply in_app_or in Hy as [Hy|Hy].
  - assert (Hf : In y (filter f a)) by (apply filter_In; auto).
    destruct (filter f a); [exact Hf|cbn [length] in Once; lia].
  - assert (Hf : In y (filter f b)) by (apply filter_In; auto).
    destruct (filter f b); [exact Hf|cbn [length] in Once; lia].
Qed.

(* at most one stored entry decodes to the submitted hash, the matcher found it at i: after the
   removal no entry decodes to it *)
Lemma otp_remove_no_hit inp (l : list bytes) i :
  otp_match inp l 0%nat = Some (Some i) ->
  (length (filter (otp_hit inp) l) <= 1)%nat ->
  forall y, In y (otp_remove l i) -> otp_hit inp y = false.
Proof.
  intros OM Once y Hy. apply otp_match_spec_lemma in OM as (Hi & Dx).
  apply (otp_remove_in_rest l i y Hi) in Hy.
  rewrite (nth_split_eq [] l i Hi) in Once.
  assert (Hx : otp_hit inp (nth i l []) = true) by (unfold otp_hit; rewrite Dx; apply beqb_refl).
  exact (filter_single_elsewhere (otp_hit inp) _ _ _ Hx Once y Hy).
Qed.

(* what is read back from a stored list of comma-free entries has no new entries *)
Lemma split_join_incl l : Forall (nosep ","%byte) l -> forall y, In y (split_otps (join_otps l)) -> In y l.
Proof.
  intros F y. unfold split_otps, join_otps. destruct (bempty (bjoin ","%byte l)) eqn:Be; [intros []|].
  destruct l as [|a l']; [discriminate Be|]. rewrite bsplit_bjoin; [auto|discriminate|exact F].
Qed.

Lemma otp_remove_nosep s i : Forall (nosep ","%byte) (otp_remove (split_otps s) i).
Proof.
  apply Forall_forall. intros y Hy. apply otp_remove_incl in Hy.
  pose proof (split_otps_nosep s) as F. rewrite Forall_forall in F. apply F. exact Hy.
Qed.

Lemma otp_consumed_no_match inp s i j :
  otp_match inp (split_otps s) 0%nat = Some (Some i) ->
  (length (filter (otp_hit inp) (split_otps s)) <= 1)%nat ->
  otp_match inp (split_otps (join_otps (otp_remove (split_otps s) i))) 0%nat <> Some (Some j).
Proof.
  intros OM Once H. apply otp_match_some_hit in H as (y & Hy & Hh).
  apply (split_join_incl _ (otp_remove_nosep s i)) in Hy.
  rewrite (otp_remove_no_hit inp _ i OM Once y Hy) in Hh. discriminate Hh.
Qed.

Section OR.
Variable E : env.
Notation C := (e_C E).
Notation vals := (values E).

(* /otp/login when the submitted value matches none of the stored one-time passwords of the submitted
   pid: the only session events are flash messages (no identity, no pending second factor), and
   every stored record is what it was up to the lock counters (the failed attempt is counted) *)
Lemma otp_login_refused_lemma h r h' :
  keyed (h_st h) ->
  otp_login_post E h = (r, h') ->
  (forall u i, ulookup (aget (pid_field E) vals) (s_users (h_st h)) = Some u ->
     otp_match (sha C (aget f_password vals)) (split_otps (u_otps u)) 0%nat <> Some (Some i)) ->
  (exists ls, h_sev h' = h_sev h ++ ls /\ Forall flash_only ls) /\
  (forall p u, ulookup p (s_users (h_st h)) = Some u ->
     exists su, ulookup p (s_users (h_st h')) = Some su /\ upto_lock u su).
Proof.
  intros Kd Eq NM.
  assert (SAME : forall h0, h_st h0 = h_st h ->
            forall p u, ulookup p (s_users (h_st h)) = Some u ->
              exists su, ulookup p (s_users (h_st h0)) = Some su /\ upto_lock u su).
  { intros h0 S0 p u Hu. exists u. rewrite S0. split; [exact Hu|apply upto_lock_refl]. }
  assert (NIL : forall h0, h_sev h0 = h_sev h -> exists ls, h_sev h0 = h_sev h ++ ls /\ Forall flash_only ls)
    by (intros h0 S0; exists []; rewrite app_nil_r; auto).
  unfold otp_login_post in Eq.
  apply bind_inv in Eq as [(v & h1 & E1 & E2)|[(e & E1 & ->)|(E1 & ->)]];
    apply read_values_spec in E1 as [-> [Hv|Hv]]; try discriminate Hv;
    try (split; [apply NIL; reflexivity|apply SAME; reflexivity]).
  inversion Hv; subst v; clear Hv. cbn beta zeta in E2.
  apply try_inv in E2 as [(x & h2 & L & NP & K)|(L & ->)].
  2:{ apply st_load_spec in L. destruct L as (_ & _ & _ & _ & _ & _ & _ & N). congruence. }
  pose proof (st_load_spec _ _ _ _ _ L) as (S1 & _ & _ & S4 & _ & _ & Hu & _).
  assert (PST : forall (m : M unit), evs_all flash_only any_ev m -> pres h_st m -> m h2 = (r, h') ->
            (exists ls, h_sev h' = h_sev h ++ ls /\ Forall flash_only ls) /\
            (forall p u, ulookup p (s_users (h_st h)) = Some u ->
               exists su, ulookup p (s_users (h_st h')) = Some su /\ upto_lock u su)).
  { intros m Hf Hp Em. split; [exact (evs_left _ m h2 h r h' S1 Hf Em)|].
    apply SAME. rewrite (Hp _ _ _ Em). exact S4. }
  destruct x as [u|e|]; [|destruct e|congruence];
    try (revert K; apply PST; [ftail|pres_go]; fail).
  specialize (Hu u eq_refl). cbn beta zeta in K.
  destruct (otp_match (sha C (aget f_password vals)) (split_otps (u_otps u)) 0%nat) as [[i|]|] eqn:OM.
  - exfalso. exact (NM u i Hu OM).
  - (* no match: the failure hooks run *)
    split.
    + revert K. apply evs_left; [exact S1|ftail].
    + pose proof (Kd _ _ Hu) as Pu.
      apply bind_inv in K as [(a & h3 & K1 & K)|[(e & K1 & ->)|(K1 & ->)]]; try (inversion K1; fail).
      assert (C3 : h_cuser h3 = Some u /\ h_st h3 = h_st h2) by (inversion K1; subst; split; reflexivity).
      clear K1. destruct C3 as [C3 S3].
      assert (I3 : hinv (u_pid u) (upto_lock u) (s_users (h_st h)) h3).
      { split; [exists u; repeat split; auto; apply upto_lock_refl|]. rewrite S3, S4, Pu. split.
        - exists u. split; [exact Hu|apply upto_lock_refl].
        - intros p Np. reflexivity. }
      assert (I' : hinv (u_pid u) (upto_lock u) (s_users (h_st h)) h').
      { revert I3 K. generalize h3 r h'.
        match goal with |- forall h3 r h', _ -> ?m h3 = _ -> _ =>
          change (keeps_inv (u_pid u) (upto_lock u) (s_users (h_st h)) m) end.
        pose proof (upto_lock_lock u) as QL.
        apply keeps_bind; [apply keeps_fire; [exact QL|discriminate]|intros hd1].
        destruct hd1; apply keeps_of_pres; pres_go. }
      destruct I' as (_ & (su & Su & Qs) & Fr).
      intros p v Hv. destruct (bytes_dec p (u_pid u)) as [->|Np].
      * rewrite Pu, Hu in Hv. inversion Hv; subst v. exists su. auto.
      * exists v. rewrite (Fr p Np). split; [exact Hv|apply upto_lock_refl].
  - revert K. apply PST; [ftail|pres_go].
Qed.
End OR.

(* First run: /otp/login wrote the identity U (c12_otp_consumed_before_session: U is the submitted
   pid, the submitted value x hashed to a stored one-time password of U, which was removed).
   Second run: any environment with the same crypto that submits pid U and the same x, from the
   storage the first run left.
   Hypotheses: records are filed under their own pid ([keyed]); at most ONE stored entry of U decoded
   to sha(x) - with two the second copy remains usable.  (No crypto law is needed: the second run
   compares the same hash value.) *)
Lemma otp_once_lemma E1 h1 r1 h1' ls U E2 h2 r2 h2' :
  keyed (h_st h1) ->
  otp_login_post E1 h1 = (r1, h1') -> h_sev h1' = h_sev h1 ++ ls -> In (Put k_uid U) ls ->
  (forall u, ulookup U (s_users (h_st h1)) = Some u ->
     (length (filter (otp_hit (sha (e_C E1) (aget f_password (values E1)))) (split_otps (u_otps u))) <= 1)%nat) ->
  e_C E2 = e_C E1 -> aget (pid_field E2) (values E2) = U ->
  aget f_password (values E2) = aget f_password (values E1) -> h_st h2 = h_st h1' ->
  otp_login_post E2 h2 = (r2, h2') ->
  (exists ls2, h_sev h2' = h_sev h2 ++ ls2 /\ Forall flash_only ls2) /\
  (forall p u, ulookup p (s_users (h_st h2)) = Some u ->
     exists su, ulookup p (s_users (h_st h2')) = Some su /\ upto_lock u su).
Proof.
  intros Kd R1 Sv Hin Once HC Pid Pw St2 R2.
  assert (HU : U = aget (pid_field E1) (values E1)).
  { destruct (otp_consumed_before_session_lemma E1 _ _ _ _ _ Kd R1 Sv Hin) as (HU & _). exact HU. }
  destruct (otp_login_cases E1 _ _ _ R1) as [(ls0 & A1 & F)|(u & i & Hu & OM & (su & B1 & B2) & Fr)].
  { rewrite Sv in A1. apply app_inv_head in A1. subst ls0.
    rewrite Forall_forall in F. exfalso. apply (F _ Hin). reflexivity. }
  rewrite <- HU in Hu. pose proof (Kd _ _ Hu) as Pu. rewrite Pu in *.
  apply upto_lock_consumed in B2 as (Ps & Os & _).
  assert (Kd2 : keyed (h_st h2)).
  { rewrite St2. apply (keyed_frame (h_st h1) (h_st h1') U su Kd B1); [congruence|exact Fr]. }
  apply (otp_login_refused_lemma E2 h2 r2 h2' Kd2 R2).
  intros u2 j Hu2. rewrite Pid, St2, B1 in Hu2. inversion Hu2; subst u2. rewrite Os, HC, Pw.
  apply otp_consumed_no_match; [exact OM|exact (Once u Hu)].
Qed.
