(* Proofs for the identifier codecs of Model/Codecs.v: remember-me token (C07) and
   OAuth2 PIDs (C14). *)
From AB Require Import Model.Codecs.
From Coq Require Import Lia Arith.

(* ---------- list plumbing ---------- *)

Lemma nth_error_mid : forall (A : Type) (l : list A) (a : A) (r : list A),
  nth_error (l ++ a :: r) (length l) = Some a.
Proof.
  intros A l a r. induction l as [|x l IH]; cbn [app length nth_error].
  - reflexivity.
  - exact IH.
Qed.

Lemma firstn_length_app : forall (A : Type) (l r : list A), firstn (length l) (l ++ r) = l.
Proof.
  intros A l r. induction l as [|x l IH]; cbn [app length firstn].
  - reflexivity.
  - rewrite IH. reflexivity.
Qed.

Lemma make_length : forall pid nonce, length nonce = 32%nat ->
  length (rm_make pid nonce) = (length pid + 33)%nat.
Proof.
  intros pid nonce Hn. unfold rm_make. rewrite app_length. cbn [length]. rewrite Hn. reflexivity.
Qed.

(* ---------- C07 ---------- *)

Lemma c07_parse_make_lemma : forall pid nonce,
  length nonce = 32%nat -> rm_parse (rm_make pid nonce) = Some pid.
Proof.
  intros pid nonce Hn. unfold rm_parse. cbv zeta.
  rewrite (make_length pid nonce Hn).
  destruct (Nat.ltb (length pid + 33) 33) eqn:E.
  - apply Nat.ltb_lt in E. lia.
  - replace (length pid + 33 - 33)%nat with (length pid) by lia.
    unfold rm_make. rewrite nth_error_mid.
    change (Byte.eqb semi semi) with true. cbv iota.
    rewrite firstn_length_app. reflexivity.
Qed.

Lemma c07_parse_shape_lemma : forall raw pid, rm_parse raw = Some pid ->
  exists nonce, raw = rm_make pid nonce /\ length nonce = 32%nat.
Proof.
  intros raw pid H. unfold rm_parse in H. cbv zeta in H.
  destruct (Nat.ltb (length raw) 33) eqn:E; [discriminate H|].
  apply Nat.ltb_ge in E.
  destruct (nth_error raw (length raw - 33)) as [c|] eqn:En; [|discriminate H].
  destruct (Byte.eqb c semi) eqn:Ec; [|discriminate H].
  apply Byte.byte_dec_bl in Ec. subst c.
  injection H as Hpid.
  apply nth_error_split in En. destruct En as [l1 [l2 [Hraw Hl1]]].
  exists l2.
  assert (Hp : pid = l1).
  { rewrite <- Hpid, <- Hl1. rewrite Hraw. apply firstn_length_app. }
  split.
  - unfold rm_make. rewrite Hp. exact Hraw.
  - assert (Hlen : length raw = (length l1 + S (length l2))%nat).
    { rewrite Hraw at 1. rewrite app_length. reflexivity. }
    lia.
Qed.

Lemma c07_make_inj_lemma : forall p1 n1 p2 n2, length n1 = 32%nat -> length n2 = 32%nat ->
  rm_make p1 n1 = rm_make p2 n2 -> p1 = p2 /\ n1 = n2.
Proof.
  intros p1 n1 p2 n2 H1 H2 E.
  pose proof (c07_parse_make_lemma p1 n1 H1) as P1.
  pose proof (c07_parse_make_lemma p2 n2 H2) as P2.
  rewrite E in P1. rewrite P1 in P2. injection P2 as Hp. subst p2.
  split; [reflexivity|].
  unfold rm_make in E. apply app_inv_head in E. injection E as En. exact En.
Qed.

Lemma c07_old_parse_refuted_lemma :
  exists pid nonce, length nonce = 32%nat /\ rm_parse_first (rm_make pid nonce) <> Some pid.
Proof.
  exists (list_byte_of_string "a;b"%string), (repeat x00 32).
  split.
  - reflexivity.
  - vm_compute. intros H. discriminate H.
Qed.

(* ---------- C14 ---------- *)

Lemma sep2_split : forall a b x y : bytes, ~ In semi a -> ~ In semi b ->
  a ++ semi :: semi :: x = b ++ semi :: semi :: y -> a = b /\ x = y.
Proof.
  intros a. induction a as [|c a IH]; intros b x y Ha Hb E.
  - destruct b as [|d b].
    + cbn [app] in E. injection E as Exy. split; [reflexivity | exact Exy].
    + cbn [app] in E. injection E as Ed Er.
      (* d = semi contradicts no_semi (d :: b) *)
      exfalso. apply Hb. left. symmetry. exact Ed.
  - destruct b as [|d b].
    + cbn [app] in E. injection E as Ec Er.
      exfalso. apply Ha. left. exact Ec.
    + cbn [app] in E. injection E as Ecd Er.
      assert (Ha' : ~ In semi a) by (intros Hin; apply Ha; right; exact Hin).
      assert (Hb' : ~ In semi b) by (intros Hin; apply Hb; right; exact Hin).
      destruct (IH b x y Ha' Hb' Er) as [Eab Exy].
      split; [rewrite Ecd, Eab; reflexivity | exact Exy].
Qed.

Lemma c14_make_inj_lemma : forall p1 u1 p2 u2, no_semi p1 -> no_semi p2 ->
  make_pid p1 u1 = make_pid p2 u2 -> p1 = p2 /\ u1 = u2.
Proof.
  intros p1 u1 p2 u2 H1 H2 E. unfold make_pid in E.
  apply app_inv_head in E. unfold sep2 in E. cbn [app] in E.
  exact (sep2_split p1 p2 u1 u2 H1 H2 E).
Qed.

Lemma c14_separator_needed_lemma :
  exists p1 u1 p2 u2, (p1, u1) <> (p2, u2) /\ make_pid p1 u1 = make_pid p2 u2.
Proof.
  exists (list_byte_of_string "a;;b"%string), (list_byte_of_string "c"%string),
         (list_byte_of_string "a"%string), (list_byte_of_string "b;;c"%string).
  split.
  - vm_compute. intros H. discriminate H.
  - vm_compute. reflexivity.
Qed.
