(* C16 (a) and (c) on the model.
   (c) a login for an unknown identifier and a login with a wrong password for a known one
       (that the failed attempt does not lock) are answered alike;
   (a) while an account is locked, a login with the correct password and a login with a wrong
       one are answered alike (the lock redirect).
   Both are stated on the client-visible part [view] of the handler state, with no backend
   faults, and with each module loaded at most once ([NoDup (c_mods cfg)]). *)
From AB Require Import World.Handlers Proofs.EvLogic Proofs.Neutral Proofs.MonadInv Proofs.StoreLogic Proofs.SameView.
Open Scope Z_scope.

#[local] Instance dep_cuser_sv2 : StDep h_cuser.
Proof. intros h h' _ B. exact B. Qed.

Section SV2.
Variable E : env.
Hypothesis nofaults : o_faults (e_O E) = [].
Notation now := (o_now (e_O E)).
Notation cfg := (e_cfg E).
Notation vals := (values E).
Notation pid := (aget (pid_field E) (values E)).

(* ---- which hooks are registered ------------------------------------------------------- *)
Lemma flat_map_nil_of_notin {A B} (f : A -> list B) (x : A) l :
  (forall y, y <> x -> f y = []) -> ~ In x l -> flat_map f l = [].
Proof.
  intros Hf. induction l as [|a l IH]; simpl; intros Hn; [reflexivity|].
  rewrite Hf by (intros ->; apply Hn; left; reflexivity). simpl. apply IH. intros H; apply Hn; right; exact H.
Qed.

Lemma has_mod_In m : has_mod cfg m = true <-> In m (c_mods cfg).
Proof.
  unfold has_mod. rewrite existsb_exists. split.
  - intros (x & Hx & Hm). destruct m, x; try discriminate Hm; exact Hx.
  - intros H. exists m. split; [exact H|destruct m; reflexivity].
Qed.

Lemma hooks_after_fail hk : In hk (hooks E EvAfterAuthFail) -> hk = HLockAfterFail.
Proof.
  unfold hooks. rewrite app_nil_r. induction (c_mods cfg) as [|m l IH]; simpl; [tauto|].
  rewrite in_app_iff. intros [H|H]; [|auto].
  destruct m; simpl in H; intuition.
Qed.

(* with every module loaded at most once, the failure event has the lock hook or nothing *)
Lemma hooks_after_fail_cases : NoDup (c_mods cfg) ->
  (hooks E EvAfterAuthFail = [] /\ has_mod cfg MLock = false) \/
  (hooks E EvAfterAuthFail = [HLockAfterFail] /\ has_mod cfg MLock = true).
Proof.
  intros ND. destruct (has_mod cfg MLock) eqn:HM.
  - right. split; [|reflexivity]. apply has_mod_In in HM.
    destruct (in_split _ _ HM) as (l1 & l2 & Hl). unfold hooks. rewrite app_nil_r. rewrite Hl in *.
    apply NoDup_remove_2 in ND. rewrite flat_map_app. simpl.
    rewrite (flat_map_nil_of_notin _ MLock l1), (flat_map_nil_of_notin _ MLock l2); try reflexivity.
    + intros y Hy; destruct y; try reflexivity; congruence.
    + intros H; apply ND; apply in_or_app; right; exact H.
    + intros y Hy; destruct y; try reflexivity; congruence.
    + intros H; apply ND; apply in_or_app; left; exact H.
  - left. split; [|reflexivity]. unfold hooks. rewrite app_nil_r.
    apply (flat_map_nil_of_notin _ MLock).
    + intros y Hy; destruct y; try reflexivity; congruence.
    + intros H. apply has_mod_In in H. congruence.
Qed.

(* the BeforeAuth hooks: the lock hook once, surrounded by confirm hooks only *)
Lemma hooks_before_auth_split : NoDup (c_mods cfg) -> has_mod cfg MLock = true ->
  exists cs1 cs2, hooks E EvBeforeAuth = cs1 ++ HLockBefore :: cs2 /\
    Forall (eq HConfirmPrevent) cs1 /\ Forall (eq HConfirmPrevent) cs2.
Proof.
  intros ND HM. apply has_mod_In in HM.
  destruct (in_split _ _ HM) as (l1 & l2 & Hl). unfold hooks. rewrite app_nil_r. rewrite Hl in *.
  apply NoDup_remove_2 in ND. rewrite flat_map_app. simpl.
  assert (G : forall l, ~ In MLock l -> Forall (eq HConfirmPrevent) (flat_map (fun m => hooks_of_mod m EvBeforeAuth) l)).
  { induction l as [|m l IH]; simpl; intros Hn; [constructor|].
    apply Forall_app. split; [|apply IH; intros H; apply Hn; right; exact H].
    destruct m; simpl; try constructor; auto. exfalso; apply Hn; left; reflexivity. }
  eexists _, _. split; [reflexivity|]. split; apply G; intros H; apply ND; apply in_or_app; auto.
Qed.

(* ---- the lock redirect as the client sees it ------------------------------------------- *)
Definition lock_view (h : hst) : option written * list csevent * list csevent :=
  (Some (mkWritten (resp_of E (ro_fail (p_lock_notok_of (e_cfg E)))) (h_sev h ++ flash_of E (ro_fail (p_lock_notok_of (e_cfg E)))) (h_cev h)),
   h_sev h ++ flash_of E (ro_fail (p_lock_notok_of (e_cfg E))), h_cev h).

Lemma view_inv h1 h2 : view h1 = view h2 -> h_out h1 = h_out h2 /\ h_sev h1 = h_sev h2 /\ h_cev h1 = h_cev h2.
Proof. unfold view. intros H. inversion H. auto. Qed.

Lemma lock_view_ext h1 h2 : view h1 = view h2 -> lock_view h1 = lock_view h2.
Proof. unfold view, lock_view. intros H. inversion H. reflexivity. Qed.

Lemma st_save_nofault u h :
  st_save (e_O E) u h =
  (Ok tt, h <| h_ncalls := S (h_ncalls h) |> <| h_calls := KSave :: h_calls h |>
            <| h_st := h_st h <| s_users := uput (u_pid u) u (s_users (h_st h)) |> |>).
Proof. unfold st_save. rewrite (backend_nofault E nofaults). reflexivity. Qed.

(* lock.updateLockedState with a context user, no fault, nothing written yet *)
Lemma update_locked_nofault correct h cu r h' :
  h_cuser h = Some cu -> h_out h = None ->
  update_locked_state E correct h = (r, h') ->
  let u2 := lock_apply E cu (if correct then LOkBefore now else LFail now) in
  h_cuser h' = Some u2 /\
  (is_locked E u2 = false -> r = Ok false /\ view h' = view h) /\
  (is_locked E u2 = true -> r = Ok true /\ view h' = lock_view h).
Proof.
  intros Hc Ho Eq u2. unfold update_locked_state, current_user in Eq.
  unfold bind at 1 in Eq. unfold bind at 1 in Eq. unfold get_h in Eq. rewrite Hc in Eq.
  unfold ret at 1 in Eq. cbn beta iota in Eq. unfold store_back in Eq.
  fold u2 in Eq.
  apply bind_inv in Eq as [(a & h1 & E1 & E2)|[(e & E1 & ->)|(E1 & ->)]]; try (inversion E1; fail).
  inversion E1; subst a h1; clear E1.
  apply bind_inv in E2 as [(a & h2 & E1 & E2)|[(e & E1 & ->)|(E1 & ->)]];
    rewrite st_save_nofault in E1; try (inversion E1; fail).
  inversion E1; subst a h2; clear E1.
  destruct (is_locked E u2) eqn:IL; cbn [negb] in E2.
  - match type of E2 with bind (redirect E _) _ ?hh = _ =>
      assert (Oh : h_out hh = None) by (simpl; exact Ho);
      destruct (redirect_nofault E nofaults (ro_fail (p_lock_notok_of (e_cfg E))) hh Oh) as (hx & Ex & Wx);
      assert (Cx : h_cuser hx = Some u2) by (rewrite (pres_redirect E h_cuser (ro_fail (p_lock_notok_of (e_cfg E))) _ _ _ Ex); reflexivity)
    end.
    unfold bind in E2. rewrite Ex in E2. inversion E2; subst. split; [exact Cx|].
    split; [discriminate|]. intros _. split; [reflexivity|]. rewrite Wx. reflexivity.
  - inversion E2; subst. split; [reflexivity|]. split; [|discriminate]. intros _. split; reflexivity.
Qed.

(* the confirm hook lets a confirmed account through, visibly changing nothing *)
Lemma confirm_prevent_confirmed rm hd h cu r h' :
  h_cuser h = Some cu -> u_confirmed cu = true ->
  run_hook E HConfirmPrevent rm hd h = (r, h') ->
  r = Ok false /\ view h' = view h /\ h_cuser h' = Some cu.
Proof.
  intros Hc Cf Eq. unfold run_hook, current_user in Eq.
  unfold bind at 1 in Eq. unfold bind at 1 in Eq. unfold get_h in Eq. rewrite Hc in Eq.
  unfold ret at 1 in Eq. cbn beta iota in Eq. rewrite Cf in Eq.
  inversion Eq; subst. repeat split; auto.
Qed.

Lemma call_confirm_only cs : Forall (eq HConfirmPrevent) cs ->
  forall rm hd h cu r h', h_cuser h = Some cu -> u_confirmed cu = true ->
  call E cs rm hd h = (r, h') -> r = Ok hd /\ view h' = view h.
Proof.
  induction 1 as [|hk cs <- _ IH]; intros rm hd h cu r h' Hc Cf Eq.
  - inversion Eq; subst. auto.
  - cbn [call] in Eq.
    apply bind_inv in Eq as [(i & h1 & E1 & E2)|[(e & E1 & ->)|(E1 & ->)]];
      destruct (confirm_prevent_confirmed _ _ _ _ _ _ Hc Cf E1) as (R & V & Cu); try discriminate R.
    inversion R; subst i. rewrite Bool.orb_false_r in E2.
    destruct (IH _ _ _ _ _ _ Cu Cf E2) as (R2 & V2). split; [exact R2|congruence].
Qed.

Lemma lock_apply_confirmed u o : u_confirmed (lock_apply E u o) = u_confirmed u.
Proof. reflexivity. Qed.

(* BeforeAuth on a locked, confirmed account: the lock redirect, whatever the module order *)
Lemma call_lock_chain cs1 : Forall (eq HConfirmPrevent) cs1 -> forall cs2, Forall (eq HConfirmPrevent) cs2 ->
  forall rm h cu r h', h_cuser h = Some cu -> u_confirmed cu = true -> h_out h = None ->
  now < u_locked cu ->
  call E (cs1 ++ HLockBefore :: cs2) rm false h = (r, h') -> r = Ok true /\ view h' = lock_view h.
Proof.
  induction 1 as [|hk cs1 <- _ IH]; intros cs2 F2 rm h cu r h' Hc Cf Ho Lk Eq.
  - cbn [app call] in Eq.
    apply bind_inv in Eq as [(i & h1 & E1 & E2)|[(e & E1 & ->)|(E1 & ->)]];
      cbn [run_hook] in E1; destruct (update_locked_nofault _ _ _ _ _ Hc Ho E1) as (Cu & _ & L);
      (destruct L as (R & V); [unfold is_locked, lock_apply, set_ltriple, ltriple, locked_at; simpl; apply Z.ltb_lt; exact Lk|]);
      try discriminate R.
    inversion R; subst i. cbn [orb] in E2.
    destruct (call_confirm_only _ F2 _ _ _ _ _ _ Cu Cf E2) as (R2 & V2). split; [exact R2|congruence].
  - cbn [app call] in Eq.
    apply bind_inv in Eq as [(i & h1 & E1 & E2)|[(e & E1 & ->)|(E1 & ->)]];
      destruct (confirm_prevent_confirmed _ _ _ _ _ _ Hc Cf E1) as (R & V & Cu); try discriminate R.
    inversion R; subst i. cbn [orb] in E2.
    assert (Ho1 : h_out h1 = None) by (destruct (view_inv _ _ V) as (W1 & _); congruence).
    destruct (IH _ F2 _ _ _ _ _ Cu Cf Ho1 Lk E2) as (R2 & V2). split; [exact R2|].
    rewrite V2. apply lock_view_ext. exact V.
Qed.

(* a failed attempt on a locked account leaves it locked (the lock only ever moves forward) *)
Lemma fail_keeps_locked u : 0 < c_lock_duration cfg -> now < u_locked u ->
  is_locked E (lock_apply E u (LFail now)) = true.
Proof.
  intros Hd Lk. unfold is_locked, lock_apply, set_ltriple, ltriple, locked_at, lstep, lcfg_of. simpl.
  destruct (now - u_last u <=? c_lock_window cfg); simpl.
  - destruct (c_lock_after cfg <=? u_attempts u + 1); simpl; apply Z.ltb_lt; [|exact Lk].
    apply Z.lt_add_pos_r. exact Hd.
  - destruct (c_lock_after cfg <=? 1); simpl; apply Z.ltb_lt; [|exact Lk].
    apply Z.lt_add_pos_r. exact Hd.
Qed.

(* ---- the head of login_post: a readable body, the load ----------------------------------- *)
Lemma read_values_ok h : q_badbody (e_req E) = false ->
  (c_api cfg = true -> q_meth (e_req E) <> GET) -> read_values E h = (Ok vals, h).
Proof.
  intros Bb Api. unfold read_values, values. rewrite Bb.
  destruct (c_api cfg); [|reflexivity].
  destruct (q_meth (e_req E)) eqn:Mt; try reflexivity. exfalso. apply Api; reflexivity.
Qed.

Definition loaded (h : hst) : hst := h <| h_ncalls := S (h_ncalls h) |> <| h_calls := KLoad :: h_calls h |>.

Lemma login_post_unfold h : q_badbody (e_req E) = false ->
  (c_api cfg = true -> q_meth (e_req E) <> GET) ->
  login_post E h =
  match ulookup pid (s_users (h_st h)) with
  | None => (log [pid] ;;; respond E (bs "login") d_err) (loaded h)
  | Some u =>
      (set_cuser u ;;;
       if negb (pwcheck (e_C E) (u_password u) (aget f_password vals)) then
         handled <- fire E EvAfterAuthFail false ;;
         if handled then ret tt else log [pid] ;;; respond E (bs "login") d_err
       else
         handled <- fire E EvBeforeAuth (beqb (aget k_rm vals) v_true) ;;
         if handled then ret tt else
         handled <- fire E EvBeforeHijack (beqb (aget k_rm vals) v_true) ;;
         if handled then ret tt else
         log [pid] ;;;
         put_session k_uid pid ;;; del_session k_halfauth ;;;
         handled <- fire E EvAfterAuth (beqb (aget k_rm vals) v_true) ;;
         if handled then ret tt else
         redirect E (ro_follow_redir (p_login_ok_of (e_cfg E)))) (loaded h)
  end.
Proof.
  intros Bb Api. unfold login_post. unfold bind at 1. rewrite (read_values_ok h Bb Api).
  unfold try. rewrite (st_load_nofault E nofaults). fold (loaded h).
  destruct (ulookup pid (s_users (h_st h))); reflexivity.
Qed.

Definition login_fail_view (h : hst) : option written * list csevent * list csevent :=
  (Some (mkWritten (RespPage 200 (bs "login") d_err) (h_sev h) (h_cev h)), h_sev h, h_cev h).

Lemma login_fail_answer h r h' : h_out h = None ->
  (log [pid] ;;; respond E (bs "login") d_err) h = (r, h') -> r = Ok tt /\ view h' = login_fail_view h.
Proof.
  intros Ho Eq. unfold bind at 1 in Eq. unfold log at 1, modify at 1 in Eq.
  match type of Eq with respond E _ _ ?hh = _ =>
    assert (Oh : h_out hh = None) by (simpl; exact Ho);
    destruct (respond_nofault E nofaults (bs "login") d_err hh Oh) as (hx & Ex & Wx) end.
  rewrite Ex in Eq. inversion Eq; subst. split; [reflexivity|]. rewrite Wx. reflexivity.
Qed.

(* (c) unknown identifier vs known identifier with a wrong password *)
Theorem login_unknown_vs_wrong_view_lemma ha hb ra ha' rb hb' u :
  login_post E ha = (ra, ha') -> login_post E hb = (rb, hb') ->
  h_out ha = None ->
  q_badbody (e_req E) = false -> (c_api cfg = true -> q_meth (e_req E) <> GET) ->
  NoDup (c_mods cfg) ->
  ulookup pid (s_users (h_st ha)) = None ->
  ulookup pid (s_users (h_st hb)) = Some u ->
  pwcheck (e_C E) (u_password u) (aget f_password vals) = false ->
  (has_mod cfg MLock = true -> is_locked E (lock_apply E u (LFail now)) = false) ->
  view ha = view hb ->
  ra = Ok tt /\ rb = Ok tt /\ view ha' = view hb'.
Proof.
  intros Ea Eb Ho Bb Api ND La Lb Pw NL V.
  assert (Vs : h_out hb = None /\ h_sev ha = h_sev hb /\ h_cev ha = h_cev hb).
  { unfold view in V. inversion V. repeat split; congruence. }
  destruct Vs as (Hob & Vs & Vc).
  rewrite (login_post_unfold _ Bb Api), La in Ea. rewrite (login_post_unfold _ Bb Api), Lb in Eb.
  destruct (login_fail_answer (loaded ha) _ _ Ho Ea) as (-> & Va).
  rewrite Pw in Eb. cbn [negb] in Eb.
  unfold bind at 1 in Eb. unfold set_cuser at 1, modify at 1 in Eb.
  set (h1 := loaded hb <| h_cuser := Some u |>) in *.
  assert (T : forall h2, view h2 = view h1 ->
              (log [pid] ;;; respond E (bs "login") d_err) h2 = (rb, hb') -> rb = Ok tt /\ view ha' = view hb').
  { intros h2 V2 Eq. destruct (view_inv _ _ V2) as (W1 & W2 & W3). simpl in W1, W2, W3.
    assert (Ho2 : h_out h2 = None) by congruence.
    destruct (login_fail_answer h2 _ _ Ho2 Eq) as (-> & Vb). split; [reflexivity|].
    rewrite Va, Vb. unfold login_fail_view. simpl. rewrite W2, W3, Vs, Vc. reflexivity. }
  unfold fire in Eb.
  destruct (hooks_after_fail_cases ND) as [(Hk & HM)|(Hk & HM)]; rewrite Hk in Eb.
  - cbn [call] in Eb. unfold bind at 1 in Eb. unfold ret at 1 in Eb.
    destruct (T h1 eq_refl Eb) as (-> & Vb). auto.
  - cbn [call] in Eb.
    apply bind_inv in Eb as [(hd & h2 & E1 & E2)|[(e & E1 & ->)|(E1 & ->)]].
    + apply bind_inv in E1 as [(i & h3 & F1 & F2)|[(e & F1 & Hr)|(F1 & Hr)]]; cbn [run_hook] in F1;
        destruct (update_locked_nofault false h1 u _ _ eq_refl Hob F1) as (_ & (R & V3) & _); try (apply NL; exact HM);
        try discriminate R.
      inversion R; subst i. inversion F2; subst hd h3. cbn [orb] in E2.
      destruct (T h2 V3 E2) as (-> & Vb). auto.
    + exfalso. apply bind_inv in E1 as [(i & h3 & F1 & F2)|[(e' & F1 & Hr)|(F1 & Hr)]]; cbn [run_hook] in F1;
        try (inversion F2; fail);
        destruct (update_locked_nofault false h1 u _ _ eq_refl Hob F1) as (_ & (R & V3) & _); try (apply NL; exact HM);
        discriminate R.
    + exfalso. apply bind_inv in E1 as [(i & h3 & F1 & F2)|[(e' & F1 & Hr)|(F1 & Hr)]]; cbn [run_hook] in F1;
        try (inversion F2; fail);
        destruct (update_locked_nofault false h1 u _ _ eq_refl Hob F1) as (_ & (R & V3) & _); try (apply NL; exact HM);
        discriminate R.
Qed.

(* (a) locked account, correct password: the lock redirect *)
Theorem login_locked_view_correct h r h' u :
  login_post E h = (r, h') -> h_out h = None ->
  q_badbody (e_req E) = false -> (c_api cfg = true -> q_meth (e_req E) <> GET) ->
  NoDup (c_mods cfg) -> has_mod cfg MLock = true ->
  ulookup pid (s_users (h_st h)) = Some u -> u_confirmed u = true -> now < u_locked u ->
  pwcheck (e_C E) (u_password u) (aget f_password vals) = true ->
  r = Ok tt /\ view h' = lock_view h.
Proof.
  intros Eq Ho Bb Api ND HM Lu Cf Lk Pw.
  rewrite (login_post_unfold _ Bb Api), Lu in Eq. rewrite Pw in Eq. cbn [negb] in Eq.
  unfold bind at 1 in Eq. unfold set_cuser at 1, modify at 1 in Eq.
  set (h1 := loaded h <| h_cuser := Some u |>) in *.
  destruct (hooks_before_auth_split ND HM) as (cs1 & cs2 & Hk & F1 & F2).
  unfold fire at 1 in Eq. rewrite Hk in Eq.
  apply bind_inv in Eq as [(hd & h2 & E1 & E2)|[(e & E1 & ->)|(E1 & ->)]];
    destruct (call_lock_chain _ F1 _ F2 _ h1 u _ _ eq_refl Cf Ho Lk E1) as (R & V); try discriminate R.
  inversion R; subst hd. inversion E2; subst. split; [reflexivity|exact V].
Qed.

(* (a) locked account, wrong password: the same lock redirect *)
Theorem login_locked_view_wrong h r h' u :
  login_post E h = (r, h') -> h_out h = None ->
  q_badbody (e_req E) = false -> (c_api cfg = true -> q_meth (e_req E) <> GET) ->
  NoDup (c_mods cfg) -> has_mod cfg MLock = true -> 0 < c_lock_duration cfg ->
  ulookup pid (s_users (h_st h)) = Some u -> now < u_locked u ->
  pwcheck (e_C E) (u_password u) (aget f_password vals) = false ->
  r = Ok tt /\ view h' = lock_view h.
Proof.
  intros Eq Ho Bb Api ND HM Hd Lu Lk Pw.
  rewrite (login_post_unfold _ Bb Api), Lu in Eq. rewrite Pw in Eq. cbn [negb] in Eq.
  unfold bind at 1 in Eq. unfold set_cuser at 1, modify at 1 in Eq.
  set (h1 := loaded h <| h_cuser := Some u |>) in *.
  destruct (hooks_after_fail_cases ND) as [(Hk & HM')|(Hk & _)]; [congruence|].
  unfold fire at 1 in Eq. rewrite Hk in Eq. cbn [call] in Eq.
  pose proof (fail_keeps_locked u Hd Lk) as IL.
  apply bind_inv in Eq as [(hd & h2 & E1 & E2)|[(e & E1 & ->)|(E1 & ->)]].
  - apply bind_inv in E1 as [(i & h3 & G1 & G2)|[(e & G1 & Hr)|(G1 & Hr)]]; cbn [run_hook] in G1;
      destruct (update_locked_nofault false h1 u _ _ eq_refl Ho G1) as (_ & _ & L); destruct (L IL) as (R & V);
      try discriminate R.
    inversion R; subst i. inversion G2; subst hd h3. cbn [orb] in E2. inversion E2; subst.
    split; [reflexivity|exact V].
  - exfalso. apply bind_inv in E1 as [(i & h3 & G1 & G2)|[(e' & G1 & Hr)|(G1 & Hr)]]; cbn [run_hook] in G1;
      try (inversion G2; fail);
      destruct (update_locked_nofault false h1 u _ _ eq_refl Ho G1) as (_ & _ & L); destruct (L IL) as (R & V);
      discriminate R.
  - exfalso. apply bind_inv in E1 as [(i & h3 & G1 & G2)|[(e' & G1 & Hr)|(G1 & Hr)]]; cbn [run_hook] in G1;
      try (inversion G2; fail);
      destruct (update_locked_nofault false h1 u _ _ eq_refl Ho G1) as (_ & _ & L); destruct (L IL) as (R & V);
      discriminate R.
Qed.
End SV2.
