(* Event classes of every route handler, proved by the syntax-directed prover of EvLogic:
   - [neutral]: never touches the session's "uid" (all non-login handlers, every middleware
     refusal, every 2FA-settings / OTP-management / recover-start / confirm / OAuth2-start route);
   - [nodrop]: may set "uid" but never deletes it nor wipes the session (all login paths);
   logout and the expire middleware are the only places that delete it. *)
From AB Require Import World.Handlers Proofs.EvLogic Proofs.Neutral.
Open Scope Z_scope.

Definition sess_nodrop (e : csevent) : Prop :=
  match e with Put _ _ => True | Del k => k <> k_uid | DelAll _ => False end.

Lemma neutral_nodrop_ev e : sess_neutral e -> sess_nodrop e.
Proof. destruct e; simpl; auto. Qed.

Lemma evs_weaken (phi phi' psi psi' : csevent -> Prop) {A} (m : M A) :
  (forall e, phi e -> phi' e) -> (forall e, psi e -> psi' e) -> evs_all phi psi m -> evs_all phi' psi' m.
Proof.
  intros H1 H2 Hm h r h' E. destruct (Hm _ _ _ E) as [(ls & lc & S & Cc & F & G) P]. split; auto.
  exists ls, lc. repeat split; auto; eapply Forall_impl; eauto.
Qed.

Section HE.
Variable E : env.
Notation neutral := (evs_all sess_neutral any_ev).
Notation nodrop := (evs_all sess_nodrop any_ev).

Ltac hooks :=
  match goal with
  | |- evs_all sess_neutral any_ev (fire _ _ _) => apply neutral_fire
  | |- evs_all sess_nodrop any_ev (fire _ _ _) =>
      eapply evs_weaken; [apply neutral_nodrop_ev | intros ? Hx; exact Hx | apply neutral_fire]
  end.
Ltac go := repeat (unfold_derived; cbn beta iota; first [hooks | evs_step]); try side.

(* ---- handlers that never touch the identity ------------------------------------- *)
Lemma neutral_login_get : neutral (login_get E). Proof. unfold login_get. go. Qed.
Lemma neutral_otp_login_get : neutral (otp_login_get E). Proof. unfold otp_login_get. go. Qed.
Lemma neutral_otp_add_post : neutral (otp_add_post E). Proof. unfold otp_add_post. go. Qed.
Lemma neutral_otp_clear_post : neutral (otp_clear_post E). Proof. unfold otp_clear_post. go. Qed.
Lemma neutral_otp_show p : neutral (otp_show E p). Proof. unfold otp_show. go. Qed.
Lemma neutral_confirm_get : neutral (confirm_get E). Proof. unfold confirm_get, invalid_confirm_token. go. Qed.
Lemma neutral_recover_start_post : neutral (recover_start_post E). Proof. unfold recover_start_post. go. Qed.
Lemma neutral_recover_end_get : neutral (recover_end_get E). Proof. unfold recover_end_get. go. Qed.
Lemma neutral_recovery_regen_get : neutral (recovery_regen_get E). Proof. unfold recovery_regen_get. go. Qed.
Lemma neutral_recovery_regen_post : neutral (recovery_regen_post E). Proof. unfold recovery_regen_post. go. Qed.
Lemma neutral_email_verify_get k : neutral (email_verify_get E k). Proof. unfold email_verify_get. go. Qed.
Lemma neutral_email_verify_post k : neutral (email_verify_post E k). Proof. unfold email_verify_post. go. Qed.
Lemma neutral_email_verify_end k : neutral (email_verify_end E k). Proof. unfold email_verify_end. go. Qed.
Lemma neutral_email_verify_wrap k : neutral (email_verify_wrap E k). Proof. unfold email_verify_wrap. go. Qed.
Lemma neutral_totp_setup_get : neutral (totp_setup_get E). Proof. unfold totp_setup_get. go. Qed.
Lemma neutral_totp_setup_post : neutral (totp_setup_post E). Proof. unfold totp_setup_post. go. Qed.
Lemma neutral_totp_confirm_get : neutral (totp_confirm_get E). Proof. unfold totp_confirm_get. go. Qed.
Lemma neutral_totp_confirm_post : neutral (totp_confirm_post E). Proof. unfold totp_confirm_post. go. Qed.
Lemma neutral_totp_validate : neutral (totp_validate E). Proof. unfold totp_validate. go. Qed.
Lemma neutral_totp_remove_post : neutral (totp_remove_post E).
Proof. unfold totp_remove_post. apply evs_bind; [apply neutral_totp_validate|intros]. go. Qed.
Lemma neutral_sms_setup_get : neutral (sms_setup_get E). Proof. unfold sms_setup_get. go. Qed.
Lemma neutral_sms_setup_post : neutral (sms_setup_post E). Proof. unfold sms_setup_post. go. Qed.
Lemma neutral_sms_send_code p u : neutral (sms_send_code E p u). Proof. unfold sms_send_code. go. Qed.
Lemma neutral_oauth2_start p : neutral (oauth2_start E p). Proof. unfold oauth2_start. go. Qed.
Lemma neutral_mw_fail mp fr : neutral (mw_fail E mp fr). Proof. unfold mw_fail. go. Qed.
Lemma neutral_auth_middleware mp full tf fr : neutral (auth_middleware E mp full tf fr).
Proof. unfold auth_middleware, mw_fail. go. Qed.
Lemma neutral_lock_mw : neutral (lock_mw E). Proof. unfold lock_mw. go. Qed.
Lemma neutral_confirm_mw : neutral (confirm_mw E). Proof. unfold confirm_mw. go. Qed.
Lemma neutral_app_handler : neutral (app_handler E). Proof. unfold app_handler. go. Qed.

(* sms validate on the confirm / remove pages (settings, not login) *)
Lemma neutral_sms_validate_code_settings p u sh inp rc :
  p <> SPValidate -> neutral (sms_validate_code E p u sh inp rc).
Proof. intros Hp. unfold sms_validate_code. destruct p; try congruence; go. Qed.
Lemma neutral_sms_validator_post_settings p : p <> SPValidate -> neutral (sms_validator_post E p).
Proof.
  intros Hp. unfold sms_validator_post.
  repeat (unfold_derived; cbn beta iota;
          first [ apply neutral_sms_send_code | apply neutral_sms_validate_code_settings; assumption | evs_step ]); try side.
Qed.

(* ---- login paths: may set the identity, never delete it ----------------------------- *)
Lemma nodrop_login_post : nodrop (login_post E). Proof. unfold login_post. go. Qed.
Lemma nodrop_otp_login_post : nodrop (otp_login_post E). Proof. unfold otp_login_post. go. Qed.
Lemma nodrop_register_post : nodrop (register_post E). Proof. unfold register_post. go. Qed.
Lemma nodrop_recover_end_post : nodrop (recover_end_post E). Proof. unfold recover_end_post, invalid_recover_token. go. Qed.
Lemma nodrop_oauth2_end p : nodrop (oauth2_end E p). Proof. unfold oauth2_end. go. Qed.
Lemma nodrop_totp_validate_post : nodrop (totp_validate_post E).
Proof.
  unfold totp_validate_post.
  apply evs_bind; [eapply evs_weaken; [apply neutral_nodrop_ev|intros ? Hx; exact Hx|apply neutral_totp_validate]|intros].
  go.
Qed.
Lemma nodrop_sms_validate_code p u sh inp rc : nodrop (sms_validate_code E p u sh inp rc).
Proof. unfold sms_validate_code. go. Qed.
Lemma nodrop_sms_validator_post p : nodrop (sms_validator_post E p).
Proof.
  unfold sms_validator_post.
  repeat (unfold_derived; cbn beta iota;
          first [ eapply evs_weaken; [apply neutral_nodrop_ev|intros ? Hx; exact Hx|apply neutral_sms_send_code]
                | apply nodrop_sms_validate_code | evs_step ]); try side.
Qed.
Lemma nodrop_remember_authenticate : nodrop (remember_authenticate E). Proof. unfold remember_authenticate. go. Qed.
Lemma nodrop_remember_mw : nodrop (remember_mw E).
Proof. unfold remember_mw. repeat (unfold_derived; cbn beta iota; first [apply nodrop_remember_authenticate | evs_step]); try side. Qed.
End HE.
