(* C15 — the open-redirect guard against the browser's reading of a Location value. *)
From AB Require Import Model.Redirect Spec.Browser.
From Coq Require Import List NArith Bool Lia.
Import ListNotations.

(* what has to hold of the text after the leading '/': it is empty, or its first byte is
   neither a slash/backslash nor one of the bytes the browser deletes (TAB/LF/CR) *)
Definition okb (r : bytes) : bool :=
  match r with [] => true | b :: _ => negb (is_slash b) && negb (tab_or_nl b) end.

Definition P (c : byte) : Prop := ctl_or_bsl c = false.
Definition Q (c : byte) : Prop := Byte.eqb c sl = false /\ ctl_or_bsl c = false.
Definition G (e : bytes) : Prop := bempty e = false /\ Forall Q e.

(* ---------- byte-level facts (256 cases each) ---------- *)

Lemma byte_ctl_tab (c : byte) : ctl_or_bsl c = false -> tab_or_nl c = false.
Proof. destruct c; vm_compute; intros H; first [reflexivity | discriminate H]. Qed.

Lemma byte_ctl_bsl (c : byte) : ctl_or_bsl c = false -> Byte.eqb c bsl = false.
Proof. destruct c; vm_compute; intros H; first [reflexivity | discriminate H]. Qed.

Lemma byte_Q_ok (c : byte) : Q c -> negb (is_slash c) && negb (tab_or_nl c) = true.
Proof.
  intros [H1 H2]. unfold is_slash.
  rewrite H1, (byte_ctl_bsl c H2), (byte_ctl_tab c H2). reflexivity.
Qed.

(* ---------- drop_while / strip_ends ---------- *)

Lemma drop_while_snoc (f : byte -> bool) (l : bytes) (a : byte) :
  f a = false -> drop_while f (l ++ [a]) = drop_while f l ++ [a].
Proof.
  intros Hf. induction l as [|c l IH]; simpl.
  - rewrite Hf. reflexivity.
  - destruct (f c); [exact IH | reflexivity].
Qed.

Lemma drop_while_suffix (f : byte -> bool) (l : bytes) : exists p, l = p ++ drop_while f l.
Proof.
  induction l as [|c l [p IH]]; simpl.
  - exists []. reflexivity.
  - destruct (f c).
    + exists (c :: p). simpl. f_equal. exact IH.
    + exists []. reflexivity.
Qed.

Lemma strip_ends_rooted (r : bytes) :
  exists r' z, r = r' ++ z /\ strip_ends (sl :: r) = sl :: r'.
Proof.
  assert (Hs : c0_or_space sl = false) by reflexivity.
  unfold strip_ends.
  change (drop_while c0_or_space (sl :: r)) with (sl :: r).
  change (rev (sl :: r)) with (rev r ++ [sl]).
  rewrite (drop_while_snoc c0_or_space (rev r) sl Hs). rewrite rev_app_distr. simpl.
  destruct (drop_while_suffix c0_or_space (rev r)) as [p Hp].
  exists (rev (drop_while c0_or_space (rev r))), (rev p). split; [|reflexivity].
  rewrite <- rev_app_distr, <- Hp, rev_involutive. reflexivity.
Qed.

Lemma filter_cons_t (f : byte -> bool) (a : byte) (l : bytes) :
  f a = true -> filter f (a :: l) = a :: filter f l.
Proof. intros H. simpl. rewrite H. reflexivity. Qed.

Lemma has_scheme_rooted (x : bytes) : has_scheme (sl :: x) = false.
Proof. reflexivity. Qed.

(* (1) a rooted value whose second byte is harmless stays on the site *)
Lemma same_site_rooted (r : bytes) : okb r = true -> same_site (sl :: r) = true.
Proof.
  intros Hok. destruct (strip_ends_rooted r) as [r' [z [Hr Hs]]].
  unfold same_site, browser_class, preprocess. rewrite Hs.
  rewrite filter_cons_t by reflexivity.
  rewrite has_scheme_rooted.
  destruct r' as [|b r''].
  - reflexivity.
  - subst r. simpl in Hok. apply andb_true_iff in Hok as [Hsl Htab].
    rewrite filter_cons_t by exact Htab.
    apply negb_true_iff in Hsl. rewrite Hsl, andb_false_r. reflexivity.
Qed.

(* (2) escaping non-ASCII keeps the shape *)
Lemma hex_rooted (r : bytes) : hex_escape_non_ascii (sl :: r) = sl :: hex_escape_non_ascii r.
Proof. reflexivity. Qed.

Lemma okb_hex (r : bytes) : okb r = true -> okb (hex_escape_non_ascii r) = true.
Proof.
  intros H. destruct r as [|c r0]; [reflexivity|].
  cbn [hex_escape_non_ascii]. cbv zeta.
  destruct (N.leb 128 (Byte.to_N c)); [reflexivity | exact H].
Qed.

Lemma same_site_hex_rooted (r : bytes) :
  okb r = true -> same_site (hex_escape_non_ascii (sl :: r)) = true.
Proof.
  intros H. rewrite hex_rooted. apply same_site_rooted. apply okb_hex. exact H.
Qed.

(* ---------- (3) path cleaning ---------- *)

Lemma existsb_false_Forall (s : bytes) : existsb ctl_or_bsl s = false -> Forall P s.
Proof.
  induction s as [|c s IH]; simpl; intros H.
  - constructor.
  - apply orb_false_iff in H as [H1 H2]. constructor; [exact H1 | exact (IH H2)].
Qed.

Lemma bsplit_elems (p : bytes) : Forall P p -> Forall (Forall Q) (bsplit sl p).
Proof.
  induction p as [|c p IH]; intros HP; simpl.
  - constructor; constructor.
  - inversion HP as [|c' p' Hc Hp]; subst.
    specialize (IH Hp).
    destruct (Byte.eqb c sl) eqn:Ec.
    + constructor; [constructor | exact IH].
    + destruct (bsplit sl p) as [|h t] eqn:Eb.
      * constructor; [|constructor]. constructor; [|constructor]. split; [exact Ec | exact Hc].
      * inversion IH as [|h' t' Hh Ht]; subst.
        constructor; [|exact Ht]. constructor; [|exact Hh]. split; [exact Ec | exact Hc].
Qed.

Lemma clean_elems_inv (els acc : list bytes) :
  Forall (Forall Q) els -> Forall G acc -> Forall G (clean_elems els acc).
Proof.
  revert acc. induction els as [|e els IH]; intros acc Hels Hacc; simpl.
  - apply Forall_rev. exact Hacc.
  - inversion Hels as [|e' els' He Hr]; subst.
    destruct (bempty e || beqb e dot) eqn:E1.
    + apply IH; assumption.
    + destruct (beqb e dotdot) eqn:E2.
      * apply IH; [exact Hr|]. destruct acc as [|a acc']; simpl; [constructor|].
        inversion Hacc as [|a' acc'' Ha Hacc']; subst. exact Hacc'.
      * apply IH; [exact Hr|]. constructor; [|exact Hacc].
        apply orb_false_iff in E1 as [E1a E1b]. split; [exact E1a | exact He].
Qed.

Lemma okb_bjoin (x : bytes) (t : list bytes) (rest : bytes) :
  G x -> okb (bjoin sl (x :: t) ++ rest) = true.
Proof.
  intros [Hne HQ]. destruct x as [|c x']; [discriminate Hne|].
  inversion HQ as [|c' x'' Hc Hx]; subst.
  destruct t as [|y t']; simpl; apply byte_Q_ok; exact Hc.
Qed.

Lemma split_q_rooted (r : bytes) :
  split_at_q (sl :: r) = (sl :: fst (split_at_q r), snd (split_at_q r)).
Proof.
  cbn [split_at_q]. change (Byte.eqb sl "?"%byte) with false. cbv iota.
  destruct (split_at_q r) as [a b]. reflexivity.
Qed.

Lemma split_q_spec (s : bytes) :
  Forall P s -> Forall P (fst (split_at_q s)) /\ okb (snd (split_at_q s)) = true.
Proof.
  induction s as [|c s IH]; intros HP.
  - simpl. split; [constructor | reflexivity].
  - inversion HP as [|c' s' Hc Hs]; subst. specialize (IH Hs). destruct IH as [IH1 IH2].
    cbn [split_at_q]. destruct (Byte.eqb c "?"%byte) eqn:Ec.
    + simpl. split; [constructor|].
      apply Byte.byte_dec_bl in Ec. subst c. reflexivity.
    + destruct (split_at_q s) as [a b]. simpl in *. split; [|exact IH2].
      constructor; [exact Hc | exact IH1].
Qed.

Lemma rewrite_rooted (r : bytes) :
  Forall P r ->
  exists y, http_redirect_rewrite (sl :: r) = hex_escape_non_ascii (sl :: y) /\ okb y = true.
Proof.
  intros HP. unfold http_redirect_rewrite. rewrite split_q_rooted.
  destruct (split_q_spec r HP) as [Ha Hb].
  destruct (split_at_q r) as [a b]. simpl in Ha, Hb. cbn [fst snd].
  unfold path_clean_rooted.
  assert (HG : Forall G (clean_elems (bsplit sl (sl :: a)) [])).
  { apply clean_elems_inv; [|constructor]. apply bsplit_elems.
    constructor; [reflexivity | exact Ha]. }
  destruct (clean_elems (bsplit sl (sl :: a)) []) as [|x t].
  - change (ends_with_slash (sl :: bjoin sl [])) with true.
    rewrite andb_false_r. exists b. split; [reflexivity | exact Hb].
  - inversion HG as [|x' t' Hx Ht]; subst.
    destruct (ends_with_slash (sl :: a) && negb (ends_with_slash (sl :: bjoin sl (x :: t)))).
    + exists (bjoin sl (x :: t) ++ [sl] ++ b). split.
      * f_equal. simpl. rewrite <- app_assoc. reflexivity.
      * apply okb_bjoin. exact Hx.
    + exists (bjoin sl (x :: t) ++ b). split; [reflexivity|].
      apply okb_bjoin. exact Hx.
Qed.

(* ---------- decomposition of the guard ---------- *)

Lemma guard_shape (s : bytes) :
  is_local_redirect s = true ->
  exists r, s = sl :: r /\ okb r = true /\ Forall P r.
Proof.
  intros H. destruct s as [|c0 r]; [discriminate H|].
  unfold is_local_redirect in H.
  apply andb_true_iff in H as [H Hctl].
  apply andb_true_iff in H as [H Hsep].
  apply andb_true_iff in H as [H0 H1].
  apply Byte.byte_dec_bl in H0. subst c0.
  apply negb_true_iff in Hctl. apply existsb_false_Forall in Hctl.
  inversion Hctl as [|c' r' Hc Hr]; subst.
  exists r. split; [reflexivity|]. split; [|exact Hr].
  destruct r as [|c1 r1]; [reflexivity|].
  inversion Hr as [|c1' r1' Hc1 Hr1]; subst.
  simpl. unfold is_slash. rewrite H1. rewrite (byte_ctl_tab c1 Hc1). reflexivity.
Qed.

(* ---------- the statements used by Props/C15.v ---------- *)

Lemma c15_safe_lemma : forall s, is_local_redirect s = true ->
  same_site s = true /\ same_site (hex_escape_non_ascii s) = true /\ same_site (http_redirect_rewrite s) = true.
Proof.
  intros s H. destruct (guard_shape s H) as [r [Hs [Hok HP]]]. subst s.
  split; [apply same_site_rooted; exact Hok|].
  split; [apply same_site_hex_rooted; exact Hok|].
  destruct (rewrite_rooted r HP) as [y [Hy Hoky]].
  rewrite Hy. apply same_site_hex_rooted. exact Hoky.
Qed.

Lemma c15_target_lemma : forall redir default follow,
  redirect_target redir default follow = default \/
  (redirect_target redir default follow = redir /\ is_local_redirect redir = true /\ follow = true).
Proof.
  intros redir default follow. unfold redirect_target.
  destruct (is_local_redirect redir) eqn:E.
  - destruct redir as [|c r]; [discriminate E|].
    destruct follow; simpl; [right; auto | left; reflexivity].
  - simpl. left. reflexivity.
Qed.

Lemma c15_target_safe_lemma : forall redir default follow,
  same_site default = true -> same_site (http_redirect_rewrite default) = true ->
  same_site (redirect_target redir default follow) = true /\
  same_site (http_redirect_rewrite (redirect_target redir default follow)) = true.
Proof.
  intros redir default follow Hd Hdr.
  destruct (c15_target_lemma redir default follow) as [E | [E [Hl Hf]]]; rewrite E.
  - split; assumption.
  - destruct (c15_safe_lemma redir Hl) as [H1 [H2 H3]]. split; assumption.
Qed.

Lemma c15_old_guard_refuted_lemma : exists s, guard_substring s = true /\ same_site s = false.
Proof.
  exists (list_byte_of_string "//evil.test"%string). split; vm_compute; reflexivity.
Qed.
