(* C16 (b) on the model: what the client can observe of a recover-start request (the response
   and the client-state changes flushed with it) does not depend on whether the named account
   exists — stated by running the SAME request from two storages, one holding the account and
   one not, with no backend faults. *)
From AB Require Import World.Handlers Proofs.EvLogic Proofs.Neutral Proofs.MonadInv Proofs.StoreLogic.
Open Scope Z_scope.

Section SV.
Variable E : env.
Hypothesis nofaults : o_faults (e_O E) = [].

Lemma backend_nofault {A} k (body : M A) h :
  backend (e_O E) k body h = body (h <| h_ncalls := S (h_ncalls h) |> <| h_calls := k :: h_calls h |>).
Proof. unfold backend. rewrite nofaults. reflexivity. Qed.

(* the client-visible part of a handler state *)
Definition view (h : hst) : option written * list csevent * list csevent := (h_out h, h_sev h, h_cev h).

(* the events a redirect adds in form mode *)
Definition flash_of (ro : redirect_opts) : list csevent :=
  if c_api (e_cfg E) then []
  else (if ro_success ro then [Put k_flash_ok v_flash] else []) ++ (if ro_failure ro then [Put k_flash_err v_flash] else []).
Definition resp_of (ro : redirect_opts) : response :=
  let t := redirect_target (form_value E f_redir) (ro_path ro) (ro_follow ro) in
  if c_api (e_cfg E) then RespRedirectAPI 307 t (ro_failure ro) else RespRedirect302 t.

(* redirect with no faults, before anything was written: succeeds, and its visible effect is
   a function of the view alone *)
Lemma redirect_nofault ro h : h_out h = None ->
  exists h', redirect E ro h = (Ok tt, h') /\
    view h' = (Some (mkWritten (resp_of ro) (h_sev h ++ flash_of ro) (h_cev h)), h_sev h ++ flash_of ro, h_cev h).
Proof.
  intros Ho. unfold redirect, render, flash_of, resp_of. destruct (c_api (e_cfg E)).
  - unfold bind. rewrite backend_nofault. unfold ret, write_resp, modify, view. simpl. rewrite Ho.
    eexists; split; [reflexivity|]. simpl. rewrite !app_nil_r. reflexivity.
  - destruct (ro_success ro), (ro_failure ro); unfold bind, put_session, ret, write_resp, modify, view; simpl; rewrite Ho;
      eexists; split; try reflexivity; simpl; rewrite ?app_nil_r, <- ?app_assoc; reflexivity.
Qed.

Lemma respond_nofault page data h : h_out h = None ->
  exists h', respond E page data h = (Ok tt, h') /\
    view h' = (Some (mkWritten (RespPage 200 page data) (h_sev h) (h_cev h)), h_sev h, h_cev h).
Proof.
  intros Ho. unfold respond, render, bind. rewrite backend_nofault. unfold ret, write_resp, modify, view. simpl. rewrite Ho.
  eexists; split; reflexivity.
Qed.

Definition ok_view (h : hst) : option written * list csevent * list csevent :=
  (Some (mkWritten (resp_of (ro_ok (p_recover_ok_of (e_cfg E)))) (h_sev h ++ flash_of (ro_ok (p_recover_ok_of (e_cfg E)))) (h_cev h)),
   h_sev h ++ flash_of (ro_ok (p_recover_ok_of (e_cfg E))), h_cev h).

Lemma st_load_nofault pid h :
  st_load (e_O E) pid h =
  (match ulookup pid (s_users (h_st h)) with Some u => Ok u | None => Err ErrUserNotFound end,
   h <| h_ncalls := S (h_ncalls h) |> <| h_calls := KLoad :: h_calls h |>).
Proof. unfold st_load. rewrite backend_nofault. simpl. destruct (ulookup pid (s_users (h_st h))); reflexivity. Qed.

(* with a syntactically valid identifier and no backend fault, recover start answers with the
   same redirect whether or not the account exists *)
Theorem recover_start_view_lemma h r h' :
  recover_start_post E h = (r, h') -> h_out h = None ->
  valid [pid_rule E] [] (values E) = true -> q_badbody (e_req E) = false ->
  (c_api (e_cfg E) = true -> q_meth (e_req E) <> GET) ->
  r = Ok tt /\ view h' = ok_view h.
Proof.
  intros Eq Ho Vd Bb Api. unfold recover_start_post in Eq.
  apply bind_inv in Eq as [(v & h1 & E1 & E2)|[(e & E1 & ->)|(E1 & ->)]].
  2,3: exfalso; unfold read_values in E1; rewrite Bb in E1;
       destruct (c_api (e_cfg E)) eqn:Ca; [destruct (q_meth (e_req E)) eqn:Mt; try (inversion E1; fail); apply (Api eq_refl); reflexivity|inversion E1].
  pose proof (read_values_spec _ _ _ _ E1) as [-> Hv].
  assert (v = values E).
  { unfold read_values in E1. rewrite Bb in E1. unfold values. destruct (c_api (e_cfg E)); [destruct (q_meth (e_req E))|]; inversion E1; reflexivity. }
  subst v. rewrite Vd in E2. cbn [negb] in E2.
  unfold try in E2. rewrite st_load_nofault in E2.
  destruct (ulookup (aget (pid_field E) (values E)) (s_users (h_st h))) as [u|] eqn:Lk.
  - (* known account *)
    set (h2 := h <| h_ncalls := S (h_ncalls h) |> <| h_calls := KLoad :: h_calls h |>) in *.
    apply bind_inv in E2 as [(a1 & k1 & F1 & E2)|[(e & F1 & ->)|(F1 & ->)]]; try (inversion F1; fail).
    inversion F1; subst a1 k1; clear F1.
    apply bind_inv in E2 as [(tk & k2 & F2 & E2)|[(e & F2 & ->)|(F2 & ->)]].
    2,3: exfalso; unfold generate_token in F2; apply bind_inv in F2 as [(rw & k3 & G1 & G2)|[(e' & G1 & G3)|(G1 & G3)]];
         try (inversion G2; fail); unfold fresh in G1;
         match type of G1 with context [take_chunk 64 ?l] => destruct (take_chunk 64 l) as [[cc tl0]|] end; inversion G1.
    assert (Qk : h_sev k2 = h_sev h /\ h_cev k2 = h_cev h /\ h_out k2 = None).
    { unfold generate_token in F2. apply bind_inv in F2 as [(rw & k3 & G1 & G2)|[(e' & G1 & G3)|(G1 & G3)]]; try discriminate G3.
      destruct (quiet_fresh 64 _ _ _ G1) as (Q1 & Q2 & Q3 & _). inversion G2; subst. simpl in *. rewrite Q1, Q2, Q3. auto. }
    destruct Qk as (Q1 & Q2 & Q3). destruct tk as [[sel ver] tok].
    apply bind_inv in E2 as [(a3 & k3 & F3 & E2)|[(e & F3 & ->)|(F3 & ->)]]; try (inversion F3; fail).
    inversion F3; subst a3 k3; clear F3.
    apply bind_inv in E2 as [(a4 & k4 & F4 & E2)|[(e & F4 & Hr)|(F4 & Hr)]].
    2,3: exfalso; unfold st_save in F4; rewrite backend_nofault in F4; inversion F4.
    unfold st_save in F4. rewrite backend_nofault in F4. inversion F4; subst a4 k4; clear F4.
    apply bind_inv in E2 as [(a5 & k5 & F5 & E2)|[(e & F5 & ->)|(F5 & ->)]]; try (inversion F5; fail).
    inversion F5; subst a5 k5; clear F5.
    apply bind_inv in E2 as [(a6 & k6 & F6 & E2)|[(e & F6 & ->)|(F6 & ->)]]; try (inversion F6; fail).
    inversion F6; subst a6 k6; clear F6.
    apply bind_inv in E2 as [(a7 & k7 & F7 & E2)|[(e & F7 & ->)|(F7 & ->)]]; try (inversion F7; fail).
    inversion F7; subst a7 k7; clear F7.
    match type of E2 with redirect E _ ?hh = _ =>
      assert (Oh : h_out hh = None) by (simpl; exact Q3);
      destruct (redirect_nofault (ro_ok (p_recover_ok_of (e_cfg E))) hh Oh) as (hx & Ex & Wx) end.
    rewrite Ex in E2. inversion E2; subst. split; [reflexivity|]. rewrite Wx. unfold ok_view. simpl. rewrite Q1, Q2. reflexivity.
  - (* unknown account *)
    apply bind_inv in E2 as [(a1 & k1 & F1 & E2)|[(e & F1 & ->)|(F1 & ->)]]; try (inversion F1; fail).
    inversion F1; subst a1 k1; clear F1.
    match type of E2 with redirect E _ ?hh = _ =>
      assert (Oh : h_out hh = None) by (simpl; exact Ho);
      destruct (redirect_nofault (ro_ok (p_recover_ok_of (e_cfg E))) hh Oh) as (hx & Ex & Wx) end.
    rewrite Ex in E2. inversion E2; subst. split; [reflexivity|]. rewrite Wx. reflexivity.
Qed.
End SV.
