(* The step-level statements of C01 and C15 over ALL actions and ALL routes.
   Part A (C01): whatever action is taken, a browser's stored session newly carries the user
   identity U only through one of the eight login paths, and then the credential condition of
   that path held for U (the per-route theorems of StepGuard.v assembled; every other route, every
   disabled module, every wrong method and every administrative action is shown to leave the
   identity alone; the two harness actions that write a jar directly are named in the conclusion).
   Part B (C15): a small logic of "which responses can a computation write", closed under the
   combinators of the handler monad, gives for every route the finite list of redirect targets. *)
From AB Require Import World.Step Proofs.EvLogic Proofs.Neutral Proofs.HandlerEvents Proofs.ServeEvents Proofs.StepUid
  Proofs.MonadInv Proofs.Guards Proofs.StoreLogic Proofs.Guards2 Proofs.Guards3 Proofs.LogoutProofs Proofs.StepGuard
  Proofs.RedirectProofs.
From AB Require Import Spec.Browser.
Open Scope Z_scope.

(* ================================================================================================ *)
(* Part A: C01                                                                                      *)
(* ================================================================================================ *)

Definition never (U : bytes) : Prop := False.

Lemma put_guard_not_put G e : (forall U, e <> Put k_uid U) -> put_guard G e.
Proof. intros N U HU. destruct (N U HU). Qed.

Ltac not_put_uid :=
  apply put_guard_not_put; let U := fresh "U" in let HU := fresh "HU" in let HK := fresh "HK" in
  intros U HU; first [discriminate HU | injection HU as HK _; vm_compute in HK; discriminate HK].

Lemma routed_evs_weaken (phi phi' psi psi' : csevent -> Prop) r :
  (forall e, phi e -> phi' e) -> (forall e, psi e -> psi' e) -> routed_evs phi psi r -> routed_evs phi' psi' r.
Proof. intros H1 H2. destruct r; simpl; auto. apply evs_weaken; assumption. Qed.

(* logout only deletes (and sets the success flash) *)
Lemma evs_put_logout G E : evs_all (put_guard G) any_ev (logout E).
Proof.
  unfold logout. repeat (unfold_derived; cbn beta iota; evs_step); try exact I; try not_put_uid.
Qed.

(* the application stack without the remember middleware *)
Lemma evs_put_app_stack_norm G E full tf fr l c e :
  evs_all (put_guard G) any_ev (app_stack E full tf fr l c false e).
Proof.
  unfold app_stack.
  apply evs_bind; [destruct e; [apply evs_put_expire_mw|apply evs_ret]|intros sess]. cbv zeta. cbn beta iota.
  apply evs_bind; [apply evs_ret|intros sess2].
  eapply evs_weaken; [apply (neutral_put G)|intros ? Hx; exact Hx|].
  apply evs_bind; [apply neutral_auth_middleware|intros ok]. destruct (negb ok); [apply evs_ret|].
  apply evs_bind; [destruct l; [apply neutral_lock_mw|apply evs_ret]|intros ok2]. destruct (negb ok2); [apply evs_ret|].
  apply evs_bind; [destruct c; [apply neutral_confirm_mw|apply evs_ret]|intros ok3]. destruct (negb ok3); [apply evs_ret|].
  apply neutral_app_handler.
Qed.

(* every route through which nobody can log in: no event of the request writes a user identity *)
Lemma nologin_routes G E :
  can_login (e_req E) = false -> routed_evs (put_guard G) any_ev (route_table E).
Proof.
  intros HL. destruct (may_drop (e_req E)) eqn:HD.
  2:{ eapply routed_evs_weaken; [apply (neutral_put G)|intros ? Hx; exact Hx|apply neutral_routes; assumption]. }
  unfold route_table, can_login, may_drop in *.
  destruct (q_route (e_req E)) as [| | | | | | | |pv|pv| | | | | | | | | | |k|k| |full tf fr lk cf remembermw expiremw|] eqn:R;
    try discriminate HD.
  - (* logout *)
    destruct (q_meth (e_req E)) eqn:Mt; try exact I;
      unfold when, on_method; destruct (has_mod (e_cfg E) MLogout); try exact I;
      destruct (meth_eqb _ _); try exact I; cbn [routed_evs]; apply evs_put_logout.
  - destruct remembermw; [discriminate HL|]. cbn [routed_evs]. apply evs_put_app_stack_norm.
Qed.

Section A.
Variable C : crypto.
Variable cfg : config.

Notation ENV w O req := (mkEnv C cfg O req (jar_get (q_browser req) (w_cook w)) (jar_get (q_browser req) (w_sess w))).

(* a request all of whose events avoid [Put uid _] cannot put a new identity into the jar *)
Lemma step_no_put w req O U :
  routed_evs (put_guard never) any_ev (route_table (ENV w O req)) ->
  alookup k_uid (jar_get (q_browser req) (w_sess (fst (step C cfg w (AReq req) O)))) = Some U ->
  alookup k_uid (jar_get (q_browser req) (w_sess w)) <> Some U -> False.
Proof.
  intros HR H1 H0.
  assert (Hs : evs_all (put_guard never) any_ev (serve (ENV w O req))) by (apply serve_evs; exact HR).
  exact (step_put_guard C cfg never (put_guard never) any_ev w req O U Hs (gen_guarded_of_evs _ any_ev _ _ Hs) H1 H0).
Qed.

Lemma step_nologin w req O U :
  can_login req = false ->
  alookup k_uid (jar_get (q_browser req) (w_sess (fst (step C cfg w (AReq req) O)))) = Some U ->
  alookup k_uid (jar_get (q_browser req) (w_sess w)) <> Some U -> False.
Proof. intros HL. apply step_no_put. apply nologin_routes. exact HL. Qed.

Lemma step_not_handler w req O U :
  (forall hd, route_table (ENV w O req) <> Handler hd) ->
  alookup k_uid (jar_get (q_browser req) (w_sess (fst (step C cfg w (AReq req) O)))) = Some U ->
  alookup k_uid (jar_get (q_browser req) (w_sess w)) <> Some U -> False.
Proof.
  intros NH. apply step_no_put. destruct (route_table _) as [hd| |]; [destruct (NH hd eq_refl)|exact I|exact I].
Qed.

(* the credential condition of the route the request went through, on the request, the jars and
   the storage the request started from *)
Definition credential_shown (w : world) (O : oracle) (req : request) (U : bytes) : Prop :=
  let E := ENV w O req in
  (q_route req = RLogin /\ q_meth req = POST /\ has_mod cfg MAuth = true /\ g_login E (w_st w) U) \/
  (q_route req = ROtpLogin /\ q_meth req = POST /\ has_mod cfg MOtp = true /\ g_otp E (w_st w) U) \/
  (q_route req = RRegister /\ q_meth req = POST /\ has_mod cfg MRegister = true /\ Guards2.g_register E (w_st w) U) \/
  (q_route req = RRecoverEnd /\ q_meth req = POST /\ has_mod cfg MRecover = true /\ g_recover E (w_st w) U) \/
  (exists prov, q_route req = ROAuthCallback prov /\ q_meth req = GET /\ has_mod cfg MOAuth2 = true /\
                bmem prov (c_providers cfg) = true /\ g_oauth2 E prov (w_st w) U) \/
  (q_route req = RTotpValidate /\ q_meth req = POST /\ c_totp cfg = true /\ g_totp E (init_hst (w_st w) O) U) \/
  (q_route req = RSmsValidate /\ q_meth req = POST /\ c_sms cfg = true /\ g_sms E (init_hst (w_st w) O) U) \/
  (exists full tf fr l c e, q_route req = RApp full tf fr l c true e /\ g_remember E (w_st w) U).

Ltac notfound R M :=
  exfalso; eapply step_not_handler; [|eassumption|eassumption];
  let hd := fresh in let HH := fresh in
  intros hd HH; unfold route_table in HH; cbn [e_req e_cfg] in HH; rewrite R, M in HH;
  unfold when, get_post, on_method in HH; cbn [e_req e_cfg] in HH;
  repeat match goal with Hb : ?l = _ |- _ =>
           lazymatch l with has_mod _ _ => idtac | bmem _ _ => idtac | c_totp _ => idtac | c_sms _ => idtac end;
           rewrite Hb in HH end;
  cbn [andb] in HH; discriminate HH.

Ltac cred3 := split; [reflexivity|]; split; [reflexivity|]; split; [assumption|].

Lemma step_request_credential w req O U :
  alookup k_uid (jar_get (q_browser req) (w_sess (fst (step C cfg w (AReq req) O)))) = Some U ->
  alookup k_uid (jar_get (q_browser req) (w_sess w)) <> Some U ->
  credential_shown w O req U.
Proof.
  intros H1 H0. destruct (can_login req) eqn:CL; [|exfalso; exact (step_nologin w req O U CL H1 H0)].
  unfold credential_shown. cbv zeta. unfold can_login in CL.
  destruct (q_route req) as [| | | | | | | |pv|pv| | | | | | | | | | |k|k| |full tf fr lk cf remembermw expiremw|] eqn:R;
    try (destruct (q_meth req) eqn:M; discriminate CL).
  - (* login *)
    destruct (q_meth req) eqn:M; try discriminate CL. destruct (has_mod cfg MAuth) eqn:HM; [|notfound R M].
    left. cred3. exact (c01_step_login_lemma C cfg w req O U R M HM H1 H0).
  - destruct (q_meth req) eqn:M; try discriminate CL. destruct (has_mod cfg MOtp) eqn:HM; [|notfound R M].
    right; left. cred3. exact (c01_step_otp_lemma C cfg w req O U R M HM H1 H0).
  - destruct (q_meth req) eqn:M; try discriminate CL. destruct (has_mod cfg MRegister) eqn:HM; [|notfound R M].
    right; right; left. cred3. exact (c01_step_register_lemma C cfg w req O U R M HM H1 H0).
  - destruct (q_meth req) eqn:M; try discriminate CL. destruct (has_mod cfg MRecover) eqn:HM; [|notfound R M].
    right; right; right; left. cred3. exact (c01_step_recover_lemma C cfg w req O U R M HM H1 H0).
  - destruct (q_meth req) eqn:M; try discriminate CL.
    destruct (has_mod cfg MOAuth2) eqn:HM; [|notfound R M].
    destruct (bmem pv (c_providers cfg)) eqn:HP; [|notfound R M].
    right; right; right; right; left. exists pv. cred3. split; [assumption|].
    exact (c01_step_oauth2_lemma C cfg w req O U pv R M HM HP H1 H0).
  - destruct (q_meth req) eqn:M; try discriminate CL. destruct (c_totp cfg) eqn:HM; [|notfound R M].
    do 5 right; left. cred3. exact (c01_step_totp_lemma C cfg w req O U R M HM H1 H0).
  - destruct (q_meth req) eqn:M; try discriminate CL. destruct (c_sms cfg) eqn:HM; [|notfound R M].
    do 6 right; left. cred3. exact (c01_step_sms_lemma C cfg w req O U R M HM H1 H0).
  - destruct remembermw; [|destruct (q_meth req); discriminate CL].
    do 7 right. exists full, tf, fr, lk, cf, expiremw. split; [reflexivity|].
    exact (c01_step_remember_lemma C cfg w req O U full tf fr lk cf expiremw R H1 H0).
Qed.

(* ---- all actions ---------------------------------------------------------------------------- *)
Lemma admin_keeps_jars w a O :
  match a with AReq _ | APlant _ _ _ | ASetJar _ _ _ => False | _ => True end ->
  w_sess (fst (step C cfg w a O)) = w_sess w /\ w_cook (fst (step C cfg w a O)) = w_cook w.
Proof.
  intros Ha. destruct a as [r|p|p|p pw|p|u rm|b k v|ck b j]; try destruct Ha; unfold step;
    destruct (admin C cfg O _ _) as [r0 h0]; cbn; auto.
Qed.

Lemma c01_session_only_against_credential_lemma w a O U b :
  let w' := fst (step C cfg w a O) in
  alookup k_uid (jar_get b (w_sess w')) = Some U -> alookup k_uid (jar_get b (w_sess w)) <> Some U ->
  (exists req, a = AReq req /\ q_browser req = b /\ credential_shown w O req U) \/
  a = APlant b k_uid U \/
  (exists j, a = ASetJar false b j /\ alookup k_uid j = Some U).
Proof.
  intros w' H1 H0. subst w'.
  destruct a as [req|p|p|p pw|p|u rm|b' k v|ck b' j].
  - left. exists req. split; [reflexivity|].
    destruct (bytes_dec b (q_browser req)) as [->|N].
    + split; [reflexivity|]. apply step_request_credential; assumption.
    + exfalso. destruct (step_other_browsers_lemma C cfg w req O b N) as [Eq _]. rewrite Eq in H1. contradiction.
  - exfalso. destruct (admin_keeps_jars w (ALock p) O I) as [Eq _]. rewrite Eq in H1. contradiction.
  - exfalso. destruct (admin_keeps_jars w (AUnlock p) O I) as [Eq _]. rewrite Eq in H1. contradiction.
  - exfalso. destruct (admin_keeps_jars w (AUpdatePassword p pw) O I) as [Eq _]. rewrite Eq in H1. contradiction.
  - exfalso. destruct (admin_keeps_jars w (AStartConfirm p) O I) as [Eq _]. rewrite Eq in H1. contradiction.
  - exfalso. destruct (admin_keeps_jars w (ASeed u rm) O I) as [Eq _]. rewrite Eq in H1. contradiction.
  - right; left. unfold step in H1. cbn in H1.
    destruct (bytes_dec b b') as [<-|N].
    + rewrite jar_get_set_eq in H1. destruct (bytes_dec k_uid k) as [<-|Nk].
      * rewrite alookup_aput_eq in H1. inversion H1; subst. reflexivity.
      * rewrite alookup_aput_neq in H1 by assumption. contradiction.
    + rewrite jar_get_set_neq in H1 by assumption. contradiction.
  - destruct ck; unfold step in H1; cbn in H1; [contradiction|].
    right; right. destruct (bytes_dec b b') as [<-|N].
    + rewrite jar_get_set_eq in H1. exists j. auto.
    + rewrite jar_get_set_neq in H1 by assumption. contradiction.
Qed.

(* ---- the complementary half: who can take an identity OUT of a session ----------------------- *)
Lemma step_not_handler_unchanged w req O :
  (forall hd, route_table (ENV w O req) <> Handler hd) ->
  jar_get (q_browser req) (w_sess (fst (step C cfg w (AReq req) O))) = jar_get (q_browser req) (w_sess w).
Proof.
  intros NH.
  destruct (step_session_class C cfg (fun _ => False) w req O) as [Eq|(l & F & Eq)]; [|exact Eq|].
  - destruct (route_table _) as [hd| |]; [destruct (NH hd eq_refl)|exact I|exact I].
  - rewrite Eq. destruct l as [|e l]; [reflexivity|]. inversion F; subst. contradiction.
Qed.

Lemma logout_handler_inv E hd :
  q_route (e_req E) = RLogout -> route_table E = Handler hd ->
  q_meth (e_req E) = c_logout_method (e_cfg E) /\ q_meth (e_req E) <> PUT /\ has_mod (e_cfg E) MLogout = true.
Proof.
  intros R. unfold route_table. rewrite R. unfold when, on_method.
  destruct (has_mod (e_cfg E) MLogout); destruct (q_meth (e_req E)); destruct (c_logout_method (e_cfg E));
    cbn [meth_eqb]; intros HH; try discriminate HH; repeat split; discriminate.
Qed.

Lemma c01_identity_removed_lemma w a O b :
  let w' := fst (step C cfg w a O) in
  ahas k_uid (jar_get b (w_sess w)) = true -> ahas k_uid (jar_get b (w_sess w')) = false ->
  (exists req, a = AReq req /\ q_browser req = b /\
     ((q_route req = RLogout /\ q_meth req = c_logout_method cfg /\ q_meth req <> PUT /\ has_mod cfg MLogout = true) \/
      (exists full tf fr l c r, q_route req = RApp full tf fr l c r true)))  \/
  (exists j, a = ASetJar false b j /\ ahas k_uid j = false).
Proof.
  intros w' H0 H1. subst w'.
  destruct a as [req|p|p|p pw|p|u rm|b' k v|ck b' j].
  - left. exists req. split; [reflexivity|].
    destruct (bytes_dec b (q_browser req)) as [->|N].
    2:{ exfalso. destruct (step_other_browsers_lemma C cfg w req O b N) as [Eq _]. rewrite Eq in H1. congruence. }
    split; [reflexivity|].
    destruct (may_drop req) eqn:MD.
    2:{ exfalso. rewrite (step_uid_kept_lemma C cfg w req O _ MD H0) in H1. discriminate H1. }
    unfold may_drop in MD.
    destruct (q_route req) as [| | | | | | | |pv|pv| | | | | | | | | | |k|k| |full tf fr lk cf remembermw expiremw|] eqn:R;
      try discriminate MD.
    + left. split; [reflexivity|].
      destruct (route_table (ENV w O req)) as [hd| |] eqn:RT.
      * exact (logout_handler_inv (ENV w O req) hd R RT).
      * exfalso. rewrite step_not_handler_unchanged in H1 by (intros hd; rewrite RT; discriminate). congruence.
      * exfalso. rewrite step_not_handler_unchanged in H1 by (intros hd; rewrite RT; discriminate). congruence.
    + right. destruct expiremw; [|discriminate MD]. exists full, tf, fr, lk, cf, remembermw. reflexivity.
  - exfalso. destruct (admin_keeps_jars w (ALock p) O I) as [Eq _]. rewrite Eq in H1. congruence.
  - exfalso. destruct (admin_keeps_jars w (AUnlock p) O I) as [Eq _]. rewrite Eq in H1. congruence.
  - exfalso. destruct (admin_keeps_jars w (AUpdatePassword p pw) O I) as [Eq _]. rewrite Eq in H1. congruence.
  - exfalso. destruct (admin_keeps_jars w (AStartConfirm p) O I) as [Eq _]. rewrite Eq in H1. congruence.
  - exfalso. destruct (admin_keeps_jars w (ASeed u rm) O I) as [Eq _]. rewrite Eq in H1. congruence.
  - exfalso. change (ahas k_uid (jar_get b (jar_set b' (aput k v (jar_get b' (w_sess w))) (w_sess w))) = false) in H1.
    destruct (bytes_dec b b') as [<-|N].
    + rewrite jar_get_set_eq in H1. unfold ahas in *. destruct (bytes_dec k_uid k) as [<-|Nk].
      * rewrite alookup_aput_eq in H1. discriminate H1.
      * rewrite alookup_aput_neq in H1 by assumption. congruence.
    + rewrite jar_get_set_neq in H1 by assumption. congruence.
  - destruct ck; [exfalso; change (ahas k_uid (jar_get b (w_sess w)) = false) in H1; congruence|].
    change (ahas k_uid (jar_get b (jar_set b' j (w_sess w))) = false) in H1.
    right. destruct (bytes_dec b b') as [<-|N].
    + rewrite jar_get_set_eq in H1. exists j. auto.
    + rewrite jar_get_set_neq in H1 by assumption. congruence.
Qed.
End A.

(* ---- what the eight credential conditions say, spelled out ------------------------------------ *)
Section Readings.
Variable E : env.
Notation vals := (values E).

Lemma g_login_reading st U :
  g_login E st U <->
  U = aget (pid_field E) vals /\
  exists u, ulookup U (s_users st) = Some u /\ pwcheck (e_C E) (u_password u) (aget f_password vals) = true.
Proof. reflexivity. Qed.

Lemma g_otp_reading st U :
  g_otp E st U <->
  U = aget (pid_field E) vals /\
  exists u i, ulookup U (s_users st) = Some u /\
              otp_match (sha (e_C E) (aget f_password vals)) (split_otps (u_otps u)) 0%nat = Some (Some i).
Proof. reflexivity. Qed.

Lemma g_register_reading st U :
  Guards2.g_register E st U <->
  U = aget (pid_field E) vals /\ ulookup U (s_users st) = None /\
  valid [pid_rule E; password_rule] pw_pairs vals = true.
Proof. reflexivity. Qed.

Lemma g_recover_reading st U :
  g_recover E st U <->
  c_recover_login (e_cfg E) = true /\
  exists raw u,
    b64url_dec (aget f_token vals) = Some raw /\ length raw = 64%nat /\
    ufind (fun u => beqb (u_rsel u) (selector_of E raw)) (s_users st) = Some u /\
    ~ (u_rexp u < o_now (e_O E)) /\
    b64std_dec (u_rver u) = Some (sha (e_C E) (half2 raw)) /\
    U = u_pid u.
Proof. reflexivity. Qed.

Lemma g_oauth2_reading prov st U :
  g_oauth2 E prov st U <->
  (exists st0, alookup k_oauth_state (e_sess E) = Some st0 /\ form_value E f_state = st0) /\
  bempty (form_value E f_error) = true /\
  pa_exchange_ok (o_provider (e_O E)) = true /\ pa_details_ok (o_provider (e_O E)) = true /\
  exists u0, U = make_oauth2_pid prov (u_ouid u0) /\
    (ulookup (make_oauth2_pid prov (pa_uid (o_provider (e_O E)))) (s_users st) = Some u0 \/
     u_ouid u0 = pa_uid (o_provider (e_O E))).
Proof. reflexivity. Qed.

Lemma g_remember_reading st U :
  g_remember E st U <->
  exists cookie raw,
    alookup k_rm (e_cook E) = Some cookie /\ b64url_dec cookie = Some raw /\ rm_parse_pid raw = Some U /\
    bmem (b64std_enc (sha (e_C E) raw)) (rmlookup U (s_rm st)) = true.
Proof. reflexivity. Qed.

(* the second-factor steps, read at the start of a request (nothing cached in the context): the
   user is the one named by the session's uid or by the pending key a first factor parked *)
Lemma g_totp_reading st O U :
  g_totp E (init_hst st O) U <->
  exists u,
    (ulookup (aget k_uid (e_sess E)) (s_users st) = Some u \/
     ulookup (aget k_totp_pending (e_sess E)) (s_users st) = Some u) /\
    u_pid u = U /\
    bempty (u_totp u) = false /\
    (bempty (aget f_recovery_code vals) = false ->
       use_recovery_code E (decode_codes (u_recovery u)) (aget f_recovery_code vals) <> None) /\
    (bempty (aget f_recovery_code vals) = true -> totp_ok E (u_totp u) (aget f_code vals) = true).
Proof.
  unfold g_totp, totp_facts, user_source, cur_pid. cbn [init_hst h_cuser h_cpid h_st]. split.
  - intros (u & ([Hc|Hs] & A & B & D) & P); [discriminate Hc|]. exists u. tauto.
  - intros (u & Hs & P & A & B & D). exists u. tauto.
Qed.

Lemma g_sms_reading st O U :
  g_sms E (init_hst st O) U <->
  exists u,
    (ulookup (aget k_uid (e_sess E)) (s_users st) = Some u \/
     ulookup (aget k_sms_pending (e_sess E)) (s_users st) = Some u) /\
    u_pid u = U /\
    (bempty (aget f_recovery_code vals) = false ->
       use_recovery_code E (decode_codes (u_recovery u)) (aget f_recovery_code vals) <> None) /\
    (bempty (aget f_recovery_code vals) = true ->
       bempty (aget k_sms_secret (e_sess E)) = false /\
       beqb (aget f_code vals) (aget k_sms_secret (e_sess E)) = true /\
       match alookup k_sms_secret_number (e_sess E) with
       | Some sent => beqb sent (u_sms u) = true
       | None => True
       end).
Proof.
  unfold g_sms, user_source, cur_pid. cbv zeta. cbn [init_hst h_cuser h_cpid h_st]. split.
  - intros (u & [Hc|Hs] & P & A & B); [discriminate Hc|]. exists u. tauto.
  - intros (u & Hs & P & A & B). exists u. tauto.
Qed.
End Readings.

(* the same with the two harness actions excluded by hypothesis: every library-level action *)
Lemma c01_library_actions_lemma C cfg w a O U b :
  match a with APlant _ _ _ | ASetJar _ _ _ => False | _ => True end ->
  let w' := fst (step C cfg w a O) in
  alookup k_uid (jar_get b (w_sess w')) = Some U -> alookup k_uid (jar_get b (w_sess w)) <> Some U ->
  exists req, a = AReq req /\ q_browser req = b /\ credential_shown C cfg w O req U.
Proof.
  intros Ha w' H1 H0.
  destruct (c01_session_only_against_credential_lemma C cfg w a O U b H1 H0) as [H|[->|(j & -> & _)]];
    [exact H|destruct Ha|destruct Ha].
Qed.

(* ================================================================================================ *)
(* Part B: C15 — which responses a computation can write                                            *)
(* ================================================================================================ *)

(* [resp_all P m]: if whatever was on the wire before [m] satisfies P, so does whatever is on the
   wire after it (first write wins, so this is about the one response of the request) *)
Definition outP (P : response -> Prop) (h : hst) : Prop := forall wr, h_out h = Some wr -> P (w_resp wr).

Section RL.
Variable P : response -> Prop.

Definition resp_all {A} (m : M A) : Prop := forall h r h', m h = (r, h') -> outP P h -> outP P h'.

Lemma resp_keep {A} (m : M A) : (forall h r h', m h = (r, h') -> h_out h' = h_out h) -> resp_all m.
Proof. intros H h r h' Eq Hp wr Hw. rewrite (H _ _ _ Eq) in Hw. exact (Hp wr Hw). Qed.

Lemma resp_ret {A} (a : A) : resp_all (ret a).
Proof. apply resp_keep. intros h r h' Eq. inversion Eq; reflexivity. Qed.
Lemma resp_fail {A} e : resp_all (@fail A e).
Proof. apply resp_keep. intros h r h' Eq. inversion Eq; reflexivity. Qed.
Lemma resp_panic {A} : resp_all (@panic A).
Proof. apply resp_keep. intros h r h' Eq. inversion Eq; reflexivity. Qed.
Lemma resp_get_h : resp_all get_h.
Proof. apply resp_keep. intros h r h' Eq. inversion Eq; reflexivity. Qed.
Lemma resp_get_cuser : resp_all get_cuser.
Proof. apply resp_keep. intros h r h' Eq. inversion Eq; reflexivity. Qed.

Lemma resp_bind {A B} (m : M A) (f : A -> M B) : resp_all m -> (forall a, resp_all (f a)) -> resp_all (bind m f).
Proof.
  intros Hm Hf h r h' Eq Hp. destruct (bind_inv _ _ _ _ _ Eq) as [(a & h1 & E1 & E2)|[(e & E1 & ->)|(E1 & ->)]].
  - exact (Hf a _ _ _ E2 (Hm _ _ _ E1 Hp)).
  - exact (Hm _ _ _ E1 Hp).
  - exact (Hm _ _ _ E1 Hp).
Qed.
Lemma resp_try {A B} (m : M A) (f : res A -> M B) : resp_all m -> (forall r, resp_all (f r)) -> resp_all (try m f).
Proof.
  intros Hm Hf h r h' Eq Hp. destruct (try_inv _ _ _ _ _ Eq) as [(x & h1 & E1 & _ & E2)|(E1 & ->)].
  - exact (Hf x _ _ _ E2 (Hm _ _ _ E1 Hp)).
  - exact (Hm _ _ _ E1 Hp).
Qed.

Lemma resp_modify f : (forall h, h_out (f h) = h_out h) -> resp_all (modify f).
Proof. intros H. apply resp_keep. intros h r h' Eq. inversion Eq; subst. apply H. Qed.
Lemma resp_pure_state {A} (m : M A) : (forall h, h_out (snd (m h)) = h_out h) -> resp_all m.
Proof. intros H. apply resp_keep. intros h r h' Eq. specialize (H h). rewrite Eq in H. exact H. Qed.

Lemma resp_put_session k v : resp_all (put_session k v). Proof. apply resp_modify; auto. Qed.
Lemma resp_del_session k : resp_all (del_session k). Proof. apply resp_modify; auto. Qed.
Lemma resp_delall_session wl : resp_all (delall_session wl). Proof. apply resp_modify; auto. Qed.
Lemma resp_put_cookie k v : resp_all (put_cookie k v). Proof. apply resp_modify; auto. Qed.
Lemma resp_del_cookie k : resp_all (del_cookie k). Proof. apply resp_modify; auto. Qed.
Lemma resp_log a : resp_all (log a). Proof. apply resp_modify; auto. Qed.
Lemma resp_set_cuser u : resp_all (set_cuser u). Proof. apply resp_modify; auto. Qed.
Lemma resp_set_cpid p : resp_all (set_cpid p). Proof. apply resp_modify; auto. Qed.
Lemma resp_fresh n : resp_all (fresh n).
Proof. apply resp_pure_state. intros h. unfold fresh. destruct (take_chunk n (h_fresh h)) as [[c t]|]; reflexivity. Qed.

Lemma resp_write_resp r : P r -> resp_all (write_resp r).
Proof.
  intros Hr h x h' Eq Hp wr Hw. unfold write_resp, modify in Eq. inversion Eq; subst. clear Eq.
  destruct (h_out h) as [wr0|] eqn:Ho.
  - apply Hp. exact Hw.
  - cbn in Hw. inversion Hw; subst. exact Hr.
Qed.

Lemma resp_backend O {A} k (body : M A) : resp_all body -> resp_all (backend O k body).
Proof.
  intros Hb h r h' Eq Hp. unfold backend in Eq.
  destruct (fault_at (h_ncalls h) (o_faults O)) as [[|]|].
  - inversion Eq; subst. exact Hp.
  - inversion Eq; subst. exact Hp.
  - exact (Hb _ _ _ Eq Hp).
Qed.

Variable O : oracle.
Ltac rprim := apply resp_backend; first
  [ apply resp_modify; intros; reflexivity
  | apply resp_pure_state; intros h; simpl;
    repeat match goal with |- context [match ?x with _ => _ end] => destruct x end; reflexivity ].
Lemma resp_st_load p : resp_all (st_load O p). Proof. unfold st_load. rprim. Qed.
Lemma resp_st_save u : resp_all (st_save O u). Proof. unfold st_save. rprim. Qed.
Lemma resp_st_create u : resp_all (st_create O u). Proof. unfold st_create. rprim. Qed.
Lemma resp_st_load_by_csel s : resp_all (st_load_by_csel O s). Proof. unfold st_load_by_csel. rprim. Qed.
Lemma resp_st_load_by_rsel s : resp_all (st_load_by_rsel O s). Proof. unfold st_load_by_rsel. rprim. Qed.
Lemma resp_st_add_rm p t : resp_all (st_add_rm O p t). Proof. unfold st_add_rm. rprim. Qed.
Lemma resp_st_use_rm p t : resp_all (st_use_rm O p t). Proof. unfold st_use_rm. rprim. Qed.
Lemma resp_st_del_rm p : resp_all (st_del_rm O p). Proof. unfold st_del_rm. rprim. Qed.
End RL.

Lemma resp_weaken (P Q : response -> Prop) {A} (m : M A) :
  (forall r, P r -> Q r) -> resp_all P m ->
  forall h r h', m h = (r, h') -> h_out h = None -> outP Q h'.
Proof.
  intros PQ Hm h r h' Eq Hn wr Hw. apply PQ. apply (Hm _ _ _ Eq); [|exact Hw].
  intros wr0 H0. rewrite Hn in H0. discriminate H0.
Qed.

(* ---- the locations the model can send a browser to ------------------------------------------- *)
Section Loc.
Variables (cfg : config) (req : request).

(* the value of the redirect form/query parameter as the responder reads it (FormValue) *)
Definition supplied_redir : bytes :=
  if c_api cfg then aget f_redir (q_query req) else aget f_redir (q_form req ++ q_query req).

(* "<mount>/login?redir=<escaped current URL>": where the access middleware sends the unauthenticated *)
Definition login_redir_target (mount_pathed : bool) : bytes :=
  let p0 := q_path req in
  let p := if mount_pathed && negb (bempty (c_mount cfg)) then c_mount cfg ++ p0 else p0 in
  let full := if bempty (q_rawquery req) then p else p ++ "?"%byte :: q_rawquery req in
  c_mount cfg ++ bs "/login?redir=" ++ query_escape full.

(* the request's query string is carried along to the second-factor page *)
Definition carry_query (p : bytes) : bytes :=
  if bempty (q_rawquery req) then p else p ++ "?"%byte :: q_rawquery req.

Definition email_verify_target (k : tfkind) : bytes :=
  if bempty (c_mount cfg) then bs "2fa/" ++ kind_name k ++ bs "/email/verify"
  else c_mount cfg ++ bs "/2fa/" ++ kind_name k ++ bs "/email/verify".

(* configured paths and mount-relative module paths *)
Definition fixed_targets : list bytes :=
  [ p_login_ok_of cfg; p_confirm_ok_of cfg; p_confirm_notok_of cfg; p_lock_notok_of cfg; p_logout_ok_of cfg;
    p_oauth_notok_of cfg; p_recover_ok_of cfg; p_register_ok_of cfg; p_2fa_email_notok_of cfg;
    carry_query (c_mount cfg ++ bs "/2fa/totp/validate");
    carry_query (c_mount cfg ++ bs "/2fa/sms/validate");
    login_redir_target true; login_redir_target false;
    c_mount cfg ++ bs "/2fa/" ++ kind_name KTotp ++ bs "/setup";
    c_mount cfg ++ bs "/2fa/" ++ kind_name KSms ++ bs "/setup";
    c_mount cfg ++ bs "/2fa/totp/confirm"; c_mount cfg ++ bs "/2fa/sms/confirm";
    email_verify_target KTotp; email_verify_target KSms ].

Definition loc_ok (hon : bool) (extra : bytes -> Prop) (loc : bytes) : Prop :=
  In loc fixed_targets \/
  (hon = true /\ loc = supplied_redir /\ is_local_redirect loc = true) \/
  extra loc.

Definition resp_ok (hon : bool) (extra : bytes -> Prop) (r : response) : Prop :=
  match r with
  | RespRedirect302 loc => loc_ok hon extra loc
  | RespRedirectAPI _ loc _ => loc_ok hon extra loc
  | _ => True
  end.
End Loc.

Ltac in_list :=
  unfold fixed_targets; cbn [In]; repeat first [left; reflexivity | right]; fail.

Ltac follow_side :=
  cbn [ro_follow ro_plain ro_ok ro_fail ro_follow_redir];
  let Hf := fresh in
  first [ intros Hf; discriminate Hf | intros _; first [reflexivity | assumption] ].

Ltac target_side :=
  cbn [ro_path ro_plain ro_ok ro_fail ro_follow_redir];
  first [ left; in_list | right; assumption | right; eauto; fail ].

Ltac runfold :=
  unfold current_user, current_user_id, store_back, load_current_user, generate_token, send_mail, rm_generate,
         read_values, update_locked_state, send_code_to_user, bcrypt_codes, generate_recovery_codes,
         invalid_confirm_token, invalid_recover_token in *.

Section RH.
Variable E : env.
Variable hon : bool.
Variable extra : bytes -> Prop.
Notation RP := (resp_ok (e_cfg E) (e_req E) hon extra).
Notation rok := (resp_all (resp_ok (e_cfg E) (e_req E) hon extra)).

Lemma resp_render : rok (render E).
Proof. unfold render. apply resp_backend, resp_ret. Qed.

Lemma resp_respond p d : rok (respond E p d).
Proof. unfold respond. apply resp_bind; [apply resp_render|intros _]. apply resp_write_resp. exact I. Qed.

(* the one place a redirect is written: the target is the default, or the supplied value when the
   caller asked to follow it and the guard accepted it *)
Lemma resp_redirect ro :
  (ro_follow ro = true -> hon = true) ->
  (In (ro_path ro) (fixed_targets (e_cfg E) (e_req E)) \/ extra (ro_path ro)) ->
  rok (redirect E ro).
Proof.
  intros Hf Hp.
  assert (L : loc_ok (e_cfg E) (e_req E) hon extra (redirect_target (form_value E f_redir) (ro_path ro) (ro_follow ro))).
  { destruct (c15_target_lemma (form_value E f_redir) (ro_path ro) (ro_follow ro)) as [Eq|(Eq & Hl & Hfo)]; rewrite Eq.
    - destruct Hp as [Hp|Hp]; [left; exact Hp|right; right; exact Hp].
    - right; left. split; [exact (Hf Hfo)|]. split; [reflexivity|exact Hl]. }
  unfold redirect. cbv zeta. destruct (c_api (e_cfg E)).
  - apply resp_bind; [apply resp_render|intros _]. apply resp_write_resp. exact L.
  - apply resp_bind; [destruct (ro_success ro); [apply resp_put_session|apply resp_ret]|intros _].
    apply resp_bind; [destruct (ro_failure ro); [apply resp_put_session|apply resp_ret]|intros _].
    apply resp_write_resp. exact L.
Qed.
End RH.

Ltac resp_step :=
  match goal with
  | |- resp_all _ (redirect _ _) => apply resp_redirect; [follow_side|target_side]
  | |- resp_all _ (respond _ _ _) => apply resp_respond
  | |- resp_all _ (render _) => apply resp_render
  | |- resp_all _ (bind _ _) => apply resp_bind; [|intros]
  | |- resp_all _ (try _ _) => apply resp_try; [|intros]
  | |- resp_all _ (ret _) => apply resp_ret
  | |- resp_all _ (fail _) => apply resp_fail
  | |- resp_all _ panic => apply resp_panic
  | |- resp_all _ get_h => apply resp_get_h
  | |- resp_all _ (put_session _ _) => apply resp_put_session
  | |- resp_all _ (del_session _) => apply resp_del_session
  | |- resp_all _ (delall_session _) => apply resp_delall_session
  | |- resp_all _ (put_cookie _ _) => apply resp_put_cookie
  | |- resp_all _ (del_cookie _) => apply resp_del_cookie
  | |- resp_all _ (write_resp _) => apply resp_write_resp; try exact I
  | |- resp_all _ (log _) => apply resp_log
  | |- resp_all _ (fresh _) => apply resp_fresh
  | |- resp_all _ (st_load _ _) => apply resp_st_load
  | |- resp_all _ (st_save _ _) => apply resp_st_save
  | |- resp_all _ (st_create _ _) => apply resp_st_create
  | |- resp_all _ (st_load_by_csel _ _) => apply resp_st_load_by_csel
  | |- resp_all _ (st_load_by_rsel _ _) => apply resp_st_load_by_rsel
  | |- resp_all _ (st_add_rm _ _ _) => apply resp_st_add_rm
  | |- resp_all _ (st_use_rm _ _ _) => apply resp_st_use_rm
  | |- resp_all _ (st_del_rm _ _) => apply resp_st_del_rm
  | |- resp_all _ (set_cuser _) => apply resp_set_cuser
  | |- resp_all _ (set_cpid _) => apply resp_set_cpid
  | |- resp_all _ get_cuser => apply resp_get_cuser
  | |- resp_all _ (backend _ _ _) => apply resp_backend
  | |- resp_all _ (modify _) => apply resp_modify; intros; reflexivity
  | |- resp_all _ (if ?c then _ else _) => destruct c eqn:?
  | |- resp_all _ (match ?x with _ => _ end) => destruct x eqn:?
  | |- resp_all _ (let '(_, _) := ?x in _) => destruct x eqn:?
  | |- resp_all _ (fun h => _) =>
      apply resp_pure_state; intros; simpl;
      repeat match goal with |- context [match ?x with _ => _ end] => destruct x end; reflexivity
  end.

Ltac resp_go := repeat (runfold; cbn beta iota; resp_step).

Section RH2.
Variable E : env.
Variable hon : bool.
Variable extra : bytes -> Prop.
Notation rok := (resp_all (resp_ok (e_cfg E) (e_req E) hon extra)).

Lemma resp_send_code p n : rok (send_code_to_user E p n).
Proof. resp_go. Qed.

Lemma resp_hook hk rm hd : rok (run_hook E hk rm hd).
Proof. destruct hk; unfold run_hook; resp_go. Qed.
End RH2.

Section RH3.
Variable E : env.
Variable hon : bool.
Variable extra : bytes -> Prop.
Notation rok := (resp_all (resp_ok (e_cfg E) (e_req E) hon extra)).

Lemma resp_call hs : forall rm hd, rok (call E hs rm hd).
Proof.
  induction hs as [|hk hs IH]; intros rm hd; cbn [call].
  - apply resp_ret.
  - apply resp_bind; [apply resp_hook|intros; apply IH].
Qed.
Lemma resp_fire e rm : rok (fire E e rm).
Proof. unfold fire. apply resp_call. Qed.

Ltac rgo := repeat (runfold; cbn beta iota; first [apply resp_fire | apply resp_send_code | resp_step]).

(* handlers that never follow the supplied target *)
Lemma resp_login_get : rok (login_get E). Proof. unfold login_get. rgo. Qed.
Lemma resp_otp_login_get : rok (otp_login_get E). Proof. unfold otp_login_get. rgo. Qed.
Lemma resp_otp_add_post : rok (otp_add_post E). Proof. unfold otp_add_post. rgo. Qed.
Lemma resp_otp_clear_post : rok (otp_clear_post E). Proof. unfold otp_clear_post. rgo. Qed.
Lemma resp_otp_show p : rok (otp_show E p). Proof. unfold otp_show. rgo. Qed.
Lemma resp_register_post : rok (register_post E). Proof. unfold register_post. rgo. Qed.
Lemma resp_confirm_get : rok (confirm_get E). Proof. unfold confirm_get. rgo. Qed.
Lemma resp_recover_start_post : rok (recover_start_post E). Proof. unfold recover_start_post. rgo. Qed.
Lemma resp_recover_end_get : rok (recover_end_get E). Proof. unfold recover_end_get. rgo. Qed.
Lemma resp_recover_end_post : rok (recover_end_post E). Proof. unfold recover_end_post. rgo. Qed.
Lemma resp_logout : rok (logout E). Proof. unfold logout. rgo. Qed.
Lemma resp_recovery_regen_get : rok (recovery_regen_get E). Proof. unfold recovery_regen_get. rgo. Qed.
Lemma resp_recovery_regen_post : rok (recovery_regen_post E). Proof. unfold recovery_regen_post. rgo. Qed.
Lemma resp_email_verify_get k : rok (email_verify_get E k). Proof. unfold email_verify_get. rgo. Qed.
Lemma resp_email_verify_post k : rok (email_verify_post E k). Proof. unfold email_verify_post. rgo. Qed.
Lemma resp_email_verify_end k : rok (email_verify_end E k). Proof. destruct k; unfold email_verify_end; rgo. Qed.
Lemma resp_email_verify_wrap k : rok (email_verify_wrap E k). Proof. destruct k; unfold email_verify_wrap; rgo. Qed.
Lemma resp_totp_setup_get : rok (totp_setup_get E). Proof. unfold totp_setup_get. rgo. Qed.
Lemma resp_totp_setup_post : rok (totp_setup_post E). Proof. unfold totp_setup_post. rgo. Qed.
Lemma resp_totp_confirm_get : rok (totp_confirm_get E). Proof. unfold totp_confirm_get. rgo. Qed.
Lemma resp_totp_confirm_post : rok (totp_confirm_post E). Proof. unfold totp_confirm_post. rgo. Qed.
Lemma resp_totp_validate : rok (totp_validate E). Proof. unfold totp_validate. rgo. Qed.
Lemma resp_totp_remove_post : rok (totp_remove_post E).
Proof. unfold totp_remove_post. apply resp_bind; [apply resp_totp_validate|intros]. rgo. Qed.
Lemma resp_sms_setup_get : rok (sms_setup_get E). Proof. unfold sms_setup_get. rgo. Qed.
Lemma resp_sms_setup_post : rok (sms_setup_post E). Proof. unfold sms_setup_post. rgo. Qed.
Lemma resp_sms_send_code p u : rok (sms_send_code E p u). Proof. unfold sms_send_code. rgo. Qed.
Lemma resp_mw_fail mp fr : rok (mw_fail E mp fr). Proof. destruct mp; unfold mw_fail; rgo. Qed.
Lemma resp_auth_middleware mp full tf fr : rok (auth_middleware E mp full tf fr).
Proof. unfold auth_middleware. repeat (runfold; cbn beta iota; first [apply resp_mw_fail | resp_step]). Qed.
Lemma resp_lock_mw : rok (lock_mw E). Proof. unfold lock_mw. rgo. Qed.
Lemma resp_confirm_mw : rok (confirm_mw E). Proof. unfold confirm_mw. rgo. Qed.
Lemma resp_app_handler : rok (app_handler E). Proof. unfold app_handler. rgo. Qed.
Lemma resp_remember_authenticate : rok (remember_authenticate E). Proof. unfold remember_authenticate. rgo. Qed.
Lemma resp_remember_mw : rok (remember_mw E).
Proof. unfold remember_mw. repeat (runfold; cbn beta iota; first [apply resp_remember_authenticate | resp_step]). Qed.

(* handlers that follow the supplied target: only where the parameter is honoured *)
Lemma resp_login_post : hon = true -> rok (login_post E). Proof. intros Hh. unfold login_post. rgo. Qed.
Lemma resp_otp_login_post : hon = true -> rok (otp_login_post E). Proof. intros Hh. unfold otp_login_post. rgo. Qed.
Lemma resp_totp_validate_post : hon = true -> rok (totp_validate_post E).
Proof. intros Hh. unfold totp_validate_post. apply resp_bind; [apply resp_totp_validate|intros]. rgo. Qed.
Lemma resp_sms_validate_code p u sh inp rc : (p = SPValidate -> hon = true) -> rok (sms_validate_code E p u sh inp rc).
Proof.
  intros Hp. unfold sms_validate_code. destruct p.
  - rgo.
  - rgo.
  - specialize (Hp eq_refl). rgo.
Qed.
Lemma resp_sms_validator_post p : (p = SPValidate -> hon = true) -> rok (sms_validator_post E p).
Proof.
  intros Hp. unfold sms_validator_post.
  repeat (runfold; cbn beta iota;
          first [apply resp_sms_send_code | apply resp_sms_validate_code; exact Hp | resp_step]).
Qed.
End RH3.

(* ---- OAuth2: the provider's authorisation URL, and the return target carried through the round
   trip in the session (stored by Start from the query of THAT request, guarded by End) ---------- *)
Definition provider_auth_url (nonce : bytes) : bytes :=
  bs "http://provider.test/auth?state=" ++ query_escape (b64url_enc nonce).

Definition oauth2_params (sess : amap) : amap :=
  match alookup k_oauth_params sess with Some p => decode_params p | None => [] end.
Definition oauth2_extra (params : amap) : amap :=
  filter (fun kv => negb (beqb (fst kv) k_rm) && negb (beqb (fst kv) (bs "redir"))) (sort_amap params).
(* the remaining pass-along parameters are appended as a query string *)
Definition oauth2_with_query (t : bytes) (params : amap) : bytes :=
  if bempty_map (oauth2_extra params) then t
  else t ++ "?"%byte :: bjoin "&"%byte (map (fun kv => query_escape (fst kv) ++ "="%byte :: query_escape (snd kv))
                                            (oauth2_extra params)).

Definition oauth2_start_extra (loc : bytes) : Prop := exists nonce, loc = provider_auth_url nonce.
Definition oauth2_end_extra (cfg : config) (sess : amap) (loc : bytes) : Prop :=
  let params := oauth2_params sess in
  loc = oauth2_with_query (p_oauth_ok_of cfg) params \/
  exists t, alookup (bs "redir") params = Some t /\ is_local_redirect t = true /\ loc = oauth2_with_query t params.

Section RH4.
Variable E : env.
Variable hon : bool.

Lemma resp_oauth2_start prov : resp_all (resp_ok (e_cfg E) (e_req E) hon oauth2_start_extra) (oauth2_start E prov).
Proof.
  unfold oauth2_start.
  repeat (runfold; cbn beta iota;
          first [ apply resp_redirect; [follow_side|right; eexists; reflexivity] | resp_step ]).
Qed.

Lemma oauth2_end_target_ok :
  let params := match alookup k_oauth_params (e_sess E) with Some p => decode_params p | None => [] end in
  let redirect_to := match alookup (bs "redir") params with
                     | Some v => if is_local_redirect v then v else p_oauth_ok_of (e_cfg E)
                     | None => p_oauth_ok_of (e_cfg E) end in
  let extra := filter (fun kv => negb (beqb (fst kv) k_rm) && negb (beqb (fst kv) (bs "redir"))) (sort_amap params) in
  let q := bjoin "&"%byte (map (fun kv => query_escape (fst kv) ++ "="%byte :: query_escape (snd kv)) extra) in
  oauth2_end_extra (e_cfg E) (e_sess E) (if bempty_map extra then redirect_to else redirect_to ++ "?"%byte :: q).
Proof.
  cbv zeta. unfold oauth2_end_extra. cbv zeta.
  change (match alookup k_oauth_params (e_sess E) with Some p => decode_params p | None => [] end) with (oauth2_params (e_sess E)).
  set (params := oauth2_params (e_sess E)).
  change (filter (fun kv => negb (beqb (fst kv) k_rm) && negb (beqb (fst kv) (bs "redir"))) (sort_amap params))
    with (oauth2_extra params).
  destruct (alookup (bs "redir") params) as [v|] eqn:Lk.
  - destruct (is_local_redirect v) eqn:Il.
    + right. exists v. split; [reflexivity|]. split; [exact Il|]. reflexivity.
    + left. reflexivity.
  - left. reflexivity.
Qed.

Lemma resp_oauth2_end prov :
  resp_all (resp_ok (e_cfg E) (e_req E) hon (oauth2_end_extra (e_cfg E) (e_sess E))) (oauth2_end E prov).
Proof.
  unfold oauth2_end.
  repeat (runfold; cbn beta iota;
          first [ apply resp_fire
                | apply resp_redirect; [follow_side|first [left; in_list|right; exact oauth2_end_target_ok]]
                | resp_step ]).
Qed.
End RH4.

(* ---- routes ---------------------------------------------------------------------------------- *)
(* the flows that honour the client-supplied redirect parameter *)
Definition honours_redir (req : request) : bool :=
  match q_route req, q_meth req with
  | RLogin, POST | ROtpLogin, POST | RTotpValidate, POST | RSmsValidate, POST => true
  | _, _ => false
  end.

Definition route_extra (cfg : config) (req : request) (sess : amap) (loc : bytes) : Prop :=
  match q_route req with
  | ROAuthStart _ => oauth2_start_extra loc
  | ROAuthCallback _ => oauth2_end_extra cfg sess loc
  | _ => False
  end.

(* every location the model can put into a redirect answering [req] (session [sess] at request start) *)
Definition allowed_location (cfg : config) (req : request) (sess : amap) (loc : bytes) : Prop :=
  loc_ok cfg req (honours_redir req) (route_extra cfg req sess) loc.

Definition routed_resp (P : response -> Prop) (r : routed) : Prop :=
  match r with Handler h => resp_all P h | _ => True end.

Section RR.
Variable E : env.
Variable hon : bool.
Variable extra : bytes -> Prop.
Notation rok := (resp_all (resp_ok (e_cfg E) (e_req E) hon extra)).

Lemma resp_behind full h : rok h -> rok (behind E full h).
Proof.
  intros Hh. unfold behind. apply resp_bind; [apply resp_auth_middleware|intros ok]. destruct ok; [exact Hh|apply resp_ret].
Qed.
Lemma resp_verified k h : rok h -> rok (verified E k h).
Proof.
  intros Hh. unfold verified. apply resp_behind.
  apply resp_bind; [apply resp_email_verify_wrap|intros ok]. destruct ok; [exact Hh|apply resp_ret].
Qed.
Lemma resp_totp_qr : rok (totp_qr E).
Proof. unfold totp_qr. repeat (runfold; cbn beta iota; resp_step). Qed.
Lemma resp_resp0 p : rok (resp0 E p).
Proof. unfold resp0. apply resp_respond. Qed.

Lemma resp_app_stack full tf fr l c r e : rok (app_stack E full tf fr l c r e).
Proof.
  unfold app_stack.
  apply resp_bind.
  { destruct e; [|apply resp_ret]. unfold expire_mw. repeat (cbn beta iota; resp_step). }
  intros sess. cbv zeta.
  apply resp_bind.
  { destruct r; [|apply resp_ret]. apply resp_bind; [exact (resp_remember_mw (with_sess E sess) hon extra)|intros _].
    unfold remembered_view. repeat (cbn beta iota; resp_step). }
  intros sess2.
  apply resp_bind; [exact (resp_auth_middleware (with_sess E sess2) hon extra false full tf fr)|intros ok].
  destruct (negb ok); [apply resp_ret|].
  apply resp_bind; [destruct l; [exact (resp_lock_mw (with_sess E sess2) hon extra)|apply resp_ret]|intros ok2].
  destruct (negb ok2); [apply resp_ret|].
  apply resp_bind; [destruct c; [exact (resp_confirm_mw (with_sess E sess2) hon extra)|apply resp_ret]|intros ok3].
  destruct (negb ok3); [apply resp_ret|].
  exact (resp_app_handler (with_sess E sess2) hon extra).
Qed.

Lemma resp_error_handler h : rok h -> rok (with_error_handler E h).
Proof. intros Hh. unfold with_error_handler. apply resp_try; [exact Hh|intros r]. repeat (cbn beta iota; resp_step). Qed.
End RR.

Ltac rh :=
  first
  [ apply resp_login_get | apply resp_otp_login_get | apply resp_otp_add_post | apply resp_otp_clear_post
  | apply resp_otp_show | apply resp_register_post | apply resp_confirm_get | apply resp_recover_start_post
  | apply resp_recover_end_get | apply resp_recover_end_post | apply resp_logout
  | apply resp_recovery_regen_get | apply resp_recovery_regen_post | apply resp_email_verify_get
  | apply resp_email_verify_post | apply resp_email_verify_end
  | apply resp_totp_setup_get | apply resp_totp_setup_post | apply resp_totp_confirm_get
  | apply resp_totp_confirm_post | apply resp_totp_remove_post | apply resp_sms_setup_get
  | apply resp_sms_setup_post | apply resp_resp0 | apply resp_totp_qr
  | apply resp_oauth2_start | apply resp_oauth2_end
  | apply resp_login_post; reflexivity | apply resp_otp_login_post; reflexivity
  | apply resp_totp_validate_post; reflexivity
  | apply resp_sms_validator_post; first [intros _; reflexivity | intros Hx; discriminate Hx] ].

Ltac rfin :=
  first [ exact I | rh | apply resp_behind; rh | apply resp_verified; rh ].

Ltac rrc :=
  unfold when, get_post, on_method, routed_resp;
  repeat match goal with
         | H : q_meth _ = _ |- _ => rewrite H
         end;
  cbn [meth_eqb];
  repeat match goal with
         | |- match (if ?b then _ else _) with _ => _ end => destruct b eqn:?
         end;
  cbn beta iota; rfin.

Lemma resp_routes E :
  routed_resp (resp_ok (e_cfg E) (e_req E) (honours_redir (e_req E)) (route_extra (e_cfg E) (e_req E) (e_sess E)))
              (route_table E).
Proof.
  unfold route_table, honours_redir, route_extra.
  destruct (q_route (e_req E)) as [| | | | | | | |pv|pv| | | | | | | | | | |k|k| |full tf fr lk cf remembermw expiremw|] eqn:R.
  all: try (destruct (q_meth (e_req E)) eqn:Mt; cbn beta iota; rrc; fail).
  cbn beta iota. unfold routed_resp. apply resp_app_stack.
Qed.

Lemma resp_serve E :
  resp_all (resp_ok (e_cfg E) (e_req E) (honours_redir (e_req E)) (route_extra (e_cfg E) (e_req E) (e_sess E))) (serve E).
Proof.
  unfold serve. pose proof (resp_routes E) as HR. destruct (route_table E) as [hd| |].
  - apply resp_error_handler. exact HR.
  - apply resp_write_resp. exact I.
  - apply resp_write_resp. exact I.
Qed.

(* the observation says the browser was redirected to [loc] *)
Definition redirects_to (o : obs) (loc : bytes) : Prop :=
  ob_resp o = Some (RespRedirect302 loc) \/ exists st f, ob_resp o = Some (RespRedirectAPI st loc f).

Lemma outP_init P st O : outP P (init_hst st O).
Proof. intros wr Hw. discriminate Hw. Qed.

Lemma outP_redirects (Q : bytes -> Prop) r h loc :
  outP (fun rsp => match rsp with RespRedirect302 l => Q l | RespRedirectAPI _ l _ => Q l | _ => True end) h ->
  redirects_to (obs_of r h) loc -> Q loc.
Proof.
  intros Hp Hr. unfold redirects_to, obs_of in Hr. cbn [ob_resp] in Hr.
  destruct (h_out h) as [wr|] eqn:Ho; cbn [option_map] in Hr.
  - specialize (Hp wr Ho). cbv beta in Hp.
    destruct Hr as [Hr|(st & f & Hr)]; inversion Hr as [Hw]; rewrite Hw in Hp; exact Hp.
  - destruct Hr as [Hr|(st & f & Hr)]; discriminate Hr.
Qed.

Section B.
Variable C : crypto.
Variable cfg : config.

Lemma c15_step_redirects_local_lemma w req O loc :
  redirects_to (snd (step C cfg w (AReq req) O)) loc ->
  allowed_location cfg req (jar_get (q_browser req) (w_sess w)) loc.
Proof.
  intros Hr.
  set (E := mkEnv C cfg O req (jar_get (q_browser req) (w_cook w)) (jar_get (q_browser req) (w_sess w))).
  destruct (serve E (init_hst (w_st w) O)) as [r h] eqn:Es.
  unfold step in Hr. fold E in Hr. rewrite Es in Hr. cbn [snd] in Hr.
  pose proof (resp_serve E _ _ _ Es (outP_init _ _ _)) as Hp.
  exact (outP_redirects (allowed_location cfg req (jar_get (q_browser req) (w_sess w))) r h loc Hp Hr).
Qed.

(* administrative actions write no response at all *)
Lemma admin_writes_nothing O a : resp_all (fun _ => False) (admin C cfg O a).
Proof.
  destruct a; unfold admin; cbv zeta;
    repeat (runfold; cbn beta iota; resp_step).
Qed.

Lemma c15_only_requests_redirect_lemma w a O loc :
  redirects_to (snd (step C cfg w a O)) loc ->
  exists req, a = AReq req /\ allowed_location cfg req (jar_get (q_browser req) (w_sess w)) loc.
Proof.
  intros Hr. destruct a as [req|p|p|p pw|p|u rm|b k v|ck b j].
  1:{ exists req. split; [reflexivity|]. apply (c15_step_redirects_local_lemma w req O loc Hr). }
  1: exfalso; unfold step in Hr;
       match type of Hr with context [admin C cfg O ?a ?h0] =>
         pose proof (admin_writes_nothing O a h0) as Ha; destruct (admin C cfg O a h0) as [r h] end;
       cbn [snd] in Hr; specialize (Ha _ _ eq_refl (outP_init _ _ _));
       exact (outP_redirects (fun _ => False) r h loc (fun wr Hw => match Ha wr Hw with end) Hr).
  1: exfalso; unfold step in Hr;
       match type of Hr with context [admin C cfg O ?a ?h0] =>
         pose proof (admin_writes_nothing O a h0) as Ha; destruct (admin C cfg O a h0) as [r h] end;
       cbn [snd] in Hr; specialize (Ha _ _ eq_refl (outP_init _ _ _));
       exact (outP_redirects (fun _ => False) r h loc (fun wr Hw => match Ha wr Hw with end) Hr).
  1: exfalso; unfold step in Hr;
       match type of Hr with context [admin C cfg O ?a ?h0] =>
         pose proof (admin_writes_nothing O a h0) as Ha; destruct (admin C cfg O a h0) as [r h] end;
       cbn [snd] in Hr; specialize (Ha _ _ eq_refl (outP_init _ _ _));
       exact (outP_redirects (fun _ => False) r h loc (fun wr Hw => match Ha wr Hw with end) Hr).
  1: exfalso; unfold step in Hr;
       match type of Hr with context [admin C cfg O ?a ?h0] =>
         pose proof (admin_writes_nothing O a h0) as Ha; destruct (admin C cfg O a h0) as [r h] end;
       cbn [snd] in Hr; specialize (Ha _ _ eq_refl (outP_init _ _ _));
       exact (outP_redirects (fun _ => False) r h loc (fun wr Hw => match Ha wr Hw with end) Hr).
  1: exfalso; unfold step in Hr;
       match type of Hr with context [admin C cfg O ?a ?h0] =>
         pose proof (admin_writes_nothing O a h0) as Ha; destruct (admin C cfg O a h0) as [r h] end;
       cbn [snd] in Hr; specialize (Ha _ _ eq_refl (outP_init _ _ _));
       exact (outP_redirects (fun _ => False) r h loc (fun wr Hw => match Ha wr Hw with end) Hr).
  - exfalso. unfold step in Hr. cbn [snd] in Hr. destruct Hr as [Hr|(st & f & Hr)]; discriminate Hr.
  - exfalso. destruct ck; unfold step in Hr; cbn [snd] in Hr; destruct Hr as [Hr|(st & f & Hr)]; discriminate Hr.
Qed.
End B.

(* a supplied value the guard refuses is ignored: the browser goes to a configured target *)
Lemma c15_refused_value_ignored_lemma C cfg w req O loc :
  is_local_redirect (supplied_redir cfg req) = false ->
  redirects_to (snd (step C cfg w (AReq req) O)) loc ->
  In loc (fixed_targets cfg req) \/ route_extra cfg req (jar_get (q_browser req) (w_sess w)) loc.
Proof.
  intros Hn Hr. destruct (c15_step_redirects_local_lemma C cfg w req O loc Hr) as [H|[(_ & -> & Hl)|H]]; auto.
  rewrite Hl in Hn. discriminate Hn.
Qed.

(* ---- every allowed location except the provider's authorisation URL is on the same site ------- *)
(* the mount path is empty or starts with one slash followed by an ordinary byte ("/auth") *)
Definition rooted_ok (s : bytes) : bool :=
  match s with
  | a :: c :: _ => Byte.eqb a sl && (negb (is_slash c) && negb (tab_or_nl c))
  | _ => false
  end.
Definition mount_ok (m : bytes) : bool := bempty m || rooted_ok m.

Lemma byte_eqb_eq (a b : byte) : Byte.eqb a b = true -> a = b.
Proof. intros H. apply Byte.byte_dec_bl in H. exact H. Qed.

Lemma same_site_rooted_ok s tail : rooted_ok s = true -> same_site (s ++ tail) = true.
Proof.
  destruct s as [|a [|c s']]; try discriminate. cbn [rooted_ok]. intros H.
  apply andb_true_iff in H as [Ha Hc]. apply byte_eqb_eq in Ha. subst a.
  cbn [app]. apply same_site_rooted. exact Hc.
Qed.

Lemma same_site_mounted m s tail :
  mount_ok m = true -> rooted_ok s = true -> same_site (m ++ s ++ tail) = true.
Proof.
  unfold mount_ok. intros Hm Hs. destruct m as [|a m'].
  - cbn [app]. apply same_site_rooted_ok. exact Hs.
  - cbn [bempty orb] in Hm. apply (same_site_rooted_ok (a :: m') (s ++ tail)). exact Hm.
Qed.

Lemma same_site_mounted0 m s : mount_ok m = true -> rooted_ok s = true -> same_site (m ++ s) = true.
Proof. intros Hm Hs. rewrite <- (app_nil_r s). apply same_site_mounted; assumption. Qed.

Lemma same_site_carry_query req m s :
  mount_ok m = true -> rooted_ok s = true -> same_site (carry_query req (m ++ s)) = true.
Proof.
  intros Hm Hs. unfold carry_query. destruct (bempty (q_rawquery req)).
  - apply same_site_mounted0; assumption.
  - rewrite <- app_assoc. apply same_site_mounted; assumption.
Qed.

Lemma same_site_with_query t params :
  (exists r, t = sl :: r /\ okb r = true) -> same_site (oauth2_with_query t params) = true.
Proof.
  intros (r & -> & Hok). unfold oauth2_with_query. destruct (bempty_map (oauth2_extra params)).
  - apply same_site_rooted. exact Hok.
  - cbn [app]. apply same_site_rooted. destruct r as [|c r']; [reflexivity|exact Hok].
Qed.

Lemma same_site_path_const (cfg : config) (a b : bytes) :
  same_site a = true -> same_site b = true -> same_site (if c_default_paths cfg then a else b) = true.
Proof. intros Ha Hb. destruct (c_default_paths cfg); assumption. Qed.

Lemma allowed_same_site_lemma cfg req sess loc :
  mount_ok (c_mount cfg) = true ->
  (forall p, q_route req <> ROAuthStart p) ->
  allowed_location cfg req sess loc -> same_site loc = true.
Proof.
  intros Hm Hns [Hin|[(_ & _ & Hl)|Hx]].
  - unfold fixed_targets in Hin. cbn [In] in Hin.
    repeat (destruct Hin as [<-|Hin];
            [first [ apply same_site_path_const; vm_compute; reflexivity
                   | apply same_site_carry_query; [exact Hm|reflexivity]
                   | apply same_site_mounted; [exact Hm|reflexivity]
                   | apply same_site_mounted0; [exact Hm|reflexivity]
                   | idtac ] |]); try contradiction.
    + (* email verify, totp *)
      unfold email_verify_target. destruct (bempty (c_mount cfg)); [vm_compute; reflexivity|].
      apply same_site_mounted0; [exact Hm|reflexivity].
    + unfold email_verify_target. destruct (bempty (c_mount cfg)); [vm_compute; reflexivity|].
      apply same_site_mounted0; [exact Hm|reflexivity].
  - exact (proj1 (c15_safe_lemma loc Hl)).
  - unfold route_extra in Hx. destruct (q_route req) eqn:R; try contradiction.
    + destruct (Hns _ eq_refl).
    + destruct Hx as [->|(t & _ & Hl & ->)].
      * apply same_site_with_query. unfold p_oauth_ok_of. destruct (c_default_paths cfg); eexists; split; reflexivity.
      * apply same_site_with_query. destruct (guard_shape t Hl) as (r & Ht & Hok & _). eauto.
Qed.

Lemma c15_step_same_site_lemma C cfg w req O loc :
  mount_ok (c_mount cfg) = true ->
  (forall p, q_route req <> ROAuthStart p) ->
  redirects_to (snd (step C cfg w (AReq req) O)) loc -> same_site loc = true.
Proof.
  intros Hm Hns Hr. eapply allowed_same_site_lemma; [exact Hm|exact Hns|].
  exact (c15_step_redirects_local_lemma C cfg w req O loc Hr).
Qed.

(* the flows that honour the parameter answer with the supplied value only when the guard accepted it,
   and then a browser resolves it — and what net/http.Redirect makes of it — on the same site *)
Lemma c15_supplied_value_safe_lemma cfg req sess loc :
  allowed_location cfg req sess loc -> ~ In loc (fixed_targets cfg req) -> ~ route_extra cfg req sess loc ->
  honours_redir req = true /\ loc = supplied_redir cfg req /\ is_local_redirect loc = true /\
  same_site loc = true /\ same_site (hex_escape_non_ascii loc) = true /\ same_site (http_redirect_rewrite loc) = true.
Proof.
  intros [H|[(Hh & He & Hl)|H]] N1 N2; [contradiction| |contradiction].
  repeat split; auto; apply (c15_safe_lemma loc Hl).
Qed.

(* ---- the definitions of Part B, spelled out ---------------------------------------------------- *)
Lemma allowed_location_reading cfg req sess loc :
  allowed_location cfg req sess loc <->
  In loc (fixed_targets cfg req) \/
  (honours_redir req = true /\ loc = supplied_redir cfg req /\ is_local_redirect loc = true) \/
  match q_route req with
  | ROAuthStart _ => exists nonce, loc = provider_auth_url nonce
  | ROAuthCallback _ =>
      loc = oauth2_with_query (p_oauth_ok_of cfg) (oauth2_params sess) \/
      exists t, alookup (bs "redir") (oauth2_params sess) = Some t /\ is_local_redirect t = true /\
                loc = oauth2_with_query t (oauth2_params sess)
  | _ => False
  end.
Proof. reflexivity. Qed.

Lemma fixed_targets_reading cfg req :
  fixed_targets cfg req =
  [ p_login_ok_of cfg; p_confirm_ok_of cfg; p_confirm_notok_of cfg; p_lock_notok_of cfg; p_logout_ok_of cfg;
    p_oauth_notok_of cfg; p_recover_ok_of cfg; p_register_ok_of cfg; p_2fa_email_notok_of cfg;
    carry_query req (c_mount cfg ++ bs "/2fa/totp/validate");
    carry_query req (c_mount cfg ++ bs "/2fa/sms/validate");
    login_redir_target cfg req true; login_redir_target cfg req false;
    c_mount cfg ++ bs "/2fa/" ++ kind_name KTotp ++ bs "/setup";
    c_mount cfg ++ bs "/2fa/" ++ kind_name KSms ++ bs "/setup";
    c_mount cfg ++ bs "/2fa/totp/confirm"; c_mount cfg ++ bs "/2fa/sms/confirm";
    email_verify_target cfg KTotp; email_verify_target cfg KSms ].
Proof. reflexivity. Qed.

Lemma redirects_to_reading o loc :
  redirects_to o loc <->
  ob_resp o = Some (RespRedirect302 loc) \/ exists st f, ob_resp o = Some (RespRedirectAPI st loc f).
Proof. reflexivity. Qed.

Lemma honours_redir_reading req :
  honours_redir req = true <->
  q_meth req = POST /\ (q_route req = RLogin \/ q_route req = ROtpLogin \/ q_route req = RTotpValidate \/ q_route req = RSmsValidate).
Proof.
  unfold honours_redir. split.
  - destruct (q_route req); try discriminate; destruct (q_meth req); try discriminate; intros _; split; auto.
  - intros [-> [->|[->|[->| ->]]]]; reflexivity.
Qed.
