(* C10 — logout.  Three facts:
   (L1) the logout handler appends exactly DelAll(whitelist), Del uid, Del halfauth,
        Del last_action (then, in form mode only, the success flash) to the session events and
        exactly Del rm to the cookie events, whatever the storage, the fault oracle, the
        request and the state it starts from;
   (L2) applied to ANY session jar by the reference store, that event list leaves only
        whitelisted keys (minus the three authentication keys) plus possibly the flash, and
        leaves the surviving whitelisted keys untouched;
   (L3) a request to the logout route with another method than the configured one produces
        no client-state event at all. *)
From AB Require Import World.Handlers World.Step Proofs.EvLogic Proofs.Neutral Proofs.MonadInv.
Open Scope Z_scope.

(* ---- maps: lookup through a key-only filter ------------------------------------------- *)
Lemma alookup_filter_key (f : bytes -> bool) k (j : amap) :
  alookup k (filter (fun kv => f (fst kv)) j) = if f k then alookup k j else None.
Proof.
  induction j as [|[k' v] j IH]; simpl.
  - destruct (f k); reflexivity.
  - destruct (f k') eqn:F; simpl.
    + destruct (beqb k k') eqn:B.
      * apply beqb_eq in B. subst k'. rewrite F. reflexivity.
      * exact IH.
    + destruct (beqb k k') eqn:B.
      * apply beqb_eq in B. subst k'. rewrite F in IH. rewrite F. exact IH.
      * exact IH.
Qed.

Lemma ahas_true_lookup k j : ahas k j = true -> exists v, alookup k j = Some v.
Proof. unfold ahas. destruct (alookup k j) as [v|]; [eauto|discriminate]. Qed.

(* ---- L1: the exact events of the handler ---------------------------------------------- *)
Section L.
Variable E : env.
Notation cfg := (e_cfg E).

Lemma current_user_silent h x h1 :
  current_user E h = (x, h1) -> x <> Panic /\ h_sev h1 = h_sev h /\ h_cev h1 = h_cev h.
Proof.
  unfold current_user, current_user_id. intros Eq.
  unfold bind at 1 in Eq. unfold get_h at 1 in Eq.
  destruct (h_cuser h) as [u|].
  - inversion Eq; subst. repeat split; auto. discriminate.
  - apply bind_inv in Eq as [(pid & h2 & E1 & E2)|[(e & E1 & ->)|(E1 & ->)]].
    + assert (h2 = h) as ->.
      { unfold bind, get_h in E1. destruct (h_cpid h); inversion E1; reflexivity. }
      destruct (bempty pid).
      * inversion E2; subst. repeat split; auto. discriminate.
      * apply bind_inv in E2 as [(u & h3 & L & R)|[(e & L & ->)|(L & ->)]].
        -- apply st_load_spec in L as (S1 & S2 & _). inversion R; subst.
           repeat split; auto. discriminate.
        -- apply st_load_spec in L as (S1 & S2 & _). repeat split; auto. discriminate.
        -- apply st_load_spec in L as (_ & _ & _ & _ & _ & _ & _ & N). congruence.
    + unfold bind, get_h in E1. destruct (h_cpid h); inversion E1.
    + unfold bind, get_h in E1. destruct (h_cpid h); inversion E1.
Qed.

Lemma write_resp_silent r h x h' :
  write_resp r h = (x, h') -> h_sev h' = h_sev h /\ h_cev h' = h_cev h.
Proof.
  unfold write_resp, modify. intros Eq. inversion Eq; subst.
  destruct (h_out h); simpl; auto.
Qed.

Definition logout_sev : list csevent :=
  [DelAll (bjoin ","%byte (c_whitelist cfg)); Del k_uid; Del k_halfauth; Del k_last_action].

(* redirect to the logout-success page: at most the success flash *)
Lemma redirect_logout_events h r h' :
  redirect E (ro_ok (p_logout_ok_of (e_cfg E))) h = (r, h') ->
  (h_sev h' = h_sev h \/ h_sev h' = h_sev h ++ [Put k_flash_ok v_flash]) /\ h_cev h' = h_cev h.
Proof.
  unfold redirect, ro_ok. cbn [ro_success ro_failure ro_path ro_follow].
  destruct (c_api cfg).
  - intros Eq. apply bind_inv in Eq as [(a & h1 & E1 & E2)|[(e & E1 & ->)|(E1 & ->)]].
    + unfold render in E1. apply backend_inv in E1 as [(e & Hx & _)|(h0 & S1 & S2 & _ & _ & _ & _ & _ & Eb)].
      * discriminate Hx.
      * inversion Eb; subst. apply write_resp_silent in E2 as (W1 & W2).
        split; [left|]; congruence.
    + unfold render in E1. apply backend_inv in E1 as [(e' & _ & S1 & S2 & _)|(h0 & S1 & S2 & _ & _ & _ & _ & _ & Eb)].
      * split; [left|]; congruence.
      * inversion Eb.
    + unfold render in E1. apply backend_inv in E1 as [(e' & Hx & _)|(h0 & _ & _ & _ & _ & _ & _ & _ & Eb)].
      * discriminate Hx.
      * inversion Eb.
  - intros Eq. unfold bind, put_session, ret, modify in Eq.
    apply write_resp_silent in Eq as (W1 & W2). simpl in W1, W2.
    split; [right|]; assumption.
Qed.

Lemma logout_events_lemma : forall h r h', logout E h = (r, h') ->
  exists tail ctail,
    h_sev h' = h_sev h ++ [DelAll (bjoin ","%byte (c_whitelist cfg)); Del k_uid; Del k_halfauth; Del k_last_action] ++ tail /\
    (tail = [] \/ tail = [Put k_flash_ok v_flash]) /\
    h_cev h' = h_cev h ++ [Del k_rm] ++ ctail /\ ctail = [].
Proof.
  intros h r h' Eq. unfold logout in Eq.
  apply bind_inv in Eq as [(a & h1 & E1 & E2)|[(e & E1 & ->)|(E1 & ->)]].
  - (* the logging prefix changed nothing *)
    assert (S1 : h_sev h1 = h_sev h /\ h_cev h1 = h_cev h).
    { apply try_inv in E1 as [(x & h0 & Cu & NP & K)|(Cu & _)].
      - apply current_user_silent in Cu as (_ & A & B).
        destruct x as [[u sh]|e|]; [| |congruence]; unfold log, modify in K; inversion K; subst; simpl; auto.
      - apply current_user_silent in Cu as (N & _). congruence. }
    destruct S1 as (S1 & C1).
    unfold bind at 1 2 3 4 5 in E2.
    unfold delall_session, del_session, del_cookie, modify in E2.
    apply redirect_logout_events in E2 as (R1 & R2). simpl in R1, R2.
    rewrite S1 in R1. rewrite C1 in R2.
    destruct R1 as [R1|R1].
    + exists [], []. rewrite R1, R2. rewrite <- !app_assoc. simpl. auto.
    + exists [Put k_flash_ok v_flash], []. rewrite R1, R2. rewrite <- !app_assoc. simpl. auto.
  - exfalso. apply try_inv in E1 as [(x & h0 & Cu & NP & K)|(Cu & Hx)]; [|discriminate Hx].
    destruct x as [[u sh]|e0|]; [| |congruence]; unfold log, modify in K; inversion K.
  - exfalso. apply try_inv in E1 as [(x & h0 & Cu & NP & K)|(Cu & _)].
    + destruct x as [[u sh]|e0|]; [| |congruence]; unfold log, modify in K; inversion K.
    + apply current_user_silent in Cu as (N & _). congruence.
Qed.

(* ---- L3: wrong method -------------------------------------------------------------- *)
Lemma logout_wrong_method_lemma :
  q_route (e_req E) = RLogout ->
  meth_eqb (q_meth (e_req E)) (c_logout_method cfg) = false ->
  evs_all (fun _ => False) (fun _ => False) (serve E).
Proof.
  intros Hr Hm. unfold serve, route_table, when, on_method. rewrite Hr, Hm. cbn iota.
  destruct (q_meth (e_req E)), (has_mod cfg MLogout); apply evs_write_resp.
Qed.
End L.

(* ---- L2: what that event list does to any jar ------------------------------------------ *)
Lemma logout_jar_lemma : forall (j : amap) (wl : list bytes) (tail : list csevent),
  (tail = [] \/ tail = [Put k_flash_ok v_flash]) ->
  let j' := apply_events j ([DelAll (bjoin ","%byte wl); Del k_uid; Del k_halfauth; Del k_last_action] ++ tail) in
  (forall k, ahas k j' = true ->
     (bmem k (bsplit ","%byte (bjoin ","%byte wl)) = true /\ k <> k_uid /\ k <> k_halfauth /\ k <> k_last_action)
     \/ k = k_flash_ok) /\
  (forall k, bmem k (bsplit ","%byte (bjoin ","%byte wl)) = true ->
     k <> k_uid -> k <> k_halfauth -> k <> k_last_action -> k <> k_flash_ok ->
     alookup k j' = alookup k j).
Proof.
  intros j wl tail Ht j'.
  set (W := bsplit ","%byte (bjoin ","%byte wl)) in *.
  set (j0 := aremove k_last_action (aremove k_halfauth (aremove k_uid (filter (fun kv => bmem (fst kv) W) j)))).
  assert (Core1 : forall k v, alookup k j0 = Some v ->
            bmem k W = true /\ k <> k_uid /\ k <> k_halfauth /\ k <> k_last_action).
  { intros k v L. unfold j0 in L.
    destruct (bytes_dec k k_last_action) as [->|N1]; [rewrite alookup_aremove_eq in L; discriminate|].
    rewrite alookup_aremove_neq in L by exact N1.
    destruct (bytes_dec k k_halfauth) as [->|N2]; [rewrite alookup_aremove_eq in L; discriminate|].
    rewrite alookup_aremove_neq in L by exact N2.
    destruct (bytes_dec k k_uid) as [->|N3]; [rewrite alookup_aremove_eq in L; discriminate|].
    rewrite alookup_aremove_neq in L by exact N3.
    rewrite (alookup_filter_key (fun x => bmem x W)) in L.
    destruct (bmem k W); [auto|discriminate]. }
  assert (Core2 : forall k, bmem k W = true -> k <> k_uid -> k <> k_halfauth -> k <> k_last_action ->
            alookup k j0 = alookup k j).
  { intros k Hw N3 N2 N1. unfold j0.
    rewrite !alookup_aremove_neq by assumption.
    rewrite (alookup_filter_key (fun x => bmem x W)). rewrite Hw. reflexivity. }
  destruct Ht as [->| ->].
  - assert (Ej : j' = j0) by reflexivity. rewrite Ej. split.
    + intros k Hk. apply ahas_true_lookup in Hk as (v & L). left. eapply Core1; eauto.
    + intros k Hw N3 N2 N1 _. apply Core2; assumption.
  - assert (Ej : j' = aput k_flash_ok v_flash j0) by reflexivity. rewrite Ej. split.
    + intros k Hk. destruct (bytes_dec k k_flash_ok) as [->|N]; [right; reflexivity|].
      apply ahas_true_lookup in Hk as (v & L). rewrite alookup_aput_neq in L by exact N.
      left. eapply Core1; eauto.
    + intros k Hw N3 N2 N1 N0. rewrite alookup_aput_neq by exact N0. apply Core2; assumption.
Qed.
