(* Two-factor settings (C13) and recovery codes (C12), at handler level.

   1. A small Hoare logic [K L m R] over an abstract invariant ("logic" record [klogic]) that
      every event hook keeps; two instances:
        - [LT T]: "the (totp secret, sms number, recovery codes) triple of EVERY stored account
          is what the table T says, the context user agrees with T, the user table is well
          filed" - kept by every handler that has nothing to do with 2FA settings;
        - [LF P L0]: "the context user is P and nobody else's record differs from L0" - kept by
          the settings handlers once the access middleware has put the owner in the context.
   2. What the TOTP confirm / remove handlers need before they change the owner's record.
   3. Recovery codes: [use_recovery_code] removes exactly the matching entry, the same code
      does not verify against what remains, and TOTP validation by recovery code reports
      success only after the Save of the shrunken list succeeded. *)
From AB Require Import World.Handlers Proofs.EvLogic Proofs.Neutral Proofs.MonadInv Proofs.StoreLogic Proofs.Gate.
Open Scope Z_scope.

(* ---- 3a. recovery codes: pure facts ---------------------------------------------------------- *)
Section RC.
Variable E : env.            (* only its crypto component matters *)
Notation C := (e_C E).

Lemma use_rc_spec_lemma : forall codes inp rest,
  use_recovery_code E codes inp = Some rest ->
  exists i, (i < length codes)%nat /\
            pwcheck C (nth i codes []) inp = true /\
            (forall j, (j < i)%nat -> pwcheck C (nth j codes []) inp = false) /\
            rest = firstn i codes ++ skipn (S i) codes /\
            length rest = pred (length codes) /\
            (forall y, In y rest -> In y codes).
Proof.
  induction codes as [|c codes IH]; intros inp rest H; simpl in H; [discriminate|].
  destruct (pwcheck C c inp) eqn:Ck.
  - inversion H; subst rest. exists 0%nat. simpl. repeat split; auto; [lia|intros j Hj; lia].
  - destruct (use_recovery_code E codes inp) as [rest'|] eqn:U; [|discriminate].
    inversion H; subst rest. destruct (IH _ _ U) as (i & Hi & Hc & Hm & Hr & Hl & Hin).
    exists (S i). cbn [length nth firstn skipn]. repeat split.
    + lia.
    + exact Hc.
    + intros j Hj. destruct j as [|j]; [exact Ck|apply Hm; lia].
    + rewrite Hr. reflexivity.
    + cbn [app length]. rewrite Hl. lia.
    + intros y [Hy|Hy]; [left; exact Hy|right; apply Hin; exact Hy].
Qed.

Lemma use_rc_none_iff : forall codes inp,
  use_recovery_code E codes inp = None <-> (forall c, In c codes -> pwcheck C c inp = false).
Proof.
  induction codes as [|c codes IH]; intros inp; simpl.
  - split; [intros _ c []|reflexivity].
  - destruct (pwcheck C c inp) eqn:Ck.
    + split; [discriminate|]. intros H. rewrite (H c (or_introl eq_refl)) in Ck. discriminate.
    + destruct (use_recovery_code E codes inp) eqn:U; simpl.
      * split; [discriminate|]. intros H. exfalso.
        assert (N : use_recovery_code E codes inp = None) by (apply IH; intros c' Hc'; apply H; right; exact Hc').
        congruence.
      * split; [|reflexivity]. intros _ c' [<-|Hc']; [exact Ck|]. apply IH; assumption.
Qed.

Hypothesis laws : crypto_laws C.

(* codes as stored: the hashes of distinct plain codes *)
Lemma use_rc_hashed_lemma : forall plain p rest,
  NoDup plain -> Forall pw_dom plain -> pw_dom p ->
  use_recovery_code E (map (pwhash C) plain) p = Some rest ->
  In p plain /\ rest = map (pwhash C) (remove_first p plain) /\ ~ In p (remove_first p plain) /\
  use_recovery_code E rest p = None.
Proof.
  induction plain as [|a plain IH]; intros p rest ND FD Dp H; simpl in H; [discriminate|].
  inversion ND as [|? ? Na ND']; subst. inversion FD as [|? ? Da FD']; subst.
  assert (NONE : forall l, Forall pw_dom l -> ~ In p l -> use_recovery_code E (map (pwhash C) l) p = None).
  { intros l Fl Nl. apply use_rc_none_iff. intros c Hc. apply in_map_iff in Hc as (x & <- & Hx).
    destruct (pwcheck C (pwhash C x) p) eqn:Ck; [|reflexivity].
    rewrite Forall_forall in Fl. apply (pw_ok C laws x p (Fl x Hx) Dp) in Ck. subst x. contradiction. }
  destruct (pwcheck C (pwhash C a) p) eqn:Ck.
  - apply (pw_ok C laws a p Da Dp) in Ck. subst a. inversion H; subst rest.
    cbn [remove_first]. rewrite beqb_refl.
    split; [left; reflexivity|]. split; [reflexivity|]. split; [exact Na|]. apply NONE; assumption.
  - destruct (use_recovery_code E (map (pwhash C) plain) p) as [rest'|] eqn:U; [|discriminate].
    inversion H; subst rest. destruct (IH _ _ ND' FD' Dp U) as (I1 & I2 & I3 & I4).
    assert (Nap : beqb p a = false).
    { apply beqb_neq. intros ->. assert (T : pwcheck C (pwhash C a) a = true) by (apply (pw_ok C laws a a Da Da); reflexivity).
      congruence. }
    cbn [remove_first]. rewrite Nap. repeat split.
    + right. exact I1.
    + cbn [map]. rewrite I2. reflexivity.
    + intros [Hx|Hx]; [subst a; rewrite beqb_refl in Nap; discriminate|contradiction].
    + cbn [use_recovery_code]. rewrite Ck, I4. reflexivity.
Qed.
End RC.

(* ---- well-filed user tables ------------------------------------------------------------------- *)
Definition filedl (l : list (bytes * user)) : Prop :=
  NoDup (map fst l) /\ forall k u, In (k, u) l -> u_pid u = k.
Definition filed (st : storage) : Prop := filedl (s_users st).

Lemma ulookup_in k u l : ulookup k l = Some u -> In (k, u) l.
Proof.
  induction l as [|[k' u'] l IH]; simpl; [discriminate|]. destruct (beqb k k') eqn:Eb.
  - apply beqb_eq in Eb. subst. intros H; inversion H; subst. left; reflexivity.
  - intros H. right. auto.
Qed.
Lemma ulookup_none_notin k l : ulookup k l = None -> ~ In k (map fst l).
Proof.
  induction l as [|[k' u'] l IH]; simpl; [tauto|]. destruct (beqb k k') eqn:Eb; [discriminate|].
  apply beqb_neq in Eb. intros H [H1|H1]; [congruence|]. exact (IH H H1).
Qed.
Lemma in_ulookup k u l : NoDup (map fst l) -> In (k, u) l -> ulookup k l = Some u.
Proof.
  induction l as [|[k' u'] l IH]; simpl; intros ND H; [contradiction|]. inversion ND as [|? ? N1 N2]; subst.
  destruct H as [H|H].
  - inversion H; subst. rewrite beqb_refl. reflexivity.
  - destruct (beqb k k') eqn:Eb.
    + apply beqb_eq in Eb. subst k'. exfalso. apply N1. apply (in_map fst) in H. exact H.
    + auto.
Qed.
Lemma ufind_in f u l : ufind f l = Some u -> exists k, In (k, u) l.
Proof.
  induction l as [|[k' u'] l IH]; simpl; [discriminate|]. destruct (f u').
  - intros H; inversion H; subst. exists k'. left; reflexivity.
  - intros H. destruct (IH H) as (k & Hk). exists k. right. exact Hk.
Qed.
Lemma uput_in k u k' u' l : In (k', u') (uput k u l) -> (k', u') = (k, u) \/ In (k', u') l.
Proof.
  induction l as [|[k2 u2] l IH]; simpl.
  - intros [H|[]]. left. symmetry. exact H.
  - destruct (beqb k k2); simpl.
    + intros [H|H]; [left; symmetry; exact H|right; right; exact H].
    + intros [H|H]; [right; left; exact H|]. destruct (IH H); auto.
Qed.
Lemma uput_keys_in k u x l : In x (map fst (uput k u l)) -> x = k \/ In x (map fst l).
Proof.
  intros H. apply in_map_iff in H as ([k' u'] & <- & H). apply uput_in in H as [H|H].
  - inversion H; subst. left. reflexivity.
  - right. apply (in_map fst) in H. exact H.
Qed.
Lemma uput_nodup k u l : NoDup (map fst l) -> NoDup (map fst (uput k u l)).
Proof.
  induction l as [|[k2 u2] l IH]; simpl; intros ND.
  - constructor; [intros []|constructor].
  - inversion ND as [|? ? N1 N2]; subst. destruct (beqb k k2) eqn:Eb; simpl.
    + apply beqb_eq in Eb. subst k2. constructor; assumption.
    + apply beqb_neq in Eb. constructor; [|auto]. intros H. apply uput_keys_in in H as [H|H]; [congruence|contradiction].
Qed.
Lemma filedl_uput u l : filedl l -> filedl (uput (u_pid u) u l).
Proof.
  intros [ND Ky]. split; [apply uput_nodup; exact ND|].
  intros k v H. apply uput_in in H as [H|H]; [inversion H; subst; reflexivity|auto].
Qed.
Lemma nodup_snoc {A} (x : A) l : NoDup l -> ~ In x l -> NoDup (l ++ [x]).
Proof.
  induction l as [|y l IH]; simpl; intros ND Nx; [constructor; [intros []|constructor]|].
  inversion ND; subst. constructor.
  - intros H. apply in_app_or in H as [H|[H|[]]]; [contradiction|]. apply Nx. left. symmetry. exact H.
  - apply IH; [assumption|]. intros H. apply Nx. right. exact H.
Qed.
Lemma filedl_snoc u l : filedl l -> ulookup (u_pid u) l = None -> filedl (l ++ [(u_pid u, u)]).
Proof.
  intros [ND Ky] N. split.
  - rewrite map_app. simpl. apply nodup_snoc; [exact ND|apply ulookup_none_notin; exact N].
  - intros k v H. apply in_app_or in H as [H|[H|[]]]; [auto|inversion H; subst; reflexivity].
Qed.
Lemma filed_keyed st : filed st -> keyed st.
Proof. intros [_ Ky] k u H. apply Ky. apply ulookup_in. exact H. Qed.
Lemma filedl_found f u l : filedl l -> ufind f l = Some u -> ulookup (u_pid u) l = Some u.
Proof.
  intros [ND Ky] H. apply ufind_in in H as (k & Hk). rewrite (Ky _ _ Hk). apply in_ulookup; assumption.
Qed.
Lemma ulookup_snoc_other k p u l : p <> k -> ulookup p (l ++ [(k, u)]) = ulookup p l.
Proof.
  intros N. induction l as [|[k2 u2] l IH]; simpl.
  - destruct (beqb p k) eqn:Eb; [apply beqb_eq in Eb; contradiction|reflexivity].
  - destruct (beqb p k2); auto.
Qed.
Lemma ulookup_snoc_some p v k u l : ulookup p l = Some v -> ulookup p (l ++ [(k, u)]) = Some v.
Proof.
  induction l as [|[k2 u2] l IH]; simpl; [discriminate|]. destruct (beqb p k2); auto.
Qed.
Lemma ulookup_snoc_new k u l : ulookup k l = None -> ulookup k (l ++ [(k, u)]) = Some u.
Proof.
  induction l as [|[k2 u2] l IH]; simpl; [rewrite beqb_refl; reflexivity|]. destruct (beqb k k2); [discriminate|auto].
Qed.

(* ---- the 2FA fields of an account -------------------------------------------------------------- *)
Definition tf3 (u : user) : bytes * bytes * bytes := (u_totp u, u_sms u, u_recovery u).
Definition tf_of (st : storage) (p : bytes) : option (bytes * bytes * bytes) :=
  option_map (fun u => (u_totp u, u_sms u, u_recovery u)) (ulookup p (s_users st)).

(* ---- a Hoare logic over an abstract invariant kept by every hook ------------------------------ *)
Record klogic (E : env) := mkK {
  k_inv : hst -> Prop;
  k_good : user -> Prop;            (* users that may be put in the context / saved *)
  k_uc : forall h h', uc h' = uc h -> k_inv h -> k_inv h';
  k_cuser : forall h u, k_inv h -> k_good u -> k_inv (h <| h_cuser := Some u |>);
  k_save : forall h h' u, k_inv h -> k_good u -> h_cuser h' = h_cuser h ->
             h_st h' = h_st h <| s_users := uput (u_pid u) u (s_users (h_st h)) |> -> k_inv h';
  k_cur : forall h r h', k_inv h -> current_user E h = (r, h') ->
             k_inv h' /\ forall x, r = Ok x -> k_good (fst x);
  k_ext : forall u u', u_pid u' = u_pid u -> tf3 u' = tf3 u -> k_good u -> k_good u'
}.
Arguments k_inv {E}. Arguments k_good {E}. Arguments k_uc {E}. Arguments k_cuser {E}.
Arguments k_save {E}. Arguments k_cur {E}. Arguments k_ext {E}.

Section KL.
Context {E : env} (L : klogic E).

Definition K {A} (m : M A) (R : A -> Prop) : Prop :=
  forall h r h', k_inv L h -> m h = (r, h') -> k_inv L h' /\ forall a, r = Ok a -> R a.

Lemma K_weaken {A} (m : M A) (R R' : A -> Prop) : K m R -> (forall a, R a -> R' a) -> K m R'.
Proof. intros Hm W h r h' I Eq. destruct (Hm _ _ _ I Eq) as [I' P]. split; [exact I'|]. intros a Ha. apply W, P, Ha. Qed.
Lemma K_top {A} (m : M A) R : K m R -> K m (fun _ => True).
Proof. intros Hm. apply (K_weaken m R); auto. Qed.
Lemma K_pres {A} (m : M A) : pres uc m -> K m (fun _ => True).
Proof. intros Hp h r h' I Eq. split; [|auto]. apply (k_uc L h h'); [eapply Hp; eauto|exact I]. Qed.
Lemma K_ret {A} (a : A) (R : A -> Prop) : R a -> K (ret a) R.
Proof. intros Ha h r h' I Eq. inversion Eq; subst. split; [exact I|]. intros a' H. inversion H; subst. exact Ha. Qed.
Lemma K_ret_top {A} (a : A) : K (ret a) (fun _ => True).
Proof. apply K_ret. exact I. Qed.
Lemma K_fail {A} e (R : A -> Prop) : K (fail e) R.
Proof. intros h r h' I Eq. inversion Eq; subst. split; [exact I|]. intros a H. discriminate H. Qed.
Lemma K_panic {A} (R : A -> Prop) : K panic R.
Proof. intros h r h' I Eq. inversion Eq; subst. split; [exact I|]. intros a H. discriminate H. Qed.
Lemma K_bind {A B} (m : M A) (f : A -> M B) R R' :
  K m R -> (forall a, R a -> K (f a) R') -> K (bind m f) R'.
Proof.
  intros Hm Hf h r h' I Eq. destruct (bind_inv _ _ _ _ _ Eq) as [(a & h1 & E1 & E2)|[(e & E1 & ->)|(E1 & ->)]].
  - destruct (Hm _ _ _ I E1) as [I1 P1]. exact (Hf a (P1 a eq_refl) _ _ _ I1 E2).
  - destruct (Hm _ _ _ I E1) as [I1 _]. split; [exact I1|intros a H; discriminate H].
  - destruct (Hm _ _ _ I E1) as [I1 _]. split; [exact I1|intros a H; discriminate H].
Qed.
Lemma K_try {A B} (m : M A) (f : res A -> M B) R R' :
  K m R -> (forall a, R a -> K (f (Ok a)) R') -> (forall e, K (f (Err e)) R') -> K (try m f) R'.
Proof.
  intros Hm Hok Herr h r h' I Eq. destruct (try_inv _ _ _ _ _ Eq) as [(x & h1 & E1 & NP & E2)|(E1 & ->)].
  - destruct (Hm _ _ _ I E1) as [I1 P1]. destruct x as [a|e|]; [|exact (Herr e _ _ _ I1 E2)|congruence].
    exact (Hok a (P1 a eq_refl) _ _ _ I1 E2).
  - destruct (Hm _ _ _ I E1) as [I1 _]. split; [exact I1|intros a H; discriminate H].
Qed.
Lemma K_set_cuser u : k_good L u -> K (set_cuser u) (fun _ => True).
Proof. intros G h r h' I Eq. inversion Eq; subst. split; [|auto]. apply k_cuser; assumption. Qed.
Lemma K_st_save u : k_good L u -> K (st_save (e_O E) u) (fun _ => True).
Proof.
  intros G h r h' I Eq. split; [|auto].
  apply st_save_spec in Eq as (_ & _ & _ & Cu & [(e & _ & St)|(_ & St)]).
  - apply (k_uc L h h'); [unfold uc; rewrite St, Cu; reflexivity|exact I].
  - apply (k_save L h h' u); assumption.
Qed.
Lemma K_current_user : K (current_user E) (fun x => k_good L (fst x)).
Proof. intros h r h' I Eq. exact (k_cur L h r h' I Eq). Qed.
End KL.

Lemma pres_uc_st_use_rm O p t : pres uc (st_use_rm O p t).
Proof.
  apply (pres_backend uc). intros h r h' Eq. cbv zeta in Eq.
  destruct (bmem t (rmlookup p (s_rm (h_st h)))); inversion Eq; subst; reflexivity.
Qed.

Ltac kgood :=
  cbn [fst snd] in *;
  first [ assumption
        | match goal with H : k_good _ ?u |- k_good _ _ => apply (k_ext _ u); [reflexivity|reflexivity|exact H] end
        | match goal with H : _ |- _ => exact H end ].

Ltac k_atom lem := first [ apply lem | eapply K_top; apply lem ].

Ltac k_extra := fail.       (* atoms added later: fire, loads, ... *)
Ltac k_pre := fail.         (* instance-specific rules that take precedence *)
Ltac k_step :=
  match goal with
  | |- K _ _ _ => k_pre
  | |- K _ (bind _ _) _ => eapply K_bind; [|intros]
  | |- K _ (try _ _) _ => eapply K_try; [|intros|intros]
  | |- K _ (ret _) _ => first [apply K_ret_top | apply K_ret; kgood]
  | |- K _ (fail _) _ => apply K_fail
  | |- K _ panic _ => apply K_panic
  | |- K _ (set_cuser _) _ => apply K_set_cuser; kgood
  | |- K _ (st_save _ _) _ => apply K_st_save; kgood
  | |- K _ (current_user _) _ => k_atom K_current_user
  | |- K _ (st_use_rm _ _ _) _ => apply K_pres, pres_uc_st_use_rm
  | |- K _ (if ?c then _ else _) _ => destruct c eqn:?
  | |- K _ (match ?x with _ => _ end) _ => destruct x eqn:?
  | |- K _ _ _ => first [k_extra | apply K_pres; pres_go; fail]
  end.
Ltac k_go := repeat (unfold store_back, update_locked_state, lock_apply; cbn beta iota zeta; k_step).

Section KH.
Context {E : env} (L : klogic E).

(* every hook of every module keeps the invariant: the lock hooks change only the lock triple of
   the context user, the confirmation starter only the confirm fields, the rest save nothing *)
Lemma K_hook hk rm hd : K L (run_hook E hk rm hd) (fun _ => True).
Proof. destruct hk; unfold run_hook; k_go. Qed.

Lemma K_call hs : forall rm hd, K L (call E hs rm hd) (fun _ => True).
Proof.
  induction hs as [|hk hs IH]; intros rm hd; cbn [call].
  - apply K_ret_top.
  - eapply K_bind; [apply K_hook|intros; apply IH].
Qed.

Lemma K_fire e rm : K L (fire E e rm) (fun _ => True).
Proof. unfold fire. apply K_call. Qed.
End KH.

Ltac k_extra ::=
  match goal with
  | |- K _ (fire _ _ _) _ => apply K_fire
  | |- K _ (call _ _ _ _) _ => apply K_call
  | |- K _ (run_hook _ _ _ _) _ => apply K_hook
  end.

(* ---- 1. instance: everybody's 2FA triple stays what the table T says ------------------------- *)
Section T.
Variable E : env.
Variable T : bytes -> option (bytes * bytes * bytes).

Definition goodT (u : user) : Prop := T (u_pid u) = Some (tf3 u).
Definition invT (h : hst) : Prop :=
  filed (h_st h) /\ (forall p, tf_of (h_st h) p = T p) /\ (forall cu, h_cuser h = Some cu -> goodT cu).

Lemma invT_loaded h pid u : invT h -> ulookup pid (s_users (h_st h)) = Some u -> goodT u.
Proof.
  intros (F & Tb & _) Hu. pose proof (filed_keyed _ F _ _ Hu) as Pk. unfold goodT. rewrite Pk, <- Tb.
  unfold tf_of. rewrite Hu. reflexivity.
Qed.

Lemma invT_uc h h' : uc h' = uc h -> invT h -> invT h'.
Proof.
  unfold uc. intros Eq (F & Tb & Cx). inversion Eq as [[A1 A2]]. unfold invT, filed, tf_of. rewrite A1, A2. auto.
Qed.

Lemma invT_save h h' u :
  invT h -> goodT u -> h_cuser h' = h_cuser h ->
  h_st h' = h_st h <| s_users := uput (u_pid u) u (s_users (h_st h)) |> -> invT h'.
Proof.
  intros (F & Tb & Cx) G Cu St. unfold invT, filed, tf_of. rewrite St, Cu. cbn [s_users set]. simpl.
  split; [apply filedl_uput; exact F|]. split; [|exact Cx].
  intros p. destruct (bytes_dec p (u_pid u)) as [->|N].
  - rewrite ulookup_uput_eq. symmetry. exact G.
  - rewrite ulookup_uput_neq by exact N. apply Tb.
Qed.

Lemma invT_cur h r h' :
  invT h -> current_user E h = (r, h') -> invT h' /\ forall x, r = Ok x -> goodT (fst x).
Proof.
  intros I Eq. unfold current_user in Eq.
  apply bind_inv in Eq as [(hh & k0 & F0 & L)|[(e & F0 & Hr)|(F0 & Hr)]]; try (inversion F0; fail).
  inversion F0; subst hh k0; clear F0.
  destruct (h_cuser h) as [cu|] eqn:Hc.
  - inversion L; subst. split; [exact I|]. intros x Hx. inversion Hx; subst. simpl.
    destruct I as (_ & _ & Cx). apply Cx. exact Hc.
  - unfold current_user_id in L.
    apply bind_inv in L as [(pid & k1 & F1 & L)|[(e & F1 & Hr)|(F1 & Hr)]].
    2:{ apply bind_inv in F1 as [(hh & k0 & F0 & F1)|[(e' & F0 & Hr')|(F0 & Hr')]]; try (inversion F0; fail).
        inversion F0; subst hh k0. destruct (h_cpid h); inversion F1. }
    2:{ apply bind_inv in F1 as [(hh & k0 & F0 & F1)|[(e' & F0 & Hr')|(F0 & Hr')]]; try (inversion F0; fail).
        inversion F0; subst hh k0. destruct (h_cpid h); inversion F1. }
    apply bind_inv in F1 as [(hh & k0 & F0 & F1)|[(e & F0 & Hr)|(F0 & Hr)]]; try (inversion F0; fail).
    inversion F0; subst hh k0; clear F0.
    assert (k1 = h) by (destruct (h_cpid h); inversion F1; reflexivity). subst k1.
    destruct (bempty pid); [inversion L; subst; split; [exact I|intros x Hx; discriminate Hx]|].
    apply bind_inv in L as [(u1 & k3 & F3 & L)|[(e & F3 & Hr)|(F3 & Hr)]];
      pose proof (st_load_spec _ _ _ _ _ F3) as (_ & _ & _ & S4 & S5 & _ & Hu & _).
    + inversion L; subst. split.
      * apply (invT_uc h h'); [unfold uc; rewrite S4, S5; reflexivity|exact I].
      * intros x Hx. inversion Hx; subst. simpl. apply (invT_loaded h pid); [exact I|apply Hu; reflexivity].
    + subst r. split; [|intros x Hx; discriminate Hx].
      apply (invT_uc h h'); [unfold uc; rewrite S4, S5; reflexivity|exact I].
    + subst r. split; [|intros x Hx; discriminate Hx].
      apply (invT_uc h h'); [unfold uc; rewrite S4, S5; reflexivity|exact I].
Qed.

Definition LT : klogic E.
Proof.
  refine (mkK E invT goodT invT_uc _ invT_save invT_cur _).
  - intros h u (F & Tb & Cx) G. split; [exact F|]. split; [exact Tb|]. simpl. intros cu Hcu. inversion Hcu; subst. exact G.
  - intros u u' P3 T3 G. unfold goodT in *. rewrite P3, T3. exact G.
Defined.

Lemma K_st_load pid : K LT (st_load (e_O E) pid) goodT.
Proof.
  intros h r h' I Eq. pose proof (st_load_spec _ _ _ _ _ Eq) as (_ & _ & _ & S4 & S5 & _ & Hu & _). split.
  - apply (invT_uc h h'); [unfold uc; rewrite S4, S5; reflexivity|exact I].
  - intros u Hr. apply (invT_loaded h pid); [exact I|apply Hu; exact Hr].
Qed.
Lemma K_st_load_by_csel sel : K LT (st_load_by_csel (e_O E) sel) goodT.
Proof.
  intros h r h' I Eq. pose proof (st_load_by_csel_spec _ _ _ _ _ Eq) as (S4 & S5 & _ & Hu & _). split.
  - apply (invT_uc h h'); [unfold uc; rewrite S4, S5; reflexivity|exact I].
  - intros u Hr. apply (invT_loaded h (u_pid u)); [exact I|]. destruct I as (F & _).
    eapply filedl_found; [exact F|apply Hu; exact Hr].
Qed.
Lemma K_st_load_by_rsel sel : K LT (st_load_by_rsel (e_O E) sel) goodT.
Proof.
  intros h r h' I Eq. pose proof (st_load_by_rsel_spec _ _ _ _ _ Eq) as (S4 & S5 & _ & Hu). split.
  - apply (invT_uc h h'); [unfold uc; rewrite S4, S5; reflexivity|exact I].
  - intros u Hr. apply (invT_loaded h (u_pid u)); [exact I|]. destruct I as (F & _).
    eapply filedl_found; [exact F|apply Hu; exact Hr].
Qed.
End T.

Ltac k_extra ::=
  match goal with
  | |- K _ (fire _ _ _) _ => apply K_fire
  | |- K _ (call _ _ _ _) _ => apply K_call
  | |- K _ (run_hook _ _ _ _) _ => apply K_hook
  | |- K _ (st_load _ _) _ => k_atom K_st_load
  | |- K _ (st_load_by_csel _ _) _ => k_atom K_st_load_by_csel
  | |- K _ (st_load_by_rsel _ _) _ => k_atom K_st_load_by_rsel
  end.

Section TH.
Variable E : env.
Variable T : bytes -> option (bytes * bytes * bytes).
Notation KT := (K (LT E T)).

Lemma KT_login_post : KT (login_post E) (fun _ => True).
Proof. unfold login_post. k_go. Qed.
Lemma KT_otp_login_post : KT (otp_login_post E) (fun _ => True).
Proof. unfold otp_login_post. k_go. Qed.
Lemma KT_confirm_get : KT (confirm_get E) (fun _ => True).
Proof. unfold confirm_get, invalid_confirm_token. k_go. Qed.
Lemma KT_recover_start_post : KT (recover_start_post E) (fun _ => True).
Proof. unfold recover_start_post. k_go. Qed.
Lemma KT_recover_end_post : KT (recover_end_post E) (fun _ => True).
Proof. unfold recover_end_post, invalid_recover_token. k_go. Qed.
Lemma KT_logout : KT (logout E) (fun _ => True).
Proof. unfold logout. k_go. Qed.
Lemma KT_otp_add_post : KT (otp_add_post E) (fun _ => True).
Proof. unfold otp_add_post. k_go. Qed.
Lemma KT_otp_clear_post : KT (otp_clear_post E) (fun _ => True).
Proof. unfold otp_clear_post. k_go. Qed.
Lemma KT_remember_authenticate : KT (remember_authenticate E) (fun _ => True).
Proof. unfold remember_authenticate. k_go. Qed.
Lemma KT_oauth2_start p : KT (oauth2_start E p) (fun _ => True).
Proof. unfold oauth2_start. k_go. Qed.
End TH.

Section TH2.
Variable E : env.
Variable T : bytes -> option (bytes * bytes * bytes).
Notation KT := (K (LT E T)).

Lemma KT_load_current_user : KT (load_current_user E) (fun _ => True).
Proof. unfold load_current_user. k_go. Qed.
End TH2.

Ltac k_extra ::=
  match goal with
  | |- K _ (fire _ _ _) _ => apply K_fire
  | |- K _ (call _ _ _ _) _ => apply K_call
  | |- K _ (run_hook _ _ _ _) _ => apply K_hook
  | |- K _ (st_load _ _) _ => k_atom K_st_load
  | |- K _ (st_load_by_csel _ _) _ => k_atom K_st_load_by_csel
  | |- K _ (st_load_by_rsel _ _) _ => k_atom K_st_load_by_rsel
  | |- K _ (load_current_user _) _ => apply KT_load_current_user
  end.

Section TH3.
Variable E : env.
Variable T : bytes -> option (bytes * bytes * bytes).
Notation KT := (K (LT E T)).

(* the middlewares in front of the handlers *)
Lemma KT_auth_middleware mp full tf fr : KT (auth_middleware E mp full tf fr) (fun _ => True).
Proof. unfold auth_middleware, mw_fail. k_go. Qed.
Lemma KT_remember_mw : KT (remember_mw E) (fun _ => True).
Proof. unfold remember_mw. k_go. apply KT_remember_authenticate. Qed.
Lemma KT_lock_mw : KT (lock_mw E) (fun _ => True).
Proof. unfold lock_mw. k_go. Qed.
Lemma KT_confirm_mw : KT (confirm_mw E) (fun _ => True).
Proof. unfold confirm_mw. k_go. Qed.
(* the 2FA set-up steps that come before the confirmation *)
Lemma KT_totp_setup_post : KT (totp_setup_post E) (fun _ => True).
Proof. unfold totp_setup_post. k_go. Qed.
Lemma KT_sms_setup_post : KT (sms_setup_post E) (fun _ => True).
Proof. unfold sms_setup_post. k_go. Qed.
Lemma KT_email_verify_post k : KT (email_verify_post E k) (fun _ => True).
Proof. unfold email_verify_post. k_go. Qed.
Lemma KT_email_verify_end k : KT (email_verify_end E k) (fun _ => True).
Proof. unfold email_verify_end. k_go. Qed.
End TH3.

(* ---- the statement in closed form --------------------------------------------------------------- *)
Definition ctx_ok (h : hst) : Prop :=
  forall cu, h_cuser h = Some cu -> tf_of (h_st h) (u_pid cu) = Some (tf3 cu).

Definition keeps2fa {A} (m : M A) : Prop :=
  forall h r h', filed (h_st h) -> ctx_ok h -> m h = (r, h') ->
    filed (h_st h') /\ ctx_ok h' /\ forall p, tf_of (h_st h') p = tf_of (h_st h) p.

Lemma ctx_ok_none h : h_cuser h = None -> ctx_ok h.
Proof. intros N cu H. congruence. Qed.

Lemma invT_start h : filed (h_st h) -> ctx_ok h -> invT (tf_of (h_st h)) h.
Proof. intros F Cx. split; [exact F|]. split; [reflexivity|exact Cx]. Qed.
Lemma invT_end T h : invT T h -> filed (h_st h) /\ ctx_ok h /\ forall p, tf_of (h_st h) p = T p.
Proof.
  intros (F & Tb & Cx). split; [exact F|]. split; [|exact Tb]. intros cu Hc. rewrite Tb. apply Cx. exact Hc.
Qed.

Lemma keeps2fa_of_K {E : env} {A} (m : M A) R : (forall T, K (LT E T) m R) -> keeps2fa m.
Proof.
  intros H h r h' F Cx Eq. destruct (H (tf_of (h_st h)) h r h' (invT_start h F Cx) Eq) as [I' _].
  apply invT_end. exact I'.
Qed.

Section ST.
Variable E : env.
Lemma st_create_store_spec u h r h' :
  st_create (e_O E) u h = (r, h') ->
  h_cuser h' = h_cuser h /\
  ((r = Ok tt /\ ulookup (u_pid u) (s_users (h_st h)) = None /\
    h_st h' = h_st h <| s_users := s_users (h_st h) ++ [(u_pid u, u)] |>) \/
   ((exists e, r = Err e) /\ h_st h' = h_st h)).
Proof.
  unfold st_create. intros Eq.
  destruct (backend_inv _ _ _ _ _ _ Eq) as [(e & -> & _ & _ & _ & A4 & A5 & _)|(h1 & _ & _ & _ & A4 & A5 & _ & _ & Eb)].
  - split; [exact A5|right; eauto].
  - destruct (ulookup (u_pid u) (s_users (h_st h1))) eqn:L; inversion Eb; subst; rewrite A4 in L.
    + split; [exact A5|right; eauto].
    + simpl. rewrite A4. split; [exact A5|left; auto].
Qed.

Lemma KT_register_tail T u pid :
  goodT T u ->
  K (LT E T) (set_cuser u ;;;
              handled <- fire E EvAfterRegister false ;;
              if handled then ret tt else
              put_session k_uid pid ;;; log [pid] ;;; redirect E (ro_ok (p_register_ok_of (e_cfg E)))) (fun _ => True).
Proof. intros G. k_go. Qed.

Lemma same_uc_2fa h h' : uc h' = uc h -> filed (h_st h) -> ctx_ok h ->
  filed (h_st h') /\ ctx_ok h' /\ forall p, tf_of (h_st h') p = tf_of (h_st h) p.
Proof.
  unfold uc. intros Eq F Cx. inversion Eq as [[A1 A2]]. unfold filed, ctx_ok, tf_of. rewrite A1, A2. auto.
Qed.

Lemma register_post_2fa h r h' :
  filed (h_st h) -> ctx_ok h -> register_post E h = (r, h') ->
  filed (h_st h') /\ ctx_ok h' /\
  forall p, p <> aget (pid_field E) (values E) \/ ulookup p (s_users (h_st h)) <> None ->
            tf_of (h_st h') p = tf_of (h_st h) p.
Proof.
  intros F Cx Eq.
  assert (W : forall h2, uc h2 = uc h ->
     filed (h_st h2) /\ ctx_ok h2 /\
     forall p, p <> aget (pid_field E) (values E) \/ ulookup p (s_users (h_st h)) <> None ->
               tf_of (h_st h2) p = tf_of (h_st h) p).
  { intros h2 U. destruct (same_uc_2fa h h2 U F Cx) as (A & B & D). auto. }
  unfold register_post in Eq.
  apply bind_inv in Eq as [(v & h1 & E1 & E2)|[(e & E1 & ->)|(E1 & ->)]];
    apply read_values_spec in E1 as [-> [Hv|Hv]]; try discriminate Hv; try (apply W; reflexivity).
  inversion Hv; subst v; clear Hv. cbn beta zeta in E2.
  destruct (negb (valid _ _ (values E))).
  { apply W. revert E2. generalize h r h'.
    change (pres uc (log [] ;;; respond E (bs "register") [(bs "errors", DOther); (bs "preserve", DOther)])). pres_go. }
  destruct (72 <? length (aget f_password (values E)))%nat.
  { apply W. exact (pres_backend uc _ KHash _ (pres_fail uc _) _ _ _ E2). }
  apply bind_inv in E2 as [(pass & h2 & E1 & E2)|[(e & E1 & ->)|(E1 & ->)]];
    assert (U2 := pres_backend uc _ KHash _ (pres_ret uc _) _ _ _ E1); try (apply W; exact U2).
  clear E1. cbn beta zeta in E2.
  match type of E2 with try (st_create _ ?u0) _ _ = _ => set (u := u0) in * end.
  assert (Pu : u_pid u = aget (pid_field E) (values E)) by reflexivity.
  assert (T3 : tf3 u = ([], [], [])) by reflexivity.
  clearbody u.
  apply try_inv in E2 as [(x & h3 & C1 & NP & K1)|(C1 & ->)];
    apply st_create_store_spec in C1 as (Cu & [(Hx & None0 & St)|((e & Hx) & St)]); try discriminate Hx.
  2:{ subst x. assert (U3 : uc h3 = uc h) by (unfold uc in *; rewrite St, Cu; exact U2).
      destruct e; try (inversion K1; subst; apply W; exact U3).
      apply W. rewrite <- U3.
      match type of K1 with ?m _ = _ => assert (P : pres uc m) by pres_go; exact (P _ _ _ K1) end. }
  subst x. unfold uc in U2. inversion U2 as [[U2a U2b]].
  set (T := tf_of (h_st h3)).
  assert (SN : forall p, p <> u_pid u \/ ulookup p (s_users (h_st h)) <> None ->
                 ulookup p (s_users (h_st h3)) = ulookup p (s_users (h_st h))).
  { intros p Hp. rewrite St, U2a in *. cbn [s_users set]. simpl.
    destruct (bytes_dec p (u_pid u)) as [->|N]; [|apply ulookup_snoc_other; exact N].
    destruct Hp as [Hp|Hp]; [contradiction|]. destruct (ulookup (u_pid u) (s_users (h_st h))); [discriminate None0|contradiction]. }
  assert (I3 : invT T h3).
  { split.
    - unfold filed. rewrite St. simpl. apply filedl_snoc; [rewrite U2a; exact F|exact None0].
    - split; [reflexivity|]. intros cu Hc. rewrite Cu, U2b in Hc. unfold goodT, T, tf_of.
      pose proof (Cx cu Hc) as G. unfold tf_of in G.
      rewrite SN; [exact G|]. right. destruct (ulookup (u_pid cu) (s_users (h_st h))); [discriminate|discriminate G]. }
  assert (G : goodT T u).
  { unfold goodT, T, tf_of. rewrite St. simpl. rewrite (ulookup_snoc_new _ _ _ None0). reflexivity. }
  destruct (KT_register_tail T u _ G _ _ _ I3 K1) as [I' _].
  apply invT_end in I' as (F' & Cx' & Tb'). split; [exact F'|]. split; [exact Cx'|].
  intros p Hp. rewrite ?U2a in *. rewrite Tb'. unfold T, tf_of. rewrite SN; [reflexivity|]. rewrite Pu. exact Hp.
Qed.
End ST.

(* ---- 2. instance: the context user is P, nobody else's record changes ------------------------- *)
Section F.
Variable E : env.
Variable P : bytes.
Variable L0 : list (bytes * user).

Definition goodF (u : user) : Prop := u_pid u = P.
Definition invF (h : hst) : Prop :=
  (exists cu, h_cuser h = Some cu /\ u_pid cu = P) /\
  (forall p, p <> P -> ulookup p (s_users (h_st h)) = ulookup p L0).

Lemma current_user_ctx h cu : h_cuser h = Some cu -> current_user E h = (Ok (cu, true), h).
Proof. intros Hc. unfold current_user, bind, get_h. rewrite Hc. reflexivity. Qed.

Definition LF : klogic E.
Proof.
  refine (mkK E invF goodF _ _ _ _ _).
  - unfold uc. intros h h' Eq I. inversion Eq as [[A1 A2]]. unfold invF. rewrite A1, A2. exact I.
  - intros h u (_ & Fr) G. split; [exists u; split; [reflexivity|exact G]|exact Fr].
  - intros h h' u (Cx & Fr) G Cu St. unfold invF. rewrite St, Cu. split; [exact Cx|].
    intros p Np. simpl. rewrite G. rewrite ulookup_uput_neq by exact Np. apply Fr. exact Np.
  - intros h r h' I Eq. pose proof I as ((cu & Hc & Pc) & _).
    rewrite (current_user_ctx h cu Hc) in Eq. inversion Eq; subst. split; [exact I|].
    intros x Hx. inversion Hx; subst. exact Pc.
  - intros u u' P3 _ G. unfold goodF in *. congruence.
Defined.

(* with the owner in the context CurrentUser never fails, so the fall-back that loads the
   half-authenticated ("pending") user is not taken *)
Lemma KF_try_current_user {B} (f : res (user * bool) -> M B) (R : B -> Prop) :
  (forall x, goodF (fst x) -> K LF (f (Ok x)) R) -> K LF (try (current_user E) f) R.
Proof.
  intros Hf h r h' I Eq. pose proof I as ((cu & Hc & Pc) & _).
  unfold try in Eq. rewrite (current_user_ctx h cu Hc) in Eq.
  exact (Hf (cu, true) Pc h r h' I Eq).
Qed.
End F.

Ltac k_pre ::=
  match goal with
  | |- K (LF _ _ _) (try (current_user _) _) _ => apply KF_try_current_user; intros
  end.

Section FH.
Variable E : env.
Variable P : bytes.
Variable L0 : list (bytes * user).
Notation KF := (K (LF E P L0)).
Notation gF := (k_good (LF E P L0)).

Lemma KF_totp_confirm_post : KF (totp_confirm_post E) (fun _ => True).
Proof. unfold totp_confirm_post. k_go. Qed.

Lemma KF_recovery_regen_post : KF (recovery_regen_post E) (fun _ => True).
Proof. unfold recovery_regen_post. k_go. Qed.

Lemma KF_totp_validate : KF (totp_validate E) (fun x => gF (fst (fst x))).
Proof.
  unfold totp_validate.
  eapply (K_bind _ _ _ (fun x => gF (fst x))); [apply KF_try_current_user; intros x G; apply K_ret; exact G|intros].
  k_go.
Qed.

Lemma KF_totp_remove_post : KF (totp_remove_post E) (fun _ => True).
Proof. unfold totp_remove_post. eapply K_bind; [apply KF_totp_validate|intros]. k_go. Qed.

Lemma KF_sms_validate_code p u sh inp rc : gF u -> KF (sms_validate_code E p u sh inp rc) (fun _ => True).
Proof.
  intros G. unfold sms_validate_code.
  eapply (K_bind _ _ _ (fun vu => gF (snd vu))); [|intros]; k_go.
Qed.

Lemma KF_sms_validator_post p : KF (sms_validator_post E p) (fun _ => True).
Proof.
  unfold sms_validator_post.
  eapply (K_bind _ _ _ (fun x => gF (fst x))); [apply KF_try_current_user; intros x G; apply K_ret; exact G|intros].
  unfold sms_send_code. k_go; apply KF_sms_validate_code; kgood.
Qed.
End FH.

(* ---- 2b / 3b. what the TOTP handlers need before they change the owner's record ---------------- *)
Definition tv_tail (E : env) (u : user) (shared : bool) : M (user * bool * option tstatus) :=
  if bempty (u_totp u) then ret (u, shared, None) else
  vals <- read_values E ;;
  let rc := aget f_recovery_code vals in
  if negb (bempty rc) then
    match use_recovery_code E (decode_codes (u_recovery u)) rc with
    | Some rest =>
        log [u_pid u] ;;;
        let u' := u <| u_recovery := encode_codes rest |> in
        store_back u' shared ;;;
        st_save (e_O E) u' ;;;
        ret (u', shared, Some TSuccess)
    | None => ret (u, shared, Some TInvalid)
    end
  else
    let raw := aget f_code vals in
    let input := trim_space raw in
    if c_onetime (e_cfg E) then
      (if beqb (u_totp_last u) input then ret (u, shared, Some TRepeated) else
       if negb (totp_ok E (u_totp u) raw) then ret (u, shared, Some TInvalid) else
       let u' := u <| u_totp_last := input |> in
       store_back u' shared ;;;
       ret (u', shared, Some TSuccess))
    else
      (if negb (totp_ok E (u_totp u) raw) then ret (u, shared, Some TInvalid)
       else ret (u, shared, Some TSuccess)).

Definition tv_head (E : env) : M (user * bool) :=
  try (current_user E) (fun r =>
          match r with
          | Err ErrUserNotFound =>
              let pid := aget k_totp_pending (e_sess E) in
              if bempty pid then fail ErrUserNotFound
              else u <- st_load (e_O E) pid ;; ret (u, false)
          | Err e => fail e
          | Panic => panic
          | Ok x => ret x
          end).

Section TV.
Variable E : env.
Notation C := (e_C E).
Notation rc := (aget f_recovery_code (values E)).
Notation code := (aget f_code (values E)).

Lemma totp_validate_unfold :
  totp_validate E = (ub <- tv_head E ;; let '(u, shared) := ub in tv_tail E u shared).
Proof. reflexivity. Qed.

Lemma pres_tv_head : pres h_st (tv_head E).
Proof. unfold tv_head. pres_go. Qed.

Lemma tv_head_ctx h cu : h_cuser h = Some cu -> tv_head E h = (Ok (cu, true), h).
Proof. intros Hc. unfold tv_head, try. rewrite (current_user_ctx E h cu Hc). reflexivity. Qed.

Lemma store_back_spec u b h r h' : store_back u b h = (r, h') -> r = Ok tt /\ h_st h' = h_st h.
Proof. destruct b; intros Eq; inversion Eq; subst; auto. Qed.

Definition consumed (u : user) (rest : list bytes) : user := u <| u_recovery := encode_codes rest |>.

Lemma tv_tail_spec u sh h r h' :
  tv_tail E u sh h = (r, h') ->
  ((forall u' sh', r <> Ok (u', sh', Some TSuccess)) /\ h_st h' = h_st h) \/
  (bempty (u_totp u) = false /\ bempty rc = true /\ totp_ok E (u_totp u) code = true /\ h_st h' = h_st h /\
   exists u', r = Ok (u', sh, Some TSuccess) /\ u_pid u' = u_pid u /\ tf3 u' = tf3 u) \/
  (bempty (u_totp u) = false /\ bempty rc = false /\
   exists rest, use_recovery_code E (decode_codes (u_recovery u)) rc = Some rest /\
     r = Ok (consumed u rest, sh, Some TSuccess) /\
     h_st h' = h_st h <| s_users := uput (u_pid u) (consumed u rest) (s_users (h_st h)) |>).
Proof.
  intros Eq. unfold tv_tail in Eq.
  assert (NO : forall (x : user * bool * option tstatus) h0, snd x <> Some TSuccess -> h_st h0 = h_st h ->
             (forall u' sh', Ok x <> Ok (u', sh', Some TSuccess)) /\ h_st h0 = h_st h).
  { intros x h0 N S. split; [|exact S]. intros u' sh' H. inversion H; subst. apply N. reflexivity. }
  destruct (bempty (u_totp u)) eqn:Bt.
  { left. inversion Eq; subst. apply NO; [discriminate|reflexivity]. }
  apply bind_inv in Eq as [(v & h1 & E1 & E2)|[(e & E1 & ->)|(E1 & ->)]];
    apply read_values_spec in E1 as [-> [Hv|Hv]]; try discriminate Hv;
    try (left; split; [intros ? ? H; discriminate H|reflexivity]).
  inversion Hv; subst v; clear Hv. cbn beta zeta in E2.
  destruct (bempty rc) eqn:Brc; cbn [negb] in E2.
  - (* by code *)
    destruct (c_onetime (e_cfg E)).
    + destruct (beqb (u_totp_last u) (trim_space code)).
      { left. inversion E2; subst. apply NO; [discriminate|reflexivity]. }
      destruct (totp_ok E (u_totp u) code) eqn:Tk; cbn [negb] in E2.
      2:{ left. inversion E2; subst. apply NO; [discriminate|reflexivity]. }
      apply bind_inv in E2 as [(a & h2 & E1 & K)|[(e & E1 & ->)|(E1 & ->)]];
        apply store_back_spec in E1 as [Hr S2]; try discriminate Hr.
      inversion K; subst.
      right. left. repeat split; auto. eexists. split; [reflexivity|]. split; reflexivity.
    + destruct (totp_ok E (u_totp u) code) eqn:Tk; cbn [negb] in E2; inversion E2; subst.
      * right. left. repeat split; auto. eexists. split; [reflexivity|]. split; reflexivity.
      * left. apply NO; [discriminate|reflexivity].
  - (* by recovery code *)
    destruct (use_recovery_code E (decode_codes (u_recovery u)) rc) as [rest|] eqn:U.
    2:{ left. inversion E2; subst. apply NO; [discriminate|reflexivity]. }
    fold (consumed u rest) in E2.
    assert (ERR : forall e h0, h_st h0 = h_st h ->
              (forall u' sh', @Err (user * bool * option tstatus) e <> Ok (u', sh', Some TSuccess)) /\ h_st h0 = h_st h)
      by (intros; split; [intros ? ? H'; discriminate H'|assumption]).
    assert (PAN : forall h0, h_st h0 = h_st h ->
              (forall u' sh', @Panic (user * bool * option tstatus) <> Ok (u', sh', Some TSuccess)) /\ h_st h0 = h_st h)
      by (intros; split; [intros ? ? H'; discriminate H'|assumption]).
    apply bind_inv in E2 as [(a & h2 & E1 & E2)|[(e & E1 & ->)|(E1 & ->)]]; try (inversion E1; fail).
    inversion E1; subst a h2; clear E1.
    apply bind_inv in E2 as [(a & h2 & E1 & E2)|[(e & E1 & ->)|(E1 & ->)]];
      apply store_back_spec in E1 as [Hr S2]; try discriminate Hr.
    simpl in S2.
    apply bind_inv in E2 as [(a3 & h3 & K1 & K)|[(e & K1 & ->)|(K1 & ->)]];
      apply st_save_spec in K1 as (_ & _ & _ & _ & [(e' & Hr' & St)|(Hr' & St)]); try discriminate Hr';
      try (left; first [apply ERR | apply PAN]; congruence; fail).
    inversion K; subst. right. right. repeat split; auto. exists rest. repeat split; auto.
    rewrite St, S2. reflexivity.
Qed.
End TV.

Section TV2.
Variable E : env.
Notation C := (e_C E).
Notation rc := (aget f_recovery_code (values E)).
Notation code := (aget f_code (values E)).

Lemma tv_ctx_spec h u r h' :
  h_cuser h = Some u -> totp_validate E h = (r, h') -> tv_tail E u true h = (r, h').
Proof.
  intros Hc Eq. rewrite totp_validate_unfold in Eq. unfold bind in Eq.
  rewrite (tv_head_ctx E h u Hc) in Eq. exact Eq.
Qed.

(* TOTP validation by recovery code: success is reported only after the Save of the record
   with the shrunken list went through, and that record is what storage holds *)
Lemma totp_recovery_consumed_lemma h u' sh h' :
  totp_validate E h = (Ok (u', sh, Some TSuccess), h') ->
  bempty rc = false ->
  exists u0 rest,
    use_recovery_code E (decode_codes (u_recovery u0)) rc = Some rest /\
    u' = u0 <| u_recovery := encode_codes rest |> /\
    u_recovery u' = encode_codes rest /\
    ulookup (u_pid u0) (s_users (h_st h')) = Some u' /\
    (forall p, p <> u_pid u0 -> ulookup p (s_users (h_st h')) = ulookup p (s_users (h_st h))) /\
    (forall cu, h_cuser h = Some cu -> u0 = cu).
Proof.
  intros Eq Brc. rewrite totp_validate_unfold in Eq.
  apply bind_inv in Eq as [([u0 sh0] & h1 & E1 & E2)|[(e & E1 & Hr)|(E1 & Hr)]]; try discriminate Hr.
  pose proof (pres_tv_head E _ _ _ E1) as S1.
  apply tv_tail_spec in E2 as [(N & _)|[(_ & B & _)|(_ & _ & rest & U & Hr & St)]].
  - exfalso. exact (N _ _ eq_refl).
  - congruence.
  - inversion Hr; subst. exists u0, rest. split; [exact U|]. split; [reflexivity|]. split; [reflexivity|].
    rewrite St. simpl. split; [apply ulookup_uput_eq|]. split.
    + intros p Np. rewrite ulookup_uput_neq by exact Np. rewrite S1. reflexivity.
    + intros cu Hc. rewrite (tv_head_ctx E h cu Hc) in E1. inversion E1; reflexivity.
Qed.

(* the second factor as /2fa/totp/remove checks it: a currently valid code for the secret of
   the context user, or one of his unused recovery codes *)
Definition totp_factor_proved (u : user) : Prop :=
  bempty (u_totp u) = false /\
  ((bempty rc = true /\ totp_ok E (u_totp u) code = true) \/
   (bempty rc = false /\ exists rest, use_recovery_code E (decode_codes (u_recovery u)) rc = Some rest)).

Lemma totp_remove_cases h u r h' :
  h_cuser h = Some u -> totp_remove_post E h = (r, h') ->
  h_st h' = h_st h \/ totp_factor_proved u.
Proof.
  intros Hc Eq. unfold totp_remove_post in Eq.
  apply bind_inv in Eq as [([[u1 sh1] st1] & h1 & E1 & E2)|[(e & E1 & ->)|(E1 & ->)]];
    apply (tv_ctx_spec h u _ _ Hc) in E1;
    apply tv_tail_spec in E1 as [(N & S)|[(Bt & B & Tk & S & _)|(Bt & B & rest & U & _)]];
    try (right; split; [exact Bt|left; split; assumption]; fail);
    try (right; split; [exact Bt|right; split; [exact B|exists rest; exact U]]; fail);
    try (left; exact S; fail).
  left. cbn beta iota in E2. rewrite <- S.
  destruct st1 as [[| |]|]; [exfalso; exact (N _ _ eq_refl)| | |];
    match type of E2 with ?m _ = _ => assert (Pm : pres h_st m) by pres_go; exact (Pm _ _ _ E2) end.
Qed.

Lemma totp_remove_needs_factor_lemma h u r h' :
  h_cuser h = Some u -> totp_remove_post E h = (r, h') -> h_st h' <> h_st h -> totp_factor_proved u.
Proof. intros Hc Eq Ch. destruct (totp_remove_cases h u r h' Hc Eq) as [S|Fp]; [contradiction|exact Fp]. Qed.

(* /2fa/totp/confirm *)
Lemma totp_confirm_cases h u r h' :
  h_cuser h = Some u -> totp_confirm_post E h = (r, h') ->
  h_st h' = h_st h \/
  exists secret codes,
    alookup k_totp_secret (e_sess E) = Some secret /\
    totp_ok E secret code = true /\
    h_st h' = h_st h <| s_users := uput (u_pid u)
       (u <| u_totp := secret |> <| u_recovery := encode_codes (map (pwhash C) codes) |>
          <| u_totp_last := (if c_onetime (e_cfg E) then trim_space code else u_totp_last u) |>)
       (s_users (h_st h)) |>.
Proof.
  intros Hc Eq. unfold totp_confirm_post in Eq.
  apply bind_inv in Eq as [(a & h1 & E1 & E2)|[(e & E1 & ->)|(E1 & ->)]];
    rewrite (current_user_ctx E h u Hc) in E1; try discriminate E1.
  inversion E1; subst a h1; clear E1. cbn beta iota in E2.
  destruct (alookup k_totp_secret (e_sess E)) as [secret|] eqn:Sec; [|left; inversion E2; reflexivity].
  apply bind_inv in E2 as [(v & h1 & E1 & E2)|[(e & E1 & ->)|(E1 & ->)]];
    apply read_values_spec in E1 as [-> [Hv|Hv]]; try discriminate Hv; auto.
  inversion Hv; subst v; clear Hv. cbn beta zeta in E2.
  destruct (totp_ok E secret code) eqn:Tk; cbn [negb] in E2.
  2:{ left. eapply (pres_respond E h_st); eauto. }
  apply bind_pres_inv in E2 as [(codes & h2 & _ & S2 & K)|K];
    [|left; exact K|unfold generate_recovery_codes; pres_go].
  unfold bcrypt_codes in K.
  apply bind_inv in K as [(cr & h3 & E1 & K)|[(e & E1 & ->)|(E1 & ->)]]; try (inversion E1; fail).
  inversion E1; subst cr h3; clear E1. unfold store_back in K.
  apply bind_pres_inv in K as [(a2 & h3 & _ & S3 & K)|K]; [|left; congruence|apply pres_st_set_cuser].
  apply bind_inv in K as [(a3 & h4 & K1 & K)|[(e & K1 & ->)|(K1 & ->)]];
    apply st_save_spec in K1 as (_ & _ & _ & _ & [(e' & Hr & St)|(Hr & St)]); try discriminate Hr;
    try (left; congruence).
  right. exists secret, codes. split; [reflexivity|]. split; [exact Tk|].
  match type of K with ?m _ = _ => assert (Pm : pres h_st m) by pres_go; rewrite (Pm _ _ _ K) end.
  rewrite St, S3, S2. reflexivity.
Qed.

Lemma totp_confirm_needs_code_lemma h u r h' :
  h_cuser h = Some u -> totp_confirm_post E h = (r, h') -> h_st h' <> h_st h ->
  exists secret,
    alookup k_totp_secret (e_sess E) = Some secret /\ aget k_totp_secret (e_sess E) = secret /\
    totp_ok E secret code = true /\
    exists u', ulookup (u_pid u) (s_users (h_st h')) = Some u' /\ u_totp u' = secret /\ u_pid u' = u_pid u.
Proof.
  intros Hc Eq Ch. destruct (totp_confirm_cases h u r h' Hc Eq) as [S|(secret & codes & Sec & Tk & St)]; [contradiction|].
  exists secret. split; [exact Sec|]. split; [unfold aget; rewrite Sec; reflexivity|]. split; [exact Tk|].
  eexists. rewrite St. simpl. split; [apply ulookup_uput_eq|]. split; reflexivity.
Qed.
End TV2.

(* ---- closed forms for the frame instance ------------------------------------------------------- *)
Definition only_owner {A} (m : M A) : Prop :=
  forall h u r h', h_cuser h = Some u -> m h = (r, h') ->
    (exists cu', h_cuser h' = Some cu' /\ u_pid cu' = u_pid u) /\
    forall p, p <> u_pid u -> ulookup p (s_users (h_st h')) = ulookup p (s_users (h_st h)).

Lemma only_owner_of_K {E : env} {A} (m : M A) R : (forall P L0, K (LF E P L0) m R) -> only_owner m.
Proof.
  intros H h u r h' Hc Eq.
  assert (I : invF (u_pid u) (s_users (h_st h)) h) by (split; [exists u; auto|auto]).
  destruct (H (u_pid u) (s_users (h_st h)) h r h' I Eq) as [I' _]. exact I'.
Qed.

Section Closed.
Variable E : env.

Lemma hook_keeps2fa hk rm hd : keeps2fa (run_hook E hk rm hd).
Proof. apply (@keeps2fa_of_K E _ _ (fun _ => True)). intros T. apply K_hook. Qed.
Lemma call_keeps2fa hs rm hd : keeps2fa (call E hs rm hd).
Proof. apply (@keeps2fa_of_K E _ _ (fun _ => True)). intros T. apply K_call. Qed.
Lemma fire_keeps2fa e rm : keeps2fa (fire E e rm).
Proof. apply (@keeps2fa_of_K E _ _ (fun _ => True)). intros T. apply K_fire. Qed.

Lemma call_fire_keep2fa :
  (forall hs rm hd, keeps2fa (call E hs rm hd)) /\ (forall e rm, keeps2fa (fire E e rm)).
Proof. split; [exact call_keeps2fa|exact fire_keeps2fa]. Qed.

Lemma login_paths_keep2fa :
  keeps2fa (login_post E) /\ keeps2fa (otp_login_post E) /\ keeps2fa (confirm_get E) /\
  keeps2fa (recover_start_post E) /\ keeps2fa (recover_end_post E) /\ keeps2fa (logout E) /\
  keeps2fa (otp_add_post E) /\ keeps2fa (otp_clear_post E) /\ keeps2fa (remember_authenticate E) /\
  (forall prov, keeps2fa (oauth2_start E prov)).
Proof.
  repeat match goal with |- _ /\ _ => split end; try intros prov; apply (@keeps2fa_of_K E _ _ (fun _ => True)); intros T.
  - apply KT_login_post.
  - apply KT_otp_login_post.
  - apply KT_confirm_get.
  - apply KT_recover_start_post.
  - apply KT_recover_end_post.
  - apply KT_logout.
  - apply KT_otp_add_post.
  - apply KT_otp_clear_post.
  - apply KT_remember_authenticate.
  - apply KT_oauth2_start.
Qed.

Lemma middlewares_keep2fa :
  (forall mp full tf fr, keeps2fa (auth_middleware E mp full tf fr)) /\
  keeps2fa (remember_mw E) /\ keeps2fa (lock_mw E) /\ keeps2fa (confirm_mw E) /\
  keeps2fa (totp_setup_post E) /\ keeps2fa (sms_setup_post E) /\
  (forall k, keeps2fa (email_verify_post E k)) /\ (forall k, keeps2fa (email_verify_end E k)).
Proof.
  repeat match goal with |- _ /\ _ => split end; intros; apply (@keeps2fa_of_K E _ _ (fun _ => True)); intros T.
  - apply KT_auth_middleware.
  - apply KT_remember_mw.
  - apply KT_lock_mw.
  - apply KT_confirm_mw.
  - apply KT_totp_setup_post.
  - apply KT_sms_setup_post.
  - apply KT_email_verify_post.
  - apply KT_email_verify_end.
Qed.

Lemma settings_only_owner :
  only_owner (totp_confirm_post E) /\ only_owner (totp_remove_post E) /\
  only_owner (sms_validator_post E SPConfirm) /\ only_owner (sms_validator_post E SPRemove) /\
  only_owner (recovery_regen_post E).
Proof.
  repeat match goal with |- _ /\ _ => split end; apply (@only_owner_of_K E _ _ (fun _ => True)); intros P L0.
  - apply KF_totp_confirm_post.
  - apply KF_totp_remove_post.
  - apply KF_sms_validator_post.
  - apply KF_sms_validator_post.
  - apply KF_recovery_regen_post.
Qed.
End Closed.

(* a settings route as mounted: behind the access middleware with RequireFullAuth.  Whatever
   the wrapped handler is, if it touches only the context user's record then the request
   touches only the record of the session's user, and touches anything at all only when the
   session is not half-authenticated and names a stored user. *)
Section Mounted.
Variable E : env.

Lemma pres_st_auth_middleware mp full tf fr : pres h_st (auth_middleware E mp full tf fr).
Proof. unfold auth_middleware, mw_fail. pres_go. Qed.

Lemma behind_settings_lemma (m : M unit) h r h' :
  only_owner m -> keyed (h_st h) -> h_cuser h = None -> h_cpid h = None ->
  behind E true m h = (r, h') ->
  (forall p, p <> aget k_uid (e_sess E) -> ulookup p (s_users (h_st h')) = ulookup p (s_users (h_st h))) /\
  (h_st h' <> h_st h ->
     ahas k_halfauth (e_sess E) = false /\
     exists u, ulookup (aget k_uid (e_sess E)) (s_users (h_st h)) = Some u).
Proof.
  intros Own Ky Hc Hp Eq. unfold behind in Eq.
  apply bind_inv in Eq as [(ok & h1 & E1 & E2)|[(e & E1 & ->)|(E1 & ->)]];
    pose proof (pres_st_auth_middleware _ _ _ _ _ _ _ E1) as S1;
    try (rewrite S1; split; [reflexivity|intros Ch; contradiction]; fail).
  destruct ok; [|inversion E2; subst; rewrite S1; split; [reflexivity|intros Ch; contradiction]].
  destruct (auth_middleware_admits E _ _ _ _ _ _ E1) as (R & _ & G & _).
  destruct (G Hc Hp) as (_ & u & Hu & Cu).
  pose proof (Ky _ _ Hu) as Pu.
  destruct (Own h1 u r h' Cu E2) as [_ Fr]. rewrite Pu, S1 in Fr. split; [exact Fr|].
  intros _. split; [|exists u; exact Hu].
  unfold reqs_ok in R. destruct (ahas k_halfauth (e_sess E)); [cbn [andb negb] in R; discriminate R|reflexivity].
Qed.
End Mounted.
