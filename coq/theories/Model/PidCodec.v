(* authboss.ParseOAuth2PID (user.go:176) - the parse direction of the OAuth2 PID codec.
   strings.Split(pid, ";;") cuts at the leftmost non-overlapping occurrences of the separator; the pid is accepted
   when that gives exactly three segments and the first is "oauth2". *)
From AB Require Export Model.Codecs.

(* split on the two-byte separator ";;", leftmost first, non-overlapping: [acc] is the current segment, reversed *)
Fixpoint split2_aux (acc : bytes) (s : bytes) : list bytes :=
  match s with
  | [] => [rev acc]
  | x :: r =>
      match r with
      | y :: r' => if Byte.eqb x semi && Byte.eqb y semi then rev acc :: split2_aux [] r'
                   else split2_aux (x :: acc) r
      | [] => [rev (x :: acc)]
      end
  end.
Definition split2 (s : bytes) : list bytes := split2_aux [] s.

Definition oauth2_word : bytes := list_byte_of_string "oauth2"%string.

Definition parse_pid (pid : bytes) : option (bytes * bytes) :=
  match split2 pid with
  | [a; p; u] => if beqb a oauth2_word then Some (p, u) else None
  | _ => None
  end.

(* what the correspondence check evaluates: the make direction and the parse of arbitrary strings *)
Definition pid_case_make (p u : bytes) : bytes := make_pid p u.
Definition pid_case_parse (s : bytes) : option (bytes * bytes) := parse_pid s.
