(* oauth2.GoogleUserDetails / FacebookUserDetails (oauth2/providers.go): how the provider's userinfo document becomes
   the uid the callback binds.  The adapters decode the document into a struct whose `id` field is a Go string:
   a JSON string is taken verbatim, an absent or null id leaves the empty string, every other JSON value (a number
   above all - Facebook ids are numeric) is a decoding error and the login fails; nothing is ever converted. *)
From AB Require Export Base.Bytes.

Inductive jid :=
| JStr (s : bytes)    (* "id": "..." *)
| JNum                (* "id": 123, 1e3, 1.5, -1 - any JSON number *)
| JNull               (* "id": null *)
| JAbsent             (* no id member *)
| JBool               (* "id": true *)
| JObj.               (* "id": {...} or [...] *)

Definition provider_uid (v : jid) : option bytes :=
  match v with
  | JStr s => Some s
  | JNull | JAbsent => Some []
  | JNum | JBool | JObj => None
  end.
