(* Identifier codecs: remember-me token (remember/remember.go GenerateToken / Authenticate)
   and OAuth2 PIDs (user.go MakeOAuth2PID). World/Handlers.v uses the same shapes. *)
From Coq Require Export String.
From AB Require Export Base.Bytes.

Definition semi : byte := ";"%byte.

(* rawToken = pid ++ ";" ++ nonce, |nonce| = 32 *)
Definition rm_make (pid nonce : bytes) : bytes := pid ++ semi :: nonce.

(* Authenticate (after the fix): the separator is the byte 33 from the end *)
Definition rm_parse (raw : bytes) : option bytes :=
  let n := length raw in
  if Nat.ltb n 33 then None
  else let i := (n - 33)%nat in
       match nth_error raw i with
       | Some c => if Byte.eqb c semi then Some (firstn i raw) else None
       | None => None
       end.

(* the parse as it was before the fix: split at the FIRST separator *)
Definition rm_parse_first (raw : bytes) : option bytes :=
  match bindex semi raw with Some i => Some (firstn i raw) | None => None end.

Definition oauth2_prefix : bytes := list_byte_of_string "oauth2;;"%string.
Definition sep2 : bytes := [semi; semi].
Definition make_pid (prov uid : bytes) : bytes := oauth2_prefix ++ prov ++ sep2 ++ uid.

Definition no_semi (s : bytes) : Prop := ~ In semi s.
