(* Model of authboss.ClientStateResponseWriter (client_state.go:111-275, 348-387).
   A handler program is a list of operations on the response writer; the model
   returns the trace of calls that reach the two client-state stores and the
   underlying http.ResponseWriter, in order — including the stores' failure path: a
   program can make the next WriteState call of a store return an error, and the trace
   shows what the handler gets back (TErr / TPanic) instead of the release. *)
From AB Require Export Base.Bytes.

Inductive csevent :=
| Put (k v : bytes)      (* ClientStateEventPut *)
| Del (k : bytes)        (* ClientStateEventDel *)
| DelAll (wl : bytes).   (* ClientStateEventDelAll, Key = comma-joined whitelist *)

Inductive store := Sess | Cook.

(* [depth] = number of nested response-writer wrappers the call goes through
   (MustClientStateResponseWriter unwraps them; the model ignores it, which is the
   transparency claim checked by the correspondence). *)
Inductive op :=
| OEv (s : store) (e : csevent) (depth : nat)   (* setState: client_state.go:360 *)
| OWriteHeader (code : Z) (depth : nat)          (* client_state.go:206 *)
| OWrite (body : bytes) (depth : nat)            (* client_state.go:232 *)
| OGet (s : store) (k : bytes)                   (* getState: client_state.go:379 *)
| OFailNext (s : store).                         (* the next WriteState call that reaches
                                                    store s returns an error *)

Inductive out :=
| TStore (s : store) (evs : list csevent)        (* WriteState call on that store *)
| THdr (code : Z)                                (* underlying WriteHeader *)
| TBody (b : bytes)                              (* underlying Write *)
| TGet (s : store) (k : bytes) (v : option bytes)
| TErr                                           (* a Write returned the flush error; no body written *)
| TPanic.                                        (* a WriteHeader panicked with the flush error;
                                                    no header written *)

(* [fail_s]/[fail_c]: the next WriteState call on the session / cookie store fails *)
Record csrw := { ps : list csevent; pc : list csevent; written : bool;
                 fail_s : bool; fail_c : bool }.
Definition csrw_init :=
  {| ps := []; pc := []; written := false; fail_s := false; fail_c := false |}.

(* putClientState (client_state.go:251) when neither store fails *)
Definition flush (ls lc : list csevent) : list out :=
  match ls, lc with
  | [], [] => []
  | _, _ => (match ls with [] => [] | _ => [TStore Sess ls] end) ++
            (match lc with [] => [] | _ => [TStore Cook lc] end)
  end.

(* One WriteState call. A store with no pending event is not called (and its failure
   flag stays); a call consumes the flag and returns it as the call's error. *)
Definition call_sess (s : csrw) : csrw * list out * bool :=
  match ps s with
  | [] => (s, [], false)
  | l => ({| ps := ps s; pc := pc s; written := written s; fail_s := false; fail_c := fail_c s |},
          [TStore Sess l], fail_s s)
  end.
Definition call_cook (s : csrw) : csrw * list out * bool :=
  match pc s with
  | [] => (s, [], false)
  | l => ({| ps := ps s; pc := pc s; written := written s; fail_s := fail_s s; fail_c := false |},
          [TStore Cook l], fail_c s)
  end.

(* putClientState with the stores' error path (client_state.go:251): the latch is set
   first; the session store is called first; an error returns at once, so after a
   session error the cookie store is not called. The third component is "err != nil".
   (The early return when both lists are empty is the case where both calls are skipped.) *)
Definition put_cs (s : csrw) : csrw * list out * bool :=
  let s0 := {| ps := ps s; pc := pc s; written := true;
               fail_s := fail_s s; fail_c := fail_c s |} in
  let '(s1, t1, e1) := call_sess s0 in
  if e1 then (s1, t1, true)
  else let '(s2, t2, e2) := call_cook s1 in (s2, t1 ++ t2, e2).

Section WithState.
Variables sess0 cook0 : amap.   (* state read by LoadClientState at request start *)

Definition getst (s : store) (k : bytes) : option bytes :=
  match s with Sess => alookup k sess0 | Cook => alookup k cook0 end.

Definition cs_step (s : csrw) (o : op) : csrw * list out :=
  match o with
  | OEv Sess e _ => ({| ps := ps s ++ [e]; pc := pc s; written := written s;
                        fail_s := fail_s s; fail_c := fail_c s |}, [])
  | OEv Cook e _ => ({| ps := ps s; pc := pc s ++ [e]; written := written s;
                        fail_s := fail_s s; fail_c := fail_c s |}, [])
  | OWriteHeader c _ =>
      (* a flush error panics before the underlying WriteHeader (client_state.go:206) *)
      if written s then (s, [THdr c])
      else let '(s', t, err) := put_cs s in (s', t ++ [if err then TPanic else THdr c])
  | OWrite b _ =>
      (* a flush error is returned without writing the body (client_state.go:232) *)
      if written s then (s, [TBody b])
      else let '(s', t, err) := put_cs s in (s', t ++ [if err then TErr else TBody b])
  | OGet st k => (s, [TGet st k (getst st k)])
  | OFailNext Sess => ({| ps := ps s; pc := pc s; written := written s;
                          fail_s := true; fail_c := fail_c s |}, [])
  | OFailNext Cook => ({| ps := ps s; pc := pc s; written := written s;
                          fail_s := fail_s s; fail_c := true |}, [])
  end.

Fixpoint cs_run (s : csrw) (p : list op) : list out :=
  match p with
  | [] => []
  | o :: r => let '(s', t) := cs_step s o in t ++ cs_run s' r
  end.

Definition cs_trace (p : list op) : list out := cs_run csrw_init p.
End WithState.

(* decidable equality on traces, used by the correspondence check *)
Definition csevent_eqb (a b : csevent) : bool :=
  match a, b with
  | Put k v, Put k' v' => beqb k k' && beqb v v'
  | Del k, Del k' => beqb k k'
  | DelAll w, DelAll w' => beqb w w'
  | _, _ => false
  end.
Definition store_eqb (a b : store) : bool :=
  match a, b with Sess, Sess | Cook, Cook => true | _, _ => false end.
Fixpoint list_eqb {A} (f : A -> A -> bool) (a b : list A) : bool :=
  match a, b with
  | [], [] => true
  | x :: a', y :: b' => f x y && list_eqb f a' b'
  | _, _ => false
  end.
Definition obytes_eqb (a b : option bytes) : bool :=
  match a, b with Some x, Some y => beqb x y | None, None => true | _, _ => false end.
Definition out_eqb (a b : out) : bool :=
  match a, b with
  | TStore s l, TStore s' l' => store_eqb s s' && list_eqb csevent_eqb l l'
  | THdr c, THdr c' => Z.eqb c c'
  | TBody x, TBody y => beqb x y
  | TGet s k v, TGet s' k' v' => store_eqb s s' && beqb k k' && obytes_eqb v v'
  | TErr, TErr => true
  | TPanic, TPanic => true
  | _, _ => false
  end.
Definition trace_eqb := list_eqb out_eqb.
