(* Return-target handling: the guard of defaults/responder.go (redirectAPI / redirectNonAPI)
   and oauth2/oauth2.go End, and what net/http.Redirect does to the chosen path. *)
From Coq Require Export String.
From AB Require Export Base.Bytes.
From Coq Require Import NArith.

Definition bsl : byte := "\"%byte.
Definition sl : byte := "/"%byte.
Definition scheme_sep : bytes := list_byte_of_string "://"%string.

(* the guard before the repair: only refuses values containing "://" *)
Definition guard_substring (s : bytes) : bool := negb (bcontains scheme_sep s).

(* authboss.IsLocalRedirect (response.go) *)
Definition ctl_or_bsl (c : byte) : bool :=
  let n := Byte.to_N c in (N.ltb n 32 || N.eqb n 127 || Byte.eqb c bsl)%bool.
Definition is_local_redirect (s : bytes) : bool :=
  match s with
  | [] => false
  | c0 :: r =>
      Byte.eqb c0 sl &&
      match r with
      | c1 :: _ => negb (Byte.eqb c1 sl || Byte.eqb c1 bsl)
      | [] => true
      end &&
      negb (bcontains scheme_sep s) &&
      negb (existsb ctl_or_bsl s)
  end.

(* which path the redirector answers with *)
Definition redirect_target (redir default : bytes) (follow : bool) : bytes :=
  let r := if is_local_redirect redir then redir else [] in
  if (negb (bempty r) && follow)%bool then r else default.

(* path.Clean for a rooted path: drop empty and "." elements, ".." pops; result is "/" + join *)
Definition dot : bytes := ["."%byte].
Definition dotdot : bytes := ["."%byte; "."%byte].
Fixpoint clean_elems (els : list bytes) (acc : list bytes) : list bytes :=   (* acc: reversed output *)
  match els with
  | [] => rev acc
  | e :: r =>
      if bempty e || beqb e dot then clean_elems r acc
      else if beqb e dotdot then clean_elems r (tl acc)
      else clean_elems r (e :: acc)
  end.
Definition path_clean_rooted (p : bytes) : bytes :=    (* p starts with '/' *)
  sl :: bjoin sl (clean_elems (bsplit sl p) []).

Fixpoint split_at_q (s : bytes) : bytes * bytes :=     (* path, "?query" (with the '?') or [] *)
  match s with
  | [] => ([], [])
  | c :: r => if Byte.eqb c "?"%byte then ([], s)
              else let '(a, b) := split_at_q r in (c :: a, b)
  end.
Definition ends_with_slash (s : bytes) : bool :=
  match rev s with c :: _ => Byte.eqb c sl | [] => false end.

(* net/http hexEscapeNonASCII: bytes >= 0x80 become %xx (lower-case hex) *)
Definition hexlow (n : N) : byte :=
  match Byte.of_N (if N.ltb n 10 then 48 + n else 87 + n) with Some b => b | None => x00 end.
Fixpoint hex_escape_non_ascii (s : bytes) : bytes :=
  match s with
  | [] => []
  | c :: r => let n := Byte.to_N c in
              if N.leb 128 n then "%"%byte :: hexlow (N.div n 16) :: hexlow (N.modulo n 16) :: hex_escape_non_ascii r
              else c :: hex_escape_non_ascii r
  end.

(* http.Redirect's rewrite of a rooted relative URL (net/http/server.go Redirect): the path
   part is cleaned (a trailing slash is kept), the query is kept, non-ASCII is escaped *)
Definition http_redirect_rewrite (u : bytes) : bytes :=
  let '(p, q) := split_at_q u in
  let c := path_clean_rooted p in
  hex_escape_non_ascii ((if ends_with_slash p && negb (ends_with_slash c) then c ++ [sl] else c) ++ q).
