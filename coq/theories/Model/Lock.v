(* The lock module's bookkeeping as a pure machine over the stored triple
   (AttemptCount, LastAttempt, Locked): lock/lock.go updateLockedState (65-105),
   AfterAuthSuccess (47-57), Lock (108-118), Unlock (121-140), IsLocked (172).
   World/Handlers.v uses exactly these functions on the user record. *)
From AB Require Export Base.Bytes.
Open Scope Z_scope.

Record lcfg := mkLcfg { lc_after : Z; lc_window : Z; lc_duration : Z }.
Record lstate := mkL { l_count : Z; l_last : Z; l_locked : Z }.

Inductive lop :=
| LFail (t : Z)        (* a credential check on this account rejected: After(EventAuthFail) *)
| LOkBefore (t : Z)    (* a correct credential was presented: Before(EventAuth) *)
| LOkAfter (t : Z)     (* the login completed: After(EventAuth) *)
| LManualLock (t : Z)
| LUnlock (t : Z).

Definition op_time (o : lop) : Z :=
  match o with LFail t | LOkBefore t | LOkAfter t | LManualLock t | LUnlock t => t end.

Section L.
Variable c : lcfg.

Definition lstep (s : lstate) (o : lop) : lstate :=
  match o with
  | LFail t =>
      let attempts := if t - l_last s <=? lc_window c then l_count s + 1 else 1 in
      mkL attempts t (if lc_after c <=? attempts then t + lc_duration c else l_locked s)
  | LOkBefore t => mkL (l_count s) t (l_locked s)
  | LOkAfter t => mkL 0 t (l_locked s)
  | LManualLock t => mkL (l_count s) (l_last s) (t + lc_duration c)
  | LUnlock t => mkL 0 (t - 2 * lc_window c) (t - lc_duration c)
  end.

Definition lrun (s : lstate) (h : list lop) : lstate := fold_left lstep h s.

Definition locked_at (s : lstate) (t : Z) : bool := t <? l_locked s.   (* IsLocked *)
End L.

(* a fresh account: time.Time{} in both instants *)
Definition zero_instant : Z := -62135596800.
Definition l_init : lstate := mkL 0 zero_instant zero_instant.

(* histories the library can produce: non-decreasing times, all after the epoch *)
Fixpoint chrono (from : Z) (h : list lop) : Prop :=
  match h with
  | [] => True
  | o :: r => from <= op_time o /\ chrono (op_time o) r
  end.
