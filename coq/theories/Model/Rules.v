(* defaults.Rules.Errors (defaults/rules.go:38-86) and HTTPFormValidator.Validate
   (defaults/validation.go:20-49).  Character classification is a parameter of the
   evaluator: [classes] is the class of every rune of the input in order (Go's unicode
   tables are not modelled); [ascii_classes] computes it for ASCII input. *)
From AB Require Export Base.Bytes.

Inductive rcls := CUpper | CLower | CDigit | CSpace | CSymbol.

Inductive matcher := MNone | MEmail | MUsername.

Record rule := mkRule {
  r_field : bytes;
  r_required : bool;
  r_match : matcher;
  r_minlen : Z; r_maxlen : Z;
  r_minletters : Z; r_minlower : Z; r_minupper : Z; r_minnumeric : Z; r_minsymbols : Z;
  r_allow_ws : bool
}.

Inductive rerr := EBlank | EMatch | ELength | ELetters | EUpper | ELower | ENumeric | ESymbols | EWhitespace.

Definition count (c : rcls) (l : list rcls) : Z :=
  Z.of_nat (length (filter (fun x => match x, c with
                                     | CUpper, CUpper | CLower, CLower | CDigit, CDigit
                                     | CSpace, CSpace | CSymbol, CSymbol => true
                                     | _, _ => false end) l)).

(* regexp `^\s*$` : only [\t\n\f\r ] *)
Definition is_re_space (b : byte) : bool :=
  Byte.eqb b x09 || Byte.eqb b x0a || Byte.eqb b x0c || Byte.eqb b x0d || Byte.eqb b x20.
Definition is_blank (s : bytes) : bool := forallb is_re_space s.

Definition is_lower_ascii (b : byte) : bool := let n := Byte.to_N b in (N.leb 97 n && N.leb n 122)%bool.
Definition is_upper_ascii (b : byte) : bool := let n := Byte.to_N b in (N.leb 65 n && N.leb n 90)%bool.
Definition is_digit_ascii (b : byte) : bool := let n := Byte.to_N b in (N.leb 48 n && N.leb n 57)%bool.

(* `.*@.*\.[a-z]+` unanchored: an '@', later a '.', no newline in between, then a-z *)
Fixpoint dot_lower_before_nl (s : bytes) : bool :=
  match s with
  | [] => false
  | c :: r =>
      if Byte.eqb c x0a then false
      else (Byte.eqb c "."%byte && match r with d :: _ => is_lower_ascii d | [] => false end)
           || dot_lower_before_nl r
  end.
Fixpoint match_email (s : bytes) : bool :=
  match s with
  | [] => false
  | c :: r => (Byte.eqb c "@"%byte && dot_lower_before_nl r) || match_email r
  end.
(* `(?i)[a-z][a-z0-9]?` unanchored: contains an ASCII letter *)
Definition match_username (s : bytes) : bool := existsb (fun b => is_lower_ascii b || is_upper_ascii b) s.

Definition matches (m : matcher) (s : bytes) : bool :=
  match m with MNone => true | MEmail => match_email s | MUsername => match_username s end.

Definition rule_errors (r : rule) (s : bytes) (classes : list rcls) : list rerr :=
  let ln := Z.of_nat (length s) in
  if r_required r && (Z.eqb ln 0 || is_blank s) then [EBlank] else
  (if matches (r_match r) s then [] else [EMatch]) ++
  (if (Z.ltb 0 (r_minlen r) && Z.ltb ln (r_minlen r)) || (Z.ltb 0 (r_maxlen r) && Z.ltb (r_maxlen r) ln)
   then [ELength] else []) ++
  (if Z.ltb (count CUpper classes + count CLower classes) (r_minletters r) then [ELetters] else []) ++
  (if Z.ltb (count CUpper classes) (r_minupper r) then [EUpper] else []) ++
  (if Z.ltb (count CLower classes) (r_minlower r) then [ELower] else []) ++
  (if Z.ltb (count CDigit classes) (r_minnumeric r) then [ENumeric] else []) ++
  (if Z.ltb (count CSymbol classes) (r_minsymbols r) then [ESymbols] else []) ++
  (if negb (r_allow_ws r) && Z.ltb 0 (count CSpace classes) then [EWhitespace] else []).

(* unicode.IsLetter/IsUpper/IsDigit/IsSpace restricted to ASCII; every byte >= 0x80 is
   counted as one symbol (inputs of the world harness in validated fields are ASCII) *)
Definition ascii_class (b : byte) : rcls :=
  if is_upper_ascii b then CUpper
  else if is_lower_ascii b then CLower
  else if is_digit_ascii b then CDigit
  else if is_re_space b || Byte.eqb b x0b then CSpace
  else CSymbol.
Definition ascii_classes (s : bytes) : list rcls := map ascii_class s.

(* HTTPFormValidator.Validate: rule errors per field, then confirm-field pairs *)
Fixpoint confirm_errors (vals : amap) (pairs : list (bytes * bytes)) : list bytes :=
  match pairs with
  | [] => []
  | (main, conf) :: r =>
      let m := aget main vals in
      if bempty m then confirm_errors vals r
      else let c := aget conf vals in
           (if bempty c || negb (beqb m c) then [conf] else []) ++ confirm_errors vals r
  end.

Definition validate (rules : list rule) (pairs : list (bytes * bytes)) (vals : amap) : list (bytes * rerr) * list bytes :=
  (flat_map (fun r => map (fun e => (r_field r, e)) (rule_errors r (aget (r_field r) vals) (ascii_classes (aget (r_field r) vals)))) rules,
   confirm_errors vals pairs).

Definition valid (rules : list rule) (pairs : list (bytes * bytes)) (vals : amap) : bool :=
  match validate rules pairs vals with ([], []) => true | _ => false end.
