(* C17, log half, for the whole router: every line that [serve] - any route, any method, any
   configuration, any middleware stack, the error handler included, under any backend faults -
   appends to the log carries only atoms from the finite list below.  The list is named on the
   request and on the state the request started from.  It has no entry for the value of the
   password / confirm_password / code / recovery_code / token / cnf form fields, for the remember
   cookie, for fresh random material, for a mailed token, or for an OTP or recovery code in
   plain text. *)
From AB Require Import World.Handlers Proofs.MonadInv Proofs.LogProofs Proofs.LogProofs2.

(* the list, spelled out ([known_user h u]: u is the context user of h or a record stored in h) *)
Theorem c17_serve_logs : forall (E : env) (h : hst) r h',
  serve E h = (r, h') ->
  exists l, h_logs h' = h_logs h ++ l /\
    Forall (Forall (fun a =>
      (* the empty string *)
      a = [] \/
      (* request line: URL path without the query string; OAuth2 provider name of the route *)
      a = q_path (e_req E) \/
      q_route (e_req E) = ROAuthStart a \/
      q_route (e_req E) = ROAuthCallback a \/
      (* submitted identifiers: account id, e-mail address, phone number to enrol *)
      a = aget (pid_field E) (values E) \/
      a = aget f_email (values E) \/
      a = aget f_phone (values E) \/
      (* the phone number pending enrolment in the session *)
      alookup k_sms_number (e_sess E) = Some a \/
      (* OAuth2 callback: provider's error and error_reason parameters, the account id built from
         provider name and provider-side uid, the e-mail address the provider reports *)
      a = form_value E f_error \/
      a = form_value E f_error_reason \/
      (exists p, q_route (e_req E) = ROAuthCallback p /\
                 a = make_oauth2_pid p (pa_uid (o_provider (e_O E)))) \/
      a = pa_email (o_provider (e_O E)) \/
      (* the selector HASH computed from a submitted confirmation token *)
      (exists raw, b64url_dec (aget f_cnf (values E)) = Some raw /\ a = selector_of E raw) \/
      (* of the context user or a stored record, as the request found them: pid, e-mail, SMS
         number, stored confirm / recover verifier HASHES *)
      (exists u, (h_cuser h = Some u \/ exists k, In (k, u) (s_users (h_st h))) /\
                 (a = u_pid u \/ a = u_email u \/ a = u_sms u \/ a = u_cver u \/ a = u_rver u)))) l.
Proof. exact serve_logs_allowed. Qed.
Print Assumptions c17_serve_logs.

(* the same, through the definition [allowed] of Proofs/LogProofs2.v *)
Theorem c17_serve_logs_allowed : forall (E : env) (h : hst) r h',
  serve E h = (r, h') ->
  exists l, h_logs h' = h_logs h ++ l /\ Forall (Forall (allowed E h)) l.
Proof. exact serve_logs_allowed. Qed.
Print Assumptions c17_serve_logs_allowed.

(* any byte string that is not one of these atoms - a submitted password that is not also the
   submitted account id, a token, a cookie value - occurs as an argument of no line *)
Theorem c17_secret_not_logged : forall (E : env) (h : hst) r h' (s : bytes),
  ~ allowed E h s ->
  serve E h = (r, h') ->
  exists l, h_logs h' = h_logs h ++ l /\ forall line, In line l -> ~ In s line.
Proof. exact serve_secret_not_logged. Qed.
Print Assumptions c17_secret_not_logged.

(* building block: firing ANY event (any hook list, any order) under the invariant "pid, e-mail
   and SMS number of the context user and of every stored record satisfy P" logs only values
   satisfying P and keeps the invariant *)
Theorem c17_fire_logs_inv : forall (P : bytes -> Prop) (E : env) e rm h r h',
  (forall u, h_cuser h = Some u -> P (u_pid u) /\ P (u_email u) /\ P (u_sms u)) /\
  (forall k u, In (k, u) (s_users (h_st h)) -> P (u_pid u) /\ P (u_email u) /\ P (u_sms u)) ->
  fire E e rm h = (r, h') ->
  ((forall u, h_cuser h' = Some u -> P (u_pid u) /\ P (u_email u) /\ P (u_sms u)) /\
   (forall k u, In (k, u) (s_users (h_st h')) -> P (u_pid u) /\ P (u_email u) /\ P (u_sms u))) /\
  (forall a, r = Ok a -> True) /\
  exists l, h_logs h' = h_logs h ++ l /\ Forall (Forall P) l.
Proof. exact lx_fire. Qed.
Print Assumptions c17_fire_logs_inv.
