(* C20 for the wrapped deployment: store footprint and outcome independence of [serve_top] / [wstep]
   with the SAME footprint [fp] / [req_fp] as for [serve] / [step] (Proofs/Footprint.v) - it already
   contains the pid parsed out of the remember cookie, which is the only account the wrapper touches. *)
From AB Require Import World.Handlers World.Step Proofs.MonadInv Proofs.StoreLogic Proofs.TwoFactorProofs
  Proofs.Footprint Proofs.Wrapped.

Theorem c20_serve_top_store_footprint : forall (E : env) h r h' p,
  filed (h_st h) -> serve_top E h = (r, h') -> ~ In p (fp E h) ->
  ulookup p (s_users (h_st h')) = ulookup p (s_users (h_st h)) /\
  rmlookup p (s_rm (h_st h')) = rmlookup p (s_rm (h_st h)).
Proof. exact serve_top_store_footprint. Qed.
Print Assumptions c20_serve_top_store_footprint.

Theorem c20_serve_top_stays_filed : forall (E : env) h r h',
  filed (h_st h) -> serve_top E h = (r, h') -> filed (h_st h').
Proof. exact serve_top_keeps_filed. Qed.
Print Assumptions c20_serve_top_stays_filed.

Theorem c20_serve_top_outcome_independent : forall (E : env) h1 h2 r1 h1' r2 h2',
  filed (h_st h1) -> filed (h_st h2) ->
  rest h1 = rest h2 -> agree_on (fp E h1) (h_st h1) (h_st h2) -> sel_agree E h1 h2 ->
  serve_top E h1 = (r1, h1') -> serve_top E h2 = (r2, h2') ->
  r1 = r2 /\ rest h1' = rest h2' /\ agree_on (fp E h1) (h_st h1') (h_st h2') /\
  same_off (fp E h1) (h_st h1) (h_st h1') /\ same_off (fp E h1) (h_st h2) (h_st h2').
Proof. exact serve_top_outcome_independent. Qed.
Print Assumptions c20_serve_top_outcome_independent.

Theorem c20_wstep_store_footprint : forall C cfg w req O p,
  filed (w_st w) -> ~ In p (req_fp C cfg w req O) ->
  ulookup p (s_users (w_st (fst (wstep C cfg w (AReq req) O)))) = ulookup p (s_users (w_st w)) /\
  rmlookup p (s_rm (w_st (fst (wstep C cfg w (AReq req) O)))) = rmlookup p (s_rm (w_st w)).
Proof. exact wstep_store_footprint_lemma. Qed.
Print Assumptions c20_wstep_store_footprint.

Theorem c20_wstep_outcome_independent : forall C cfg w1 w2 req O,
  filed (w_st w1) -> filed (w_st w2) ->
  jar_get (q_browser req) (w_sess w1) = jar_get (q_browser req) (w_sess w2) ->
  jar_get (q_browser req) (w_cook w1) = jar_get (q_browser req) (w_cook w2) ->
  agree_on (req_fp C cfg w1 req O) (w_st w1) (w_st w2) ->
  sel_agree (req_env C cfg w1 req O) (init_hst (w_st w1) O) (init_hst (w_st w2) O) ->
  snd (wstep C cfg w1 (AReq req) O) = snd (wstep C cfg w2 (AReq req) O) /\
  jar_get (q_browser req) (w_sess (fst (wstep C cfg w1 (AReq req) O))) =
    jar_get (q_browser req) (w_sess (fst (wstep C cfg w2 (AReq req) O))) /\
  jar_get (q_browser req) (w_cook (fst (wstep C cfg w1 (AReq req) O))) =
    jar_get (q_browser req) (w_cook (fst (wstep C cfg w2 (AReq req) O))) /\
  agree_on (req_fp C cfg w1 req O) (w_st (fst (wstep C cfg w1 (AReq req) O))) (w_st (fst (wstep C cfg w2 (AReq req) O))) /\
  same_off (req_fp C cfg w1 req O) (w_st w1) (w_st (fst (wstep C cfg w1 (AReq req) O))) /\
  same_off (req_fp C cfg w1 req O) (w_st w2) (w_st (fst (wstep C cfg w2 (AReq req) O))).
Proof. exact wstep_outcome_independent_lemma. Qed.
Print Assumptions c20_wstep_outcome_independent.
