(* C08 for the wrapped deployment ([serve_top] / [wstep] with c_wrap_remember): the gate of the
   module routes that sit behind MountedMiddleware2 ([behind V full hd]: the 2FA settings routes with
   full = true, the OTP add / clear routes with full = false), reached through the global
   remember.Middleware.

   The request is cut as in Proofs/Wrapped.v (c08w_cut): the wrapper runs from the start of the
   request and ends in h1; it hands on the session view s2 ([remembered_view]); the route's handler
   is [serve] of the environment V = with_sess E s2 started in h1.  By c01w_wrapper_result
   (Props/C01w.v) the view is the session as it arrived, or - only when that session named nobody
   and the cookie carried an unconsumed token of pid - that session overlaid with uid := pid,
   halfauth := true; in that case the wrapper has also cached pid in the context (h_cpid h1), which
   is the uid of the view.

   The gate decision is the SAME function as without the wrapper (Props/C08b.v c08_gate_decision),
   of the view: the handler behind the gate runs iff the requirement bits hold on the overlaid
   view, the view's uid is non-empty, and storage (the user table the request started from: the
   wrapper does not touch it) holds a user under it. *)
From AB Require Import World.Step Base.TextProofs Proofs.MonadInv Proofs.Gate Proofs.StepLift2 Proofs.Guards3
  Proofs.Wrapped Proofs.Wrapped2.
Open Scope Z_scope.

Theorem c08w_cut : forall E h r h',
  serve_top E h = (r, h') ->
  (c_wrap_remember (e_cfg E) && negb (is_app (q_route (e_req E))) = false /\ serve E h = (r, h')) \/
  (c_wrap_remember (e_cfg E) && negb (is_app (q_route (e_req E))) = true /\ exists h1 s2,
     remember_mw E h = (Ok tt, h1) /\ remembered_view (e_sess E) h1 = (Ok s2, h1) /\
     serve (with_sess E s2) h1 = (r, h')).
Proof. exact serve_top_inv. Qed.
Print Assumptions c08w_cut.

(* what the wrapper leaves for the gate *)
Theorem c08w_wrapper_for_gate : forall E st O h1 s2,
  remember_mw E (init_hst st O) = (Ok tt, h1) -> remembered_view (e_sess E) h1 = (Ok s2, h1) ->
  h_cuser h1 = None /\ h_out h1 = None /\ s_users (h_st h1) = s_users st /\
  (match h_cpid h1 with Some p => p | None => aget k_uid s2 end) = aget k_uid s2.
Proof. exact wrapper_for_gate. Qed.
Print Assumptions c08w_wrapper_for_gate.

(* THE DECISION, as one equation, for any gate (any requirement bits, any refusal mode) run on the
   view after the wrapper: requirements unmet on the view or no uid in the view -> the refusal, with
   no storage access; otherwise one Load of the view's uid, whose outcome decides exactly as in
   c08_gate_decision.  [ulookup .. (s_users st)] is the user table of the storage the request
   started from. *)
Theorem c08w_gate_decision : forall E st O h1 s2,
  remember_mw E (init_hst st O) = (Ok tt, h1) -> remembered_view (e_sess E) h1 = (Ok s2, h1) ->
  forall mp full tf fr,
  auth_middleware (with_sess E s2) mp full tf fr h1 =
  if reqs_ok (with_sess E s2) full tf && negb (bempty (aget k_uid s2)) then
    match fault_at (h_ncalls h1) (o_faults (e_O E)) with
    | Some EGeneric => (log [] ;;; write_resp (RespStatus 500) ;;; ret false) (after_load (with_sess E s2) h1)
    | Some ENotFound => refuse_now (with_sess E s2) mp fr (after_load (with_sess E s2) h1)
    | None => match ulookup (aget k_uid s2) (s_users st) with
              | Some u => (Ok true, after_load (with_sess E s2) h1 <| h_cuser := Some u |>)
              | None => refuse_now (with_sess E s2) mp fr (after_load (with_sess E s2) h1)
              end
    end
  else refuse_now (with_sess E s2) mp fr h1.
Proof. exact c08w_gate_decision_lemma. Qed.
Print Assumptions c08w_gate_decision.

(* IF AND ONLY IF: with no fault on the Load, the wrapped handler is to run exactly when the
   requirement bits hold on the view and the view names a stored user *)
Theorem c08w_gate_iff : forall E st O h1 s2,
  remember_mw E (init_hst st O) = (Ok tt, h1) -> remembered_view (e_sess E) h1 = (Ok s2, h1) ->
  forall mp full tf fr,
  fault_at (h_ncalls h1) (o_faults (e_O E)) = None ->
  ((exists h2, auth_middleware (with_sess E s2) mp full tf fr h1 = (Ok true, h2)) <->
   (reqs_ok (with_sess E s2) full tf = true /\ bempty (aget k_uid s2) = false /\
    exists u, ulookup (aget k_uid s2) (s_users st) = Some u)).
Proof. exact c08w_gate_iff_lemma. Qed.
Print Assumptions c08w_gate_iff.

(* the requirement test on the view *)
Theorem c08w_reqs_ok_reading : forall E s2 full tf,
  reqs_ok (with_sess E s2) full tf =
  negb (full && ahas k_halfauth s2) && negb (tf && negb (ahas k_twofactor s2)).
Proof. exact reqs_ok_view_reading. Qed.
Print Assumptions c08w_reqs_ok_reading.

(* a session that arrived without identity NEVER passes a full-auth requirement - whatever its
   remember cookie, the storage and the oracle (faults included): either the wrapper logged nobody in
   (the view still names nobody) or the view carries the half-auth mark *)
Theorem c08w_no_identity_never_full : forall E st O h1 s2,
  remember_mw E (init_hst st O) = (Ok tt, h1) -> remembered_view (e_sess E) h1 = (Ok s2, h1) ->
  forall mp tf fr h2,
  bempty (aget k_uid (e_sess E)) = true -> auth_middleware (with_sess E s2) mp true tf fr h1 <> (Ok true, h2).
Proof. exact c08w_no_identity_never_full_lemma. Qed.
Print Assumptions c08w_no_identity_never_full.

(* when the wrapper logged the cookie's owner in (it cached a pid): the session had arrived without
   identity, the view carries the half-auth mark, every full-auth requirement is unmet *)
Theorem c08w_view_halfauth : forall E st O h1 s2,
  remember_mw E (init_hst st O) = (Ok tt, h1) -> remembered_view (e_sess E) h1 = (Ok s2, h1) ->
  h_cpid h1 <> None ->
  ahas k_halfauth s2 = true /\ bempty (aget k_uid (e_sess E)) = true /\
  (forall tf, reqs_ok (with_sess E s2) true tf = false).
Proof. exact c08w_view_halfauth_lemma. Qed.
Print Assumptions c08w_view_halfauth.

(* WHOLE REQUEST, admitted: a route whose handler is [behind V full inner]; the requirement bits hold
   on the view, the view's uid is non-empty and stored, the Load is not failed: [serve_top] is
   [inner] (inside the error handler) started from the wrapper's final state with exactly the Load
   accounted for, the context pid set to the view's uid and the context user set *)
Theorem c08w_handler_runs : forall E st O h1 s2,
  remember_mw E (init_hst st O) = (Ok tt, h1) -> remembered_view (e_sess E) h1 = (Ok s2, h1) ->
  c_wrap_remember (e_cfg E) && negb (is_app (q_route (e_req E))) = true ->
  forall full inner u,
  route_table (with_sess E s2) = Handler (behind (with_sess E s2) full inner) ->
  reqs_ok (with_sess E s2) full false = true -> bempty (aget k_uid s2) = false ->
  ulookup (aget k_uid s2) (s_users st) = Some u ->
  fault_at (h_ncalls h1) (o_faults (e_O E)) = None ->
  serve_top E (init_hst st O) =
  with_error_handler (with_sess E s2) inner (after_load (with_sess E s2) h1 <| h_cuser := Some u |>).
Proof. exact c08w_serve_top_runs_lemma. Qed.
Print Assumptions c08w_handler_runs.

(* WHOLE REQUEST, refused: a requirement bit unmet on the view, or no uid in the view, or no user
   stored under it (and the Load not failed): the result of [serve_top] is the same for every handler
   behind the gate - it is not run -, storage is as the wrapper left it (the user table as the request
   found it), and the response is the refusal of the configured mode, flushed with the wrapper's
   events (its Put uid / Put halfauth, if it logged somebody in) before the flash *)
Theorem c08w_handler_not_run : forall E st O h1 s2,
  remember_mw E (init_hst st O) = (Ok tt, h1) -> remembered_view (e_sess E) h1 = (Ok s2, h1) ->
  c_wrap_remember (e_cfg E) && negb (is_app (q_route (e_req E))) = true ->
  forall full,
  fault_at (h_ncalls h1) (o_faults (e_O E)) = None ->
  reqs_ok (with_sess E s2) full false = false \/ bempty (aget k_uid s2) = true \/
    ulookup (aget k_uid s2) (s_users st) = None ->
  exists h', (forall inner, route_table (with_sess E s2) = Handler (behind (with_sess E s2) full inner) ->
                serve_top E (init_hst st O) = (Ok tt, h')) /\
    h_st h' = h_st h1 /\ s_users (h_st h') = s_users st /\ h_cuser h' = None /\ h_cev h' = h_cev h1 /\
    ((h_sev h' = h_sev h1 ++ refusal_sev (with_sess E s2) (c_unauthed (e_cfg E)) /\
      h_out h' = Some (mkWritten (refusal_response (with_sess E s2) true (c_unauthed (e_cfg E)))
                                 (h_sev h1 ++ refusal_sev (with_sess E s2) (c_unauthed (e_cfg E))) (h_cev h1))) \/
     (c_unauthed (e_cfg E) = RespRedirect /\ c_api (e_cfg E) = true /\ h_sev h' = h_sev h1 /\ h_out h' = None /\
      exists n ek, fault_at n (o_faults (e_O E)) = Some ek)).
Proof. exact c08w_serve_top_not_run_lemma. Qed.
Print Assumptions c08w_handler_not_run.

(* which routes these are: the 2FA settings routes are [behind V true _] (c13w_settings_routes_gated,
   Props/C13w.v, for any environment - in particular V), the OTP add / clear routes [behind V false _] *)
Theorem c08w_otp_routes_gated : forall E,
  otp_settings_route (q_route (e_req E)) = true ->
  (exists inner, route_table E = Handler (behind E false inner)) \/
  route_table E = NotFound \/ route_table E = MethodNotAllowed.
Proof. exact otp_settings_route_table. Qed.
Print Assumptions c08w_otp_routes_gated.

Theorem c08w_settings_routes_gated : forall E s2,
  settings_route (q_route (e_req E)) = true ->
  (exists inner, route_table (with_sess E s2) = Handler (behind (with_sess E s2) true inner)) \/
  route_table (with_sess E s2) = NotFound \/ route_table (with_sess E s2) = MethodNotAllowed.
Proof. exact settings_route_table_view. Qed.
Print Assumptions c08w_settings_routes_gated.

Theorem c08w_gated_route_reading : forall r,
  (settings_route r = true \/ otp_settings_route r = true) <->
  r = ROtpAdd \/ r = ROtpClear \/
  r = RTotpSetup \/ r = RTotpQR \/ r = RTotpConfirm \/ r = RTotpRemove \/ r = RSmsSetup \/ r = RSmsConfirm \/
  r = RSmsRemove \/ (exists k, r = REmailVerify k) \/ (exists k, r = REmailVerifyEnd k) \/ r = RRecoveryRegen.
Proof. exact gated_route_reading. Qed.
Print Assumptions c08w_gated_route_reading.

(* the gate with a pid cached in the context that is the session's uid (the situation the wrapper
   creates), any environment: the decision equation of c08_gate_decision holds unchanged *)
Theorem c08w_gate_decision_cached_pid : forall E mp full tf fr h,
  h_cuser h = None ->
  (match h_cpid h with Some p => p | None => aget k_uid (e_sess E) end) = aget k_uid (e_sess E) ->
  auth_middleware E mp full tf fr h =
  if reqs_ok E full tf && negb (bempty (aget k_uid (e_sess E))) then
    match fault_at (h_ncalls h) (o_faults (e_O E)) with
    | Some EGeneric => (log [] ;;; write_resp (RespStatus 500) ;;; ret false) (after_load E h)
    | Some ENotFound => refuse_now E mp fr (after_load E h)
    | None => match ulookup (aget k_uid (e_sess E)) (s_users (h_st h)) with
              | Some u => (Ok true, after_load E h <| h_cuser := Some u |>)
              | None => refuse_now E mp fr (after_load E h)
              end
    end
  else refuse_now E mp fr h.
Proof. exact gate_decision_gen. Qed.
Print Assumptions c08w_gate_decision_cached_pid.

(* [wstep] of a request is [serve_top] from the start state, flushed *)
Theorem c08w_wstep_reading : forall C cfg w req O r h,
  let b := q_browser req in
  serve_top (mkEnv C cfg O req (jar_get b (w_cook w)) (jar_get b (w_sess w))) (init_hst (w_st w) O) = (r, h) ->
  let w' := fst (wstep C cfg w (AReq req) O) in
  snd (wstep C cfg w (AReq req) O) = obs_of r h /\
  w_st w' = h_st h /\
  match h_out h with
  | Some wr => jar_get b (w_sess w') = apply_events (jar_get b (w_sess w)) (w_sev wr) /\
               jar_get b (w_cook w') = apply_events (jar_get b (w_cook w)) (w_cev wr)
  | None => w_sess w' = w_sess w /\ w_cook w' = w_cook w
  end.
Proof. exact wstep_shape_eq. Qed.
Print Assumptions c08w_wstep_reading.
