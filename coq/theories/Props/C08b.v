(* C08 — the access middleware (continued): the "if" direction, the exact decision, and the
   shape of every refusal.  Proofs: Proofs/StepLift2.v (section GT).

   Vocabulary (definitions of Proofs/StepLift2.v, all transparent):
     reqs_ok E full tf          (Proofs/Gate.v) the requirement test on the session: not (full required
                                and the half-auth mark present), not (2FA required and the two-factor
                                mark absent);
     after_load E h             h after the one Load call the middleware makes for the session's uid:
                                the context pid set to that uid, the call counted and recorded as KLoad;
     refusal_response E mp fr   RespStatus 404 for RespNotFound, RespStatus 401 for RespUnauthorized,
                                for RespRedirect the redirect (302, or the 307 API redirect marked as a
                                failure) to [mw_redirect_target E mp];
     refusal_sev E fr           the session events of a refusal: the error flash for the form-mode
                                redirect, nothing otherwise;
     gate_refuses E full tf h   a requirement is unmet, or the session has no (non-empty) user id, or
                                storage holds no user under that id. *)
From AB Require Import World.Handlers Base.TextProofs Proofs.MonadInv Proofs.Gate Proofs.StepLift2.
Open Scope Z_scope.

(* IF.  At the start of a request (no user and no pid cached in the context), when the
   requirements hold of the session, the session's uid is non-empty, storage holds the user u
   under it and the Load is not failed by the oracle: the middleware admits, and the state it
   hands to the wrapped handler is the one it was given with exactly this added — the Load
   accounted for, the context pid set, and the context user set to u.  No event, no response,
   no storage change (those fields are untouched by [after_load] and the h_cuser update). *)
Theorem c08_gate_admits_if : forall E mp full tf fr h u,
  reqs_ok E full tf = true -> h_cuser h = None -> h_cpid h = None ->
  bempty (aget k_uid (e_sess E)) = false -> ulookup (aget k_uid (e_sess E)) (s_users (h_st h)) = Some u ->
  fault_at (h_ncalls h) (o_faults (e_O E)) = None ->
  auth_middleware E mp full tf fr h = (Ok true, after_load E h <| h_cuser := Some u |>).
Proof. exact gate_admits_if_lemma. Qed.
Print Assumptions c08_gate_admits_if.

(* a user already in the context (an earlier middleware loaded it): admitted without any call,
   the state is unchanged *)
Theorem c08_gate_admits_cached : forall E mp full tf fr h u,
  reqs_ok E full tf = true -> h_cuser h = Some u -> auth_middleware E mp full tf fr h = (Ok true, h).
Proof. exact gate_cached. Qed.
Print Assumptions c08_gate_admits_cached.

(* so the handler behind the module-route gate runs as [inner] started with the context user u *)
Theorem c08_wrapped_runs : forall E full inner h u,
  reqs_ok E full false = true -> h_cuser h = None -> h_cpid h = None ->
  bempty (aget k_uid (e_sess E)) = false -> ulookup (aget k_uid (e_sess E)) (s_users (h_st h)) = Some u ->
  fault_at (h_ncalls h) (o_faults (e_O E)) = None ->
  behind E full inner h = inner (after_load E h <| h_cuser := Some u |>).
Proof. exact behind_runs_lemma. Qed.
Print Assumptions c08_wrapped_runs.

(* IF AND ONLY IF (with c08_gate_admits of Props/C08.v for the other direction): at the start of
   a request and with no fault on the Load, the wrapped handler is to run exactly when the
   requirements hold and the session names a stored user. *)
Theorem c08_gate_iff : forall E mp full tf fr h,
  h_cuser h = None -> h_cpid h = None -> fault_at (h_ncalls h) (o_faults (e_O E)) = None ->
  ((exists h', auth_middleware E mp full tf fr h = (Ok true, h')) <->
   (reqs_ok E full tf = true /\ bempty (aget k_uid (e_sess E)) = false /\
    exists u, ulookup (aget k_uid (e_sess E)) (s_users (h_st h)) = Some u)).
Proof. exact gate_iff_lemma. Qed.
Print Assumptions c08_gate_iff.

(* The whole decision with a user id in the session, as one equation: one Load; a generic
   failure of it gives "log, 500, do not run"; "not found" (answered by storage or injected)
   gives the refusal; a user gives admission. *)
Theorem c08_gate_decision : forall E mp full tf fr h,
  reqs_ok E full tf = true -> h_cuser h = None -> h_cpid h = None -> bempty (aget k_uid (e_sess E)) = false ->
  auth_middleware E mp full tf fr h =
  match fault_at (h_ncalls h) (o_faults (e_O E)) with
  | Some EGeneric => (log [] ;;; write_resp (RespStatus 500) ;;; ret false) (after_load E h)
  | Some ENotFound => refuse_now E mp fr (after_load E h)
  | None => match ulookup (aget k_uid (e_sess E)) (s_users (h_st h)) with
            | Some u => (Ok true, after_load E h <| h_cuser := Some u |>)
            | None => refuse_now E mp fr (after_load E h)
            end
  end.
Proof. exact gate_load. Qed.
Print Assumptions c08_gate_decision.

(* REFUSAL.  When the middleware does not admit (and the Load, if one is made, is not failed):
   it answers false — the wrapped handler is not run — storage is unchanged, no user is put in
   the context, no cookie event is recorded, and the only session event is the error flash of the
   form-mode redirect (never the user id: c08_gate_neutral).  The response written is exactly the
   refusal of the configured mode, flushed with everything recorded before plus that flash.  The
   one exception: the API-mode redirect goes through the renderer, a backend call; if the oracle
   fails it the middleware swallows the error and nothing is written. *)
Theorem c08_refusal_shape : forall E mp full tf fr h,
  h_cuser h = None -> h_cpid h = None -> h_out h = None ->
  fault_at (h_ncalls h) (o_faults (e_O E)) = None ->
  gate_refuses E full tf h ->
  exists h', auth_middleware E mp full tf fr h = (Ok false, h') /\
    h_st h' = h_st h /\ h_cuser h' = None /\ h_cev h' = h_cev h /\
    ((h_sev h' = h_sev h ++ refusal_sev E fr /\
      h_out h' = Some (mkWritten (refusal_response E mp fr) (h_sev h ++ refusal_sev E fr) (h_cev h))) \/
     (fr = RespRedirect /\ c_api (e_cfg E) = true /\ h_sev h' = h_sev h /\ h_out h' = None /\
      exists n ek, fault_at n (o_faults (e_O E)) = Some ek)).
Proof. exact gate_refusal_lemma. Qed.
Print Assumptions c08_refusal_shape.

(* an unmet requirement or a session without user id is refused without touching storage at all:
   no hypothesis on the oracle, and the context pid stays unset *)
Theorem c08_refusal_without_load : forall E mp full tf fr h,
  h_cuser h = None -> h_cpid h = None -> h_out h = None ->
  reqs_ok E full tf = false \/ bempty (aget k_uid (e_sess E)) = true ->
  exists h', auth_middleware E mp full tf fr h = (Ok false, h') /\
    h_st h' = h_st h /\ h_cuser h' = None /\ h_cpid h' = None /\ h_cev h' = h_cev h /\
    ((h_sev h' = h_sev h ++ refusal_sev E fr /\
      h_out h' = Some (mkWritten (refusal_response E mp fr) (h_sev h ++ refusal_sev E fr) (h_cev h))) \/
     (fr = RespRedirect /\ c_api (e_cfg E) = true /\ h_sev h' = h_sev h /\ h_out h' = None /\
      exists n ek, fault_at n (o_faults (e_O E)) = Some ek)).
Proof. exact gate_refusal_noload_lemma. Qed.
Print Assumptions c08_refusal_without_load.

(* the module routes: refused means the result does not depend on the wrapped handler at all *)
Theorem c08_wrapped_not_run : forall E full h,
  h_cuser h = None -> h_cpid h = None -> h_out h = None ->
  fault_at (h_ncalls h) (o_faults (e_O E)) = None ->
  gate_refuses E full false h ->
  exists h', (forall inner, behind E full inner h = (Ok tt, h')) /\
    h_st h' = h_st h /\ h_cuser h' = None /\ h_cev h' = h_cev h /\
    ((h_sev h' = h_sev h ++ refusal_sev E (c_unauthed (e_cfg E)) /\
      h_out h' = Some (mkWritten (refusal_response E true (c_unauthed (e_cfg E)))
                                 (h_sev h ++ refusal_sev E (c_unauthed (e_cfg E))) (h_cev h))) \/
     (c_unauthed (e_cfg E) = RespRedirect /\ c_api (e_cfg E) = true /\ h_sev h' = h_sev h /\ h_out h' = None /\
      exists n ek, fault_at n (o_faults (e_O E)) = Some ek)).
Proof. exact behind_refusal_lemma. Qed.
Print Assumptions c08_wrapped_not_run.

(* the redirect of the refusal names the login page under the mount and carries, as "redir",
   the original path (prefixed by the mount for module routes) and raw query, escaped so that it
   decodes back to exactly that string (the vocabulary of c08_redirect_target_roundtrip) *)
Theorem c08_redirect_target_shape : forall E mp,
  let p0 := q_path (e_req E) in
  let p := if mp && negb (bempty (c_mount (e_cfg E))) then c_mount (e_cfg E) ++ p0 else p0 in
  let orig := if bempty (q_rawquery (e_req E)) then p else p ++ "?"%byte :: q_rawquery (e_req E) in
  mw_redirect_target E mp = c_mount (e_cfg E) ++ bs "/login?redir=" ++ query_escape orig /\
  query_unescape (S (length (query_escape orig))) (query_escape orig) = Some orig.
Proof. exact mw_redirect_target_shape. Qed.
Print Assumptions c08_redirect_target_shape.

(* a generic storage failure of the Load: log, 500, the wrapped handler is not run, nothing stored *)
Theorem c08_load_fault_500 : forall E mp full tf fr h,
  reqs_ok E full tf = true -> h_cuser h = None -> h_cpid h = None -> h_out h = None ->
  bempty (aget k_uid (e_sess E)) = false ->
  fault_at (h_ncalls h) (o_faults (e_O E)) = Some EGeneric ->
  exists h', auth_middleware E mp full tf fr h = (Ok false, h') /\
    h_st h' = h_st h /\ h_cuser h' = None /\ h_sev h' = h_sev h /\ h_cev h' = h_cev h /\
    h_out h' = Some (mkWritten (RespStatus 500) (h_sev h) (h_cev h)).
Proof. exact gate_load_fault_lemma. Qed.
Print Assumptions c08_load_fault_500.
