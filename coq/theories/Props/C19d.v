(* C19 (continued) — registration never overwrites an account, over whole HISTORIES.

   Props/C19b.v states it for the handler [register_post].  Here:
     - the request-level statement: a request on the register route (any method, module loaded or
       not, any body, any oracle: storage faults included), taken in ANY world, leaves every record
       that existed before the step in place, unchanged;
     - [filed] - one entry per key in the user table, every record filed under its own pid - is an
       invariant of [step] for every action (requests, administrative calls, seeds), hence of [run];
     - so in every world reachable from the empty world by any history there is at most one record
       per pid, and exactly one for every pid that can be looked up ("exactly one account").
   count_pid p l = the number of entries of the user table l whose key is p. *)
From AB Require Import World.Step World.Exec Proofs.TwoFactorProofs Proofs.HistoryProofs Proofs.History2.

Theorem c19_count_pid_reading : forall p l,
  count_pid p l = length (filter (fun ku => beqb p (fst ku)) l).
Proof. reflexivity. Qed.
Print Assumptions c19_count_pid_reading.

(* one step *)
Theorem c19_step_never_overwrites : forall C cfg w req O p u,
  q_route req = RRegister ->
  ulookup p (s_users (w_st w)) = Some u ->
  ulookup p (s_users (w_st (fst (step C cfg w (AReq req) O)))) = Some u.
Proof. exact step_register_unchanged. Qed.
Print Assumptions c19_step_never_overwrites.

(* anywhere in a history (any start world): the world before the registration is the one the prefix
   l1 reached, the world after it is the one l1 ++ [registration] reached, and the rest of the history
   continues from there *)
Theorem c19_history_never_overwrites : forall C cfg w0 l1 req O l2 p u,
  q_route req = RRegister ->
  ulookup p (s_users (w_st (fst (run C cfg w0 l1)))) = Some u ->
  ulookup p (s_users (w_st (fst (run C cfg w0 (l1 ++ [(AReq req, O)]))))) = Some u /\
  fst (run C cfg w0 (l1 ++ (AReq req, O) :: l2)) =
    fst (run C cfg (fst (step C cfg (fst (run C cfg w0 l1)) (AReq req) O)) l2).
Proof. exact history_register_unchanged. Qed.
Print Assumptions c19_history_never_overwrites.

(* the well-formedness invariant, one step and whole histories *)
Theorem c19_step_keeps_filed : forall C cfg w a O, filed (w_st w) -> filed (w_st (fst (step C cfg w a O))).
Proof. exact LockWorld2.step_filed_lemma. Qed.
Print Assumptions c19_step_keeps_filed.

Theorem c19_history_keeps_filed : forall C cfg l w, filed (w_st w) -> filed (w_st (fst (run C cfg w l))).
Proof. exact run_filed_lemma. Qed.
Print Assumptions c19_history_keeps_filed.

(* what [filed] says in terms of counting *)
Theorem c19_filed_counts : forall p l, filedl l ->
  (count_pid p l <= 1)%nat /\
  (forall u, ulookup p l = Some u -> count_pid p l = 1%nat /\ u_pid u = p) /\
  (ulookup p l = None -> count_pid p l = 0%nat).
Proof. exact filedl_count. Qed.
Print Assumptions c19_filed_counts.

(* every reachable world: at most one record per pid, exactly one when the pid can be looked up *)
Theorem c19_history_one_account : forall C cfg l p,
  let st := w_st (fst (run C cfg empty_world l)) in
  filed st /\
  (count_pid p (s_users st) <= 1)%nat /\
  (forall u, ulookup p (s_users st) = Some u -> count_pid p (s_users st) = 1%nat /\ u_pid u = p) /\
  (ulookup p (s_users st) = None -> count_pid p (s_users st) = 0%nat).
Proof. exact history_one_account_lemma. Qed.
Print Assumptions c19_history_one_account.

(* both together: a registration attempt for a pid that is taken in a reachable world leaves that
   record as it was and the pid still has exactly one record *)
Theorem c19_history_taken_pid_kept : forall C cfg l1 req O p u,
  q_route req = RRegister ->
  let w1 := fst (run C cfg empty_world l1) in
  let w2 := fst (run C cfg empty_world (l1 ++ [(AReq req, O)])) in
  ulookup p (s_users (w_st w1)) = Some u ->
  ulookup p (s_users (w_st w2)) = Some u /\ count_pid p (s_users (w_st w2)) = 1%nat.
Proof. exact history_never_overwrites_lemma. Qed.
Print Assumptions c19_history_taken_pid_kept.

(* the situation exists: register a pid, then register the same pid from another browser with another
   (policy-conforming) password; the stored hash is still the first password's and the table has one
   record (executable crypto, computed) *)
Example c19_history_never_overwrites_nonvacuous :
  q_route rg_second = RRegister /\ q_meth rg_second = POST /\ has_mod rg_cfg MRegister = true /\
  option_map u_password (ulookup hx_pid (s_users (w_st (fst (run XC rg_cfg empty_world rg_first))))) =
    Some (exec_pwhash (bs "Passw0rd!x")) /\
  option_map u_password
    (ulookup hx_pid (s_users (w_st (fst (run XC rg_cfg empty_world (rg_first ++ [(AReq rg_second, hx_oracle)])))))) =
    Some (exec_pwhash (bs "Passw0rd!x")) /\
  length (s_users (w_st (fst (run XC rg_cfg empty_world (rg_first ++ [(AReq rg_second, hx_oracle)]))))) = 1%nat.
Proof. exact rg_witness. Qed.
Print Assumptions c19_history_never_overwrites_nonvacuous.
