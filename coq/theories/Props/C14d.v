(* C14 (continued) — the parse direction of the OAuth2 PID codec, authboss.ParseOAuth2PID (user.go:176),
   for ALL byte strings.  Model/PidCodec.v: split2 = strings.Split(pid, ";;") (leftmost, non-overlapping),
   parse_pid accepts exactly three segments of which the first is "oauth2".

   has_sep2 s  : the two-byte separator ";;" occurs in s      (exists a b, s = a ++ sep2 ++ b)
   ends_semi s : s ends with the byte ';'                      (exists a, s = a ++ [semi])
   join2       : strings.Join(l, ";;")                                  (Proofs/PidCodecProofs.v) *)
From AB Require Import Model.PidCodec Proofs.PidCodecProofs.

(* Split then Join is the identity on every byte string *)
Theorem c14_join_split : forall s, join2 (split2 s) = s.
Proof. exact join2_split2_lemma. Qed.
Print Assumptions c14_join_split.

(* 1. parse after make, separator-free names *)
Theorem c14_parse_make : forall p u, no_semi p -> no_semi u -> parse_pid (make_pid p u) = Some (p, u).
Proof. exact c14_parse_make_lemma. Qed.
Print Assumptions c14_parse_make.

(* 2. the exact side condition: the provider name does not contain ";;" and does not end with ';', the uid
   does not contain ";;".  Single ';' bytes inside the provider name, and a uid that starts or ends with ';',
   are fine; nothing weaker will do (iff). *)
Theorem c14_parse_make_sharp : forall p u, ~ has_sep2 p -> ~ ends_semi p -> ~ has_sep2 u ->
  parse_pid (make_pid p u) = Some (p, u).
Proof. exact c14_parse_make_sharp_lemma. Qed.
Print Assumptions c14_parse_make_sharp.

Theorem c14_parse_make_exact : forall p u,
  parse_pid (make_pid p u) = Some (p, u) <-> (~ has_sep2 p /\ ~ ends_semi p /\ ~ has_sep2 u).
Proof. exact c14_parse_make_exact_lemma. Qed.
Print Assumptions c14_parse_make_exact.

(* 3. fail closed: a uid that contains the separator is refused, never truncated - for EVERY provider name and
   every u1, u2 (no hypothesis is needed: leftmost-first cutting finds at least one cut per disjoint
   occurrence, so there are at least four segments) *)
Theorem c14_parse_refuses_extra_separator : forall p u1 u2,
  parse_pid (make_pid p (u1 ++ [semi; semi] ++ u2)) = None.
Proof. exact c14_parse_refuses_extra_separator_lemma. Qed.
Print Assumptions c14_parse_refuses_extra_separator.

(* 4. whatever parses is the canonical spelling of exactly the pair it returns *)
Theorem c14_parse_sound : forall s p u, parse_pid s = Some (p, u) -> s = make_pid p u.
Proof. exact c14_parse_sound_lemma. Qed.
Print Assumptions c14_parse_sound.

Theorem c14_parse_inj : forall s1 s2 x, parse_pid s1 = Some x -> parse_pid s2 = Some x -> s1 = s2.
Proof. exact c14_parse_inj_lemma. Qed.
Print Assumptions c14_parse_inj.

(* the pairs that come out of a parse are exactly the ones of the sharp condition: on them parse and make are
   mutually inverse *)
Theorem c14_parse_range : forall s p u, parse_pid s = Some (p, u) ->
  ~ has_sep2 p /\ ~ ends_semi p /\ ~ has_sep2 u.
Proof. exact c14_parse_range_lemma. Qed.
Print Assumptions c14_parse_range.

(* 5. nothing parses without the "oauth2;;" prefix *)
Theorem c14_parse_needs_prefix : forall s x, parse_pid s = Some x -> bprefix oauth2_prefix s = true.
Proof. exact c14_parse_needs_prefix_lemma. Qed.
Print Assumptions c14_parse_needs_prefix.

(* the sharp condition in use; and what goes wrong outside it: a provider name ending in ';' is not refused
   but mis-split into ANOTHER pair (provider names are configuration, C14's no_semi hypothesis covers it) *)
Theorem c14_sharp_examples :
  parse_pid (make_pid (list_byte_of_string "a;b"%string) (list_byte_of_string ";x;y;"%string))
    = Some (list_byte_of_string "a;b"%string, list_byte_of_string ";x;y;"%string) /\
  parse_pid (make_pid (list_byte_of_string "a;"%string) (list_byte_of_string "x"%string))
    = Some (list_byte_of_string "a"%string, list_byte_of_string ";x"%string).
Proof. exact c14_sharp_examples_lemma. Qed.
Print Assumptions c14_sharp_examples.

Example c14_parse_extra_segment :
  parse_pid (list_byte_of_string "oauth2;;google;;a;;b"%string) = None.
Proof. vm_compute. reflexivity. Qed.

Example c14_parse_google_123 :
  parse_pid (list_byte_of_string "oauth2;;google;;123"%string)
    = Some (list_byte_of_string "google"%string, list_byte_of_string "123"%string).
Proof. vm_compute. reflexivity. Qed.
