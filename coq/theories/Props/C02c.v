(* C02 (continued) — "The pending login completes only when the request presents a code that is
   currently valid for that account's own factor ... or one of its unused recovery codes": the
   completion pages, read off the handlers.

   appends_uid h h' U: the session events appended between h and h' contain Put "uid" U.
   The requests start with nothing cached (h_cuser = None, h_cpid = None: World/Step.v init_hst)
   and a store with every record under its own pid (keyed).

   The guards of Props/C01b.v (g_totp, g_sms) say where the user may come from without saying
   that a key that is looked up is non-empty; user_source2 / g_totp2 / g_sms2 add that, and the
   completion theorems add what storage holds afterwards when a recovery code was used. *)
From AB Require Import World.Handlers Proofs.MonadInv Proofs.Guards Proofs.StoreLogic Proofs.FlowProofs
  Proofs.Guards3 Proofs.TwoFactor2.

(* the guards, in the shape of c01_totp_validate_guard / c01_sms_validate_guard, sharpened *)
Theorem c02_totp_validate_guard : forall E h, guarded (g_totp2 E h) (totp_validate_post E) h.
Proof. exact totp_validate_post_guard2. Qed.
Print Assumptions c02_totp_validate_guard.

Theorem c02_sms_validate_guard : forall E h, guarded (g_sms2 E h) (sms_validator_post E SPValidate) h.
Proof. exact sms_validator_post_guard2. Qed.
Print Assumptions c02_sms_validate_guard.

(* POST /2fa/totp/validate writes identity U.  Then U is the non-empty session uid (a user who is
   already identified validating again) or the non-empty pending pid; storage held a record u under
   U with a TOTP secret; and either no recovery code was submitted and the oracle's TOTP table
   accepts the submitted code for THAT secret, or the submitted recovery code verifies against one
   of u's stored recovery-code hashes - and then the record stored under U afterwards carries the
   list with that entry taken out (c12_use_recovery_code_spec says which) *)
Theorem c02_totp_completion : forall (E : env) h r h' U,
  keyed (h_st h) -> h_cuser h = None -> h_cpid h = None ->
  totp_validate_post E h = (r, h') -> appends_uid h h' U ->
  ((bempty (aget k_uid (e_sess E)) = false /\ U = aget k_uid (e_sess E)) \/
   (bempty (aget k_totp_pending (e_sess E)) = false /\ U = aget k_totp_pending (e_sess E))) /\
  exists u, ulookup U (s_users (h_st h)) = Some u /\ u_pid u = U /\
    bempty (u_totp u) = false /\
    ((bempty (aget f_recovery_code (values E)) = true /\
      totp_ok E (u_totp u) (aget f_code (values E)) = true) \/
     (bempty (aget f_recovery_code (values E)) = false /\
      exists rest, use_recovery_code E (decode_codes (u_recovery u)) (aget f_recovery_code (values E)) = Some rest /\
        exists su, ulookup U (s_users (h_st h')) = Some su /\ u_recovery su = encode_codes rest /\ u_pid su = U)).
Proof. exact totp_completion_lemma. Qed.
Print Assumptions c02_totp_completion.

(* the pending login proper - the session identifies nobody: U is the pending pid *)
Theorem c02_totp_pending_completion : forall (E : env) h r h' U,
  keyed (h_st h) -> h_cuser h = None -> h_cpid h = None -> bempty (aget k_uid (e_sess E)) = true ->
  totp_validate_post E h = (r, h') -> appends_uid h h' U ->
  U = aget k_totp_pending (e_sess E) /\ bempty U = false /\
  exists u, ulookup U (s_users (h_st h)) = Some u /\ u_pid u = U /\
    bempty (u_totp u) = false /\
    ((bempty (aget f_recovery_code (values E)) = true /\
      totp_ok E (u_totp u) (aget f_code (values E)) = true) \/
     (bempty (aget f_recovery_code (values E)) = false /\
      exists rest, use_recovery_code E (decode_codes (u_recovery u)) (aget f_recovery_code (values E)) = Some rest /\
        exists su, ulookup U (s_users (h_st h')) = Some su /\ u_recovery su = encode_codes rest /\ u_pid su = U)).
Proof. exact totp_pending_completion_lemma. Qed.
Print Assumptions c02_totp_pending_completion.

(* POST /2fa/sms/validate writes identity U.  Likewise; the code alternative: no recovery code was
   submitted, the session holds a non-empty code, the submitted code equals it, and that code had
   been sent to the number STORED for U (sessions written before the number was recorded carry no
   k_sms_secret_number and are accepted as they are, sms.go) *)
Theorem c02_sms_completion : forall (E : env) h r h' U,
  keyed (h_st h) -> h_cuser h = None -> h_cpid h = None ->
  sms_validator_post E SPValidate h = (r, h') -> appends_uid h h' U ->
  ((bempty (aget k_uid (e_sess E)) = false /\ U = aget k_uid (e_sess E)) \/
   (bempty (aget k_sms_pending (e_sess E)) = false /\ U = aget k_sms_pending (e_sess E))) /\
  exists u, ulookup U (s_users (h_st h)) = Some u /\ u_pid u = U /\
    ((bempty (aget f_recovery_code (values E)) = true /\ bempty (aget k_sms_secret (e_sess E)) = false /\
      aget f_code (values E) = aget k_sms_secret (e_sess E) /\
      match alookup k_sms_secret_number (e_sess E) with Some sent => sent = u_sms u | None => True end) \/
     (bempty (aget f_recovery_code (values E)) = false /\
      exists rest, use_recovery_code E (decode_codes (u_recovery u)) (aget f_recovery_code (values E)) = Some rest /\
        exists su, ulookup U (s_users (h_st h')) = Some su /\ u_recovery su = encode_codes rest /\ u_pid su = U)).
Proof. exact sms_completion_lemma. Qed.
Print Assumptions c02_sms_completion.

Theorem c02_sms_pending_completion : forall (E : env) h r h' U,
  keyed (h_st h) -> h_cuser h = None -> h_cpid h = None -> bempty (aget k_uid (e_sess E)) = true ->
  sms_validator_post E SPValidate h = (r, h') -> appends_uid h h' U ->
  U = aget k_sms_pending (e_sess E) /\ bempty U = false /\
  exists u, ulookup U (s_users (h_st h)) = Some u /\ u_pid u = U /\
    ((bempty (aget f_recovery_code (values E)) = true /\ bempty (aget k_sms_secret (e_sess E)) = false /\
      aget f_code (values E) = aget k_sms_secret (e_sess E) /\
      match alookup k_sms_secret_number (e_sess E) with Some sent => sent = u_sms u | None => True end) \/
     (bempty (aget f_recovery_code (values E)) = false /\
      exists rest, use_recovery_code E (decode_codes (u_recovery u)) (aget f_recovery_code (values E)) = Some rest /\
        exists su, ulookup U (s_users (h_st h')) = Some su /\ u_recovery su = encode_codes rest /\ u_pid su = U)).
Proof. exact sms_pending_completion_lemma. Qed.
Print Assumptions c02_sms_pending_completion.
