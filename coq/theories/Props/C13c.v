(* C13 (continued) — "enabling additionally needs a valid code for the secret or number being
   enrolled, disabling a current code or an unused recovery code": the SMS half, and the 2FA-field
   frame for the OAuth2 callback.

   Vocabulary (Proofs/TwoFactorProofs.v): tf_of st p is the (TOTP secret, SMS number, recovery
   codes) triple stored for account p; filed st: one entry per key, every record under its own
   pid; ctx_ok h: the context user carries the same triple as the record stored under his pid.

   Unlike the TOTP pages (Props/C13b.v), the SMS validator fires EvAfterAuthFail when the code is
   wrong, and the lock module's hook then saves the owner's record with a new attempt count.
   "Storage changed" is therefore not the right trigger for the SMS pages: the theorems are
   triggered by a change of SOME account's 2FA triple, from a filed store and an agreeing context
   (what the access middleware establishes, c13_gate / c13_middlewares_keep_2fa_fields). *)
From AB Require Import World.Handlers Proofs.MonadInv Proofs.StoreLogic Proofs.TwoFactorProofs Proofs.TwoFactor2.

(* /2fa/sms/confirm with owner u in the context.  If anybody's 2FA triple changed, then the session
   held a number being enrolled, a non-empty code, the submitted code equals the session's code,
   the code had been sent to exactly that number (sessions written before the number was recorded
   carry no k_sms_secret_number and are accepted as they are, sms.go), and afterwards the stored
   record of u has that number as u_sms (TOTP secret untouched); nobody else's record changed *)
Theorem c13_sms_confirm_needs_code : forall (E : env) h u r h',
  filed (h_st h) -> ctx_ok h -> h_cuser h = Some u ->
  sms_validator_post E SPConfirm h = (r, h') ->
  (exists q, tf_of (h_st h') q <> tf_of (h_st h) q) ->
  exists number,
    alookup k_sms_number (e_sess E) = Some number /\
    bempty (aget k_sms_secret (e_sess E)) = false /\
    aget f_code (values E) = aget k_sms_secret (e_sess E) /\
    match alookup k_sms_secret_number (e_sess E) with Some sent => sent = number | None => True end /\
    (exists u', ulookup (u_pid u) (s_users (h_st h')) = Some u' /\
                u_sms u' = number /\ u_pid u' = u_pid u /\ u_totp u' = u_totp u) /\
    (forall p, p <> u_pid u -> ulookup p (s_users (h_st h')) = ulookup p (s_users (h_st h))).
Proof. exact sms_confirm_needs_code_lemma. Qed.
Print Assumptions c13_sms_confirm_needs_code.

(* /2fa/sms/remove with owner u in the context.  If anybody's 2FA triple changed, then (su being
   u's STORED record before the request) either no recovery code was submitted, the submitted code
   equals the session's non-empty code and that code had been sent to su's stored number, or the
   submitted recovery code verifies against one of su's stored recovery codes; nobody else's record
   changed; and if the handler returned normally the stored u_sms of u is now empty.
   (When the second Save fails after a recovery code was used up, the handler returns the error:
   the code is spent, the number stays.) *)
Theorem c13_sms_remove_needs_factor : forall (E : env) h u r h',
  filed (h_st h) -> ctx_ok h -> h_cuser h = Some u ->
  sms_validator_post E SPRemove h = (r, h') ->
  (exists q, tf_of (h_st h') q <> tf_of (h_st h) q) ->
  (exists su, ulookup (u_pid u) (s_users (h_st h)) = Some su /\
     ((bempty (aget f_recovery_code (values E)) = true /\ bempty (aget k_sms_secret (e_sess E)) = false /\
       aget f_code (values E) = aget k_sms_secret (e_sess E) /\
       match alookup k_sms_secret_number (e_sess E) with Some sent => sent = u_sms su | None => True end) \/
      (bempty (aget f_recovery_code (values E)) = false /\
       exists rest, use_recovery_code E (decode_codes (u_recovery su)) (aget f_recovery_code (values E)) = Some rest))) /\
  (forall p, p <> u_pid u -> ulookup p (s_users (h_st h')) = ulookup p (s_users (h_st h))) /\
  (r = Ok tt -> exists u', ulookup (u_pid u) (s_users (h_st h')) = Some u' /\ u_sms u' = [] /\ u_pid u' = u_pid u).
Proof. exact sms_remove_needs_factor_lemma. Qed.
Print Assumptions c13_sms_remove_needs_factor.

(* the two pages in one statement: either nobody's triple changed (wrong code, no code, errors:
   whatever the EvAfterAuthFail hooks did), or the check was passed - by the session's code, bound
   to the number, or by a recovery code that has been taken out of the stored list - and the
   page's success tail ran *)
Theorem c13_sms_settings_cases : forall (E : env) p h u r h',
  filed (h_st h) -> ctx_ok h -> h_cuser h = Some u -> sms_validator_post E p h = (r, h') ->
  (forall q, tf_of (h_st h') q = tf_of (h_st h) q) \/
  (exists u1 h1, sms_passed E p u u1 (h_st h) (h_st h1) /\ sms_ok_tail E p u1 true h1 = (r, h')).
Proof. exact sms_post_cases. Qed.
Print Assumptions c13_sms_settings_cases.

(* the OAuth2 callback creates or updates one record, the one filed under the provider-scoped pid:
   every existing account - that one included, when it exists - and every other pid keeps its
   (TOTP secret, SMS number, recovery codes) triple, whatever hooks fire *)
Theorem c13_oauth2_keeps_existing_2fa_fields : forall (E : env) prov h r h',
  filed (h_st h) -> ctx_ok h -> oauth2_end E prov h = (r, h') ->
  filed (h_st h') /\ ctx_ok h' /\
  forall p, p <> make_oauth2_pid prov (pa_uid (o_provider (e_O E))) \/ ulookup p (s_users (h_st h)) <> None ->
            tf_of (h_st h') p = tf_of (h_st h) p.
Proof. exact oauth2_end_2fa. Qed.
Print Assumptions c13_oauth2_keeps_existing_2fa_fields.
