(* C11 — property theorems only. Statements are never edited to make a proof pass. *)
From AB Require Import Model.ClientState Spec.C11 Proofs.ClientStateProofs.

(* for every request-start state and every handler program (any length, any
   interleaving of put/del/delall on either store, reads, header and body writes,
   through any wrapper depth) the writer's trace is the specification's *)
Theorem c11_trace : forall sess0 cook0 (p : list op),
  cs_trace sess0 cook0 p = c11_spec sess0 cook0 p.
Proof. exact c11_trace_lemma. Qed.
Print Assumptions c11_trace.

Theorem c11_at_most_once : forall sess0 cook0 st (p : list op),
  length (filter (is_store st) (cs_trace sess0 cook0 p)) <= 1.
Proof. exact c11_at_most_once_lemma. Qed.
Print Assumptions c11_at_most_once.

Theorem c11_before_release : forall sess0 cook0 (p : list op),
  exists a b, cs_trace sess0 cook0 p = a ++ b /\
              filter is_release a = [] /\ (forall st, filter (is_store st) b = []).
Proof. exact c11_before_release_lemma. Qed.
Print Assumptions c11_before_release.

Theorem c11_delivered : forall sess0 cook0 st (p : list op) l,
  In (TStore st l) (cs_trace sess0 cook0 p) -> l = evs_of st (pre p) /\ l <> [].
Proof. exact c11_delivered_lemma. Qed.
Print Assumptions c11_delivered.

Theorem c11_delivery_complete : forall sess0 cook0 st (p : list op),
  existsb is_write p = true -> evs_of st (pre p) <> [] ->
  In (TStore st (evs_of st (pre p))) (cs_trace sess0 cook0 p).
Proof. exact c11_delivery_complete_lemma. Qed.
Print Assumptions c11_delivery_complete.

Theorem c11_reads_stable : forall sess0 cook0 (p : list op) st k v,
  In (TGet st k v) (cs_trace sess0 cook0 p) -> v = getst sess0 cook0 st k.
Proof. exact c11_reads_stable_lemma. Qed.
Print Assumptions c11_reads_stable.

(* the predicate the correspondence check evaluates on the implementation's traces
   is satisfied by the model on every program *)
Theorem c11_model_ok : forall sess0 cook0 (p : list op),
  c11_ok sess0 cook0 p (cs_trace sess0 cook0 p) = true.
Proof. exact c11_model_ok_lemma. Qed.
Print Assumptions c11_model_ok.

(* non-vacuity: a concrete program with events on both stores, two writes and a read *)
Example c11_example :
  let k := ["u"%byte] in let v := ["1"%byte] in
  cs_trace [(k, v)] [] [OGet Sess k; OEv Sess (Put k v) 0; OEv Cook (Del k) 2; OWriteHeader 200 1;
                        OEv Sess (Del k) 0; OWrite v 0; OGet Sess k]
  = [TGet Sess k (Some v); TStore Sess [Put k v]; TStore Cook [Del k]; THdr 200; TBody v; TGet Sess k (Some v)].
Proof. reflexivity. Qed.
