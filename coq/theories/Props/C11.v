(* C11 — property theorems only. Statements are never edited to make a proof pass. *)
From AB Require Import Model.ClientState Spec.C11 Proofs.ClientStateProofs.

(* for every request-start state and every handler program (any length, any
   interleaving of put/del/delall on either store, reads, header and body writes,
   through any wrapper depth, with any store made to fail at any point) the writer's
   trace is the specification's *)
Theorem c11_trace : forall sess0 cook0 (p : list op),
  cs_trace sess0 cook0 p = c11_spec_f sess0 cook0 p.
Proof. exact c11_trace_lemma. Qed.
Print Assumptions c11_trace.

Theorem c11_at_most_once : forall sess0 cook0 st (p : list op),
  length (filter (is_store st) (cs_trace sess0 cook0 p)) <= 1.
Proof. exact c11_at_most_once_lemma. Qed.
Print Assumptions c11_at_most_once.

Theorem c11_before_release : forall sess0 cook0 (p : list op),
  exists a b, cs_trace sess0 cook0 p = a ++ b /\
              filter is_release a = [] /\ (forall st, filter (is_store st) b = []).
Proof. exact c11_before_release_lemma. Qed.
Print Assumptions c11_before_release.

Theorem c11_delivered : forall sess0 cook0 st (p : list op) l,
  In (TStore st l) (cs_trace sess0 cook0 p) -> l = evs_of st (pre p) /\ l <> [].
Proof. exact c11_delivered_lemma. Qed.
Print Assumptions c11_delivered.

(* the call is made (even if it then fails) — for the session store always, for the
   cookie store unless the session call was made and failed *)
Theorem c11_delivery_complete : forall sess0 cook0 st (p : list op),
  existsb is_write p = true -> evs_of st (pre p) <> [] ->
  (st = Sess \/ evs_of Sess (pre p) = [] \/ fails Sess p = false) ->
  In (TStore st (evs_of st (pre p))) (cs_trace sess0 cook0 p).
Proof. exact c11_delivery_complete_lemma. Qed.
Print Assumptions c11_delivery_complete.

Theorem c11_reads_stable : forall sess0 cook0 (p : list op) st k v,
  In (TGet st k v) (cs_trace sess0 cook0 p) -> v = getst sess0 cook0 st k.
Proof. exact c11_reads_stable_lemma. Qed.
Print Assumptions c11_reads_stable.

(* the predicate the correspondence check evaluates on the implementation's traces
   is satisfied by the model on every program, with or without failing stores *)
Theorem c11_model_ok : forall sess0 cook0 (p : list op),
  c11_ok sess0 cook0 p (cs_trace sess0 cook0 p) = true.
Proof. exact c11_model_ok_lemma. Qed.
Print Assumptions c11_model_ok.

(* ---- the stores' failure path ---- *)

(* wherever the session call is immediately followed by the flush error: the cookie
   store is never called in the whole program; what precedes the call is the reads of
   the pre-write prefix (nothing released); what follows the error is the plain
   effect of the operations after the triggering write — that write contributed the
   call and the error and released nothing *)
Theorem c11_failed_session_store : forall sess0 cook0 (p : list op) a l f b,
  cs_trace sess0 cook0 p = a ++ TStore Sess l :: f :: b -> is_failure f = true ->
  (forall l', ~ In (TStore Cook l') (cs_trace sess0 cook0 p)) /\
  a = flat_map (plain sess0 cook0) (pre p) /\ filter is_release a = [] /\
  b = flat_map (plain sess0 cook0) (tl (post p)).
Proof. exact c11_failed_session_store_lemma. Qed.
Print Assumptions c11_failed_session_store.

(* whichever store failed: everything after the error is the plain effect of the
   later operations on the underlying writer, with no store call — the events are
   not delivered a second time, however many times the handler writes *)
Theorem c11_failed_flush_not_retried : forall sess0 cook0 (p : list op) a f b,
  cs_trace sess0 cook0 p = a ++ f :: b -> is_failure f = true ->
  b = flat_map (plain sess0 cook0) (tl (post p)) /\
  (forall st, filter (is_store st) b = []).
Proof. exact c11_failed_flush_not_retried_lemma. Qed.
Print Assumptions c11_failed_flush_not_retried.

(* a program that injects no failure has the trace of the fault-free equation *)
Theorem c11_fault_free_unchanged : forall sess0 cook0 (p : list op),
  no_fail p = true -> cs_trace sess0 cook0 p = c11_spec sess0 cook0 p.
Proof. exact c11_fault_free_lemma. Qed.
Print Assumptions c11_fault_free_unchanged.

(* non-vacuity: a concrete program with events on both stores, two writes and a read *)
Example c11_example :
  let k := ["u"%byte] in let v := ["1"%byte] in
  cs_trace [(k, v)] [] [OGet Sess k; OEv Sess (Put k v) 0; OEv Cook (Del k) 2; OWriteHeader 200 1;
                        OEv Sess (Del k) 0; OWrite v 0; OGet Sess k]
  = [TGet Sess k (Some v); TStore Sess [Put k v]; TStore Cook [Del k]; THdr 200; TBody v; TGet Sess k (Some v)].
Proof. reflexivity. Qed.

(* a failing cookie store: both stores are called, the header write panics and
   releases nothing, the second write goes straight through with no store call *)
Example c11_example_cookie_fails :
  let k := ["u"%byte] in let v := ["1"%byte] in
  cs_trace [(k, v)] [] [OEv Sess (Put k v) 0; OFailNext Cook; OEv Cook (Del k) 2; OWriteHeader 200 1;
                        OEv Sess (Del k) 0; OWrite v 0; OGet Sess k]
  = [TStore Sess [Put k v]; TStore Cook [Del k]; TPanic; TBody v; TGet Sess k (Some v)].
Proof. reflexivity. Qed.

(* a failing session store: the cookie store is not called, the body write returns
   the error, the later header write is not preceded by any store call *)
Example c11_example_session_fails :
  let k := ["u"%byte] in let v := ["1"%byte] in
  cs_trace [] [] [OFailNext Sess; OEv Cook (Del k) 0; OEv Sess (Put k v) 0; OWrite v 0;
                  OWriteHeader 200 0; OWrite v 0]
  = [TStore Sess [Put k v]; TErr; THdr 200; TBody v].
Proof. reflexivity. Qed.

(* a pending failure of a store that has no event is not consumed and changes nothing *)
Example c11_example_unused_failure :
  let k := ["u"%byte] in let v := ["1"%byte] in
  cs_trace [] [] [OFailNext Sess; OEv Cook (Del k) 0; OWrite v 0]
  = [TStore Cook [Del k]; TBody v].
Proof. reflexivity. Qed.
