(* C01 for the wrapped deployment ([wstep]), the complementary half: who can take an identity OUT
   of a session when the module routes sit behind the global remember.Middleware.

   The wrapper itself only ever records Put events (uid, halfauth) on the session, never a Del or a
   DelAll; so the answer is the one of Props/C01c.v (c01_identity_removed_only_by_logout_or_expiry):
   if browser b's stored session carried a user identity before the step and carries none
   afterwards, then the step was a request of browser b that reached the logout handler (module
   enabled, the configured method) or an application route behind the expire middleware - or the
   harness replaced the session jar by one without an identity.  No other request (wrapped or not,
   with or without a remember cookie), no administrative action takes an identity out of a session. *)
From AB Require Import World.Step Proofs.EvLogic Proofs.Neutral Proofs.HandlerEvents Proofs.ServeEvents Proofs.StepUid
  Proofs.StepAll Proofs.Wrapped Proofs.Wrapped2.
Open Scope Z_scope.

Theorem c01w_identity_removed_only_by_logout_or_expiry : forall C cfg w a O b,
  let w' := fst (wstep C cfg w a O) in
  ahas k_uid (jar_get b (w_sess w)) = true -> ahas k_uid (jar_get b (w_sess w')) = false ->
  (exists req, a = AReq req /\ q_browser req = b /\
     ((q_route req = RLogout /\ q_meth req = c_logout_method cfg /\ q_meth req <> PUT /\ has_mod cfg MLogout = true) \/
      (exists full tf fr l c r, q_route req = RApp full tf fr l c r true))) \/
  (exists j, a = ASetJar false b j /\ ahas k_uid j = false).
Proof. exact c01x_identity_removed_lemma. Qed.
Print Assumptions c01w_identity_removed_only_by_logout_or_expiry.

(* handler level: the wrapped router records no identity-dropping session event (no Del uid, no
   DelAll) whenever the route behind the wrapper records none, whatever view the wrapper made *)
Theorem c01w_serve_top_nodrop : forall E,
  c_wrap_remember (e_cfg E) && negb (is_app (q_route (e_req E))) = true ->
  (forall s2, routed_evs sess_nodrop any_ev (route_table (with_sess E s2))) ->
  evs_all sess_nodrop any_ev (serve_top E).
Proof. exact nodrop_serve_top. Qed.
Print Assumptions c01w_serve_top_nodrop.

(* request level: such a request keeps the identity of the requesting browser's session *)
Theorem c01w_wstep_uid_kept : forall C cfg w req O,
  evs_all sess_nodrop any_ev
    (serve_top (mkEnv C cfg O req (jar_get (q_browser req) (w_cook w)) (jar_get (q_browser req) (w_sess w)))) ->
  ahas k_uid (jar_get (q_browser req) (w_sess w)) = true ->
  ahas k_uid (jar_get (q_browser req) (w_sess (fst (wstep C cfg w (AReq req) O)))) = true.
Proof. exact wstep_uid_kept_class. Qed.
Print Assumptions c01w_wstep_uid_kept.

(* the classes, spelled out *)
Theorem c01w_sess_nodrop_reading : forall e,
  sess_nodrop e <-> match e with Put _ _ => True | Del k => k <> k_uid | DelAll _ => False end.
Proof. exact sess_nodrop_reading. Qed.
Print Assumptions c01w_sess_nodrop_reading.
