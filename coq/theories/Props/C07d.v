(* C07 (continued) — a remember cookie logs in once and NEVER AGAIN, over whole histories of the
   system: [run], any number of arbitrary steps by any browsers in between, backend faults allowed.

   The chain (Proofs/TokenHistory.v):
     1. [rm_absent C cookie U st]: the stored form of the cookie's token is not among U's tokens;
     2. a step presenting a cookie whose token is absent logs nobody in, and the cookie is deleted
        from the client when the response is written;
     3. absence - more generally "at most n copies" - is kept by every step, with two VISIBLE
        exceptions [rm_exception]: a step whose oracle hands out exactly the cookie's nonce as
        fresh randomness (the new token would be the old one), and the harness's direct seed
        carrying this very token for U;
     4. the step in which the cookie logged its owner in establishes absence (the token occurred at
        most once before);
     5. hence the history theorem.
   The preservation proof is a Hoare logic over the handler monad ([tk]): whatever any route, hook,
   middleware or administrative operation writes, the token list of U only ever loses tokens, is
   emptied, or gains base64(sha512(U ; fresh 32-byte chunk)). *)
From AB Require Import World.Step World.Exec Proofs.Wrapped Proofs.HistoryProofs Proofs.TokenHistory.
Open Scope Z_scope.

(* ---- vocabulary -------------------------------------------------------------------------------- *)
(* the vocabulary of c07_unknown_cookie_no_login *)
Theorem c07_rm_absent_reading : forall C cookie U st,
  rm_absent C cookie U st <->
  forall raw, b64url_dec cookie = Some raw -> bmem (b64std_enc (sha C raw)) (rmlookup U (s_rm st)) = false.
Proof. exact rm_absent_reading. Qed.
Print Assumptions c07_rm_absent_reading.

Theorem c07_rm_at_most_reading : forall C cookie U st n,
  rm_at_most C cookie U st n <->
  forall raw, b64url_dec cookie = Some raw ->
    (count_occ bytes_dec (rmlookup U (s_rm st)) (b64std_enc (sha C raw)) <= n)%nat.
Proof. exact rm_at_most_reading. Qed.
Print Assumptions c07_rm_at_most_reading.

Theorem c07_rm_absent_at_most : forall C cookie U st, rm_absent C cookie U st <-> rm_at_most C cookie U st 0.
Proof. exact rm_absent_iff. Qed.
Print Assumptions c07_rm_absent_at_most.

(* the visible exceptions.  The cookie's nonce is its last 32 bytes (c07_replacement_differs); a read
   of crypto/rand in a request under oracle O returns one of the chunks O lists or - the model's
   starved read - all zeros.  A step that only writes a client jar is never an exception. *)
Theorem c07_rm_exception_reading : forall C cookie U a O,
  rm_exception C cookie U (a, O) <->
  exists raw, b64url_dec cookie = Some raw /\
    match a with
    | ASeed u rm => u_pid u = U /\ In (b64std_enc (sha C raw)) rm
    | APlant _ _ _ | ASetJar _ _ _ => False
    | _ => In (skipn (length raw - 32) raw) (o_fresh O) \/
           skipn (length raw - 32) raw = repeat x00 (length (skipn (length raw - 32) raw))
    end.
Proof. exact rm_exception_reading. Qed.
Print Assumptions c07_rm_exception_reading.

(* ---- 2. an absent token is refused ---------------------------------------------------------------- *)
(* any application route (the only routes of [step] that read the cookie), any browser, any oracle:
   after the step every session identity is one that was there before (the expire middleware may
   have removed one) *)
Theorem c07_absent_cookie_no_login : forall C cfg w req O cookie raw U,
  is_app (q_route req) = true ->
  alookup k_rm (jar_get (q_browser req) (w_cook w)) = Some cookie ->
  b64url_dec cookie = Some raw -> rm_parse_pid raw = Some U ->
  rm_absent C cookie U (w_st w) ->
  forall b V, alookup k_uid (jar_get b (w_sess (fst (step C cfg w (AReq req) O)))) = Some V ->
              alookup k_uid (jar_get b (w_sess w)) = Some V.
Proof. exact rm_absent_refused. Qed.
Print Assumptions c07_absent_cookie_no_login.

(* ... and, without backend faults, on a session without identity (otherwise remember.Middleware does
   not look at the cookie), the client's cookie jar no longer holds it once the response is written *)
Theorem c07_absent_cookie_deleted : forall C cfg w req O cookie raw U full tf fr l c e,
  q_route req = RApp full tf fr l c true e ->
  alookup k_rm (jar_get (q_browser req) (w_cook w)) = Some cookie ->
  b64url_dec cookie = Some raw -> rm_parse_pid raw = Some U ->
  rm_absent C cookie U (w_st w) ->
  o_faults O = [] -> ahas k_uid (jar_get (q_browser req) (w_sess w)) = false ->
  ob_resp (snd (step C cfg w (AReq req) O)) <> None ->
  alookup k_rm (jar_get (q_browser req) (w_cook (fst (step C cfg w (AReq req) O)))) = None.
Proof. exact rm_absent_cookie_deleted. Qed.
Print Assumptions c07_absent_cookie_deleted.

(* ---- 3. preservation -------------------------------------------------------------------------------- *)
Theorem c07_absent_preserved : forall C cfg w a O cookie raw U,
  crypto_laws C -> b64url_dec cookie = Some raw -> rm_parse_pid raw = Some U ->
  ~ rm_exception C cookie U (a, O) ->
  rm_absent C cookie U (w_st w) -> rm_absent C cookie U (w_st (fst (step C cfg w a O))).
Proof. exact rm_absent_step. Qed.
Print Assumptions c07_absent_preserved.

(* "at most n copies", for every n: in particular "at most once" is an invariant *)
Theorem c07_at_most_preserved : forall C, crypto_laws C -> forall cfg w a O cookie raw U n,
  b64url_dec cookie = Some raw -> rm_parse_pid raw = Some U ->
  ~ rm_exception C cookie U (a, O) ->
  rm_at_most C cookie U (w_st w) n -> rm_at_most C cookie U (w_st (fst (step C cfg w a O))) n.
Proof. exact rm_at_most_step. Qed.
Print Assumptions c07_at_most_preserved.

Theorem c07_at_most_history : forall C, crypto_laws C -> forall cfg cookie raw U n l w,
  b64url_dec cookie = Some raw -> rm_parse_pid raw = Some U ->
  Forall (fun ao => ~ rm_exception C cookie U ao) l ->
  rm_at_most C cookie U (w_st w) n -> rm_at_most C cookie U (w_st (fst (run C cfg w l))) n.
Proof. exact rm_at_most_run. Qed.
Print Assumptions c07_at_most_history.

(* ---- 4. consumption establishes absence ------------------------------------------------------------- *)
(* the request presented the cookie on an application route behind remember.Middleware, the cookie
   names U, and the stored session of the browser names U after the step and did not before *)
Theorem c07_consumed_absent : forall C, crypto_laws C -> forall cfg w req O cookie raw U,
  (exists full tf fr l c e, q_route req = RApp full tf fr l c true e) ->
  alookup k_rm (jar_get (q_browser req) (w_cook w)) = Some cookie ->
  b64url_dec cookie = Some raw -> rm_parse_pid raw = Some U ->
  alookup k_uid (jar_get (q_browser req) (w_sess (fst (step C cfg w (AReq req) O)))) = Some U ->
  alookup k_uid (jar_get (q_browser req) (w_sess w)) <> Some U ->
  ~ rm_exception C cookie U (AReq req, O) ->
  rm_at_most C cookie U (w_st w) 1 ->
  rm_absent C cookie U (w_st (fst (step C cfg w (AReq req) O))).
Proof. exact rm_consumed_absent. Qed.
Print Assumptions c07_consumed_absent.

(* ---- 5. never again ---------------------------------------------------------------------------------- *)
(* History l1 ++ (AReq r1, O1) :: l2 ++ [(AReq r2, O2)] from any world w0.  r1 presented the cookie
   (it was in its browser's jar) on an application route behind remember.Middleware and was logged in
   by it as U; the token occurred at most once in U's list at that time; neither that step nor any
   step of l2 - any actions by any browsers, any oracles with any backend faults - is one of the
   visible exceptions.  Then r2, by ANY browser whose jar holds the same cookie value (copied,
   stolen, replayed), on any application route, with any oracle: the token is absent from storage,
   and after the step every session's identity is one it had before - the cookie logs nobody in. *)
Theorem c07_cookie_never_again : forall C, crypto_laws C -> forall cfg w0 l1 r1 O1 l2 r2 O2 cookie raw U,
  b64url_dec cookie = Some raw -> rm_parse_pid raw = Some U ->
  let w1 := fst (run C cfg w0 l1) in
  let w1' := fst (run C cfg w0 (l1 ++ [(AReq r1, O1)])) in
  let w2 := fst (run C cfg w0 (l1 ++ (AReq r1, O1) :: l2)) in
  let w3 := fst (run C cfg w0 (l1 ++ (AReq r1, O1) :: l2 ++ [(AReq r2, O2)])) in
  (exists full tf fr l c e, q_route r1 = RApp full tf fr l c true e) ->
  alookup k_rm (jar_get (q_browser r1) (w_cook w1)) = Some cookie ->
  alookup k_uid (jar_get (q_browser r1) (w_sess w1')) = Some U ->
  alookup k_uid (jar_get (q_browser r1) (w_sess w1)) <> Some U ->
  rm_at_most C cookie U (w_st w1) 1 ->
  ~ rm_exception C cookie U (AReq r1, O1) ->
  Forall (fun ao => ~ rm_exception C cookie U ao) l2 ->
  is_app (q_route r2) = true ->
  alookup k_rm (jar_get (q_browser r2) (w_cook w2)) = Some cookie ->
  rm_absent C cookie U (w_st w2) /\
  forall b V, alookup k_uid (jar_get b (w_sess w3)) = Some V -> alookup k_uid (jar_get b (w_sess w2)) = Some V.
Proof. exact cookie_never_again_lemma. Qed.
Print Assumptions c07_cookie_never_again.

(* from the empty world "at most once" needs no hypothesis: it holds at the start and is kept by
   every exception-free history *)
Theorem c07_cookie_never_again_from_empty : forall C, crypto_laws C -> forall cfg l1 r1 O1 l2 r2 O2 cookie raw U,
  b64url_dec cookie = Some raw -> rm_parse_pid raw = Some U ->
  let w1 := fst (run C cfg empty_world l1) in
  let w1' := fst (run C cfg empty_world (l1 ++ [(AReq r1, O1)])) in
  let w2 := fst (run C cfg empty_world (l1 ++ (AReq r1, O1) :: l2)) in
  let w3 := fst (run C cfg empty_world (l1 ++ (AReq r1, O1) :: l2 ++ [(AReq r2, O2)])) in
  Forall (fun ao => ~ rm_exception C cookie U ao) (l1 ++ (AReq r1, O1) :: l2) ->
  (exists full tf fr l c e, q_route r1 = RApp full tf fr l c true e) ->
  alookup k_rm (jar_get (q_browser r1) (w_cook w1)) = Some cookie ->
  alookup k_uid (jar_get (q_browser r1) (w_sess w1')) = Some U ->
  alookup k_uid (jar_get (q_browser r1) (w_sess w1)) <> Some U ->
  is_app (q_route r2) = true ->
  alookup k_rm (jar_get (q_browser r2) (w_cook w2)) = Some cookie ->
  forall b V, alookup k_uid (jar_get b (w_sess w3)) = Some V -> alookup k_uid (jar_get b (w_sess w2)) = Some V.
Proof. exact cookie_never_again_from_empty_lemma. Qed.
Print Assumptions c07_cookie_never_again_from_empty.

(* the hypotheses of c07_cookie_never_again are satisfiable (executable crypto instance, computed):
   seed an account, log in with "remember me", end the session, come back with the cookie (logged
   in, token rotated), copy the OLD cookie into another browser's jar, present it *)
Example c07_cookie_never_again_nonvacuous :
  exists C cfg w0 l1 r1 O1 l2 r2 cookie raw U,
    crypto_laws C /\ b64url_dec cookie = Some raw /\ rm_parse_pid raw = Some U /\
    (exists full tf fr l c e, q_route r1 = RApp full tf fr l c true e) /\
    alookup k_rm (jar_get (q_browser r1) (w_cook (fst (run C cfg w0 l1)))) = Some cookie /\
    alookup k_uid (jar_get (q_browser r1) (w_sess (fst (run C cfg w0 (l1 ++ [(AReq r1, O1)]))))) = Some U /\
    alookup k_uid (jar_get (q_browser r1) (w_sess (fst (run C cfg w0 l1)))) <> Some U /\
    rm_at_most C cookie U (w_st (fst (run C cfg w0 l1))) 1 /\
    ~ rm_exception C cookie U (AReq r1, O1) /\
    Forall (fun ao => ~ rm_exception C cookie U ao) l2 /\
    l2 <> [] /\
    is_app (q_route r2) = true /\
    alookup k_rm (jar_get (q_browser r2) (w_cook (fst (run C cfg w0 (l1 ++ (AReq r1, O1) :: l2))))) = Some cookie.
Proof. exact nx_witness. Qed.
Print Assumptions c07_cookie_never_again_nonvacuous.
