(* C01 — a session is issued only against a valid credential of that user (continued):
   the property as ONE statement over every action and every route. *)
From AB Require Import World.Step Proofs.EvLogic Proofs.Neutral Proofs.HandlerEvents Proofs.ServeEvents Proofs.StepUid
  Proofs.MonadInv Proofs.Guards Proofs.Guards2 Proofs.Guards3 Proofs.StepGuard Proofs.StepAll.
Open Scope Z_scope.

(* Whatever happens in one step — any action, any configuration (any module subset in any order),
   any world, any request contents, any oracle (storage faults included): if afterwards browser b's
   stored session carries the user identity U and it did not before, then the step was a request
   of browser b on one of the eight login paths, that path's module is enabled, and the credential
   condition of that path held for U on the request, the jars and the storage the request started
   from (ENV is exactly the environment [step] builds):
     password / unconsumed one-time password / own just-completed registration / unexpired recovery
     token with login-after-recovery configured / OAuth2 callback in which the provider named U /
     second-factor step (TOTP, SMS) for the user the session's uid or pending key names /
     unconsumed remember token.
   Covered actions: AReq, ALock, AUnlock, AUpdatePassword, AStartConfirm, ASeed (every library-level
   action) and ASetJar true (cookie jar).  The two harness actions that write a session jar
   directly can of course write an identity; they appear as the last two disjuncts, with exactly
   the values they must carry. *)
Theorem c01_session_only_against_credential : forall C cfg w a O U b,
  let w' := fst (step C cfg w a O) in
  alookup k_uid (jar_get b (w_sess w')) = Some U -> alookup k_uid (jar_get b (w_sess w)) <> Some U ->
  (exists req, a = AReq req /\ q_browser req = b /\
     let ENV := mkEnv C cfg O req (jar_get (q_browser req) (w_cook w)) (jar_get (q_browser req) (w_sess w)) in
     ((q_route req = RLogin /\ q_meth req = POST /\ has_mod cfg MAuth = true /\ g_login ENV (w_st w) U) \/
      (q_route req = ROtpLogin /\ q_meth req = POST /\ has_mod cfg MOtp = true /\ g_otp ENV (w_st w) U) \/
      (q_route req = RRegister /\ q_meth req = POST /\ has_mod cfg MRegister = true /\ Guards2.g_register ENV (w_st w) U) \/
      (q_route req = RRecoverEnd /\ q_meth req = POST /\ has_mod cfg MRecover = true /\ g_recover ENV (w_st w) U) \/
      (exists prov, q_route req = ROAuthCallback prov /\ q_meth req = GET /\ has_mod cfg MOAuth2 = true /\
                    bmem prov (c_providers cfg) = true /\ g_oauth2 ENV prov (w_st w) U) \/
      (q_route req = RTotpValidate /\ q_meth req = POST /\ c_totp cfg = true /\ g_totp ENV (init_hst (w_st w) O) U) \/
      (q_route req = RSmsValidate /\ q_meth req = POST /\ c_sms cfg = true /\ g_sms ENV (init_hst (w_st w) O) U) \/
      (exists full tf fr l c e, q_route req = RApp full tf fr l c true e /\ g_remember ENV (w_st w) U))) \/
  a = APlant b k_uid U \/
  (exists j, a = ASetJar false b j /\ alookup k_uid j = Some U).
Proof. exact c01_session_only_against_credential_lemma. Qed.
Print Assumptions c01_session_only_against_credential.

(* the same with the two harness actions excluded by hypothesis *)
Theorem c01_library_actions_only_against_credential : forall C cfg w a O U b,
  match a with APlant _ _ _ | ASetJar _ _ _ => False | _ => True end ->
  let w' := fst (step C cfg w a O) in
  alookup k_uid (jar_get b (w_sess w')) = Some U -> alookup k_uid (jar_get b (w_sess w)) <> Some U ->
  exists req, a = AReq req /\ q_browser req = b /\ credential_shown C cfg w O req U.
Proof. exact c01_library_actions_lemma. Qed.
Print Assumptions c01_library_actions_only_against_credential.

(* the complementary half.  If browser b's stored session carried a user identity before the step
   and carries none afterwards, then the step was a request of browser b that reached the logout
   handler (module enabled, the configured method) or an application route behind the expire
   middleware — or the harness replaced the session jar by one without an identity.  No other
   request, no administrative action (lock, unlock, password update, confirmation restart, seeding,
   planting a session value, replacing the cookie jar) takes an identity out of a session. *)
Theorem c01_identity_removed_only_by_logout_or_expiry : forall C cfg w a O b,
  let w' := fst (step C cfg w a O) in
  ahas k_uid (jar_get b (w_sess w)) = true -> ahas k_uid (jar_get b (w_sess w')) = false ->
  (exists req, a = AReq req /\ q_browser req = b /\
     ((q_route req = RLogout /\ q_meth req = c_logout_method cfg /\ q_meth req <> PUT /\ has_mod cfg MLogout = true) \/
      (exists full tf fr l c r, q_route req = RApp full tf fr l c r true))) \/
  (exists j, a = ASetJar false b j /\ ahas k_uid j = false).
Proof. exact c01_identity_removed_lemma. Qed.
Print Assumptions c01_identity_removed_only_by_logout_or_expiry.

(* ---- what the eight credential conditions say, spelled out -------------------------------------
   [values E] is the parsed body as the handler reads it (form, then query; the JSON body in API
   mode). *)
Theorem c01_g_login_reading : forall E st U,
  g_login E st U <->
  U = aget (pid_field E) (values E) /\
  exists u, ulookup U (s_users st) = Some u /\ pwcheck (e_C E) (u_password u) (aget f_password (values E)) = true.
Proof. exact g_login_reading. Qed.
Print Assumptions c01_g_login_reading.

Theorem c01_g_otp_reading : forall E st U,
  g_otp E st U <->
  U = aget (pid_field E) (values E) /\
  exists u i, ulookup U (s_users st) = Some u /\
              otp_match (sha (e_C E) (aget f_password (values E))) (split_otps (u_otps u)) 0%nat = Some (Some i).
Proof. exact g_otp_reading. Qed.
Print Assumptions c01_g_otp_reading.

Theorem c01_g_register_reading : forall E st U,
  Guards2.g_register E st U <->
  U = aget (pid_field E) (values E) /\ ulookup U (s_users st) = None /\
  valid [pid_rule E; password_rule] pw_pairs (values E) = true.
Proof. exact g_register_reading. Qed.
Print Assumptions c01_g_register_reading.

Theorem c01_g_recover_reading : forall E st U,
  g_recover E st U <->
  c_recover_login (e_cfg E) = true /\
  exists raw u,
    b64url_dec (aget f_token (values E)) = Some raw /\ length raw = 64%nat /\
    ufind (fun u => beqb (u_rsel u) (selector_of E raw)) (s_users st) = Some u /\
    ~ (u_rexp u < o_now (e_O E)) /\
    b64std_dec (u_rver u) = Some (sha (e_C E) (half2 raw)) /\
    U = u_pid u.
Proof. exact g_recover_reading. Qed.
Print Assumptions c01_g_recover_reading.

Theorem c01_g_oauth2_reading : forall E prov st U,
  g_oauth2 E prov st U <->
  (exists st0, alookup k_oauth_state (e_sess E) = Some st0 /\ form_value E f_state = st0) /\
  bempty (form_value E f_error) = true /\
  pa_exchange_ok (o_provider (e_O E)) = true /\ pa_details_ok (o_provider (e_O E)) = true /\
  exists u0, U = make_oauth2_pid prov (u_ouid u0) /\
    (ulookup (make_oauth2_pid prov (pa_uid (o_provider (e_O E)))) (s_users st) = Some u0 \/
     u_ouid u0 = pa_uid (o_provider (e_O E))).
Proof. exact g_oauth2_reading. Qed.
Print Assumptions c01_g_oauth2_reading.

Theorem c01_g_remember_reading : forall E st U,
  g_remember E st U <->
  exists cookie raw,
    alookup k_rm (e_cook E) = Some cookie /\ b64url_dec cookie = Some raw /\ rm_parse_pid raw = Some U /\
    bmem (b64std_enc (sha (e_C E) raw)) (rmlookup U (s_rm st)) = true.
Proof. exact g_remember_reading. Qed.
Print Assumptions c01_g_remember_reading.

(* the second-factor steps, read at the start of a request (nothing is cached in the context yet):
   the user is the one named by the session's uid, or by the pending key a first factor parked in
   this session *)
Theorem c01_g_totp_reading : forall E st O U,
  g_totp E (init_hst st O) U <->
  exists u,
    (ulookup (aget k_uid (e_sess E)) (s_users st) = Some u \/
     ulookup (aget k_totp_pending (e_sess E)) (s_users st) = Some u) /\
    u_pid u = U /\
    bempty (u_totp u) = false /\
    (bempty (aget f_recovery_code (values E)) = false ->
       use_recovery_code E (decode_codes (u_recovery u)) (aget f_recovery_code (values E)) <> None) /\
    (bempty (aget f_recovery_code (values E)) = true -> totp_ok E (u_totp u) (aget f_code (values E)) = true).
Proof. exact g_totp_reading. Qed.
Print Assumptions c01_g_totp_reading.

Theorem c01_g_sms_reading : forall E st O U,
  g_sms E (init_hst st O) U <->
  exists u,
    (ulookup (aget k_uid (e_sess E)) (s_users st) = Some u \/
     ulookup (aget k_sms_pending (e_sess E)) (s_users st) = Some u) /\
    u_pid u = U /\
    (bempty (aget f_recovery_code (values E)) = false ->
       use_recovery_code E (decode_codes (u_recovery u)) (aget f_recovery_code (values E)) <> None) /\
    (bempty (aget f_recovery_code (values E)) = true ->
       bempty (aget k_sms_secret (e_sess E)) = false /\
       beqb (aget f_code (values E)) (aget k_sms_secret (e_sess E)) = true /\
       match alookup k_sms_secret_number (e_sess E) with
       | Some sent => beqb sent (u_sms u) = true
       | None => True
       end).
Proof. exact g_sms_reading. Qed.
Print Assumptions c01_g_sms_reading.
