(* C07 — flow part on the model: a remember cookie is single-use. *)
From AB Require Import World.Handlers Proofs.FlowProofs.

(* if remember.Authenticate writes the identity U into the session, then the cookie named U, its
   hash was among U's stored tokens; exactly one occurrence of that hash is removed and the hash
   of a fresh token (U, separator, 32 fresh bytes) is appended; the cookie is deleted and
   replaced by the fresh token; the session gets exactly uid := U and halfauth := true *)
Theorem c07_use_rotates : forall E h r h' U,
  remember_authenticate E h = (r, h') ->
  (exists ls, h_sev h' = h_sev h ++ ls /\ In (Put k_uid U) ls) ->
  exists cookie raw nonce,
    alookup k_rm (e_cook E) = Some cookie /\ b64url_dec cookie = Some raw /\ rm_parse_pid raw = Some U /\
    length nonce = 32%nat /\
    let hash := b64std_enc (sha (e_C E) raw) in
    let raw' := U ++ ";"%byte :: nonce in
    r = Ok tt /\
    bmem hash (rmlookup U (s_rm (h_st h))) = true /\
    h_sev h' = h_sev h ++ [Put k_uid U; Put k_halfauth v_true] /\
    h_cev h' = h_cev h ++ [Del k_rm; Put k_rm (b64url_enc raw')] /\
    rmlookup U (s_rm (h_st h')) =
      remove_first hash (rmlookup U (s_rm (h_st h))) ++ [b64std_enc (sha (e_C E) raw')].
Proof. exact remember_use_rotates_lemma. Qed.
Print Assumptions c07_use_rotates.

(* a cookie that does not decode, names no account, or (no backend fault) whose hash is not among
   the named account's tokens is deleted; no session event is appended, storage is unchanged *)
Theorem c07_bad_cookie_deleted : forall E h r h' cookie,
  alookup k_rm (e_cook E) = Some cookie ->
  (b64url_dec cookie = None \/
   (exists raw, b64url_dec cookie = Some raw /\ rm_parse_pid raw = None) \/
   (exists raw pid, b64url_dec cookie = Some raw /\ rm_parse_pid raw = Some pid /\
      bmem (b64std_enc (sha (e_C E) raw)) (rmlookup pid (s_rm (h_st h))) = false /\ o_faults (e_O E) = [])) ->
  remember_authenticate E h = (r, h') ->
  r = Ok tt /\ h_cev h' = h_cev h ++ [Del k_rm] /\ h_sev h' = h_sev h /\ h_st h' = h_st h.
Proof. exact remember_bad_cookie_lemma. Qed.
Print Assumptions c07_bad_cookie_deleted.
