(* C07 (continued) — a remember cookie logs in exactly once, as a two-run theorem. *)
From AB Require Import World.Handlers Proofs.FlowProofs Proofs.OnceProofs.

(* First run: remember.Authenticate wrote the identity U into the session (c07_use_rotates: the
   cookie named U, one occurrence of its hash left U's token list, the hash of a fresh token joined it).
   Second run: any environment with the same crypto whose cookie jar carries the same cookie value,
   from the storage the first run left, WHATEVER the oracle does: no session event is appended
   (nobody is logged in) and storage is unchanged; without backend faults the cookie is deleted.
   Hypotheses: sha is injective ([crypto_laws]); the consumed hash occurred at most once in U's token
   list; the replacement cookie the first run sent does not decode to the consumed token (see the
   next two theorems: the oracle supplies the fresh bytes, so this cannot hold unconditionally). *)
Theorem c07_cookie_once : forall E1 h1 r1 h1' U cookie E2 h2 r2 h2',
  crypto_laws (e_C E1) ->
  remember_authenticate E1 h1 = (r1, h1') ->
  (exists ls, h_sev h1' = h_sev h1 ++ ls /\ In (Put k_uid U) ls) ->
  alookup k_rm (e_cook E1) = Some cookie ->
  (forall raw, b64url_dec cookie = Some raw ->
     (count_occ bytes_dec (rmlookup U (s_rm (h_st h1))) (b64std_enc (sha (e_C E1) raw)) <= 1)%nat) ->
  (forall c', h_cev h1' = h_cev h1 ++ [Del k_rm; Put k_rm c'] -> b64url_dec c' <> b64url_dec cookie) ->
  e_C E2 = e_C E1 -> alookup k_rm (e_cook E2) = Some cookie -> h_st h2 = h_st h1' ->
  remember_authenticate E2 h2 = (r2, h2') ->
  h_sev h2' = h_sev h2 /\ h_st h2' = h_st h2 /\
  (o_faults (e_O E2) = [] -> r2 = Ok tt /\ h_cev h2' = h_cev h2 ++ [Del k_rm]).
Proof. exact remember_once_lemma. Qed.
Print Assumptions c07_cookie_once.

(* the freshness hypothesis, discharged from the oracle: the run was not starved of randomness and
   the consumed token's nonce (its last 32 bytes) is not among the random chunks offered to it *)
Theorem c07_replacement_differs : forall E h r h' cookie raw c',
  remember_authenticate E h = (r, h') ->
  alookup k_rm (e_cook E) = Some cookie -> b64url_dec cookie = Some raw ->
  h_starved h' = false -> ~ In (skipn (length raw - 32) raw) (h_fresh h) ->
  h_cev h' = h_cev h ++ [Del k_rm; Put k_rm c'] ->
  b64url_dec c' <> b64url_dec cookie.
Proof. exact remember_fresh_differs_lemma. Qed.
Print Assumptions c07_replacement_differs.

(* the two-run theorem with the freshness hypothesis stated on the first run's random chunks *)
Theorem c07_cookie_once_fresh : forall E1 h1 r1 h1' U cookie E2 h2 r2 h2',
  crypto_laws (e_C E1) ->
  remember_authenticate E1 h1 = (r1, h1') ->
  (exists ls, h_sev h1' = h_sev h1 ++ ls /\ In (Put k_uid U) ls) ->
  alookup k_rm (e_cook E1) = Some cookie ->
  (forall raw, b64url_dec cookie = Some raw ->
     (count_occ bytes_dec (rmlookup U (s_rm (h_st h1))) (b64std_enc (sha (e_C E1) raw)) <= 1)%nat) ->
  h_starved h1' = false ->
  (forall raw, b64url_dec cookie = Some raw -> ~ In (skipn (length raw - 32) raw) (h_fresh h1)) ->
  e_C E2 = e_C E1 -> alookup k_rm (e_cook E2) = Some cookie -> h_st h2 = h_st h1' ->
  remember_authenticate E2 h2 = (r2, h2') ->
  h_sev h2' = h_sev h2 /\ h_st h2' = h_st h2 /\
  (o_faults (e_O E2) = [] -> r2 = Ok tt /\ h_cev h2' = h_cev h2 ++ [Del k_rm]).
Proof. exact remember_once_fresh_lemma. Qed.
Print Assumptions c07_cookie_once_fresh.

(* single run, any oracle: a well-formed cookie whose hash is not among the named account's tokens
   logs nobody in and leaves storage alone (c07_bad_cookie_deleted needs "no backend fault" because it
   also promises the deletion of the cookie) *)
Theorem c07_unknown_cookie_no_login : forall E h r h' cookie raw pid,
  alookup k_rm (e_cook E) = Some cookie -> b64url_dec cookie = Some raw -> rm_parse_pid raw = Some pid ->
  bmem (b64std_enc (sha (e_C E) raw)) (rmlookup pid (s_rm (h_st h))) = false ->
  remember_authenticate E h = (r, h') ->
  h_sev h' = h_sev h /\ h_st h' = h_st h /\
  (o_faults (e_O E) = [] -> r = Ok tt /\ h_cev h' = h_cev h ++ [Del k_rm]).
Proof. exact remember_refused_lemma. Qed.
Print Assumptions c07_unknown_cookie_no_login.
