(* C16 (a) as ONE two-run statement: while an account is locked, a login with the correct password
   and a login with a wrong one are answered alike.  Derived from c16_login_locked_correct and
   c16_login_locked_wrong (Props/C16b.v): both runs end in [lock_view], and the lock redirect
   depends on the configuration only (it never follows the "redir" parameter).

   same_but_password E1 E2 (Proofs/MwProofs.v): the two request environments have the same crypto,
   configuration, oracle, cookies, session and - field by field - the same request (browser,
   method, route, path, raw query, parsed query, bad-body flag), and the submitted values
   ([values]: the body, plus the query in form mode) agree on every key other than "password":
       forall k, k <> f_password -> alookup k (values E1) = alookup k (values E2).
   view h = (first write with the events flushed with it, session events, cookie events): what the
   client can observe of a handler run. *)
From AB Require Import World.Handlers Proofs.MonadInv Proofs.SameView Proofs.SameView2 Proofs.MwProofs.
Open Scope Z_scope.

Theorem c16_locked_same_view : forall E1 E2,
  same_but_password E1 E2 -> o_faults (e_O E1) = [] -> forall h r1 h1 r2 h2 u,
  login_post E1 h = (r1, h1) -> login_post E2 h = (r2, h2) -> h_out h = None ->
  q_badbody (e_req E1) = false -> (c_api (e_cfg E1) = true -> q_meth (e_req E1) <> GET) ->
  NoDup (c_mods (e_cfg E1)) -> has_mod (e_cfg E1) MLock = true -> 0 < c_lock_duration (e_cfg E1) ->
  ulookup (aget (pid_field E1) (values E1)) (s_users (h_st h)) = Some u ->
  u_confirmed u = true -> o_now (e_O E1) < u_locked u ->
  pwcheck (e_C E1) (u_password u) (aget f_password (values E1)) = true ->
  pwcheck (e_C E2) (u_password u) (aget f_password (values E2)) = false ->
  r1 = Ok tt /\ r2 = Ok tt /\ view h1 = view h2 /\ view h1 = lock_view E1 h.
Proof. exact login_locked_same_view. Qed.
Print Assumptions c16_locked_same_view.

(* the relation, spelled out *)
Theorem c16_same_but_password_reading : forall E1 E2,
  same_but_password E1 E2 <->
  (e_C E1 = e_C E2 /\ e_cfg E1 = e_cfg E2 /\ e_O E1 = e_O E2 /\ e_cook E1 = e_cook E2 /\ e_sess E1 = e_sess E2 /\
   q_browser (e_req E1) = q_browser (e_req E2) /\ q_meth (e_req E1) = q_meth (e_req E2) /\
   q_route (e_req E1) = q_route (e_req E2) /\ q_path (e_req E1) = q_path (e_req E2) /\
   q_rawquery (e_req E1) = q_rawquery (e_req E2) /\ q_query (e_req E1) = q_query (e_req E2) /\
   q_badbody (e_req E1) = q_badbody (e_req E2) /\
   forall k, k <> f_password -> alookup k (values E1) = alookup k (values E2)).
Proof. exact same_but_password_reading. Qed.
Print Assumptions c16_same_but_password_reading.

(* the lock redirect is the same for two environments with the same configuration *)
Theorem c16_lock_view_cfg : forall E1 E2 h, e_cfg E1 = e_cfg E2 -> lock_view E1 h = lock_view E2 h.
Proof. exact lock_view_cfg. Qed.
Print Assumptions c16_lock_view_cfg.

(* changing only the password field of the form gives such a pair *)
Theorem c16_set_password_same : forall (E : env) pw,
  same_but_password E (mkEnv (e_C E) (e_cfg E) (e_O E)
    (mkRequest (q_browser (e_req E)) (q_meth (e_req E)) (q_route (e_req E)) (q_path (e_req E))
               (q_rawquery (e_req E)) (q_query (e_req E)) (aput f_password pw (q_form (e_req E)))
               (q_badbody (e_req E)))
    (e_cook E) (e_sess E)).
Proof. exact set_password_same. Qed.
Print Assumptions c16_set_password_same.
