(* C01 for the wrapped deployment ([wstep]: the module routes behind a global remember.Middleware,
   c_wrap_remember = true).

   Under the wrapper a request to a module route can be logged in by its remember cookie before the
   route's handler runs, and the handler then sees the half-authenticated view the wrapper made.
   So "a session is issued only against a valid credential of that user" reads, for a module route
   behind the wrapper: the identity U newly found in the browser's session was written
     (1) by the wrapper: the remember cookie carries an unconsumed token of U (g_remember), or
     (2) by the route's handler under the route's own condition, evaluated on the request as it
         arrived (the wrapper did not log anybody in), or
     (3) by the route's handler under the route's own condition evaluated for the view
         [half_view pid sess] (= the session as it arrived, which named nobody, overlaid with
         uid := pid, halfauth := true) after the wrapper consumed a token of the cookie's owner pid.
         Of the seven conditions only the second-factor ones (TOTP / SMS validate) look at the
         session's uid: there U is the pid of the record stored under pid (or under the pending key),
         i.e. "remember cookie of pid + a second factor of that record"; the five others do not read
         the session's uid / halfauth at all, so (3) is (2) for them.
   For application routes (RApp: they carry their own stack and are not wrapped twice) and for
   deployments without the wrapper the statement is the unwrapped one ([credential_shown]). *)
From AB Require Import World.Step Proofs.EvLogic Proofs.Neutral Proofs.HandlerEvents Proofs.ServeEvents Proofs.StepUid
  Proofs.MonadInv Proofs.Guards Proofs.Guards2 Proofs.Guards3 Proofs.StepGuard Proofs.StepAll Proofs.Wrapped.
Open Scope Z_scope.

Theorem c01w_session_only_against_credential : forall C cfg w a O U b,
  let w' := fst (wstep C cfg w a O) in
  alookup k_uid (jar_get b (w_sess w')) = Some U -> alookup k_uid (jar_get b (w_sess w)) <> Some U ->
  (exists req, a = AReq req /\ q_browser req = b /\
     let ENV := mkEnv C cfg O req (jar_get (q_browser req) (w_cook w)) (jar_get (q_browser req) (w_sess w)) in
     ((* the route is not behind the wrapper: the unwrapped statement *)
      (c_wrap_remember cfg && negb (is_app (q_route req)) = false /\ credential_shown C cfg w O req U) \/
      (* a module route behind the wrapper *)
      (c_wrap_remember cfg = true /\ is_app (q_route req) = false /\
       ((* the wrapper logged the cookie's owner in *)
        g_remember ENV (w_st w) U \/
        (* the route's own condition, on the request as it arrived *)
        module_credential ENV (init_hst (w_st w) O) U \/
        (* the route's own condition, for the half-authenticated view that the wrapper made of a
           session without identity when it consumed a token of the cookie's owner pid *)
        (exists pid, bempty (aget k_uid (e_sess ENV)) = true /\ g_remember ENV (w_st w) pid /\
                     module_credential (with_sess ENV (half_view pid (e_sess ENV))) (init_hst (w_st w) O) U))))) \/
  a = APlant b k_uid U \/
  (exists j, a = ASetJar false b j /\ alookup k_uid j = Some U).
Proof. exact c01w_session_only_against_credential_lemma. Qed.
Print Assumptions c01w_session_only_against_credential.

(* the same with the wrapper's result named: h1 is the handler state and s2 the session view with
   which the route's handler was started *)
Theorem c01w_session_only_against_credential_states : forall C cfg w a O U b,
  let w' := fst (wstep C cfg w a O) in
  alookup k_uid (jar_get b (w_sess w')) = Some U -> alookup k_uid (jar_get b (w_sess w)) <> Some U ->
  (exists req, a = AReq req /\ q_browser req = b /\
     let ENV := mkEnv C cfg O req (jar_get (q_browser req) (w_cook w)) (jar_get (q_browser req) (w_sess w)) in
     ((c_wrap_remember cfg && negb (is_app (q_route req)) = false /\ credential_shown C cfg w O req U) \/
      (c_wrap_remember cfg = true /\ is_app (q_route req) = false /\ g_remember ENV (w_st w) U) \/
      (c_wrap_remember cfg = true /\ is_app (q_route req) = false /\
       exists h1 s2, remember_mw ENV (init_hst (w_st w) O) = (Ok tt, h1) /\
                     remembered_view (e_sess ENV) h1 = (Ok s2, h1) /\
                     module_credential (with_sess ENV s2) h1 U))) \/
  a = APlant b k_uid U \/
  (exists j, a = ASetJar false b j /\ alookup k_uid j = Some U).
Proof. exact c01w_lemma. Qed.
Print Assumptions c01w_session_only_against_credential_states.

(* what the wrapper hands on, from the start of a request: user table, context user and response are
   untouched; the view is the session as it arrived, or - only when that session named nobody and
   the cookie carried an unconsumed token of pid - the half-authenticated overlay for pid *)
Theorem c01w_wrapper_result : forall E st O h1 s2,
  remember_mw E (init_hst st O) = (Ok tt, h1) -> remembered_view (e_sess E) h1 = (Ok s2, h1) ->
  s_users (h_st h1) = s_users st /\ h_cuser h1 = None /\ h_out h1 = None /\
  ((h_cpid h1 = None /\ s2 = e_sess E) \/
   (exists pid, h_cpid h1 = Some pid /\ s2 = aput k_halfauth v_true (aput k_uid pid (e_sess E)) /\
                bempty (aget k_uid (e_sess E)) = true /\ g_remember E st pid)).
Proof. exact wrapper_result. Qed.
Print Assumptions c01w_wrapper_result.

(* handler level: every [Put uid U] that a wrapped request records satisfies the disjunction *)
Theorem c01w_serve_top_guard : forall E h,
  c_wrap_remember (e_cfg E) && negb (is_app (q_route (e_req E))) = true ->
  gen_guarded (put_guard (fun U =>
      g_remember E (h_st h) U \/
      exists h1 s2, remember_mw E h = (Ok tt, h1) /\ remembered_view (e_sess E) h1 = (Ok s2, h1) /\
                    module_credential (with_sess E s2) h1 U))
    (serve_top E) h.
Proof. exact serve_top_guard. Qed.
Print Assumptions c01w_serve_top_guard.

(* every module route of [serve], ANY environment and ANY start state *)
Theorem c01w_serve_module_guard : forall E h,
  is_app (q_route (e_req E)) = false -> gen_guarded (put_guard (module_credential E h)) (serve E) h.
Proof. exact serve_module_guard. Qed.
Print Assumptions c01w_serve_module_guard.

(* the wrapper sets the context pid only against an unconsumed token of that account *)
Theorem c01w_wrapper_cpid : forall E h x h' p,
  h_cpid h = None -> remember_mw E h = (x, h') -> h_cpid h' = Some p ->
  g_remember E (h_st h) p /\ bempty (aget k_uid (e_sess E)) = true.
Proof. exact remember_mw_cpid_guard. Qed.
Print Assumptions c01w_wrapper_cpid.

(* ---- vocabulary -------------------------------------------------------------------------------- *)
Theorem c01w_module_credential_reading : forall E h U,
  module_credential E h U <->
  (q_route (e_req E) = RLogin /\ q_meth (e_req E) = POST /\ has_mod (e_cfg E) MAuth = true /\ g_login E (h_st h) U) \/
  (q_route (e_req E) = ROtpLogin /\ q_meth (e_req E) = POST /\ has_mod (e_cfg E) MOtp = true /\ g_otp E (h_st h) U) \/
  (q_route (e_req E) = RRegister /\ q_meth (e_req E) = POST /\ has_mod (e_cfg E) MRegister = true /\
     Guards2.g_register E (h_st h) U) \/
  (q_route (e_req E) = RRecoverEnd /\ q_meth (e_req E) = POST /\ has_mod (e_cfg E) MRecover = true /\
     g_recover E (h_st h) U) \/
  (exists prov, q_route (e_req E) = ROAuthCallback prov /\ q_meth (e_req E) = GET /\ has_mod (e_cfg E) MOAuth2 = true /\
                bmem prov (c_providers (e_cfg E)) = true /\ g_oauth2 E prov (h_st h) U) \/
  (q_route (e_req E) = RTotpValidate /\ q_meth (e_req E) = POST /\ c_totp (e_cfg E) = true /\ g_totp E h U) \/
  (q_route (e_req E) = RSmsValidate /\ q_meth (e_req E) = POST /\ c_sms (e_cfg E) = true /\ g_sms E h U).
Proof. exact module_credential_reading. Qed.
Print Assumptions c01w_module_credential_reading.

Theorem c01w_credential_shown_split : forall C cfg w O req U,
  credential_shown C cfg w O req U <->
  module_credential (mkEnv C cfg O req (jar_get (q_browser req) (w_cook w)) (jar_get (q_browser req) (w_sess w)))
                    (init_hst (w_st w) O) U \/
  (exists full tf fr l c e, q_route req = RApp full tf fr l c true e /\
     g_remember (mkEnv C cfg O req (jar_get (q_browser req) (w_cook w)) (jar_get (q_browser req) (w_sess w))) (w_st w) U).
Proof. exact credential_shown_split. Qed.
Print Assumptions c01w_credential_shown_split.

Theorem c01w_is_app_reading : forall r,
  is_app r = true <-> exists full tf fr l c rm e, r = RApp full tf fr l c rm e.
Proof. exact is_app_reading. Qed.
Print Assumptions c01w_is_app_reading.

Theorem c01w_half_view_reading : forall pid s,
  half_view pid s = aput k_halfauth v_true (aput k_uid pid s) /\
  aget k_uid (half_view pid s) = pid /\
  (forall k, k <> k_halfauth -> k <> k_uid -> aget k (half_view pid s) = aget k s).
Proof. exact half_view_reading. Qed.
Print Assumptions c01w_half_view_reading.

(* without the wrapper: the unwrapped theorem, verbatim *)
Theorem c01w_unwrapped : forall C cfg w a O U b,
  c_wrap_remember cfg = false ->
  let w' := fst (wstep C cfg w a O) in
  alookup k_uid (jar_get b (w_sess w')) = Some U -> alookup k_uid (jar_get b (w_sess w)) <> Some U ->
  (exists req, a = AReq req /\ q_browser req = b /\ credential_shown C cfg w O req U) \/
  a = APlant b k_uid U \/
  (exists j, a = ASetJar false b j /\ alookup k_uid j = Some U).
Proof. exact c01w_unwrapped_lemma. Qed.
Print Assumptions c01w_unwrapped.
