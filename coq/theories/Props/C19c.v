(* C19, last sentence - "The new user is logged in immediately only when e-mail confirmation is
   not in force" - on the /register handler, for ANY module list (the confirm module may be loaded
   any number of times, anything else may be loaded in any order) and ANY backend faults.

   "The request created the account" is said in the vocabulary of c19_register_cases' second
   disjunct (Props/C19b.v): the submitted pid was free before the request and is held after it.
   "Logged in" = a session event [Put k_uid _] was appended ([h_sev] is the list of session events
   recorded during the request; the first response write flushes them).
   confirm_mail_to a m (Proofs/MwProofs.v) = m is a mail of kind "confirm" addressed to [a]. *)
From AB Require Import World.Handlers Proofs.MonadInv Proofs.RegisterProofs Proofs.MwProofs.

(* a registration that created the account logs somebody in exactly when the confirm module is
   not loaded; then
   - not loaded: the user logged in is the submitted pid, no mail is sent, and when the request
     succeeds from a state in which nothing was written the event is flushed with the response;
   - loaded: when no fault hit the request (it returned without error), at least one confirmation
     mail has been recorded - one per load of the module - each to the new account's address *)
Theorem c19_login_after_register_iff : forall (E : env) h r h' su ls,
  register_post E h = (r, h') ->
  ulookup (aget (pid_field E) (values E)) (s_users (h_st h)) = None ->
  ulookup (aget (pid_field E) (values E)) (s_users (h_st h')) = Some su ->
  h_sev h' = h_sev h ++ ls ->
  ((exists v, In (Put k_uid v) ls) <-> has_mod (e_cfg E) MConfirm = false) /\
  (has_mod (e_cfg E) MConfirm = false ->
     In (Put k_uid (aget (pid_field E) (values E))) ls /\ h_mails h' = h_mails h /\
     (h_out h = None -> r = Ok tt ->
        exists wr, h_out h' = Some wr /\ In (Put k_uid (aget (pid_field E) (values E))) (w_sev wr))) /\
  (has_mod (e_cfg E) MConfirm = true -> r = Ok tt ->
     exists ms, h_mails h' = h_mails h ++ ms /\ ms <> [] /\
       Forall (confirm_mail_to (if c_username (e_cfg E) then aget f_email (arbitrary_of (values E))
                                else aget (pid_field E) (values E))) ms).
Proof. exact register_login_iff_lemma. Qed.
Print Assumptions c19_login_after_register_iff.

(* with the confirm module loaded nobody is ever logged in by /register - whatever the submitted
   values, whether or not an account is created, whatever faults occur *)
Theorem c19_confirm_loaded_no_login : forall (E : env) h r h',
  has_mod (e_cfg E) MConfirm = true -> register_post E h = (r, h') ->
  exists ls, h_sev h' = h_sev h ++ ls /\ forall v, ~ In (Put k_uid v) ls.
Proof. exact register_confirm_loaded_lemma. Qed.
Print Assumptions c19_confirm_loaded_no_login.

(* a registration that created nothing (storage is as it was - the first disjunct of
   c19_register_cases) appends no session or cookie event at all, sends no mail and leaves the
   context user alone: in particular nobody is logged in *)
Theorem c19_no_login_without_account : forall (E : env) h r h',
  register_post E h = (r, h') -> h_st h' = h_st h ->
  h_sev h' = h_sev h /\ h_cev h' = h_cev h /\ h_mails h' = h_mails h /\ h_cuser h' = h_cuser h /\
  forall ls, h_sev h' = h_sev h ++ ls -> forall v, ~ In (Put k_uid v) ls.
Proof. exact register_no_login_without_account. Qed.
Print Assumptions c19_no_login_without_account.

(* the after-register event carries the confirmation starter once per load of the confirm module
   and no other hook *)
Theorem c19_after_register_hooks : forall (E : env),
  Forall (eq HConfirmStart) (hooks E EvAfterRegister) /\
  (has_mod (e_cfg E) MConfirm = true -> hooks E EvAfterRegister <> []) /\
  (has_mod (e_cfg E) MConfirm = false -> hooks E EvAfterRegister = []).
Proof. exact after_register_hooks_lemma. Qed.
Print Assumptions c19_after_register_hooks.
