(* C12 (continued) — "one-time secrets are consumed by the login they enable and never work twice",
   for one-time passwords over WHOLE HISTORIES: after the login that consumed the password x of the
   account U, whatever happens in between (any number of steps of any kind, any browsers, backend
   faults included), an /otp/login that names U and submits x logs nobody in and parks nobody for a
   second factor — unless one of two visible things happened in between: the harness wrote U's record
   directly, or an /otp/add drew, from the oracle's randomness, a password with the hash of x.

   Vocabulary (Proofs/OneTimeHistory.v; every definition is spelled out by a [_reading] theorem):
     otp_absent C x U st      the record stored under U (if any) has no entry that the matcher of
                              /otp/login ([otp_hit], Proofs/OnceProofs.v) accepts for sha(x);
     otp_unique C x U st      ... at most one such entry (the hypothesis of c12_otp_once);
     otp_hits C x U st        their number;
     otp_login_req cfg req U x   req is an /otp/login POST whose pid field is U and whose password is x;
     sess_untouched w w'      no session key other than the two flash messages differs, in any jar;
     accepted_for U w w'      some jar newly names U, as identity or as pending second factor;
     refused_for U w w'       no jar does;
     seeds U a                a is the harness's direct write of a record with pid U;
     fresh_cands n F          what [fresh n] can hand out when the oracle offers the chunks F:
                              a chunk of F of length n, or the all-zero default;
     otp_add_may_hit C x a O  a is an /otp/add POST and some candidate of [fresh 16] under the oracle O
                              is formatted ([otp_format], as /otp/add does) to a password with the hash
                              of x (under [crypto_laws]: to x itself, c12_otp_add_may_hit_under_laws);
     otp_add_hits C x U w a O the same, and the sender's session in w names U;
     otp_quiet C U x l        no step of l is [seeds U] or [otp_add_may_hit C x].
   [filed st]: one record per key, each under its own pid (an invariant of every step,
   c12_step_keeps_filed; the empty world is filed). *)
From AB Require Import World.Step World.Exec Proofs.MonadInv Proofs.StoreLogic Proofs.OneTimeProofs Proofs.TwoFactorProofs
  Proofs.OnceProofs Proofs.StoreShape Proofs.OneTimeHistory.
Open Scope Z_scope.

(* ---- 1. vocabulary -------------------------------------------------------------------------------- *)
Theorem c12_otp_absent_reading : forall C x U st,
  otp_absent C x U st <->
  forall u, ulookup U (s_users st) = Some u ->
    forall e, In e (split_otps (u_otps u)) -> otp_hit (sha C x) e = false.
Proof. reflexivity. Qed.
Print Assumptions c12_otp_absent_reading.

Theorem c12_otp_unique_reading : forall C x U st,
  otp_unique C x U st <->
  forall u, ulookup U (s_users st) = Some u ->
    (length (filter (otp_hit (sha C x)) (split_otps (u_otps u))) <= 1)%nat.
Proof. reflexivity. Qed.
Print Assumptions c12_otp_unique_reading.

Theorem c12_otp_absent_is_no_hits : forall C x U st, otp_absent C x U st <-> otp_hits C x U st = 0%nat.
Proof. exact otp_absent_hits. Qed.
Print Assumptions c12_otp_absent_is_no_hits.

Theorem c12_otp_unique_is_one_hit : forall C x U st, otp_unique C x U st <-> (otp_hits C x U st <= 1)%nat.
Proof. exact otp_unique_hits. Qed.
Print Assumptions c12_otp_unique_is_one_hit.

(* against such a record the matcher of /otp/login finds nothing *)
Theorem c12_otp_absent_no_match : forall C x U st u i,
  otp_absent C x U st -> ulookup U (s_users st) = Some u ->
  otp_match (sha C x) (split_otps (u_otps u)) 0%nat <> Some (Some i).
Proof. exact otp_absent_no_match. Qed.
Print Assumptions c12_otp_absent_no_match.

Theorem c12_otp_login_req_reading : forall cfg req U x,
  otp_login_req cfg req U x <->
  q_route req = ROtpLogin /\ q_meth req = POST /\
  aget (if c_username cfg then f_username else f_email)
       (if c_api cfg then q_form req else q_form req ++ q_query req) = U /\
  aget f_password (if c_api cfg then q_form req else q_form req ++ q_query req) = x.
Proof. reflexivity. Qed.
Print Assumptions c12_otp_login_req_reading.

Theorem c12_sess_untouched_reading : forall w w',
  sess_untouched w w' <->
  forall b k, k <> k_flash_ok -> k <> k_flash_err ->
    alookup k (jar_get b (w_sess w')) = alookup k (jar_get b (w_sess w)).
Proof. reflexivity. Qed.
Print Assumptions c12_sess_untouched_reading.

Theorem c12_accepted_for_reading : forall U w w',
  accepted_for U w w' <->
  exists b k, (k = k_uid \/ k = k_totp_pending \/ k = k_sms_pending) /\
    alookup k (jar_get b (w_sess w')) = Some U /\ alookup k (jar_get b (w_sess w)) <> Some U.
Proof. reflexivity. Qed.
Print Assumptions c12_accepted_for_reading.

Theorem c12_refused_for_reading : forall U w w',
  refused_for U w w' <->
  forall b k, (k = k_uid \/ k = k_totp_pending \/ k = k_sms_pending) ->
    alookup k (jar_get b (w_sess w')) = Some U -> alookup k (jar_get b (w_sess w)) = Some U.
Proof. reflexivity. Qed.
Print Assumptions c12_refused_for_reading.

Theorem c12_untouched_is_refused : forall U w w', sess_untouched w w' -> refused_for U w w'.
Proof. exact untouched_refused. Qed.
Print Assumptions c12_untouched_is_refused.

Theorem c12_fresh_cands_reading : forall n F,
  fresh_cands n F = filter (fun c => Nat.eqb (length c) n) F ++ [repeat x00 n].
Proof. reflexivity. Qed.
Print Assumptions c12_fresh_cands_reading.

Theorem c12_exceptions_reading : forall C x U w a O,
  (seeds U a <-> match a with ASeed u _ => u_pid u = U | _ => False end) /\
  (otp_add_may_hit C x a O <->
   match a with
   | AReq req => q_route req = ROtpAdd /\ q_meth req = POST /\
                 exists c, In c (fresh_cands 16 (o_fresh O)) /\ sha C (otp_format c) = sha C x
   | _ => False
   end) /\
  (otp_add_hits C x U w a O <->
   match a with
   | AReq req => q_route req = ROtpAdd /\ q_meth req = POST /\
                 aget k_uid (jar_get (q_browser req) (w_sess w)) = U /\
                 exists c, In c (fresh_cands 16 (o_fresh O)) /\ sha C (otp_format c) = sha C x
   | _ => False
   end).
Proof. exact exceptions_reading. Qed.
Print Assumptions c12_exceptions_reading.

Theorem c12_otp_quiet_reading : forall C U x l,
  otp_quiet C U x l <->
  Forall (fun ao => ~ seeds U (fst ao) /\ ~ otp_add_may_hit C x (fst ao) (snd ao)) l.
Proof. reflexivity. Qed.
Print Assumptions c12_otp_quiet_reading.

(* with an injective hash the second exception reads: a candidate is formatted to x itself *)
Theorem c12_otp_add_may_hit_under_laws : forall C x a O,
  crypto_laws C -> otp_add_may_hit C x a O ->
  exists req c, a = AReq req /\ q_route req = ROtpAdd /\ q_meth req = POST /\
                In c (fresh_cands 16 (o_fresh O)) /\ otp_format c = x.
Proof. exact otp_add_may_hit_laws. Qed.
Print Assumptions c12_otp_add_may_hit_under_laws.

Theorem c12_step_keeps_filed : forall C cfg w a O, filed (w_st w) -> filed (w_st (fst (step C cfg w a O))).
Proof. exact step_keeps_filed. Qed.
Print Assumptions c12_step_keeps_filed.

(* ---- 2. an absent password is refused -------------------------------------------------------------- *)
(* Any world in which U's record has no entry for x, any oracle: an /otp/login POST that names U and
   submits x changes no session key other than a flash message in any jar.  In particular no jar
   newly carries U (or anybody) as identity, and nobody is parked for a second factor. *)
Theorem c12_absent_otp_refused : forall C cfg w req O U x,
  filed (w_st w) -> otp_login_req cfg req U x -> otp_absent C x U (w_st w) ->
  let w' := fst (step C cfg w (AReq req) O) in
  (forall b k, k <> k_flash_ok -> k <> k_flash_err ->
     alookup k (jar_get b (w_sess w')) = alookup k (jar_get b (w_sess w))) /\
  (forall b k, (k = k_uid \/ k = k_totp_pending \/ k = k_sms_pending) ->
     alookup k (jar_get b (w_sess w')) = Some U -> alookup k (jar_get b (w_sess w)) = Some U).
Proof. exact absent_otp_refused_lemma. Qed.
Print Assumptions c12_absent_otp_refused.

(* ---- 3. absence is preserved ------------------------------------------------------------------------ *)
(* Any step - any action (any request on any route, Lock, Unlock, UpdatePassword, StartConfirmation,
   the harness's jar operations), any oracle - other than the two visible exceptions.  The number of
   accepted entries never grows, so "absent" and "unique" both survive. *)
Theorem c12_hits_never_grow : forall C cfg w a O U x,
  filed (w_st w) -> ~ seeds U a -> ~ otp_add_may_hit C x a O ->
  (otp_hits C x U (w_st (fst (step C cfg w a O))) <= otp_hits C x U (w_st w))%nat.
Proof. exact step_hits_le. Qed.
Print Assumptions c12_hits_never_grow.

Theorem c12_absent_preserved : forall C cfg w a O U x,
  filed (w_st w) -> otp_absent C x U (w_st w) -> ~ seeds U a -> ~ otp_add_may_hit C x a O ->
  otp_absent C x U (w_st (fst (step C cfg w a O))).
Proof. exact step_absent_preserved. Qed.
Print Assumptions c12_absent_preserved.

Theorem c12_unique_preserved : forall C cfg w a O U x,
  filed (w_st w) -> otp_unique C x U (w_st w) -> ~ seeds U a -> ~ otp_add_may_hit C x a O ->
  otp_unique C x U (w_st (fst (step C cfg w a O))).
Proof. exact step_unique_preserved. Qed.
Print Assumptions c12_unique_preserved.

(* the same with the second exception narrowed to the /otp/add requests of browsers whose session
   names U: nobody else's request touches U's list *)
Theorem c12_absent_preserved_sharp : forall C cfg w a O U x,
  filed (w_st w) -> otp_absent C x U (w_st w) -> ~ seeds U a -> ~ otp_add_hits C x U w a O ->
  otp_absent C x U (w_st (fst (step C cfg w a O))).
Proof. exact step_absent_preserved_sharp. Qed.
Print Assumptions c12_absent_preserved_sharp.

Theorem c12_unique_preserved_sharp : forall C cfg w a O U x,
  filed (w_st w) -> otp_unique C x U (w_st w) -> ~ seeds U a -> ~ otp_add_hits C x U w a O ->
  otp_unique C x U (w_st (fst (step C cfg w a O))).
Proof. exact step_unique_preserved_sharp. Qed.
Print Assumptions c12_unique_preserved_sharp.

(* /otp/add of a browser whose session does not name U leaves U's record as it was *)
Theorem c12_otp_add_touches_only_session_user : forall E h r h' U,
  q_route (e_req E) = ROtpAdd /\ q_meth (e_req E) = POST ->
  filed (h_st h) -> h_cuser h = None -> h_cpid h = None ->
  serve E h = (r, h') -> U <> aget k_uid (e_sess E) ->
  ulookup U (s_users (h_st h')) = ulookup U (s_users (h_st h)).
Proof. exact serve_otp_add_frame. Qed.
Print Assumptions c12_otp_add_touches_only_session_user.

(* along a history *)
Theorem c12_history_absent_preserved : forall C cfg U x l w,
  filed (w_st w) -> otp_absent C x U (w_st w) -> otp_quiet C U x l ->
  otp_absent C x U (w_st (fst (run C cfg w l))).
Proof. exact run_absent_preserved. Qed.
Print Assumptions c12_history_absent_preserved.

Theorem c12_history_unique_preserved : forall C cfg U x l w,
  filed (w_st w) -> otp_unique C x U (w_st w) -> otp_quiet C U x l ->
  otp_unique C x U (w_st (fst (run C cfg w l))).
Proof. exact run_unique_preserved. Qed.
Print Assumptions c12_history_unique_preserved.

(* ---- 4. the accepting step establishes absence ----------------------------------------------------- *)
(* /otp/login at the END of the request: only flash messages were recorded in the session, or the
   Save that removed the matched entry succeeded and the record stored under that pid is the
   consumed one up to the lock counters (c12_otp_login_cases with "flash only" for "uid-neutral":
   parking a pending second factor is not a flash message) *)
Theorem c12_otp_login_cases_flash : forall (E : env) h r h',
  otp_login_post E h = (r, h') ->
  (exists ls, h_sev h' = h_sev h ++ ls /\ Forall flash_only ls) \/
  (exists u i,
     ulookup (aget (pid_field E) (values E)) (s_users (h_st h)) = Some u /\
     otp_match (sha (e_C E) (aget f_password (values E))) (split_otps (u_otps u)) 0%nat = Some (Some i) /\
     (exists su, ulookup (u_pid u) (s_users (h_st h')) = Some su /\ upto_lock (otp_consumed u i) su) /\
     (forall p, p <> u_pid u -> ulookup p (s_users (h_st h')) = ulookup p (s_users (h_st h)))).
Proof. exact otp_login_cases_flash. Qed.
Print Assumptions c12_otp_login_cases_flash.

(* the step: if the /otp/login (U, x) made any jar newly name U - as identity or as pending second
   factor - then afterwards U's record has no entry for x, provided it held at most one before *)
Theorem c12_consumption_establishes_absent : forall C cfg w req O U x,
  filed (w_st w) -> otp_login_req cfg req U x -> otp_unique C x U (w_st w) ->
  accepted_for U w (fst (step C cfg w (AReq req) O)) ->
  otp_absent C x U (w_st (fst (step C cfg w (AReq req) O))).
Proof. exact consumption_establishes_absent_lemma. Qed.
Print Assumptions c12_consumption_establishes_absent.

(* ... indeed if it changed any session key other than a flash message at all *)
Theorem c12_consumption_establishes_absent_gen : forall C cfg w req O U x,
  filed (w_st w) -> otp_login_req cfg req U x -> otp_unique C x U (w_st w) ->
  ~ sess_untouched w (fst (step C cfg w (AReq req) O)) ->
  otp_absent C x U (w_st (fst (step C cfg w (AReq req) O))).
Proof. exact consumption_establishes_absent. Qed.
Print Assumptions c12_consumption_establishes_absent_gen.

(* ---- 5. never again ---------------------------------------------------------------------------------- *)
(* Any crypto, configuration, filed start world w0; any history l1; then req1, an /otp/login (U, x)
   that was accepted (some jar newly names U) from a world in which U's record held at most one entry
   for x; then ANY history l2 none of whose steps is a direct seed of U or an /otp/add that may draw
   x; then req2, an /otp/login (U, x) by any browser under any oracle.  req2 changes no session key
   other than a flash message in any jar: nobody is logged in, nobody is parked; and U's record still
   has no entry for x. *)
Theorem c12_otp_never_again : forall C cfg w0 l1 req1 O1 l2 req2 O2 U x,
  filed (w_st w0) ->
  otp_login_req cfg req1 U x -> otp_login_req cfg req2 U x ->
  otp_unique C x U (w_st (fst (run C cfg w0 l1))) ->
  accepted_for U (fst (run C cfg w0 l1)) (fst (step C cfg (fst (run C cfg w0 l1)) (AReq req1) O1)) ->
  Forall (fun ao => ~ seeds U (fst ao) /\ ~ otp_add_may_hit C x (fst ao) (snd ao)) l2 ->
  sess_untouched (fst (run C cfg w0 (l1 ++ (AReq req1, O1) :: l2)))
                 (fst (run C cfg w0 (l1 ++ (AReq req1, O1) :: l2 ++ [(AReq req2, O2)]))) /\
  refused_for U (fst (run C cfg w0 (l1 ++ (AReq req1, O1) :: l2)))
                (fst (run C cfg w0 (l1 ++ (AReq req1, O1) :: l2 ++ [(AReq req2, O2)]))) /\
  otp_absent C x U (w_st (fst (run C cfg w0 (l1 ++ (AReq req1, O1) :: l2)))).
Proof. exact otp_never_again_lemma. Qed.
Print Assumptions c12_otp_never_again.

(* the same with the second exception narrowed to the /otp/add requests of browsers whose session, in
   the world the request starts from, names U *)
Theorem c12_otp_never_again_sharp : forall C cfg w0 l1 req1 O1 l2 req2 O2 U x,
  filed (w_st w0) ->
  otp_login_req cfg req1 U x -> otp_login_req cfg req2 U x ->
  otp_unique C x U (w_st (fst (run C cfg w0 l1))) ->
  accepted_for U (fst (run C cfg w0 l1)) (fst (step C cfg (fst (run C cfg w0 l1)) (AReq req1) O1)) ->
  (forall p a O s, l2 = p ++ (a, O) :: s ->
     ~ seeds U a /\
     ~ otp_add_hits C x U (fst (run C cfg (fst (step C cfg (fst (run C cfg w0 l1)) (AReq req1) O1)) p)) a O) ->
  sess_untouched (fst (run C cfg w0 (l1 ++ (AReq req1, O1) :: l2)))
                 (fst (run C cfg w0 (l1 ++ (AReq req1, O1) :: l2 ++ [(AReq req2, O2)]))) /\
  refused_for U (fst (run C cfg w0 (l1 ++ (AReq req1, O1) :: l2)))
                (fst (run C cfg w0 (l1 ++ (AReq req1, O1) :: l2 ++ [(AReq req2, O2)]))) /\
  otp_absent C x U (w_st (fst (run C cfg w0 (l1 ++ (AReq req1, O1) :: l2)))).
Proof. exact otp_never_again_sharp_lemma. Qed.
Print Assumptions c12_otp_never_again_sharp.

(* the hypotheses are satisfiable (executable crypto instance, computed): the account is seeded with
   one one-time password; browser b1 logs in with it; b1 fetches a page and adds a new one-time
   password (which is stored: the list has one entry again), the account is locked and unlocked;
   browser b2 submits the consumed password *)
Example c12_otp_never_again_nonvacuous :
  exists C cfg w0 l1 req1 O1 l2 req2 (O2 : oracle) U x,
    crypto_laws C /\ l2 <> [] /\
    filed (w_st w0) /\ otp_login_req cfg req1 U x /\ otp_login_req cfg req2 U x /\
    otp_unique C x U (w_st (fst (run C cfg w0 l1))) /\
    accepted_for U (fst (run C cfg w0 l1)) (fst (step C cfg (fst (run C cfg w0 l1)) (AReq req1) O1)) /\
    otp_quiet C U x l2 /\
    (exists u, ulookup U (s_users (w_st (fst (run C cfg w0 (l1 ++ (AReq req1, O1) :: l2))))) = Some u /\
               length (split_otps (u_otps u)) = 1%nat).
Proof. exact ox_witness. Qed.
Print Assumptions c12_otp_never_again_nonvacuous.

(* ---- 6. the same chain for the 2FA recovery codes ---------------------------------------------------- *)
(* Vocabulary:
     rc_absent C c U st        the record stored under U (if any) verifies c against none of its stored
                               recovery-code hashes (so twofactor.UseRecoveryCode finds nothing);
     rc_validate_req cfg req c req is a POST to /2fa/totp/validate or /2fa/sms/validate that submits the
                               (non-empty) recovery code c;
     logged_in_as U w w'       some jar newly names U as its identity;  not_logged_in_as: none does;
     regen_may_hit C c a O     a is a POST on one of the three routes that generate recovery codes
                               (regeneration, TOTP set-up confirmation, SMS set-up confirmation) and one of
                               the ten codes cut out of a candidate of [fresh 100] verifies c once hashed
                               (under [crypto_laws], for codes in bcrypt's domain: is c itself);
     rc_quiet C U c l          no step of l is [seeds U] or [regen_may_hit C c]. *)
Theorem c12_rc_absent_reading : forall C c U st,
  rc_absent C c U st <->
  forall u, ulookup U (s_users st) = Some u ->
    forall e, In e (decode_codes (u_recovery u)) -> pwcheck C e c = false.
Proof. reflexivity. Qed.
Print Assumptions c12_rc_absent_reading.

Theorem c12_rc_absent_use : forall E c U st u,
  rc_absent (e_C E) c U st -> ulookup U (s_users st) = Some u ->
  use_recovery_code E (decode_codes (u_recovery u)) c = None.
Proof. exact rc_absent_use. Qed.
Print Assumptions c12_rc_absent_use.

Theorem c12_rc_validate_req_reading : forall cfg req c,
  rc_validate_req cfg req c <->
  (q_route req = RTotpValidate \/ q_route req = RSmsValidate) /\ q_meth req = POST /\
  aget f_recovery_code (if c_api cfg then q_form req else q_form req ++ q_query req) = c /\ bempty c = false.
Proof. reflexivity. Qed.
Print Assumptions c12_rc_validate_req_reading.

Theorem c12_logged_in_as_reading : forall U w w',
  (logged_in_as U w w' <->
   exists b, alookup k_uid (jar_get b (w_sess w')) = Some U /\ alookup k_uid (jar_get b (w_sess w)) <> Some U) /\
  (not_logged_in_as U w w' <->
   forall b, alookup k_uid (jar_get b (w_sess w')) = Some U -> alookup k_uid (jar_get b (w_sess w)) = Some U).
Proof. intros. split; reflexivity. Qed.
Print Assumptions c12_logged_in_as_reading.

Theorem c12_regen_may_hit_reading : forall C c a O,
  regen_may_hit C c a O <->
  match a with
  | AReq req => ((q_route req = RRecoveryRegen \/ q_route req = RTotpConfirm \/ q_route req = RSmsConfirm) /\
                 q_meth req = POST) /\
                exists c0 code, In c0 (fresh_cands 100 (o_fresh O)) /\ In code (rc_codes 10 c0) /\
                                pwcheck C (pwhash C code) c = true
  | _ => False
  end.
Proof. reflexivity. Qed.
Print Assumptions c12_regen_may_hit_reading.

Theorem c12_regen_may_hit_under_laws : forall C c a O,
  crypto_laws C -> pw_dom c -> regen_may_hit C c a O ->
  exists req c0, a = AReq req /\ regen_route req /\ In c0 (fresh_cands 100 (o_fresh O)) /\
                 (In c (rc_codes 10 c0) \/ exists code, In code (rc_codes 10 c0) /\ ~ pw_dom code).
Proof. exact regen_may_hit_laws. Qed.
Print Assumptions c12_regen_may_hit_under_laws.

Theorem c12_rc_quiet_reading : forall C U c l,
  rc_quiet C U c l <->
  Forall (fun ao => ~ seeds U (fst ao) /\ ~ regen_may_hit C c (fst ao) (snd ao)) l.
Proof. reflexivity. Qed.
Print Assumptions c12_rc_quiet_reading.

(* refusal: any world in which U's record verifies c against nothing, any validation request that
   submits c, any browser, any oracle: no jar newly names U *)
Theorem c12_absent_recovery_code_refused : forall C cfg w req O U c,
  filed (w_st w) -> rc_validate_req cfg req c -> rc_absent C c U (w_st w) ->
  not_logged_in_as U w (fst (step C cfg w (AReq req) O)).
Proof. exact rc_absent_refused. Qed.
Print Assumptions c12_absent_recovery_code_refused.

(* preservation: every step other than the two exceptions.  [nocomma C]: a bcrypt hash holds no comma
   (from [crypto_laws]); the empty string does not verify c (a record whose last code was used stores
   the empty string, which reads back as one empty entry) *)
Theorem c12_rc_absent_preserved : forall C cfg w a O U c,
  nocomma C -> pwcheck C [] c = false ->
  filed (w_st w) -> rc_absent C c U (w_st w) -> ~ seeds U a -> ~ regen_may_hit C c a O ->
  rc_absent C c U (w_st (fst (step C cfg w a O))).
Proof. exact step_rc_absent_preserved. Qed.
Print Assumptions c12_rc_absent_preserved.

Theorem c12_history_rc_absent_preserved : forall C cfg U c l w,
  nocomma C -> pwcheck C [] c = false ->
  filed (w_st w) -> rc_absent C c U (w_st w) -> rc_quiet C U c l -> rc_absent C c U (w_st (fst (run C cfg w l))).
Proof. exact run_rc_absent_preserved. Qed.
Print Assumptions c12_history_rc_absent_preserved.

(* consumption: the validation request that logged U in against c leaves U's record without a hash
   that verifies c (hypotheses of c12_recovery_code_once on the list stored before the request) *)
Theorem c12_rc_consumption_establishes_absent : forall C cfg w req O U c plain,
  crypto_laws C -> filed (w_st w) -> rc_validate_req cfg req c ->
  (forall u, ulookup U (s_users (w_st w)) = Some u -> decode_codes (u_recovery u) = map (pwhash C) plain) ->
  NoDup plain -> Forall pw_dom plain -> pw_dom c -> pwcheck C [] c = false ->
  logged_in_as U w (fst (step C cfg w (AReq req) O)) ->
  rc_absent C c U (w_st (fst (step C cfg w (AReq req) O))).
Proof. exact rc_consumption_establishes_absent. Qed.
Print Assumptions c12_rc_consumption_establishes_absent.

(* never again: l1, then the validation request req1 that logged U in against c (U's stored list read
   back as the hashes of distinct plain codes within bcrypt's domain, as is c), then ANY history l2
   without a direct seed of U and without a code generation that may draw c, then a validation
   request req2 with the same c by any browser under any oracle: no jar newly names U *)
Theorem c12_recovery_code_never_again : forall C cfg w0 l1 req1 O1 l2 req2 O2 U c plain,
  crypto_laws C -> filed (w_st w0) ->
  rc_validate_req cfg req1 c -> rc_validate_req cfg req2 c ->
  (forall u, ulookup U (s_users (w_st (fst (run C cfg w0 l1)))) = Some u ->
     decode_codes (u_recovery u) = map (pwhash C) plain) ->
  NoDup plain -> Forall pw_dom plain -> pw_dom c -> pwcheck C [] c = false ->
  logged_in_as U (fst (run C cfg w0 l1)) (fst (step C cfg (fst (run C cfg w0 l1)) (AReq req1) O1)) ->
  Forall (fun ao => ~ seeds U (fst ao) /\ ~ regen_may_hit C c (fst ao) (snd ao)) l2 ->
  not_logged_in_as U (fst (run C cfg w0 (l1 ++ (AReq req1, O1) :: l2)))
                     (fst (run C cfg w0 (l1 ++ (AReq req1, O1) :: l2 ++ [(AReq req2, O2)]))) /\
  rc_absent C c U (w_st (fst (run C cfg w0 (l1 ++ (AReq req1, O1) :: l2)))).
Proof. exact recovery_code_never_again_lemma. Qed.
Print Assumptions c12_recovery_code_never_again.

(* the hypotheses are satisfiable (executable crypto instance, computed): an account with TOTP and two
   recovery codes; browser b1 logs in with the password, is parked for the second factor and presents
   a recovery code; b1 fetches a page; browser b2 logs in with the password, is parked for U's second
   factor, and presents the same code *)
Example c12_recovery_code_never_again_nonvacuous :
  exists C cfg w0 l1 req1 O1 l2 req2 (O2 : oracle) U c plain,
    crypto_laws C /\ l2 <> [] /\ filed (w_st w0) /\
    rc_validate_req cfg req1 c /\ rc_validate_req cfg req2 c /\
    (forall u, ulookup U (s_users (w_st (fst (run C cfg w0 l1)))) = Some u ->
       decode_codes (u_recovery u) = map (pwhash C) plain) /\
    NoDup plain /\ Forall pw_dom plain /\ pw_dom c /\ pwcheck C [] c = false /\
    logged_in_as U (fst (run C cfg w0 l1)) (fst (step C cfg (fst (run C cfg w0 l1)) (AReq req1) O1)) /\
    rc_quiet C U c l2 /\
    alookup k_totp_pending (jar_get (q_browser req2) (w_sess (fst (run C cfg w0 (l1 ++ (AReq req1, O1) :: l2))))) = Some U.
Proof. exact rx_witness. Qed.
Print Assumptions c12_recovery_code_never_again_nonvacuous.
