(* C03 — locked or unconfirmed accounts cannot complete a login: the remaining login paths. *)
From AB Require Import World.Handlers Proofs.Neutral Proofs.MonadInv Proofs.Veto Proofs.NoLogin Proofs.NoLogin2.
Open Scope Z_scope.

(* /recover/end with RecoverLoginAfterRecovery: if the account the submitted token selects is
   locked (lock loaded) or unconfirmed (confirm loaded), the request appends only uid-neutral
   session events — the password may be changed (that is recovery) but nobody is logged in —
   whatever else is loaded, in any order, whatever storage faults occur *)
Theorem c03_recover_login_refused : forall E h raw u,
  b64url_dec (aget f_token (values E)) = Some raw ->
  ufind (fun u => beqb (u_rsel u) (selector_of E raw)) (s_users (h_st h)) = Some u ->
  must_refuse E u ->
  neutral_from (recover_end_post E) h.
Proof. exact recover_end_post_refused_lemma. Qed.
Print Assumptions c03_recover_login_refused.

(* /2fa/totp/validate from a browser that is not logged in and whose pending marker names a
   locked / unconfirmed account: even a correct code or recovery code (which is still
   consumed) only yields uid-neutral session events *)
Theorem c03_totp_validate_refused : forall E h u,
  h_cuser h = None -> h_cpid h = None -> bempty (aget k_uid (e_sess E)) = true ->
  ulookup (aget k_totp_pending (e_sess E)) (s_users (h_st h)) = Some u ->
  must_refuse E u ->
  neutral_from (totp_validate_post E) h.
Proof. exact totp_validate_post_refused_lemma. Qed.
Print Assumptions c03_totp_validate_refused.

(* /2fa/sms/validate: likewise, for every form of the request (ask for a code, submit a code,
   submit a recovery code) *)
Theorem c03_sms_validate_refused : forall E h u,
  h_cuser h = None -> h_cpid h = None -> bempty (aget k_uid (e_sess E)) = true ->
  ulookup (aget k_sms_pending (e_sess E)) (s_users (h_st h)) = Some u ->
  must_refuse E u ->
  neutral_from (sms_validator_post E SPValidate) h.
Proof. exact sms_validate_refused_lemma. Qed.
Print Assumptions c03_sms_validate_refused.

(* OAuth2 callback: if the lock module is loaded and the record stored under the provider's
   user id is locked, the callback appends only uid-neutral session events.  (The unconfirmed
   case is the known finding refuted in C03.v: confirm does not hook this event.) *)
Theorem c03_oauth2_locked_refused : forall E prov h su,
  has_mod (e_cfg E) MLock = true ->
  ulookup (make_oauth2_pid prov (pa_uid (o_provider (e_O E)))) (s_users (h_st h)) = Some su ->
  o_now (e_O E) < u_locked su ->
  neutral_from (oauth2_end E prov) h.
Proof. exact oauth2_end_locked_refused_lemma. Qed.
Print Assumptions c03_oauth2_locked_refused.
