(* C04 — the tie between the pure lock machine (Props/C04.v) and the request handlers: which
   machine operation each credential-checking request applies to which account's stored lock
   triple (statements fixed; proofs live in Proofs/LockWorld.v).

   Standing hypotheses, all visible in every statement that needs them:
     o_faults (e_O E) = []          no backend call of THIS request is failed by the environment
                                    (a failed Save would leave the counter where it was);
     NoDup (c_mods (e_cfg E))       every module is loaded at most once (two lock modules would
                                    register the failure hook twice and count each failure twice);
     has_mod (e_cfg E) MLock = true the lock module is loaded;
     q_badbody = false, (c_api -> meth <> GET)
                                    the request body parses, so the handler reaches the credential;
     keyed (h_st h)                 every record is stored under its own pid (what the harness
                                    store and every Save maintain; implied by [filed]).
   Vocabulary (Proofs/LockWorld.v):
     ltriple u                      the (AttemptCount, LastAttempt, Locked) triple of a record;
     set_ltriple u s                u with that triple replaced and EVERY OTHER FIELD AS IT WAS;
     applied E P u ops h h'         after the request the record stored under P is
                                    set_ltriple u (lrun (lcfg_of E) (ltriple u) ops), and no
                                    other account's record differs from what it was in h;
     blocked E u                    (lock loaded and u locked now) or (confirm loaded and u unconfirmed);
     enrolled E u                   (totp set up and u has a TOTP secret) or (sms set up and u has a number);
     ok_ops E parked                [LOkBefore now] if parked, [LOkBefore now; LOkAfter now] if not. *)
From AB Require Import World.Handlers Model.Lock Spec.C04 Proofs.MonadInv Proofs.StoreLogic
  Proofs.TwoFactorProofs Proofs.LockWorld.
Open Scope Z_scope.

(* 1. /login with a wrong password for a stored account: exactly one LFail at [now] on THAT
   account's triple, every other field of the record unchanged, nobody else's record changed, and
   the request itself succeeds (the login page or the lock redirect).  There is no hypothesis on
   the lock state: in the model, as in the library, Auth does not look at the lock before checking
   the password, so a wrong password on an account that is ALREADY LOCKED still counts (and, the
   count being at the threshold, pushes the lock instant to now + LockDuration). *)
Theorem c04_login_wrong_password_is_LFail : forall E,
  o_faults (e_O E) = [] -> NoDup (c_mods (e_cfg E)) -> has_mod (e_cfg E) MLock = true ->
  q_badbody (e_req E) = false -> (c_api (e_cfg E) = true -> q_meth (e_req E) <> GET) ->
  forall h r h' u,
  login_post E h = (r, h') -> keyed (h_st h) ->
  ulookup (aget (pid_field E) (values E)) (s_users (h_st h)) = Some u ->
  pwcheck (e_C E) (u_password u) (aget f_password (values E)) = false ->
  r = Ok tt /\
  (ulookup (aget (pid_field E) (values E)) (s_users (h_st h')) =
     Some (set_ltriple u (lstep (lcfg_of E) (ltriple u) (LFail (o_now (e_O E))))) /\
   forall p, p <> aget (pid_field E) (values E) ->
     ulookup p (s_users (h_st h')) = ulookup p (s_users (h_st h))).
Proof. exact login_wrong_lemma. Qed.
Print Assumptions c04_login_wrong_password_is_LFail.

(* ... in particular on an account that is locked right now: the stored triple still takes the
   LFail step (the counter moves although the client only ever sees the lock redirect,
   c16_login_locked_wrong), and the account stays locked *)
Theorem c04_login_locked_wrong_still_counts : forall E,
  o_faults (e_O E) = [] -> NoDup (c_mods (e_cfg E)) -> has_mod (e_cfg E) MLock = true ->
  q_badbody (e_req E) = false -> (c_api (e_cfg E) = true -> q_meth (e_req E) <> GET) ->
  forall h r h' u,
  login_post E h = (r, h') -> keyed (h_st h) ->
  ulookup (aget (pid_field E) (values E)) (users h) = Some u ->
  pwcheck (e_C E) (u_password u) (aget f_password (values E)) = false ->
  o_now (e_O E) < u_locked u -> 0 < c_lock_duration (e_cfg E) ->
  exists u', ulookup (aget (pid_field E) (values E)) (users h') = Some u' /\
    ltriple u' = lstep (lcfg_of E) (ltriple u) (LFail (o_now (e_O E))) /\ is_locked E u' = true.
Proof. exact login_locked_wrong_lemma. Qed.
Print Assumptions c04_login_locked_wrong_still_counts.

(* 2. /login with the correct password: LOkBefore, and LOkAfter too exactly when the login goes
   through (not locked, not unconfirmed, no second factor to park it at); never an LFail *)
Theorem c04_login_correct_password : forall E,
  o_faults (e_O E) = [] -> NoDup (c_mods (e_cfg E)) -> has_mod (e_cfg E) MLock = true ->
  q_badbody (e_req E) = false -> (c_api (e_cfg E) = true -> q_meth (e_req E) <> GET) ->
  forall h r h' u,
  login_post E h = (r, h') -> keyed (h_st h) ->
  ulookup (aget (pid_field E) (values E)) (users h) = Some u ->
  pwcheck (e_C E) (u_password u) (aget f_password (values E)) = true ->
  applied E (aget (pid_field E) (values E)) u (ok_ops E (blocked E u || enrolled E u)) h h'.
Proof. exact login_correct_lemma. Qed.
Print Assumptions c04_login_correct_password.

(* ... spelled out: not locked, confirmed if confirm is loaded, no second factor: the triple
   afterwards is lstep (lstep t (LOkBefore now)) (LOkAfter now) - count 0 *)
Theorem c04_login_correct_password_resets : forall E,
  o_faults (e_O E) = [] -> NoDup (c_mods (e_cfg E)) -> has_mod (e_cfg E) MLock = true ->
  q_badbody (e_req E) = false -> (c_api (e_cfg E) = true -> q_meth (e_req E) <> GET) ->
  forall h r h' u,
  login_post E h = (r, h') -> keyed (h_st h) ->
  ulookup (aget (pid_field E) (values E)) (users h) = Some u ->
  pwcheck (e_C E) (u_password u) (aget f_password (values E)) = true ->
  is_locked E u = false -> (has_mod (e_cfg E) MConfirm = true -> u_confirmed u = true) ->
  enrolled E u = false ->
  ulookup (aget (pid_field E) (values E)) (users h') =
    Some (set_ltriple u (lstep (lcfg_of E) (lstep (lcfg_of E) (ltriple u) (LOkBefore (o_now (e_O E))))
                                            (LOkAfter (o_now (e_O E))))) /\
  (forall p, p <> aget (pid_field E) (values E) -> ulookup p (users h') = ulookup p (users h)).
Proof. exact login_correct_full_lemma. Qed.
Print Assumptions c04_login_correct_password_resets.

(* ... with a second factor enrolled the login is parked: only LOkBefore is applied (the count
   stays; LOkAfter comes with the second factor, theorems 5 and 6) *)
Theorem c04_login_correct_password_parked : forall E,
  o_faults (e_O E) = [] -> NoDup (c_mods (e_cfg E)) -> has_mod (e_cfg E) MLock = true ->
  q_badbody (e_req E) = false -> (c_api (e_cfg E) = true -> q_meth (e_req E) <> GET) ->
  forall h r h' u,
  login_post E h = (r, h') -> keyed (h_st h) ->
  ulookup (aget (pid_field E) (values E)) (users h) = Some u ->
  pwcheck (e_C E) (u_password u) (aget f_password (values E)) = true ->
  enrolled E u = true ->
  ulookup (aget (pid_field E) (values E)) (users h') =
    Some (set_ltriple u (lstep (lcfg_of E) (ltriple u) (LOkBefore (o_now (e_O E))))) /\
  (forall p, p <> aget (pid_field E) (values E) -> ulookup p (users h') = ulookup p (users h)).
Proof. exact login_correct_parked_lemma. Qed.
Print Assumptions c04_login_correct_password_parked.

(* ... "a correct password never counts as a failure", on the stored record: whatever else is true
   of the account, the count afterwards is the old count or 0 and the lock instant is untouched *)
Theorem c04_login_correct_never_counts : forall E,
  o_faults (e_O E) = [] -> NoDup (c_mods (e_cfg E)) -> has_mod (e_cfg E) MLock = true ->
  q_badbody (e_req E) = false -> (c_api (e_cfg E) = true -> q_meth (e_req E) <> GET) ->
  forall h r h' u,
  login_post E h = (r, h') -> keyed (h_st h) ->
  ulookup (aget (pid_field E) (values E)) (users h) = Some u ->
  pwcheck (e_C E) (u_password u) (aget f_password (values E)) = true ->
  exists u', ulookup (aget (pid_field E) (values E)) (users h') = Some u' /\
    u_attempts u' = (if blocked E u || enrolled E u then u_attempts u else 0) /\
    u_locked u' = u_locked u.
Proof. exact login_correct_never_counts_lemma. Qed.
Print Assumptions c04_login_correct_never_counts.

(* 3. /otp/login.  [otp_verdict E u] is the handler's own comparison of the submitted one-time
   password with u's stored hashes: Some None = no entry matches, Some (Some i) = entry i matches,
   None = the stored list is malformed (the request errs).  A wrong OTP is an LFail on the named
   account ... *)
Theorem c04_otp_wrong_is_LFail : forall E,
  o_faults (e_O E) = [] -> NoDup (c_mods (e_cfg E)) -> has_mod (e_cfg E) MLock = true ->
  q_badbody (e_req E) = false -> (c_api (e_cfg E) = true -> q_meth (e_req E) <> GET) ->
  forall h r h' u,
  otp_login_post E h = (r, h') -> keyed (h_st h) ->
  ulookup (aget (pid_field E) (values E)) (users h) = Some u ->
  otp_verdict E u = Some None ->
  r = Ok tt /\ applied E (aget (pid_field E) (values E)) u [LFail (o_now (e_O E))] h h'.
Proof. exact otp_wrong_lemma. Qed.
Print Assumptions c04_otp_wrong_is_LFail.

(* ... a right one is consumed (the only other field that changes) and applies LOkBefore, and
   LOkAfter when the login goes through *)
Theorem c04_otp_correct : forall E,
  o_faults (e_O E) = [] -> NoDup (c_mods (e_cfg E)) -> has_mod (e_cfg E) MLock = true ->
  q_badbody (e_req E) = false -> (c_api (e_cfg E) = true -> q_meth (e_req E) <> GET) ->
  forall h r h' u i,
  otp_login_post E h = (r, h') -> keyed (h_st h) ->
  ulookup (aget (pid_field E) (values E)) (users h) = Some u ->
  otp_verdict E u = Some (Some i) ->
  applied E (aget (pid_field E) (values E))
    (u <| u_otps := join_otps (otp_remove (split_otps (u_otps u)) i) |>)
    (ok_ops E (blocked E u || enrolled E u)) h h'.
Proof. exact otp_correct_lemma. Qed.
Print Assumptions c04_otp_correct.

(* ... and a malformed stored list is not an attempt: nothing is written *)
Theorem c04_otp_malformed_counts_nothing : forall E,
  o_faults (e_O E) = [] ->
  q_badbody (e_req E) = false -> (c_api (e_cfg E) = true -> q_meth (e_req E) <> GET) ->
  forall h r h' u,
  otp_login_post E h = (r, h') ->
  ulookup (aget (pid_field E) (values E)) (users h) = Some u ->
  otp_verdict E u = None -> users h' = users h.
Proof. exact otp_malformed_lemma. Qed.
Print Assumptions c04_otp_malformed_counts_nothing.

(* 4. a login (password or OTP) naming no stored account writes nothing at all - no record, no
   remember token - whatever the backend does (no hypothesis on faults, modules or the body) *)
Theorem c04_unknown_account_counts_nothing : forall E h r h',
  login_post E h = (r, h') ->
  ulookup (aget (pid_field E) (values E)) (users h) = None -> h_st h' = h_st h.
Proof. exact login_unknown_lemma. Qed.
Print Assumptions c04_unknown_account_counts_nothing.

Theorem c04_otp_unknown_account_counts_nothing : forall E h r h',
  otp_login_post E h = (r, h') ->
  ulookup (aget (pid_field E) (values E)) (users h) = None -> h_st h' = h_st h.
Proof. exact otp_unknown_lemma. Qed.
Print Assumptions c04_otp_unknown_account_counts_nothing.

(* 5. /2fa/totp/validate.  The request arrives with an empty context (no middleware sits in front of
   the route).  [subject E key us] is the account whose code is checked: the session's logged-in
   user if storage has him, otherwise the account the first factor parked in the session under
   [key] - the PENDING account in the second step of a login ([c04_subject_pending] below).
   [totp_check E u] is TOTP.validate as a function of the record: the record it hands on (recovery
   code consumed / accepted code remembered) and its verdict.
     - no TOTP secret enrolled: not an attempt, nothing written;
     - code (or recovery code) accepted: LOkBefore, and LOkAfter unless blocked;
     - wrong code, wrong recovery code, or replayed code: one LFail on the pending account. *)
Theorem c04_totp_validate : forall E,
  o_faults (e_O E) = [] -> NoDup (c_mods (e_cfg E)) -> has_mod (e_cfg E) MLock = true ->
  q_badbody (e_req E) = false -> (c_api (e_cfg E) = true -> q_meth (e_req E) <> GET) ->
  forall h r h' P u0 u1 st,
  totp_validate_post E h = (r, h') -> h_cuser h = None -> h_cpid h = None -> keyed (h_st h) ->
  subject E k_totp_pending (users h) = Some (P, u0) ->
  totp_check E u0 = (u1, st) ->
  match st with
  | Some TSuccess => applied E P u1 (ok_ops E (blocked E u0)) h h'
  | None => users h' = users h
  | _ => r = Ok tt /\ applied E P u0 [LFail (o_now (e_O E))] h h'
  end.
Proof. exact totp_lemma. Qed.
Print Assumptions c04_totp_validate.

(* the record TOTP.validate hands on differs from the stored one in 2FA bookkeeping only: same
   account, same lock triple; on any verdict but success it IS the stored one *)
Theorem c04_totp_check_facts : forall E u u1 st, totp_check E u = (u1, st) ->
  u_pid u1 = u_pid u /\ ltriple u1 = ltriple u /\ blocked E u1 = blocked E u /\
  (st <> Some TSuccess -> u1 = u).
Proof. exact totp_check_facts. Qed.
Print Assumptions c04_totp_check_facts.

(* 6. /2fa/sms/validate.  [sms_check E u]: None = nothing was checked (the request asks for a new
   code, or the session holds no code to compare with); Some (true, u1) = the texted code for u's
   number, or a recovery code (consumed in u1), was right; Some (false, _) = it was wrong *)
Theorem c04_sms_validate : forall E,
  o_faults (e_O E) = [] -> NoDup (c_mods (e_cfg E)) -> has_mod (e_cfg E) MLock = true ->
  q_badbody (e_req E) = false -> (c_api (e_cfg E) = true -> q_meth (e_req E) <> GET) ->
  forall h r h' P u0,
  sms_validator_post E SPValidate h = (r, h') -> h_cuser h = None -> h_cpid h = None -> keyed (h_st h) ->
  subject E k_sms_pending (users h) = Some (P, u0) ->
  match sms_check E u0 with
  | Some (true, u1) => applied E P u1 (ok_ops E (blocked E u0)) h h'
  | Some (false, _) => r = Ok tt /\ applied E P u0 [LFail (o_now (e_O E))] h h'
  | None => users h' = users h
  end.
Proof. exact sms_lemma. Qed.
Print Assumptions c04_sms_validate.

Theorem c04_sms_check_facts : forall E u b u1, sms_check E u = Some (b, u1) ->
  u_pid u1 = u_pid u /\ ltriple u1 = ltriple u /\ blocked E u1 = blocked E u /\ (b = false -> u1 = u).
Proof. exact sms_check_facts. Qed.
Print Assumptions c04_sms_check_facts.

(* the subject in the second step of a login: nobody logged in, the first factor parked P *)
Theorem c04_subject_pending : forall E key us P u,
  aget k_uid (e_sess E) = [] -> aget key (e_sess E) = P -> bempty P = false -> ulookup P us = Some u ->
  subject E key us = Some (P, u).
Proof. exact subject_pending. Qed.
Print Assumptions c04_subject_pending.

(* 7. the summary.  [checks E h m P u v]: run from h, the request handler m (one of the four above)
   checks a credential against the stored record u of account P, with verdict v (Rejected /
   Accepted / NotChecked - each the handler's own test, see login_verdict .. sms_verdict).
   [machine_step E P u v h h'] then says: there is a list ops of machine operations, of length <= 2,
   each at time now, such that the record stored under P afterwards has lock triple
   lrun (lcfg_of E) (ltriple u) ops (its other fields those of u, or of u with the credential
   consumed when Accepted), no other account's record changed, and
       ops = [LFail now]  <->  the credential was rejected,
       Accepted  ->  ops = [LOkBefore now] or [LOkBefore now; LOkAfter now],
       NotChecked  ->  ops = [].
   Chaining these over the requests that reach an account makes [c04_refines] (Props/C04.v) speak
   about the stored triple: see [c04_request_histories_refine]. *)
Theorem c04_request_applies_machine : forall E,
  o_faults (e_O E) = [] -> NoDup (c_mods (e_cfg E)) -> has_mod (e_cfg E) MLock = true ->
  q_badbody (e_req E) = false -> (c_api (e_cfg E) = true -> q_meth (e_req E) <> GET) ->
  forall h m P u v r h',
  keyed (h_st h) -> checks E h m P u v -> m h = (r, h') ->
  exists ops u',
    u_pid u' = P /\ ltriple u' = ltriple u /\ (v <> Accepted -> u' = u) /\
    ulookup P (users h') = Some (set_ltriple u' (lrun (lcfg_of E) (ltriple u) ops)) /\
    (forall p, p <> P -> ulookup p (users h') = ulookup p (users h)) /\
    (length ops <= 2)%nat /\ Forall (fun o => op_time o = o_now (e_O E)) ops /\
    (ops = [LFail (o_now (e_O E))] <-> v = Rejected) /\
    (v = Accepted -> ops = [LOkBefore (o_now (e_O E))] \/
                     ops = [LOkBefore (o_now (e_O E)); LOkAfter (o_now (e_O E))]) /\
    (v = NotChecked -> ops = []).
Proof. exact request_applies_machine_lemma. Qed.
Print Assumptions c04_request_applies_machine.

(* the per-request operation lists, run one after the other from a fresh account, leave the
   declarative failure streak and lock instant of the concatenated history *)
Theorem c04_request_histories_refine : forall c (reqs : list (list lop)),
  let s := fold_left (lrun c) reqs l_init in
  l_count s = streak c (rev (concat reqs)) /\ l_last s = last_stamp c (rev (concat reqs)) /\
  l_locked s = locked_until c (rev (concat reqs)).
Proof. exact histories_refine_lemma. Qed.
Print Assumptions c04_request_histories_refine.

(* 8. the two other requests that fire the auth events.
   /recover/end: a wrong, expired or malformed token - or a body that fails validation - is counted
   against nobody; a completed reset is no failure either: it applies nothing, or, with
   login-after-recovery configured, what a login applies.  ([filed]: pids are unique keys and
   records are stored under their own pid, so that the record found by its recovery selector is
   the one stored under its pid.) *)
Theorem c04_recover_end_never_fails : forall E,
  o_faults (e_O E) = [] -> NoDup (c_mods (e_cfg E)) -> has_mod (e_cfg E) MLock = true ->
  q_badbody (e_req E) = false -> (c_api (e_cfg E) = true -> q_meth (e_req E) <> GET) ->
  forall h r h',
  recover_end_post E h = (r, h') -> filed (h_st h) ->
  users h' = users h \/
  exists u pass, ulookup (u_pid u) (users h) = Some u /\
    applied E (u_pid u)
      (u <| u_password := pass |> <| u_rsel := [] |> <| u_rver := [] |> <| u_rexp := o_now (e_O E) |>)
      (if c_recover_login (e_cfg E) then ok_ops E (blocked E u || enrolled E u) else []) h h'.
Proof. exact recover_end_lemma. Qed.
Print Assumptions c04_recover_end_never_fails.

(* the OAuth2 callback: if the flow reaches the account at all (state, provider answers), the lock
   module's Before(EventOAuth2) handler applies LOkBefore to the provider account - created on the
   spot if new - and nothing in this flow applies LOkAfter or LFail *)
Theorem c04_oauth2_end_is_LOkBefore : forall E,
  o_faults (e_O E) = [] -> NoDup (c_mods (e_cfg E)) -> has_mod (e_cfg E) MLock = true ->
  forall prov h r h',
  oauth2_end E prov h = (r, h') -> keyed (h_st h) ->
  let pa := o_provider (e_O E) in
  let opid := make_oauth2_pid prov (pa_uid pa) in
  let u0 := match ulookup opid (users h) with
            | Some u => u
            | None => blank_user <| u_pid := opid |> <| u_ouid := pa_uid pa |> <| u_oprov := prov |>
                                 <| u_email := pa_email pa |> <| u_confirmed := true |>
                                 <| u_last := zero_time |> <| u_locked := zero_time |>
                                 <| u_rexp := zero_time |> <| u_oexp := zero_time |>
            end in
  let u := u0 <| u_oprov := prov |> <| u_otoken := pa_token pa |> <| u_oexp := pa_expiry pa |>
              <| u_orefresh := (if bempty (pa_refresh pa) then u_orefresh u0 else pa_refresh pa) |> in
  users h' = users h \/ applied E opid u [LOkBefore (o_now (e_O E))] h h'.
Proof. exact oauth2_end_lemma. Qed.
Print Assumptions c04_oauth2_end_is_LOkBefore.
