(* C20 — what a theorem can carry of "no cross-talk": the footprint of a request at the
   level of whole requests.  Data races and sub-request interleavings are decided at run time
   by the race detector (tools/props/c20.py); stated in DESIGN.md as the partial half. *)
From AB Require Import World.Step Proofs.StepUid.

(* a request by browser b reads and writes only b's jars: every other browser's session and
   cookies are bit-for-bit what they were, for any configuration, world, request and oracle *)
Theorem c20_footprint_jars : forall C cfg w req O b,
  b <> q_browser req ->
  jar_get b (w_sess (fst (step C cfg w (AReq req) O))) = jar_get b (w_sess w) /\
  jar_get b (w_cook (fst (step C cfg w (AReq req) O))) = jar_get b (w_cook w).
Proof. exact step_other_browsers_lemma. Qed.
Print Assumptions c20_footprint_jars.
