(* C06 (continued) — the recover flow: a password reset drops the account's remember tokens and
   touches nobody else.  Stated for the FINAL state of the request, every event hook included
   (remember reset, lock bookkeeping, confirm check, 2FA hijack, expire; recover-login on or off),
   for any result and with backend faults anywhere.

   What the model guarantees, precisely: the new password is saved BEFORE the recover-end event
   fires the remember module's reset hook, and storage is not transactional.  So
     - the token list of the account is afterwards either empty or what it was (never anything else),
     - it is empty whenever the handler returned without error and the remember module is loaded,
     - if a backend fault makes the reset hook's DelRememberTokens fail, the handler returns that
       error (a 500 through the error handler) with the password already changed and the old tokens
       still valid: revocation is skipped exactly when the request itself fails. *)
From AB Require Import World.Handlers Proofs.MonadInv Proofs.StoreLogic Proofs.Footprint.

(* how the revocation is wired: the recover-end event runs the remember reset hook, once per loaded
   remember module, and nothing else *)
Theorem c06_recover_end_hooks : forall (E : env),
  Forall (eq HRememberReset) (hooks E EvAfterRecoverEnd) /\
  (has_mod (e_cfg E) MRemember = true -> hooks E EvAfterRecoverEnd <> []).
Proof. exact reset_hooks. Qed.
Print Assumptions c06_recover_end_hooks.

(* the request changed the password stored for p *)
Theorem c06_recover_revokes_tokens : forall (E : env) h r h' p a b,
  recover_end_post E h = (r, h') ->
  ulookup p (s_users (h_st h)) = Some a -> ulookup p (s_users (h_st h')) = Some b ->
  u_password b <> u_password a ->
  (forall q, q <> p ->
     ulookup q (s_users (h_st h')) = ulookup q (s_users (h_st h)) /\
     rmlookup q (s_rm (h_st h')) = rmlookup q (s_rm (h_st h))) /\
  (rmlookup p (s_rm (h_st h')) = [] \/ rmlookup p (s_rm (h_st h')) = rmlookup p (s_rm (h_st h))) /\
  (r = Ok tt -> has_mod (e_cfg E) MRemember = true -> rmlookup p (s_rm (h_st h')) = []).
Proof. exact recover_password_change_revokes_lemma. Qed.
Print Assumptions c06_recover_revokes_tokens.

(* more generally: p is any account whose stored record the request changed at all *)
Theorem c06_recover_changed_record : forall (E : env) h r h' p,
  recover_end_post E h = (r, h') ->
  ulookup p (s_users (h_st h')) <> ulookup p (s_users (h_st h)) ->
  (forall q, q <> p ->
     ulookup q (s_users (h_st h')) = ulookup q (s_users (h_st h)) /\
     rmlookup q (s_rm (h_st h')) = rmlookup q (s_rm (h_st h))) /\
  (rmlookup p (s_rm (h_st h')) = [] \/ rmlookup p (s_rm (h_st h')) = rmlookup p (s_rm (h_st h))) /\
  (r = Ok tt -> has_mod (e_cfg E) MRemember = true -> rmlookup p (s_rm (h_st h')) = []).
Proof. exact recover_revokes_tokens_lemma. Qed.
Print Assumptions c06_recover_changed_record.

(* the remember table through any recover-end request, accepted or not *)
Theorem c06_recover_remember_table : forall (E : env) h r h',
  recover_end_post E h = (r, h') ->
  h_st h' = h_st h \/
  exists raw u,
    b64url_dec (aget f_token (values E)) = Some raw /\
    ufind (fun u => beqb (u_rsel u) (selector_of E raw)) (s_users (h_st h)) = Some u /\
    (forall p, p <> u_pid u -> rmlookup p (s_rm (h_st h')) = rmlookup p (s_rm (h_st h))) /\
    (rmlookup (u_pid u) (s_rm (h_st h')) = [] \/ s_rm (h_st h') = s_rm (h_st h)) /\
    (r = Ok tt -> has_mod (e_cfg E) MRemember = true -> rmlookup (u_pid u) (s_rm (h_st h')) = []).
Proof. exact recover_end_rm_cases. Qed.
Print Assumptions c06_recover_remember_table.
