(* C03 for the wrapped deployment ([wstep]).  The [step] statements of Props/C03c.v are about
   application routes (RApp), for which [serve_top = serve] by definition, hence [wstep = step]
   (wstep_app, Props/C09w.v c09w_wstep_app); the theorems carry over word for word.
   [wstep_refused] is [step_refused] with the router as mounted (c03w_wstep_refused_reading). *)
From AB Require Import World.Step Proofs.MonadInv Proofs.Gate Proofs.StepLift2 Proofs.MwProofs Proofs.Wrapped Proofs.Wrapped2.
Open Scope Z_scope.

Theorem c03w_step_blocks_locked : forall C cfg w req O full tf fr c r e,
  q_route req = RApp full tf fr true c r e ->
  let b := q_browser req in
  let E := mkEnv C cfg O req (jar_get b (w_cook w)) (jar_get b (w_sess w)) in
  let w' := fst (wstep C cfg w (AReq req) O) in
  let o := snd (wstep C cfg w (AReq req) O) in
  (exists d, ob_resp o = Some (RespPage 200 (bs "app") d)) ->
  exists pid u, stack_names E r pid /\
    ulookup pid (s_users (w_st w)) = Some u /\ ulookup pid (s_users (w_st w')) = Some u /\
    u_locked u <= o_now O.
Proof. exact wstep_blocks_locked_lemma. Qed.
Print Assumptions c03w_step_blocks_locked.

Theorem c03w_step_blocks_unconfirmed : forall C cfg w req O full tf fr l r e,
  q_route req = RApp full tf fr l true r e ->
  let b := q_browser req in
  let E := mkEnv C cfg O req (jar_get b (w_cook w)) (jar_get b (w_sess w)) in
  let w' := fst (wstep C cfg w (AReq req) O) in
  let o := snd (wstep C cfg w (AReq req) O) in
  (exists d, ob_resp o = Some (RespPage 200 (bs "app") d)) ->
  exists pid u, stack_names E r pid /\
    ulookup pid (s_users (w_st w)) = Some u /\ ulookup pid (s_users (w_st w')) = Some u /\
    u_confirmed u = true.
Proof. exact wstep_blocks_unconfirmed_lemma. Qed.
Print Assumptions c03w_step_blocks_unconfirmed.

Theorem c03w_step_lock_refused : forall C cfg w req O full tf fr c r e u,
  q_route req = RApp full tf fr true c r e ->
  let b := q_browser req in
  let j := jar_get b (w_sess w) in
  let E := mkEnv C cfg O req (jar_get b (w_cook w)) j in
  bempty (aget k_uid j) = false -> (e = true -> stamp_expired cfg (o_now O) j = false) ->
  reqs_ok E full tf = true -> fault_at 0 (o_faults O) = None ->
  ulookup (aget k_uid j) (s_users (w_st w)) = Some u -> o_now O < u_locked u ->
  wstep_refused C cfg w req O (p_lock_notok_of cfg).
Proof. exact wstep_lock_mw_refuses_lemma. Qed.
Print Assumptions c03w_step_lock_refused.

Theorem c03w_step_confirm_refused : forall C cfg w req O full tf fr l r e u,
  q_route req = RApp full tf fr l true r e ->
  let b := q_browser req in
  let j := jar_get b (w_sess w) in
  let E := mkEnv C cfg O req (jar_get b (w_cook w)) j in
  bempty (aget k_uid j) = false -> (e = true -> stamp_expired cfg (o_now O) j = false) ->
  reqs_ok E full tf = true -> fault_at 0 (o_faults O) = None ->
  ulookup (aget k_uid j) (s_users (w_st w)) = Some u ->
  (l = true -> u_locked u <= o_now O) -> u_confirmed u = false ->
  wstep_refused C cfg w req O (p_confirm_notok_of cfg).
Proof. exact wstep_confirm_mw_refuses_lemma. Qed.
Print Assumptions c03w_step_confirm_refused.

(* what [wstep_refused] says, spelled out *)
Theorem c03w_wstep_refused_reading : forall C cfg w req O p,
  wstep_refused C cfg w req O p <->
  (let w' := fst (wstep C cfg w (AReq req) O) in
   let o := snd (wstep C cfg w (AReq req) O) in
   w_st w' = w_st w /\ ob_err o = false /\ ob_panic o = false /\
   (ob_resp o = Some (if c_api cfg then RespRedirectAPI 307 p true else RespRedirect302 p) \/
    (ob_resp o = None /\ c_api cfg = true /\ exists n ek, fault_at n (o_faults O) = Some ek)) /\
   (c_api cfg = false -> ob_resp o <> None ->
      alookup k_flash_err (jar_get (q_browser req) (w_sess w')) = Some v_flash)).
Proof. exact wstep_refused_reading. Qed.
Print Assumptions c03w_wstep_refused_reading.

(* on an application route it is [step_refused] *)
Theorem c03w_wstep_refused_of_step : forall C cfg w req O p full tf fr l c r e,
  q_route req = RApp full tf fr l c r e -> step_refused C cfg w req O p -> wstep_refused C cfg w req O p.
Proof. exact wstep_refused_of_step. Qed.
Print Assumptions c03w_wstep_refused_of_step.
