(* C13 — theorems in progress; this file is replaced as they are proved *)
From AB Require Import Check.WorldCheck.
Theorem c13_placeholder : True. Proof. exact I. Qed.
Print Assumptions c13_placeholder.
