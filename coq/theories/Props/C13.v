(* C13 — only the fully authenticated owner, proving the factor, changes 2FA settings (partial:
   the gate and the e-mail authorisation are proved; the field-change discipline per route is
   decided by pred_c13 on the implementation). *)
From AB Require Import World.Handlers Proofs.MonadInv Proofs.Gate Proofs.Misc.

(* every 2FA settings route (setup, confirm, remove, regen, e-mail verify) runs behind
   MountedMiddleware2(…, RequireFullAuth, …): its handler runs only if the session carries no
   half-auth mark and names a user that storage holds, who is then the context user *)
Theorem c13_gate : forall E mp fr h h',
  auth_middleware E mp true false fr h = (Ok true, h') ->
  ahas k_halfauth (e_sess E) = false /\
  (h_cuser h = None -> h_cpid h = None ->
     bempty (aget k_uid (e_sess E)) = false /\
     exists u, ulookup (aget k_uid (e_sess E)) (s_users (h_st h)) = Some u /\ h_cuser h' = Some u).
Proof.
  intros E mp fr h h' Eq. destruct (auth_middleware_admits E mp true false fr h h' Eq) as (R & _ & G & _).
  split; [|exact G]. unfold reqs_ok in R. simpl in R. rewrite andb_true_r in R.
  destruct (ahas k_halfauth (e_sess E)); [discriminate R|reflexivity].
Qed.
Print Assumptions c13_gate.

(* the e-mail authorisation mark is only ever written by a verify-end request that presents a
   non-empty token equal to the one in the session *)
Theorem c13_email_end_needs_token : forall E k h r h' ls,
  email_verify_end E k h = (r, h') -> h_sev h' = h_sev h ++ ls ->
  (exists v, In (Put k_2fa_authed v) ls) ->
  bempty (aget k_2fa_token (e_sess E)) = false /\
  aget f_token (values E) = aget k_2fa_token (e_sess E).
Proof. exact email_verify_end_needs_token. Qed.
Print Assumptions c13_email_end_needs_token.
