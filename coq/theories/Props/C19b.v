(* C19, continued — registration outcomes on storage (request level). *)
From AB Require Import World.Handlers Proofs.Neutral Proofs.MonadInv Proofs.RegisterProofs.

(* a record that existed before a registration request is still there, unchanged — the
   submitted pid included: when it is taken, Create refuses and nothing is written *)
Theorem c19_existing_unchanged : forall (E : env) h r h' p u,
  register_post E h = (r, h') ->
  ulookup p (s_users (h_st h)) = Some u -> ulookup p (s_users (h_st h')) = Some u.
Proof. exact register_existing_unchanged. Qed.
Print Assumptions c19_existing_unchanged.

(* a submission that fails the policy (pid rule, password rule, confirmation field), or whose
   password is longer than bcrypt's 72 bytes, changes no storage, no context user, sends no
   mail and appends only session events that leave the user identity alone *)
Theorem c19_invalid_creates_nothing : forall (E : env) h r h',
  register_post E h = (r, h') ->
  valid [pid_rule E; password_rule] pw_pairs (values E) = false \/
  (72 < length (aget f_password (values E)))%nat ->
  h_st h' = h_st h /\ h_cuser h' = h_cuser h /\ h_mails h' = h_mails h /\
  exists ls, h_sev h' = h_sev h ++ ls /\ Forall sess_neutral ls.
Proof. exact register_invalid_creates_nothing. Qed.
Print Assumptions c19_invalid_creates_nothing.

(* a record that appears under the submitted pid passed the policy, carries the bcrypt hash of
   the submitted password (never the password), exactly the whitelisted arbitrary fields, and
   is otherwise the blank record up to the confirmation fields and the lock bookkeeping *)
Theorem c19_created_record_shape : forall (E : env) h r h' su,
  register_post E h = (r, h') ->
  ulookup (aget (pid_field E) (values E)) (s_users (h_st h)) = None ->
  ulookup (aget (pid_field E) (values E)) (s_users (h_st h')) = Some su ->
  (valid [pid_rule E; password_rule] pw_pairs (values E) = true /\
   (length (aget f_password (values E)) <= 72)%nat) /\
  u_pid su = aget (pid_field E) (values E) /\
  u_password su = pwhash (e_C E) (aget f_password (values E)) /\
  u_arb su = arbitrary_of (values E) /\
  Forall (fun kv => In (fst kv) whitelist_register) (u_arb su) /\
  u_email su = (if c_username (e_cfg E) then aget f_email (arbitrary_of (values E))
                else aget (pid_field E) (values E)) /\
  exists a b c s, su = set_ltriple (reg_user E <| u_confirmed := a |> <| u_csel := b |> <| u_cver := c |>) s.
Proof. exact register_created_record_shape. Qed.
Print Assumptions c19_created_record_shape.

(* the two outcomes: storage untouched, or exactly one new record under the submitted pid *)
Theorem c19_register_cases : forall (E : env) h r h',
  register_post E h = (r, h') ->
  h_st h' = h_st h \/
  ((valid [pid_rule E; password_rule] pw_pairs (values E) = true /\
    (length (aget f_password (values E)) <= 72)%nat) /\
   ulookup (aget (pid_field E) (values E)) (s_users (h_st h)) = None /\
   (exists su, ulookup (aget (pid_field E) (values E)) (s_users (h_st h')) = Some su /\ reg_like E su) /\
   (forall p, p <> aget (pid_field E) (values E) ->
      ulookup p (s_users (h_st h')) = ulookup p (s_users (h_st h)))).
Proof. exact register_post_cases. Qed.
Print Assumptions c19_register_cases.
