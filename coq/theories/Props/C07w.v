(* C07 under the wrapped deployment — a remember cookie logs in once and NEVER AGAIN, over whole
   histories of the system as mounted: [wrun] (module routes behind a global remember.Middleware,
   cfg [c_wrap_remember]), any number of arbitrary steps by any browsers in between, backend faults
   allowed.  The chain of Props/C07d.v carried over (Proofs/NeverAgainW.v):

     1. [rm_absent] / [rm_at_most] / [rm_exception]: the vocabulary of Props/C07d.v, unchanged;
     2. under the wrapper EVERY module route presents the cookie.  A request - ANY route, wrapped or
        not - by a browser whose jar holds a cookie whose token is absent: an identity that appears in
        a session is one the route's own credential was shown for ([module_credential], on the
        request as it arrived): the cookie logs nobody in, neither directly nor through the
        half-authenticated view the wrapper would hand to the route.  On an application route and on
        every module route other than the seven that log in on their own ([can_login req = false])
        this is exactly the unwrapped conclusion: every identity after the step was there before;
     3. "at most n copies" is kept by every [wstep] with the same two visible exceptions (the logic
        [tk] covers the wrapper prefix: [tk_serve_top]);
     4. consumption: the request presented the cookie on an application route behind
        remember.Middleware, or on any module route of a wrapped deployment on which the route's own
        credential for U was NOT shown ([cookie_login]; in particular every route with
        [can_login req = false]), and the browser's session names U afterwards and did not before:
        then the token is gone (it occurred at most once).  The context pid - from which the
        half-authenticated view is made - is set only after the token was taken out;
     5. hence the history theorem. *)
From AB Require Import World.Step World.Exec Proofs.ServeEvents Proofs.Wrapped Proofs.HistoryProofs Proofs.TokenHistory
  Proofs.NeverAgainW.
Open Scope Z_scope.

(* ---- vocabulary -------------------------------------------------------------------------------- *)
(* the requests on which the cookie can have been what logged U in *)
Theorem c07w_cookie_login_reading : forall C cfg w req O U,
  cookie_login C cfg w req O U <->
  (exists full tf fr l c e, q_route req = RApp full tf fr l c true e) \/
  (c_wrap_remember cfg = true /\ is_app (q_route req) = false /\
   ~ module_credential (mkEnv C cfg O req (jar_get (q_browser req) (w_cook w)) (jar_get (q_browser req) (w_sess w)))
                       (init_hst (w_st w) O) U).
Proof. reflexivity. Qed.
Print Assumptions c07w_cookie_login_reading.

(* [module_credential] is spelled out by c01w_module_credential_reading (Wrapped.v:
   module_credential_reading); it can only hold on the seven routes that log in on their own *)
Theorem c07w_module_credential_can_login : forall E h U, module_credential E h U -> can_login (e_req E) = true.
Proof. exact module_credential_can_login. Qed.
Print Assumptions c07w_module_credential_can_login.

Theorem c07w_cookie_login_nologin : forall C cfg w req O U,
  c_wrap_remember cfg = true -> is_app (q_route req) = false -> can_login req = false -> cookie_login C cfg w req O U.
Proof. exact cookie_login_nologin. Qed.
Print Assumptions c07w_cookie_login_nologin.

(* ---- 2. an absent token is refused, on every route ------------------------------------------------ *)
Theorem c07w_absent_cookie_no_login : forall C cfg w req O cookie raw U,
  alookup k_rm (jar_get (q_browser req) (w_cook w)) = Some cookie ->
  b64url_dec cookie = Some raw -> rm_parse_pid raw = Some U ->
  rm_absent C cookie U (w_st w) ->
  forall b V, alookup k_uid (jar_get b (w_sess (fst (wstep C cfg w (AReq req) O)))) = Some V ->
    alookup k_uid (jar_get b (w_sess w)) = Some V \/
    (b = q_browser req /\
     module_credential (mkEnv C cfg O req (jar_get (q_browser req) (w_cook w)) (jar_get (q_browser req) (w_sess w)))
                       (init_hst (w_st w) O) V).
Proof. exact rm_absent_refused_w. Qed.
Print Assumptions c07w_absent_cookie_no_login.

Theorem c07w_absent_cookie_no_login_exact : forall C cfg w req O cookie raw U,
  is_app (q_route req) = true \/ can_login req = false ->
  alookup k_rm (jar_get (q_browser req) (w_cook w)) = Some cookie ->
  b64url_dec cookie = Some raw -> rm_parse_pid raw = Some U ->
  rm_absent C cookie U (w_st w) ->
  forall b V, alookup k_uid (jar_get b (w_sess (fst (wstep C cfg w (AReq req) O)))) = Some V ->
              alookup k_uid (jar_get b (w_sess w)) = Some V.
Proof. exact rm_absent_refused_w_exact. Qed.
Print Assumptions c07w_absent_cookie_no_login_exact.

(* ---- 3. preservation -------------------------------------------------------------------------------- *)
Theorem c07w_absent_preserved : forall C, crypto_laws C -> forall cfg w a O cookie raw U,
  b64url_dec cookie = Some raw -> rm_parse_pid raw = Some U ->
  ~ rm_exception C cookie U (a, O) ->
  rm_absent C cookie U (w_st w) -> rm_absent C cookie U (w_st (fst (wstep C cfg w a O))).
Proof. exact rm_absent_wstep. Qed.
Print Assumptions c07w_absent_preserved.

Theorem c07w_at_most_preserved : forall C, crypto_laws C -> forall cfg w a O cookie raw U n,
  b64url_dec cookie = Some raw -> rm_parse_pid raw = Some U ->
  ~ rm_exception C cookie U (a, O) ->
  rm_at_most C cookie U (w_st w) n -> rm_at_most C cookie U (w_st (fst (wstep C cfg w a O))) n.
Proof. exact rm_at_most_wstep. Qed.
Print Assumptions c07w_at_most_preserved.

Theorem c07w_at_most_history : forall C, crypto_laws C -> forall cfg cookie raw U n l w,
  b64url_dec cookie = Some raw -> rm_parse_pid raw = Some U ->
  Forall (fun ao => ~ rm_exception C cookie U ao) l ->
  rm_at_most C cookie U (w_st w) n -> rm_at_most C cookie U (w_st (fst (wrun C cfg w l))) n.
Proof. exact rm_at_most_wrun. Qed.
Print Assumptions c07w_at_most_history.

(* ---- 4. consumption establishes absence ------------------------------------------------------------- *)
(* what the wrapper does to the token it accepts: the context pid (from which [remembered_view] makes
   the half-authenticated view) is set only after one copy of the token has been taken out of storage.
   Stated with the invariant of the logic [tk]: from "at most m+1 copies" to "at most m copies". *)
Theorem c07w_wrapper_consumes : forall E, crypto_laws (e_C E) -> forall cookie raw U m,
  alookup k_rm (e_cook E) = Some cookie -> b64url_dec cookie = Some raw -> rm_parse_pid raw = Some U ->
  skipn (length raw - 32) raw <> repeat x00 (length (skipn (length raw - 32) raw)) ->
  forall h x h',
  tinv (specA (e_C E) U (skipn (length raw - 32) raw) (S m)) h -> h_cpid h = None ->
  remember_mw E h = (x, h') ->
  tinv (specA (e_C E) U (skipn (length raw - 32) raw) m) h' \/ h_cpid h' = None.
Proof. exact remember_mw_cpid_consumed. Qed.
Print Assumptions c07w_wrapper_consumes.

Theorem c07w_consumed_absent : forall C, crypto_laws C -> forall cfg w req O cookie raw U,
  cookie_login C cfg w req O U ->
  alookup k_rm (jar_get (q_browser req) (w_cook w)) = Some cookie ->
  b64url_dec cookie = Some raw -> rm_parse_pid raw = Some U ->
  alookup k_uid (jar_get (q_browser req) (w_sess (fst (wstep C cfg w (AReq req) O)))) = Some U ->
  alookup k_uid (jar_get (q_browser req) (w_sess w)) <> Some U ->
  ~ rm_exception C cookie U (AReq req, O) ->
  rm_at_most C cookie U (w_st w) 1 ->
  rm_absent C cookie U (w_st (fst (wstep C cfg w (AReq req) O))).
Proof. exact rm_consumed_absent_w. Qed.
Print Assumptions c07w_consumed_absent.

(* ---- 5. never again ---------------------------------------------------------------------------------- *)
(* History l1 ++ (AReq r1, O1) :: l2 ++ [(AReq r2, O2)] of the system as mounted, from any world w0.
   r1 presented the cookie on an application route behind remember.Middleware or on ANY module route
   of a wrapped deployment on which its own credential for U was not shown, and was logged in as U; the
   token occurred at most once in U's list at that time; neither that step nor any step of l2 is one
   of the visible exceptions.  Then r2 - ANY request (any route: under the wrapper every module route
   presents the cookie) by ANY browser whose jar holds the same cookie value: the token is absent from
   storage; an identity that appears in a session is one r2's route showed its own credential for;
   and on an application route or a module route that does not log in on its own, every session's
   identity after the step is one it had before (the conclusion of c07_cookie_never_again). *)
Theorem c07w_cookie_never_again : forall C, crypto_laws C -> forall cfg w0 l1 r1 O1 l2 r2 O2 cookie raw U,
  b64url_dec cookie = Some raw -> rm_parse_pid raw = Some U ->
  let w1 := fst (wrun C cfg w0 l1) in
  let w1' := fst (wrun C cfg w0 (l1 ++ [(AReq r1, O1)])) in
  let w2 := fst (wrun C cfg w0 (l1 ++ (AReq r1, O1) :: l2)) in
  let w3 := fst (wrun C cfg w0 (l1 ++ (AReq r1, O1) :: l2 ++ [(AReq r2, O2)])) in
  cookie_login C cfg w1 r1 O1 U ->
  alookup k_rm (jar_get (q_browser r1) (w_cook w1)) = Some cookie ->
  alookup k_uid (jar_get (q_browser r1) (w_sess w1')) = Some U ->
  alookup k_uid (jar_get (q_browser r1) (w_sess w1)) <> Some U ->
  rm_at_most C cookie U (w_st w1) 1 ->
  ~ rm_exception C cookie U (AReq r1, O1) ->
  Forall (fun ao => ~ rm_exception C cookie U ao) l2 ->
  alookup k_rm (jar_get (q_browser r2) (w_cook w2)) = Some cookie ->
  rm_absent C cookie U (w_st w2) /\
  (forall b V, alookup k_uid (jar_get b (w_sess w3)) = Some V ->
     alookup k_uid (jar_get b (w_sess w2)) = Some V \/
     (b = q_browser r2 /\
      module_credential (mkEnv C cfg O2 r2 (jar_get (q_browser r2) (w_cook w2)) (jar_get (q_browser r2) (w_sess w2)))
                        (init_hst (w_st w2) O2) V)) /\
  (is_app (q_route r2) = true \/ can_login r2 = false ->
   forall b V, alookup k_uid (jar_get b (w_sess w3)) = Some V -> alookup k_uid (jar_get b (w_sess w2)) = Some V).
Proof. exact cookie_never_again_w_lemma. Qed.
Print Assumptions c07w_cookie_never_again.

Theorem c07w_cookie_never_again_from_empty : forall C, crypto_laws C -> forall cfg l1 r1 O1 l2 r2 O2 cookie raw U,
  b64url_dec cookie = Some raw -> rm_parse_pid raw = Some U ->
  let w1 := fst (wrun C cfg empty_world l1) in
  let w1' := fst (wrun C cfg empty_world (l1 ++ [(AReq r1, O1)])) in
  let w2 := fst (wrun C cfg empty_world (l1 ++ (AReq r1, O1) :: l2)) in
  let w3 := fst (wrun C cfg empty_world (l1 ++ (AReq r1, O1) :: l2 ++ [(AReq r2, O2)])) in
  Forall (fun ao => ~ rm_exception C cookie U ao) (l1 ++ (AReq r1, O1) :: l2) ->
  cookie_login C cfg w1 r1 O1 U ->
  alookup k_rm (jar_get (q_browser r1) (w_cook w1)) = Some cookie ->
  alookup k_uid (jar_get (q_browser r1) (w_sess w1')) = Some U ->
  alookup k_uid (jar_get (q_browser r1) (w_sess w1)) <> Some U ->
  alookup k_rm (jar_get (q_browser r2) (w_cook w2)) = Some cookie ->
  (forall b V, alookup k_uid (jar_get b (w_sess w3)) = Some V ->
     alookup k_uid (jar_get b (w_sess w2)) = Some V \/
     (b = q_browser r2 /\
      module_credential (mkEnv C cfg O2 r2 (jar_get (q_browser r2) (w_cook w2)) (jar_get (q_browser r2) (w_sess w2)))
                        (init_hst (w_st w2) O2) V)) /\
  (is_app (q_route r2) = true \/ can_login r2 = false ->
   forall b V, alookup k_uid (jar_get b (w_sess w3)) = Some V -> alookup k_uid (jar_get b (w_sess w2)) = Some V).
Proof. exact cookie_never_again_w_from_empty_lemma. Qed.
Print Assumptions c07w_cookie_never_again_from_empty.

(* without the global wrapper: the statement of c07_cookie_never_again, for [wrun] *)
Theorem c07w_cookie_never_again_unwrapped : forall C, crypto_laws C -> forall cfg w0 l1 r1 O1 l2 r2 O2 cookie raw U,
  c_wrap_remember cfg = false ->
  b64url_dec cookie = Some raw -> rm_parse_pid raw = Some U ->
  let w1 := fst (wrun C cfg w0 l1) in
  let w1' := fst (wrun C cfg w0 (l1 ++ [(AReq r1, O1)])) in
  let w2 := fst (wrun C cfg w0 (l1 ++ (AReq r1, O1) :: l2)) in
  let w3 := fst (wrun C cfg w0 (l1 ++ (AReq r1, O1) :: l2 ++ [(AReq r2, O2)])) in
  (exists full tf fr l c e, q_route r1 = RApp full tf fr l c true e) ->
  alookup k_rm (jar_get (q_browser r1) (w_cook w1)) = Some cookie ->
  alookup k_uid (jar_get (q_browser r1) (w_sess w1')) = Some U ->
  alookup k_uid (jar_get (q_browser r1) (w_sess w1)) <> Some U ->
  rm_at_most C cookie U (w_st w1) 1 ->
  ~ rm_exception C cookie U (AReq r1, O1) ->
  Forall (fun ao => ~ rm_exception C cookie U ao) l2 ->
  is_app (q_route r2) = true ->
  alookup k_rm (jar_get (q_browser r2) (w_cook w2)) = Some cookie ->
  rm_absent C cookie U (w_st w2) /\
  forall b V, alookup k_uid (jar_get b (w_sess w3)) = Some V -> alookup k_uid (jar_get b (w_sess w2)) = Some V.
Proof. exact cookie_never_again_w_unwrapped_lemma. Qed.
Print Assumptions c07w_cookie_never_again_unwrapped.

(* the hypotheses of c07w_cookie_never_again are satisfiable in a WRAPPED deployment (executable
   crypto instance, computed): seed an account, log in with "remember me", end the session, fetch the
   login PAGE - a module route, which only the global wrapper puts behind remember.Middleware - with
   the cookie (logged in, half-authenticated; token rotated), copy the OLD cookie into another
   browser's jar, fetch the page with it *)
Example c07w_cookie_never_again_nonvacuous :
  exists C cfg w0 l1 r1 O1 l2 r2 cookie raw U,
    crypto_laws C /\ c_wrap_remember cfg = true /\
    is_app (q_route r1) = false /\ can_login r1 = false /\ is_app (q_route r2) = false /\ can_login r2 = false /\
    b64url_dec cookie = Some raw /\ rm_parse_pid raw = Some U /\
    cookie_login C cfg (fst (wrun C cfg w0 l1)) r1 O1 U /\
    alookup k_rm (jar_get (q_browser r1) (w_cook (fst (wrun C cfg w0 l1)))) = Some cookie /\
    alookup k_uid (jar_get (q_browser r1) (w_sess (fst (wrun C cfg w0 (l1 ++ [(AReq r1, O1)]))))) = Some U /\
    alookup k_uid (jar_get (q_browser r1) (w_sess (fst (wrun C cfg w0 l1)))) <> Some U /\
    rm_at_most C cookie U (w_st (fst (wrun C cfg w0 l1))) 1 /\
    ~ rm_exception C cookie U (AReq r1, O1) /\
    Forall (fun ao => ~ rm_exception C cookie U ao) l2 /\
    l2 <> [] /\
    alookup k_rm (jar_get (q_browser r2) (w_cook (fst (wrun C cfg w0 (l1 ++ (AReq r1, O1) :: l2))))) = Some cookie.
Proof. exact wx_witness. Qed.
Print Assumptions c07w_cookie_never_again_nonvacuous.
