(* C20 (continued) — "requests of different clients on different accounts commute", as an explicit
   theorem about [step].

   Vocabulary (Proofs/Commute.v, Proofs/Footprint.v):
     weq w w'        no client and no administrator can tell w and w' apart: every browser holds the same
                     session and the same cookies, and storage answers EVERY pid alike (same record, same
                     remember tokens).  The order of the user table may differ (records are appended).
     disjoint l1 l2  no pid is in both lists.
     req_fp C cfg w r O   the footprint of request r started in world w (see Props/C20b.v): the accounts
                     named by the browser's session (uid, totp_pending, sms_pending), by the submitted pid,
                     by the remember cookie, by the record a submitted confirm / recover token selects in w,
                     and by the OAuth2 callback.
     sel_agree E h1 h2    the stores of h1 and h2 answer the submitted confirm / recover token's selector
                     query alike.
   Side conditions, all visible:
     - the two requests come from different browsers;
     - their footprints, both computed in the common start world w, are disjoint;
     - each request's token-selector queries are answered alike before and after the other request
       ("neither creates or edits a record the other looks up by token"): the two [sel_agree] hypotheses.
       They are needed: a registration that stores the confirm selector of the very token the other
       request submits does not commute with it.  c20_selector_hypotheses gives a sufficient condition.
   Backend faults are NOT excluded: every request starts its backend-call numbering at 0 and every step
   carries its own oracle (fault plan, clock, provider answer, fresh randomness), so there is nothing to
   interfere with; both oracles are arbitrary. *)
From AB Require Import World.Handlers World.Step World.Exec Proofs.MonadInv Proofs.StoreLogic Proofs.TwoFactorProofs
  Proofs.Footprint Proofs.Commute.

Theorem c20_weq_reading : forall w w',
  weq w w' <->
  (forall b, jar_get b (w_sess w) = jar_get b (w_sess w') /\ jar_get b (w_cook w) = jar_get b (w_cook w')) /\
  (forall p, ulookup p (s_users (w_st w)) = ulookup p (s_users (w_st w')) /\
             rmlookup p (s_rm (w_st w)) = rmlookup p (s_rm (w_st w'))).
Proof. reflexivity. Qed.
Print Assumptions c20_weq_reading.

Theorem c20_weq_equivalence : forall w1 w2 w3,
  weq w1 w1 /\ (weq w1 w2 -> weq w2 w1) /\ (weq w1 w2 -> weq w2 w3 -> weq w1 w3).
Proof. exact weq_equivalence. Qed.
Print Assumptions c20_weq_equivalence.

(* THE THEOREM: both orders end in equivalent worlds, and each request is answered the same way
   (response, mails, SMS, log lines, backend calls, result) whether it runs first or second *)
Theorem c20_steps_commute : forall C cfg w r1 O1 r2 O2,
  filed (w_st w) -> q_browser r1 <> q_browser r2 ->
  disjoint (req_fp C cfg w r1 O1) (req_fp C cfg w r2 O2) ->
  sel_agree (req_env C cfg w r1 O1) (init_hst (w_st w) O1) (init_hst (w_st (fst (step C cfg w (AReq r2) O2))) O1) ->
  sel_agree (req_env C cfg w r2 O2) (init_hst (w_st w) O2) (init_hst (w_st (fst (step C cfg w (AReq r1) O1))) O2) ->
  let wa := fst (step C cfg (fst (step C cfg w (AReq r1) O1)) (AReq r2) O2) in
  let wb := fst (step C cfg (fst (step C cfg w (AReq r2) O2)) (AReq r1) O1) in
  weq wa wb /\
  snd (step C cfg w (AReq r1) O1) = snd (step C cfg (fst (step C cfg w (AReq r2) O2)) (AReq r1) O1) /\
  snd (step C cfg w (AReq r2) O2) = snd (step C cfg (fst (step C cfg w (AReq r1) O1)) (AReq r2) O2).
Proof. exact steps_commute_lemma. Qed.
Print Assumptions c20_steps_commute.

(* a sufficient condition for one selector hypothesis: in w and in the world after the other request,
   every record that the submitted token's selector matches belongs to an account of the request's own
   footprint, and in w the selector matches at most one record *)
Theorem c20_selector_hypotheses : forall C cfg w r O r' O',
  filed (w_st w) -> disjoint (req_fp C cfg w r O) (req_fp C cfg w r' O') ->
  (forall raw, b64url_dec (aget f_cnf (values (req_env C cfg w r O))) = Some raw ->
     sel_within (csel_of (req_env C cfg w r O) raw) (req_fp C cfg w r O) (init_hst (w_st w) O)
                (init_hst (w_st (fst (step C cfg w (AReq r') O'))) O)) ->
  (forall raw, b64url_dec (aget f_token (values (req_env C cfg w r O))) = Some raw ->
     sel_within (rsel_of (req_env C cfg w r O) raw) (req_fp C cfg w r O) (init_hst (w_st w) O)
                (init_hst (w_st (fst (step C cfg w (AReq r') O'))) O)) ->
  sel_agree (req_env C cfg w r O) (init_hst (w_st w) O) (init_hst (w_st (fst (step C cfg w (AReq r') O'))) O).
Proof. exact sel_agree_private_lemma. Qed.
Print Assumptions c20_selector_hypotheses.

(* the footprint used in the theorem is computed in the common start world; it is the same list when
   computed after the other request ran (it reads only the browser's own jars, the request, and the
   records the token selectors find) *)
Theorem c20_footprint_stable : forall C cfg w r O r' O',
  q_browser r <> q_browser r' ->
  sel_agree (req_env C cfg w r O) (init_hst (w_st w) O) (init_hst (w_st (fst (step C cfg w (AReq r') O'))) O) ->
  req_fp C cfg (fst (step C cfg w (AReq r') O')) r O = req_fp C cfg w r O.
Proof. exact req_fp_after_other. Qed.
Print Assumptions c20_footprint_stable.

(* what one request sees and does when it runs after the other one instead of before it *)
Theorem c20_step_after_other : forall C cfg w r O r' O',
  filed (w_st w) -> q_browser r <> q_browser r' ->
  disjoint (req_fp C cfg w r O) (req_fp C cfg w r' O') ->
  let w' := fst (step C cfg w (AReq r') O') in
  sel_agree (req_env C cfg w r O) (init_hst (w_st w) O) (init_hst (w_st w') O) ->
  snd (step C cfg w (AReq r) O) = snd (step C cfg w' (AReq r) O) /\
  jar_get (q_browser r) (w_sess (fst (step C cfg w (AReq r) O))) = jar_get (q_browser r) (w_sess (fst (step C cfg w' (AReq r) O))) /\
  jar_get (q_browser r) (w_cook (fst (step C cfg w (AReq r) O))) = jar_get (q_browser r) (w_cook (fst (step C cfg w' (AReq r) O))) /\
  agree_on (req_fp C cfg w r O) (w_st (fst (step C cfg w (AReq r) O))) (w_st (fst (step C cfg w' (AReq r) O))) /\
  same_off (req_fp C cfg w r O) (w_st w) (w_st (fst (step C cfg w (AReq r) O))) /\
  same_off (req_fp C cfg w r O) (w_st w') (w_st (fst (step C cfg w' (AReq r) O))).
Proof. exact step_after_other. Qed.
Print Assumptions c20_step_after_other.

(* the hypotheses of c20_steps_commute are satisfiable by requests that DO something: two seeded
   accounts, two browsers, neither logged in; each posts its own account's password to /login
   (executable crypto instance, computed).  All five hypotheses hold; in the end both browsers are
   logged in, each to its own account, and both requests got the login redirect. *)
Example c20_steps_commute_nonvacuous :
  exists cfg w r1 O1 r2 O2,
    filed (w_st w) /\ q_browser r1 <> q_browser r2 /\
    disjoint (req_fp XC cfg w r1 O1) (req_fp XC cfg w r2 O2) /\
    sel_agree (req_env XC cfg w r1 O1) (init_hst (w_st w) O1) (init_hst (w_st (fst (step XC cfg w (AReq r2) O2))) O1) /\
    sel_agree (req_env XC cfg w r2 O2) (init_hst (w_st w) O2) (init_hst (w_st (fst (step XC cfg w (AReq r1) O1))) O2) /\
    alookup k_uid (jar_get (q_browser r1) (w_sess w)) = None /\
    alookup k_uid (jar_get (q_browser r2) (w_sess w)) = None /\
    let wa := fst (step XC cfg (fst (step XC cfg w (AReq r1) O1)) (AReq r2) O2) in
    alookup k_uid (jar_get (q_browser r1) (w_sess wa)) = Some cx_pid1 /\
    alookup k_uid (jar_get (q_browser r2) (w_sess wa)) = Some cx_pid2 /\
    ob_resp (snd (step XC cfg w (AReq r1) O1)) = Some (RespRedirect302 (bs "/ok/login")) /\
    ob_resp (snd (step XC cfg w (AReq r2) O2)) = Some (RespRedirect302 (bs "/ok/login")).
Proof. exact cx_witness. Qed.
Print Assumptions c20_steps_commute_nonvacuous.

(* ... and the theorem applied to them: the other order gives an equivalent world *)
Example c20_steps_commute_instance :
  weq (fst (step XC cx_cfg (fst (step XC cx_cfg cx_w (AReq cx_r1) cx_O1)) (AReq cx_r2) cx_O2))
      (fst (step XC cx_cfg (fst (step XC cx_cfg cx_w (AReq cx_r2) cx_O2)) (AReq cx_r1) cx_O1)).
Proof. exact cx_instance. Qed.
Print Assumptions c20_steps_commute_instance.
