(* C04 — property theorems (statements fixed; proofs live in Proofs/LockProofs.v). *)
From AB Require Import Model.Lock Spec.C04 Proofs.LockProofs.
Open Scope Z_scope.

(* the stored counter after ANY history is the declarative failure streak, the stored
   lock instant is the declarative one: for every LockAfter/LockWindow/LockDuration,
   every sequence of failures, correct credentials, completed logins, manual locks and
   unlocks at arbitrary times *)
Theorem c04_refines : forall c (h : list lop),
  let s := lrun c l_init h in
  l_count s = streak c (rev h) /\ l_last s = last_stamp c (rev h) /\ l_locked s = locked_until c (rev h).
Proof. exact c04_refines_lemma. Qed.
Print Assumptions c04_refines.

(* a correct credential never counts as a failure *)
Theorem c04_correct_never_counts : forall c s t, l_count (lstep c s (LOkBefore t)) = l_count s.
Proof. exact c04_correct_never_counts_lemma. Qed.
Print Assumptions c04_correct_never_counts.

(* a completed login and a manual unlock restart the count; unlock also clears the lock *)
Theorem c04_success_resets : forall c s t, l_count (lstep c s (LOkAfter t)) = 0.
Proof. exact c04_success_resets_lemma. Qed.
Print Assumptions c04_success_resets.

Theorem c04_unlock_clears : forall c s t t', 0 <= lc_duration c -> t <= t' ->
  l_count (lstep c s (LUnlock t)) = 0 /\ locked_at (lstep c s (LUnlock t)) t' = false.
Proof. exact c04_unlock_clears_lemma. Qed.
Print Assumptions c04_unlock_clears.

(* k failures in a row, each within the window of the previous attempt, add exactly k;
   the account is locked as soon as the count reaches LockAfter, for LockDuration from
   that failure *)
Theorem c04_threshold : forall c s t, 1 <= lc_after c -> 0 <= lc_window c ->
  t - l_last s <= lc_window c ->
  let s' := lstep c s (LFail t) in
  l_count s' = l_count s + 1 /\
  (lc_after c <= l_count s + 1 -> forall t', locked_at s' t' = true <-> t' < t + lc_duration c) /\
  (l_count s + 1 < lc_after c -> l_locked s' = l_locked s).
Proof. exact c04_threshold_lemma. Qed.
Print Assumptions c04_threshold.

(* a pause longer than the window restarts the count at one; that failure locks exactly when
   one failure is already the threshold *)
Theorem c04_window_restart : forall c s t, lc_window c < t - l_last s ->
  let s' := lstep c s (LFail t) in
  l_count s' = 1 /\
  (2 <= lc_after c -> l_locked s' = l_locked s) /\
  (lc_after c <= 1 -> forall t', locked_at s' t' = true <-> t' < t + lc_duration c).
Proof. exact c04_window_restart_lemma. Qed.
Print Assumptions c04_window_restart.

(* the property's sentence: the account becomes locked as soon as the count reaches LockAfter,
   for LockDuration from the failure that (re)triggered it - whichever branch counted it *)
Theorem c04_locked_as_soon_as : forall c s t,
  let s' := lstep c s (LFail t) in
  (lc_after c <= l_count s' -> forall t', locked_at s' t' = true <-> t' < t + lc_duration c) /\
  (l_count s' < lc_after c -> l_locked s' = l_locked s).
Proof. exact c04_locked_as_soon_as_lemma. Qed.
Print Assumptions c04_locked_as_soon_as.

(* over whole histories: k further failures, each inside the window of the attempt before
   it, raise the streak by exactly k whatever came before *)
Theorem c04_fail_run : forall c rh (ts : list Z),
  in_window c rh ts ->
  streak c (rev (map LFail ts) ++ rh) = streak c rh + Z.of_nat (length ts).
Proof. exact c04_fail_run_lemma. Qed.
Print Assumptions c04_fail_run.

(* locked exactly until LockDuration after the latest locking event *)
Theorem c04_locked_iff : forall c h t,
  locked_at (lrun c l_init h) t = true <-> t < locked_until c (rev h).
Proof. exact c04_locked_iff_lemma. Qed.
Print Assumptions c04_locked_iff.

(* non-vacuity: LockAfter 3, window 300, duration 3600 *)
Example c04_example :
  let c := mkLcfg 3 300 3600 in
  let s := lrun c l_init [LFail 1000; LFail 1100; LOkBefore 1150; LFail 1200] in
  (l_count s, l_locked s, locked_at s 4799, locked_at s 4800) = (3, 4800, true, false).
Proof. reflexivity. Qed.
