(* C02 — with a second factor enabled, password knowledge alone never yields a session (continued):
   the property over whole HISTORIES.

   Props/C02.v, C02b.v state, handler by handler, that for an account with an enrolled factor the
   password, one-time-password and recover-login handlers only park the login.  Props/C01d.v gives
   for every identity in every session jar after every history the LAST step at which it appeared
   and the credential condition that held there.  Here the two are combined (Proofs/History3.v):
   at that issuing step, either U's stored record - in the world the step started from - carries no
   enrolled factor, or the step went through a route that asks for more than a password.

   Vocabulary:
     enrolled cfg u     u has a TOTP secret and totp2fa is set up, or an SMS number and sms2fa is
                        set up: the hypothesis [has_totp E u \/ has_sms E u] of c02_*_parks;
     no_factor cfg st U the record stored under U in st, if there is one, is not enrolled
                        (at a registration there is none: the request creates it);
     beyond_password    the request is the OAuth2 callback, one of the two second-factor validation
                        pages, or an application request behind the remember middleware, and the
                        guard of c01_session_only_against_credential for that route holds
                        (g_oauth2 / g_totp / g_sms / g_remember);
     filed st           one entry per key in the user table, every record under its own pid: an
                        invariant of [step] from the empty world (c04_step_keeps_filed); needed for
                        the recover route only, where the account is found by its token selector. *)
From AB Require Import World.Step World.Exec Proofs.MonadInv Proofs.Guards Proofs.Guards2 Proofs.Guards3 Proofs.StepAll
  Proofs.Hijack Proofs.TwoFactorProofs Proofs.HistoryProofs Proofs.History3.
Open Scope Z_scope.

Theorem c02_enrolled_reading : forall C cfg O req ck ss u,
  enrolled cfg u <-> (has_totp (mkEnv C cfg O req ck ss) u \/ has_sms (mkEnv C cfg O req ck ss) u).
Proof. exact enrolled_reading. Qed.
Print Assumptions c02_enrolled_reading.

Theorem c02_enrolled_spelled : forall cfg u,
  enrolled cfg u <->
  (c_totp cfg = true /\ bempty (u_totp u) = false) \/ (c_sms cfg = true /\ bempty (u_sms u) = false).
Proof. reflexivity. Qed.
Print Assumptions c02_enrolled_spelled.

Theorem c02_no_factor_reading : forall cfg st U,
  no_factor cfg st U <-> (forall u, ulookup U (s_users st) = Some u -> ~ enrolled cfg u).
Proof. reflexivity. Qed.
Print Assumptions c02_no_factor_reading.

Theorem c02_beyond_password_reading : forall C cfg w O req U,
  beyond_password C cfg w O req U <->
  (let E := mkEnv C cfg O req (jar_get (q_browser req) (w_cook w)) (jar_get (q_browser req) (w_sess w)) in
   (exists prov, q_route req = ROAuthCallback prov /\ q_meth req = GET /\ has_mod cfg MOAuth2 = true /\
                 bmem prov (c_providers cfg) = true /\ g_oauth2 E prov (w_st w) U) \/
   (q_route req = RTotpValidate /\ q_meth req = POST /\ c_totp cfg = true /\ g_totp E (init_hst (w_st w) O) U) \/
   (q_route req = RSmsValidate /\ q_meth req = POST /\ c_sms cfg = true /\ g_sms E (init_hst (w_st w) O) U) \/
   (exists full tf fr l c e, q_route req = RApp full tf fr l c true e /\ g_remember E (w_st w) U)).
Proof. reflexivity. Qed.
Print Assumptions c02_beyond_password_reading.

(* the routes beyond a password are four of the eight credential routes of C01 *)
Theorem c02_beyond_password_is_credential : forall C cfg w O req U,
  beyond_password C cfg w O req U -> credential_shown C cfg w O req U.
Proof. exact beyond_password_shown. Qed.
Print Assumptions c02_beyond_password_is_credential.

(* ---- one step ------------------------------------------------------------------------------------ *)
(* the handler theorems on [step]: a POST to /login, /otp/login, /recover/end for an account with an
   enrolled factor never makes the browser's session name anybody it did not name before - any
   password, any storage fault, any other modules in any order *)
Theorem c02_step_login_parks : forall C cfg w req O U u,
  q_route req = RLogin -> q_meth req = POST -> has_mod cfg MAuth = true ->
  let E := mkEnv C cfg O req (jar_get (q_browser req) (w_cook w)) (jar_get (q_browser req) (w_sess w)) in
  ulookup (aget (pid_field E) (values E)) (s_users (w_st w)) = Some u -> enrolled cfg u ->
  alookup k_uid (jar_get (q_browser req) (w_sess (fst (step C cfg w (AReq req) O)))) = Some U ->
  alookup k_uid (jar_get (q_browser req) (w_sess w)) <> Some U -> False.
Proof. exact step_login_parks. Qed.
Print Assumptions c02_step_login_parks.

Theorem c02_step_otp_login_parks : forall C cfg w req O U u,
  q_route req = ROtpLogin -> q_meth req = POST -> has_mod cfg MOtp = true ->
  let E := mkEnv C cfg O req (jar_get (q_browser req) (w_cook w)) (jar_get (q_browser req) (w_sess w)) in
  ulookup (aget (pid_field E) (values E)) (s_users (w_st w)) = Some u -> enrolled cfg u ->
  alookup k_uid (jar_get (q_browser req) (w_sess (fst (step C cfg w (AReq req) O)))) = Some U ->
  alookup k_uid (jar_get (q_browser req) (w_sess w)) <> Some U -> False.
Proof. exact step_otp_parks. Qed.
Print Assumptions c02_step_otp_login_parks.

Theorem c02_step_recover_login_parks : forall C cfg w req O U raw u,
  q_route req = RRecoverEnd -> q_meth req = POST -> has_mod cfg MRecover = true ->
  let E := mkEnv C cfg O req (jar_get (q_browser req) (w_cook w)) (jar_get (q_browser req) (w_sess w)) in
  b64url_dec (aget f_token (values E)) = Some raw ->
  ufind (fun u => beqb (u_rsel u) (selector_of E raw)) (s_users (w_st w)) = Some u -> enrolled cfg u ->
  alookup k_uid (jar_get (q_browser req) (w_sess (fst (step C cfg w (AReq req) O)))) = Some U ->
  alookup k_uid (jar_get (q_browser req) (w_sess w)) <> Some U -> False.
Proof. exact step_recover_parks. Qed.
Print Assumptions c02_step_recover_login_parks.

(* a request that newly puts U into its browser's session *)
Theorem c02_step_no_password_only_session : forall C cfg w req O U,
  filed (w_st w) ->
  alookup k_uid (jar_get (q_browser req) (w_sess (fst (step C cfg w (AReq req) O)))) = Some U ->
  alookup k_uid (jar_get (q_browser req) (w_sess w)) <> Some U ->
  credential_shown C cfg w O req U ->
  no_factor cfg (w_st w) U \/ beyond_password C cfg w O req U.
Proof. exact step_no_password_only. Qed.
Print Assumptions c02_step_no_password_only_session.

(* ---- histories ----------------------------------------------------------------------------------- *)
(* Any crypto, configuration, history (any actions, any oracles: storage faults included), from any
   well-filed start world.  If at the end browser b's session names U and at the start it did not,
   then there is a LAST step (a, O) at which the identity appeared (c01_history_provenance), and at
   that step, in the world w1 it started from,
     - EITHER the record stored for U carries no enrolled factor (no record at all when the step is
       U's registration),
     - OR the step is a request of browser b on the OAuth2 callback, a second-factor validation page
       or an application route behind the remember middleware, with that route's guard for U
       (so NOT the password, one-time-password, recover-login or registration route),
     - OR it is one of the two harness actions that write a session jar directly. *)
Theorem c02_history_no_password_only_session : forall C cfg w0 l w' os b U,
  filed (w_st w0) ->
  run C cfg w0 l = (w', os) ->
  alookup k_uid (jar_get b (w_sess w')) = Some U ->
  alookup k_uid (jar_get b (w_sess w0)) <> Some U ->
  exists l1 a O l2 w1, l = l1 ++ (a, O) :: l2 /\ fst (run C cfg w0 l1) = w1 /\
    alookup k_uid (jar_get b (w_sess w1)) <> Some U /\
    alookup k_uid (jar_get b (w_sess (fst (step C cfg w1 a O)))) = Some U /\
    issued_at C cfg w1 a O b U /\
    (forall l2a l2b, l2 = l2a ++ l2b ->
       alookup k_uid (jar_get b (w_sess (fst (run C cfg w0 (l1 ++ (a, O) :: l2a))))) = Some U) /\
    (no_factor cfg (w_st w1) U \/
     (exists req, a = AReq req /\ q_browser req = b /\ beyond_password C cfg w1 O req U) \/
     a = APlant b k_uid U \/
     (exists j, a = ASetJar false b j /\ alookup k_uid j = Some U)).
Proof. exact c02_history_lemma. Qed.
Print Assumptions c02_history_no_password_only_session.

(* From the empty world with library-level actions only (no APlant, no ASetJar): no hypothesis on
   storage, and the issuing step is a request. *)
Theorem c02_history_from_empty : forall C cfg l w' os b U,
  run C cfg empty_world l = (w', os) -> library_history l ->
  alookup k_uid (jar_get b (w_sess w')) = Some U ->
  exists l1 req O l2 w1, l = l1 ++ (AReq req, O) :: l2 /\ fst (run C cfg empty_world l1) = w1 /\
    q_browser req = b /\ credential_shown C cfg w1 O req U /\
    alookup k_uid (jar_get b (w_sess w1)) <> Some U /\
    alookup k_uid (jar_get b (w_sess (fst (step C cfg w1 (AReq req) O)))) = Some U /\
    (forall l2a l2b, l2 = l2a ++ l2b ->
      alookup k_uid (jar_get b (w_sess (fst (run C cfg empty_world (l1 ++ (AReq req, O) :: l2a))))) = Some U) /\
    (no_factor cfg (w_st w1) U \/ beyond_password C cfg w1 O req U).
Proof. exact c02_history_from_empty_lemma. Qed.
Print Assumptions c02_history_from_empty.

(* the second alternative is inhabited (executable crypto instance, computed): an account with a TOTP
   secret, totp2fa set up.  The correct password only parks the login (pending marker, no identity);
   the code at the validation page issues the identity - and the stored record IS enrolled in the
   world that request started from *)
Example c02_history_second_factor_nonvacuous :
  library_history h3t_history /\
  alookup k_uid (jar_get (bs "b1") (w_sess (fst (run XC h3t_cfg empty_world h3t_prefix)))) = None /\
  alookup k_totp_pending (jar_get (bs "b1") (w_sess (fst (run XC h3t_cfg empty_world h3t_prefix)))) = Some h3_pid /\
  alookup k_uid (jar_get (bs "b1") (w_sess (fst (run XC h3t_cfg empty_world h3t_history)))) = Some h3_pid /\
  (exists u, ulookup h3_pid (s_users (w_st (fst (run XC h3t_cfg empty_world h3t_prefix)))) = Some u /\
             enrolled h3t_cfg u).
Proof. exact h3t_witness. Qed.
Print Assumptions c02_history_second_factor_nonvacuous.
