(* C13 (continued) — only the fully authenticated owner, proving the factor, changes 2FA settings:
   the field-change discipline, handler by handler.
   Vocabulary (Proofs/TwoFactorProofs.v):
     tf_of st p      the (TOTP secret, SMS number, recovery codes) triple stored for account p, if any;
     filed st        the user table has one entry per key and every record sits under its own pid;
     ctx_ok h        the context user, if any, carries the same triple as the record stored under his pid;
     keeps2fa m      from a filed store and an agreeing context, m ends in a filed store and an agreeing
                     context and leaves tf_of unchanged for EVERY account p;
     only_owner m    with user u in the context, m leaves a user with the same pid in the context and
                     leaves the record of every account other than u_pid u unchanged. *)
From AB Require Import World.Handlers Proofs.MonadInv Proofs.StoreLogic Proofs.Gate Proofs.TwoFactorProofs.

(* every event hook of every module (lock bookkeeping, confirm check and confirm starter, remember,
   expire, the two 2FA hijacks), run from any state: nobody's 2FA triple changes *)
Theorem c13_hooks_keep_2fa_fields : forall (E : env) hk rm hd h r h',
  filed (h_st h) -> ctx_ok h -> run_hook E hk rm hd h = (r, h') ->
  filed (h_st h') /\ ctx_ok h' /\ forall p, tf_of (h_st h') p = tf_of (h_st h) p.
Proof. exact hook_keeps2fa. Qed.
Print Assumptions c13_hooks_keep_2fa_fields.

(* hence Events.call over ANY list of hooks in any order, and every FireBefore/FireAfter *)
Theorem c13_fire_keeps_2fa_fields : forall (E : env),
  (forall hs rm hd, keeps2fa (call E hs rm hd)) /\ (forall e rm, keeps2fa (fire E e rm)).
Proof. exact call_fire_keep2fa. Qed.
Print Assumptions c13_fire_keeps_2fa_fields.

(* the handlers that have nothing to do with 2FA settings, including every hook they fire *)
Theorem c13_login_paths_keep_2fa_fields : forall (E : env),
  keeps2fa (login_post E) /\ keeps2fa (otp_login_post E) /\ keeps2fa (confirm_get E) /\
  keeps2fa (recover_start_post E) /\ keeps2fa (recover_end_post E) /\ keeps2fa (logout E) /\
  keeps2fa (otp_add_post E) /\ keeps2fa (otp_clear_post E) /\ keeps2fa (remember_authenticate E) /\
  (forall prov, keeps2fa (oauth2_start E prov)).
Proof. exact login_paths_keep2fa. Qed.
Print Assumptions c13_login_paths_keep_2fa_fields.

(* registration creates one record; every existing account (and every pid other than the
   submitted one) keeps its triple *)
Theorem c13_register_keeps_existing_2fa_fields : forall (E : env) h r h',
  filed (h_st h) -> ctx_ok h -> register_post E h = (r, h') ->
  filed (h_st h') /\ ctx_ok h' /\
  forall p, p <> aget (pid_field E) (values E) \/ ulookup p (s_users (h_st h)) <> None ->
            tf_of (h_st h') p = tf_of (h_st h) p.
Proof. exact register_post_2fa. Qed.
Print Assumptions c13_register_keeps_existing_2fa_fields.

(* the middlewares in front of the routes, and the 2FA set-up steps that precede confirmation *)
Theorem c13_middlewares_keep_2fa_fields : forall (E : env),
  (forall mp full tf fr, keeps2fa (auth_middleware E mp full tf fr)) /\
  keeps2fa (remember_mw E) /\ keeps2fa (lock_mw E) /\ keeps2fa (confirm_mw E) /\
  keeps2fa (totp_setup_post E) /\ keeps2fa (sms_setup_post E) /\
  (forall k, keeps2fa (email_verify_post E k)) /\ (forall k, keeps2fa (email_verify_end E k)).
Proof. exact middlewares_keep2fa. Qed.
Print Assumptions c13_middlewares_keep_2fa_fields.

(* the settings handlers, run with the owner in the context (which is what the access middleware
   establishes, c13_gate): only the owner's record can change *)
Theorem c13_settings_touch_only_owner : forall (E : env),
  only_owner (totp_confirm_post E) /\ only_owner (totp_remove_post E) /\
  only_owner (sms_validator_post E SPConfirm) /\ only_owner (sms_validator_post E SPRemove) /\
  only_owner (recovery_regen_post E).
Proof. exact settings_only_owner. Qed.
Print Assumptions c13_settings_touch_only_owner.

(* the same at route level: a settings handler mounted behind MountedMiddleware2(RequireFullAuth),
   request starting with an empty context, touches only the record of the session's user, and
   touches storage at all only if the session is not half-authenticated and names a stored user *)
Theorem c13_settings_route_touches_only_session_user : forall (E : env) (m : M unit) h r h',
  only_owner m -> keyed (h_st h) -> h_cuser h = None -> h_cpid h = None ->
  behind E true m h = (r, h') ->
  (forall p, p <> aget k_uid (e_sess E) -> ulookup p (s_users (h_st h')) = ulookup p (s_users (h_st h))) /\
  (h_st h' <> h_st h ->
     ahas k_halfauth (e_sess E) = false /\
     exists u, ulookup (aget k_uid (e_sess E)) (s_users (h_st h)) = Some u).
Proof. exact behind_settings_lemma. Qed.
Print Assumptions c13_settings_route_touches_only_session_user.

(* /2fa/totp/confirm changes storage only if the submitted code is valid for the secret held in
   the session, and then the owner's stored secret is exactly that one *)
Theorem c13_totp_confirm_needs_code : forall (E : env) h u r h',
  h_cuser h = Some u -> totp_confirm_post E h = (r, h') -> h_st h' <> h_st h ->
  exists secret,
    alookup k_totp_secret (e_sess E) = Some secret /\ aget k_totp_secret (e_sess E) = secret /\
    totp_ok E secret (aget f_code (values E)) = true /\
    exists u', ulookup (u_pid u) (s_users (h_st h')) = Some u' /\ u_totp u' = secret /\ u_pid u' = u_pid u.
Proof. exact totp_confirm_needs_code_lemma. Qed.
Print Assumptions c13_totp_confirm_needs_code.

(* /2fa/totp/remove changes storage only if the second factor was proved: TOTP is enabled for
   the context user and either (no recovery code submitted) the submitted code is valid for his
   current secret, or the submitted recovery code verifies against one of his stored ones *)
Theorem c13_totp_remove_needs_factor : forall (E : env) h u r h',
  h_cuser h = Some u -> totp_remove_post E h = (r, h') -> h_st h' <> h_st h ->
  bempty (u_totp u) = false /\
  ((bempty (aget f_recovery_code (values E)) = true /\
    totp_ok E (u_totp u) (aget f_code (values E)) = true) \/
   (bempty (aget f_recovery_code (values E)) = false /\
    exists rest, use_recovery_code E (decode_codes (u_recovery u)) (aget f_recovery_code (values E)) = Some rest)).
Proof. exact totp_remove_needs_factor_lemma. Qed.
Print Assumptions c13_totp_remove_needs_factor.
