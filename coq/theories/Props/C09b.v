(* C09 — idle expiry (continued): the statement at the level of whole requests ([step]) to an
   application route whose stack has the expire middleware in front.  Proofs: Proofs/StepLift2.v
   (the middleware-level theorems of Props/C09.v lifted through app_stack / serve / step). *)
From AB Require Import World.Step Base.TextProofs Proofs.ExpireProofs Proofs.StepLift2.
Open Scope Z_scope.

(* An expired session.  The browser's session names a user and carries a stamp d with
   d + ExpireAfter <= now; the application did not whitelist the user-id key; and the remember
   middleware is absent or the browser has no remember-me cookie (with the middleware AND a valid
   cookie the browser is logged back in, half-authenticated, by that cookie: c01_step_remember).
   Any method, any requirements, any refusal mode, lock / confirm middlewares or not, any storage,
   any oracle.

   Then everything behind the expire middleware runs with no current user: the access middleware
   refuses and the application handler is not reached — the response is the refusal of the
   configured mode (nothing at all only for the API-mode redirect whose renderer call is failed);
   storage is unchanged, no error, no panic.  If a response was written, the browser's session jar
   is exactly the old one with "delete all but the whitelist, delete uid, delete last_action"
   applied (followed by the error flash when the refusal is the form-mode redirect): every key
   left is accepted by the store's reading W of the whitelist (and is neither uid nor last_action)
   or is the error flash; every accepted key other than those keeps its value; uid and
   last_action are gone; the cookie jar is as it was.  If no response was written, both jars are
   as they were (the session is expired again by the next request). *)
Theorem c09_step_expired : forall C cfg w req O full tf fr l c r ds d,
  q_route req = RApp full tf fr l c r true ->
  let b := q_browser req in
  let j := jar_get b (w_sess w) in
  let E := mkEnv C cfg O req (jar_get b (w_cook w)) j in
  ahas k_uid j = true -> alookup k_last_action j = Some ds -> zparse ds = Some d ->
  d + c_expire_after cfg <= o_now O ->
  bmem k_uid (c_whitelist cfg) = false ->
  (r = false \/ alookup k_rm (jar_get b (w_cook w)) = None) ->
  let w' := fst (step C cfg w (AReq req) O) in
  let o := snd (step C cfg w (AReq req) O) in
  let W := bsplit ","%byte (bjoin ","%byte (c_whitelist cfg)) in
  let j' := jar_get b (w_sess w') in
  w_st w' = w_st w /\ ob_err o = false /\ ob_panic o = false /\
  (ob_resp o = Some (refusal_response E false fr) \/
   (ob_resp o = None /\ fr = RespRedirect /\ c_api cfg = true /\ exists n ek, fault_at n (o_faults O) = Some ek)) /\
  (ob_resp o <> None ->
     j' = apply_events j ([DelAll (bjoin ","%byte (c_whitelist cfg)); Del k_uid; Del k_last_action] ++ refusal_sev E fr) /\
     (forall k, ahas k j' = true -> (bmem k W = true /\ k <> k_uid /\ k <> k_last_action) \/ k = k_flash_err) /\
     (forall k, bmem k W = true -> k <> k_uid -> k <> k_last_action -> k <> k_flash_err ->
        alookup k j' = alookup k j) /\
     alookup k_uid j' = None /\ alookup k_last_action j' = None /\
     jar_get b (w_cook w') = jar_get b (w_cook w)) /\
  (ob_resp o = None -> w_sess w' = w_sess w /\ w_cook w' = w_cook w).
Proof. exact step_expired_stamp_lemma. Qed.
Print Assumptions c09_step_expired.

(* the same with the middleware's own test [stamp_expired] (stamp + ExpireAfter <= now; a missing
   stamp counts as expired iff ExpireAfter <= 0) in place of an explicit stamp *)
Theorem c09_step_expired_general : forall C cfg w req O full tf fr l c r,
  q_route req = RApp full tf fr l c r true ->
  let b := q_browser req in
  let j := jar_get b (w_sess w) in
  let E := mkEnv C cfg O req (jar_get b (w_cook w)) j in
  ahas k_uid j = true -> stamp_expired cfg (o_now O) j = true ->
  bmem k_uid (c_whitelist cfg) = false ->
  (r = false \/ alookup k_rm (jar_get b (w_cook w)) = None) ->
  let w' := fst (step C cfg w (AReq req) O) in
  let o := snd (step C cfg w (AReq req) O) in
  let W := bsplit ","%byte (bjoin ","%byte (c_whitelist cfg)) in
  let j' := jar_get b (w_sess w') in
  w_st w' = w_st w /\ ob_err o = false /\ ob_panic o = false /\
  (ob_resp o = Some (refusal_response E false fr) \/
   (ob_resp o = None /\ fr = RespRedirect /\ c_api cfg = true /\ exists n ek, fault_at n (o_faults O) = Some ek)) /\
  (ob_resp o <> None ->
     j' = apply_events j ([DelAll (bjoin ","%byte (c_whitelist cfg)); Del k_uid; Del k_last_action] ++ refusal_sev E fr) /\
     (forall k, ahas k j' = true -> (bmem k W = true /\ k <> k_uid /\ k <> k_last_action) \/ k = k_flash_err) /\
     (forall k, bmem k W = true -> k <> k_uid -> k <> k_last_action -> k <> k_flash_err ->
        alookup k j' = alookup k j) /\
     alookup k_uid j' = None /\ alookup k_last_action j' = None /\
     jar_get b (w_cook w') = jar_get b (w_cook w)) /\
  (ob_resp o = None -> w_sess w' = w_sess w /\ w_cook w' = w_cook w).
Proof. exact step_expired_lemma. Qed.
Print Assumptions c09_step_expired_general.

(* A live session.  The browser's session names a user (a non-empty uid) and carries a stamp d
   with now < d + ExpireAfter.  Whatever the rest of the stack does (admit, refuse, lock or
   confirm redirect, storage fault), if a response was written then in the session jar afterwards
   the stamp is this request's time, the user id is exactly what it was, and so is every other key
   except possibly the error flash: the jar is the old one with the stamp put, then the error
   flash put zero or more times.  The cookie jar is as it was.  If no response was written both
   jars are as they were.  (With c09_refresh_jar: the new stamp parses back to now, so the next
   request is measured from this one.) *)
Theorem c09_step_fresh : forall C cfg w req O full tf fr l c r ds d,
  q_route req = RApp full tf fr l c r true ->
  let b := q_browser req in
  let j := jar_get b (w_sess w) in
  bempty (aget k_uid j) = false -> alookup k_last_action j = Some ds -> zparse ds = Some d ->
  o_now O < d + c_expire_after cfg ->
  let w' := fst (step C cfg w (AReq req) O) in
  let o := snd (step C cfg w (AReq req) O) in
  let j' := jar_get b (w_sess w') in
  (ob_resp o <> None ->
     alookup k_last_action j' = Some (zdec (o_now O)) /\
     alookup k_uid j' = alookup k_uid j /\
     (forall k, k <> k_last_action -> k <> k_flash_err -> alookup k j' = alookup k j) /\
     (exists n, j' = apply_events j (Put k_last_action (zdec (o_now O)) :: repeat (Put k_flash_err v_flash) n)) /\
     jar_get b (w_cook w') = jar_get b (w_cook w)) /\
  (ob_resp o = None -> w_sess w' = w_sess w /\ w_cook w' = w_cook w).
Proof. exact step_fresh_stamp_lemma. Qed.
Print Assumptions c09_step_fresh.

Theorem c09_step_fresh_general : forall C cfg w req O full tf fr l c r,
  q_route req = RApp full tf fr l c r true ->
  let b := q_browser req in
  let j := jar_get b (w_sess w) in
  bempty (aget k_uid j) = false -> stamp_expired cfg (o_now O) j = false ->
  let w' := fst (step C cfg w (AReq req) O) in
  let o := snd (step C cfg w (AReq req) O) in
  let j' := jar_get b (w_sess w') in
  (ob_resp o <> None ->
     alookup k_last_action j' = Some (zdec (o_now O)) /\
     alookup k_uid j' = alookup k_uid j /\
     (forall k, k <> k_last_action -> k <> k_flash_err -> alookup k j' = alookup k j) /\
     (exists n, j' = apply_events j (Put k_last_action (zdec (o_now O)) :: repeat (Put k_flash_err v_flash) n)) /\
     jar_get b (w_cook w') = jar_get b (w_cook w)) /\
  (ob_resp o = None -> w_sess w' = w_sess w /\ w_cook w' = w_cook w).
Proof. exact step_fresh_lemma. Qed.
Print Assumptions c09_step_fresh_general.

(* the test named above, for a session with a well-formed stamp *)
Theorem c09_stamp_expired_reading : forall cfg now s ds d,
  alookup k_last_action s = Some ds -> zparse ds = Some d ->
  stamp_expired cfg now s = (d + c_expire_after cfg <=? now).
Proof. exact stamp_expired_stamp. Qed.
Print Assumptions c09_stamp_expired_reading.

(* Nobody logged in: the expire middleware is transparent — it hands the session on unchanged
   and leaves the handler state exactly as it found it (no event, no stamp). *)
Theorem c09_no_user_transparent : forall E h,
  ahas k_uid (e_sess E) = false -> expire_mw E h = (Ok (e_sess E), h).
Proof. exact expire_mw_nouser_eq. Qed.
Print Assumptions c09_no_user_transparent.
