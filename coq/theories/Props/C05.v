(* C05 — confirmation and recovery tokens: only the holder of the token that was mailed can
   confirm / recover, and only that account is affected. *)
From AB Require Import World.Handlers Proofs.MonadInv Proofs.StoreLogic Proofs.TokenProofs.

(* what is stored for a token: the encoded hashes of its first 32 bytes and of the rest *)
Theorem c05_token_halves : forall (E : env) raw,
  selector_of E raw = b64std_enc (sha (e_C E) (firstn 32 raw)) /\
  verifier_of E raw = b64std_enc (sha (e_C E) (skipn 32 raw)).
Proof. exact token_halves_lemma. Qed.
Print Assumptions c05_token_halves.

(* two tokens with the same stored pair are the same token *)
Theorem c05_token_halves_inj : forall (E : env), crypto_laws (e_C E) -> forall r1 r2,
  length r1 = 64%nat -> length r2 = 64%nat ->
  selector_of E r1 = selector_of E r2 -> verifier_of E r1 = verifier_of E r2 -> r1 = r2.
Proof. exact token_halves_inj_lemma. Qed.
Print Assumptions c05_token_halves_inj.

(* any change a confirm request makes to storage is exactly the confirmation of the account
   whose stored selector / verifier are the hashes of the two halves of the submitted token *)
Theorem c05_confirm_accept : forall (E : env) h r h',
  confirm_get E h = (r, h') -> h_st h' <> h_st h ->
  exists raw u,
    b64url_dec (aget f_cnf (values E)) = Some raw /\ length raw = 64%nat /\
    ufind (fun u => beqb (u_csel u) (selector_of E raw)) (s_users (h_st h)) = Some u /\
    b64std_dec (u_cver u) = Some (sha (e_C E) (half2 raw)) /\
    s_users (h_st h') = uput (u_pid u) (u <| u_csel := [] |> <| u_cver := [] |> <| u_confirmed := true |>) (s_users (h_st h)) /\
    s_rm (h_st h') = s_rm (h_st h).
Proof. exact confirm_accept_lemma. Qed.
Print Assumptions c05_confirm_accept.

(* if no decoding / length / selector / verifier combination fits, storage is untouched *)
Theorem c05_confirm_reject_unchanged : forall (E : env) h r h',
  confirm_get E h = (r, h') ->
  (forall raw u,
     b64url_dec (aget f_cnf (values E)) = Some raw -> length raw = 64%nat ->
     ufind (fun u => beqb (u_csel u) (selector_of E raw)) (s_users (h_st h)) = Some u ->
     b64std_dec (u_cver u) <> Some (sha (e_C E) (half2 raw))) ->
  h_st h' = h_st h.
Proof. exact confirm_reject_unchanged_lemma. Qed.
Print Assumptions c05_confirm_reject_unchanged.

(* the same, case by case: undecodable, wrong length, unknown selector, wrong verifier *)
Theorem c05_confirm_reject_cases : forall (E : env) h r h',
  confirm_get E h = (r, h') ->
  (b64url_dec (aget f_cnf (values E)) = None \/
   (exists raw, b64url_dec (aget f_cnf (values E)) = Some raw /\
      (length raw <> 64%nat \/
       ufind (fun u => beqb (u_csel u) (selector_of E raw)) (s_users (h_st h)) = None \/
       exists u, ufind (fun u => beqb (u_csel u) (selector_of E raw)) (s_users (h_st h)) = Some u /\
                 b64std_dec (u_cver u) <> Some (sha (e_C E) (half2 raw))))) ->
  h_st h' = h_st h.
Proof. exact confirm_reject_cases_lemma. Qed.
Print Assumptions c05_confirm_reject_cases.

(* recover end, FINAL state of the request in every configuration (all event hooks included):
   storage is untouched, or the token fits an unexpired account, whose record ends up as the
   recovered one up to the lock counters, and nobody else's record changed *)
Theorem c05_recover_end_cases : forall (E : env) h r h',
  recover_end_post E h = (r, h') ->
  h_st h' = h_st h \/
  exists raw u,
    b64url_dec (aget f_token (values E)) = Some raw /\ length raw = 64%nat /\
    ufind (fun u => beqb (u_rsel u) (selector_of E raw)) (s_users (h_st h)) = Some u /\
    ~ (u_rexp u < o_now (e_O E))%Z /\
    b64std_dec (u_rver u) = Some (sha (e_C E) (half2 raw)) /\
    valid [password_rule] pw_pairs (values E) = true /\ pw_dom (aget f_password (values E)) /\
    (exists su, ulookup (u_pid u) (s_users (h_st h')) = Some su /\
                upto_lock (recovered E u (aget f_password (values E))) su) /\
    (forall p, p <> u_pid u -> ulookup p (s_users (h_st h')) = ulookup p (s_users (h_st h))).
Proof. exact recover_end_cases. Qed.
Print Assumptions c05_recover_end_cases.

(* any change a recover-end request makes to the user table: the token fits, is not expired,
   the stored password is the hash of the submitted one and the token is cleared *)
Theorem c05_recover_accept : forall (E : env) h r h',
  recover_end_post E h = (r, h') -> s_users (h_st h') <> s_users (h_st h) ->
  exists raw u su,
    b64url_dec (aget f_token (values E)) = Some raw /\ length raw = 64%nat /\
    ufind (fun u => beqb (u_rsel u) (selector_of E raw)) (s_users (h_st h)) = Some u /\
    ~ (u_rexp u < o_now (e_O E))%Z /\
    b64std_dec (u_rver u) = Some (sha (e_C E) (half2 raw)) /\
    ulookup (u_pid u) (s_users (h_st h')) = Some su /\
    u_password su = pwhash (e_C E) (aget f_password (values E)) /\ u_rsel su = [] /\ u_rver su = [] /\
    (forall p, p <> u_pid u -> ulookup p (s_users (h_st h')) = ulookup p (s_users (h_st h))).
Proof. exact recover_accept_lemma. Qed.
Print Assumptions c05_recover_accept.

(* no fitting, unexpired token: storage (users and remember tokens) is untouched *)
Theorem c05_recover_reject_unchanged : forall (E : env) h r h',
  recover_end_post E h = (r, h') ->
  (forall raw u,
     b64url_dec (aget f_token (values E)) = Some raw -> length raw = 64%nat ->
     ufind (fun u => beqb (u_rsel u) (selector_of E raw)) (s_users (h_st h)) = Some u ->
     ~ (u_rexp u < o_now (e_O E))%Z ->
     b64std_dec (u_rver u) <> Some (sha (e_C E) (half2 raw))) ->
  h_st h' = h_st h.
Proof. exact recover_reject_unchanged_lemma. Qed.
Print Assumptions c05_recover_reject_unchanged.
