(* placeholder until the C03 theorems are in: one trivial obligation so that the plumbing can be exercised *)
From AB Require Import Check.WorldCheck.
Theorem c03_placeholder : True. Proof. exact I. Qed.
Print Assumptions c03_placeholder.
