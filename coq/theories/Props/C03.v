(* C03 — theorems in progress; this file is replaced as they are proved *)
From AB Require Import Check.WorldCheck.
Theorem c03_placeholder : True. Proof. exact I. Qed.
Print Assumptions c03_placeholder.
