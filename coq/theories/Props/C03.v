(* C03 — locked or unconfirmed accounts cannot complete a login. *)
From AB Require Import World.Step World.Exec Proofs.EvLogic Proofs.Neutral Proofs.MonadInv Proofs.Veto Proofs.NoLogin.
Open Scope Z_scope.

(* The before-auth question is refused for a locked account whenever the lock module is among
   the loaded modules, and for an unconfirmed account whenever the confirm module is — for ANY
   set of other modules and ANY load order (the hook list is arbitrary). *)
Theorem c03_before_auth_refuses_locked : forall E rm h r h',
  has_mod (e_cfg E) MLock = true -> ctx_locked E h -> fire E EvBeforeAuth rm h = (r, h') -> r <> Ok false.
Proof. exact fire_before_auth_locked. Qed.
Print Assumptions c03_before_auth_refuses_locked.

Theorem c03_before_auth_refuses_unconfirmed : forall E rm h r h',
  has_mod (e_cfg E) MConfirm = true -> ctx_unconfirmed h -> fire E EvBeforeAuth rm h = (r, h') -> r <> Ok false.
Proof. exact fire_before_auth_unconfirmed. Qed.
Print Assumptions c03_before_auth_refuses_unconfirmed.

(* /login: if the named account is locked (lock loaded) or unconfirmed (confirm loaded), the
   handler appends only uid-neutral session events, whatever password is submitted, whatever
   storage faults occur, whatever else is loaded *)
Theorem c03_login_refused : forall E h u,
  ulookup (aget (pid_field E) (values E)) (s_users (h_st h)) = Some u -> must_refuse E u ->
  neutral_from (login_post E) h.
Proof. exact login_post_refused_lemma. Qed.
Print Assumptions c03_login_refused.

(* /otp/login: likewise, even with a valid one-time password (which is still consumed) *)
Theorem c03_otp_login_refused : forall E h u,
  ulookup (aget (pid_field E) (values E)) (s_users (h_st h)) = Some u -> must_refuse E u ->
  neutral_from (otp_login_post E) h.
Proof. exact otp_login_post_refused_lemma. Qed.
Print Assumptions c03_otp_login_refused.

(* The full statement of C03 is FALSE of the faithful model for one path (known finding, not
   repaired, see known_findings.json): the confirm module does not hook the OAuth2 event.
   Witness: confirm + oauth2 loaded, an OAuth2 account whose confirmation was restarted, a
   matching callback -> the session is logged in.  The correspondence check replays exactly
   this history on the implementation (corpus/c03.jsonl). *)
Definition c03_w_cfg : config :=
  mkConfig [MAuth; MConfirm; MOAuth2] false false false false false false 3 300 3600 600 3600 (bs "/auth")
           false false false POST GET false [] RespNotFound [bs "google"] [] true false false.
Definition c03_w_pid := make_oauth2_pid (bs "google") (bs "100").
Definition c03_w_user : user :=
  blank_user <| u_pid := c03_w_pid |> <| u_ouid := bs "100" |> <| u_oprov := bs "google" |> <| u_confirmed := false |>.
Definition c03_w_world : world :=
  mkWorld (mkStorage [(c03_w_pid, c03_w_user)] []) [(bs "b1", [(k_oauth_state, bs "s")])] [].
Definition c03_w_req : request :=
  mkRequest (bs "b1") GET (ROAuthCallback (bs "google")) (bs "/oauth2/callback/google") (bs "state=s") [(f_state, bs "s")] [] false.
Definition c03_w_oracle : oracle :=
  mkOracle 1000 [] [] [] (mkPA true true (bs "100") (bs "o@x.io") (bs "t") [] zero_time).

Theorem c03_oauth2_unconfirmed_refuted :
  has_mod c03_w_cfg MConfirm = true /\
  u_confirmed c03_w_user = false /\
  alookup k_uid (jar_get (bs "b1") (w_sess (fst (step XC c03_w_cfg c03_w_world (AReq c03_w_req) c03_w_oracle)))) = Some c03_w_pid.
Proof. vm_compute. repeat split. Qed.
Print Assumptions c03_oauth2_unconfirmed_refuted.
