(* C18 (continued) — no panic, over whole HISTORIES.

   Props/C18b.v: [serve] never returns a panic, whatever the backend does.  Here that is lifted to the
   request-level state machine: every observation [obs] records the result class of its step in
   [ob_panic] / [ob_err] (Step.obs_of: ob_panic = true exactly when the handler or administrative call
   returned Panic), and no step of any history - any crypto, any configuration (any module set in any
   order), any start world, any actions (requests, Lock / Unlock / UpdatePassword / StartConfirmation,
   seeds, jar edits), any oracles (every backend fault plan) - has ob_panic = true. *)
From AB Require Import World.Step World.Exec Proofs.Misc Proofs.NoPanic Proofs.HistoryProofs Proofs.History2.

(* the administrative operations of Step.v never panic either *)
Theorem c18_no_panic_admin : forall C cfg O a, np (admin C cfg O a).
Proof. exact np_admin. Qed.
Print Assumptions c18_no_panic_admin.

(* one step *)
Theorem c18_step_no_panic : forall C cfg w a O, ob_panic (snd (step C cfg w a O)) = false.
Proof. exact step_no_panic_lemma. Qed.
Print Assumptions c18_step_no_panic.

(* every history *)
Theorem c18_history_no_panic : forall C cfg l w,
  Forall (fun o => ob_panic o = false) (snd (run C cfg w l)).
Proof. exact history_no_panic_lemma. Qed.
Print Assumptions c18_history_no_panic.

(* the same, by position *)
Theorem c18_history_no_panic_nth : forall C cfg l w n o,
  nth_error (snd (run C cfg w l)) n = Some o -> ob_panic o = false.
Proof. exact history_no_panic_nth. Qed.
Print Assumptions c18_history_no_panic_nth.

(* the n-th observation of a history IS the observation of the n-th step, made in the world the
   prefix before it reached (so the statements above speak about every reachable step) *)
Theorem c18_history_observation : forall C cfg l1 a O l2 w,
  nth_error (snd (run C cfg w (l1 ++ (a, O) :: l2))) (length l1) = Some (snd (step C cfg (fst (run C cfg w l1)) a O)).
Proof. exact run_obs_nth. Qed.
Print Assumptions c18_history_observation.

(* faults do happen in the model and are reported as errors: seed, a login whose user load fails,
   an UpdatePassword whose user load fails (executable crypto, computed) *)
Example c18_history_fault_is_error :
  map (fun o => (ob_err o, ob_panic o)) (snd (run XC (hx_cfg false) empty_world h2_fault_history)) =
  [(false, false); (true, false); (true, false)].
Proof. exact h2_fault_witness. Qed.
Print Assumptions c18_history_fault_is_error.
