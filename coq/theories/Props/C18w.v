(* C18 for the wrapped deployment: the router as mounted behind a global remember.Middleware
   ([serve_top], World/Handlers.v) never panics - every route, every configuration
   ([c_wrap_remember] either way), every start state. *)
From AB Require Import World.Handlers Proofs.Misc Proofs.Wrapped.

Theorem c18_no_panic_serve_top : forall E, np (serve_top E).
Proof. exact np_serve_top. Qed.
Print Assumptions c18_no_panic_serve_top.

(* the wrapper itself swallows every error of remember.Authenticate: it always returns normally *)
Theorem c18_remember_mw_returns : forall E h x h1, remember_mw E h = (x, h1) -> x = Ok tt.
Proof. exact remember_mw_ok. Qed.
Print Assumptions c18_remember_mw_returns.
