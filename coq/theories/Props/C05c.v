(* C05 (continued) — a confirmation / recovery token works once and NEVER AGAIN, over whole
   histories of the system: [run], any number of arbitrary steps by any browsers in between,
   backend faults allowed.  Same chain as Props/C07d.v (Proofs/TokenHistory.v):
     1. [ctok_absent C tok st] / [rtok_absent C tok st]: no stored record carries, as confirm
        (recover) selector, base64(sha512(first half of the decoded token));
     2. a request submitting a token that is absent is refused: storage is untouched (nobody is
        confirmed, no password changes) and - recovery with login-after-recovery - nobody is logged in;
     3. absence is kept by every step, with two VISIBLE exceptions: a step whose oracle hands out a
        64-byte chunk with exactly that first half (a new confirmation / recovery start would store
        the old selector again), and the harness's direct seed of a record carrying that selector;
     4. the accepting step establishes absence: the selector is cleared, and with distinct keys
        ([filed]) and unique non-empty selectors ([csel_unique] / [rsel_unique], the hypotheses of
        c05_confirm_once / c05_recover_once) nobody else carries it;
     5. hence the history theorems.
   [vals_of cfg req] is the parsed body as the handlers read it ([values] of the environment [step]
   builds).  [sha C (firstn 32 raw) <> []] as in c05_confirm_once: an empty selector is what every
   account without a pending token carries.  [filed] is an invariant of every history
   (c05_filed_history); the uniqueness of selectors is kept visible at the accepting step. *)
From AB Require Import World.Step World.Exec Proofs.TwoFactorProofs Proofs.OnceProofs Proofs.HistoryProofs
  Proofs.TokenHistory.
Open Scope Z_scope.

(* ---- vocabulary -------------------------------------------------------------------------------- *)
Theorem c05_vals_of_reading : forall cfg req,
  vals_of cfg req = if c_api cfg then q_form req else q_form req ++ q_query req.
Proof. exact vals_of_reading. Qed.
Print Assumptions c05_vals_of_reading.

Theorem c05_ctok_absent_reading : forall C tok st,
  ctok_absent C tok st <->
  forall raw, b64url_dec tok = Some raw ->
    forall k u, In (k, u) (s_users st) -> u_csel u <> b64std_enc (sha C (firstn 32 raw)).
Proof. exact ctok_absent_reading. Qed.
Print Assumptions c05_ctok_absent_reading.

Theorem c05_rtok_absent_reading : forall C tok st,
  rtok_absent C tok st <->
  forall raw, b64url_dec tok = Some raw ->
    forall k u, In (k, u) (s_users st) -> u_rsel u <> b64std_enc (sha C (firstn 32 raw)).
Proof. exact rtok_absent_reading. Qed.
Print Assumptions c05_rtok_absent_reading.

(* the visible exceptions.  A read of 64 bytes of crypto/rand in a request under oracle O returns one
   of the 64-byte chunks O lists or - the model's starved read - all zeros. *)
Theorem c05_ctok_exception_reading : forall C tok a O,
  ctok_exception C tok (a, O) <->
  exists raw, b64url_dec tok = Some raw /\
    match a with
    | ASeed u _ => u_csel u = b64std_enc (sha C (firstn 32 raw))
    | APlant _ _ _ | ASetJar _ _ _ => False
    | _ => (exists c, In c (o_fresh O) /\ length c = 64%nat /\ firstn 32 c = firstn 32 raw) \/
           firstn 32 raw = repeat x00 32
    end.
Proof. exact ctok_exception_reading. Qed.
Print Assumptions c05_ctok_exception_reading.

Theorem c05_rtok_exception_reading : forall C tok a O,
  rtok_exception C tok (a, O) <->
  exists raw, b64url_dec tok = Some raw /\
    match a with
    | ASeed u _ => u_rsel u = b64std_enc (sha C (firstn 32 raw))
    | APlant _ _ _ | ASetJar _ _ _ => False
    | _ => (exists c, In c (o_fresh O) /\ length c = 64%nat /\ firstn 32 c = firstn 32 raw) \/
           firstn 32 raw = repeat x00 32
    end.
Proof. exact rtok_exception_reading. Qed.
Print Assumptions c05_rtok_exception_reading.

(* ---- 2. an absent token is refused ---------------------------------------------------------------- *)
(* confirm: any method, any module set, any oracle - storage is exactly what it was *)
Theorem c05_absent_confirm_refused : forall C cfg w req O,
  q_route req = RConfirm ->
  ctok_absent C (aget f_cnf (vals_of cfg req)) (w_st w) ->
  w_st (fst (step C cfg w (AReq req) O)) = w_st w.
Proof. exact confirm_absent_refused. Qed.
Print Assumptions c05_absent_confirm_refused.

(* recover end: storage is exactly what it was (no password changes, whatever password is submitted)
   and every session identity after the step was there before (nobody is logged in, also with
   login-after-recovery configured) *)
Theorem c05_absent_recover_refused : forall C cfg w req O,
  q_route req = RRecoverEnd ->
  rtok_absent C (aget f_token (vals_of cfg req)) (w_st w) ->
  w_st (fst (step C cfg w (AReq req) O)) = w_st w /\
  forall b V, alookup k_uid (jar_get b (w_sess (fst (step C cfg w (AReq req) O)))) = Some V ->
              alookup k_uid (jar_get b (w_sess w)) = Some V.
Proof. exact recover_absent_refused. Qed.
Print Assumptions c05_absent_recover_refused.

(* ---- 3. preservation -------------------------------------------------------------------------------- *)
Theorem c05_ctok_absent_preserved : forall C, crypto_laws C -> forall cfg w a O tok raw,
  b64url_dec tok = Some raw -> sha C (firstn 32 raw) <> [] ->
  ~ ctok_exception C tok (a, O) ->
  ctok_absent C tok (w_st w) -> ctok_absent C tok (w_st (fst (step C cfg w a O))).
Proof. exact ctok_absent_step. Qed.
Print Assumptions c05_ctok_absent_preserved.

Theorem c05_rtok_absent_preserved : forall C, crypto_laws C -> forall cfg w a O tok raw,
  b64url_dec tok = Some raw -> sha C (firstn 32 raw) <> [] ->
  ~ rtok_exception C tok (a, O) ->
  rtok_absent C tok (w_st w) -> rtok_absent C tok (w_st (fst (step C cfg w a O))).
Proof. exact rtok_absent_step. Qed.
Print Assumptions c05_rtok_absent_preserved.

Theorem c05_ctok_absent_history : forall C cfg tok raw l w,
  crypto_laws C -> b64url_dec tok = Some raw -> sha C (firstn 32 raw) <> [] ->
  Forall (fun ao => ~ ctok_exception C tok ao) l ->
  ctok_absent C tok (w_st w) -> ctok_absent C tok (w_st (fst (run C cfg w l))).
Proof. exact ctok_absent_run. Qed.
Print Assumptions c05_ctok_absent_history.

Theorem c05_rtok_absent_history : forall C cfg tok raw l w,
  crypto_laws C -> b64url_dec tok = Some raw -> sha C (firstn 32 raw) <> [] ->
  Forall (fun ao => ~ rtok_exception C tok ao) l ->
  rtok_absent C tok (w_st w) -> rtok_absent C tok (w_st (fst (run C cfg w l))).
Proof. exact rtok_absent_run. Qed.
Print Assumptions c05_rtok_absent_history.

(* distinct keys, every record under its own pid: kept by EVERY step (the direct seed included) *)
Theorem c05_filed_step : forall C cfg w a O, filed (w_st w) -> filed (w_st (fst (step C cfg w a O))).
Proof. exact step_filed. Qed.
Print Assumptions c05_filed_step.

Theorem c05_filed_history : forall C cfg l w, filed (w_st w) -> filed (w_st (fst (run C cfg w l))).
Proof. exact run_filed. Qed.
Print Assumptions c05_filed_history.

(* ---- 4. the accepting step establishes absence -------------------------------------------------------- *)
(* the confirm request changed storage: by c05_confirm_accept it confirmed the account matching the token *)
Theorem c05_confirm_accepted_absent : forall C cfg w req O,
  q_route req = RConfirm ->
  w_st (fst (step C cfg w (AReq req) O)) <> w_st w ->
  filed (w_st w) -> csel_unique (w_st w) ->
  (forall raw, b64url_dec (aget f_cnf (vals_of cfg req)) = Some raw -> sha C (firstn 32 raw) <> []) ->
  ctok_absent C (aget f_cnf (vals_of cfg req)) (w_st (fst (step C cfg w (AReq req) O))).
Proof. exact confirm_accepted_absent. Qed.
Print Assumptions c05_confirm_accepted_absent.

(* the recover-end request changed the user table: by c05_recover_accept the password of the account
   matching the token was replaced (event hooks included) *)
Theorem c05_recover_accepted_absent : forall C cfg w req O,
  q_route req = RRecoverEnd ->
  s_users (w_st (fst (step C cfg w (AReq req) O))) <> s_users (w_st w) ->
  filed (w_st w) -> rsel_unique (w_st w) ->
  (forall raw, b64url_dec (aget f_token (vals_of cfg req)) = Some raw -> sha C (firstn 32 raw) <> []) ->
  rtok_absent C (aget f_token (vals_of cfg req)) (w_st (fst (step C cfg w (AReq req) O))).
Proof. exact recover_accepted_absent. Qed.
Print Assumptions c05_recover_accepted_absent.

(* ---- 5. never again ---------------------------------------------------------------------------------- *)
(* History l1 ++ (AReq r1, O1) :: l2 ++ [(AReq r2, O2)] from any world w0.  r1 submitted the token on
   the confirm route and was accepted (storage changed); no step of l2 - any actions, any browsers,
   any oracles - is one of the visible exceptions.  Then r2, by ANY browser, submitting the same
   token value: the selector is absent from storage and the step leaves storage exactly as it was. *)
Theorem c05_confirm_never_again : forall C, crypto_laws C -> forall cfg w0 l1 r1 O1 l2 r2 O2 tok raw,
  b64url_dec tok = Some raw -> sha C (firstn 32 raw) <> [] ->
  let w1 := fst (run C cfg w0 l1) in
  let w1' := fst (run C cfg w0 (l1 ++ [(AReq r1, O1)])) in
  let w2 := fst (run C cfg w0 (l1 ++ (AReq r1, O1) :: l2)) in
  let w3 := fst (run C cfg w0 (l1 ++ (AReq r1, O1) :: l2 ++ [(AReq r2, O2)])) in
  q_route r1 = RConfirm -> aget f_cnf (vals_of cfg r1) = tok -> w_st w1' <> w_st w1 ->
  filed (w_st w1) -> csel_unique (w_st w1) ->
  Forall (fun ao => ~ ctok_exception C tok ao) l2 ->
  q_route r2 = RConfirm -> aget f_cnf (vals_of cfg r2) = tok ->
  ctok_absent C tok (w_st w2) /\ w_st w3 = w_st w2.
Proof. exact confirm_never_again_lemma. Qed.
Print Assumptions c05_confirm_never_again.

(* the same for recovery: r1 was accepted (the user table changed); r2 submits the same token with ANY
   password: storage is exactly as it was and nobody is logged in *)
Theorem c05_recover_never_again : forall C, crypto_laws C -> forall cfg w0 l1 r1 O1 l2 r2 O2 tok raw,
  b64url_dec tok = Some raw -> sha C (firstn 32 raw) <> [] ->
  let w1 := fst (run C cfg w0 l1) in
  let w1' := fst (run C cfg w0 (l1 ++ [(AReq r1, O1)])) in
  let w2 := fst (run C cfg w0 (l1 ++ (AReq r1, O1) :: l2)) in
  let w3 := fst (run C cfg w0 (l1 ++ (AReq r1, O1) :: l2 ++ [(AReq r2, O2)])) in
  q_route r1 = RRecoverEnd -> aget f_token (vals_of cfg r1) = tok -> s_users (w_st w1') <> s_users (w_st w1) ->
  filed (w_st w1) -> rsel_unique (w_st w1) ->
  Forall (fun ao => ~ rtok_exception C tok ao) l2 ->
  q_route r2 = RRecoverEnd -> aget f_token (vals_of cfg r2) = tok ->
  rtok_absent C tok (w_st w2) /\ w_st w3 = w_st w2 /\
  forall b V, alookup k_uid (jar_get b (w_sess w3)) = Some V -> alookup k_uid (jar_get b (w_sess w2)) = Some V.
Proof. exact recover_never_again_lemma. Qed.
Print Assumptions c05_recover_never_again.

(* the hypotheses are satisfiable (executable crypto instance, computed): seed an unconfirmed
   account, start a confirmation, follow the mailed link (accepted), lock the account in between,
   follow the link again from another browser *)
Example c05_confirm_never_again_nonvacuous :
  exists C cfg w0 l1 r1 O1 l2 r2 tok raw,
    crypto_laws C /\ b64url_dec tok = Some raw /\ sha C (firstn 32 raw) <> [] /\
    q_route r1 = RConfirm /\ aget f_cnf (vals_of cfg r1) = tok /\
    w_st (fst (run C cfg w0 (l1 ++ [(AReq r1, O1)]))) <> w_st (fst (run C cfg w0 l1)) /\
    filed (w_st (fst (run C cfg w0 l1))) /\ csel_unique (w_st (fst (run C cfg w0 l1))) /\
    Forall (fun ao => ~ ctok_exception C tok ao) l2 /\ l2 <> [] /\
    q_route r2 = RConfirm /\ aget f_cnf (vals_of cfg r2) = tok.
Proof. exact bx_confirm_witness. Qed.
Print Assumptions c05_confirm_never_again_nonvacuous.

(* ... start a recovery, submit the mailed token with a new password (accepted), lock the account,
   submit the token again from another browser with another password *)
Example c05_recover_never_again_nonvacuous :
  exists C cfg w0 l1 r1 O1 l2 r2 tok raw,
    crypto_laws C /\ b64url_dec tok = Some raw /\ sha C (firstn 32 raw) <> [] /\
    q_route r1 = RRecoverEnd /\ aget f_token (vals_of cfg r1) = tok /\
    s_users (w_st (fst (run C cfg w0 (l1 ++ [(AReq r1, O1)])))) <> s_users (w_st (fst (run C cfg w0 l1))) /\
    filed (w_st (fst (run C cfg w0 l1))) /\ rsel_unique (w_st (fst (run C cfg w0 l1))) /\
    Forall (fun ao => ~ rtok_exception C tok ao) l2 /\ l2 <> [] /\
    q_route r2 = RRecoverEnd /\ aget f_token (vals_of cfg r2) = tok.
Proof. exact bx_recover_witness. Qed.
Print Assumptions c05_recover_never_again_nonvacuous.
