(* C01 (continued): what "the password verifies" means once the hasher refuses what bcrypt cannot read (repair F16).
   Under the crypto laws - which now include [pw_long]: a password longer than 72 bytes verifies against nothing -
   the credential condition of the password route says that the SUBMITTED STRING IS THE PASSWORD the stored hash was
   made from, for submitted strings of every length.  Before the repair this was false of the code: every extension
   of a 72-byte password verified (known_findings.json, F16). *)
From AB Require Import World.Step World.Exec Proofs.EvLogic Proofs.Neutral Proofs.HandlerEvents Proofs.ServeEvents Proofs.StepUid
  Proofs.MonadInv Proofs.Guards Proofs.Guards2 Proofs.Guards3 Proofs.StepGuard Proofs.StepAll.
Require Import Lia.

Lemma password_login_presents_the_password_lemma : forall E st U p,
  crypto_laws (e_C E) -> g_login E st U ->
  (forall u, ulookup U (s_users st) = Some u -> u_password u = pwhash (e_C E) p) -> pw_dom p ->
  aget f_password (values E) = p.
Proof.
  intros E st U p L G Hst Hp.
  apply g_login_reading in G. destruct G as (_ & u & Hu & Hc).
  rewrite (Hst u Hu) in Hc.
  destruct (Nat.leb_spec (length (aget f_password (values E))) 72) as [Hle|Hgt].
  - symmetry. apply (pw_ok _ L p (aget f_password (values E)) Hp Hle). exact Hc.
  - rewrite (pw_long _ L _ _ Hgt) in Hc. discriminate Hc.
Qed.

Theorem c01_password_login_presents_the_password : forall E st U p,
  crypto_laws (e_C E) -> g_login E st U ->
  (forall u, ulookup U (s_users st) = Some u -> u_password u = pwhash (e_C E) p) -> pw_dom p ->
  aget f_password (values E) = p.
Proof. exact password_login_presents_the_password_lemma. Qed.
Print Assumptions c01_password_login_presents_the_password.

(* the executable instance the correspondence check runs satisfies the laws, the new one included *)
Theorem c01_exec_crypto_laws : crypto_laws XC.
Proof. exact exec_laws. Qed.
Print Assumptions c01_exec_crypto_laws.

(* non-vacuity of [pw_long] on the executable instance: a 73-byte string verifies against nothing, in particular
   not against the hash of its own 72-byte prefix *)
Example c01_long_password_verifies_nothing :
  let p72 := repeat "a"%byte 72 in
  pwcheck XC (pwhash XC p72) (p72 ++ ["x"%byte]) = false /\ pwcheck XC (pwhash XC p72) p72 = true.
Proof. vm_compute. split; reflexivity. Qed.
Print Assumptions c01_long_password_verifies_nothing.
