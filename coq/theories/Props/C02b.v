(* C02 — with a second factor enabled, password knowledge alone never yields a session: the
   one-time-password login and the login after recovery. *)
From AB Require Import World.Handlers Proofs.Neutral Proofs.MonadInv Proofs.Veto Proofs.NoLogin Proofs.Hijack Proofs.NoLogin2.

(* /otp/login for an account with a TOTP secret (totp2fa set up) or an SMS number (sms2fa set
   up): a valid one-time password is consumed, but every session event is uid-neutral — the
   login is only parked — in any module configuration and load order *)
Theorem c02_otp_login_parks : forall E h u,
  ulookup (aget (pid_field E) (values E)) (s_users (h_st h)) = Some u ->
  (has_totp E u \/ has_sms E u) ->
  neutral_from (otp_login_post E) h.
Proof. exact otp_login_post_2fa_parks_lemma. Qed.
Print Assumptions c02_otp_login_parks.

(* /recover/end with RecoverLoginAfterRecovery for such an account: the password is changed,
   the login that follows is only parked *)
Theorem c02_recover_login_parks : forall E h raw u,
  b64url_dec (aget f_token (values E)) = Some raw ->
  ufind (fun u => beqb (u_rsel u) (selector_of E raw)) (s_users (h_st h)) = Some u ->
  (has_totp E u \/ has_sms E u) ->
  neutral_from (recover_end_post E) h.
Proof. exact recover_end_post_2fa_parks_lemma. Qed.
Print Assumptions c02_recover_login_parks.
