(* C12 (continued) — recovery codes work once. *)
From AB Require Import World.Handlers Proofs.MonadInv Proofs.StoreLogic Proofs.TwoFactorProofs.

(* twofactor.UseRecoveryCode: a result means some stored entry verified the input (the first such),
   and what is handed back is the list with exactly that entry taken out *)
Theorem c12_use_recovery_code_spec : forall (E : env) codes inp rest,
  use_recovery_code E codes inp = Some rest ->
  exists i, (i < length codes)%nat /\
            pwcheck (e_C E) (nth i codes []) inp = true /\
            (forall j, (j < i)%nat -> pwcheck (e_C E) (nth j codes []) inp = false) /\
            rest = firstn i codes ++ skipn (S i) codes /\
            length rest = pred (length codes) /\
            (forall y, In y rest -> In y codes).
Proof. exact use_rc_spec_lemma. Qed.
Print Assumptions c12_use_recovery_code_spec.

(* with the stored list being the hashes of distinct plain codes (all within bcrypt's domain, as
   is the input): the input is one of the plain codes, what remains are the hashes of the others,
   and the same input does not verify against what remains *)
Theorem c12_recovery_code_not_reusable : forall (E : env), crypto_laws (e_C E) ->
  forall plain p rest,
  NoDup plain -> Forall pw_dom plain -> pw_dom p ->
  use_recovery_code E (map (pwhash (e_C E)) plain) p = Some rest ->
  In p plain /\ rest = map (pwhash (e_C E)) (remove_first p plain) /\ ~ In p (remove_first p plain) /\
  use_recovery_code E rest p = None.
Proof. exact use_rc_hashed_lemma. Qed.
Print Assumptions c12_recovery_code_not_reusable.

(* TOTP.validate with a recovery code submitted: when it reports success the Save of the record
   with the shrunken list has already succeeded - that record is what storage holds under the
   user's pid, and nobody else's record changed *)
Theorem c12_totp_recovery_consumed_before_success : forall (E : env) h u' sh h',
  totp_validate E h = (Ok (u', sh, Some TSuccess), h') ->
  bempty (aget f_recovery_code (values E)) = false ->
  exists u0 rest,
    use_recovery_code E (decode_codes (u_recovery u0)) (aget f_recovery_code (values E)) = Some rest /\
    u' = u0 <| u_recovery := encode_codes rest |> /\
    u_recovery u' = encode_codes rest /\
    ulookup (u_pid u0) (s_users (h_st h')) = Some u' /\
    (forall p, p <> u_pid u0 -> ulookup p (s_users (h_st h')) = ulookup p (s_users (h_st h))) /\
    (forall cu, h_cuser h = Some cu -> u0 = cu).
Proof. exact totp_recovery_consumed_lemma. Qed.
Print Assumptions c12_totp_recovery_consumed_before_success.
