(* C10 — logout (continued): the statement at the level of whole requests ([step]), the wrong
   method at that level, and the request that follows a logout.  Proofs: Proofs/StepLift2.v. *)
From AB Require Import World.Step Proofs.EvLogic Proofs.Gate Proofs.LogoutProofs Proofs.StepLift2.
Open Scope Z_scope.

(* One logout request, from ANY world (any session and cookie jar of the requesting browser, any
   storage), any oracle (backend faults included), any configuration that loads the logout module.
   The method is the configured one; PUT is excluded because the router answers 405 to every
   PUT before looking at the route (c10_step_wrong_method below covers it).

   Storage is never changed.  If a response was written, then in the browser's session jar
   afterwards: every key present is one the store's reading W of the whitelist accepts and is
   none of uid / halfauth / last_action, or it is the success flash "flash_success" (the one key
   the redirect writes, in form mode only); every such accepted key other than those four keeps
   exactly the value it had; uid, halfauth and last_action are absent; in form mode the flash is
   there; and in the cookie jar the remember-me cookie "rm" is absent and every other cookie is
   as it was.  If NO response was written — which happens only in API mode, with the silent error
   handler, when the renderer's backend call is failed — nothing at all reaches the browser:
   both jars are exactly as before (see c10_logout_unwritten_keeps_session).  Other browsers'
   jars are untouched in every case.

   W is [bsplit "," (bjoin "," whitelist)]: the event carries the comma-joined list and the
   reference store splits it again (c10_store_whitelist_reading relates it to the list). *)
Theorem c10_step_logout : forall C cfg w req O,
  q_route req = RLogout -> q_meth req = c_logout_method cfg -> q_meth req <> PUT ->
  has_mod cfg MLogout = true ->
  let b := q_browser req in
  let w' := fst (step C cfg w (AReq req) O) in
  let o := snd (step C cfg w (AReq req) O) in
  let W := bsplit ","%byte (bjoin ","%byte (c_whitelist cfg)) in
  let j := jar_get b (w_sess w) in
  let j' := jar_get b (w_sess w') in
  w_st w' = w_st w /\
  (ob_resp o <> None ->
     (forall k, ahas k j' = true ->
        (bmem k W = true /\ k <> k_uid /\ k <> k_halfauth /\ k <> k_last_action) \/ k = k_flash_ok) /\
     (forall k, bmem k W = true -> k <> k_uid -> k <> k_halfauth -> k <> k_last_action -> k <> k_flash_ok ->
        alookup k j' = alookup k j) /\
     alookup k_uid j' = None /\ alookup k_halfauth j' = None /\ alookup k_last_action j' = None /\
     (c_api cfg = false -> alookup k_flash_ok j' = Some v_flash) /\
     alookup k_rm (jar_get b (w_cook w')) = None /\
     (forall k, k <> k_rm -> alookup k (jar_get b (w_cook w')) = alookup k (jar_get b (w_cook w)))) /\
  (ob_resp o = None ->
     c_api cfg = true /\ c_err_writes cfg = false /\ (exists n ek, fault_at n (o_faults O) = Some ek) /\
     w_sess w' = w_sess w /\ w_cook w' = w_cook w) /\
  (forall b', b' <> b ->
     jar_get b' (w_sess w') = jar_get b' (w_sess w) /\ jar_get b' (w_cook w') = jar_get b' (w_cook w)).
Proof. exact step_logout_lemma. Qed.
Print Assumptions c10_step_logout.

(* The hypothesis "a response was written" cannot be dropped: a concrete configuration (API mode,
   silent error handler), world, DELETE /logout request and oracle failing the renderer's call,
   after which the browser still holds its user id and its remember-me cookie. *)
Theorem c10_logout_unwritten_keeps_session :
  q_route wit_req = RLogout /\ q_meth wit_req = c_logout_method wit_cfg /\ has_mod wit_cfg MLogout = true /\
  let w' := fst (step wit_crypto wit_cfg wit_world (AReq wit_req) wit_oracle) in
  ob_resp (snd (step wit_crypto wit_cfg wit_world (AReq wit_req) wit_oracle)) = None /\
  alookup k_uid (jar_get (bs "b") (w_sess w')) = Some (bs "a") /\
  alookup k_rm (jar_get (bs "b") (w_cook w')) = Some (bs "t").
Proof. exact logout_unwritten_witness. Qed.
Print Assumptions c10_logout_unwritten_keeps_session.

(* the store's reading of the whitelist is the whitelist itself when it is non-empty and no key
   contains a comma; an empty whitelist reads as the one-element list holding the empty key *)
Theorem c10_store_whitelist_reading : forall wl : list bytes,
  wl <> [] -> Forall (fun k => bmem_byte ","%byte k = false) wl -> bsplit ","%byte (bjoin ","%byte wl) = wl.
Proof. exact store_whitelist_reading. Qed.
Print Assumptions c10_store_whitelist_reading.

(* Logout only reacts to the configured method: a request to the logout route with any other
   method changes no storage and no jar of any browser, and is answered 404 (405 for PUT). *)
Theorem c10_step_wrong_method : forall C cfg w req O,
  q_route req = RLogout -> meth_eqb (q_meth req) (c_logout_method cfg) = false ->
  let w' := fst (step C cfg w (AReq req) O) in
  let o := snd (step C cfg w (AReq req) O) in
  w_st w' = w_st w /\
  (forall b', jar_get b' (w_sess w') = jar_get b' (w_sess w) /\ jar_get b' (w_cook w') = jar_get b' (w_cook w)) /\
  (ob_resp o = Some (RespStatus 404) \/ ob_resp o = Some (RespStatus 405)).
Proof. exact step_logout_wrong_method_lemma. Qed.
Print Assumptions c10_step_wrong_method.

(* The next request is unauthenticated, at the gate: from a session without a user id, at the
   start of a request (nothing cached in the context), the access middleware admits nobody —
   whatever the requirements, the refusal mode, the storage and the oracle. *)
Theorem c10_next_request_unauthenticated : forall E mp full tf fr h h',
  h_cuser h = None -> h_cpid h = None -> alookup k_uid (e_sess E) = None ->
  auth_middleware E mp full tf fr h <> (Ok true, h').
Proof. exact gate_unauthenticated_lemma. Qed.
Print Assumptions c10_next_request_unauthenticated.

(* The same for a whole request to an application route, through any middleware stack (expire,
   remember, lock, confirm in any combination): from a session jar without a user id and a cookie
   jar without a remember-me cookie (or a stack without the remember middleware), the request is
   answered by the refusal of the configured mode (404 / 401 / the login redirect; nothing at all
   only for the API-mode redirect whose renderer call is failed), the application handler is not
   reached, storage is unchanged, no error, no panic, the session jar changes at most by the
   error flash, and it still has no user id. *)
Theorem c10_step_app_unauthenticated : forall C cfg w req O full tf fr l c r e,
  q_route req = RApp full tf fr l c r e ->
  let b := q_browser req in
  let j := jar_get b (w_sess w) in
  let E := mkEnv C cfg O req (jar_get b (w_cook w)) j in
  alookup k_uid j = None -> (r = false \/ alookup k_rm (jar_get b (w_cook w)) = None) ->
  let w' := fst (step C cfg w (AReq req) O) in
  let o := snd (step C cfg w (AReq req) O) in
  let j' := jar_get b (w_sess w') in
  w_st w' = w_st w /\ ob_err o = false /\ ob_panic o = false /\
  (ob_resp o = Some (refusal_response E false fr) \/
   (ob_resp o = None /\ fr = RespRedirect /\ c_api cfg = true /\ exists n ek, fault_at n (o_faults O) = Some ek)) /\
  (forall k, k <> k_flash_err -> alookup k j' = alookup k j) /\
  alookup k_uid j' = None /\
  jar_get b (w_cook w') = jar_get b (w_cook w).
Proof. exact step_app_unauthenticated_lemma. Qed.
Print Assumptions c10_step_app_unauthenticated.

(* Two requests in a row: a logout that got its response out, then ANY request of the same
   browser to an application route (any stack, any oracle): refused, and the browser still has
   neither a user id nor a remember-me cookie. *)
Theorem c10_step_logout_then_app : forall C cfg w req O req2 O2 full tf fr l c r e,
  q_route req = RLogout -> q_meth req = c_logout_method cfg -> q_meth req <> PUT ->
  has_mod cfg MLogout = true ->
  ob_resp (snd (step C cfg w (AReq req) O)) <> None ->
  q_browser req2 = q_browser req -> q_route req2 = RApp full tf fr l c r e ->
  let b := q_browser req in
  let w1 := fst (step C cfg w (AReq req) O) in
  let w2 := fst (step C cfg w1 (AReq req2) O2) in
  let o2 := snd (step C cfg w1 (AReq req2) O2) in
  w_st w2 = w_st w /\ ob_err o2 = false /\ ob_panic o2 = false /\
  (ob_resp o2 = Some (refusal_response (mkEnv C cfg O2 req2 [] []) false fr) \/
   (ob_resp o2 = None /\ fr = RespRedirect /\ c_api cfg = true /\ exists n ek, fault_at n (o_faults O2) = Some ek)) /\
  alookup k_uid (jar_get b (w_sess w2)) = None /\
  alookup k_rm (jar_get b (w_cook w2)) = None.
Proof. exact step_logout_then_app_lemma. Qed.
Print Assumptions c10_step_logout_then_app.
