(* C17 — storage half, for the whole router: "After any history, storage holds passwords, one-time
   passwords, recovery codes, remember-me tokens and confirm/recover tokens only as hashes."

   Every value a request (any route of [serve], through every middleware, hook and the error
   handler) or an administrative operation writes into a secret-bearing field is what was there
   before, a removal, or a digest: bcrypt for the password and the recovery codes, base64(sha512)
   for confirm / recover selector and verifier, one-time passwords and remember-me tokens.
   The predicates ([written], [pw_written], [sel_written], [otps_written], [recovery_written],
   [rm_written], [stored_shape]) are defined in Proofs/StoreShape.v.

   Not covered by these fields (stored as the library stores them, in the clear): the TOTP secret
   [u_totp], the last accepted TOTP code [u_totp_last], the SMS number [u_sms], the OAuth2 access
   and refresh tokens [u_otoken] / [u_orefresh]. *)
From AB Require Import World.Step Proofs.StoreLogic Proofs.TwoFactorProofs Proofs.StoreShape.

(* one request, any route *)
Theorem c17_serve_writes_digests : forall E h r h',
  crypto_laws (e_C E) -> filed (h_st h) -> ctx_stored h -> serve E h = (r, h') ->
  filed (h_st h') /\
  (forall p, match ulookup p (s_users (h_st h)), ulookup p (s_users (h_st h')) with
             | Some a, Some b => written (e_C E) a b
             | None, Some b => written (e_C E) blank_user b
             | Some _, None => False
             | None, None => True
             end) /\
  (forall p, rm_written (e_C E) (rmlookup p (s_rm (h_st h))) (rmlookup p (s_rm (h_st h')))).
Proof. exact serve_writes_digests_lemma. Qed.
Print Assumptions c17_serve_writes_digests.

(* the same from the state a request starts in (Step.init_hst: no context user yet) *)
Theorem c17_serve_writes_digests_fresh : forall E h r h',
  crypto_laws (e_C E) -> filed (h_st h) -> h_cuser h = None -> serve E h = (r, h') ->
  filed (h_st h') /\
  (forall p, match ulookup p (s_users (h_st h)), ulookup p (s_users (h_st h')) with
             | Some a, Some b => written (e_C E) a b
             | None, Some b => written (e_C E) blank_user b
             | Some _, None => False
             | None, None => True
             end) /\
  (forall p, rm_written (e_C E) (rmlookup p (s_rm (h_st h))) (rmlookup p (s_rm (h_st h')))).
Proof. exact serve_writes_digests_fresh_lemma. Qed.
Print Assumptions c17_serve_writes_digests_fresh.

(* the administrative operations: Lock, Unlock, UpdatePassword, StartConfirmation (everything but
   the harness writing a record directly) *)
Theorem c17_admin_writes_digests : forall C cfg O a h r h',
  crypto_laws C -> ~ is_seed a -> filed (h_st h) -> ctx_stored h -> admin C cfg O a h = (r, h') ->
  filed (h_st h') /\ shape C (h_st h) (h_st h').
Proof. exact admin_writes_digests_lemma. Qed.
Print Assumptions c17_admin_writes_digests.

(* one step of the state machine *)
Theorem c17_step_writes_digests : forall C cfg w a O w' o,
  crypto_laws C -> ~ is_seed a -> filed (w_st w) -> step C cfg w a O = (w', o) ->
  filed (w_st w') /\ shape C (w_st w) (w_st w').
Proof. exact step_writes_digests_lemma. Qed.
Print Assumptions c17_step_writes_digests.

(* any history without direct seeds *)
Theorem c17_history_writes_digests : forall C cfg l w w' os,
  crypto_laws C -> Forall (fun ao => ~ is_seed (fst ao)) l -> filed (w_st w) -> run C cfg w l = (w', os) ->
  filed (w_st w') /\ shape C (w_st w) (w_st w').
Proof. exact history_writes_digests_lemma. Qed.
Print Assumptions c17_history_writes_digests.

(* after any such history from the empty world: every stored password is empty or a bcrypt hash,
   every selector / verifier empty or base64(sha512), every one-time password base64(sha512), every
   non-empty recovery code a bcrypt hash, every remember-me token base64(sha512) *)
Theorem c17_history_from_empty : forall C cfg l w' os,
  crypto_laws C -> Forall (fun ao => ~ is_seed (fst ao)) l -> run C cfg empty_world l = (w', os) ->
  (forall p b, ulookup p (s_users (w_st w')) = Some b -> stored_shape C b) /\
  (forall p t, In t (rmlookup p (s_rm (w_st w'))) -> is_digest C t).
Proof. exact history_from_empty_lemma. Qed.
Print Assumptions c17_history_from_empty.

(* a value found in a password field after a request was there before the request, or the record
   is new and the value is empty, or the value is itself a bcrypt hash (no law needed) *)
Theorem c17_password_never_stored_plain : forall E h r h' p b x,
  filed (h_st h) -> ctx_stored h -> serve E h = (r, h') ->
  ulookup p (s_users (h_st h')) = Some b -> u_password b = x ->
  (exists a, ulookup p (s_users (h_st h)) = Some a /\ u_password a = x) \/
  (ulookup p (s_users (h_st h)) = None /\ x = []) \/
  (exists y, x = pwhash (e_C E) y).
Proof. exact password_never_stored_plain_lemma. Qed.
Print Assumptions c17_password_never_stored_plain.

(* what the laws add: a value with a comma in it is no bcrypt hash, so it is in a password field
   after a request only if it was there before *)
Theorem c17_password_with_comma_not_stored : forall E h r h' p b x,
  crypto_laws (e_C E) -> filed (h_st h) -> ctx_stored h -> serve E h = (r, h') ->
  bmem_byte ","%byte x = true ->
  ulookup p (s_users (h_st h')) = Some b -> u_password b = x ->
  exists a, ulookup p (s_users (h_st h)) = Some a /\ u_password a = x.
Proof. exact password_with_comma_lemma. Qed.
Print Assumptions c17_password_with_comma_not_stored.
