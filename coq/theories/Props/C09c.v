(* C09 (continued) — idle expiry over whole HISTORIES: the gap abstraction of Props/C09.v
   ([survives] / [gaps_below] over a list of instants) tied to [run].

   Setting.  Browser b's stored session names U (non-empty) and carries a stamp that reads t0
   ([stamped b U t0 w0]).  In the history l, b's own requests all go to application routes whose stack
   has the expire middleware in front and no remember middleware, at times zdec can print, and nobody
   edits b's session jar by hand ([b_app_history b l]); everything else is arbitrary: other browsers'
   requests on any route (logins, registrations, 2FA, logouts), administrative calls, seeds, backend
   faults, edits of other jars and of b's cookie jar.  Every request of b got a response
   ([answered]: a response that is never written flushes no session event, so neither the refreshed
   stamp nor the expiry would reach the store - c09_step_expired / c09_step_fresh say the same per
   step).  The application did not whitelist the user-id key.

   Then, with [b_times b l] = the times of b's requests in order:
     the identity is still in b's session after l  <->  every gap of t0 :: b_times b l is < ExpireAfter,
   when it is, it is still U and the stamp is the time of b's last request; when one gap is ExpireAfter
   or more the identity is gone at the end whatever b asks later.  Total elapsed time does not matter.

   Hypotheses kept from the step theorems: uid not whitelisted; remember middleware absent from b's
   stacks (the step theorem's alternative "or no remember cookie" is not carried through histories:
   it would need the cookie jar's invariance under anonymous application requests). *)
From AB Require Import World.Step World.Exec Base.TextProofs Proofs.ExpireProofs Proofs.HistoryProofs Proofs.History2.
Open Scope Z_scope.

Theorem c09_b_app_history_reading : forall b l,
  b_app_history b l <->
  Forall (fun ao => match fst ao with
    | AReq req => q_browser req = b ->
        (exists full tf fr lk c, q_route req = RApp full tf fr lk c false true) /\ Z.abs (o_now (snd ao)) < 10 ^ 40
    | APlant b' _ _ => b' <> b
    | ASetJar false b' _ => b' <> b
    | _ => True
    end) l.
Proof. reflexivity. Qed.
Print Assumptions c09_b_app_history_reading.

Theorem c09_b_times_reading : forall b l,
  b_times b l = flat_map (fun ao => match fst ao with
                                    | AReq req => if beqb (q_browser req) b then [o_now (snd ao)] else []
                                    | _ => [] end) l.
Proof. reflexivity. Qed.
Print Assumptions c09_b_times_reading.

Theorem c09_stamped_reading : forall b U t w,
  stamped b U t w <->
  alookup k_uid (jar_get b (w_sess w)) = Some U /\ bempty U = false /\
  exists ds, alookup k_last_action (jar_get b (w_sess w)) = Some ds /\ zparse ds = Some t.
Proof. reflexivity. Qed.
Print Assumptions c09_stamped_reading.

Theorem c09_answered_reading : forall C cfg b w a O l,
  answered C cfg b w ((a, O) :: l) <->
  (forall req, a = AReq req -> q_browser req = b -> ob_resp (snd (step C cfg w a O)) <> None) /\
  answered C cfg b (fst (step C cfg w a O)) l.
Proof. exact answered_reading. Qed.
Print Assumptions c09_answered_reading.

(* THE THEOREM *)
Theorem c09_history_survives_iff_gaps : forall C cfg b l w U t0,
  bmem k_uid (c_whitelist cfg) = false ->
  stamped b U t0 w -> b_app_history b l -> answered C cfg b w l ->
  (ahas k_uid (jar_get b (w_sess (fst (run C cfg w l)))) = true <->
   gaps_below (c_expire_after cfg) t0 (b_times b l)).
Proof. exact history_survives_iff_gaps. Qed.
Print Assumptions c09_history_survives_iff_gaps.

(* the two directions with what else is known at the end *)
Theorem c09_history_survivor : forall C cfg b l w U t0,
  bmem k_uid (c_whitelist cfg) = false ->
  stamped b U t0 w -> b_app_history b l -> answered C cfg b w l ->
  gaps_below (c_expire_after cfg) t0 (b_times b l) ->
  stamped b U (last (b_times b l) t0) (fst (run C cfg w l)).
Proof. exact history_survivor_lemma. Qed.
Print Assumptions c09_history_survivor.

Theorem c09_history_expired : forall C cfg b l w U t0,
  bmem k_uid (c_whitelist cfg) = false ->
  stamped b U t0 w -> b_app_history b l -> answered C cfg b w l ->
  ~ gaps_below (c_expire_after cfg) t0 (b_times b l) ->
  alookup k_uid (jar_get b (w_sess (fst (run C cfg w l)))) = None.
Proof. exact history_expired_lemma. Qed.
Print Assumptions c09_history_expired.

(* the same in the executable form of the abstraction: [survives] replays the middleware's decision *)
Theorem c09_history_survives : forall C cfg b, bmem k_uid (c_whitelist cfg) = false ->
  forall l w U t0, stamped b U t0 w -> b_app_history b l -> answered C cfg b w l ->
  (survives (c_expire_after cfg) t0 (b_times b l) = true ->
     stamped b U (last (b_times b l) t0) (fst (run C cfg w l))) /\
  (survives (c_expire_after cfg) t0 (b_times b l) = false ->
     alookup k_uid (jar_get b (w_sess (fst (run C cfg w l)))) = None).
Proof. exact history_expiry_lemma. Qed.
Print Assumptions c09_history_survives.

(* once gone, the identity does not come back through b's application requests *)
Theorem c09_history_anonymous_stays : forall C cfg b l w,
  b_app_history b l -> alookup k_uid (jar_get b (w_sess w)) = None ->
  alookup k_uid (jar_get b (w_sess (fst (run C cfg w l)))) = None.
Proof. exact anonymous_stays. Qed.
Print Assumptions c09_history_anonymous_stays.

(* both outcomes occur (executable crypto, computed): ExpireAfter = 600, stamp 1000.
   b1 asks at 1100 and 1600 while b2 logs in and an administrator locks somebody: alive.
   b1 asks at 1100, 1700, 1750: the gap 1100 -> 1700 is exactly ExpireAfter: gone, and stays gone. *)
Example c09_history_nonvacuous :
  bmem k_uid (c_whitelist (hx_cfg false)) = false /\ c_expire_after (hx_cfg false) = 600 /\
  stamped ex_b hx_pid 1000 ex_w0 /\
  (b_app_history ex_b ex_alive /\ answered XC (hx_cfg false) ex_b ex_w0 ex_alive /\
   b_times ex_b ex_alive = [1100; 1600] /\
   ahas k_uid (jar_get ex_b (w_sess (fst (run XC (hx_cfg false) ex_w0 ex_alive)))) = true) /\
  (b_app_history ex_b ex_dead /\ answered XC (hx_cfg false) ex_b ex_w0 ex_dead /\
   b_times ex_b ex_dead = [1100; 1700; 1750] /\
   ahas k_uid (jar_get ex_b (w_sess (fst (run XC (hx_cfg false) ex_w0 ex_dead)))) = false).
Proof. exact ex_witness. Qed.
Print Assumptions c09_history_nonvacuous.
