(* C16 — (a) and (c) on the model, for /login, with no backend faults and every module loaded
   at most once.  [view h] is what the client can observe of a handler run: the response with
   the client-state changes flushed with it, and the session / cookie events recorded. *)
From AB Require Import World.Handlers Proofs.MonadInv Proofs.SameView Proofs.SameView2.
Open Scope Z_scope.

(* (c) the same login request run from a storage that does not hold the identifier (ha) and
   from one that holds it with a different password (hb), the failed attempt not locking the
   account: both runs succeed and the client observes the same thing *)
Theorem c16_login_unknown_vs_wrong : forall E, o_faults (e_O E) = [] -> forall ha hb ra ha' rb hb' u,
  login_post E ha = (ra, ha') -> login_post E hb = (rb, hb') ->
  h_out ha = None ->
  q_badbody (e_req E) = false -> (c_api (e_cfg E) = true -> q_meth (e_req E) <> GET) ->
  NoDup (c_mods (e_cfg E)) ->
  ulookup (aget (pid_field E) (values E)) (s_users (h_st ha)) = None ->
  ulookup (aget (pid_field E) (values E)) (s_users (h_st hb)) = Some u ->
  pwcheck (e_C E) (u_password u) (aget f_password (values E)) = false ->
  (has_mod (e_cfg E) MLock = true -> is_locked E (lock_apply E u (LFail (o_now (e_O E)))) = false) ->
  view ha = view hb ->
  ra = Ok tt /\ rb = Ok tt /\ view ha' = view hb'.
Proof. exact login_unknown_vs_wrong_view_lemma. Qed.
Print Assumptions c16_login_unknown_vs_wrong.

(* (a) a locked (and confirmed) account, the correct password: the lock redirect, whatever the
   order in which lock and confirm were loaded *)
Theorem c16_login_locked_correct : forall E, o_faults (e_O E) = [] -> forall h r h' u,
  login_post E h = (r, h') -> h_out h = None ->
  q_badbody (e_req E) = false -> (c_api (e_cfg E) = true -> q_meth (e_req E) <> GET) ->
  NoDup (c_mods (e_cfg E)) -> has_mod (e_cfg E) MLock = true ->
  ulookup (aget (pid_field E) (values E)) (s_users (h_st h)) = Some u ->
  u_confirmed u = true -> o_now (e_O E) < u_locked u ->
  pwcheck (e_C E) (u_password u) (aget f_password (values E)) = true ->
  r = Ok tt /\ view h' = lock_view E h.
Proof. exact login_locked_view_correct. Qed.
Print Assumptions c16_login_locked_correct.

(* (a) the same account, a wrong password: the very same lock redirect (the attempt counter in
   storage moves, which the client does not see) *)
Theorem c16_login_locked_wrong : forall E, o_faults (e_O E) = [] -> forall h r h' u,
  login_post E h = (r, h') -> h_out h = None ->
  q_badbody (e_req E) = false -> (c_api (e_cfg E) = true -> q_meth (e_req E) <> GET) ->
  NoDup (c_mods (e_cfg E)) -> has_mod (e_cfg E) MLock = true -> 0 < c_lock_duration (e_cfg E) ->
  ulookup (aget (pid_field E) (values E)) (s_users (h_st h)) = Some u ->
  o_now (e_O E) < u_locked u ->
  pwcheck (e_C E) (u_password u) (aget f_password (values E)) = false ->
  r = Ok tt /\ view h' = lock_view E h.
Proof. exact login_locked_view_wrong. Qed.
Print Assumptions c16_login_locked_wrong.
