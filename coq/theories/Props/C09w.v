(* C09 for the wrapped deployment ([wstep]).  The statements of Props/C09b.v are about application
   routes (RApp), which carry their own stack and are not wrapped a second time: for them
   [serve_top = serve] by definition, hence [wstep = step] (c09w_wstep_app), and the theorems carry
   over word for word. *)
From AB Require Import World.Step Base.TextProofs Proofs.ExpireProofs Proofs.StepLift2 Proofs.Wrapped Proofs.Wrapped2.
Open Scope Z_scope.

Theorem c09w_wstep_app : forall C cfg w req O full tf fr l c r e,
  q_route req = RApp full tf fr l c r e -> wstep C cfg w (AReq req) O = step C cfg w (AReq req) O.
Proof. exact wstep_app. Qed.
Print Assumptions c09w_wstep_app.

Theorem c09w_step_expired : forall C cfg w req O full tf fr l c r ds d,
  q_route req = RApp full tf fr l c r true ->
  let b := q_browser req in
  let j := jar_get b (w_sess w) in
  let E := mkEnv C cfg O req (jar_get b (w_cook w)) j in
  ahas k_uid j = true -> alookup k_last_action j = Some ds -> zparse ds = Some d ->
  d + c_expire_after cfg <= o_now O ->
  bmem k_uid (c_whitelist cfg) = false ->
  (r = false \/ alookup k_rm (jar_get b (w_cook w)) = None) ->
  let w' := fst (wstep C cfg w (AReq req) O) in
  let o := snd (wstep C cfg w (AReq req) O) in
  let W := bsplit ","%byte (bjoin ","%byte (c_whitelist cfg)) in
  let j' := jar_get b (w_sess w') in
  w_st w' = w_st w /\ ob_err o = false /\ ob_panic o = false /\
  (ob_resp o = Some (refusal_response E false fr) \/
   (ob_resp o = None /\ fr = RespRedirect /\ c_api cfg = true /\ exists n ek, fault_at n (o_faults O) = Some ek)) /\
  (ob_resp o <> None ->
     j' = apply_events j ([DelAll (bjoin ","%byte (c_whitelist cfg)); Del k_uid; Del k_last_action] ++ refusal_sev E fr) /\
     (forall k, ahas k j' = true -> (bmem k W = true /\ k <> k_uid /\ k <> k_last_action) \/ k = k_flash_err) /\
     (forall k, bmem k W = true -> k <> k_uid -> k <> k_last_action -> k <> k_flash_err ->
        alookup k j' = alookup k j) /\
     alookup k_uid j' = None /\ alookup k_last_action j' = None /\
     jar_get b (w_cook w') = jar_get b (w_cook w)) /\
  (ob_resp o = None -> w_sess w' = w_sess w /\ w_cook w' = w_cook w).
Proof. exact wstep_expired_stamp_lemma. Qed.
Print Assumptions c09w_step_expired.

Theorem c09w_step_fresh : forall C cfg w req O full tf fr l c r ds d,
  q_route req = RApp full tf fr l c r true ->
  let b := q_browser req in
  let j := jar_get b (w_sess w) in
  bempty (aget k_uid j) = false -> alookup k_last_action j = Some ds -> zparse ds = Some d ->
  o_now O < d + c_expire_after cfg ->
  let w' := fst (wstep C cfg w (AReq req) O) in
  let o := snd (wstep C cfg w (AReq req) O) in
  let j' := jar_get b (w_sess w') in
  (ob_resp o <> None ->
     alookup k_last_action j' = Some (zdec (o_now O)) /\
     alookup k_uid j' = alookup k_uid j /\
     (forall k, k <> k_last_action -> k <> k_flash_err -> alookup k j' = alookup k j) /\
     (exists n, j' = apply_events j (Put k_last_action (zdec (o_now O)) :: repeat (Put k_flash_err v_flash) n)) /\
     jar_get b (w_cook w') = jar_get b (w_cook w)) /\
  (ob_resp o = None -> w_sess w' = w_sess w /\ w_cook w' = w_cook w).
Proof. exact wstep_fresh_stamp_lemma. Qed.
Print Assumptions c09w_step_fresh.
