(* C06 — after a password change the old password is dead: the stored hash verifies the new
   password and no other, and the account's remember tokens are dropped. *)
From AB Require Import World.Handlers World.Step Proofs.MonadInv Proofs.StoreLogic Proofs.TokenProofs.

(* a stored hash of p verifies p and rejects every other password (bcrypt's 72-byte domain) *)
Theorem c06_password_change : forall (C : crypto), crypto_laws C ->
  (forall p q, pw_dom p -> pw_dom q -> p <> q -> pwcheck C (pwhash C p) q = false) /\
  (forall p, pw_dom p -> pwcheck C (pwhash C p) p = true).
Proof. exact password_change_lemma. Qed.
Print Assumptions c06_password_change.

(* Authboss.UpdatePassword that returns nil: the record of pid now carries the hash of pw and
   nothing else about it changed, pid has no remember tokens left, and nobody else's record or
   tokens changed.  [keyed]: records are filed under their own pid. *)
Theorem c06_admin_update_password : forall (C : crypto) cfg O pid pw h h',
  keyed (h_st h) ->
  admin C cfg O (AUpdatePassword pid pw) h = (Ok tt, h') ->
  pw_dom pw /\
  exists u, ulookup pid (s_users (h_st h)) = Some u /\
    ulookup pid (s_users (h_st h')) = Some (u <| u_password := pwhash C pw |>) /\
    rmlookup pid (s_rm (h_st h')) = [] /\
    (forall p, p <> pid ->
       ulookup p (s_users (h_st h')) = ulookup p (s_users (h_st h)) /\
       rmlookup p (s_rm (h_st h')) = rmlookup p (s_rm (h_st h))).
Proof. exact admin_update_password_lemma. Qed.
Print Assumptions c06_admin_update_password.

(* recover end that changed the user table: the stored hash of that account verifies the
   submitted password and no other one (final state, all event hooks included) *)
Theorem c06_recover_sets_password : forall (E : env) h r h',
  crypto_laws (e_C E) ->
  recover_end_post E h = (r, h') -> s_users (h_st h') <> s_users (h_st h) ->
  exists raw u su,
    b64url_dec (aget f_token (values E)) = Some raw /\
    ufind (fun u => beqb (u_rsel u) (selector_of E raw)) (s_users (h_st h)) = Some u /\
    ulookup (u_pid u) (s_users (h_st h')) = Some su /\
    u_password su = pwhash (e_C E) (aget f_password (values E)) /\
    pwcheck (e_C E) (u_password su) (aget f_password (values E)) = true /\
    (forall q, pw_dom q -> q <> aget f_password (values E) -> pwcheck (e_C E) (u_password su) q = false).
Proof. exact recover_sets_password_lemma. Qed.
Print Assumptions c06_recover_sets_password.
