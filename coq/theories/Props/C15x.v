(* C15 for the wrapped deployment ([wstep]), continued: the two consequences of Props/C15b.v
   (c15_refused_value_ignored, c15_supplied_value_safe) for the router as mounted. *)
From AB Require Import World.Step Model.Redirect Spec.Browser Proofs.RedirectProofs Proofs.StepAll Proofs.Wrapped
  Proofs.Wrapped2.

(* a supplied value the guard refuses is ignored in favour of a configured target *)
Theorem c15_wstep_refused_value_ignored : forall C cfg w req O loc,
  is_local_redirect (supplied_redir cfg req) = false ->
  redirects_to (snd (wstep C cfg w (AReq req) O)) loc ->
  In loc (fixed_targets cfg req) \/ route_extra cfg req (jar_get (q_browser req) (w_sess w)) loc.
Proof. exact c15_wstep_refused_value_ignored_lemma. Qed.
Print Assumptions c15_wstep_refused_value_ignored.

(* a redirect of [wstep] that is not one of the configured ones (nor the OAuth2 extra of the route) is
   the supplied value, the flow is one of the four that honour it, the guard accepted it, and a
   browser resolves it - as sent, after net/http's escaping, and after http.Redirect's rewrite - on
   the same site *)
Theorem c15_wstep_supplied_value_safe : forall C cfg w req O loc,
  redirects_to (snd (wstep C cfg w (AReq req) O)) loc ->
  ~ In loc (fixed_targets cfg req) -> ~ route_extra cfg req (jar_get (q_browser req) (w_sess w)) loc ->
  honours_redir req = true /\ loc = supplied_redir cfg req /\ is_local_redirect loc = true /\
  same_site loc = true /\ same_site (hex_escape_non_ascii loc) = true /\ same_site (http_redirect_rewrite loc) = true.
Proof. exact c15_wstep_supplied_value_safe_lemma. Qed.
Print Assumptions c15_wstep_supplied_value_safe.

(* every action of [wstep]: a redirect answers a request, and is a configured target, the route's
   OAuth2 extra, or the accepted supplied value of one of the four flows *)
Theorem c15_wstep_redirect_classified : forall C cfg w a O loc,
  redirects_to (snd (wstep C cfg w a O)) loc ->
  exists req, a = AReq req /\
    (In loc (fixed_targets cfg req) \/ route_extra cfg req (jar_get (q_browser req) (w_sess w)) loc \/
     (honours_redir req = true /\ loc = supplied_redir cfg req /\ is_local_redirect loc = true /\
      same_site loc = true /\ same_site (hex_escape_non_ascii loc) = true /\ same_site (http_redirect_rewrite loc) = true)).
Proof. exact c15_wstep_any_action_supplied_value_safe_lemma. Qed.
Print Assumptions c15_wstep_redirect_classified.
