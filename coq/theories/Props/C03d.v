(* C03 — locked or unconfirmed accounts cannot complete a login (continued): the property over whole
   HISTORIES.

   Props/C03.v, C03b.v state handler by handler that every interactive login path is refused for a
   locked account (lock loaded) and - except the OAuth2 callback, the known finding
   c03_oauth2_unconfirmed_refuted - for an unconfirmed one (confirm loaded).  Props/C01d.v gives for
   every identity in every session jar after every history the LAST step at which it appeared.
   Here the two are combined (Proofs/History3.v): at that issuing step, the record stored for U in
   the world the step started from was not locked at the step's time and was confirmed - with two
   exceptions that the theorem names:
     - the OAuth2 callback asks only the lock question, and asks it about the record filed under the
       provider-scoped pid of the provider's user id (U is built from the u_ouid of that record);
     - an application request carrying U's remember cookie: remember.Middleware asks neither
       question (c03_remember_cookie_not_refused below is a computed witness; the lock / confirm
       middlewares behind it then refuse to pass the request, Props/C03c.v, but the session is
       issued).

   Vocabulary:
     gate_passed cfg now st U   the record stored under U in st, if there is one (none at U's
                                registration), is not locked at [now] when the lock module is loaded
                                and is confirmed when the confirm module is loaded: the negation of
                                [must_refuse] of c03_*_refused;
     oauth2_issued, remember_issued   the two exceptions, with the guard of
                                c01_session_only_against_credential;
     filed st                   one entry per key, every record under its own pid (invariant of
                                [step], c04_step_keeps_filed; true of the empty world). *)
From AB Require Import World.Step World.Exec Proofs.MonadInv Proofs.Guards Proofs.Guards2 Proofs.Guards3 Proofs.StepAll
  Proofs.NoLogin Proofs.TwoFactorProofs Proofs.TwoFactor2 Proofs.HistoryProofs Proofs.History3.
Open Scope Z_scope.

Theorem c03_gate_passed_reading : forall cfg now st U,
  gate_passed cfg now st U <->
  (forall u, ulookup U (s_users st) = Some u ->
     (has_mod cfg MLock = true -> u_locked u <= now) /\ (has_mod cfg MConfirm = true -> u_confirmed u = true)).
Proof. reflexivity. Qed.
Print Assumptions c03_gate_passed_reading.

(* it is the negation of the hypothesis of the handler theorems *)
Theorem c03_gate_passed_of_not_refused : forall C cfg O req ck ss st U,
  (forall u, ulookup U (s_users st) = Some u -> ~ must_refuse (mkEnv C cfg O req ck ss) u) ->
  gate_passed cfg (o_now O) st U.
Proof. exact gate_passed_of_not_refused. Qed.
Print Assumptions c03_gate_passed_of_not_refused.

Theorem c03_oauth2_issued_reading : forall C cfg w O req U,
  oauth2_issued C cfg w O req U <->
  (let E := mkEnv C cfg O req (jar_get (q_browser req) (w_cook w)) (jar_get (q_browser req) (w_sess w)) in
   exists prov, q_route req = ROAuthCallback prov /\ q_meth req = GET /\ has_mod cfg MOAuth2 = true /\
     bmem prov (c_providers cfg) = true /\ g_oauth2 E prov (w_st w) U /\
     let opid := make_oauth2_pid prov (pa_uid (o_provider O)) in
     (has_mod cfg MLock = true ->
        forall su, ulookup opid (s_users (w_st w)) = Some su -> u_locked su <= o_now O) /\
     (U = opid \/ exists su, ulookup opid (s_users (w_st w)) = Some su /\ U = make_oauth2_pid prov (u_ouid su))).
Proof. reflexivity. Qed.
Print Assumptions c03_oauth2_issued_reading.

Theorem c03_remember_issued_reading : forall C cfg w O req U,
  remember_issued C cfg w O req U <->
  (let E := mkEnv C cfg O req (jar_get (q_browser req) (w_cook w)) (jar_get (q_browser req) (w_sess w)) in
   exists full tf fr l c e, q_route req = RApp full tf fr l c true e /\ g_remember E (w_st w) U).
Proof. reflexivity. Qed.
Print Assumptions c03_remember_issued_reading.

(* ---- the two validation pages, any session ------------------------------------------------------ *)
(* c03_totp_validate_refused / c03_sms_validate_refused (Props/C03b.v) speak about a browser whose
   session carries no uid.  As a guard, for every session: whoever the page finds (the session's
   user, else the account parked under the pending key), it writes his identity only if neither
   veto applies to him *)
Theorem c03_totp_validate_gate : forall E h,
  guarded (fun U => exists u, user_source2 E k_totp_pending h u /\ u_pid u = U /\
                      (has_mod (e_cfg E) MLock = true -> u_locked u <= o_now (e_O E)) /\
                      (has_mod (e_cfg E) MConfirm = true -> u_confirmed u = true))
          (totp_validate_post E) h.
Proof. exact totp_validate_post_gate. Qed.
Print Assumptions c03_totp_validate_gate.

Theorem c03_sms_validate_gate : forall E h,
  guarded (fun U => exists u, user_source2 E k_sms_pending h u /\ u_pid u = U /\
                      (has_mod (e_cfg E) MLock = true -> u_locked u <= o_now (e_O E)) /\
                      (has_mod (e_cfg E) MConfirm = true -> u_confirmed u = true))
          (sms_validator_post E SPValidate) h.
Proof. exact sms_validator_post_gate. Qed.
Print Assumptions c03_sms_validate_gate.

(* ---- one step: the *_refused theorems on [step] ---------------------------------------------------- *)
Theorem c03_step_login_refused : forall C cfg w req O U u,
  q_route req = RLogin -> q_meth req = POST -> has_mod cfg MAuth = true ->
  let E := mkEnv C cfg O req (jar_get (q_browser req) (w_cook w)) (jar_get (q_browser req) (w_sess w)) in
  ulookup (aget (pid_field E) (values E)) (s_users (w_st w)) = Some u -> must_refuse E u ->
  alookup k_uid (jar_get (q_browser req) (w_sess (fst (step C cfg w (AReq req) O)))) = Some U ->
  alookup k_uid (jar_get (q_browser req) (w_sess w)) <> Some U -> False.
Proof. exact step_login_refused. Qed.
Print Assumptions c03_step_login_refused.

Theorem c03_step_otp_login_refused : forall C cfg w req O U u,
  q_route req = ROtpLogin -> q_meth req = POST -> has_mod cfg MOtp = true ->
  let E := mkEnv C cfg O req (jar_get (q_browser req) (w_cook w)) (jar_get (q_browser req) (w_sess w)) in
  ulookup (aget (pid_field E) (values E)) (s_users (w_st w)) = Some u -> must_refuse E u ->
  alookup k_uid (jar_get (q_browser req) (w_sess (fst (step C cfg w (AReq req) O)))) = Some U ->
  alookup k_uid (jar_get (q_browser req) (w_sess w)) <> Some U -> False.
Proof. exact step_otp_refused. Qed.
Print Assumptions c03_step_otp_login_refused.

Theorem c03_step_recover_login_refused : forall C cfg w req O U raw u,
  q_route req = RRecoverEnd -> q_meth req = POST -> has_mod cfg MRecover = true ->
  let E := mkEnv C cfg O req (jar_get (q_browser req) (w_cook w)) (jar_get (q_browser req) (w_sess w)) in
  b64url_dec (aget f_token (values E)) = Some raw ->
  ufind (fun u => beqb (u_rsel u) (selector_of E raw)) (s_users (w_st w)) = Some u -> must_refuse E u ->
  alookup k_uid (jar_get (q_browser req) (w_sess (fst (step C cfg w (AReq req) O)))) = Some U ->
  alookup k_uid (jar_get (q_browser req) (w_sess w)) <> Some U -> False.
Proof. exact step_recover_refused. Qed.
Print Assumptions c03_step_recover_login_refused.

Theorem c03_step_oauth2_locked_refused : forall C cfg w req O U prov su,
  q_route req = ROAuthCallback prov -> q_meth req = GET ->
  has_mod cfg MOAuth2 = true -> bmem prov (c_providers cfg) = true ->
  has_mod cfg MLock = true ->
  ulookup (make_oauth2_pid prov (pa_uid (o_provider O))) (s_users (w_st w)) = Some su ->
  o_now O < u_locked su ->
  alookup k_uid (jar_get (q_browser req) (w_sess (fst (step C cfg w (AReq req) O)))) = Some U ->
  alookup k_uid (jar_get (q_browser req) (w_sess w)) <> Some U -> False.
Proof. exact step_oauth2_locked_refused. Qed.
Print Assumptions c03_step_oauth2_locked_refused.

(* a request that newly puts U into its browser's session *)
Theorem c03_step_no_session_while_locked : forall C cfg w req O U,
  filed (w_st w) ->
  alookup k_uid (jar_get (q_browser req) (w_sess (fst (step C cfg w (AReq req) O)))) = Some U ->
  alookup k_uid (jar_get (q_browser req) (w_sess w)) <> Some U ->
  credential_shown C cfg w O req U ->
  gate_passed cfg (o_now O) (w_st w) U \/ oauth2_issued C cfg w O req U \/ remember_issued C cfg w O req U.
Proof. exact step_no_session_while_locked. Qed.
Print Assumptions c03_step_no_session_while_locked.

(* ---- histories ----------------------------------------------------------------------------------- *)
(* Any crypto, configuration, history (any actions, any oracles: storage faults included), from any
   well-filed start world.  If at the end browser b's session names U and at the start it did not,
   then there is a LAST step (a, O) at which the identity appeared, and at that step, in the world w1
   it started from and at its time o_now O,
     - EITHER the record stored for U is not locked (lock loaded) and is confirmed (confirm loaded)
       [password, one-time password, recovery token, either second-factor page; at a registration
       there is no record yet],
     - OR the step is the OAuth2 callback: the record filed under the provider-scoped pid is not
       locked (lock loaded); nothing about confirmation,
     - OR the step is an application request with U's remember cookie: nothing,
     - OR it is one of the two harness actions that write a session jar directly. *)
Theorem c03_history_no_session_while_locked : forall C cfg w0 l w' os b U,
  filed (w_st w0) ->
  run C cfg w0 l = (w', os) ->
  alookup k_uid (jar_get b (w_sess w')) = Some U ->
  alookup k_uid (jar_get b (w_sess w0)) <> Some U ->
  exists l1 a O l2 w1, l = l1 ++ (a, O) :: l2 /\ fst (run C cfg w0 l1) = w1 /\
    alookup k_uid (jar_get b (w_sess w1)) <> Some U /\
    alookup k_uid (jar_get b (w_sess (fst (step C cfg w1 a O)))) = Some U /\
    issued_at C cfg w1 a O b U /\
    (forall l2a l2b, l2 = l2a ++ l2b ->
       alookup k_uid (jar_get b (w_sess (fst (run C cfg w0 (l1 ++ (a, O) :: l2a))))) = Some U) /\
    (gate_passed cfg (o_now O) (w_st w1) U \/
     (exists req, a = AReq req /\ q_browser req = b /\ oauth2_issued C cfg w1 O req U) \/
     (exists req, a = AReq req /\ q_browser req = b /\ remember_issued C cfg w1 O req U) \/
     a = APlant b k_uid U \/
     (exists j, a = ASetJar false b j /\ alookup k_uid j = Some U)).
Proof. exact c03_history_lemma. Qed.
Print Assumptions c03_history_no_session_while_locked.

(* from the empty world with library-level actions only *)
Theorem c03_history_from_empty : forall C cfg l w' os b U,
  run C cfg empty_world l = (w', os) -> library_history l ->
  alookup k_uid (jar_get b (w_sess w')) = Some U ->
  exists l1 req O l2 w1, l = l1 ++ (AReq req, O) :: l2 /\ fst (run C cfg empty_world l1) = w1 /\
    q_browser req = b /\ credential_shown C cfg w1 O req U /\
    alookup k_uid (jar_get b (w_sess w1)) <> Some U /\
    alookup k_uid (jar_get b (w_sess (fst (step C cfg w1 (AReq req) O)))) = Some U /\
    (forall l2a l2b, l2 = l2a ++ l2b ->
      alookup k_uid (jar_get b (w_sess (fst (run C cfg empty_world (l1 ++ (AReq req, O) :: l2a))))) = Some U) /\
    (gate_passed cfg (o_now O) (w_st w1) U \/ oauth2_issued C cfg w1 O req U \/ remember_issued C cfg w1 O req U).
Proof. exact c03_history_from_empty_lemma. Qed.
Print Assumptions c03_history_from_empty.

(* the OAuth2 alternative, when the record the callback resolved carries the provider's user id
   (what NewFromOAuth2 of a consistent storer hands back) or there was none: the identity issued is
   the provider-scoped pid itself, and ITS record was not locked *)
Theorem c03_oauth2_issued_not_locked : forall C cfg w O req U,
  oauth2_issued C cfg w O req U -> has_mod cfg MLock = true ->
  (forall prov su, ulookup (make_oauth2_pid prov (pa_uid (o_provider O))) (s_users (w_st w)) = Some su ->
                   u_ouid su = pa_uid (o_provider O)) ->
  forall u, ulookup U (s_users (w_st w)) = Some u -> u_locked u <= o_now O.
Proof. exact oauth2_issued_not_locked. Qed.
Print Assumptions c03_oauth2_issued_not_locked.

(* the remember alternative cannot be dropped (executable crypto instance, computed): lock and
   confirm loaded, the account locked until 5000 and not confirmed, a request at time 1000 to an
   application route behind remember + lock + confirm middlewares with a valid remember cookie: the
   lock middleware answers with its failure redirect, but the session now names the account *)
Theorem c03_remember_cookie_not_refused :
  has_mod h3r_cfg MLock = true /\ has_mod h3r_cfg MConfirm = true /\
  ulookup h3_pid (s_users (w_st h3r_world)) = Some h3r_user /\
  o_now h3r_oracle < u_locked h3r_user /\ u_confirmed h3r_user = false /\
  alookup k_uid (jar_get (bs "b1") (w_sess h3r_world)) = None /\
  alookup k_uid (jar_get (bs "b1") (w_sess (fst (step XC h3r_cfg h3r_world (AReq h3r_req) h3r_oracle)))) = Some h3_pid /\
  ob_resp (snd (step XC h3r_cfg h3r_world (AReq h3r_req) h3r_oracle)) = Some (RespRedirect302 (bs "/no/lock")).
Proof. exact h3r_witness. Qed.
Print Assumptions c03_remember_cookie_not_refused.
