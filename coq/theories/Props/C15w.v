(* C15 for the wrapped deployment: every redirect of every request of [wstep] goes to an allowed
   location - the SAME [allowed_location] as for [step] (Props/C15b.v): the wrapper writes no
   response, and the session view it hands on keeps the oauth2_params value. *)
From AB Require Import World.Step Model.Redirect Spec.Browser Proofs.RedirectProofs Proofs.StepAll Proofs.Wrapped.

Theorem c15_wstep_redirects_local : forall C cfg w req O loc,
  redirects_to (snd (wstep C cfg w (AReq req) O)) loc ->
  allowed_location cfg req (jar_get (q_browser req) (w_sess w)) loc.
Proof. exact c15_wstep_redirects_local_lemma. Qed.
Print Assumptions c15_wstep_redirects_local.

Theorem c15_only_requests_redirect_w : forall C cfg w a O loc,
  redirects_to (snd (wstep C cfg w a O)) loc ->
  exists req, a = AReq req /\ allowed_location cfg req (jar_get (q_browser req) (w_sess w)) loc.
Proof. exact c15_only_requests_redirect_w_lemma. Qed.
Print Assumptions c15_only_requests_redirect_w.

Theorem c15_wstep_same_site : forall C cfg w req O loc,
  mount_ok (c_mount cfg) = true ->
  (forall p, q_route req <> ROAuthStart p) ->
  redirects_to (snd (wstep C cfg w (AReq req) O)) loc -> same_site loc = true.
Proof. exact c15_wstep_same_site_lemma. Qed.
Print Assumptions c15_wstep_same_site.

(* handler level *)
Theorem c15_serve_top_responses : forall E h r h',
  serve_top E h = (r, h') ->
  outP (resp_ok (e_cfg E) (e_req E) (honours_redir (e_req E)) (route_extra (e_cfg E) (e_req E) (e_sess E))) h ->
  outP (resp_ok (e_cfg E) (e_req E) (honours_redir (e_req E)) (route_extra (e_cfg E) (e_req E) (e_sess E))) h'.
Proof. exact resp_serve_top. Qed.
Print Assumptions c15_serve_top_responses.
