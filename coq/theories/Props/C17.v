(* C17 — storage shape of the secret-writing paths (partial: the "substring of real bytes" half
   and the log stream are decided by the harness's scan). *)
From AB Require Import World.Step Proofs.MonadInv Proofs.StoreLogic Proofs.OneTimeProofs Proofs.TokenProofs.

(* a recovery that changes storage stores pwhash(new password) — never the password — and
   clears selector and verifier *)
Theorem c17_recover_stores_hash : forall (E : env) h r h',
  recover_end_post E h = (r, h') -> s_users (h_st h') <> s_users (h_st h) ->
  exists raw u su,
    b64url_dec (aget f_token (values E)) = Some raw /\ length raw = 64%nat /\
    ufind (fun u => beqb (u_rsel u) (selector_of E raw)) (s_users (h_st h)) = Some u /\
    ~ (u_rexp u < o_now (e_O E))%Z /\
    b64std_dec (u_rver u) = Some (sha (e_C E) (half2 raw)) /\
    ulookup (u_pid u) (s_users (h_st h')) = Some su /\
    u_password su = pwhash (e_C E) (aget f_password (values E)) /\ u_rsel su = [] /\ u_rver su = [] /\
    (forall p, p <> u_pid u -> ulookup p (s_users (h_st h')) = ulookup p (s_users (h_st h))).
Proof. exact recover_accept_lemma. Qed.
Print Assumptions c17_recover_stores_hash.

(* a generated one-time password reaches storage only as base64(sha(otp)) *)
Theorem c17_otp_stored_hashed : forall (E : env) h u r h',
  h_cuser h = Some u -> otp_add_post E h = (r, h') ->
  let cur := split_otps (u_otps u) in
  ((5 <= length cur)%nat -> h_st h' = h_st h) /\
  ((length cur < 5)%nat ->
     h_st h' = h_st h \/
     exists secret,
       let x := b64std_enc (sha (e_C E) (otp_format secret)) in
       let u' := u <| u_otps := join_otps (cur ++ [x]) |> in
       h_st h' = h_st h <| s_users := uput (u_pid u) u' (s_users (h_st h)) |> /\
       (length (split_otps (u_otps u')) <= S (length cur))%nat /\
       (sha (e_C E) (otp_format secret) <> [] -> split_otps (u_otps u') = cur ++ [x])).
Proof. exact otp_cap_lemma. Qed.
Print Assumptions c17_otp_stored_hashed.

(* UpdatePassword stores pwhash(password) and nothing else changes for anybody else *)
Theorem c17_update_password_stores_hash : forall (C : crypto) cfg O pid pw h h',
  keyed (h_st h) ->
  admin C cfg O (AUpdatePassword pid pw) h = (Ok tt, h') ->
  pw_dom pw /\
  exists u, ulookup pid (s_users (h_st h)) = Some u /\
    ulookup pid (s_users (h_st h')) = Some (u <| u_password := pwhash C pw |>) /\
    rmlookup pid (s_rm (h_st h')) = [] /\
    (forall p, p <> pid ->
       ulookup p (s_users (h_st h')) = ulookup p (s_users (h_st h)) /\
       rmlookup p (s_rm (h_st h')) = rmlookup p (s_rm (h_st h))).
Proof. exact admin_update_password_lemma. Qed.
Print Assumptions c17_update_password_stores_hash.
