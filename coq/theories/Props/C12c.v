(* C12 (continued) — one-time passwords, recovery codes and texted codes work exactly once, as
   two-run theorems: a first run accepts the credential; a second run that submits the same value
   (any other environment with the same crypto, any browser / session / oracle) from the storage
   the first run left is refused. *)
From AB Require Import World.Handlers World.Step Proofs.Neutral Proofs.MonadInv Proofs.Guards Proofs.Guards3 Proofs.StoreLogic
  Proofs.TwoFactorProofs Proofs.OnceProofs.

(* ---- (a) one-time password ---- *)
(* First run: /otp/login wrote the identity U (c12_otp_consumed_before_session: U is the submitted pid,
   the submitted value x hashed to a stored one-time password of U, which was removed before).
   Second run: submits pid U and the same x.  Its only session events are flash messages (no identity,
   no pending second factor is parked), and every stored record is what it was up to the lock
   counters (the failed attempt is counted), in particular U's list of one-time passwords.
   Hypotheses: records are filed under their own pid ([keyed]); at most ONE stored entry of U decoded
   to sha(x) ([otp_hit]) - of two copies the second stays usable.  No crypto law is needed. *)
Theorem c12_otp_once : forall E1 h1 r1 h1' ls U E2 h2 r2 h2',
  keyed (h_st h1) ->
  otp_login_post E1 h1 = (r1, h1') -> h_sev h1' = h_sev h1 ++ ls -> In (Put k_uid U) ls ->
  (forall u, ulookup U (s_users (h_st h1)) = Some u ->
     (length (filter (otp_hit (sha (e_C E1) (aget f_password (values E1)))) (split_otps (u_otps u))) <= 1)%nat) ->
  e_C E2 = e_C E1 -> aget (pid_field E2) (values E2) = U ->
  aget f_password (values E2) = aget f_password (values E1) -> h_st h2 = h_st h1' ->
  otp_login_post E2 h2 = (r2, h2') ->
  (exists ls2, h_sev h2' = h_sev h2 ++ ls2 /\ Forall flash_only ls2) /\
  (forall p u, ulookup p (s_users (h_st h2)) = Some u ->
     exists su, ulookup p (s_users (h_st h2')) = Some su /\ upto_lock u su).
Proof. exact otp_once_lemma. Qed.
Print Assumptions c12_otp_once.

(* single run: a value that matches none of the stored one-time passwords of the submitted pid *)
Theorem c12_otp_login_refused : forall E h r h',
  keyed (h_st h) ->
  otp_login_post E h = (r, h') ->
  (forall u i, ulookup (aget (pid_field E) (values E)) (s_users (h_st h)) = Some u ->
     otp_match (sha (e_C E) (aget f_password (values E))) (split_otps (u_otps u)) 0%nat <> Some (Some i)) ->
  (exists ls, h_sev h' = h_sev h ++ ls /\ Forall flash_only ls) /\
  (forall p u, ulookup p (s_users (h_st h)) = Some u ->
     exists su, ulookup p (s_users (h_st h')) = Some su /\ upto_lock u su).
Proof. exact otp_login_refused_lemma. Qed.
Print Assumptions c12_otp_login_refused.

(* the list-level fact: after removing the entry the matcher found, what is read back from the
   stored string has no entry that decodes to the submitted hash *)
Theorem c12_otp_consumed_no_match : forall inp s i j,
  otp_match inp (split_otps s) 0%nat = Some (Some i) ->
  (length (filter (otp_hit inp) (split_otps s)) <= 1)%nat ->
  otp_match inp (split_otps (join_otps (otp_remove (split_otps s) i))) 0%nat <> Some (Some j).
Proof. exact otp_consumed_no_match. Qed.
Print Assumptions c12_otp_consumed_no_match.

(* ---- (b) recovery code at the 2FA validation pages ---- *)
(* [validate2fa KTotp] is /2fa/totp/validate, [validate2fa KSms] is /2fa/sms/validate (POST).
   With a recovery code submitted, at the END of the request (every event hook included): either only
   uid-neutral session events were appended, or the code was one of the stored ones of the user u0 the
   page found, every identity written is u0's pid, the record stored under that pid carries the list
   without the used code (up to the lock counters), and nobody else's record changed. *)
Theorem c12_recovery_code_consumed : forall (E : env) k h r h',
  validate2fa k E h = (r, h') -> bempty (aget f_recovery_code (values E)) = false ->
  (exists ls, h_sev h' = h_sev h ++ ls /\ Forall sess_neutral ls) \/
  (exists u0 rest,
     user_source E (pending_key k) h u0 /\
     use_recovery_code E (decode_codes (u_recovery u0)) (aget f_recovery_code (values E)) = Some rest /\
     (exists ls, h_sev h' = h_sev h ++ ls /\ Forall (uid_guard (eq (u_pid u0))) ls) /\
     (exists su, ulookup (u_pid u0) (s_users (h_st h')) = Some su /\ upto_lock (consumed u0 rest) su) /\
     (forall p, p <> u_pid u0 -> ulookup p (s_users (h_st h')) = ulookup p (s_users (h_st h)))).
Proof. exact validate2fa_rc_cases. Qed.
Print Assumptions c12_recovery_code_consumed.

(* single run, at the start of a request (no context user): if the record stored under U verifies the
   submitted recovery code against none of its stored hashes, neither page writes the identity U *)
Theorem c12_recovery_code_refused : forall (E : env) k h r h' U ls,
  keyed (h_st h) -> h_cuser h = None -> bempty (aget f_recovery_code (values E)) = false ->
  (forall u, ulookup U (s_users (h_st h)) = Some u ->
     use_recovery_code E (decode_codes (u_recovery u)) (aget f_recovery_code (values E)) = None) ->
  validate2fa k E h = (r, h') -> h_sev h' = h_sev h ++ ls -> ~ In (Put k_uid U) ls.
Proof. exact validate2fa_rc_refused. Qed.
Print Assumptions c12_recovery_code_refused.

(* Two runs.  First: page k1, given the recovery code c, wrote the identity U.  Second: page k2, the
   same c, from the storage the first run left, at the start of a request: it does not write U.
   Hypotheses: [crypto_laws]; [keyed]; the stored recovery list of U read back as the hashes of
   distinct plain codes within bcrypt's domain, as is c (the hypotheses of
   c12_recovery_code_not_reusable); the empty string does not verify c - when the last code is used the
   stored value is the empty string, which reads back as one empty entry (bcrypt rejects it). *)
Theorem c12_recovery_code_once : forall k1 k2 E1 h1 r1 h1' ls U plain E2 h2 r2 h2' ls2,
  crypto_laws (e_C E1) -> keyed (h_st h1) -> h_cuser h1 = None ->
  validate2fa k1 E1 h1 = (r1, h1') -> h_sev h1' = h_sev h1 ++ ls -> In (Put k_uid U) ls ->
  bempty (aget f_recovery_code (values E1)) = false ->
  (forall u, ulookup U (s_users (h_st h1)) = Some u -> decode_codes (u_recovery u) = map (pwhash (e_C E1)) plain) ->
  NoDup plain -> Forall pw_dom plain -> pw_dom (aget f_recovery_code (values E1)) ->
  pwcheck (e_C E1) [] (aget f_recovery_code (values E1)) = false ->
  e_C E2 = e_C E1 -> aget f_recovery_code (values E2) = aget f_recovery_code (values E1) ->
  h_st h2 = h_st h1' -> h_cuser h2 = None ->
  validate2fa k2 E2 h2 = (r2, h2') -> h_sev h2' = h_sev h2 ++ ls2 ->
  ~ In (Put k_uid U) ls2.
Proof. exact recovery_code_once_lemma. Qed.
Print Assumptions c12_recovery_code_once.

(* ---- (c) the texted SMS code ---- *)
(* /2fa/sms/validate: if the request wrote an identity into the session (it accepted the texted code,
   or a recovery code), the session events it appended contain the deletion of the code, none of them
   puts a code, and so in whatever jar they are applied to the code is absent afterwards: the next
   request of that browser has no code to be compared with *)
Theorem c12_sms_code_spent : forall (E : env) h r h' ls U,
  sms_validator_post E SPValidate h = (r, h') -> h_sev h' = h_sev h ++ ls -> In (Put k_uid U) ls ->
  In (Del k_sms_secret) ls /\ Forall nosecret ls /\
  forall j, alookup k_sms_secret (apply_events j ls) = None /\ aget k_sms_secret (apply_events j ls) = [].
Proof. exact sms_code_spent_lemma. Qed.
Print Assumptions c12_sms_code_spent.

(* the next request: no code in the session and a code (no recovery code) submitted - no identity is
   written (the page answers with an error) *)
Theorem c12_sms_no_code_refused : forall (E : env) h r h' ls U,
  aget k_sms_secret (e_sess E) = [] -> bempty (aget f_recovery_code (values E)) = true ->
  sms_validator_post E SPValidate h = (r, h') -> h_sev h' = h_sev h ++ ls -> ~ In (Put k_uid U) ls.
Proof. exact sms_no_code_refused_lemma. Qed.
Print Assumptions c12_sms_no_code_refused.

(* two runs: the first wrote an identity; the next request of a browser whose session is the result of
   applying the first run's session events to any jar j, submitting ANY code (and no recovery code),
   writes no identity at all *)
Theorem c12_sms_code_once : forall E1 h1 r1 h1' ls U j E2 h2 r2 h2' ls2 U2,
  sms_validator_post E1 SPValidate h1 = (r1, h1') -> h_sev h1' = h_sev h1 ++ ls -> In (Put k_uid U) ls ->
  e_sess E2 = apply_events j ls -> bempty (aget f_recovery_code (values E2)) = true ->
  sms_validator_post E2 SPValidate h2 = (r2, h2') -> h_sev h2' = h_sev h2 ++ ls2 -> ~ In (Put k_uid U2) ls2.
Proof. exact sms_code_once_lemma. Qed.
Print Assumptions c12_sms_code_once.
