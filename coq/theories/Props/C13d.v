(* C13 — only the fully authenticated owner, proving the factor, changes 2FA settings (continued):
   the property over whole HISTORIES.

   Props/C13b.v, C13c.v give, handler by handler, the frame "nobody's (TOTP secret, SMS number,
   recovery codes) triple changes" and, for the five settings handlers, "only the context user's
   record".  Here (Proofs/History3.v) the frame is completed to the whole route table and to the
   administrative actions, lifted to [step], and turned into a provenance statement over [run]:
   whenever account P's triple differs between the start and the end of a history, some step of the
   history changed it, and that step was one of

     1. a POST to one of the five settings routes (/2fa/totp/confirm, /2fa/totp/remove,
        /2fa/sms/confirm, /2fa/sms/remove, /2fa/recovery/regen; module set up) by a browser whose
        session named P (non-empty uid), was not half-authenticated, P being stored;
     2. a POST to a second-factor validation page (/2fa/totp/validate, /2fa/sms/validate) that
        carried a non-empty recovery code, by a browser whose session uid OR pending marker was P
        (the consumption of one of P's recovery codes: the one change a browser that is not fully
        authenticated can make);
     3. the creation of P's record: P's own registration, or the first OAuth2 callback for the
        provider-scoped pid P (P had no record before the step);
     4. the harness writing P's record directly (ASeed).

   Vocabulary: tf_of st p - the triple stored for p, if any (Proofs/TwoFactorProofs.v);
   filed st - one entry per key, every record under its own pid (invariant of [step]). *)
From AB Require Import World.Step World.Exec Proofs.MonadInv Proofs.StoreLogic Proofs.TwoFactorProofs Proofs.TwoFactor2
  Proofs.HistoryProofs Proofs.History3.
Open Scope Z_scope.

Theorem c13_settings_route_reading : forall cfg req,
  settings_route cfg req <->
  (q_meth req = POST /\
   ((q_route req = RTotpConfirm /\ c_totp cfg = true) \/ (q_route req = RTotpRemove /\ c_totp cfg = true) \/
    (q_route req = RSmsConfirm /\ c_sms cfg = true) \/ (q_route req = RSmsRemove /\ c_sms cfg = true) \/
    (q_route req = RRecoveryRegen /\ c_recovery cfg = true))).
Proof. reflexivity. Qed.
Print Assumptions c13_settings_route_reading.

Theorem c13_validate_route_reading : forall cfg req pk,
  validate_route cfg req pk <->
  (q_meth req = POST /\
   ((q_route req = RTotpValidate /\ c_totp cfg = true /\ pk = k_totp_pending) \/
    (q_route req = RSmsValidate /\ c_sms cfg = true /\ pk = k_sms_pending))).
Proof. reflexivity. Qed.
Print Assumptions c13_validate_route_reading.

Theorem c13_tf_touch_reading : forall C cfg w a O P,
  tf_touch C cfg w a O P <->
  ((exists req, a = AReq req /\ settings_route cfg req /\
      let j := jar_get (q_browser req) (w_sess w) in
      alookup k_uid j = Some P /\ bempty P = false /\ ahas k_halfauth j = false /\
      ulookup P (s_users (w_st w)) <> None) \/
   (exists req pk, a = AReq req /\ validate_route cfg req pk /\
      let j := jar_get (q_browser req) (w_sess w) in
      let E := mkEnv C cfg O req (jar_get (q_browser req) (w_cook w)) j in
      bempty (aget f_recovery_code (values E)) = false /\
      bempty P = false /\ (aget k_uid j = P \/ aget pk j = P) /\
      ulookup P (s_users (w_st w)) <> None) \/
   (exists req, a = AReq req /\ q_route req = RRegister /\ q_meth req = POST /\ has_mod cfg MRegister = true /\
      let E := mkEnv C cfg O req (jar_get (q_browser req) (w_cook w)) (jar_get (q_browser req) (w_sess w)) in
      P = aget (pid_field E) (values E) /\ ulookup P (s_users (w_st w)) = None) \/
   (exists req prov, a = AReq req /\ q_route req = ROAuthCallback prov /\ q_meth req = GET /\
      has_mod cfg MOAuth2 = true /\ bmem prov (c_providers cfg) = true /\
      P = make_oauth2_pid prov (pa_uid (o_provider O)) /\ ulookup P (s_users (w_st w)) = None) \/
   (exists u rm, a = ASeed u rm /\ u_pid u = P)).
Proof. reflexivity. Qed.
Print Assumptions c13_tf_touch_reading.

(* ---- handler level: what was missing -------------------------------------------------------------- *)
(* the two validation pages, from a request's start state (no context user): either nobody's triple
   changes, or a non-empty recovery code was submitted and only the triple of the user the page found
   (the session's user, else the account parked under the pending key) changes *)
Theorem c13_totp_validate_touches_only_validated_user : forall (E : env) h r h',
  filed (h_st h) -> h_cuser h = None -> totp_validate_post E h = (r, h') ->
  filed (h_st h') /\
  ((forall p, tf_of (h_st h') p = tf_of (h_st h) p) \/
   (bempty (aget f_recovery_code (values E)) = false /\
    exists u, user_source2 E k_totp_pending h u /\
      forall p, p <> u_pid u -> tf_of (h_st h') p = tf_of (h_st h) p)).
Proof. exact totp_validate_post_tf. Qed.
Print Assumptions c13_totp_validate_touches_only_validated_user.

Theorem c13_sms_validate_touches_only_validated_user : forall (E : env) h r h',
  filed (h_st h) -> h_cuser h = None -> sms_validator_post E SPValidate h = (r, h') ->
  filed (h_st h') /\
  ((forall p, tf_of (h_st h') p = tf_of (h_st h) p) \/
   (bempty (aget f_recovery_code (values E)) = false /\
    exists u, user_source2 E k_sms_pending h u /\
      forall p, p <> u_pid u -> tf_of (h_st h') p = tf_of (h_st h) p)).
Proof. exact sms_validate_post_tf. Qed.
Print Assumptions c13_sms_validate_touches_only_validated_user.

(* a settings handler behind EmailVerify.Wrap and RequireFullAuth (the two confirm pages): like
   c13_settings_route_touches_only_session_user, with the non-empty session uid spelled out *)
Theorem c13_verified_settings_route_touches_only_session_user : forall (E : env) k (m : M unit) h r h',
  only_owner m -> keyed (h_st h) -> h_cuser h = None -> h_cpid h = None ->
  verified E k m h = (r, h') ->
  (forall p, p <> aget k_uid (e_sess E) -> ulookup p (s_users (h_st h')) = ulookup p (s_users (h_st h))) /\
  (s_users (h_st h') <> s_users (h_st h) ->
     bempty (aget k_uid (e_sess E)) = false /\ ahas k_halfauth (e_sess E) = false /\
     exists u, ulookup (aget k_uid (e_sess E)) (s_users (h_st h)) = Some u).
Proof. exact verified_owner. Qed.
Print Assumptions c13_verified_settings_route_touches_only_session_user.

(* every request that is not one of the nine classified ones - every page, login, logout, confirm,
   recover, one-time passwords, OAuth2 start, 2FA set-up and e-mail verification steps, the
   application stacks with every middleware, 404 / 405, disabled modules, wrong methods - keeps
   everybody's triple, faults or not *)
Theorem c13_other_routes_keep_2fa_fields : forall (E : env) h r h',
  fkind_of (e_cfg E) (e_req E) = None -> filed (h_st h) -> ctx_ok h -> serve E h = (r, h') ->
  forall p, tf_of (h_st h') p = tf_of (h_st h) p.
Proof. exact serve_fother_tf. Qed.
Print Assumptions c13_other_routes_keep_2fa_fields.

Theorem c13_fkind_of_reading : forall cfg req k, fkind_of cfg req = Some k ->
  match k with
  | FReg => q_route req = RRegister /\ q_meth req = POST /\ has_mod cfg MRegister = true
  | FOAuth p => q_route req = ROAuthCallback p /\ q_meth req = GET /\
                has_mod cfg MOAuth2 = true /\ bmem p (c_providers cfg) = true
  | FTotpConfirm => q_route req = RTotpConfirm /\ q_meth req = POST /\ c_totp cfg = true
  | FTotpRemove => q_route req = RTotpRemove /\ q_meth req = POST /\ c_totp cfg = true
  | FSmsConfirm => q_route req = RSmsConfirm /\ q_meth req = POST /\ c_sms cfg = true
  | FSmsRemove => q_route req = RSmsRemove /\ q_meth req = POST /\ c_sms cfg = true
  | FRegen => q_route req = RRecoveryRegen /\ q_meth req = POST /\ c_recovery cfg = true
  | FTotpVal => q_route req = RTotpValidate /\ q_meth req = POST /\ c_totp cfg = true
  | FSmsVal => q_route req = RSmsValidate /\ q_meth req = POST /\ c_sms cfg = true
  end.
Proof. exact fkind_of_inv. Qed.
Print Assumptions c13_fkind_of_reading.

(* the four administrative operations (lock, unlock, update password, start confirmation) keep
   everybody's triple *)
Theorem c13_admin_keeps_2fa_fields : forall C cfg O a T,
  (match a with ALock _ | AUnlock _ | AUpdatePassword _ _ | AStartConfirm _ => True | _ => False end) ->
  K (LT (mkEnv C cfg O null_request [] []) T) (admin C cfg O a) (fun _ => True).
Proof. exact KT_admin. Qed.
Print Assumptions c13_admin_keeps_2fa_fields.

(* ---- one step -------------------------------------------------------------------------------------- *)
(* any action, any oracle (storage faults included), from a well-filed world *)
Theorem c13_step_2fa_triple_provenance : forall C cfg w a O P,
  filed (w_st w) ->
  tf_of (w_st (fst (step C cfg w a O))) P <> tf_of (w_st w) P -> tf_touch C cfg w a O P.
Proof. exact step_tf_touch. Qed.
Print Assumptions c13_step_2fa_triple_provenance.

(* ---- histories ------------------------------------------------------------------------------------- *)
(* Any crypto, configuration, history, from any well-filed start world.  If account P's triple in the
   final world differs from the one in the start world, there is a step (a, O) of the history, taken
   from the world w1 after the prefix l1, that changed P's triple and satisfies [tf_touch] in w1:
   a settings request of a browser whose session named P behind the full-auth gate, a validation
   request with a recovery code of a browser whose session uid or pending marker was P, the creation
   of P's record, or ASeed of P. *)
Theorem c13_history_2fa_triple_provenance : forall C cfg l w0 w' os P,
  filed (w_st w0) -> run C cfg w0 l = (w', os) ->
  tf_of (w_st w') P <> tf_of (w_st w0) P ->
  exists l1 a O l2 w1, l = l1 ++ (a, O) :: l2 /\ fst (run C cfg w0 l1) = w1 /\
    tf_of (w_st (fst (step C cfg w1 a O))) P <> tf_of (w_st w1) P /\
    tf_touch C cfg w1 a O P.
Proof. exact c13_history_lemma. Qed.
Print Assumptions c13_history_2fa_triple_provenance.

(* the validation-page alternative is inhabited (executable crypto instance, computed): the account
   has a TOTP secret and one recovery code; the password parks the login (no identity, pending marker
   = the account); the recovery code at /2fa/totp/validate changes the stored triple *)
Example c13_history_recovery_code_nonvacuous :
  filed (w_st h3c_start) /\
  tf_of (w_st (fst (run XC h3t_cfg h3c_start h3c_history))) h3_pid <> tf_of (w_st h3c_start) h3_pid /\
  alookup k_uid (jar_get (bs "b1") (w_sess (fst (run XC h3t_cfg h3c_start [(AReq h3t_login, h3t_oracle)])))) = None /\
  alookup k_totp_pending (jar_get (bs "b1") (w_sess (fst (run XC h3t_cfg h3c_start [(AReq h3t_login, h3t_oracle)])))) = Some h3_pid.
Proof. exact h3c_witness. Qed.
Print Assumptions c13_history_recovery_code_nonvacuous.
