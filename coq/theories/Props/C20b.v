(* C20 (continued) — the sequential core of "no cross-talk between clients on different accounts":
   a request touches only the accounts it names, and its outcome depends only on them.

   Vocabulary (Proofs/Footprint.v):
     fp E h          the footprint of the request E started in handler state h: the list of account
                     identifiers the request can name —
                       the session's uid, totp_pending and sms_pending values (each only when non-empty),
                       the submitted pid form value,
                       the pid parsed out of the remember cookie,
                       the pid of the record that the submitted confirm token's selector finds in the
                       store the request starts from, likewise for the submitted recover token,
                       the OAuth2 pid built from the callback route's provider and the provider's answer,
                       the pid of the context user and the context pid, if h already carries them
                       (a request of [step] starts with neither);
     filed st        the user table has one entry per key and every record sits under its own pid;
     rest h          everything in the handler state except storage: pending session / cookie events, the
                     first write (response + the events flushed with it), mails, SMS, log lines, context
                     user and pid, backend-call counter and kinds, unread randomness;
     agree_on l s1 s2   s1 and s2 hold the same record and the same remember-token list for every pid in l;
     same_off l s s'    s' holds the same record and token list as s for every pid NOT in l;
     sel_agree E h1 h2  the stores of h1 and h2 answer the submitted confirm / recover token's selector
                        query alike (c20_selector_agreement gives a sufficient condition).
   All of it is about the whole router [serve]: every route, every middleware stack (RApp), every event
   hook in any module order, backend faults included. *)
From AB Require Import World.Handlers World.Step Proofs.MonadInv Proofs.StoreLogic Proofs.TwoFactorProofs
  Proofs.Footprint.

(* first half: a request leaves the record and the remember tokens of every account outside its
   footprint exactly as they were — whatever the result (value, error, panic) *)
Theorem c20_store_footprint : forall (E : env) h r h' p,
  filed (h_st h) -> serve E h = (r, h') -> ~ In p (fp E h) ->
  ulookup p (s_users (h_st h')) = ulookup p (s_users (h_st h)) /\
  rmlookup p (s_rm (h_st h')) = rmlookup p (s_rm (h_st h)).
Proof. exact serve_store_footprint. Qed.
Print Assumptions c20_store_footprint.

(* the well-formedness hypothesis is an invariant of the router *)
Theorem c20_store_stays_filed : forall (E : env) h r h',
  filed (h_st h) -> serve E h = (r, h') -> filed (h_st h').
Proof. exact serve_keeps_filed. Qed.
Print Assumptions c20_store_stays_filed.

(* second half: two start states that differ only in the records / tokens of accounts outside the
   footprint give the same result, the same response, session and cookie events, mails, SMS, log
   lines and backend calls ([rest]), and end states that again agree on the footprint; each run
   leaves its own out-of-footprint accounts alone *)
Theorem c20_outcome_independent : forall (E : env) h1 h2 r1 h1' r2 h2',
  filed (h_st h1) -> filed (h_st h2) ->
  rest h1 = rest h2 -> agree_on (fp E h1) (h_st h1) (h_st h2) -> sel_agree E h1 h2 ->
  serve E h1 = (r1, h1') -> serve E h2 = (r2, h2') ->
  r1 = r2 /\ rest h1' = rest h2' /\ agree_on (fp E h1) (h_st h1') (h_st h2') /\
  same_off (fp E h1) (h_st h1) (h_st h1') /\ same_off (fp E h1) (h_st h2) (h_st h2').
Proof. exact serve_outcome_independent. Qed.
Print Assumptions c20_outcome_independent.

(* when the two stores answer the token-selector queries alike: in both, every record the selector
   matches belongs to an account of l (for l := fp E h1: no record outside the footprint matches),
   and in the first store the selector matches at most one record *)
Theorem c20_selector_agreement : forall (E : env) h1 h2 l,
  filed (h_st h1) -> filed (h_st h2) -> agree_on l (h_st h1) (h_st h2) ->
  (forall raw, b64url_dec (aget f_cnf (values E)) = Some raw -> sel_within (csel_of E raw) l h1 h2) ->
  (forall raw, b64url_dec (aget f_token (values E)) = Some raw -> sel_within (rsel_of E raw) l h1 h2) ->
  sel_agree E h1 h2.
Proof. exact sel_agree_of_within. Qed.
Print Assumptions c20_selector_agreement.

(* the same two statements for one request against the whole system ([step]: per-browser jars,
   flush rule).  req_fp C cfg w req O = fp of the request's environment in a fresh handler state. *)
Theorem c20_step_store_footprint : forall C cfg w req O p,
  filed (w_st w) -> ~ In p (req_fp C cfg w req O) ->
  ulookup p (s_users (w_st (fst (step C cfg w (AReq req) O)))) = ulookup p (s_users (w_st w)) /\
  rmlookup p (s_rm (w_st (fst (step C cfg w (AReq req) O)))) = rmlookup p (s_rm (w_st w)).
Proof. exact step_store_footprint_lemma. Qed.
Print Assumptions c20_step_store_footprint.

(* two worlds in which the client's browser holds the same session and cookies and which agree on
   the accounts of the footprint (other clients may have changed anything else: other accounts,
   other browsers' jars): the client observes the same thing (response, mails, SMS, log lines,
   backend calls), its jars end up the same, and the worlds still agree on the footprint *)
Theorem c20_step_outcome_independent : forall C cfg w1 w2 req O,
  filed (w_st w1) -> filed (w_st w2) ->
  jar_get (q_browser req) (w_sess w1) = jar_get (q_browser req) (w_sess w2) ->
  jar_get (q_browser req) (w_cook w1) = jar_get (q_browser req) (w_cook w2) ->
  agree_on (req_fp C cfg w1 req O) (w_st w1) (w_st w2) ->
  sel_agree (req_env C cfg w1 req O) (init_hst (w_st w1) O) (init_hst (w_st w2) O) ->
  snd (step C cfg w1 (AReq req) O) = snd (step C cfg w2 (AReq req) O) /\
  jar_get (q_browser req) (w_sess (fst (step C cfg w1 (AReq req) O))) =
    jar_get (q_browser req) (w_sess (fst (step C cfg w2 (AReq req) O))) /\
  jar_get (q_browser req) (w_cook (fst (step C cfg w1 (AReq req) O))) =
    jar_get (q_browser req) (w_cook (fst (step C cfg w2 (AReq req) O))) /\
  agree_on (req_fp C cfg w1 req O) (w_st (fst (step C cfg w1 (AReq req) O))) (w_st (fst (step C cfg w2 (AReq req) O))) /\
  same_off (req_fp C cfg w1 req O) (w_st w1) (w_st (fst (step C cfg w1 (AReq req) O))) /\
  same_off (req_fp C cfg w1 req O) (w_st w2) (w_st (fst (step C cfg w2 (AReq req) O))).
Proof. exact step_outcome_independent_lemma. Qed.
Print Assumptions c20_step_outcome_independent.
