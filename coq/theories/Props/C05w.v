(* C05 under the wrapped deployment — a confirmation / recovery token works once and NEVER AGAIN, over
   whole histories of the system as mounted: [wrun] (module routes behind a global
   remember.Middleware, cfg [c_wrap_remember]).  The chain of Props/C05c.v carried over
   (Proofs/NeverAgainW.v).

   What the wrapper changes.  /confirm and /recover/end are module routes: the wrapper runs first, and
   for a request that carries a remember cookie and no session identity it may consume and re-issue a
   remember token and log the cookie's owner in (half-authenticated).  Its storage effects are confined
   to the remember table, so "storage is exactly what it was" reads "the USER TABLE is exactly what it
   was" (nobody is confirmed, no password changes), and "nobody is logged in" reads "an identity that
   appears is that of an account for which the request carried a remember cookie whose token is
   stored" ([remembered], Props/C12w.v).  When the wrapper has nothing to do ([wrapper_idle]) the
   unwrapped conclusions hold as they are.  The accepting request is recognised by a change of the
   user table.  Preservation of [ctok_absent] / [rtok_absent] is unchanged: the logic [tk] covers the
   wrapper prefix ([tk_serve_top]). *)
From AB Require Import World.Step World.Exec Proofs.TwoFactorProofs Proofs.OnceProofs Proofs.HistoryProofs
  Proofs.Wrapped Proofs.LockWorldW Proofs.TokenHistory Proofs.NeverAgainW.
Open Scope Z_scope.

(* ---- 2. an absent token is refused ---------------------------------------------------------------- *)
Theorem c05w_absent_confirm_refused : forall C cfg w req O,
  q_route req = RConfirm ->
  ctok_absent C (aget f_cnf (vals_of cfg req)) (w_st w) ->
  s_users (w_st (fst (wstep C cfg w (AReq req) O))) = s_users (w_st w).
Proof. exact confirm_absent_refused_w. Qed.
Print Assumptions c05w_absent_confirm_refused.

Theorem c05w_absent_confirm_refused_idle : forall C cfg w req O,
  wrapper_idle (mkEnv C cfg O req (jar_get (q_browser req) (w_cook w)) (jar_get (q_browser req) (w_sess w))) ->
  q_route req = RConfirm ->
  ctok_absent C (aget f_cnf (vals_of cfg req)) (w_st w) ->
  w_st (fst (wstep C cfg w (AReq req) O)) = w_st w.
Proof. exact confirm_absent_refused_idle. Qed.
Print Assumptions c05w_absent_confirm_refused_idle.

Theorem c05w_absent_recover_refused : forall C cfg w req O,
  q_route req = RRecoverEnd ->
  rtok_absent C (aget f_token (vals_of cfg req)) (w_st w) ->
  s_users (w_st (fst (wstep C cfg w (AReq req) O))) = s_users (w_st w) /\
  forall b V, alookup k_uid (jar_get b (w_sess (fst (wstep C cfg w (AReq req) O)))) = Some V ->
              alookup k_uid (jar_get b (w_sess w)) = Some V \/ remembered C w req V.
Proof. exact recover_absent_refused_w. Qed.
Print Assumptions c05w_absent_recover_refused.

Theorem c05w_absent_recover_refused_idle : forall C cfg w req O,
  wrapper_idle (mkEnv C cfg O req (jar_get (q_browser req) (w_cook w)) (jar_get (q_browser req) (w_sess w))) ->
  q_route req = RRecoverEnd ->
  rtok_absent C (aget f_token (vals_of cfg req)) (w_st w) ->
  w_st (fst (wstep C cfg w (AReq req) O)) = w_st w /\
  forall b V, alookup k_uid (jar_get b (w_sess (fst (wstep C cfg w (AReq req) O)))) = Some V ->
              alookup k_uid (jar_get b (w_sess w)) = Some V.
Proof. exact recover_absent_refused_idle. Qed.
Print Assumptions c05w_absent_recover_refused_idle.

(* ---- 3. preservation -------------------------------------------------------------------------------- *)
Theorem c05w_ctok_absent_preserved : forall C, crypto_laws C -> forall cfg w a O tok raw,
  b64url_dec tok = Some raw -> sha C (firstn 32 raw) <> [] ->
  ~ ctok_exception C tok (a, O) ->
  ctok_absent C tok (w_st w) -> ctok_absent C tok (w_st (fst (wstep C cfg w a O))).
Proof. exact ctok_absent_wstep. Qed.
Print Assumptions c05w_ctok_absent_preserved.

Theorem c05w_rtok_absent_preserved : forall C, crypto_laws C -> forall cfg w a O tok raw,
  b64url_dec tok = Some raw -> sha C (firstn 32 raw) <> [] ->
  ~ rtok_exception C tok (a, O) ->
  rtok_absent C tok (w_st w) -> rtok_absent C tok (w_st (fst (wstep C cfg w a O))).
Proof. exact rtok_absent_wstep. Qed.
Print Assumptions c05w_rtok_absent_preserved.

Theorem c05w_ctok_absent_history : forall C, crypto_laws C -> forall cfg tok raw l w,
  b64url_dec tok = Some raw -> sha C (firstn 32 raw) <> [] ->
  Forall (fun ao => ~ ctok_exception C tok ao) l ->
  ctok_absent C tok (w_st w) -> ctok_absent C tok (w_st (fst (wrun C cfg w l))).
Proof. exact ctok_absent_wrun. Qed.
Print Assumptions c05w_ctok_absent_history.

Theorem c05w_rtok_absent_history : forall C, crypto_laws C -> forall cfg tok raw l w,
  b64url_dec tok = Some raw -> sha C (firstn 32 raw) <> [] ->
  Forall (fun ao => ~ rtok_exception C tok ao) l ->
  rtok_absent C tok (w_st w) -> rtok_absent C tok (w_st (fst (wrun C cfg w l))).
Proof. exact rtok_absent_wrun. Qed.
Print Assumptions c05w_rtok_absent_history.

Theorem c05w_filed_step : forall C cfg w a O, filed (w_st w) -> filed (w_st (fst (wstep C cfg w a O))).
Proof. exact wstep_filed. Qed.
Print Assumptions c05w_filed_step.

Theorem c05w_filed_history : forall C cfg l w, filed (w_st w) -> filed (w_st (fst (wrun C cfg w l))).
Proof. exact wrun_filed. Qed.
Print Assumptions c05w_filed_history.

(* ---- 4. the accepting step establishes absence -------------------------------------------------------- *)
Theorem c05w_confirm_accepted_absent : forall C cfg w req O,
  q_route req = RConfirm ->
  s_users (w_st (fst (wstep C cfg w (AReq req) O))) <> s_users (w_st w) ->
  filed (w_st w) -> csel_unique (w_st w) ->
  (forall raw, b64url_dec (aget f_cnf (vals_of cfg req)) = Some raw -> sha C (firstn 32 raw) <> []) ->
  ctok_absent C (aget f_cnf (vals_of cfg req)) (w_st (fst (wstep C cfg w (AReq req) O))).
Proof. exact confirm_accepted_absent_w. Qed.
Print Assumptions c05w_confirm_accepted_absent.

Theorem c05w_recover_accepted_absent : forall C cfg w req O,
  q_route req = RRecoverEnd ->
  s_users (w_st (fst (wstep C cfg w (AReq req) O))) <> s_users (w_st w) ->
  filed (w_st w) -> rsel_unique (w_st w) ->
  (forall raw, b64url_dec (aget f_token (vals_of cfg req)) = Some raw -> sha C (firstn 32 raw) <> []) ->
  rtok_absent C (aget f_token (vals_of cfg req)) (w_st (fst (wstep C cfg w (AReq req) O))).
Proof. exact recover_accepted_absent_w. Qed.
Print Assumptions c05w_recover_accepted_absent.

(* ---- 5. never again ---------------------------------------------------------------------------------- *)
(* History l1 ++ (AReq r1, O1) :: l2 ++ [(AReq r2, O2)] of the system as mounted, from any world w0.
   r1 submitted the token on the confirm route and was accepted (the user table changed); no step of
   l2 is one of the visible exceptions.  Then r2, by ANY browser, with or without a remember cookie,
   submitting the same token value: the selector is absent from storage and the step leaves the user
   table exactly as it was; with an idle wrapper, storage as a whole. *)
Theorem c05w_confirm_never_again : forall C, crypto_laws C -> forall cfg w0 l1 r1 O1 l2 r2 O2 tok raw,
  b64url_dec tok = Some raw -> sha C (firstn 32 raw) <> [] ->
  let w1 := fst (wrun C cfg w0 l1) in
  let w1' := fst (wrun C cfg w0 (l1 ++ [(AReq r1, O1)])) in
  let w2 := fst (wrun C cfg w0 (l1 ++ (AReq r1, O1) :: l2)) in
  let w3 := fst (wrun C cfg w0 (l1 ++ (AReq r1, O1) :: l2 ++ [(AReq r2, O2)])) in
  q_route r1 = RConfirm -> aget f_cnf (vals_of cfg r1) = tok -> s_users (w_st w1') <> s_users (w_st w1) ->
  filed (w_st w1) -> csel_unique (w_st w1) ->
  Forall (fun ao => ~ ctok_exception C tok ao) l2 ->
  q_route r2 = RConfirm -> aget f_cnf (vals_of cfg r2) = tok ->
  ctok_absent C tok (w_st w2) /\ s_users (w_st w3) = s_users (w_st w2) /\
  (wrapper_idle (mkEnv C cfg O2 r2 (jar_get (q_browser r2) (w_cook w2)) (jar_get (q_browser r2) (w_sess w2))) ->
   w_st w3 = w_st w2).
Proof. exact confirm_never_again_w_lemma. Qed.
Print Assumptions c05w_confirm_never_again.

(* the same for recovery: r2 submits the same token with ANY password: the user table is exactly as it
   was, and an identity that appears in a session is that of an account whose remember cookie - with a
   stored token - r2 itself carried (the wrapper's doing, not the token's); with an idle wrapper:
   storage is exactly as it was and nobody is logged in *)
Theorem c05w_recover_never_again : forall C, crypto_laws C -> forall cfg w0 l1 r1 O1 l2 r2 O2 tok raw,
  b64url_dec tok = Some raw -> sha C (firstn 32 raw) <> [] ->
  let w1 := fst (wrun C cfg w0 l1) in
  let w1' := fst (wrun C cfg w0 (l1 ++ [(AReq r1, O1)])) in
  let w2 := fst (wrun C cfg w0 (l1 ++ (AReq r1, O1) :: l2)) in
  let w3 := fst (wrun C cfg w0 (l1 ++ (AReq r1, O1) :: l2 ++ [(AReq r2, O2)])) in
  q_route r1 = RRecoverEnd -> aget f_token (vals_of cfg r1) = tok -> s_users (w_st w1') <> s_users (w_st w1) ->
  filed (w_st w1) -> rsel_unique (w_st w1) ->
  Forall (fun ao => ~ rtok_exception C tok ao) l2 ->
  q_route r2 = RRecoverEnd -> aget f_token (vals_of cfg r2) = tok ->
  rtok_absent C tok (w_st w2) /\ s_users (w_st w3) = s_users (w_st w2) /\
  (forall b V, alookup k_uid (jar_get b (w_sess w3)) = Some V ->
               alookup k_uid (jar_get b (w_sess w2)) = Some V \/ remembered C w2 r2 V) /\
  (wrapper_idle (mkEnv C cfg O2 r2 (jar_get (q_browser r2) (w_cook w2)) (jar_get (q_browser r2) (w_sess w2))) ->
   w_st w3 = w_st w2 /\
   forall b V, alookup k_uid (jar_get b (w_sess w3)) = Some V -> alookup k_uid (jar_get b (w_sess w2)) = Some V).
Proof. exact recover_never_again_w_lemma. Qed.
Print Assumptions c05w_recover_never_again.

(* without the global wrapper: the statements of Props/C05c.v, for [wrun] *)
Theorem c05w_confirm_never_again_unwrapped : forall C, crypto_laws C -> forall cfg w0 l1 r1 O1 l2 r2 O2 tok raw,
  c_wrap_remember cfg = false ->
  b64url_dec tok = Some raw -> sha C (firstn 32 raw) <> [] ->
  let w1 := fst (wrun C cfg w0 l1) in
  let w1' := fst (wrun C cfg w0 (l1 ++ [(AReq r1, O1)])) in
  let w2 := fst (wrun C cfg w0 (l1 ++ (AReq r1, O1) :: l2)) in
  let w3 := fst (wrun C cfg w0 (l1 ++ (AReq r1, O1) :: l2 ++ [(AReq r2, O2)])) in
  q_route r1 = RConfirm -> aget f_cnf (vals_of cfg r1) = tok -> w_st w1' <> w_st w1 ->
  filed (w_st w1) -> csel_unique (w_st w1) ->
  Forall (fun ao => ~ ctok_exception C tok ao) l2 ->
  q_route r2 = RConfirm -> aget f_cnf (vals_of cfg r2) = tok ->
  ctok_absent C tok (w_st w2) /\ w_st w3 = w_st w2.
Proof. exact confirm_never_again_w_unwrapped_lemma. Qed.
Print Assumptions c05w_confirm_never_again_unwrapped.

Theorem c05w_recover_never_again_unwrapped : forall C, crypto_laws C -> forall cfg w0 l1 r1 O1 l2 r2 O2 tok raw,
  c_wrap_remember cfg = false ->
  b64url_dec tok = Some raw -> sha C (firstn 32 raw) <> [] ->
  let w1 := fst (wrun C cfg w0 l1) in
  let w1' := fst (wrun C cfg w0 (l1 ++ [(AReq r1, O1)])) in
  let w2 := fst (wrun C cfg w0 (l1 ++ (AReq r1, O1) :: l2)) in
  let w3 := fst (wrun C cfg w0 (l1 ++ (AReq r1, O1) :: l2 ++ [(AReq r2, O2)])) in
  q_route r1 = RRecoverEnd -> aget f_token (vals_of cfg r1) = tok -> s_users (w_st w1') <> s_users (w_st w1) ->
  filed (w_st w1) -> rsel_unique (w_st w1) ->
  Forall (fun ao => ~ rtok_exception C tok ao) l2 ->
  q_route r2 = RRecoverEnd -> aget f_token (vals_of cfg r2) = tok ->
  rtok_absent C tok (w_st w2) /\ w_st w3 = w_st w2 /\
  forall b V, alookup k_uid (jar_get b (w_sess w3)) = Some V -> alookup k_uid (jar_get b (w_sess w2)) = Some V.
Proof. exact recover_never_again_w_unwrapped_lemma. Qed.
Print Assumptions c05w_recover_never_again_unwrapped.

(* the hypotheses are satisfiable in a WRAPPED deployment (executable crypto instance, computed): the
   histories of c05_confirm_never_again_nonvacuous / c05_recover_never_again_nonvacuous run by the
   router as mounted *)
Example c05w_confirm_never_again_nonvacuous :
  exists C cfg w0 l1 r1 O1 l2 r2 tok raw,
    crypto_laws C /\ c_wrap_remember cfg = true /\ b64url_dec tok = Some raw /\ sha C (firstn 32 raw) <> [] /\
    q_route r1 = RConfirm /\ aget f_cnf (vals_of cfg r1) = tok /\
    s_users (w_st (fst (wrun C cfg w0 (l1 ++ [(AReq r1, O1)])))) <> s_users (w_st (fst (wrun C cfg w0 l1))) /\
    filed (w_st (fst (wrun C cfg w0 l1))) /\ csel_unique (w_st (fst (wrun C cfg w0 l1))) /\
    Forall (fun ao => ~ ctok_exception C tok ao) l2 /\ l2 <> [] /\
    q_route r2 = RConfirm /\ aget f_cnf (vals_of cfg r2) = tok.
Proof. exact wbx_confirm_witness. Qed.
Print Assumptions c05w_confirm_never_again_nonvacuous.

Example c05w_recover_never_again_nonvacuous :
  exists C cfg w0 l1 r1 O1 l2 r2 tok raw,
    crypto_laws C /\ c_wrap_remember cfg = true /\ b64url_dec tok = Some raw /\ sha C (firstn 32 raw) <> [] /\
    q_route r1 = RRecoverEnd /\ aget f_token (vals_of cfg r1) = tok /\
    s_users (w_st (fst (wrun C cfg w0 (l1 ++ [(AReq r1, O1)])))) <> s_users (w_st (fst (wrun C cfg w0 l1))) /\
    filed (w_st (fst (wrun C cfg w0 l1))) /\ rsel_unique (w_st (fst (wrun C cfg w0 l1))) /\
    Forall (fun ao => ~ rtok_exception C tok ao) l2 /\ l2 <> [] /\
    q_route r2 = RRecoverEnd /\ aget f_token (vals_of cfg r2) = tok.
Proof. exact wbx_recover_witness. Qed.
Print Assumptions c05w_recover_never_again_nonvacuous.
